#!/usr/bin/env python3
"""Regenerates DESIGN.md section 13 (between the ASBUILT markers) from props/*.json, coq/pins/*.pins and the evidence."""
import json, os, re
out = []
for f in sorted(os.listdir("props")):
    pid = f[:-5]
    p = json.load(open("props/" + f))
    pins = json.load(open("coq/pins/%s.pins" % pid)) if os.path.exists("coq/pins/%s.pins" % pid) else {}
    ev = json.load(open("evidence/%s.json" % pid)) if os.path.exists("evidence/%s.json" % pid) else {}
    cov = ev.get("coverage", {})
    files = sorted(x for x in os.listdir("coq/theories/" + pid) if x.endswith(".v"))
    loc = sum(len(open("coq/theories/%s/%s" % (pid, x)).read().splitlines()) for x in files)
    out.append("### %s\n" % pid)
    out.append("*Coq*: `coq/theories/%s/{%s}` (%d lines; %s obligations), deps %s.  *Driver*: `harness/inrepo/%s.rs`.  "
               "*Budget*: quick %s / thorough %s cases.  *Notes*: `notes/%s.md`.\n" % (
                   pid, ",".join(x[:-2] for x in files), loc, cov.get("obligations", "?"), p.get("deps") or "none",
                   p["driver"], p.get("n_quick"), p.get("n_thorough"), pid))
    out.append("*Theorems pinned in Props.v*: " + ", ".join("`%s`" % t for t in sorted(pins)) + ".\n")
    out.append("*Claim*: " + " ".join(p.get("level_text", "").split()) + "\n")
    out.append("*Trusted / not covered*: " + " ".join(p.get("level_note", "").split()) + "\n")
s = open("DESIGN.md").read()
s = re.sub(r"(<!-- ASBUILT-BEGIN -->\n).*?(<!-- ASBUILT-END -->)", lambda m: m.group(1) + "\n".join(out) + "\n" + m.group(2), s, flags=re.S)
open("DESIGN.md", "w").write(s)
print(len(out) // 5, "properties")
