#!/usr/bin/env python3
"""Resolves a merge conflict in known_findings.json by taking the union of both sides (entries are only ever appended)."""
import json, subprocess
side = lambda n: json.loads(subprocess.run(["git", "show", ":%d:known_findings.json" % n], capture_output=True, text=True, check=True).stdout)
ours, theirs = side(2), side(3)
out = dict(ours)
for k in ("known", "fixed"):
    seen = [json.dumps(e, sort_keys=True) for e in ours.get(k, [])]
    out[k] = list(ours.get(k, [])) + [e for e in theirs.get(k, []) if json.dumps(e, sort_keys=True) not in seen]
json.dump(out, open("known_findings.json", "w"), indent=1)
print("known:", len(out["known"]), "fixed:", len(out["fixed"]))
