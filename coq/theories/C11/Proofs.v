(* C11 — lemmas: sets and maps, the notification handler of one local endpoint. *)
From Coq Require Import List ZArith Bool Lia.
From RD Require Import Common.Corr C11.Model.
Import ListNotations.
Open Scope Z_scope.

(* ---------- keys ---------- *)
Lemma key_eqb_spec a b : key_eqb a b = true <-> a = b.
Proof.
  destruct a as [[a1 a2] a3], b as [[b1 b2] b3]; unfold key_eqb; cbn.
  rewrite !andb_true_iff, eqb_true_iff, !Z.eqb_eq. split.
  - intros [[-> ->] ->]; reflexivity.
  - intros E; inversion E; auto.
Qed.
Lemma key_eqb_refl a : key_eqb a a = true.
Proof. apply key_eqb_spec; reflexivity. Qed.
Lemma key_eqb_neq a b : a <> b -> key_eqb a b = false.
Proof. intros H; destruct (key_eqb a b) eqn:E; [apply key_eqb_spec in E; contradiction | reflexivity]. Qed.
Lemma key_eqb_sym a b : key_eqb a b = key_eqb b a.
Proof.
  destruct (key_eqb a b) eqn:E.
  - apply key_eqb_spec in E; subst. symmetry; apply key_eqb_refl.
  - destruct (key_eqb b a) eqn:E2; [|reflexivity]. apply key_eqb_spec in E2; subst.
    rewrite key_eqb_refl in E; discriminate.
Qed.
Lemma key_eqb_pfx a b : key_eqb a b = true -> kpfx a = kpfx b.
Proof. intros H; apply key_eqb_spec in H; subst; reflexivity. Qed.

Lemma kmem_In k m : kmem k m = true <-> In k m.
Proof.
  unfold kmem. rewrite existsb_exists. split.
  - intros [x [Hin E]]. apply key_eqb_spec in E; subst; assumption.
  - intros H. exists k. split; [assumption | apply key_eqb_refl].
Qed.
Lemma kmem_cons k x m : kmem k (x :: m) = key_eqb k x || kmem k m.
Proof. reflexivity. Qed.
Lemma kmem_filter x (P : key -> bool) m : kmem x (filter P m) = P x && kmem x m.
Proof.
  induction m as [|y m IH]; cbn [filter]; [cbn; rewrite andb_false_r; reflexivity|].
  destruct (P y) eqn:Py; rewrite ?kmem_cons, IH.
  - destruct (key_eqb x y) eqn:E; cbn [orb]; [|reflexivity].
    apply key_eqb_spec in E; subst. rewrite Py. reflexivity.
  - destruct (key_eqb x y) eqn:E; cbn [orb]; [|reflexivity].
    apply key_eqb_spec in E; subst. rewrite Py. reflexivity.
Qed.
Lemma kmem_krem k x m : kmem k (krem x m) = negb (key_eqb x k) && kmem k m.
Proof. unfold krem. apply (kmem_filter k (fun y => negb (key_eqb x y))). Qed.
Lemma krem_NoDup x m : NoDup m -> NoDup (krem x m).
Proof. apply NoDup_filter. Qed.

(* ---------- association maps ---------- *)
Section AMapLemmas.
  Context {V : Type}.
  Lemma aget_filter_key (P : key -> bool) k (m : list (key * V)) :
    aget k (filter (fun kv => P (fst kv)) m) = if P k then aget k m else None.
  Proof.
    induction m as [|[k0 v0] m IH]; cbn.
    - destruct (P k); reflexivity.
    - destruct (P k0) eqn:P0; cbn.
      + destruct (key_eqb k k0) eqn:E.
        * apply key_eqb_spec in E; subst. rewrite P0. reflexivity.
        * exact IH.
      + destruct (key_eqb k k0) eqn:E.
        * apply key_eqb_spec in E; subst. rewrite IH, P0. reflexivity.
        * exact IH.
  Qed.
  Lemma aget_adel k k' (m : list (key * V)) :
    aget k' (adel k m) = if key_eqb k k' then None else aget k' m.
  Proof.
    unfold adel. rewrite (aget_filter_key (fun x => negb (key_eqb k x))).
    destruct (key_eqb k k'); reflexivity.
  Qed.
  Lemma aget_aset k k' v (m : list (key * V)) :
    aget k' (aset k v m) = if key_eqb k' k then Some v else aget k' m.
  Proof.
    unfold aset; cbn. destruct (key_eqb k' k) eqn:E; [reflexivity|].
    rewrite aget_adel, (key_eqb_sym k k'), E. reflexivity.
  Qed.
  Lemma aget_app k (a b : list (key * V)) :
    aget k (a ++ b) = match aget k a with Some v => Some v | None => aget k b end.
  Proof.
    induction a as [|[k0 v0] a IH]; cbn; [reflexivity|].
    destruct (key_eqb k k0); [reflexivity | exact IH].
  Qed.
  Lemma pfx_filter_get p k (m : list (key * V)) :
    aget k (filter (pfx_is p) m) = if kpfx k =? p then aget k m else None.
  Proof. exact (aget_filter_key (fun x => kpfx x =? p) k m). Qed.
  Lemma npfx_filter_get p k (m : list (key * V)) :
    aget k (filter (fun kv => negb (pfx_is p kv)) m) = if kpfx k =? p then None else aget k m.
  Proof.
    pose proof (aget_filter_key (fun x => negb (kpfx x =? p)) k m) as H.
    cbn beta in H. unfold pfx_is. rewrite H. destruct (kpfx k =? p); reflexivity.
  Qed.
  Definition orelse (a b : option V) : option V := match a with Some v => Some v | None => b end.
  Lemma move_from_get p (from to : list (key * V)) k :
    aget k (fst (move_pfx p from to)) = if kpfx k =? p then None else aget k from.
  Proof. unfold move_pfx; cbn. apply npfx_filter_get. Qed.
  Lemma move_to_get p (from to : list (key * V)) k :
    aget k (snd (move_pfx p from to))
    = if kpfx k =? p then orelse (aget k from) (aget k to) else aget k to.
  Proof.
    unfold move_pfx; cbn. rewrite aget_app, pfx_filter_get.
    rewrite (aget_filter_key (fun x => negb (amem x (filter (pfx_is p) from))) k to).
    unfold amem. rewrite pfx_filter_get.
    destruct (kpfx k =? p); [|reflexivity].
    destruct (aget k from); reflexivity.
  Qed.
End AMapLemmas.

(* ---------- universe ---------- *)
Lemma range_In n x : In x (range n) <-> 0 <= x < n.
Proof.
  unfold range. rewrite in_map_iff. split.
  - intros [i [<- Hi]]. apply in_seq in Hi. lia.
  - intros H. exists (Z.to_nat x). split; [lia|]. apply in_seq. lia.
Qed.
Lemma ukeys_In pa k : In k (ukeys pa) <-> key_ok pa k = true.
Proof.
  unfold ukeys, key_ok, in_range. rewrite in_flat_map. destruct k as [[w p] e]; unfold kpfx; cbn. split.
  - intros [p' [Hp Hin]]. apply in_flat_map in Hin as [e' [He Hin]].
    apply range_In in Hp, He.
    assert (p = p' /\ e = e') as [-> ->] by (destruct Hin as [E|[E|[]]]; inversion E; auto).
    rewrite !andb_true_iff, !Z.leb_le, !Z.ltb_lt. lia.
  - rewrite !andb_true_iff, !Z.leb_le, !Z.ltb_lt. intros H.
    exists p. split; [apply range_In; lia|]. apply in_flat_map. exists e.
    split; [apply range_In; lia|]. destruct w; cbn; auto.
Qed.

(* ---------- the handler of one local endpoint ---------- *)
Definition compatible (c : lcfg) (q : qos) : bool :=
  match compliance (fst (off_req c q)) (snd (off_req c q)) with None => true | Some _ => false end.

Lemma wants_alt c ann k :
  wants c ann k = match aget k ann with
                  | Some v => applicable c k (fst v) && compatible c (snd v)
                  | None => false end.
Proof. reflexivity. Qed.

Lemma lost1_replay k d d' es : lost1 k d = (d', es) -> replay d es = Some d'.
Proof.
  unfold lost1. destruct (kmem k (mset d)) eqn:M; intros H; inversion H; subst; clear H; [|reflexivity].
  cbn [replay replay1]. cbn [total incompat]. rewrite M. cbn [negb andb].
  rewrite !Z.eqb_refl. reflexivity.
Qed.

Lemma replay_app d es1 es2 d1 :
  replay d es1 = Some d1 -> replay d (es1 ++ es2) = replay d1 es2.
Proof.
  revert d. induction es1 as [|e es1 IH]; intros d H; cbn in *.
  - inversion H; reflexivity.
  - destruct (replay1 d e) as [d0|]; [apply IH, H | discriminate].
Qed.

Lemma lost_all_replay ks : forall d d' es, lost_all ks d = (d', es) -> replay d es = Some d'.
Proof.
  induction ks as [|k ks IH]; intros d d' es H; cbn in H.
  - inversion H; reflexivity.
  - destruct (lost1 k d) as [d1 e1] eqn:E1. destruct (lost_all ks d1) as [d2 e2] eqn:E2.
    inversion H; subst. rewrite (replay_app d e1 e2 d1 (lost1_replay _ _ _ _ E1)). apply IH, E2.
Qed.

(* every batch of status events explains the change of the set and of the counters exactly *)
Lemma handle_replay U c d n d' es : handle U c d n = (d', es) -> replay d es = Some d'.
Proof.
  destruct n as [k t q|k|p]; cbn [handle].
  - destruct (applicable c k t); [|intros H; inversion H; reflexivity].
    destruct (off_req c q) as [off req]. destruct (compliance off req) as [pol|].
    + intros H; inversion H; subst; clear H. cbn [replay replay1 incompat]. rewrite !Z.eqb_refl. reflexivity.
    + destruct (kmem k (mset d)) eqn:M; intros H; inversion H; subst; clear H; [reflexivity|].
      cbn [replay replay1 total mset]. rewrite M. cbn [negb andb]. rewrite !Z.eqb_refl. reflexivity.
  - destruct (negb (Bool.eqb (kw k) (lw c))); [apply lost1_replay | intros H; inversion H; reflexivity].
  - apply lost_all_replay.
Qed.

Lemma handle_all_replay U c ns : forall d d' es, handle_all U c d ns = (d', es) -> replay d es = Some d'.
Proof.
  induction ns as [|n ns IH]; intros d d' es H; cbn in H.
  - inversion H; reflexivity.
  - destruct (handle U c d n) as [d1 e1] eqn:E1. destruct (handle_all U c d1 ns) as [d2 e2] eqn:E2.
    inversion H; subst. rewrite (replay_app d e1 e2 d1 (handle_replay _ _ _ _ _ _ E1)). apply IH, E2.
Qed.

(* membership after a notification *)
Lemma lost1_mem k d x : kmem x (mset (fst (lost1 k d))) = negb (key_eqb k x) && kmem x (mset d).
Proof.
  unfold lost1. destruct (kmem k (mset d)) eqn:M; cbn [fst mset].
  - apply kmem_krem.
  - destruct (key_eqb k x) eqn:E; [|reflexivity]. apply key_eqb_spec in E; subst. rewrite M. reflexivity.
Qed.

Lemma lost_all_mem ks : forall d x,
  kmem x (mset (fst (lost_all ks d))) = negb (kmem x ks) && kmem x (mset d).
Proof.
  induction ks as [|k ks IH]; intros d x; cbn [lost_all]; [reflexivity|].
  destruct (lost1 k d) as [d1 e1] eqn:E1. destruct (lost_all ks d1) as [d2 e2] eqn:E2. cbn [fst].
  change d2 with (fst (d2, e2)). rewrite <- E2, IH.
  change d1 with (fst (d1, e1)). rewrite <- E1, lost1_mem, kmem_cons, (key_eqb_sym x k).
  destruct (key_eqb k x), (kmem x ks); reflexivity.
Qed.

Lemma handle_mem U c d n x :
  kmem x (mset (fst (handle U c d n)))
  = match n with
    | NUpd k t q => kmem x (mset d) || (key_eqb x k && applicable c k t && compatible c q)
    | NLost k => kmem x (mset d) && negb (key_eqb k x && negb (Bool.eqb (kw k) (lw c)))
    | NPLost p => kmem x (mset d) && negb ((kpfx x =? p) && kmem x U)
    end.
Proof.
  destruct n as [k t q|k|p]; cbn [handle].
  - unfold compatible. destruct (applicable c k t); [|cbn; rewrite andb_false_r, orb_false_r; reflexivity].
    destruct (off_req c q) as [off req]; cbn [fst snd]. destruct (compliance off req) as [pol|]; cbn [fst mset].
    + rewrite andb_false_r, orb_false_r. reflexivity.
    + rewrite !andb_true_r. destruct (kmem k (mset d)) eqn:M; cbn [fst mset].
      * destruct (key_eqb x k) eqn:E; [apply key_eqb_spec in E; subst; rewrite M|]; cbn;
          rewrite ?orb_false_r; reflexivity.
      * rewrite kmem_cons. apply orb_comm.
  - destruct (negb (Bool.eqb (kw k) (lw c))); cbn [fst].
    + rewrite lost1_mem, andb_true_r. apply andb_comm.
    + rewrite andb_false_r. cbn. rewrite andb_true_r. reflexivity.
  - rewrite lost_all_mem, kmem_filter.
    destruct (kmem x (mset d)), (kpfx x =? p), (kmem x U); reflexivity.
Qed.

(* counters *)
Lemma lost1_counts k d : total (fst (lost1 k d)) = total d /\ incompat (fst (lost1 k d)) = incompat d.
Proof. unfold lost1. destruct (kmem k (mset d)); split; reflexivity. Qed.
Lemma lost_all_counts ks : forall d,
  total (fst (lost_all ks d)) = total d /\ incompat (fst (lost_all ks d)) = incompat d.
Proof.
  induction ks as [|k ks IH]; intros d; cbn [lost_all]; [split; reflexivity|].
  destruct (lost1 k d) as [d1 e1] eqn:E1. destruct (lost_all ks d1) as [d2 e2] eqn:E2. cbn [fst].
  change d2 with (fst (d2, e2)). rewrite <- E2. destruct (IH d1) as [-> ->].
  change d1 with (fst (d1, e1)). rewrite <- E1. apply lost1_counts.
Qed.
Lemma handle_total U c d n : total d <= total (fst (handle U c d n)).
Proof.
  destruct n as [k t q|k|p]; cbn [handle].
  - destruct (applicable c k t); [|cbn; lia]. destruct (off_req c q) as [off req].
    destruct (compliance off req); [cbn; lia|]. destruct (kmem k (mset d)); cbn; lia.
  - destruct (negb _); [|cbn; lia]. destruct (lost1_counts k d) as [-> _]. lia.
  - destruct (lost_all_counts (filter (fun k => (kpfx k =? p) && kmem k (mset d)) U) d) as [-> _]. lia.
Qed.

(* no duplicates in the set: |set| = length *)
Lemma lost1_NoDup k d : NoDup (mset d) -> NoDup (mset (fst (lost1 k d))).
Proof. unfold lost1. destruct (kmem k (mset d)); cbn; [apply krem_NoDup | auto]. Qed.
Lemma lost_all_NoDup ks : forall d, NoDup (mset d) -> NoDup (mset (fst (lost_all ks d))).
Proof.
  induction ks as [|k ks IH]; intros d H; cbn [lost_all]; [exact H|].
  destruct (lost1 k d) as [d1 e1] eqn:E1. destruct (lost_all ks d1) as [d2 e2] eqn:E2. cbn [fst].
  change d2 with (fst (d2, e2)). rewrite <- E2. apply IH.
  change d1 with (fst (d1, e1)). rewrite <- E1. apply lost1_NoDup, H.
Qed.
Lemma handle_NoDup U c d n : NoDup (mset d) -> NoDup (mset (fst (handle U c d n))).
Proof.
  intros H. destruct n as [k t q|k|p]; cbn [handle].
  - destruct (applicable c k t); [|exact H]. destruct (off_req c q) as [off req].
    destruct (compliance off req); [exact H|]. destruct (kmem k (mset d)) eqn:M; cbn; [exact H|].
    constructor; [|exact H]. intros Hin. apply kmem_In in Hin. congruence.
  - destruct (negb _); [apply lost1_NoDup, H | exact H].
  - apply lost_all_NoDup, H.
Qed.

(* incompatible-QoS events *)
Lemma lost1_incompat k d : incompat_events (snd (lost1 k d)) = [].
Proof. unfold lost1. destruct (kmem k (mset d)); reflexivity. Qed.
Lemma incompat_events_app a b : incompat_events (a ++ b) = incompat_events a ++ incompat_events b.
Proof. unfold incompat_events. apply flat_map_app. Qed.
Lemma lost_all_incompat ks : forall d, incompat_events (snd (lost_all ks d)) = [].
Proof.
  induction ks as [|k ks IH]; intros d; cbn [lost_all]; [reflexivity|].
  destruct (lost1 k d) as [d1 e1] eqn:E1. destruct (lost_all ks d1) as [d2 e2] eqn:E2. cbn [snd].
  rewrite incompat_events_app.
  change e1 with (snd (d1, e1)). rewrite <- E1, lost1_incompat.
  change e2 with (snd (d2, e2)). rewrite <- E2, IH. reflexivity.
Qed.
Lemma handle_incompat U c d n :
  incompat_events (snd (handle U c d n))
  = match n with NUpd k t q => incompat_of c k (t, q) | _ => [] end.
Proof.
  destruct n as [k t q|k|p]; cbn [handle].
  - unfold incompat_of; cbn [fst snd]. destruct (applicable c k t); [|reflexivity].
    destruct (off_req c q) as [off req]; cbn [fst snd]. destruct (compliance off req); [reflexivity|].
    destruct (kmem k (mset d)); reflexivity.
  - destruct (negb _); [apply lost1_incompat | reflexivity].
  - apply lost_all_incompat.
Qed.

(* ---------- a list of notifications ---------- *)
Lemma handle_all_cons U c d n ns :
  handle_all U c d (n :: ns)
  = (fst (handle_all U c (fst (handle U c d n)) ns),
     snd (handle U c d n) ++ snd (handle_all U c (fst (handle U c d n)) ns)).
Proof.
  cbn [handle_all]. destruct (handle U c d n) as [d1 e1]. cbn [fst snd].
  destruct (handle_all U c d1 ns) as [d2 e2]. reflexivity.
Qed.

Lemma handle_all_total U c ns : forall d, total d <= total (fst (handle_all U c d ns)).
Proof.
  induction ns as [|n ns IH]; intros d; [cbn; lia|].
  rewrite handle_all_cons. cbn [fst]. pose proof (handle_total U c d n). specialize (IH (fst (handle U c d n))). lia.
Qed.
Lemma handle_all_NoDup U c ns : forall d, NoDup (mset d) -> NoDup (mset (fst (handle_all U c d ns))).
Proof.
  induction ns as [|n ns IH]; intros d H; [exact H|].
  rewrite handle_all_cons. cbn [fst]. apply IH, handle_NoDup, H.
Qed.
Lemma handle_all_incompat U c ns : forall d,
  incompat_events (snd (handle_all U c d ns))
  = flat_map (fun n => match n with NUpd k t q => incompat_of c k (t, q) | _ => [] end) ns.
Proof.
  induction ns as [|n ns IH]; intros d; [reflexivity|].
  rewrite handle_all_cons. cbn [snd flat_map]. rewrite incompat_events_app, handle_incompat, IH. reflexivity.
Qed.

(* membership after a batch of (re)announcements *)
Definition upd_hits (c : lcfg) (x : key) (n : note) : bool :=
  match n with NUpd k t q => key_eqb x k && applicable c k t && compatible c q | _ => false end.
Definition only_upd (ns : list note) : Prop := forall n, In n ns -> exists k t q, n = NUpd k t q.

Lemma handle_all_upd_mem U c ns : forall d x,
  only_upd ns ->
  kmem x (mset (fst (handle_all U c d ns))) = kmem x (mset d) || existsb (upd_hits c x) ns.
Proof.
  induction ns as [|n ns IH]; intros d x Ho; [cbn; rewrite orb_false_r; reflexivity|].
  rewrite handle_all_cons. cbn [fst existsb].
  rewrite IH by (intros n' Hn; apply Ho; right; exact Hn).
  rewrite handle_mem. destruct (Ho n (or_introl eq_refl)) as (k & t & q & ->). cbn [upd_hits].
  rewrite orb_assoc. reflexivity.
Qed.
