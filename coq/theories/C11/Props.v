(* C11 — property theorems only.
   [exec pa (init pa) ops] is the state (DiscoveryDB + one (matched set, total, incompatible count)
   per local reader/writer) after the discovery events [ops]; [hist pa ops] is, from the history
   alone, what is known / currently announced / parked; [wants c ann k] says that local endpoint c
   should be matched with remote endpoint k (other kind, same topic, request/offered compatible)
   given the announced endpoints [ann].  Premise [Dstable D ops]: every announcement of a remote
   endpoint carries the same topic and QoS (D k). *)
From Coq Require Import List ZArith Bool.
From RD Require Import Common.Corr C11.Model C11.Proofs C11.Oracle C11.Theorems.
Import ListNotations.
Open Scope Z_scope.

Theorem C11_model_ok : forall c, ok c (run c) = true.
Proof. exact run_ok. Qed.
Print Assumptions C11_model_ok.

(* after every history, for every local endpoint: matched set = currently announced, other kind,
   same topic, compatible -- as a set, without duplicates, and as the list the queries show *)
Theorem C11_set_exact : forall pa D ops c d,
  forallb (op_ok pa) ops = true -> Dstable D ops ->
  In (c, d) (combine (locals pa) (sloc (exec pa (init pa) ops))) ->
  (forall k, In k (mset d) <-> wants c (act (hist pa ops)) k = true)
  /\ NoDup (mset d)
  /\ filter (fun k => kmem k (mset d)) (ukeys pa) = expected pa c (act (hist pa ops)).
Proof. exact set_exact. Qed.
Print Assumptions C11_set_exact.

Theorem C11_wants_meaning : forall c ann k,
  wants c ann k = true <->
  exists t q, aget k ann = Some (t, q) /\ kw k <> lw c /\ t = ltopic c
              /\ compliance (fst (off_req c q)) (snd (off_req c q)) = None.
Proof. exact wants_spec. Qed.
Print Assumptions C11_wants_meaning.

(* the model's DiscoveryDB is the history's notion of known / announced / parked *)
Theorem C11_db_is_history : forall pa ops, sdb (exec pa (init pa) ops) = hist pa ops.
Proof. exact exec_db. Qed.
Print Assumptions C11_db_is_history.

(* in any state and for any operation: every local endpoint handles the operation's notifications
   on its own, and the status events it emits replay exactly its old set and counters into its new
   ones: each event adds an unmatched or removes a matched endpoint, carries current = |set| after
   it and the running total (which only grows) *)
Theorem C11_step_shape : forall fixed pa s o,
  sloc (fst (step_with fixed pa s o))
  = map (fun cd => fst (handle_all (ukeys pa) (fst cd) (snd cd) (notes_of fixed pa s o)))
        (combine (locals pa) (sloc s))
  /\ snd (snd (step_with fixed pa s o))
     = map (fun cd => snd (handle_all (ukeys pa) (fst cd) (snd cd) (notes_of fixed pa s o)))
           (combine (locals pa) (sloc s)).
Proof. exact step_shape. Qed.
Print Assumptions C11_step_shape.

Theorem C11_event_per_change : forall fixed pa s o c d,
  In (c, d) (combine (locals pa) (sloc s)) ->
  replay d (snd (handle_all (ukeys pa) c d (notes_of fixed pa s o)))
  = Some (fst (handle_all (ukeys pa) c d (notes_of fixed pa s o))).
Proof. exact event_per_change. Qed.
Print Assumptions C11_event_per_change.

Theorem C11_event_meaning : forall d e d',
  replay1 d e = Some d' ->
  match e with
  | EvMatched tot tch cur cch k =>
      (cch = 1 /\ ~ In k (mset d) /\ mset d' = k :: mset d /\ cur = Z.of_nat (length (mset d'))
       /\ tot = total d + 1 /\ tch = 1 /\ total d' = tot /\ incompat d' = incompat d)
      \/ (cch = -1 /\ In k (mset d) /\ mset d' = krem k (mset d) /\ cur = Z.of_nat (length (mset d'))
          /\ tot = total d /\ tch = 0 /\ total d' = tot /\ incompat d' = incompat d)
  | EvIncompat cnt ch pol k =>
      cnt = incompat d + 1 /\ ch = 1 /\ mset d' = mset d /\ total d' = total d /\ incompat d' = cnt
  end.
Proof. exact event_meaning. Qed.
Print Assumptions C11_event_meaning.

Theorem C11_total_monotone : forall fixed pa s o c d,
  total d <= total (fst (handle_all (ukeys pa) c d (notes_of fixed pa s o))).
Proof. exact total_monotone. Qed.
Print Assumptions C11_total_monotone.

(* an incompatible announcement gives exactly one incompatible-QoS event and no match; and
   incompatible-QoS events come from nothing else *)
Theorem C11_incompatible_event : forall pa D ops k t q c d pol,
  forallb (op_ok pa) ops = true -> Dstable D (ops ++ [Announce k t q]) ->
  let s := exec pa (init pa) ops in
  In (c, d) (combine (locals pa) (sloc s)) ->
  applicable c k t = true ->
  compliance (fst (off_req c q)) (snd (off_req c q)) = Some pol ->
  handle_all (ukeys pa) c d (notes_of true pa s (Announce k t q))
  = ({| mset := mset d; total := total d; incompat := incompat d + 1 |},
     [EvIncompat (incompat d + 1) 1 pol k])
  /\ ~ In k (mset d).
Proof. exact incompatible_event. Qed.
Print Assumptions C11_incompatible_event.

Theorem C11_incompatible_only : forall U c d ns,
  incompat_events (snd (handle_all U c d ns))
  = flat_map (fun n => match n with NUpd k t q => incompat_of c k (t, q) | _ => [] end) ns.
Proof. exact incompatible_only. Qed.
Print Assumptions C11_incompatible_only.

(* after a participant dispose, or an effective time-out, no local endpoint is matched with any
   endpoint of that participant *)
Theorem C11_participant_lost_all : forall pa D ops o p c d k,
  forallb (op_ok pa) (ops ++ [o]) = true -> Dstable D (ops ++ [o]) ->
  (o = PDispose p \/ (o = Timeout p /\ zmem p (known (hist pa ops)) = true)) ->
  In (c, d) (combine (locals pa) (sloc (exec pa (init pa) (ops ++ [o])))) ->
  kpfx k = p -> ~ In k (mset d).
Proof. exact participant_lost_all. Qed.
Print Assumptions C11_participant_lost_all.

(* what a passing oracle says about an observed trace *)
Theorem C11_oracle_sound : forall pa ops tr,
  ok (pa, ops) (Some tr) = true -> stableb ops = true -> trace_spec pa (init pa) ops tr.
Proof. exact oracle_sound. Qed.
Print Assumptions C11_oracle_sound.

(* pinned commit: time-out + rediscovery restored the endpoints in the DB without notifying the
   local endpoints (repaired by a fix: commit) *)
Theorem C11_old_refuted :
  exists c, wfb c = true /\ stableb (snd c) = true /\ ok c (run_old c) = false /\ ok c (run c) = true.
Proof. exact old_refuted. Qed.
Print Assumptions C11_old_refuted.
