(* C11 — invariant of reachable states (the matched set of every local endpoint is exact), and the
   model passes the property oracle on every case. *)
From Coq Require Import List ZArith Bool Lia.
From RD Require Import Common.Corr C11.Model C11.Proofs.
Import ListNotations.
Open Scope Z_scope.

(* ---------- the premise: a remote endpoint keeps its topic and QoS ---------- *)
Definition Dstable (D : key -> option edata) (ops : list op) : Prop :=
  forall k t q, In (Announce k t q) ops -> D k = Some (t, q).

Lemma Dstable_tail D o ops : Dstable D (o :: ops) -> Dstable D ops.
Proof. intros H k t q Hin. apply H. right; exact Hin. Qed.

Lemma qos_eqb_spec a b : qos_eqb a b = true <-> a = b.
Proof.
  destruct a as [r1 d1], b as [r2 d2]; unfold qos_eqb; cbn.
  rewrite andb_true_iff, !Z.eqb_eq. split; [intros [-> ->]; reflexivity | intros E; inversion E; auto].
Qed.
Lemma edata_eqb_spec a b : edata_eqb a b = true <-> a = b.
Proof.
  destruct a as [t1 q1], b as [t2 q2]; unfold edata_eqb; cbn.
  rewrite andb_true_iff, Z.eqb_eq, qos_eqb_spec. split; [intros [-> ->]; reflexivity | intros E; inversion E; auto].
Qed.

Lemma stableb_Dstable ops : stableb ops = true -> Dstable (first_data ops) ops.
Proof.
  unfold stableb. rewrite forallb_forall. intros H k t q Hin. specialize (H _ Hin). cbn in H.
  apply (option_eqb_spec edata_eqb edata_eqb_spec) in H. exact H.
Qed.

(* ---------- the step, unfolded ---------- *)
Definition notes_of (fixed : bool) (pa : params) (s : st) (o : op) : list note :=
  snd (step_db fixed (ukeys pa) (sdb s) o).
Definition db_of (fixed : bool) (pa : params) (s : st) (o : op) : db :=
  fst (fst (step_db fixed (ukeys pa) (sdb s) o)).
Definition out_of (fixed : bool) (pa : params) (s : st) (o : op) : out :=
  snd (fst (step_db fixed (ukeys pa) (sdb s) o)).

Lemma step_unfold fixed pa s o :
  step_with fixed pa s o
  = ({| sdb := db_of fixed pa s o;
        sloc := map (fun cd => fst (handle_all (ukeys pa) (fst cd) (snd cd) (notes_of fixed pa s o)))
                    (combine (locals pa) (sloc s)) |},
     (out_of fixed pa s o,
      map (fun cd => snd (handle_all (ukeys pa) (fst cd) (snd cd) (notes_of fixed pa s o)))
          (combine (locals pa) (sloc s)))).
Proof.
  unfold step_with, db_of, out_of, notes_of.
  destruct (step_db fixed (ukeys pa) (sdb s) o) as [[db' r] ns]. cbn [fst snd].
  rewrite !map_map. reflexivity.
Qed.

Lemma combine_map_In {A B C} (g : A -> B -> C) (l : list A) : forall (m : list B) a c,
  In (a, c) (combine l (map (fun ab => g (fst ab) (snd ab)) (combine l m))) ->
  exists b, In (a, b) (combine l m) /\ c = g a b.
Proof.
  induction l as [|x l IH]; intros m a c H; [destruct H|].
  destruct m as [|y m]; [destruct H|]. cbn in H. destruct H as [E|H].
  - inversion E; subst. exists y. split; [left; reflexivity | reflexivity].
  - destruct (IH m a c H) as [b [Hb Hc]]. exists b. split; [right; exact Hb | exact Hc].
Qed.

Lemma combine_map_len {A B C} (g : A * B -> C) (l : list A) (m : list B) :
  length l = length m -> length (map g (combine l m)) = length l.
Proof. intros H. rewrite map_length, combine_length, <- H. apply Nat.min_id. Qed.

(* ---------- database views after one operation ---------- *)
Definition vact (h : db) (k : key) : option edata := aget k (act h).
Definition vatt (h : db) (k : key) : option edata := aget k (attic h).

Lemma rm_act p a h k :
  vact (remove_participant p a h) k = if kpfx k =? p then None else vact h k.
Proof.
  unfold remove_participant, vact. destruct a; cbn [act].
  - apply npfx_filter_get.
  - pose proof (move_from_get p (act h) (attic h) k) as H.
    destruct (move_pfx p (act h) (attic h)); cbn in *. exact H.
Qed.
Lemma rm_att p a h k :
  vatt (remove_participant p a h) k
  = if kpfx k =? p then (if a then None else orelse (vact h k) (vatt h k)) else vatt h k.
Proof.
  unfold remove_participant, vact, vatt. destruct a; cbn [attic].
  - apply npfx_filter_get.
  - pose proof (move_to_get p (act h) (attic h) k) as H.
    destruct (move_pfx p (act h) (attic h)); cbn in *. exact H.
Qed.
Lemma up_act p h k :
  vact (fst (update_participant p h)) k
  = if zmem p (known h) then vact h k
    else if kpfx k =? p then orelse (vatt h k) (vact h k) else vact h k.
Proof.
  unfold update_participant, vact, vatt. destruct (zmem p (known h)); cbn [negb]; [reflexivity|].
  pose proof (move_to_get p (attic h) (act h) k) as H.
  destruct (move_pfx p (attic h) (act h)); cbn in *. exact H.
Qed.
Lemma up_att p h k :
  vatt (fst (update_participant p h)) k
  = if zmem p (known h) then vatt h k else if kpfx k =? p then None else vatt h k.
Proof.
  unfold update_participant, vact, vatt. destruct (zmem p (known h)); cbn [negb]; [reflexivity|].
  pose proof (move_from_get p (attic h) (act h) k) as H.
  destruct (move_pfx p (attic h) (act h)); cbn in *. exact H.
Qed.
Lemma up_new p h : snd (update_participant p h) = negb (zmem p (known h)).
Proof.
  unfold update_participant. destruct (zmem p (known h)); cbn [negb]; [reflexivity|].
  destruct (move_pfx p (attic h) (act h)); reflexivity.
Qed.

(* ---------- invariant ---------- *)
Record Inv (pa : params) (D : key -> option edata) (s : st) : Prop := {
  i_len : length (sloc s) = length (locals pa);
  i_data : forall k v, vact (sdb s) k = Some v \/ vatt (sdb s) k = Some v ->
                       D k = Some v /\ key_ok pa k = true;
  i_exact : forall c d, In (c, d) (combine (locals pa) (sloc s)) ->
                        (forall k, kmem k (mset d) = wants c (act (sdb s)) k) /\ NoDup (mset d) }.

Lemma Inv_init pa D : Inv pa D (init pa).
Proof.
  constructor; cbn.
  - apply map_length.
  - intros k v [H|H]; discriminate.
  - intros c d Hin. apply in_combine_r in Hin. apply in_map_iff in Hin as [x [<- _]]. split.
    + intros k. reflexivity.
    + constructor.
Qed.

Lemma reannounce_only U p h : only_upd (reannounce U p h).
Proof.
  intros n Hn. unfold reannounce in Hn. apply in_flat_map in Hn as [k [_ Hn]].
  destruct (kpfx k =? p); [|destruct Hn]. destruct (aget k (act h)) as [v|]; [|destruct Hn].
  destruct Hn as [<-|[]]. eauto.
Qed.

Lemma reannounce_hits pa c p h x :
  existsb (upd_hits c x) (reannounce (ukeys pa) p h)
  = (kpfx x =? p) && key_ok pa x
    && match vact h x with Some v => applicable c x (fst v) && compatible c (snd v) | None => false end.
Proof.
  unfold reannounce, vact.
  destruct (existsb (upd_hits c x) _) eqn:E.
  - apply existsb_exists in E as [n [Hn Hh]]. apply in_flat_map in Hn as [k [Hk Hn]].
    destruct (kpfx k =? p) eqn:Ep; [|destruct Hn]. destruct (aget k (act h)) as [v|] eqn:Ev; [|destruct Hn].
    destruct Hn as [<-|[]]. cbn [upd_hits] in Hh.
    apply andb_true_iff in Hh as [Hh Hc]. apply andb_true_iff in Hh as [Hx Ha].
    apply key_eqb_spec in Hx; subst x. apply ukeys_In in Hk. rewrite Ep, Hk, Ev, Ha, Hc. reflexivity.
  - destruct (kpfx x =? p) eqn:Ep; [|reflexivity]. destruct (key_ok pa x) eqn:Ek; [|reflexivity].
    destruct (aget x (act h)) as [v|] eqn:Ev; [|reflexivity]. cbn [andb].
    destruct (applicable c x (fst v) && compatible c (snd v)) eqn:Ea; [|reflexivity].
    exfalso. rewrite <- not_true_iff_false in E. apply E. apply existsb_exists.
    exists (NUpd x (fst v) (snd v)). split.
    + apply in_flat_map. exists x. split; [apply ukeys_In, Ek|]. rewrite Ep, Ev. left; reflexivity.
    + cbn [upd_hits]. rewrite key_eqb_refl. exact Ea.
Qed.

Lemma wants_ext c m1 m2 k : aget k m1 = aget k m2 -> wants c m1 k = wants c m2 k.
Proof. unfold wants. intros ->. reflexivity. Qed.

Lemma applicable_kind c k t : applicable c k t = true -> kw k <> lw c.
Proof.
  unfold applicable. intros H. apply andb_true_iff in H as [H _]. apply negb_true_iff in H.
  intros E. rewrite E in H. destruct (lw c); discriminate.
Qed.

(* one operation preserves the invariant *)
Lemma step_inv pa D s o :
  Inv pa D s -> op_ok pa o = true -> Dstable D [o] ->
  Inv pa D (fst (step pa s o)).
Proof.
  intros I Hok Hst. unfold step. rewrite step_unfold. cbn [fst].
  pose proof (i_len _ _ _ I) as Il. pose proof (i_data _ _ _ I) as Id. pose proof (i_exact _ _ _ I) as Ie.
  set (h := sdb s) in *.
  assert (Hdata : forall k v, vact (db_of true pa s o) k = Some v \/ vatt (db_of true pa s o) k = Some v ->
                              D k = Some v /\ key_ok pa k = true).
  { unfold db_of. fold h. destruct o as [k0 t q|k0|p|p|p]; cbn [step_db fst snd].
    - cbn [op_ok] in Hok. apply andb_true_iff in Hok as [Hok _]. apply andb_true_iff in Hok as [Hk _].
      intros k v. unfold vact, vatt; cbn [act attic]. rewrite aget_aset.
      destruct (key_eqb k k0) eqn:E.
      + apply key_eqb_spec in E; subst k0. intros [H|H].
        * inversion H; subst. split; [apply Hst; left; reflexivity | exact Hk].
        * apply Id. right; exact H.
      + intros [H|H]; apply Id; [left|right]; exact H.
    - intros k v. unfold vact, vatt; cbn [act attic]. rewrite aget_adel.
      destruct (key_eqb k0 k); intros [H|H]; try discriminate; apply Id; [right|left|right]; exact H.
    - destruct (zmem p (known h)); cbn [fst]; [|exact Id].
      intros k v. rewrite rm_act, rm_att. destruct (kpfx k =? p).
      + intros [H|H]; [discriminate|]. unfold orelse in H.
        destruct (vact h k) eqn:Ea; [inversion H; subst; apply Id; left; exact Ea | apply Id; right; exact H].
      + exact (Id k v).
    - intros k v. rewrite rm_act, rm_att. destruct (kpfx k =? p).
      + intros [H|H]; discriminate.
      + exact (Id k v).
    - pose proof (up_act p h) as Ha. pose proof (up_att p h) as Ht.
      destruct (update_participant p h) as [h' new]. cbn [fst snd] in *.
      intros k v. rewrite Ha, Ht. destruct (zmem p (known h)); [exact (Id k v)|].
      destruct (kpfx k =? p); [|exact (Id k v)].
      intros [H|H]; [|discriminate]. unfold orelse in H.
      destruct (vatt h k) eqn:Ea; [inversion H; subst; apply Id; right; exact Ea | apply Id; left; exact H]. }
  constructor; cbn [sdb sloc].
  - rewrite combine_map_len by (symmetry; exact Il). reflexivity.
  - exact Hdata.
  - intros c d' Hin.
    apply (combine_map_In (fun c d => fst (handle_all (ukeys pa) c d (notes_of true pa s o)))) in Hin
      as [d [Hin ->]].
    destruct (Ie c d Hin) as [Hex Hnd]. split; [|apply handle_all_NoDup, Hnd].
    intros x. unfold notes_of, db_of. fold h. fold (vact h) in Hex.
    destruct o as [k0 t q|k0|p|p|p]; cbn [step_db fst snd].
    + (* Announce *)
      rewrite handle_all_cons. cbn [handle_all fst]. rewrite handle_mem, wants_alt. cbn [act].
      rewrite aget_aset, Hex, wants_alt.
      destruct (key_eqb x k0) eqn:E; [|rewrite !andb_false_l, orb_false_r; reflexivity].
      apply key_eqb_spec in E; subst k0. cbn [fst snd andb].
      destruct (aget x (act h)) as [v|] eqn:Ev; [|reflexivity].
      destruct (Id x v (or_introl Ev)) as [Hd _].
      rewrite (Hst x t q (or_introl eq_refl)) in Hd. inversion Hd; subst v. cbn [fst snd].
      apply orb_diag.
    + (* Dispose *)
      rewrite handle_all_cons. cbn [handle_all fst]. rewrite handle_mem, wants_alt. cbn [act].
      rewrite aget_adel, Hex, wants_alt.
      destruct (key_eqb k0 x) eqn:E; [|rewrite andb_true_r; reflexivity].
      apply key_eqb_spec in E; subst k0. cbn [andb].
      destruct (aget x (act h)) as [v|] eqn:Ev; [|reflexivity].
      destruct (applicable c x (fst v)) eqn:Ea; [|reflexivity].
      apply applicable_kind in Ea.
      assert (Bool.eqb (kw x) (lw c) = false) as -> by (apply eqb_false_iff; exact Ea).
      cbn. apply andb_false_r.
    + (* Timeout *)
      destruct (zmem p (known h)); cbn [fst snd].
      * rewrite handle_all_cons. cbn [handle_all fst]. rewrite handle_mem, wants_alt.
        fold (vact (remove_participant p false h) x). rewrite rm_act, Hex, wants_alt.
        destruct (kpfx x =? p) eqn:Ep; [|rewrite andb_true_r; reflexivity]. cbn [andb].
        destruct (aget x (act h)) as [v|] eqn:Ev; [|reflexivity].
        destruct (Id x v (or_introl Ev)) as [_ Hk]. apply ukeys_In, kmem_In in Hk. rewrite Hk.
        apply andb_false_r.
      * cbn [handle_all fst]. apply Hex.
    + (* PDispose *)
      rewrite handle_all_cons. cbn [handle_all fst]. rewrite handle_mem, wants_alt.
      fold (vact (remove_participant p true h) x). rewrite rm_act, Hex, wants_alt.
      destruct (kpfx x =? p) eqn:Ep; [|rewrite andb_true_r; reflexivity]. cbn [andb].
      destruct (aget x (act h)) as [v|] eqn:Ev; [|reflexivity].
      destruct (Id x v (or_introl Ev)) as [_ Hk]. apply ukeys_In, kmem_In in Hk. rewrite Hk.
      apply andb_false_r.
    + (* PFound *)
      pose proof (up_act p h x) as Ha. pose proof (up_new p h) as Hn.
      destruct (update_participant p h) as [h' new] eqn:U. cbn [fst snd] in *. subst new.
      rewrite wants_alt. fold (vact h' x). rewrite Ha.
      destruct (zmem p (known h)) eqn:K; cbn [negb andb].
      * cbn [handle_all fst]. rewrite Hex, wants_alt. reflexivity.
      * rewrite (handle_all_upd_mem _ _ _ _ _ (reannounce_only _ _ _)), reannounce_hits, Ha, Hex, wants_alt.
        destruct (kpfx x =? p) eqn:Ep; [|rewrite orb_false_r; reflexivity]. cbn [andb].
        fold (vact h x). unfold orelse.
        destruct (vatt h x) as [v|] eqn:Et.
        -- destruct (Id x v (or_intror Et)) as [Hd Hk]. rewrite Hk. cbn [andb].
           destruct (vact h x) as [v0|] eqn:Ev; [|reflexivity].
           destruct (Id x v0 (or_introl Ev)) as [Hd0 _]. rewrite Hd in Hd0. inversion Hd0; subst v0.
           apply orb_diag.
        -- destruct (vact h x) as [v0|] eqn:Ev; [|rewrite andb_false_r; reflexivity].
           destruct (Id x v0 (or_introl Ev)) as [_ Hk]. rewrite Hk. cbn [andb]. apply orb_diag.
Qed.

(* ---------- the oracle accepts the model ---------- *)
Lemma list_eqb_refl {A} (eqb : A -> A -> bool) (l : list A) :
  (forall x, eqb x x = true) -> list_eqb eqb l l = true.
Proof. intros H. induction l as [|x l IH]; cbn; [reflexivity|]. rewrite H, IH. reflexivity. Qed.

Lemma same_kps_refl l : same_kps l l = true.
Proof.
  unfold same_kps. rewrite Z.eqb_refl, andb_true_r.
  assert (H : forallb (fun x => existsb (kp_eqb x) l) l = true).
  { apply forallb_forall. intros x Hx. apply existsb_exists. exists x. split; [exact Hx|].
    unfold kp_eqb. rewrite key_eqb_refl, Z.eqb_refl. reflexivity. }
  rewrite H. reflexivity.
Qed.

(* the database and return value of the model are the oracle's own bookkeeping *)
Lemma spec_db_model pa h o :
  fst (spec_db pa h o) = fst (step_db true (ukeys pa) h o).
Proof.
  destruct o as [k t q|k|p|p|p]; cbn [spec_db step_db fst snd]; try reflexivity.
  - unfold remove_participant. destruct (zmem p (known h)); [|reflexivity].
    destruct (move_pfx p (act h) (attic h)); reflexivity.
  - unfold update_participant. destruct (zmem p (known h)); cbn [negb]; [reflexivity|].
    destruct (move_pfx p (attic h) (act h)); reflexivity.
Qed.

(* the notifications of the model announce exactly the endpoints the oracle lists *)
Lemma spec_notes pa h o c :
  flat_map (fun n => match n with NUpd k t q => incompat_of c k (t, q) | _ => [] end)
           (snd (step_db true (ukeys pa) h o))
  = flat_map (fun kv => incompat_of c (fst kv) (snd kv)) (snd (spec_db pa h o)).
Proof.
  destruct o as [k t q|k|p|p|p]; cbn [spec_db step_db fst snd]; try reflexivity.
  - destruct (zmem p (known h)); reflexivity.
  - unfold update_participant. destruct (zmem p (known h)); cbn [negb andb snd]; [reflexivity|].
    destruct (move_pfx p (attic h) (act h)) as [park' ann']. cbn [snd andb]. unfold reannounce. cbn [act].
    induction (ukeys pa) as [|k U IH]; [reflexivity|]. cbn [flat_map]. rewrite !flat_map_app, IH. f_equal.
    destruct (kpfx k =? p); [|reflexivity]. destruct (aget k ann') as [[t q]|]; reflexivity.
Qed.

Lemma locals_ok_model pa ann' announced ns :
  forall (cs : list lcfg) (ds : list ldyn),
  length ds = length cs ->
  (forall c d, In (c, d) (combine cs ds) ->
     flat_map (fun n => match n with NUpd k t q => incompat_of c k (t, q) | _ => [] end) ns
     = flat_map (fun kv => incompat_of c (fst kv) (snd kv)) announced) ->
  (forall c d, In (c, d) (combine cs ds) ->
     forall k, kmem k (mset (fst (handle_all (ukeys pa) c d ns))) = wants c ann' k) ->
  locals_ok pa ann' announced cs ds
    (map (fun cd => snd (handle_all (ukeys pa) (fst cd) (snd cd) ns)) (combine cs ds))
    (map (fun d => filter (fun k => kmem k (mset d)) (ukeys pa))
         (map (fun cd => fst (handle_all (ukeys pa) (fst cd) (snd cd) ns)) (combine cs ds)))
  = Some (map (fun cd => fst (handle_all (ukeys pa) (fst cd) (snd cd) ns)) (combine cs ds)).
Proof.
  induction cs as [|c cs IH]; intros ds Hl Hn He; destruct ds as [|d ds]; try discriminate; [reflexivity|].
  cbn [combine map locals_ok fst snd].
  rewrite IH; [| cbn in Hl; lia | intros c' d' Hin; apply (Hn c' d'); right; exact Hin
               | intros c' d' Hin; apply (He c' d'); right; exact Hin].
  unfold local_ok.
  destruct (handle_all (ukeys pa) c d ns) as [d' es] eqn:E. cbn [fst snd].
  rewrite (handle_all_replay _ _ _ _ _ _ E).
  rewrite (list_eqb_refl key_eqb _ key_eqb_refl). cbn [andb].
  assert (Hx : filter (fun k => kmem k (mset d')) (ukeys pa) = expected pa c ann').
  { unfold expected. apply filter_ext. intros k.
    specialize (He c d (or_introl eq_refl) k). rewrite E in He. exact He. }
  rewrite Hx, (list_eqb_refl key_eqb _ key_eqb_refl). cbn [andb].
  pose proof (handle_all_incompat (ukeys pa) c ns d) as Hi. rewrite E in Hi. cbn [snd] in Hi.
  rewrite Hi, (Hn c d (or_introl eq_refl)), same_kps_refl. reflexivity.
Qed.

Lemma trace_sound pa D ops : forall s,
  Inv pa D s -> forallb (op_ok pa) ops = true -> Dstable D ops ->
  trace_ok pa s ops (trace_with true pa s ops) = true.
Proof.
  induction ops as [|o ops IH]; intros s I Hok Hst; [reflexivity|].
  cbn [forallb] in Hok. apply andb_true_iff in Hok as [Ho Hops].
  assert (Hst1 : Dstable D [o]).
  { intros k t q [E|[]]. apply Hst. left; exact E. }
  pose proof (step_inv pa D s o I Ho Hst1) as I'.
  cbn [trace_with]. unfold step in I'. rewrite step_unfold in *. cbn [fst] in I'. cbn [trace_ok].
  destruct (bails (sdb s) o); [reflexivity|].
  pose proof (spec_db_model pa (sdb s) o) as Hm.
  destruct (spec_db pa (sdb s) o) as [[h' r'] announced] eqn:Es. cbn [fst] in Hm.
  unfold db_of, out_of in *.
  destruct (step_db true (ukeys pa) (sdb s) o) as [[h1 r1] ns] eqn:Em. cbn [fst snd] in *.
  inversion Hm; subst h1 r1. clear Hm.
  assert (Hr : out_eqb r' r' = true).
  { destruct r' as [|b|l]; cbn; [reflexivity | apply eqb_reflx | apply list_eqb_refl, Z.eqb_refl]. }
  rewrite Hr. cbn [andb dg_known digest_of sdb known].
  rewrite (list_eqb_refl Z.eqb _ Z.eqb_refl). cbn [andb dg_matched digest_of sloc sdb].
  unfold notes_of. rewrite Em. cbn [snd].
  rewrite (locals_ok_model pa (act h') announced ns (locals pa) (sloc s) (i_len _ _ _ I)).
  - apply IH; [|exact Hops | apply (Dstable_tail D o ops Hst)].
    unfold notes_of in I'. rewrite Em in I'. cbn [snd] in I'. exact I'.
  - intros c d _. pose proof (spec_notes pa (sdb s) o c) as Hn. rewrite Es, Em in Hn. exact Hn.
  - intros c d Hin k.
    pose proof (i_exact _ _ _ I') as Ie. cbn [sdb sloc] in Ie.
    unfold notes_of in Ie. rewrite Em in Ie. cbn [snd] in Ie.
    assert (Hin' : In (c, fst (handle_all (ukeys pa) c d ns))
                      (combine (locals pa)
                         (map (fun cd => fst (handle_all (ukeys pa) (fst cd) (snd cd) ns))
                              (combine (locals pa) (sloc s))))).
    { clear -Hin. revert Hin. generalize (sloc s) as ds. induction (locals pa) as [|c0 cs IHc]; intros ds Hin.
      - destruct Hin.
      - destruct ds as [|d0 ds]; [destruct Hin|]. cbn in *. destruct Hin as [E|Hin].
        + inversion E; subst. left; reflexivity.
        + right. apply IHc, Hin. }
    exact (proj1 (Ie _ _ Hin') k).
Qed.

Theorem run_ok : forall c, ok c (run c) = true.
Proof.
  intros [pa ops]. unfold run, run_with, ok. destruct (wfb (pa, ops)) eqn:W; [|reflexivity].
  cbn [andb fst snd]. destruct (stableb ops) eqn:S; [|reflexivity].
  unfold wfb in W; cbn [fst snd] in W. apply andb_true_iff in W as [_ W].
  apply (trace_sound pa (first_data ops) ops (init pa) (Inv_init pa _) W (stableb_Dstable ops S)).
Qed.
