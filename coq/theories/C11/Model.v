(* C11 — matched-endpoint sets and their status counts track discovery exactly.

   Model, as the code is written, of
     src/rtps/reader.rs   Reader::update_writer_proxy / matched_writer_update / remove_writer_proxy /
                          participant_lost, writer_match_count_total, offered_incompatible_qos_count
     src/rtps/writer.rs   Writer::update_reader_proxy / matched_reader_update / reader_lost /
                          participant_lost, matched_readers_count_total,
                          requested_incompatible_qos_count
     src/rtps/dp_event_loop.rs  remote_reader_discovered / remote_writer_discovered /
                          remote_reader_lost / remote_writer_lost / remote_participant_lost /
                          update_participant (built-in endpoints only: no effect on user endpoints)
     src/discovery/discovery_db.rs  endpoint maps, attic, update_participant, remove_participant,
                          endpoints_of_participant
     src/discovery/discovery.rs  the glue that turns a discovery sample into DB operations and
                          notifications: handle_subscription_reader / handle_publication_reader
                          (value and dispose), participant_cleanup, process_participant_dispose,
                          process_discovered_participant_data + rediscovery_notifications.

   A local reader and a local writer run the same statements with the roles of offered and
   requested QoS exchanged, so one handler [handle] parameterised by the kind models both.
   QoS is restricted to the two policies the driver varies: reliability level (0 best effort,
   1 reliable) and durability level (0..3); compatibility is QosPolicies::compliance_failure_wrt
   restricted to them (durability is tested first; cf. the C10 model).
   A BTreeMap<GUID, _> that is iterated (participant_lost, endpoints_of_participant) is modelled
   by "the universe keys, in order, that are in the set".                                         *)
From Coq Require Import List ZArith Bool Lia.
From RD Require Import Common.Corr.
Import ListNotations.
Open Scope Z_scope.

(* ---------- keys, sets, association maps ---------- *)
Definition key := (bool * Z * Z)%type.        (* is_writer, participant, entity *)
Definition kw (k : key) : bool := fst (fst k).
Definition kpfx (k : key) : Z := snd (fst k).
Definition key_eqb (a b : key) : bool :=
  Bool.eqb (fst (fst a)) (fst (fst b)) && (snd (fst a) =? snd (fst b)) && (snd a =? snd b).

Definition kmem (k : key) (m : list key) : bool := existsb (key_eqb k) m.
Definition krem (k : key) (m : list key) : list key := filter (fun x => negb (key_eqb k x)) m.
Definition zmem (p : Z) (m : list Z) : bool := existsb (Z.eqb p) m.

Section AMap.
  Context {V : Type}.
  Fixpoint aget (k : key) (m : list (key * V)) : option V :=
    match m with
    | [] => None
    | kv :: m' => if key_eqb k (fst kv) then Some (snd kv) else aget k m'
    end.
  Definition adel (k : key) (m : list (key * V)) : list (key * V) :=
    filter (fun kv => negb (key_eqb k (fst kv))) m.
  Definition aset (k : key) (v : V) (m : list (key * V)) : list (key * V) := (k, v) :: adel k m.
  Definition amem (k : key) (m : list (key * V)) : bool :=
    match aget k m with Some _ => true | None => false end.
  Definition pfx_is (p : Z) (kv : key * V) : bool := kpfx (fst kv) =? p.
  (* move_by_guid_prefix(p, from, to) -> (from', to') *)
  Definition move_pfx (p : Z) (from to : list (key * V)) : list (key * V) * list (key * V) :=
    let mv := filter (pfx_is p) from in
    (filter (fun kv => negb (pfx_is p kv)) from,
     mv ++ filter (fun kv => negb (amem (fst kv) mv)) to).
End AMap.

(* ---------- QoS ---------- *)
Inductive qos := Q (rel dur : Z).
Definition q_rel (q : qos) := let 'Q r _ := q in r.
Definition q_dur (q : qos) := let 'Q _ d := q in d.
Definition qos_eqb (a b : qos) : bool := (q_rel a =? q_rel b) && (q_dur a =? q_dur b).
(* offered.compliance_failure_wrt(requested): None = compatible; Some id: 0 Durability, 1 Reliability *)
Definition compliance (off req : qos) : option Z :=
  if q_dur off <? q_dur req then Some 0
  else if q_rel off <? q_rel req then Some 1
  else None.

(* ---------- parameters, local endpoints ---------- *)
Record lcfg := { lw : bool; ltopic : Z; lqos : qos }.
Record params := { np : Z; ne : Z; nt : Z; locals : list lcfg }.

Record ldyn := { mset : list key; total : Z; incompat : Z }.
Definition ldyn0 : ldyn := {| mset := []; total := 0; incompat := 0 |}.
Definition len (d : ldyn) : Z := Z.of_nat (length (mset d)).

Inductive event :=
| EvMatched (total tchange current cchange : Z) (k : key)
| EvIncompat (count change policy : Z) (k : key).

(* DiscoveryNotificationType, as far as user endpoints are concerned *)
Inductive note :=
| NUpd (k : key) (t : Z) (q : qos)      (* ReaderUpdated / WriterUpdated *)
| NLost (k : key)                       (* ReaderLost / WriterLost *)
| NPLost (p : Z).                       (* ParticipantLost *)

Definition range (n : Z) : list Z := map Z.of_nat (seq 0 (Z.to_nat n)).
Definition ukeys (pa : params) : list key :=
  flat_map (fun p => flat_map (fun e => [(false, p, e); (true, p, e)]) (range (ne pa)))
           (range (np pa)).

(* Reader::remove_writer_proxy / Writer::reader_lost *)
Definition lost1 (k : key) (d : ldyn) : ldyn * list event :=
  if kmem k (mset d)
  then let d' := {| mset := krem k (mset d); total := total d; incompat := incompat d |} in
       (d', [EvMatched (total d') 0 (len d') (-1) k])
  else (d, []).

Fixpoint lost_all (ks : list key) (d : ldyn) : ldyn * list event :=
  match ks with
  | [] => (d, [])
  | k :: ks' => let '(d1, e1) := lost1 k d in let '(d2, e2) := lost_all ks' d1 in (d2, e1 ++ e2)
  end.

(* offered / requested for a local endpoint c and a remote endpoint with QoS q *)
Definition off_req (c : lcfg) (q : qos) : qos * qos := if lw c then (lqos c, q) else (q, lqos c).
(* does the notification about remote endpoint k on topic t reach local endpoint c at all:
   remote_reader_discovered walks the local writers, remote_writer_discovered the local readers,
   both compare the topic name *)
Definition applicable (c : lcfg) (k : key) (t : Z) : bool :=
  negb (Bool.eqb (kw k) (lw c)) && (t =? ltopic c).

(* one notification handled by one local endpoint *)
Definition handle (U : list key) (c : lcfg) (d : ldyn) (n : note) : ldyn * list event :=
  match n with
  | NUpd k t q =>
      if applicable c k t then
        let '(off, req) := off_req c q in
        match compliance off req with
        | None =>
            if kmem k (mset d) then (d, [])                    (* matched_*_update: known, 0 *)
            else let d' := {| mset := k :: mset d; total := total d + 1; incompat := incompat d |} in
                 (d', [EvMatched (total d') 1 (len d') 1 k])
        | Some pol =>
            let d' := {| mset := mset d; total := total d; incompat := incompat d + 1 |} in
            (d', [EvIncompat (incompat d') 1 pol k])
        end
      else (d, [])
  | NLost k => if negb (Bool.eqb (kw k) (lw c)) then lost1 k d else (d, [])
  | NPLost p => lost_all (filter (fun k => (kpfx k =? p) && kmem k (mset d)) U) d
  end.

Fixpoint handle_all (U : list key) (c : lcfg) (d : ldyn) (ns : list note) : ldyn * list event :=
  match ns with
  | [] => (d, [])
  | n :: ns' => let '(d1, e1) := handle U c d n in
                let '(d2, e2) := handle_all U c d1 ns' in (d2, e1 ++ e2)
  end.

(* ---------- DiscoveryDB + Discovery glue ---------- *)
Definition edata := (Z * qos)%type.            (* topic, QoS of a remote endpoint *)
Record db := { known : list Z; act : list (key * edata); attic : list (key * edata) }.
Definition db0 : db := {| known := []; act := []; attic := [] |}.

Inductive op :=
| Announce (k : key) (t : Z) (q : qos)   (* SEDP data (first or repeated) *)
| Dispose (k : key)                      (* SEDP dispose *)
| Timeout (p : Z)                        (* p is silent past its lease; clean-up tick *)
| PDispose (p : Z)                       (* SPDP dispose *)
| PFound (p : Z).                        (* SPDP data *)

Inductive out := OUnit | ONew (b : bool) | OLost (l : list Z).

Definition remove_participant (p : Z) (active : bool) (s : db) : db :=
  let kn := filter (fun q => negb (q =? p)) (known s) in
  if active
  then {| known := kn; act := filter (fun kv => negb (pfx_is p kv)) (act s);
          attic := filter (fun kv => negb (pfx_is p kv)) (attic s) |}
  else let '(act', att') := move_pfx p (act s) (attic s) in
       {| known := kn; act := act'; attic := att' |}.

Definition update_participant (p : Z) (s : db) : db * bool :=
  let isnew := negb (zmem p (known s)) in
  if isnew
  then let '(att', act') := move_pfx p (attic s) (act s) in
       ({| known := p :: known s; act := act'; attic := att' |}, true)
  else (s, false).

(* discovery::rediscovery_notifications: one ReaderUpdated / WriterUpdated per endpoint of p in the
   DB.  The code lists the readers of p first and then its writers, each in GUID order; a local
   endpoint only reacts to one of the two kinds, so walking the universe once (order p, e) gives
   every local endpoint the same notifications in the same relative order. *)
Definition reannounce (U : list key) (p : Z) (s : db) : list note :=
  flat_map (fun k => if kpfx k =? p
                     then match aget k (act s) with Some v => [NUpd k (fst v) (snd v)] | None => [] end
                     else []) U.

Section WithFix.
  Variable fixed : bool.     (* false: the code as found, which did not re-announce *)
  Definition step_db (U : list key) (s : db) (o : op) : db * out * list note :=
    match o with
    | Announce k t q =>
        ({| known := known s; act := aset k (t, q) (act s); attic := attic s |}, OUnit, [NUpd k t q])
    | Dispose k =>
        ({| known := known s; act := adel k (act s); attic := attic s |}, OUnit, [NLost k])
    | Timeout p =>
        if zmem p (known s) then (remove_participant p false s, OLost [p], [NPLost p])
        else (s, OLost [], [])
    | PDispose p => (remove_participant p true s, OUnit, [NPLost p])
    | PFound p =>
        let '(s', new) := update_participant p s in
        (s', ONew new, if new && fixed then reannounce U p s' else [])
    end.
End WithFix.

(* ---------- whole system, observations ---------- *)
Record st := { sdb : db; sloc : list ldyn }.

Inductive digest :=
  Dg (known : list Z) (announced : list key) (parked : list key) (matched : list (list key)).
Definition dg_known (d : digest) := let 'Dg a _ _ _ := d in a.
Definition dg_act (d : digest) := let 'Dg _ a _ _ := d in a.
Definition dg_attic (d : digest) := let 'Dg _ _ a _ := d in a.
Definition dg_matched (d : digest) := let 'Dg _ _ _ a := d in a.

Definition digest_of (pa : params) (s : st) : digest :=
  Dg (filter (fun p => zmem p (known (sdb s))) (range (np pa)))
     (filter (fun k => amem k (act (sdb s))) (ukeys pa))
     (filter (fun k => amem k (attic (sdb s))) (ukeys pa))
     (map (fun d => filter (fun k => kmem k (mset d)) (ukeys pa)) (sloc s)).

Definition step_with (fixed : bool) (pa : params) (s : st) (o : op) : st * (out * list (list event)) :=
  let '(db', r, ns) := step_db fixed (ukeys pa) (sdb s) o in
  let res := map (fun cd => handle_all (ukeys pa) (fst cd) (snd cd) ns)
                 (combine (locals pa) (sloc s)) in
  ({| sdb := db'; sloc := map fst res |}, (r, map snd res)).

Definition init (pa : params) : st := {| sdb := db0; sloc := map (fun _ => ldyn0) (locals pa) |}.

Definition entry := (out * list (list event) * digest)%type.
Fixpoint trace_with (fixed : bool) (pa : params) (s : st) (ops : list op) : list entry :=
  match ops with
  | [] => []
  | o :: ops' => let '(s', (r, evs)) := step_with fixed pa s o in
                 (r, evs, digest_of pa s') :: trace_with fixed pa s' ops'
  end.

Fixpoint exec_with (fixed : bool) (pa : params) (s : st) (ops : list op) : st :=
  match ops with
  | [] => s
  | o :: ops' => exec_with fixed pa (fst (step_with fixed pa s o)) ops'
  end.
Definition step := step_with true.
Definition exec := exec_with true.

(* well-formed cases: everything inside the universe, QoS levels in range *)
Definition in_range (n x : Z) : bool := (0 <=? x) && (x <? n).
Definition key_ok (pa : params) (k : key) : bool := in_range (np pa) (kpfx k) && in_range (ne pa) (snd k).
Definition qos_ok (q : qos) : bool := in_range 2 (q_rel q) && in_range 4 (q_dur q).
Definition op_ok (pa : params) (o : op) : bool :=
  match o with
  | Announce k t q => key_ok pa k && in_range (nt pa) t && qos_ok q
  | Dispose k => key_ok pa k
  | Timeout p | PDispose p | PFound p => in_range (np pa) p
  end.
Definition params_ok (pa : params) : bool :=
  (0 <=? np pa) && (0 <=? ne pa)
  && forallb (fun c => in_range (nt pa) (ltopic c) && qos_ok (lqos c)) (locals pa).

Definition case := (params * list op)%type.
Definition obs := option (list entry).
Definition wfb (c : case) : bool := params_ok (fst c) && forallb (op_ok (fst c)) (snd c).
Definition run_with (fixed : bool) (c : case) : obs :=
  if wfb c then Some (trace_with fixed (fst c) (init (fst c)) (snd c)) else None.
Definition run : case -> obs := run_with true.
Definition run_old : case -> obs := run_with false.

(* ---------- comparing observations ---------- *)
Definition event_eqb (a b : event) : bool :=
  match a, b with
  | EvMatched a1 a2 a3 a4 k, EvMatched b1 b2 b3 b4 k' =>
      (a1 =? b1) && (a2 =? b2) && (a3 =? b3) && (a4 =? b4) && key_eqb k k'
  | EvIncompat a1 a2 a3 k, EvIncompat b1 b2 b3 k' =>
      (a1 =? b1) && (a2 =? b2) && (a3 =? b3) && key_eqb k k'
  | _, _ => false
  end.
Definition out_eqb (a b : out) : bool :=
  match a, b with
  | OUnit, OUnit => true
  | ONew x, ONew y => Bool.eqb x y
  | OLost x, OLost y => list_eqb Z.eqb x y
  | _, _ => false
  end.
Definition digest_eqb (a b : digest) : bool :=
  list_eqb Z.eqb (dg_known a) (dg_known b) && list_eqb key_eqb (dg_act a) (dg_act b)
  && list_eqb key_eqb (dg_attic a) (dg_attic b)
  && list_eqb (list_eqb key_eqb) (dg_matched a) (dg_matched b).
Definition entry_eqb (a b : entry) : bool :=
  out_eqb (fst (fst a)) (fst (fst b))
  && list_eqb (list_eqb event_eqb) (snd (fst a)) (snd (fst b))
  && digest_eqb (snd a) (snd b).
Definition obs_eqb (a b : obs) : bool := option_eqb (list_eqb entry_eqb) a b.

(* ------------------------------------------------------------------------------------------ *)
(* Property oracle.  It works from the history alone: which remote endpoints are "currently
   announced" (announced, not disposed; parked while their participant is timed out; back when it
   is found again; gone when it disposes itself), which participants are known; and it replays
   the status events it is shown.  It never reads the announced/parked parts of the digest.      *)

(* the oracle's state has the shape of a model state: a [db] read as (known participants,
   currently announced endpoints, endpoints parked by a participant time-out) and, per local
   endpoint, the set and counters that the status events seen so far imply *)
Definition spec := st.
Definition spec0 (pa : params) : spec := init pa.
Definition sp_known (sp : spec) := known (sdb sp).
Definition sp_ann (sp : spec) := act (sdb sp).
Definition sp_park (sp : spec) := attic (sdb sp).
Definition sp_loc (sp : spec) := sloc sp.

(* premise of the property: a remote endpoint keeps the topic and QoS it was first announced with *)
Fixpoint first_data (ops : list op) (k : key) : option edata :=
  match ops with
  | [] => None
  | Announce k' t q :: ops' => if key_eqb k k' then Some (t, q) else first_data ops' k
  | _ :: ops' => first_data ops' k
  end.
Definition edata_eqb (a b : edata) : bool := (fst a =? fst b) && qos_eqb (snd a) (snd b).
Definition stableb (ops : list op) : bool :=
  forallb (fun o => match o with
                    | Announce k t q => option_eqb edata_eqb (first_data ops k) (Some (t, q))
                    | _ => true
                    end) ops.

(* should local endpoint c be matched with remote endpoint k, given what is announced *)
Definition wants (c : lcfg) (ann : list (key * edata)) (k : key) : bool :=
  match aget k ann with
  | Some v => applicable c k (fst v)
              && match compliance (fst (off_req c (snd v))) (snd (off_req c (snd v))) with
                 | None => true | Some _ => false end
  | None => false
  end.
Definition expected (pa : params) (c : lcfg) (ann : list (key * edata)) : list key :=
  filter (wants c ann) (ukeys pa).

(* one status event applied to the set/counters it talks about; None = the event is not a
   legal continuation (wrong counts, match of a matched endpoint, unmatch of an unmatched one) *)
Definition replay1 (d : ldyn) (e : event) : option ldyn :=
  match e with
  | EvMatched tot tch cur cch k =>
      if cch =? 1 then
        let d' := {| mset := k :: mset d; total := total d + 1; incompat := incompat d |} in
        if negb (kmem k (mset d)) && (tot =? total d') && (tch =? 1) && (cur =? len d')
        then Some d' else None
      else if cch =? -1 then
        let d' := {| mset := krem k (mset d); total := total d; incompat := incompat d |} in
        if kmem k (mset d) && (tot =? total d') && (tch =? 0) && (cur =? len d')
        then Some d' else None
      else None
  | EvIncompat cnt ch pol k =>
      if (cnt =? incompat d + 1) && (ch =? 1)
      then Some {| mset := mset d; total := total d; incompat := incompat d + 1 |} else None
  end.
Fixpoint replay (d : ldyn) (es : list event) : option ldyn :=
  match es with
  | [] => Some d
  | e :: es' => match replay1 d e with Some d' => replay d' es' | None => None end
  end.

(* the incompatible-QoS events an operation must produce at local endpoint c:
   (remote endpoint, policy) for every endpoint announced by it that c would match by kind and
   topic but whose QoS is incompatible *)
Definition incompat_of (c : lcfg) (k : key) (v : edata) : list (key * Z) :=
  if applicable c k (fst v)
  then match compliance (fst (off_req c (snd v))) (snd (off_req c (snd v))) with
       | Some pol => [(k, pol)] | None => [] end
  else [].
Definition incompat_events (es : list event) : list (key * Z) :=
  flat_map (fun e => match e with EvIncompat _ _ pol k => [(k, pol)] | _ => [] end) es.
Definition kp_eqb (a b : key * Z) : bool := key_eqb (fst a) (fst b) && (snd a =? snd b).
(* same elements, same number (order of the events of one operation is not part of the property) *)
Definition same_kps (a b : list (key * Z)) : bool :=
  forallb (fun x => existsb (kp_eqb x) b) a && forallb (fun x => existsb (kp_eqb x) a) b
  && (Z.of_nat (length a) =? Z.of_nat (length b)).

(* the spec's own bookkeeping of one operation: what is known / announced / parked afterwards,
   the expected return value, and the endpoints (re)announced by the operation *)
Definition spec_db (pa : params) (h : db) (o : op) : db * out * list (key * edata) :=
  match o with
  | Announce k t q =>
      ({| known := known h; act := aset k (t, q) (act h); attic := attic h |}, OUnit, [(k, (t, q))])
  | Dispose k => ({| known := known h; act := adel k (act h); attic := attic h |}, OUnit, [])
  | Timeout p =>
      if zmem p (known h)
      then let '(ann', park') := move_pfx p (act h) (attic h) in
           ({| known := filter (fun q => negb (q =? p)) (known h); act := ann'; attic := park' |},
            OLost [p], [])
      else (h, OLost [], [])
  | PDispose p =>
      ({| known := filter (fun q => negb (q =? p)) (known h);
          act := filter (fun kv => negb (pfx_is p kv)) (act h);
          attic := filter (fun kv => negb (pfx_is p kv)) (attic h) |}, OUnit, [])
  | PFound p =>
      if zmem p (known h) then (h, ONew false, [])
      else let '(park', ann') := move_pfx p (attic h) (act h) in
           ({| known := p :: known h; act := ann'; attic := park' |}, ONew true,
            flat_map (fun k => if kpfx k =? p
                               then match aget k ann' with Some v => [(k, v)] | None => [] end
                               else []) (ukeys pa))
  end.

(* outside the premises: an endpoint disposed while its participant is timed out (its SEDP
   traffic cannot reach us then); the oracle makes no demand from there on *)
Definition bails (h : db) (o : op) : bool :=
  match o with Dispose k => amem k (attic h) | _ => false end.

Definition local_ok (pa : params) (ann' : list (key * edata)) (announced : list (key * edata))
           (c : lcfg) (d : ldyn) (es : list event) (m : list key) : option ldyn :=
  match replay d es with
  | Some d' =>
      if list_eqb key_eqb (filter (fun k => kmem k (mset d')) (ukeys pa)) m   (* events explain the set *)
         && list_eqb key_eqb m (expected pa c ann')                          (* the set is exact *)
         && same_kps (incompat_events es)
                     (flat_map (fun kv => incompat_of c (fst kv) (snd kv)) announced)
      then Some d' else None
  | None => None
  end.

Fixpoint locals_ok (pa : params) (ann' : list (key * edata)) (announced : list (key * edata))
         (cs : list lcfg) (ds : list ldyn) (ess : list (list event)) (ms : list (list key))
  : option (list ldyn) :=
  match cs, ds, ess, ms with
  | [], [], [], [] => Some []
  | c :: cs', d :: ds', es :: ess', m :: ms' =>
      match local_ok pa ann' announced c d es m, locals_ok pa ann' announced cs' ds' ess' ms' with
      | Some d', Some l => Some (d' :: l)
      | _, _ => None
      end
  | _, _, _, _ => None
  end.

Fixpoint trace_ok (pa : params) (sp : spec) (ops : list op) (tr : list entry) : bool :=
  match ops, tr with
  | [], [] => true
  | o :: ops', (r, ess, dg) :: tr' =>
      if bails (sdb sp) o then true else
      let '(h', r', announced) := spec_db pa (sdb sp) o in
      out_eqb r r'
      && list_eqb Z.eqb (dg_known dg) (filter (fun p => zmem p (known h')) (range (np pa)))
      && match locals_ok pa (act h') announced (locals pa) (sloc sp) ess (dg_matched dg) with
         | Some loc' => trace_ok pa {| sdb := h'; sloc := loc' |} ops' tr'
         | None => false
         end
  | _, _ => false
  end.

Definition ok (c : case) (o : obs) : bool :=
  match o with
  | None => negb (wfb c)
  | Some tr => wfb c && (if stableb (snd c) then trace_ok (fst c) (spec0 (fst c)) (snd c) tr else true)
  end.
