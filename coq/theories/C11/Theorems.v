(* C11 — the property in Prop form, for all histories. *)
From Coq Require Import List ZArith Bool Lia.
From RD Require Import Common.Corr C11.Model C11.Proofs C11.Oracle.
Import ListNotations.
Open Scope Z_scope.

(* what is known / currently announced / parked after a history, from the history alone *)
Definition hist (pa : params) (ops : list op) : db :=
  fold_left (fun h o => fst (fst (spec_db pa h o))) ops db0.

Lemma exec_app pa ops : forall s o, exec pa s (ops ++ [o]) = fst (step pa (exec pa s ops) o).
Proof. induction ops as [|o' ops IH]; intros s o; cbn; [reflexivity | apply IH]. Qed.

Lemma hist_app pa ops o : hist pa (ops ++ [o]) = fst (fst (spec_db pa (hist pa ops) o)).
Proof. unfold hist. rewrite fold_left_app. reflexivity. Qed.

Lemma step_db_is_spec pa s o : sdb (fst (step pa s o)) = fst (fst (spec_db pa (sdb s) o)).
Proof.
  unfold step. rewrite step_unfold. cbn [fst sdb]. unfold db_of. rewrite spec_db_model. reflexivity.
Qed.

(* the model's DiscoveryDB is the history's "known / announced / parked" *)
Lemma exec_db pa ops : sdb (exec pa (init pa) ops) = hist pa ops.
Proof.
  induction ops as [|o ops IH] using rev_ind; [reflexivity|].
  rewrite exec_app, hist_app, step_db_is_spec, IH. reflexivity.
Qed.

Lemma exec_inv pa D ops :
  forallb (op_ok pa) ops = true -> Dstable D ops -> Inv pa D (exec pa (init pa) ops).
Proof.
  induction ops as [|o ops IH] using rev_ind; intros W S; [apply Inv_init|].
  rewrite forallb_app in W. apply andb_true_iff in W as [W Wo]. cbn in Wo. rewrite andb_true_r in Wo.
  rewrite exec_app. apply step_inv.
  - apply IH; [exact W|]. intros k t q Hin. apply S, in_or_app. left; exact Hin.
  - exact Wo.
  - intros k t q [E|[]]. apply S, in_or_app. right. left. exact E.
Qed.

(* ------------------------------------------------------------------------------------------ *)
(* C11_set_exact *)
Theorem set_exact pa D ops c d :
  forallb (op_ok pa) ops = true -> Dstable D ops ->
  In (c, d) (combine (locals pa) (sloc (exec pa (init pa) ops))) ->
  (forall k, In k (mset d) <-> wants c (act (hist pa ops)) k = true)
  /\ NoDup (mset d)
  /\ filter (fun k => kmem k (mset d)) (ukeys pa) = expected pa c (act (hist pa ops)).
Proof.
  intros W S Hin. pose proof (exec_inv pa D ops W S) as I.
  destruct (i_exact _ _ _ I c d Hin) as [Hex Hnd]. rewrite exec_db in Hex.
  split; [|split].
  - intros k. rewrite <- kmem_In, Hex. reflexivity.
  - exact Hnd.
  - unfold expected. apply filter_ext. exact Hex.
Qed.

(* what "wants" means *)
Lemma wants_spec c ann k :
  wants c ann k = true <->
  exists t q, aget k ann = Some (t, q) /\ kw k <> lw c /\ t = ltopic c
              /\ compliance (fst (off_req c q)) (snd (off_req c q)) = None.
Proof.
  unfold wants. destruct (aget k ann) as [[t q]|]; cbn [fst snd].
  - unfold applicable. rewrite !andb_true_iff, negb_true_iff, eqb_false_iff, Z.eqb_eq. split.
    + intros [[H1 H2] H3]. exists t, q. repeat split; auto.
      destruct (compliance _ _); [discriminate|reflexivity].
    + intros (t' & q' & E & H1 & H2 & H3). inversion E; subst. rewrite H3. auto.
  - split; [discriminate | intros (t & q & E & _); discriminate].
Qed.

(* ------------------------------------------------------------------------------------------ *)
(* C11_event_per_change, C11_total_monotone *)
Theorem event_per_change fixed pa s o c d :
  In (c, d) (combine (locals pa) (sloc s)) ->
  replay d (snd (handle_all (ukeys pa) c d (notes_of fixed pa s o)))
  = Some (fst (handle_all (ukeys pa) c d (notes_of fixed pa s o))).
Proof.
  intros _. destruct (handle_all (ukeys pa) c d (notes_of fixed pa s o)) as [d' es] eqn:E.
  apply (handle_all_replay _ _ _ _ _ _ E).
Qed.

(* reading of one replayed event *)
Theorem event_meaning d e d' :
  replay1 d e = Some d' ->
  match e with
  | EvMatched tot tch cur cch k =>
      (cch = 1 /\ ~ In k (mset d) /\ mset d' = k :: mset d /\ cur = Z.of_nat (length (mset d'))
       /\ tot = total d + 1 /\ tch = 1 /\ total d' = tot /\ incompat d' = incompat d)
      \/ (cch = -1 /\ In k (mset d) /\ mset d' = krem k (mset d) /\ cur = Z.of_nat (length (mset d'))
          /\ tot = total d /\ tch = 0 /\ total d' = tot /\ incompat d' = incompat d)
  | EvIncompat cnt ch pol k =>
      cnt = incompat d + 1 /\ ch = 1 /\ mset d' = mset d /\ total d' = total d /\ incompat d' = cnt
  end.
Proof.
  destruct e as [tot tch cur cch k|cnt ch pol k]; cbn [replay1]; unfold len; cbn [total incompat mset].
  - destruct (Z.eqb_spec cch 1) as [->|Hn1].
    + destruct (kmem k (mset d)) eqn:M; cbn [negb andb]; [discriminate|].
      destruct (Z.eqb_spec tot (total d + 1)); [|discriminate].
      destruct (Z.eqb_spec tch 1); [|discriminate]. cbn [andb].
      destruct (Z.eqb_spec cur (Z.of_nat (length (k :: mset d)))); [|discriminate].
      intros H; inversion H; subst; clear H. left. cbn [mset total incompat].
      repeat split; auto. intros Hin. apply kmem_In in Hin. congruence.
    + destruct (Z.eqb_spec cch (-1)) as [->|Hn2]; [|discriminate].
      destruct (kmem k (mset d)) eqn:M; cbn [andb]; [|discriminate].
      destruct (Z.eqb_spec tot (total d)); [|discriminate].
      destruct (Z.eqb_spec tch 0); [|discriminate]. cbn [andb].
      destruct (Z.eqb_spec cur (Z.of_nat (length (krem k (mset d))))); [|discriminate].
      intros H; inversion H; subst; clear H. right. cbn [mset total incompat].
      repeat split; auto. apply kmem_In, M.
  - destruct (Z.eqb_spec cnt (incompat d + 1)); [|discriminate].
    destruct (Z.eqb_spec ch 1); [|discriminate]. cbn [andb].
    intros H; inversion H; subst; clear H. cbn. auto.
Qed.

Theorem total_monotone fixed pa s o c d :
  total d <= total (fst (handle_all (ukeys pa) c d (notes_of fixed pa s o))).
Proof. apply handle_all_total. Qed.

(* shape of a step: every local endpoint handles the notifications of the operation on its own *)
Theorem step_shape fixed pa s o :
  sloc (fst (step_with fixed pa s o))
  = map (fun cd => fst (handle_all (ukeys pa) (fst cd) (snd cd) (notes_of fixed pa s o)))
        (combine (locals pa) (sloc s))
  /\ snd (snd (step_with fixed pa s o))
     = map (fun cd => snd (handle_all (ukeys pa) (fst cd) (snd cd) (notes_of fixed pa s o)))
           (combine (locals pa) (sloc s)).
Proof. rewrite step_unfold. split; reflexivity. Qed.

(* ------------------------------------------------------------------------------------------ *)
(* C11_incompatible_event *)
Theorem incompatible_event pa D ops k t q c d pol :
  forallb (op_ok pa) ops = true -> Dstable D (ops ++ [Announce k t q]) ->
  let s := exec pa (init pa) ops in
  In (c, d) (combine (locals pa) (sloc s)) ->
  applicable c k t = true ->
  compliance (fst (off_req c q)) (snd (off_req c q)) = Some pol ->
  handle_all (ukeys pa) c d (notes_of true pa s (Announce k t q))
  = ({| mset := mset d; total := total d; incompat := incompat d + 1 |},
     [EvIncompat (incompat d + 1) 1 pol k])
  /\ ~ In k (mset d).
Proof.
  intros W S s Hin Ha Hc.
  assert (S0 : Dstable D ops) by (intros k' t' q' Hi; apply S, in_or_app; left; exact Hi).
  pose proof (exec_inv pa D ops W S0) as I. fold s in I.
  destruct (i_exact _ _ _ I c d Hin) as [Hex _]. split.
  - unfold notes_of. cbn [step_db snd handle_all handle]. rewrite Ha.
    destruct (off_req c q) as [off req]; cbn [fst snd] in Hc. rewrite Hc. reflexivity.
  - rewrite <- kmem_In, Hex, wants_alt.
    destruct (aget k (act (sdb s))) as [v|] eqn:Ev; [|discriminate].
    destruct (i_data _ _ _ I k v (or_introl Ev)) as [Hd _].
    rewrite (S k t q) in Hd by (apply in_or_app; right; left; reflexivity).
    inversion Hd; subst v. cbn [fst snd]. unfold compatible. rewrite Hc, andb_false_r. discriminate.
Qed.

(* and only then: the incompatible-QoS events of a batch are exactly those of the incompatible
   endpoints announced in it *)
Theorem incompatible_only U c d ns :
  incompat_events (snd (handle_all U c d ns))
  = flat_map (fun n => match n with NUpd k t q => incompat_of c k (t, q) | _ => [] end) ns.
Proof. apply handle_all_incompat. Qed.

(* ------------------------------------------------------------------------------------------ *)
(* C11_participant_lost_all *)
Theorem participant_lost_all pa D ops o p c d k :
  forallb (op_ok pa) (ops ++ [o]) = true -> Dstable D (ops ++ [o]) ->
  (o = PDispose p \/ (o = Timeout p /\ zmem p (known (hist pa ops)) = true)) ->
  In (c, d) (combine (locals pa) (sloc (exec pa (init pa) (ops ++ [o])))) ->
  kpfx k = p -> ~ In k (mset d).
Proof.
  intros W S Ho Hin Hk Hk2.
  destruct (set_exact pa D (ops ++ [o]) c d W S Hin) as [Hex _].
  apply Hex in Hk2. apply wants_spec in Hk2 as (t & q & Hget & _).
  rewrite hist_app in Hget.
  assert (Hnone : aget k (act (fst (fst (spec_db pa (hist pa ops) o)))) = None).
  { destruct Ho as [->|[-> Hkn]]; cbn [spec_db].
    - cbn [fst act]. rewrite npfx_filter_get, Hk, Z.eqb_refl. reflexivity.
    - rewrite Hkn. pose proof (move_from_get p (act (hist pa ops)) (attic (hist pa ops)) k) as H.
      destruct (move_pfx p (act (hist pa ops)) (attic (hist pa ops))). cbn [fst snd act] in *.
      rewrite H, Hk, Z.eqb_refl. reflexivity. }
  congruence.
Qed.

(* ------------------------------------------------------------------------------------------ *)
(* the code as found: after a time-out and a rediscovery the restored endpoints stayed unmatched *)
Definition old_witness : case :=
  ({| np := 3; ne := 2; nt := 2;
      locals := [{| lw := true; ltopic := 0; lqos := Q 1 0 |}; {| lw := false; ltopic := 0; lqos := Q 1 0 |}] |},
   [PFound 0; Announce (false, 0, 0) 0 (Q 1 0); Announce (true, 0, 0) 0 (Q 1 0); Timeout 0; PFound 0]).

Lemma old_refuted :
  exists c, wfb c = true /\ stableb (snd c) = true /\ ok c (run_old c) = false /\ ok c (run c) = true.
Proof. exists old_witness. repeat split; vm_compute; reflexivity. Qed.

(* ------------------------------------------------------------------------------------------ *)
(* Prop reading of the oracle *)
Definition local_spec (pa : params) (ann' : list (key * edata)) (announced : list (key * edata))
           (c : lcfg) (d : ldyn) (es : list event) (m : list key) (d' : ldyn) : Prop :=
  replay d es = Some d'
  /\ m = filter (fun k => kmem k (mset d')) (ukeys pa)
  /\ m = expected pa c ann'
  /\ (forall x, In x (incompat_events es)
                <-> In x (flat_map (fun kv => incompat_of c (fst kv) (snd kv)) announced))
  /\ length (incompat_events es)
     = length (flat_map (fun kv => incompat_of c (fst kv) (snd kv)) announced).

Lemma kp_eqb_spec a b : kp_eqb a b = true <-> a = b.
Proof.
  destruct a as [k1 p1], b as [k2 p2]; unfold kp_eqb; cbn.
  rewrite andb_true_iff, key_eqb_spec, Z.eqb_eq. split; [intros [-> ->]; reflexivity | intros E; inversion E; auto].
Qed.

Lemma local_ok_spec pa ann' announced c d es m d' :
  local_ok pa ann' announced c d es m = Some d' -> local_spec pa ann' announced c d es m d'.
Proof.
  unfold local_ok, local_spec. destruct (replay d es) as [d1|]; [|discriminate].
  destruct (list_eqb key_eqb (filter (fun k => kmem k (mset d1)) (ukeys pa)) m) eqn:E1; [|discriminate].
  destruct (list_eqb key_eqb m (expected pa c ann')) eqn:E2; [|discriminate]. cbn [andb].
  destruct (same_kps _ _) eqn:E3; [|discriminate]. intros H; inversion H; subst d1; clear H.
  apply (list_eqb_spec key_eqb key_eqb_spec) in E1, E2.
  unfold same_kps in E3. apply andb_true_iff in E3 as [E3 E5]. apply andb_true_iff in E3 as [E3 E4].
  rewrite forallb_forall in E3, E4. apply Z.eqb_eq in E5.
  repeat split; auto.
  - intros Hx. apply E3, existsb_exists in Hx as [y [Hy E]]. apply kp_eqb_spec in E; subst; exact Hy.
  - intros Hx. apply E4, existsb_exists in Hx as [y [Hy E]]. apply kp_eqb_spec in E; subst; exact Hy.
  - lia.
Qed.

Fixpoint locals_spec (pa : params) (ann' : list (key * edata)) (announced : list (key * edata))
         (cs : list lcfg) (ds : list ldyn) (ess : list (list event)) (ms : list (list key))
         (ds' : list ldyn) : Prop :=
  match cs, ds, ess, ms, ds' with
  | [], [], [], [], [] => True
  | c :: cs', d :: ds0, es :: ess', m :: ms', d' :: ds0' =>
      local_spec pa ann' announced c d es m d' /\ locals_spec pa ann' announced cs' ds0 ess' ms' ds0'
  | _, _, _, _, _ => False
  end.

Lemma locals_ok_spec pa ann' announced cs : forall ds ess ms ds',
  locals_ok pa ann' announced cs ds ess ms = Some ds' -> locals_spec pa ann' announced cs ds ess ms ds'.
Proof.
  induction cs as [|c cs IH]; intros ds ess ms ds' H;
    destruct ds as [|d ds], ess as [|es ess], ms as [|m ms]; cbn in H; try discriminate.
  - inversion H; subst. exact I.
  - destruct (local_ok pa ann' announced c d es m) as [d1|] eqn:E1; [|discriminate].
    destruct (locals_ok pa ann' announced cs ds ess ms) as [l|] eqn:E2; [|discriminate].
    inversion H; subst. cbn. split; [apply local_ok_spec, E1 | apply IH, E2].
Qed.

(* a passing trace: at every operation (until the oracle bails out) the return value is the
   expected one, and for every local endpoint the events shown replay to a set that is the observed
   matched list, which is exactly the expected set; incompatible-QoS events are exactly those of
   the incompatible endpoints announced by the operation *)
Fixpoint trace_spec (pa : params) (sp : spec) (ops : list op) (tr : list entry) : Prop :=
  match ops, tr with
  | [], [] => True
  | o :: ops', (r, ess, dg) :: tr' =>
      bails (sdb sp) o = true \/
      exists loc',
        r = snd (fst (spec_db pa (sdb sp) o))
        /\ locals_spec pa (act (fst (fst (spec_db pa (sdb sp) o)))) (snd (spec_db pa (sdb sp) o))
                       (locals pa) (sloc sp) ess (dg_matched dg) loc'
        /\ trace_spec pa {| sdb := fst (fst (spec_db pa (sdb sp) o)); sloc := loc' |} ops' tr'
  | _, _ => False
  end.

Lemma out_eqb_spec a b : out_eqb a b = true -> a = b.
Proof.
  destruct a as [|x|x], b as [|y|y]; cbn; try discriminate; intros H; try reflexivity.
  - apply eqb_prop in H; subst; reflexivity.
  - apply (list_eqb_spec Z.eqb Z.eqb_eq) in H; subst; reflexivity.
Qed.

Lemma trace_ok_spec pa ops : forall sp tr, trace_ok pa sp ops tr = true -> trace_spec pa sp ops tr.
Proof.
  induction ops as [|o ops IH]; intros sp tr H; destruct tr as [|[[r ess] dg] tr]; cbn in H |- *;
    try discriminate; [exact I|].
  destruct (bails (sdb sp) o); [left; reflexivity|]. right.
  destruct (spec_db pa (sdb sp) o) as [[h' r'] announced]. cbn [fst snd].
  apply andb_true_iff in H as [H H3]. apply andb_true_iff in H as [H1 H2].
  destruct (locals_ok pa (act h') announced (locals pa) (sloc sp) ess (dg_matched dg)) as [loc'|] eqn:E;
    [|discriminate].
  exists loc'. split; [apply out_eqb_spec, H1|]. split; [apply locals_ok_spec, E | apply IH, H3].
Qed.

Theorem oracle_sound pa ops tr :
  ok (pa, ops) (Some tr) = true -> stableb ops = true -> trace_spec pa (init pa) ops tr.
Proof.
  unfold ok. intros H S. apply andb_true_iff in H as [_ H]. cbn [fst snd] in H. rewrite S in H.
  apply trace_ok_spec, H.
Qed.

(* ------------------------------------------------------------------------------------------ *)
(* non-vacuity *)
Definition ex_pa : params :=
  {| np := 3; ne := 2; nt := 2;
     locals := [{| lw := true; ltopic := 0; lqos := Q 0 0 |}; {| lw := false; ltopic := 0; lqos := Q 1 0 |}] |}.
Definition ex_ops : list op :=
  [PFound 0; Announce (false, 0, 0) 0 (Q 1 0); Announce (true, 0, 0) 0 (Q 1 0);
   Announce (false, 0, 0) 0 (Q 1 0); Timeout 0; PFound 0].

Example ex_hyps : forallb (op_ok ex_pa) ex_ops = true /\ Dstable (first_data ex_ops) ex_ops.
Proof. split; [vm_compute; reflexivity | apply stableb_Dstable; vm_compute; reflexivity]. Qed.

(* the local reader is matched with the remote writer again after the rediscovery; the local
   best-effort writer got incompatible-QoS events for the reliable remote reader *)
Example ex_result :
  map (fun d => (mset d, total d, incompat d)) (sloc (exec ex_pa (init ex_pa) ex_ops))
  = [([], 0, 3); ([(true, 0, 0)], 2, 0)].
Proof. vm_compute. reflexivity. Qed.
