(* C17 — liveness of the bootstrap readers under RTPS protection: plaintext writer submessages for an
   exempt reader (SPDP, ParticipantStatelessMessage, ParticipantVolatileMessageSecure) that needs no
   submessage/payload protection are delivered exactly as without security plugins, whether or not
   the domain is RTPS-protected. *)
From Coq Require Import List ZArith Bool Lia.
From RD Require Import C17.Model C17.Proofs.
Import ListNotations.
Open Scope Z_scope.

Definition unspecial (s : st) : st :=
  {| s_dest_own := s_dest_own s; s_sec := s_sec s; s_special := false; s_rtps := s_rtps s |}.

Section LiveBoot.
  Variable cfg : config.
  Variable e : eid.
  Hypothesis P : c_plugins cfg = true.
  Hypothesis Hsub : mem e (c_sub_np cfg) = true.
  Hypothesis Hpay : mem e (c_pay_np cfg) = true.
  Hypothesis Hex : exempt_reader e = true.

  (* writer-submessage events at reader e *)
  Definition wt (v : ev) : bool := match v with EvW t _ _ _ _ => t =? e | EvR _ _ _ => false end.

  Lemma wt_nil (c : config) s t w wr : t <> e -> filter wt (handle_writer c s t w wr) = [].
  Proof.
    intros Hne. assert (H : forall v, In v (handle_writer c s t w wr) -> wt v = false).
    { intros v Hv. pose proof (handle_writer_targets c s t w wr v Hv) as Ht.
      destruct v; simpl in *; auto. apply Z.eqb_eq in Ht. subst. apply Z.eqb_neq; auto. }
    induction (handle_writer c s t w wr) as [|v l IH]; simpl; auto.
    rewrite (H v (or_introl eq_refl)). apply IH. intros; apply H; right; auto.
  Qed.

  Lemma hw_same s t w :
    filter wt (handle_writer cfg s t w false)
    = filter wt (handle_writer (nosec cfg) (unspecial s) t w false).
  Proof.
    destruct (Z.eq_dec t e) as [->|Hne].
    - unfold handle_writer, has_reader, data_payload. simpl. rewrite Hex, P, Hpay. simpl.
      rewrite andb_false_r.
      destruct (negb (s_dest_own s)); auto;
      destruct (negb (existsb (fun rd => fst rd =? e) (c_readers cfg))); auto;
      destruct (w_kind w) as [[| |ok]|]; reflexivity.
    - rewrite !wt_nil; auto.
  Qed.

  Lemma hr_nil s r wr : filter wt (handle_reader s r wr) = [].
  Proof.
    unfold handle_reader. destruct (negb (s_dest_own s)); auto.
    destruct (s_special s && negb (exempt_writer (r_writer r))); auto.
  Qed.

  Lemma wt_flat_map_ext {A} (f g : A -> list ev) (l : list A) :
    (forall x, filter wt (f x) = filter wt (g x)) ->
    filter wt (flat_map f l) = filter wt (flat_map g l).
  Proof.
    intro H. induction l as [|x l IH]; simpl; auto. rewrite !filter_app, H, IH. reflexivity.
  Qed.

  Lemma hsub_same s x :
    s_sec s = SecNone -> plain_sub x = true ->
    unspecial (fst (handle_sub cfg s x)) = fst (handle_sub (nosec cfg) (unspecial s) x)
    /\ s_sec (fst (handle_sub cfg s x)) = SecNone
    /\ filter wt (snd (handle_sub cfg s x)) = filter wt (snd (handle_sub (nosec cfg) (unspecial s) x)).
  Proof.
    intros Hsec Hp. unfold handle_sub. simpl. rewrite Hsec.
    destruct x as [i|w|r| | | | |]; simpl in Hp; try discriminate; simpl.
    - destruct i; simpl; auto.
    - rewrite P. destruct (w_reader w =? E_UNKNOWN) eqn:U; simpl; repeat split; auto.
      + apply wt_flat_map_ext. intro t. unfold sub_np.
        destruct (Z.eq_dec t e) as [->|Hne].
        * rewrite Hsub, andb_true_r. destruct (s_dest_own s) eqn:D.
          -- apply hw_same.
          -- unfold handle_writer. simpl. rewrite D. reflexivity.
        * destruct (s_dest_own s && mem t (c_sub_np cfg)).
          -- apply hw_same.
          -- simpl. symmetry. apply wt_nil; auto.
      + unfold sub_np. destruct (Z.eq_dec (w_reader w) e) as [E|Hne].
        * rewrite E, Hsub, andb_true_r. destruct (s_dest_own s) eqn:D.
          -- apply hw_same.
          -- unfold handle_writer. simpl. rewrite D. reflexivity.
        * destruct (s_dest_own s && mem (w_reader w) (c_sub_np cfg)).
          -- apply hw_same.
          -- simpl. symmetry. apply wt_nil; auto.
    - rewrite P. simpl. repeat split; auto.
      destruct (sub_np cfg s (r_writer r)); simpl; rewrite ?hr_nil; reflexivity.
  Qed.

  Lemma hsubs_same : forall l s,
    s_sec s = SecNone -> forallb plain_sub l = true ->
    filter wt (snd (handle_subs cfg s l)) = filter wt (snd (handle_subs (nosec cfg) (unspecial s) l)).
  Proof.
    induction l as [|x l IH]; intros s Hsec Hp; simpl; auto.
    simpl in Hp. apply andb_true_iff in Hp as [Hx Hl].
    destruct (hsub_same s x Hsec Hx) as (A & B & D).
    destruct (handle_sub cfg s x) as [s1 e1].
    destruct (handle_sub (nosec cfg) (unspecial s) x) as [s1' e1'].
    simpl in A, B, D. subst s1'.
    specialize (IH s1 B Hl).
    destruct (handle_subs cfg s1 l) as [s2 e2].
    destruct (handle_subs (nosec cfg) (unspecial s1) l) as [s2' e2'].
    simpl in *. rewrite !filter_app, D, IH. reflexivity.
  Qed.

  Theorem liveness_bootstrap : forall m,
    forallb plain_sub (m_subs m) = true ->
    filter wt (handle_message cfg m) = filter wt (handle_message (nosec cfg) m).
  Proof.
    intros m Hp. unfold handle_message. rewrite P. simpl.
    destruct (m_subs m) as [|x l] eqn:L; [reflexivity|].
    assert (is_rtps_prefix x = false).
    { simpl in Hp. apply andb_true_iff in Hp as [Hx _]. destruct x; simpl in *; auto; discriminate. }
    rewrite H.
    apply (hsubs_same (x :: l) (init (negb (c_rtps_np cfg)) false)); auto.
  Qed.
End LiveBoot.

Example ex_bootstrap_hyp_satisfiable :
  c_plugins ex_cfg = true /\ mem SPDP_R (c_sub_np ex_cfg) = true
  /\ mem SPDP_R (c_pay_np ex_cfg) = true /\ exempt_reader SPDP_R = true /\ c_rtps_np ex_cfg = false.
Proof. repeat split; reflexivity. Qed.
