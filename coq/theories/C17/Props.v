(* C17 — property theorems only.  Proofs are one `exact`; statements are pinned by ./check. *)
From Coq Require Import List ZArith Bool.
From RD Require Import C17.Model C17.Proofs C17.Boot.
Import ListNotations.
Open Scope Z_scope.

(* For every configuration with security plugins and every sequence of messages (any submessage
   order, any crypto decode results): whatever reaches an endpoint without a protection arrived
   so because that endpoint does not require it —
   an unwrapped writer/reader submessage only if the endpoint's submessage protection is off; out of
   a message that was not RTPS-protected only if RTPS protection is off or the endpoint is one of the
   three bootstrap endpoints (SPDP, ParticipantStatelessMessage, ParticipantVolatileMessageSecure);
   a payload handed over as it arrived (in particular a plaintext one) only if payload protection
   is off; a "decoded" payload only if the decoder accepted it. *)
Theorem C17_no_bypass : forall cfg ms evs e,
  c_plugins cfg = true -> In evs (run_messages cfg ms) -> In e evs -> no_bypass_ev cfg e.
Proof. exact no_bypass. Qed.
Print Assumptions C17_no_bypass.

(* Traffic keeps flowing: in a domain without RTPS protection, on any message made of plaintext
   submessages (INFO_*, writer and reader submessages in any order, explicit or UNKNOWN receiver),
   an endpoint that needs neither submessage nor payload protection receives exactly the events
   it receives when no security plugins are configured at all. *)
Theorem C17_liveness : forall cfg e,
  c_plugins cfg = true ->
  mem e (c_sub_np cfg) = true -> mem e (c_pay_np cfg) = true ->
  forall m, c_rtps_np cfg = true ->
  forallb plain_sub (m_subs m) = true ->
  filter (targets e) (handle_message cfg m) = filter (targets e) (handle_message (nosec cfg) m).
Proof. exact liveness_unprotected. Qed.
Print Assumptions C17_liveness.

(* ... and the bootstrap readers keep receiving under RTPS protection too: for an exempt reader
   (SPDP, ParticipantStatelessMessage, ParticipantVolatileMessageSecure) that needs neither submessage
   nor payload protection, the writer-submessage events of any plaintext message are exactly those
   without security plugins, whether or not the domain is RTPS-protected. *)
Theorem C17_liveness_bootstrap : forall cfg e,
  c_plugins cfg = true ->
  mem e (c_sub_np cfg) = true -> mem e (c_pay_np cfg) = true -> exempt_reader e = true ->
  forall m, forallb plain_sub (m_subs m) = true ->
  filter (wt e) (handle_message cfg m) = filter (wt e) (handle_message (nosec cfg) m).
Proof. exact liveness_bootstrap. Qed.
Print Assumptions C17_liveness_bootstrap.

Theorem C17_model_ok : forall c, ok c (run c) = true.
Proof. exact run_ok. Qed.
Print Assumptions C17_model_ok.

(* an observation that passes the oracle contains only deliveries that a submessage with that id,
   sent the way the case says, entitles the endpoint to *)
Theorem C17_oracle_sound : forall c o,
  c_plugins (k_cfg c) = true -> ok c o = true ->
  forall ds d, In ds o -> In d ds ->
    let '(target, id, tag) := d in
    exists t, In t (flat_map sent_of_message (k_msgs c)) /\ t_id t = id
      /\ (t_sub_wrapped t = false -> mem target (c_sub_np (k_cfg c)) = true)
      /\ (t_rtps_wrapped t = false ->
            c_rtps_np (k_cfg c) = true
            \/ (if t_is_writer_sub t then exempt_reader target else exempt_writer target) = true)
      /\ (t_payload t = PPlain -> tag = 1 /\ mem target (c_pay_np (k_cfg c)) = true).
Proof. exact oracle_sound. Qed.
Print Assumptions C17_oracle_sound.
