(* C17 — model of the security gating in rtps::MessageReceiver (src/rtps/message_receiver.rs, feature
   `security`) and of the three "not protected" sets of SecurityPlugins
   (src/security/security_plugins.rs):
     handle_parsed_message (SecureRTPSPrefix handling, must_be_rtps_protection_special_case),
     handle_submessage (secure-submessage state machine; plaintext gating on submessage_not_protected;
       UNKNOWN-receiver fan-out), handle_writer_submessage / handle_reader_submessage (destination
       prefix test, the three bootstrap endpoints exempt from RTPS protection),
     decode_and_handle_data (payload_not_protected pass-through, else decode_serialized_payload),
     handle_secure_submessage (confirm_local_endpoint_guid against the handles the decoder approved),
     handle_interpreter_submessage (INFO_DST).
   Crypto decode results are oracle inputs carried by the case: per RTPS-protected message, per
   SecurePrefix, per encoded payload.  Entity ids are the u32 (big-endian) value of the EntityId. *)
From Coq Require Import List ZArith Bool Lia.
Import ListNotations.
Open Scope Z_scope.

Definition eid := Z.
Definition E_UNKNOWN : eid := 0.
Definition SPDP_W : eid := 65730.          (* 0x000100c2 SPDP_BUILTIN_PARTICIPANT_WRITER *)
Definition SPDP_R : eid := 65735.          (* 0x000100c7 SPDP_BUILTIN_PARTICIPANT_READER *)
Definition STATELESS_W : eid := 131523.    (* 0x000201c3 P2P_BUILTIN_PARTICIPANT_STATELESS_WRITER *)
Definition STATELESS_R : eid := 131524.    (* 0x000201c4 P2P_BUILTIN_PARTICIPANT_STATELESS_READER *)
Definition VOLATILE_W : eid := 4278321859. (* 0xff0202c3 P2P_BUILTIN_PARTICIPANT_VOLATILE_SECURE_WRITER *)
Definition VOLATILE_R : eid := 4278321860. (* 0xff0202c4 P2P_BUILTIN_PARTICIPANT_VOLATILE_SECURE_READER *)

Definition mem (x : eid) (l : list eid) : bool := existsb (Z.eqb x) l.

(* the endpoints exempt from RTPS-level protection (handle_writer_submessage / handle_reader_submessage) *)
Definition exempt_reader (e : eid) : bool := (e =? SPDP_R) || (e =? STATELESS_R) || (e =? VOLATILE_R).
Definition exempt_writer (e : eid) : bool := (e =? SPDP_W) || (e =? STATELESS_W) || (e =? VOLATILE_W).

(* serialized payload of a DATA submessage as it arrives *)
Inductive payload :=
| PNone                    (* no payload (e.g. key-only / dispose DATA) *)
| PPlain                   (* plaintext serialized payload *)
| PEnc (decode_ok : bool). (* crypto-transformed payload; oracle: decode_serialized_payload succeeds *)

Inductive wkind := KData (p : payload) | KHeartbeat.
Record wsub := { w_id : Z; w_kind : wkind; w_reader : eid; w_writer : eid }.   (* Data/Heartbeat/... *)
Inductive rkind := KAckNack | KNackFrag.
Record rsub := { r_id : Z; r_kind : rkind; r_writer : eid; r_reader : eid }.   (* receiver = r_writer *)

Inductive interp :=
| IDst (own : bool)       (* INFO_DST: our prefix or GUIDPREFIX_UNKNOWN (own = true) / someone else's *)
| ITs.                    (* INFO_TS (no effect on gating) *)

(* result of CryptoTransform::decode_submessage for one (prefix, body, postfix) wrapper *)
Inductive decoded :=
| DWriter (w : wsub) (approved : list eid)   (* local reader endpoints whose handle the decoder approved *)
| DReader (r : rsub) (approved : list eid)
| DInterp (i : interp).
Inductive outcome :=
| OSuccess (d : decoded)
| OKeysNotFound | OMacFailed | ONoParticipant | OError.

Inductive sub :=
| SInterp (i : interp)
| SWriter (w : wsub)
| SReader (r : rsub)
| SPrefix (o : outcome)     (* SecurePrefix; o = the decoder's answer for the wrapper it opens *)
| SBody                     (* SecureBody *)
| SPostfix                  (* SecurePostfix *)
| SRtpsPrefix               (* SecureRTPSPrefix *)
| SRtpsPostfix.             (* SecureRTPSPostfix *)

(* result of decode_rtps_message, consulted only if the first submessage is SecureRTPSPrefix *)
Inductive rtps_outcome := ROk (inner : list sub) | RFail.

Record message := { m_rtps : rtps_outcome; m_subs : list sub }.

Record config := {
  c_plugins : bool;               (* MessageReceiver.security_plugins is Some *)
  c_rtps_np : bool;               (* own prefix in SecurityPlugins.rtps_not_protected *)
  c_sub_np : list eid;            (* local endpoints in submessage_not_protected *)
  c_pay_np : list eid;            (* local endpoints in payload_not_protected *)
  c_registered : list eid;        (* local endpoints with a crypto handle *)
  c_readers : list (eid * list eid) }.   (* available_readers in BTreeMap order, each with the entity
                                            ids of its matched writers (Reader::contains_writer) *)

Inductive dpayload := DPNone | DPRaw (p : payload) | DPDecoded.

(* what reaches an endpoint: target_reader.handle_*_msg / the acknack channel *)
Inductive ev :=
| EvW (target : eid) (w : wsub) (sub_wrapped rtps_wrapped : bool) (pay : dpayload)
| EvR (r : rsub) (sub_wrapped rtps_wrapped : bool).

Inductive sec_state := SecNone | SecPrefix (o : outcome) | SecBody (o : outcome).

Record st := {
  s_dest_own : bool;      (* dest_guid_prefix == own_guid_prefix *)
  s_sec : sec_state;      (* secure_receiver_state *)
  s_special : bool;       (* must_be_rtps_protection_special_case *)
  s_rtps : bool }.        (* ghost: the submessages being processed came out of decode_rtps_message *)

Definition set_sec (s : st) (x : sec_state) : st :=
  {| s_dest_own := s_dest_own s; s_sec := x; s_special := s_special s; s_rtps := s_rtps s |}.
Definition set_dest (s : st) (b : bool) : st :=
  {| s_dest_own := b; s_sec := s_sec s; s_special := s_special s; s_rtps := s_rtps s |}.

Section Receiver.
  Variable cfg : config.

  Definition has_reader (e : eid) : bool := existsb (fun rd => fst rd =? e) (c_readers cfg).

  (* decode_and_handle_data *)
  Definition data_payload (target : eid) (p : payload) : option dpayload :=
    match p with
    | PNone => Some DPNone
    | _ =>
        if c_plugins cfg then
          if mem target (c_pay_np cfg) then Some (DPRaw p)       (* payload_not_protected: as is *)
          else match p with
               | PEnc true => Some DPDecoded
               | _ => None                                       (* decode error: dropped *)
               end
        else Some (DPRaw p)
    end.

  (* handle_writer_submessage *)
  Definition handle_writer (s : st) (target : eid) (w : wsub) (wrapped : bool) : list ev :=
    if negb (s_dest_own s) then [] else
    if s_special s && negb (exempt_reader target) then [] else
    if negb (has_reader target) then [] else
    match w_kind w with
    | KData p => match data_payload target p with
                 | Some dp => [EvW target w wrapped (s_rtps s) dp]
                 | None => []
                 end
    | KHeartbeat => [EvW target w wrapped (s_rtps s) DPNone]
    end.

  (* handle_reader_submessage *)
  Definition handle_reader (s : st) (r : rsub) (wrapped : bool) : list ev :=
    if negb (s_dest_own s) then [] else
    if s_special s && negb (exempt_writer (r_writer r)) then [] else
    [EvR r wrapped (s_rtps s)].

  (* handle_interpreter_submessage *)
  Definition handle_interp (s : st) (i : interp) : st :=
    match i with
    | IDst own => set_dest s own
    | ITs => s
    end.

  (* the reader filter of the UNKNOWN-receiver fan-out *)
  Definition reader_takes (rd : eid * list eid) (writer : eid) : bool :=
    mem writer (snd rd)
    || ((writer =? SPDP_W) && (fst rd =? SPDP_R))
    || ((writer =? STATELESS_W) && (fst rd =? STATELESS_R)).

  (* plugins.submessage_not_protected(GUID { prefix: dest_guid_prefix, entity_id }) *)
  Definition sub_np (s : st) (e : eid) : bool := s_dest_own s && mem e (c_sub_np cfg).

  (* plugins.confirm_local_endpoint_guid(approved, GUID { prefix: dest_guid_prefix, entity_id }) *)
  Definition confirm (s : st) (approved : list eid) (e : eid) : bool :=
    s_dest_own s && mem e (c_registered cfg) && mem e approved.

  (* handle_secure_submessage *)
  Definition handle_secure (s : st) (o : outcome) : st * list ev :=
    if negb (c_plugins cfg) then (s, []) else
    match o with
    | OSuccess (DWriter w approved) =>
        if w_reader w =? E_UNKNOWN then
          match find (fun rd => reader_takes rd (w_writer w) && confirm s approved (fst rd)) (c_readers cfg) with
          | Some rd => (s, handle_writer s (fst rd) w true)
          | None => (s, [])
          end
        else if confirm s approved (w_reader w) then (s, handle_writer s (w_reader w) w true)
        else (s, [])
    | OSuccess (DReader r approved) =>
        if confirm s approved (r_writer r) then (s, handle_reader s r true) else (s, [])
    | OSuccess (DInterp i) => (handle_interp s i, [])
    | _ => (s, [])
    end.

  (* handle_submessage; the state passed in has already been `.take()`n in the code: every branch
     states the new secure_receiver_state explicitly *)
  Definition handle_sub (s : st) (x : sub) : st * list ev :=
    match s_sec s with
    | SecNone =>
        match x with
        | SInterp i => (handle_interp s i, [])
        | SWriter w =>
            if w_reader w =? E_UNKNOWN then
              let targets := map fst (filter (fun rd => reader_takes rd (w_writer w)) (c_readers cfg)) in
              (s, flat_map (fun t => if c_plugins cfg
                                     then (if sub_np s t then handle_writer s t w false else [])
                                     else handle_writer s t w false) targets)
            else if c_plugins cfg then
              (s, if sub_np s (w_reader w) then handle_writer s (w_reader w) w false else [])
            else (s, handle_writer s (w_reader w) w false)
        | SReader r =>
            if c_plugins cfg then
              (s, if sub_np s (r_writer r) then handle_reader s r false else [])
            else (s, handle_reader s r false)
        | SPrefix o => if s_dest_own s then (set_sec s (SecPrefix o), []) else (s, [])
        | SBody | SPostfix | SRtpsPrefix | SRtpsPostfix => (s, [])
        end
    | SecPrefix o => (set_sec s (SecBody o), [])           (* whatever follows the prefix is the body *)
    | SecBody o =>
        match x with
        | SPostfix => handle_secure (set_sec s SecNone) o
        | _ => (set_sec s SecNone, [])
        end
    end.

  Fixpoint handle_subs (s : st) (l : list sub) : st * list ev :=
    match l with
    | [] => (s, [])
    | x :: l' => let (s1, e1) := handle_sub s x in
                 let (s2, e2) := handle_subs s1 l' in (s2, e1 ++ e2)
    end.

  Definition init (special rtps : bool) : st :=
    {| s_dest_own := true; s_sec := SecNone; s_special := special; s_rtps := rtps |}.

  Definition is_rtps_prefix (x : sub) : bool := match x with SRtpsPrefix => true | _ => false end.

  (* handle_parsed_message *)
  Definition handle_message (m : message) : list ev :=
    if c_plugins cfg then
      match m_subs m with
      | x :: _ =>
          if is_rtps_prefix x then
            match m_rtps m with
            | ROk inner => snd (handle_subs (init false true) inner)
            | RFail => []
            end
          else snd (handle_subs (init (negb (c_rtps_np cfg)) false) (m_subs m))
      | [] => []
      end
    else snd (handle_subs (init false false) (m_subs m)).
End Receiver.

Definition run_messages (cfg : config) (ms : list message) : list (list ev) :=
  map (handle_message cfg) ms.

(* ------------------------------------------------------------------------------------------ *)
(* Correspondence interface.  The implementation is observed per injected message at the
   endpoints: new topic-cache entries / heartbeat counters of the real Readers and the acknack
   channel.  An observed delivery is (target endpoint, id of the submessage, payload tag):
   0 = no payload / not a DATA, 1 = payload bytes as sent, 2 = decoded payload. *)
Record case := { k_cfg : config; k_msgs : list message }.
Definition delivery := (Z * Z * Z)%type.
Definition obs := list (list delivery).

Definition ptag (d : dpayload) : Z :=
  match d with DPNone => 0 | DPRaw _ => 1 | DPDecoded => 2 end.

(* the Reader itself ignores DATA/HEARTBEAT of a user-defined writer it has no proxy for
   (Reader::process_received_data / handle_heartbeat_msg): such a delivery is not observable *)
Definition is_user_writer (w : eid) : bool := (Z.land w 192) =? 0.   (* entity kind bits 0xc0 clear *)
Definition observable (cfg : config) (e : ev) : bool :=
  match e with
  | EvW t w _ _ _ =>
      match find (fun rd => fst rd =? t) (c_readers cfg) with
      | Some rd => mem (w_writer w) (snd rd)
                   || match w_kind w with KData _ => negb (is_user_writer (w_writer w)) | _ => false end
      | None => false
      end
  | EvR _ _ _ => true
  end.

Definition ev_delivery (e : ev) : delivery :=
  match e with
  | EvW t w _ _ dp => (t, w_id w, ptag dp)
  | EvR r _ _ => (r_writer r, r_id r, 0)
  end.

Fixpoint insert_sorted (d : delivery) (l : list delivery) : list delivery :=
  match l with
  | [] => [d]
  | x :: l' =>
      let '(a1, b1, c1) := d in let '(a2, b2, c2) := x in
      if (a1 <? a2) || ((a1 =? a2) && ((b1 <? b2) || ((b1 =? b2) && (c1 <=? c2))))
      then d :: l else x :: insert_sorted d l'
  end.
Definition sort_deliveries (l : list delivery) : list delivery := fold_right insert_sorted [] l.

Definition run (c : case) : obs :=
  map (fun evs => sort_deliveries (map ev_delivery (filter (observable (k_cfg c)) evs)))
      (run_messages (k_cfg c) (k_msgs c)).

Definition delivery_eqb (a b : delivery) : bool :=
  let '(a1, b1, c1) := a in let '(a2, b2, c2) := b in (a1 =? a2) && (b1 =? b2) && (c1 =? c2).
Fixpoint list_eqb {A} (eqb : A -> A -> bool) (l1 l2 : list A) : bool :=
  match l1, l2 with
  | [], [] => true
  | x :: l1', y :: l2' => eqb x y && list_eqb eqb l1' l2'
  | _, _ => false
  end.
Definition obs_eqb (m i : obs) : bool := list_eqb (list_eqb delivery_eqb) m i.

(* ------------------------------------------------------------------------------------------ *)
(* The property oracle.  From the case alone it determines, for every submessage id, how it was
   sent (plaintext or inside a secure-submessage wrapper; inside an RTPS-protected message or not;
   payload kind); an observed delivery of that id at endpoint e is acceptable only if e's
   corresponding protection is off (or e is one of the exempt bootstrap endpoints).  Ids are unique
   within a case (checked). *)
Record sent := { t_id : Z; t_is_writer_sub : bool; t_sub_wrapped : bool; t_rtps_wrapped : bool;
                 t_payload : payload }.

Definition sent_of_w (w : wsub) (sw rw : bool) : sent :=
  {| t_id := w_id w; t_is_writer_sub := true; t_sub_wrapped := sw; t_rtps_wrapped := rw;
     t_payload := match w_kind w with KData p => p | KHeartbeat => PNone end |}.
Definition sent_of_r (r : rsub) (sw rw : bool) : sent :=
  {| t_id := r_id r; t_is_writer_sub := false; t_sub_wrapped := sw; t_rtps_wrapped := rw;
     t_payload := PNone |}.

Definition sent_of_sub (rw : bool) (x : sub) : list sent :=
  match x with
  | SWriter w => [sent_of_w w false rw]
  | SReader r => [sent_of_r r false rw]
  | SPrefix (OSuccess (DWriter w _)) => [sent_of_w w true rw]
  | SPrefix (OSuccess (DReader r _)) => [sent_of_r r true rw]
  | _ => []
  end.

Definition sent_of_message (m : message) : list sent :=
  flat_map (sent_of_sub false) (m_subs m)
  ++ match m_rtps m with ROk inner => flat_map (sent_of_sub true) inner | RFail => [] end.

Definition payload_tag_ok (cfg : config) (target : eid) (p : payload) (tag : Z) : bool :=
  match p with
  | PPlain => (tag =? 1) && mem target (c_pay_np cfg)      (* handed over as it arrived *)
  | PEnc ok => ((tag =? 1) && mem target (c_pay_np cfg)) || ((tag =? 2) && ok)
  | PNone => tag =? 0
  end.

Definition sent_allows (cfg : config) (target : eid) (tag : Z) (t : sent) : bool :=
  (* unwrapped submessage: the endpoint's submessage protection must be off *)
  (t_sub_wrapped t || mem target (c_sub_np cfg))
  (* message not RTPS-protected: RTPS protection off, or an exempt bootstrap endpoint *)
  && (t_rtps_wrapped t || c_rtps_np cfg
      || (if t_is_writer_sub t then exempt_reader target else exempt_writer target))
  (* a payload handed over as it arrived needs payload protection off; a decoded one needs a
     successful decode; a plaintext payload can never count as decoded *)
  && payload_tag_ok cfg target (t_payload t) tag.

(* some submessage with that id was sent in a way that entitles the endpoint to receive it (ids are
   unique per case by construction of the driver, so "some" is "the") *)
Definition delivery_ok (cfg : config) (sents : list sent) (d : delivery) : bool :=
  let '(target, id, tag) := d in
  existsb (fun t => (t_id t =? id) && sent_allows cfg target tag t) sents.

(* liveness: in a message made only of plaintext writer/reader submessages with explicit receivers
   (and INFO_TS), everything addressed to an existing endpoint that needs no protection, from a
   writer the reader is matched with, must be delivered *)
Definition simple_sub (x : sub) : bool :=
  match x with
  | SInterp ITs => true
  | SWriter w => negb (w_reader w =? E_UNKNOWN)
  | SReader _ => true
  | _ => false
  end.

Definition must_deliver (cfg : config) (x : sub) : list delivery :=
  match x with
  | SWriter w =>
      let t := w_reader w in
      if mem t (c_sub_np cfg) && (c_rtps_np cfg || exempt_reader t)
         && match find (fun rd => fst rd =? t) (c_readers cfg) with
            | Some rd => mem (w_writer w) (snd rd)
            | None => false
            end
      then match w_kind w with
           | KHeartbeat => [(t, w_id w, 0)]
           | KData PNone => [(t, w_id w, 0)]
           | KData _ => if mem t (c_pay_np cfg) then [(t, w_id w, 1)] else []
           end
      else []
  | SReader r =>
      let t := r_writer r in
      if mem t (c_sub_np cfg) && (c_rtps_np cfg || exempt_writer t) then [(t, r_id r, 0)] else []
  | _ => []
  end.

Definition liveness_ok (cfg : config) (m : message) (ds : list delivery) : bool :=
  if forallb simple_sub (m_subs m) then
    forallb (fun d => existsb (delivery_eqb d) ds) (flat_map (must_deliver cfg) (m_subs m))
  else true.

Fixpoint ok_msgs (cfg : config) (sents : list sent) (ms : list message) (o : obs) : bool :=
  match ms, o with
  | [], [] => true
  | m :: ms', ds :: o' =>
      forallb (delivery_ok cfg sents) ds
      && (if c_plugins cfg then liveness_ok cfg m ds else true)
      && ok_msgs cfg sents ms' o'
  | _, _ => false
  end.

Definition ok (c : case) (o : obs) : bool :=
  let sents := flat_map sent_of_message (k_msgs c) in
  if c_plugins (k_cfg c) then ok_msgs (k_cfg c) sents (k_msgs c) o
  else
    (* without security plugins the property demands nothing; only the shape is checked *)
    Nat.eqb (length o) (length (k_msgs c)).
