(* C17 — no plaintext bypass of required protection; liveness of unprotected traffic; the oracle. *)
From Coq Require Import List ZArith Bool Lia.
From RD Require Import C17.Model.
Import ListNotations.
Open Scope Z_scope.

Definition payload_of (w : wsub) : payload :=
  match w_kind w with KData p => p | KHeartbeat => PNone end.

Section Good.
  Variable cfg : config.

  Definition pay_good (t : eid) (w : wsub) (dp : dpayload) : Prop :=
    match dp with
    | DPNone => payload_of w = PNone
    | DPRaw p => payload_of w = p /\ p <> PNone
                 /\ (c_plugins cfg = true -> mem t (c_pay_np cfg) = true)
    | DPDecoded => payload_of w = PEnc true
    end.

  (* an event is justified: it stems from a submessage that was sent (sents), and every protection
     it arrived without is one its target does not require *)
  Definition ev_good (special rtps : bool) (sents : list sent) (e : ev) : Prop :=
    match e with
    | EvW t w sw rw dp =>
        rw = rtps /\ In (sent_of_w w sw rw) sents
        /\ (c_plugins cfg = true -> sw = false -> mem t (c_sub_np cfg) = true)
        /\ (special = true -> exempt_reader t = true)
        /\ pay_good t w dp
    | EvR r sw rw =>
        rw = rtps /\ In (sent_of_r r sw rw) sents
        /\ (c_plugins cfg = true -> sw = false -> mem (r_writer r) (c_sub_np cfg) = true)
        /\ (special = true -> exempt_writer (r_writer r) = true)
    end.

  Lemma ev_good_mono special rtps s1 s2 e :
    (forall t, In t s1 -> In t s2) -> ev_good special rtps s1 e -> ev_good special rtps s2 e.
  Proof.
    intros H. destruct e; simpl.
    - intros (A & B & C & D & E). repeat split; auto.
    - intros (A & B & C & D). repeat split; auto.
  Qed.

  Lemma special_exempt (b x : bool) : b && negb x = false -> b = true -> x = true.
  Proof. destruct b, x; simpl; auto; discriminate. Qed.

  Lemma handle_writer_good s t w wrapped sents :
    In (sent_of_w w wrapped (s_rtps s)) sents ->
    (c_plugins cfg = true -> wrapped = false -> mem t (c_sub_np cfg) = true) ->
    forall e, In e (handle_writer cfg s t w wrapped) -> ev_good (s_special s) (s_rtps s) sents e.
  Proof.
    intros Hs Hw e. unfold handle_writer.
    destruct (negb (s_dest_own s)); [intros []|].
    destruct (s_special s && negb (exempt_reader t)) eqn:Hx; [intros []|].
    destruct (negb (has_reader cfg t)); [intros []|].
    pose proof (special_exempt _ _ Hx) as Hex.
    unfold payload_of, data_payload.
    destruct (w_kind w) as [p|] eqn:K.
    - destruct p as [| |ok].
      + intros [<-|[]]. simpl. unfold payload_of. rewrite K. repeat split; auto.
      + destruct (c_plugins cfg) eqn:P.
        * destruct (mem t (c_pay_np cfg)) eqn:M.
          -- intros [<-|[]]. simpl. unfold payload_of. rewrite K. repeat split; auto. discriminate.
          -- intros [].
        * intros [<-|[]]. simpl. unfold payload_of. rewrite K.
          repeat split; auto; try discriminate; try (intro Q; rewrite P in Q; discriminate).
      + destruct (c_plugins cfg) eqn:P.
        * destruct (mem t (c_pay_np cfg)) eqn:M.
          -- intros [<-|[]]. simpl. unfold payload_of. rewrite K. repeat split; auto. discriminate.
          -- destruct ok; [|intros []].
             intros [<-|[]]. simpl. unfold payload_of. rewrite K. repeat split; auto.
        * intros [<-|[]]. simpl. unfold payload_of. rewrite K.
          repeat split; auto; try discriminate; try (intro Q; rewrite P in Q; discriminate).
    - intros [<-|[]]. simpl. unfold payload_of. rewrite K. repeat split; auto.
  Qed.

  Lemma handle_reader_good s r wrapped sents :
    In (sent_of_r r wrapped (s_rtps s)) sents ->
    (c_plugins cfg = true -> wrapped = false -> mem (r_writer r) (c_sub_np cfg) = true) ->
    forall e, In e (handle_reader s r wrapped) -> ev_good (s_special s) (s_rtps s) sents e.
  Proof.
    intros Hs Hw e. unfold handle_reader.
    destruct (negb (s_dest_own s)); [intros []|].
    destruct (s_special s && negb (exempt_writer (r_writer r))) eqn:Hx; [intros []|].
    pose proof (special_exempt _ _ Hx) as Hex.
    intros [<-|[]]. simpl. repeat split; auto.
  Qed.

  Definition pending (s : st) : list sent :=
    match s_sec s with
    | SecNone => []
    | SecPrefix o | SecBody o => sent_of_sub (s_rtps s) (SPrefix o)
    end.

  Lemma sub_np_true s t : sub_np cfg s t = true -> mem t (c_sub_np cfg) = true.
  Proof. unfold sub_np. intro H. apply andb_true_iff in H. tauto. Qed.

  Lemma handle_interp_fields s i :
    s_special (handle_interp s i) = s_special s /\ s_rtps (handle_interp s i) = s_rtps s
    /\ s_sec (handle_interp s i) = s_sec s.
  Proof. destruct i; simpl; auto. Qed.

  Lemma handle_secure_good s o s1 evs :
    s_sec s = SecNone ->
    handle_secure cfg s o = (s1, evs) ->
    s_special s1 = s_special s /\ s_rtps s1 = s_rtps s /\ s_sec s1 = SecNone
    /\ forall e, In e evs ->
         ev_good (s_special s) (s_rtps s) (sent_of_sub (s_rtps s) (SPrefix o)) e.
  Proof.
    intros Hsec. unfold handle_secure.
    destruct (negb (c_plugins cfg)). { intro H; injection H as <- <-. repeat split; auto. intros e []. }
    destruct o as [d| | | |]; try (intro H; injection H as <- <-; repeat split; auto; intros e []).
    destruct d as [w approved|r approved|i].
    - destruct (w_reader w =? E_UNKNOWN).
      + destruct (find _ (c_readers cfg)) as [rd|].
        * intro H; injection H as <- <-. repeat split; auto. intros e He.
          eapply handle_writer_good; eauto. { simpl. left; reflexivity. } { intros _ Hf; discriminate. }
        * intro H; injection H as <- <-. repeat split; auto. intros e [].
      + destruct (confirm cfg s approved (w_reader w)).
        * intro H; injection H as <- <-. repeat split; auto. intros e He.
          eapply handle_writer_good; eauto. { simpl. left; reflexivity. } { intros _ Hf; discriminate. }
        * intro H; injection H as <- <-. repeat split; auto. intros e [].
    - destruct (confirm cfg s approved (r_writer r)).
      + intro H; injection H as <- <-. repeat split; auto. intros e He.
        eapply handle_reader_good; eauto. { simpl. left; reflexivity. } { intros _ Hf; discriminate. }
      + intro H; injection H as <- <-. repeat split; auto. intros e [].
    - intro H; injection H as <- <-. destruct (handle_interp_fields s i) as (A & B & C).
      repeat split; auto. { rewrite C; auto. } intros e [].
  Qed.

  Lemma handle_sub_good s x s1 evs :
    handle_sub cfg s x = (s1, evs) ->
    s_special s1 = s_special s /\ s_rtps s1 = s_rtps s
    /\ (forall t, In t (pending s1) -> In t (pending s ++ sent_of_sub (s_rtps s) x))
    /\ (forall e, In e evs ->
          ev_good (s_special s) (s_rtps s) (pending s ++ sent_of_sub (s_rtps s) x) e).
  Proof.
    unfold handle_sub, pending. destruct (s_sec s) as [|o|o] eqn:Hsec.
    - (* SecNone *)
      destruct x as [i|w|r|o| | | |]; simpl.
      + intro H; injection H as <- <-. destruct (handle_interp_fields s i) as (A & B & C).
        rewrite A, B, C, Hsec. repeat split; auto. intros e [].
      + destruct (w_reader w =? E_UNKNOWN).
        * intro H; injection H as <- <-. rewrite Hsec. repeat split; auto. intros e He.
          apply in_flat_map in He as (t & _ & He).
          destruct (c_plugins cfg) eqn:P.
          -- destruct (sub_np cfg s t) eqn:N; [|destruct He].
             eapply handle_writer_good; eauto. { left; reflexivity. } { intros _ _. eapply sub_np_true; eauto. }
          -- eapply handle_writer_good; eauto. { left; reflexivity. } { intro Q; rewrite P in Q; discriminate. }
        * destruct (c_plugins cfg) eqn:P.
          -- intro H; injection H as <- <-. rewrite Hsec. repeat split; auto. intros e He.
             destruct (sub_np cfg s (w_reader w)) eqn:N; [|destruct He].
             eapply handle_writer_good; eauto. { left; reflexivity. } { intros _ _. eapply sub_np_true; eauto. }
          -- intro H; injection H as <- <-. rewrite Hsec. repeat split; auto. intros e He.
             eapply handle_writer_good; eauto. { left; reflexivity. } { intro Q; rewrite P in Q; discriminate. }
      + destruct (c_plugins cfg) eqn:P.
        * intro H; injection H as <- <-. rewrite Hsec. repeat split; auto. intros e He.
          destruct (sub_np cfg s (r_writer r)) eqn:N; [|destruct He].
          eapply handle_reader_good; eauto. { left; reflexivity. } { intros _ _. eapply sub_np_true; eauto. }
        * intro H; injection H as <- <-. rewrite Hsec. repeat split; auto. intros e He.
          eapply handle_reader_good; eauto. { left; reflexivity. } { intro Q; rewrite P in Q; discriminate. }
      + destruct (s_dest_own s).
        * intro H; injection H as <- <-. simpl. repeat split; auto. intros e [].
        * intro H; injection H as <- <-. rewrite Hsec. repeat split; auto. { intros t []. } intros e [].
      + intro H; injection H as <- <-. rewrite Hsec. repeat split; auto. intros e [].
      + intro H; injection H as <- <-. rewrite Hsec. repeat split; auto. intros e [].
      + intro H; injection H as <- <-. rewrite Hsec. repeat split; auto. intros e [].
      + intro H; injection H as <- <-. rewrite Hsec. repeat split; auto. intros e [].
    - (* SecPrefix *)
      intro H; injection H as <- <-. simpl. repeat split; auto.
      + intros t Ht. apply in_or_app. left; auto.
      + intros e [].
    - (* SecBody *)
      destruct x; try (intro H; injection H as <- <-; simpl; repeat split; auto; [intros t []|intros e []]).
      intro H. apply handle_secure_good in H as (A & B & C & D); [|reflexivity].
      simpl in A, B, D. rewrite A, B, C. repeat split; auto. { intros t []. }
      intros e He. eapply ev_good_mono; [|apply D; auto]. intros t Ht. apply in_or_app. left; auto.
  Qed.

  Lemma handle_subs_good : forall l s s2 evs,
    handle_subs cfg s l = (s2, evs) ->
    forall e, In e evs ->
      ev_good (s_special s) (s_rtps s) (pending s ++ flat_map (sent_of_sub (s_rtps s)) l) e.
  Proof.
    induction l as [|x l IH]; intros s s2 evs H e He; simpl in H.
    - inversion H; subst. destruct He.
    - destruct (handle_sub cfg s x) as [s1 e1] eqn:E1.
      destruct (handle_subs cfg s1 l) as [s3 e2] eqn:E2. inversion H; subst.
      apply handle_sub_good in E1 as (A & B & C & D).
      apply in_app_or in He as [He|He].
      + eapply ev_good_mono; [|apply D; auto]. intros t Ht. simpl.
        apply in_app_or in Ht as [Ht|Ht]; apply in_or_app; auto. right. apply in_or_app; auto.
      + specialize (IH _ _ _ E2 e He). rewrite A, B in IH.
        eapply ev_good_mono; [|exact IH]. intros t Ht. simpl.
        apply in_app_or in Ht as [Ht|Ht].
        * apply C in Ht. apply in_app_or in Ht as [Ht|Ht]; apply in_or_app; auto.
          right. apply in_or_app; auto.
        * apply in_or_app. right. apply in_or_app; auto.
  Qed.

  (* per message: every event is justified by a submessage of that message; [special] is what
     handle_parsed_message computed for it *)
  Lemma handle_message_good m e :
    In e (handle_message cfg m) ->
    exists special rtps,
      ev_good special rtps (sent_of_message m) e
      /\ (c_plugins cfg = true -> rtps = false -> special = negb (c_rtps_np cfg))
      /\ (rtps = true -> special = false).
  Proof.
    unfold handle_message, sent_of_message. destruct (c_plugins cfg) eqn:P.
    - destruct (m_subs m) as [|x l] eqn:L; [intros []|].
      destruct (is_rtps_prefix x) eqn:R.
      + destruct (m_rtps m) as [inner|]; [|intros []].
        destruct (handle_subs cfg (init false true) inner) as [s2 evs] eqn:E. simpl. intro He.
        exists false, true. split; [|split; auto; discriminate].
        eapply ev_good_mono; [|eapply (handle_subs_good _ _ _ _ E); eauto].
        simpl. intros t Ht. apply in_or_app. right. exact Ht.
      + destruct (handle_subs cfg (init (negb (c_rtps_np cfg)) false) (x :: l)) as [s2 evs] eqn:E.
        simpl. intro He. exists (negb (c_rtps_np cfg)), false. split; [|split; auto; discriminate].
        eapply ev_good_mono; [|eapply (handle_subs_good _ _ _ _ E); eauto].
        simpl. intros t Ht. apply in_or_app. left. exact Ht.
    - destruct (handle_subs cfg (init false false) (m_subs m)) as [s2 evs] eqn:E. simpl. intro He.
      exists false, false. split; [|split; [discriminate|auto]].
      eapply ev_good_mono; [|eapply (handle_subs_good _ _ _ _ E); eauto].
      simpl. intros t Ht. apply in_or_app. left. exact Ht.
  Qed.
End Good.

(* ------------------------------------------------------------------------------------------ *)
(* C17_no_bypass *)

Definition no_bypass_ev (cfg : config) (e : ev) : Prop :=
  match e with
  | EvW t w sw rw dp =>
      (* an unwrapped (plaintext) writer submessage reached reader t: t's submessage protection is off *)
      (sw = false -> mem t (c_sub_np cfg) = true)
      (* it did not come in an RTPS-protected message: RTPS protection is off or t is exempt *)
      /\ (rw = false -> c_rtps_np cfg = true \/ exempt_reader t = true)
      (* the payload was handed over as it arrived (in particular a plaintext one): payload protection is off *)
      /\ (forall p, dp = DPRaw p -> mem t (c_pay_np cfg) = true)
      /\ (dp = DPDecoded -> w_kind w = KData (PEnc true))
  | EvR r sw rw =>
      (sw = false -> mem (r_writer r) (c_sub_np cfg) = true)
      /\ (rw = false -> c_rtps_np cfg = true \/ exempt_writer (r_writer r) = true)
  end.

Lemma special_cases (cfg : config) special rtps :
  (rtps = false -> special = negb (c_rtps_np cfg)) ->
  forall x : bool, (special = true -> x = true) -> rtps = false -> c_rtps_np cfg = true \/ x = true.
Proof.
  intros H x Hx Hr. specialize (H Hr). destruct (c_rtps_np cfg); simpl in H; auto.
Qed.

Theorem no_bypass : forall cfg ms evs e,
  c_plugins cfg = true -> In evs (run_messages cfg ms) -> In e evs -> no_bypass_ev cfg e.
Proof.
  intros cfg ms evs e P Hevs He. unfold run_messages in Hevs.
  apply in_map_iff in Hevs as (m & <- & _).
  apply handle_message_good in He as (special & rtps & G & S1 & S2).
  specialize (S1 P). destruct e as [t w sw rw dp | r sw rw]; simpl in G |- *.
  - destruct G as (-> & _ & A & B & C). repeat split; auto.
    + eapply special_cases; eauto.
    + intros p ->. simpl in C. tauto.
    + intros ->. simpl in C. unfold payload_of in C. destruct (w_kind w); congruence.
  - destruct G as (-> & _ & A & B). repeat split; auto. eapply special_cases; eauto.
Qed.

(* ------------------------------------------------------------------------------------------ *)
(* C17_liveness: on plaintext messages, an endpoint that needs no protection in a domain without
   RTPS protection sees exactly what it would see without security plugins *)

Definition plain_sub (x : sub) : bool :=
  match x with SInterp _ | SWriter _ | SReader _ => true | _ => false end.

Definition targets (e : eid) (v : ev) : bool :=
  match v with EvW t _ _ _ _ => t =? e | EvR r _ _ => r_writer r =? e end.

Definition nosec (cfg : config) : config :=
  {| c_plugins := false; c_rtps_np := c_rtps_np cfg; c_sub_np := c_sub_np cfg;
     c_pay_np := c_pay_np cfg; c_registered := c_registered cfg; c_readers := c_readers cfg |}.

Section Live.
  Variable cfg : config.
  Variable e : eid.
  Hypothesis P : c_plugins cfg = true.
  Hypothesis Hsub : mem e (c_sub_np cfg) = true.
  Hypothesis Hpay : mem e (c_pay_np cfg) = true.

  Lemma handle_writer_targets (c : config) s t w wr v :
    In v (handle_writer c s t w wr) -> targets t v = true.
  Proof.
    unfold handle_writer. destruct (negb (s_dest_own s)); [intros []|].
    destruct (s_special s && negb (exempt_reader t)); [intros []|].
    destruct (negb (has_reader c t)); [intros []|].
    destruct (w_kind w).
    - destruct (data_payload c t p); [|intros []]. intros [<-|[]]. simpl. apply Z.eqb_refl.
    - intros [<-|[]]. simpl. apply Z.eqb_refl.
  Qed.

  Lemma filter_nil_targets (l : list ev) t : t <> e ->
    (forall v, In v l -> targets t v = true) -> filter (targets e) l = [].
  Proof.
    intros Hne H. induction l as [|v l IH]; simpl; auto.
    assert (Hv : targets t v = true) by (apply H; left; auto).
    assert (targets e v = false).
    { destruct v; simpl in *; apply Z.eqb_eq in Hv; subst; apply Z.eqb_neq; auto. }
    rewrite H0. apply IH. intros; apply H; right; auto.
  Qed.

  (* same non-secure state, no special case *)
  Lemma handle_writer_same s t w :
    s_special s = false ->
    filter (targets e) (handle_writer cfg s t w false)
    = filter (targets e) (handle_writer (nosec cfg) s t w false).
  Proof.
    intros Hs. destruct (Z.eq_dec t e) as [->|Hne].
    - unfold handle_writer, has_reader, data_payload. simpl. rewrite Hs, P, Hpay. simpl.
      destruct (negb (s_dest_own s)); auto;
      destruct (negb (existsb (fun rd => fst rd =? e) (c_readers cfg))); auto;
      destruct (w_kind w) as [[| |ok]|]; reflexivity.
    - rewrite (filter_nil_targets _ t), (filter_nil_targets _ t); auto.
      + intros v Hv. eapply (handle_writer_targets (nosec cfg)); eauto.
      + intros v Hv. eapply (handle_writer_targets cfg); eauto.
  Qed.

  Lemma handle_reader_same s r :
    s_special s = false ->
    handle_reader s r false = handle_reader s r false.
  Proof. reflexivity. Qed.

  Lemma filter_flat_map_ext {A} (f g : A -> list ev) (l : list A) :
    (forall x, filter (targets e) (f x) = filter (targets e) (g x)) ->
    filter (targets e) (flat_map f l) = filter (targets e) (flat_map g l).
  Proof.
    intro H. induction l as [|x l IH]; simpl; auto. rewrite !filter_app, H, IH. reflexivity.
  Qed.

  Lemma handle_sub_same s x :
    s_special s = false -> s_sec s = SecNone -> plain_sub x = true ->
    fst (handle_sub cfg s x) = fst (handle_sub (nosec cfg) s x)
    /\ s_sec (fst (handle_sub cfg s x)) = SecNone
    /\ s_special (fst (handle_sub cfg s x)) = false
    /\ filter (targets e) (snd (handle_sub cfg s x))
       = filter (targets e) (snd (handle_sub (nosec cfg) s x)).
  Proof.
    intros Hs Hsec Hp. unfold handle_sub. rewrite Hsec.
    destruct x as [i|w|r| | | | |]; simpl in Hp; try discriminate; simpl.
    - destruct i; simpl; auto.
    - rewrite P. destruct (w_reader w =? E_UNKNOWN) eqn:U; simpl; repeat split; auto.
      + apply filter_flat_map_ext. intro t. unfold sub_np.
        destruct (Z.eq_dec t e) as [->|Hne].
        * rewrite Hsub, andb_true_r. destruct (s_dest_own s) eqn:D.
          -- apply handle_writer_same; auto.
          -- unfold handle_writer. rewrite D. reflexivity.
        * destruct (s_dest_own s && mem t (c_sub_np cfg)).
          -- apply handle_writer_same; auto.
          -- simpl. symmetry. apply (filter_nil_targets _ t); auto.
             intros v Hv. eapply (handle_writer_targets (nosec cfg)); eauto.
      + unfold sub_np. destruct (Z.eq_dec (w_reader w) e) as [E|Hne].
        * rewrite E, Hsub, andb_true_r. destruct (s_dest_own s) eqn:D.
          -- apply handle_writer_same; auto.
          -- unfold handle_writer. rewrite D. reflexivity.
        * destruct (s_dest_own s && mem (w_reader w) (c_sub_np cfg)).
          -- apply handle_writer_same; auto.
          -- simpl. symmetry. apply (filter_nil_targets _ (w_reader w)); auto.
             intros v Hv. eapply (handle_writer_targets (nosec cfg)); eauto.
    - rewrite P. simpl. repeat split; auto. unfold sub_np.
      destruct (Z.eq_dec (r_writer r) e) as [E|Hne].
      + rewrite E, Hsub, andb_true_r. destruct (s_dest_own s) eqn:D; auto.
        unfold handle_reader. rewrite D. reflexivity.
      + destruct (s_dest_own s && mem (r_writer r) (c_sub_np cfg)); auto.
        simpl. symmetry. apply (filter_nil_targets _ (r_writer r)); auto.
        intros v. unfold handle_reader. destruct (negb (s_dest_own s)); [intros []|].
        destruct (s_special s && negb (exempt_writer (r_writer r))); [intros []|].
        intros [<-|[]]. simpl. apply Z.eqb_refl.
  Qed.

  Lemma handle_subs_same : forall l s,
    s_special s = false -> s_sec s = SecNone -> forallb plain_sub l = true ->
    filter (targets e) (snd (handle_subs cfg s l))
    = filter (targets e) (snd (handle_subs (nosec cfg) s l)).
  Proof.
    induction l as [|x l IH]; intros s Hs Hsec Hp; simpl; auto.
    simpl in Hp. apply andb_true_iff in Hp as [Hx Hl].
    destruct (handle_sub_same s x Hs Hsec Hx) as (A & B & C & D).
    destruct (handle_sub cfg s x) as [s1 e1]. destruct (handle_sub (nosec cfg) s x) as [s1' e1'].
    simpl in A, B, C, D. subst s1'.
    specialize (IH s1 C B Hl).
    destruct (handle_subs cfg s1 l) as [s2 e2]. destruct (handle_subs (nosec cfg) s1 l) as [s2' e2'].
    simpl in *. rewrite !filter_app, D, IH. reflexivity.
  Qed.

  Theorem liveness_unprotected : forall m,
    c_rtps_np cfg = true -> forallb plain_sub (m_subs m) = true ->
    filter (targets e) (handle_message cfg m) = filter (targets e) (handle_message (nosec cfg) m).
  Proof.
    intros m Hr Hp. unfold handle_message. rewrite P. simpl.
    destruct (m_subs m) as [|x l] eqn:L; [reflexivity|].
    assert (is_rtps_prefix x = false).
    { simpl in Hp. apply andb_true_iff in Hp as [Hx _]. destruct x; simpl in *; auto; discriminate. }
    rewrite H, Hr. apply (handle_subs_same (x :: l) (init false false)); auto.
  Qed.
End Live.

(* ------------------------------------------------------------------------------------------ *)
(* model_ok *)

Lemma mem_true_iff x l : mem x l = true <-> In x l.
Proof.
  unfold mem. rewrite existsb_exists. split.
  - intros (y & Hy & E). apply Z.eqb_eq in E. subst; auto.
  - intro H. exists x. split; auto. apply Z.eqb_refl.
Qed.

Lemma in_insert_sorted d x l : In x (insert_sorted d l) <-> x = d \/ In x l.
Proof.
  induction l as [|y l IH]; simpl.
  - split; [intros [<-|[]]; auto | intros [->|[]]; auto].
  - destruct d as [[a1 b1] c1]. destruct y as [[a2 b2] c2].
    destruct ((a1 <? a2) || ((a1 =? a2) && ((b1 <? b2) || ((b1 =? b2) && (c1 <=? c2))))); simpl.
    + split; [intros [<-|[<-|H]]; auto | intros [->|[<-|H]]; auto].
    + rewrite IH. split; [intros [<-|[->|H]]; auto | intros [->|[<-|H]]; auto].
Qed.

Lemma in_sort x l : In x (sort_deliveries l) <-> In x l.
Proof.
  unfold sort_deliveries. induction l as [|y l IH]; simpl; [tauto|].
  rewrite in_insert_sorted, IH. split; intros [H|H]; auto.
Qed.

Lemma delivery_eqb_refl d : delivery_eqb d d = true.
Proof. destruct d as [[a b] c]. simpl. rewrite !Z.eqb_refl. reflexivity. Qed.

Lemma ev_good_delivery_ok cfg special rtps sents e :
  c_plugins cfg = true ->
  ev_good cfg special rtps sents e ->
  (rtps = false -> special = negb (c_rtps_np cfg)) -> (rtps = true -> special = false) ->
  delivery_ok cfg sents (ev_delivery e) = true.
Proof.
  intros P G S1 S2. destruct e as [t w sw rw dp | r sw rw]; simpl in G |- *.
  - destruct G as (-> & Hin & A & B & C). apply existsb_exists.
    exists (sent_of_w w sw rtps). split; auto. simpl. rewrite Z.eqb_refl. simpl.
    unfold sent_allows. simpl. apply andb_true_iff. split; [apply andb_true_iff; split|].
    + destruct sw; simpl; auto.
    + destruct rtps; simpl; auto. specialize (S1 eq_refl). destruct (c_rtps_np cfg); simpl; auto.
    + unfold payload_tag_ok. fold (payload_of w). destruct dp as [|p|]; simpl in C |- *.
      * rewrite C. reflexivity.
      * destruct C as (-> & Hne & Hm). specialize (Hm P). destruct p as [| |ok]; simpl.
        -- congruence.
        -- exact Hm.
        -- rewrite Hm. reflexivity.
      * rewrite C. reflexivity.
  - destruct G as (-> & Hin & A & B). apply existsb_exists.
    exists (sent_of_r r sw rtps). split; auto. simpl. rewrite Z.eqb_refl. simpl.
    unfold sent_allows. simpl. rewrite andb_true_r. apply andb_true_iff. split.
    + destruct sw; simpl; auto.
    + destruct rtps; simpl; auto. specialize (S1 eq_refl). destruct (c_rtps_np cfg); simpl; auto.
Qed.

Definition obs_of (cfg : config) (evs : list ev) : list delivery :=
  sort_deliveries (map ev_delivery (filter (observable cfg) evs)).

Lemma safety_part cfg sents m :
  c_plugins cfg = true -> (forall t, In t (sent_of_message m) -> In t sents) ->
  forallb (delivery_ok cfg sents) (obs_of cfg (handle_message cfg m)) = true.
Proof.
  intros P Hs. apply forallb_forall. intros d Hd. unfold obs_of in Hd.
  apply (proj1 (in_sort _ _)) in Hd. apply in_map_iff in Hd as (e & <- & He).
  apply filter_In in He as [He _].
  apply handle_message_good in He as (special & rtps & G & S1 & S2).
  apply (ev_good_delivery_ok cfg special rtps sents e P).
  - eapply ev_good_mono; eauto.
  - auto.
  - auto.
Qed.

(* liveness part: simple submessages do not change the receiver state *)
Lemma simple_sub_state cfg s x :
  s_sec s = SecNone -> simple_sub x = true -> fst (handle_sub cfg s x) = s.
Proof.
  intros Hsec Hx. unfold handle_sub. rewrite Hsec.
  destruct x as [[|]|w|r| | | | |]; simpl in Hx; try discriminate; simpl; auto.
  - rewrite (negb_true_iff _) in Hx. rewrite Hx. destruct (c_plugins cfg); reflexivity.
  - destruct (c_plugins cfg); reflexivity.
Qed.

Lemma simple_subs_events cfg : forall l s,
  s_sec s = SecNone -> forallb simple_sub l = true ->
  forall x e, In x l -> In e (snd (handle_sub cfg s x)) -> In e (snd (handle_subs cfg s l)).
Proof.
  induction l as [|y l IH]; intros s Hsec Hl x e Hx He; [destruct Hx|].
  simpl in Hl. apply andb_true_iff in Hl as [Hy Hl]. simpl.
  pose proof (simple_sub_state cfg s y Hsec Hy) as Hst.
  destruct (handle_sub cfg s y) as [s1 e1] eqn:E1. simpl in Hst. subst s1.
  destruct (handle_subs cfg s l) as [s2 e2] eqn:E2. simpl.
  apply in_or_app. destruct Hx as [->|Hx].
  - left. rewrite E1 in He. exact He.
  - right. specialize (IH s Hsec Hl x e Hx He). rewrite E2 in IH. exact IH.
Qed.

Lemma must_deliver_event cfg x d :
  c_plugins cfg = true -> simple_sub x = true -> In d (must_deliver cfg x) ->
  exists e, In e (snd (handle_sub cfg (init (negb (c_rtps_np cfg)) false) x))
            /\ observable cfg e = true /\ ev_delivery e = d.
Proof.
  intros P Hx Hd. set (s0 := init (negb (c_rtps_np cfg)) false).
  destruct x as [i|w|r| | | | |]; simpl in Hd; try destruct Hd.
  - (* writer submessage with explicit receiver *)
    simpl in Hx. apply negb_true_iff in Hx.
    destruct (mem (w_reader w) (c_sub_np cfg)) eqn:M1; [|destruct Hd].
    destruct (c_rtps_np cfg || exempt_reader (w_reader w)) eqn:M2; [|destruct Hd].
    destruct (find (fun rd => fst rd =? w_reader w) (c_readers cfg)) as [rd|] eqn:F; [|destruct Hd].
    destruct (mem (w_writer w) (snd rd)) eqn:M3; [|destruct Hd]. simpl in Hd.
    assert (Hhas : has_reader cfg (w_reader w) = true).
    { unfold has_reader. apply existsb_exists. apply find_some in F. exists rd. exact F. }
    assert (Hsp : s_special s0 && negb (exempt_reader (w_reader w)) = false).
    { simpl. destruct (c_rtps_np cfg); simpl in *; auto. rewrite M2. reflexivity. }
    unfold handle_sub. simpl. rewrite Hx, P. unfold sub_np. simpl. rewrite M1.
    unfold handle_writer. simpl s_dest_own. cbn [negb]. rewrite Hsp, Hhas. simpl negb. cbv iota.
    unfold data_payload. rewrite P.
    destruct (w_kind w) as [[| |ok]|] eqn:K.
    + destruct Hd as [<-|[]]. eexists. split; [left; reflexivity|]. simpl. rewrite F, M3. auto.
    + destruct (mem (w_reader w) (c_pay_np cfg)) eqn:M4; [|destruct Hd].
      destruct Hd as [<-|[]]. eexists. split; [left; reflexivity|]. simpl. rewrite F, M3. auto.
    + destruct (mem (w_reader w) (c_pay_np cfg)) eqn:M4; [|destruct Hd].
      destruct Hd as [<-|[]]. eexists. split; [left; reflexivity|]. simpl. rewrite F, M3. auto.
    + destruct Hd as [<-|[]]. eexists. split; [left; reflexivity|]. simpl. rewrite F, M3. auto.
  - (* reader submessage *)
    destruct (mem (r_writer r) (c_sub_np cfg)) eqn:M1; [|destruct Hd].
    destruct (c_rtps_np cfg || exempt_writer (r_writer r)) eqn:M2; [|destruct Hd].
    destruct Hd as [<-|[]].
    assert (Hsp : s_special s0 && negb (exempt_writer (r_writer r)) = false).
    { simpl. destruct (c_rtps_np cfg); simpl in *; auto. rewrite M2. reflexivity. }
    unfold handle_sub. simpl. rewrite P. unfold sub_np. simpl. rewrite M1.
    unfold handle_reader. simpl s_dest_own. cbn [negb]. rewrite Hsp.
    eexists. split; [left; reflexivity|]. auto.
Qed.

Lemma liveness_part cfg m :
  c_plugins cfg = true -> liveness_ok cfg m (obs_of cfg (handle_message cfg m)) = true.
Proof.
  intros P. unfold liveness_ok. destruct (forallb simple_sub (m_subs m)) eqn:S; auto.
  apply forallb_forall. intros d Hd. apply in_flat_map in Hd as (x & Hx & Hd).
  assert (Hsx : simple_sub x = true) by (eapply forallb_forall in S; eauto).
  destruct (must_deliver_event cfg x d P Hsx Hd) as (e & He & Hobs & Hdel).
  apply existsb_exists. exists d. split; [|apply delivery_eqb_refl].
  unfold obs_of. apply (proj2 (in_sort _ _)). apply in_map_iff. exists e. split; auto.
  apply filter_In. split; auto.
  unfold handle_message. rewrite P.
  destruct (m_subs m) as [|y l] eqn:L; [destruct Hx|].
  assert (is_rtps_prefix y = false).
  { simpl in S. apply andb_true_iff in S as [Hy _]. destruct y; simpl in *; auto; discriminate. }
  rewrite H. eapply simple_subs_events; eauto.
Qed.

Lemma ok_msgs_run cfg sents : c_plugins cfg = true -> forall ms,
  (forall m t, In m ms -> In t (sent_of_message m) -> In t sents) ->
  ok_msgs cfg sents ms (map (obs_of cfg) (run_messages cfg ms)) = true.
Proof.
  intros P. induction ms as [|m ms IH]; intros H; simpl; auto.
  rewrite P. fold (obs_of cfg (handle_message cfg m)).
  rewrite safety_part, liveness_part, IH; auto.
  - intros m' t Hm Ht. eapply H; eauto. right; auto.
  - intros t Ht. eapply H; eauto. left; auto.
Qed.

Lemma run_is_map c : run c = map (obs_of (k_cfg c)) (run_messages (k_cfg c) (k_msgs c)).
Proof. reflexivity. Qed.

Theorem run_ok : forall c, ok c (run c) = true.
Proof.
  intros c. unfold ok. rewrite run_is_map. destruct (c_plugins (k_cfg c)) eqn:P.
  - apply ok_msgs_run; auto. intros m t Hm Ht. apply in_flat_map. exists m. auto.
  - unfold run_messages. rewrite !map_length. apply Nat.eqb_refl.
Qed.

(* ------------------------------------------------------------------------------------------ *)
(* oracle soundness: an observation that passes [ok] contains only deliveries that some sent
   submessage with that id entitles the endpoint to *)
Theorem oracle_sound : forall c o,
  c_plugins (k_cfg c) = true -> ok c o = true ->
  forall ds d, In ds o -> In d ds ->
    let '(target, id, tag) := d in
    exists t, In t (flat_map sent_of_message (k_msgs c)) /\ t_id t = id
      /\ (t_sub_wrapped t = false -> mem target (c_sub_np (k_cfg c)) = true)
      /\ (t_rtps_wrapped t = false ->
            c_rtps_np (k_cfg c) = true
            \/ (if t_is_writer_sub t then exempt_reader target else exempt_writer target) = true)
      /\ (t_payload t = PPlain -> tag = 1 /\ mem target (c_pay_np (k_cfg c)) = true).
Proof.
  intros c o P H ds d Hds Hd. unfold ok in H. rewrite P in H.
  set (sents := flat_map sent_of_message (k_msgs c)) in *.
  assert (G : forall ms o, ok_msgs (k_cfg c) sents ms o = true ->
               forall ds, In ds o -> forallb (delivery_ok (k_cfg c) sents) ds = true).
  { induction ms as [|m ms IH]; intros [|ds' o'] Hok ds0 Hin; simpl in Hok; try discriminate;
      try destruct Hin.
    - apply andb_true_iff in Hok as [Hok Hr]. apply andb_true_iff in Hok as [Hok _].
      subst; auto.
    - apply andb_true_iff in Hok as [Hok Hr]. eapply IH; eauto. }
  specialize (G _ _ H ds Hds). eapply forallb_forall in G; eauto.
  destruct d as [[target id] tag]. simpl in G. apply existsb_exists in G as (t & Ht & Hc).
  apply andb_true_iff in Hc as [Hid Hc]. apply Z.eqb_eq in Hid.
  unfold sent_allows in Hc. apply andb_true_iff in Hc as [Hc Hp]. apply andb_true_iff in Hc as [H1 H2].
  exists t. repeat split; auto.
  - intros E. rewrite E in H1. simpl in H1. exact H1.
  - intros E. rewrite E in H2. simpl in H2. apply orb_true_iff in H2. exact H2.
  - rewrite H0 in Hp. simpl in Hp. apply andb_true_iff in Hp as [Hp _]. apply Z.eqb_eq in Hp. exact Hp.
  - rewrite H0 in Hp. simpl in Hp. apply andb_true_iff in Hp as [_ Hp]. exact Hp.
Qed.

(* ------------------------------------------------------------------------------------------ *)
(* non-vacuity *)
Definition ex_cfg : config :=
  {| c_plugins := true; c_rtps_np := false; c_sub_np := [260; SPDP_R]; c_pay_np := [260; SPDP_R];
     c_registered := [260; 516; SPDP_R];
     c_readers := [(260, [4355]); (516, [4355]); (SPDP_R, [])] |}.

Example ex_rtps_protection_blocks_plain_but_not_spdp :
  handle_message ex_cfg {| m_rtps := RFail; m_subs :=
     [SWriter {| w_id := 1; w_kind := KData PPlain; w_reader := 260; w_writer := 4355 |};
      SWriter {| w_id := 2; w_kind := KData PPlain; w_reader := SPDP_R; w_writer := SPDP_W |}] |}
  = [EvW SPDP_R {| w_id := 2; w_kind := KData PPlain; w_reader := SPDP_R; w_writer := SPDP_W |}
         false false (DPRaw PPlain)].
Proof. reflexivity. Qed.

Example ex_wrapped_delivers_to_protected :
  handle_message ex_cfg {| m_rtps := ROk
     [SPrefix (OSuccess (DWriter {| w_id := 3; w_kind := KData (PEnc true); w_reader := 516; w_writer := 4355 |} [516]));
      SBody; SPostfix;
      SWriter {| w_id := 4; w_kind := KData PPlain; w_reader := 516; w_writer := 4355 |}];
     m_subs := [SRtpsPrefix; SBody; SRtpsPostfix] |}
  = [EvW 516 {| w_id := 3; w_kind := KData (PEnc true); w_reader := 516; w_writer := 4355 |}
         true true DPDecoded].
Proof. reflexivity. Qed.
