From Coq Require Import List ZArith Bool Lia.
From RD Require Import C10.Model.
Import ListNotations.
Open Scope Z_scope.

Lemma rxo_pb_spec p off req : rxo_pb p off req = true <-> RxO_p p off req.
Proof.
  destruct p; unfold rxo_pb, RxO_p, both, when_both; cbn.
  all: repeat match goal with
       | |- context [match ?x with Some _ => _ | None => _ end] => destruct x
       end; cbn; try tauto.
  all: rewrite negb_true_iff, negb_false_iff.
  all: rewrite ?andb_true_iff, ?Z.leb_le.
  all: try tauto.
  - destruct (p_coherent p0), (p_coherent p), (p_ordered p0), (p_ordered p); cbn;
      intuition congruence.
Qed.

Lemma rxo_b_spec off req : rxo_b off req = true <-> RxO off req.
Proof.
  unfold rxo_b, RxO. rewrite forallb_forall. split.
  - intros H p. destruct p; try (apply rxo_pb_spec, H; cbn; tauto). exact I.
  - intros H p _. apply rxo_pb_spec, H.
Qed.

(* each "bad" test of the code is the negation of the corresponding rule *)
Lemma bad_iff p off req :
  (match p with
   | PDurability => both (q_durability off) (q_durability req) bad_durability
   | PPresentation => both (q_presentation off) (q_presentation req) bad_presentation
   | PDeadline => both (q_deadline off) (q_deadline req) bad_deadline
   | PLatencyBudget => both (q_latency off) (q_latency req) bad_latency
   | POwnership => both (q_ownership off) (q_ownership req) bad_ownership
   | PLiveliness => both (q_liveliness off) (q_liveliness req) bad_liveliness
   | PReliability => both (q_reliability off) (q_reliability req) bad_reliability
   | PDestinationOrder => both (q_dest_order off) (q_dest_order req) bad_dest_order
   | POther => false
   end) = negb (rxo_pb p off req).
Proof.
  destruct p; unfold rxo_pb, both; cbn; try rewrite negb_involutive; try reflexivity.
  all: repeat match goal with
       | |- context [match ?x with Some _ => _ | None => _ end] => destruct x
       end; cbn; try reflexivity.
  - unfold bad_durability. destruct (Z.ltb_spec (dur_rank d) (dur_rank d0)), (Z.leb_spec (dur_rank d0) (dur_rank d)); cbn; try reflexivity; lia.
  - unfold bad_presentation.
    destruct (Z.ltb_spec (scope_rank (p_scope p)) (scope_rank (p_scope p0))),
             (Z.leb_spec (scope_rank (p_scope p0)) (scope_rank (p_scope p))); try lia;
    destruct (p_coherent p0), (p_coherent p), (p_ordered p0), (p_ordered p); reflexivity.
  - unfold bad_deadline. destruct (Z.ltb_spec z0 z), (Z.leb_spec z z0); cbn; try reflexivity; lia.
  - unfold bad_latency. destruct (Z.ltb_spec z0 z), (Z.leb_spec z z0); cbn; try reflexivity; lia.
  - unfold bad_liveliness.
    destruct (Z.ltb_spec (lk_rank (l_kind l)) (lk_rank (l_kind l0))),
             (Z.leb_spec (lk_rank (l_kind l0)) (lk_rank (l_kind l))),
             (Z.ltb_spec (l_lease l0) (l_lease l)),
             (Z.leb_spec (l_lease l) (l_lease l0)); cbn; try reflexivity; lia.
  - unfold bad_reliability. destruct (Z.ltb_spec (rel_rank r) (rel_rank r0)), (Z.leb_spec (rel_rank r0) (rel_rank r)); cbn; try reflexivity; lia.
  - unfold bad_dest_order. destruct (Z.ltb_spec (do_rank d) (do_rank d0)), (Z.leb_spec (do_rank d0) (do_rank d)); cbn; try reflexivity; lia.
Qed.

Lemma compliance_unfold off req :
  compliance off req =
  if negb (rxo_pb PDurability off req) then Some PDurability else
  if negb (rxo_pb PPresentation off req) then Some PPresentation else
  if negb (rxo_pb PDeadline off req) then Some PDeadline else
  if negb (rxo_pb PLatencyBudget off req) then Some PLatencyBudget else
  if negb (rxo_pb POwnership off req) then Some POwnership else
  if negb (rxo_pb PLiveliness off req) then Some PLiveliness else
  if negb (rxo_pb PReliability off req) then Some PReliability else
  if negb (rxo_pb PDestinationOrder off req) then Some PDestinationOrder else None.
Proof.
  unfold compliance.
  rewrite <- (bad_iff PDurability), <- (bad_iff PPresentation), <- (bad_iff PDeadline),
          <- (bad_iff PLatencyBudget), <- (bad_iff POwnership), <- (bad_iff PLiveliness),
          <- (bad_iff PReliability), <- (bad_iff PDestinationOrder).
  reflexivity.
Qed.

Lemma compliance_none_iff off req : compliance off req = None <-> RxO off req.
Proof.
  rewrite <- rxo_b_spec, compliance_unfold. unfold rxo_b, all_policies; cbn [forallb].
  destruct (rxo_pb PDurability off req), (rxo_pb PPresentation off req),
           (rxo_pb PDeadline off req), (rxo_pb PLatencyBudget off req),
           (rxo_pb POwnership off req), (rxo_pb PLiveliness off req),
           (rxo_pb PReliability off req), (rxo_pb PDestinationOrder off req);
    cbn; split; intro H; try reflexivity; try discriminate.
Qed.

Lemma compliance_cause off req p : compliance off req = Some p -> ~ RxO_p p off req.
Proof.
  rewrite <- rxo_pb_spec, compliance_unfold.
  destruct (rxo_pb PDurability off req) eqn:E1; cbn [negb]; [|intro H; inversion H; subst; intro K; congruence].
  destruct (rxo_pb PPresentation off req) eqn:E2; cbn [negb]; [|intro H; inversion H; subst; intro K; congruence].
  destruct (rxo_pb PDeadline off req) eqn:E3; cbn [negb]; [|intro H; inversion H; subst; intro K; congruence].
  destruct (rxo_pb PLatencyBudget off req) eqn:E4; cbn [negb]; [|intro H; inversion H; subst; intro K; congruence].
  destruct (rxo_pb POwnership off req) eqn:E5; cbn [negb]; [|intro H; inversion H; subst; intro K; congruence].
  destruct (rxo_pb PLiveliness off req) eqn:E6; cbn [negb]; [|intro H; inversion H; subst; intro K; congruence].
  destruct (rxo_pb PReliability off req) eqn:E7; cbn [negb]; [|intro H; inversion H; subst; intro K; congruence].
  destruct (rxo_pb PDestinationOrder off req) eqn:E8; cbn [negb]; [|intro H; inversion H; subst; intro K; congruence].
  discriminate.
Qed.

(* The oracle accepts exactly the verdicts the property allows, and the model always passes it. *)
Definition verdict_P (c : case) (v : option policy_id) : Prop :=
  match v with
  | None => RxO (fst c) (snd c)
  | Some POther => False
  | Some p => ~ RxO_p p (fst c) (snd c)
  end.

Lemma verdict_ok_spec c v : verdict_ok c v = true <-> verdict_P c v.
Proof.
  destruct v as [p|]; [|apply rxo_b_spec].
  assert (G : forall q, negb (rxo_pb q (fst c) (snd c)) = true <-> ~ RxO_p q (fst c) (snd c)).
  { intros q. rewrite negb_true_iff, <- rxo_pb_spec.
    destruct (rxo_pb q (fst c) (snd c)); intuition congruence. }
  destruct p; unfold verdict_ok, verdict_P; try apply G.
  split; [discriminate|tauto].
Qed.

Definition side_P (c : case) (s : side) : Prop :=
  match s with
  | SNotRun => True
  | SSilent => False
  | SMatched => verdict_P c None
  | SIncompatible p => verdict_P c (Some p)
  end.

Lemma side_ok_spec c s : side_ok c s = true <-> side_P c s.
Proof.
  destruct s; cbn [side_ok side_P]; try apply verdict_ok_spec.
  - tauto.
  - split; [discriminate|tauto].
Qed.

Lemma ok_spec c o :
  ok c o = true <->
  verdict_P c (o_verdict o) /\ side_P c (o_writer_side o) /\ side_P c (o_reader_side o)
  /\ sides_agree (o_writer_side o) (o_reader_side o) = true.
Proof.
  unfold ok. rewrite !andb_true_iff, verdict_ok_spec, !side_ok_spec. tauto.
Qed.

Lemma compliance_not_other off req : compliance off req <> Some POther.
Proof.
  rewrite compliance_unfold.
  repeat match goal with |- context [if ?b then _ else _] => destruct b end; discriminate.
Qed.

Lemma run_verdict_ok c : verdict_ok c (compliance (fst c) (snd c)) = true.
Proof.
  apply verdict_ok_spec. destruct (compliance (fst c) (snd c)) as [p|] eqn:E; cbn.
  - pose proof (compliance_cause _ _ _ E) as H.
    destruct p; try exact H. exfalso. eapply compliance_not_other, E.
  - apply compliance_none_iff, E.
Qed.

Lemma run_ok c : ok c (run c) = true.
Proof.
  unfold ok, run; cbn [o_verdict o_writer_side o_reader_side].
  pose proof (run_verdict_ok c) as H.
  destruct (compliance (fst c) (snd c)) as [p|]; cbn [side_of side_ok sides_agree is_matched];
    rewrite H; reflexivity.
Qed.

(* both call sites evaluate the same function of the same (offered, requested) pair: in the model
   the two sides are literally the same term *)
Lemma sides_same c : o_writer_side (run c) = o_reader_side (run c).
Proof. reflexivity. Qed.

(* A verdict "matched" where the rules say otherwise is impossible, and vice versa (both
   directions spelled out because the property says "if and only if"). *)
Lemma matched_iff off req : (compliance off req = None) <-> RxO off req.
Proof. apply compliance_none_iff. Qed.

(* Policies that are not request/offered (history, resource limits, lifespan, time-based filter,
   ownership *strength*, max_blocking_time) cannot influence the verdict: they are not inputs of
   the model at all, except the two below, for which we prove it. *)
Lemma strength_irrelevant off req s s' :
  q_ownership off = Some (Exclusive s) ->
  compliance off req =
  compliance {| q_durability := q_durability off; q_presentation := q_presentation off;
                q_deadline := q_deadline off; q_latency := q_latency off;
                q_ownership := Some (Exclusive s'); q_liveliness := q_liveliness off;
                q_reliability := q_reliability off; q_dest_order := q_dest_order off |} req.
Proof.
  intros H. unfold compliance; cbn. rewrite H. destruct (q_ownership req) as [[|x]|]; reflexivity.
Qed.

(* ---- refutation of the full statement for the code as pinned (6e6425d): findings F3a, F3b ---- *)
Definition qnone : qos := Build_qos None None None None None None None None.
Definition with_liveliness l := Build_qos None None None None None (Some l) None None.
Definition with_ownership o := Build_qos None None None None (Some o) None None None.

(* 1 s = 2^32 ticks, 10 s *)
Lemma old_liveliness_refuted :
  exists off req, compliance_old off req = None /\ ~ RxO off req.
Proof.
  exists (with_liveliness {| l_kind := Automatic; l_lease := 4294967296 |}),
         (with_liveliness {| l_kind := ManualByTopic; l_lease := 42949672960 |}).
  split; [reflexivity|]. intro H. specialize (H PLiveliness). cbn in H. lia.
Qed.

Lemma old_ownership_refuted :
  exists off req p, compliance_old off req = Some p /\ RxO_p p off req.
Proof.
  exists (with_ownership (Exclusive 5)), (with_ownership (Exclusive 0)), POwnership.
  split; reflexivity.
Qed.

(* non-vacuity: both verdicts occur, with several policies present *)
Example rxo_holds_somewhere :
  RxO (Build_qos (Some Transient) (Some (Build_presentation ScGroup true true)) (Some 5) (Some 0)
         (Some (Exclusive 3)) (Some (Build_liveliness ManualByTopic 7)) (Some (Reliable 9)) (Some BySource))
      (Build_qos (Some Volatile) (Some (Build_presentation ScTopic true false)) (Some 5) (Some 1)
         (Some (Exclusive 8)) (Some (Build_liveliness Automatic 7)) (Some BestEffort) None).
Proof. apply rxo_b_spec. vm_compute. reflexivity. Qed.

Example rxo_fails_somewhere :
  compliance (with_liveliness (Build_liveliness ManualByTopic 8))
             (with_liveliness (Build_liveliness Automatic 7)) = Some PLiveliness.
Proof. reflexivity. Qed.
