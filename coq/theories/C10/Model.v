(* C10 — model of QosPolicies::compliance_failure_wrt_impl (src/dds/qos.rs) and of the ordering
   relations it relies on (derived Ord of Durability, PresentationAccessScope, DestinationOrder,
   Duration; hand-written Ord of Reliability; kind/lease test of Liveliness; kind test of Ownership).

   Duration {seconds:i32, fraction:u32} with the derived lexicographic order is modelled by its tick
   count  seconds*2^32 + fraction : Z  (Duration::to_ticks); the two orders coincide because
   0 <= fraction < 2^32.  INFINITE is the largest representable value, so "<=" needs no special case. *)
From Coq Require Import List ZArith Bool.
Import ListNotations.
Open Scope Z_scope.

Inductive durability := Volatile | TransientLocal | Transient | Persistent.
Inductive access_scope := ScInstance | ScTopic | ScGroup.
Record presentation := { p_scope : access_scope; p_coherent : bool; p_ordered : bool }.
Inductive ownership := Shared | Exclusive (strength : Z).
Inductive liveliness_kind := Automatic | ManualByParticipant | ManualByTopic.
Record liveliness := { l_kind : liveliness_kind; l_lease : Z }.
Inductive reliability := BestEffort | Reliable (max_blocking : Z).
Inductive dest_order := ByReception | BySource.

Record qos := {
  q_durability : option durability;
  q_presentation : option presentation;
  q_deadline : option Z;
  q_latency : option Z;
  q_ownership : option ownership;
  q_liveliness : option liveliness;
  q_reliability : option reliability;
  q_dest_order : option dest_order }.

Inductive policy_id :=
  PDurability | PPresentation | PDeadline | PLatencyBudget | POwnership | PLiveliness
| PReliability | PDestinationOrder
| POther.   (* any QosPolicyId that has no request/offered rule; never a legitimate cause *)

(* derived Ord = declaration order *)
Definition dur_rank (d : durability) : Z :=
  match d with Volatile => 0 | TransientLocal => 1 | Transient => 2 | Persistent => 3 end.
Definition scope_rank (s : access_scope) : Z :=
  match s with ScInstance => 0 | ScTopic => 1 | ScGroup => 2 end.
Definition lk_rank (k : liveliness_kind) : Z :=
  match k with Automatic => 0 | ManualByParticipant => 1 | ManualByTopic => 2 end.
Definition rel_rank (r : reliability) : Z :=
  match r with BestEffort => 0 | Reliable _ => 1 end.
Definition do_rank (d : dest_order) : Z :=
  match d with ByReception => 0 | BySource => 1 end.
Definition own_kind_eqb (a b : ownership) : bool :=
  match a, b with
  | Shared, Shared => true
  | Exclusive _, Exclusive _ => true
  | _, _ => false
  end.

(* the "if let (Some(off), Some(req)) = ... { if <bad> { return Some(id) } }" pattern *)
Definition both {A} (o r : option A) (bad : A -> A -> bool) : bool :=
  match o, r with
  | Some a, Some b => bad a b
  | _, _ => false
  end.

Definition bad_durability (o r : durability) := dur_rank o <? dur_rank r.
Definition bad_presentation (o r : presentation) :=
  (p_coherent r && negb (p_coherent o))
  || (p_ordered r && negb (p_ordered o))
  || (scope_rank (p_scope o) <? scope_rank (p_scope r)).
Definition bad_deadline (o r : Z) := r <? o.
Definition bad_latency (o r : Z) := r <? o.
Definition bad_ownership (o r : ownership) := negb (own_kind_eqb o r).
Definition bad_liveliness (o r : liveliness) :=
  (lk_rank (l_kind o) <? lk_rank (l_kind r)) || (l_lease r <? l_lease o).
Definition bad_reliability (o r : reliability) := rel_rank o <? rel_rank r.
Definition bad_dest_order (o r : dest_order) := do_rank o <? do_rank r.

(* compliance_failure_wrt_impl, statement by statement; self = offered, other = requested *)
Definition compliance (off req : qos) : option policy_id :=
  if both (q_durability off) (q_durability req) bad_durability then Some PDurability else
  if both (q_presentation off) (q_presentation req) bad_presentation then Some PPresentation else
  if both (q_deadline off) (q_deadline req) bad_deadline then Some PDeadline else
  if both (q_latency off) (q_latency req) bad_latency then Some PLatencyBudget else
  if both (q_ownership off) (q_ownership req) bad_ownership then Some POwnership else
  if both (q_liveliness off) (q_liveliness req) bad_liveliness then Some PLiveliness else
  if both (q_reliability off) (q_reliability req) bad_reliability then Some PReliability else
  if both (q_dest_order off) (q_dest_order req) bad_dest_order then Some PDestinationOrder else
  None.

(* The pre-repair code (pinned commit 6e6425d), kept for the refutation lemmas:
   Liveliness::cmp compared other.kind_num() with itself (always Equal) and then the *reversed*
   lease order, and the failure test was `off < req`;  Ownership was compared with derived
   PartialEq, i.e. including the strength. *)
Definition bad_liveliness_old (o r : liveliness) := l_lease r <? l_lease o.
Definition ownership_eqb (a b : ownership) : bool :=
  match a, b with
  | Shared, Shared => true
  | Exclusive x, Exclusive y => x =? y
  | _, _ => false
  end.
Definition bad_ownership_old (o r : ownership) := negb (ownership_eqb o r).
Definition compliance_old (off req : qos) : option policy_id :=
  if both (q_durability off) (q_durability req) bad_durability then Some PDurability else
  if both (q_presentation off) (q_presentation req) bad_presentation then Some PPresentation else
  if both (q_deadline off) (q_deadline req) bad_deadline then Some PDeadline else
  if both (q_latency off) (q_latency req) bad_latency then Some PLatencyBudget else
  if both (q_ownership off) (q_ownership req) bad_ownership_old then Some POwnership else
  if both (q_liveliness off) (q_liveliness req) bad_liveliness_old then Some PLiveliness else
  if both (q_reliability off) (q_reliability req) bad_reliability then Some PReliability else
  if both (q_dest_order off) (q_dest_order req) bad_dest_order then Some PDestinationOrder else
  None.

(* ------------------------------------------------------------------------------------------ *)
(* Specification: the DDS 1.4 request/offered rules exactly as the property text lists them.   *)

Definition when_both {A} (o r : option A) (P : A -> A -> Prop) : Prop :=
  match o, r with
  | Some a, Some b => P a b
  | _, _ => True
  end.

Definition RxO_p (p : policy_id) (off req : qos) : Prop :=
  match p with
  | PDurability => when_both (q_durability off) (q_durability req)
                     (fun o r => dur_rank r <= dur_rank o)
  | PPresentation => when_both (q_presentation off) (q_presentation req)
                     (fun o r => scope_rank (p_scope r) <= scope_rank (p_scope o)
                                 /\ (p_coherent r = true -> p_coherent o = true)
                                 /\ (p_ordered r = true -> p_ordered o = true))
  | PDeadline => when_both (q_deadline off) (q_deadline req) (fun o r => o <= r)
  | PLatencyBudget => when_both (q_latency off) (q_latency req) (fun o r => o <= r)
  | POwnership => when_both (q_ownership off) (q_ownership req)
                     (fun o r => own_kind_eqb o r = true)
  | PLiveliness => when_both (q_liveliness off) (q_liveliness req)
                     (fun o r => lk_rank (l_kind r) <= lk_rank (l_kind o)
                                 /\ l_lease o <= l_lease r)
  | PReliability => when_both (q_reliability off) (q_reliability req)
                     (fun o r => rel_rank r <= rel_rank o)
  | PDestinationOrder => when_both (q_dest_order off) (q_dest_order req)
                     (fun o r => do_rank r <= do_rank o)
  | POther => True
  end.

Definition all_policies : list policy_id :=
  [PDurability; PPresentation; PDeadline; PLatencyBudget; POwnership; PLiveliness;
   PReliability; PDestinationOrder].

Definition RxO (off req : qos) : Prop := forall p, RxO_p p off req.

(* Boolean oracle over observables only (offered, requested, verdict): used on the
   implementation's own answers.  It is written independently of [compliance]. *)
Definition rxo_pb (p : policy_id) (off req : qos) : bool :=
  match p with
  | PDurability => negb (both (q_durability off) (q_durability req)
                     (fun o r => negb (dur_rank r <=? dur_rank o)))
  | PPresentation => negb (both (q_presentation off) (q_presentation req)
                     (fun o r => negb ((scope_rank (p_scope r) <=? scope_rank (p_scope o))
                                 && implb (p_coherent r) (p_coherent o)
                                 && implb (p_ordered r) (p_ordered o))))
  | PDeadline => negb (both (q_deadline off) (q_deadline req) (fun o r => negb (o <=? r)))
  | PLatencyBudget => negb (both (q_latency off) (q_latency req) (fun o r => negb (o <=? r)))
  | POwnership => negb (both (q_ownership off) (q_ownership req)
                     (fun o r => negb (own_kind_eqb o r)))
  | PLiveliness => negb (both (q_liveliness off) (q_liveliness req)
                     (fun o r => negb ((lk_rank (l_kind r) <=? lk_rank (l_kind o))
                                       && (l_lease o <=? l_lease r))))
  | PReliability => negb (both (q_reliability off) (q_reliability req)
                     (fun o r => negb (rel_rank r <=? rel_rank o)))
  | PDestinationOrder => negb (both (q_dest_order off) (q_dest_order req)
                     (fun o r => negb (do_rank r <=? do_rank o)))
  | POther => true
  end.

Definition rxo_b (off req : qos) : bool := forallb (fun p => rxo_pb p off req) all_policies.

(* ------------------------------------------------------------------------------------------ *)
(* Correspondence interface *)
Definition case := (qos * qos)%type.          (* offered, requested *)

(* what one call site (Writer::update_reader_proxy / Reader::update_writer_proxy, both of which call
   compliance_failure_wrt(offered, requested)) reported through its status channel *)
Inductive side := SNotRun | SSilent | SMatched | SIncompatible (p : policy_id).

Record obs := {
  o_verdict : option policy_id;      (* what compliance_failure_wrt returned *)
  o_writer_side : side;
  o_reader_side : side }.

Definition side_of (v : option policy_id) : side :=
  match v with None => SMatched | Some p => SIncompatible p end.

Definition run (c : case) : obs :=
  let v := compliance (fst c) (snd c) in
  {| o_verdict := v; o_writer_side := side_of v; o_reader_side := side_of v |}.

Definition policy_eqb (a b : policy_id) : bool :=
  match a, b with
  | PDurability, PDurability | PPresentation, PPresentation | PDeadline, PDeadline
  | PLatencyBudget, PLatencyBudget | POwnership, POwnership | PLiveliness, PLiveliness
  | PReliability, PReliability | PDestinationOrder, PDestinationOrder | POther, POther => true
  | _, _ => false
  end.

Definition verdict_eqb (a b : option policy_id) : bool :=
  match a, b with
  | None, None => true
  | Some x, Some y => policy_eqb x y
  | _, _ => false
  end.

(* the implementation's side observation (second argument) may be SNotRun: the call sites are
   exercised on a subset of the cases only *)
Definition side_eqb (m i : side) : bool :=
  match m, i with
  | _, SNotRun => true
  | SSilent, SSilent | SMatched, SMatched => true
  | SIncompatible p, SIncompatible q => policy_eqb p q
  | _, _ => false
  end.

Definition obs_eqb (m i : obs) : bool :=
  verdict_eqb (o_verdict m) (o_verdict i)
  && side_eqb (o_writer_side m) (o_writer_side i)
  && side_eqb (o_reader_side m) (o_reader_side i).

(* The property on one observed verdict: matched iff RxO; a reported cause really is violated. *)
Definition verdict_ok (c : case) (v : option policy_id) : bool :=
  match v with
  | None => rxo_b (fst c) (snd c)
  | Some POther => false
  | Some p => negb (rxo_pb p (fst c) (snd c))
  end.

Definition side_ok (c : case) (s : side) : bool :=
  match s with
  | SNotRun => true
  | SSilent => false                    (* neither a match nor an incompatibility verdict *)
  | SMatched => verdict_ok c None
  | SIncompatible p => verdict_ok c (Some p)
  end.

Definition is_matched (s : side) : bool := match s with SMatched => true | _ => false end.

(* both sides reach the same verdict (matched or not) whenever both were exercised *)
Definition sides_agree (a b : side) : bool :=
  match a, b with
  | SNotRun, _ | _, SNotRun => true
  | _, _ => Bool.eqb (is_matched a) (is_matched b)
  end.

Definition ok (c : case) (o : obs) : bool :=
  verdict_ok c (o_verdict o) && side_ok c (o_writer_side o) && side_ok c (o_reader_side o)
  && sides_agree (o_writer_side o) (o_reader_side o).
