(* C10 — property theorems only.  Statements are pinned by Check; proofs are one `exact`. *)
From Coq Require Import ZArith.
From RD Require Import C10.Model C10.Proofs.

(* matched  <->  every policy both sides specify satisfies its request/offered rule *)
Theorem C10_iff : forall off req, compliance off req = None <-> RxO off req.
Proof. exact compliance_none_iff. Qed.
Check (C10_iff : forall off req, compliance off req = None <-> RxO off req).
Print Assumptions C10_iff.

(* the reported cause really is incompatible *)
Theorem C10_cause : forall off req p, compliance off req = Some p -> ~ RxO_p p off req.
Proof. exact compliance_cause. Qed.
Check (C10_cause : forall off req p, compliance off req = Some p -> ~ RxO_p p off req).
Print Assumptions C10_cause.

(* the trace oracle used on the implementation's answers is exactly the property: the direct
   verdict and the verdict of each call site (when exercised) are "matched" only if every shared
   policy satisfies its rule, name only a policy that really is incompatible, and the two sides
   agree *)
Theorem C10_oracle_sound : forall c o,
  ok c o = true <->
  verdict_P c (o_verdict o) /\ side_P c (o_writer_side o) /\ side_P c (o_reader_side o)
  /\ sides_agree (o_writer_side o) (o_reader_side o) = true.
Proof. exact ok_spec. Qed.
Print Assumptions C10_oracle_sound.

Theorem C10_model_ok : forall c, ok c (run c) = true.
Proof. exact run_ok. Qed.
Print Assumptions C10_model_ok.

Theorem C10_same_verdict : forall c, o_writer_side (run c) = o_reader_side (run c).
Proof. exact sides_same. Qed.
Print Assumptions C10_same_verdict.

(* pinned commit: the full statement was false (findings F3a/F3b, repaired by fix: commits) *)
Theorem C10_old_liveliness_refuted :
  exists off req, compliance_old off req = None /\ ~ RxO off req.
Proof. exact old_liveliness_refuted. Qed.
Theorem C10_old_ownership_refuted :
  exists off req p, compliance_old off req = Some p /\ RxO_p p off req.
Proof. exact old_ownership_refuted. Qed.
Print Assumptions C10_old_liveliness_refuted.
Print Assumptions C10_old_ownership_refuted.
