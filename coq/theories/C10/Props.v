(* C10 — property theorems only.  Statements are pinned by Check; proofs are one `exact`. *)
From Coq Require Import ZArith.
From RD Require Import C10.Model C10.Proofs.

(* matched  <->  every policy both sides specify satisfies its request/offered rule *)
Theorem C10_iff : forall off req, compliance off req = None <-> RxO off req.
Proof. exact compliance_none_iff. Qed.
Check (C10_iff : forall off req, compliance off req = None <-> RxO off req).
Print Assumptions C10_iff.

(* the reported cause really is incompatible *)
Theorem C10_cause : forall off req p, compliance off req = Some p -> ~ RxO_p p off req.
Proof. exact compliance_cause. Qed.
Check (C10_cause : forall off req p, compliance off req = Some p -> ~ RxO_p p off req).
Print Assumptions C10_cause.

(* the trace oracle used on the implementation's answers is exactly the property *)
Theorem C10_oracle_sound : forall c o,
  ok c o = true <->
  match o with None => RxO (fst c) (snd c) | Some p => ~ RxO_p p (fst c) (snd c) end.
Proof. exact ok_spec. Qed.
Check (C10_oracle_sound : forall c o,
  ok c o = true <->
  match o with None => RxO (fst c) (snd c) | Some p => ~ RxO_p p (fst c) (snd c) end).
Print Assumptions C10_oracle_sound.

Theorem C10_model_ok : forall c, ok c (run c) = true.
Proof. exact run_ok. Qed.
Check (C10_model_ok : forall c, ok c (run c) = true).
Print Assumptions C10_model_ok.

(* pinned commit: the full statement was false (findings F3a/F3b, repaired by fix: commits) *)
Theorem C10_old_liveliness_refuted :
  exists off req, compliance_old off req = None /\ ~ RxO off req.
Proof. exact old_liveliness_refuted. Qed.
Theorem C10_old_ownership_refuted :
  exists off req p, compliance_old off req = Some p /\ RxO_p p off req.
Proof. exact old_ownership_refuted. Qed.
Print Assumptions C10_old_liveliness_refuted.
Print Assumptions C10_old_ownership_refuted.
