(* C03 (and the reader core shared with C01) — executable model of

     RtpsWriterProxy::{new, should_ignore_change, received_changes_add, set_irrelevant_change,
       irrelevant_changes_range, irrelevant_changes_up_to, advance_ack_base, missing_seqnums,
       next_ack_nack_sequence_number, all_ackable_before}          src/rtps/rtps_writer_proxy.rs
     NumberSet::from_base_and_set (SequenceNumberSet and FragmentNumberSet)
                                                                     src/structure/sequence_number.rs
     Reader::{handle_data_msg, handle_datafrag_msg, process_received_data, handle_heartbeat_msg,
       handle_gap_msg, make_cache_change, is_frag_partially_received, missing_frags_for}
                                                                     src/rtps/reader.rs
     MessageReceiver::handle_writer_submessage (numbers_in_accepted_range, dispatch by writer GUID)
                                                                     src/rtps/message_receiver.rs
     DataFrag::deserialize validity checks                           src/messages/submessages/data_frag.rs
   The fragment assembler is the C05 model (FragmentAssembler::new_datafrag, missing_frags_for).

   Modelling decisions (each is exercised by the correspondence run):
   * `changes : BTreeMap<SequenceNumber, Option<Timestamp>>` is modelled by the list of its keys.
     The stored values are never read by the code (only `contains_key`, `range(..).map(|e| *e.0)`,
     `split_off`, `append`, `insert`), so behaviour depends on the key set only.  A BTreeMap iterates
     its keys in increasing order without repetition; the loops of `advance_ack_base` (walk the keys
     from ack_base upwards while they are consecutive) and `missing_seqnums` (merge the range with
     the sorted keys) are therefore written with membership tests.
   * Machine integers are unbounded Z.  MessageReceiver drops every writer submessage that carries a
     sequence number above SequenceNumber::MAX_ACCEPTED = i64::MAX - 65536 (fix 4e0d9c9), which is
     what makes +1 / +255 / +256 overflow-free in the code; that check is part of the model.
   * The reader is RELIABLE, stateful (not like_stateless), a user-defined entity, without lifespan
     QoS; writers are identified by small integers (the driver maps w to GuidPrefix [w;12]).
   * Reader state is a pair of total functions (writer -> proxy / assembler); it is never printed,
     observations are.
   * The reader only ever writes to the topic cache; those writes are outputs of the step function
     ([OAdd] = TopicCache::add_change, [OMark] = mark_reliably_received_before) and are consumed by
     the topic-cache model of C01. *)
From Coq Require Import List ZArith Lia Bool.
From RD Require C05.Model.
Module F := RD.C05.Model.
Import ListNotations.
Open Scope Z_scope.

Definition memz := F.memz.
Definition iota := F.iota.
Definition len {A} (l : list A) : Z := Z.of_nat (length l).

(* SequenceNumber::MAX_ACCEPTED, FragmentNumber::MAX_ACCEPTED *)
Definition MAX_SN : Z := 2 ^ 63 - 1 - 65536.
Definition MAX_FN : Z := 2 ^ 32 - 1 - 65536.

(* ---------------------------------------------------------------------------------------- *)
(* RtpsWriterProxy *)
Record proxy := {
  p_base : Z;            (* ack_base *)
  p_changes : list Z;    (* keys of `changes` *)
  p_hb : Z;              (* received_heartbeat_count *)
  p_an : Z }.            (* sent_ack_nack_count *)

(* RtpsWriterProxy::new *)
Definition proxy_new : proxy := {| p_base := 1; p_changes := []; p_hb := 0; p_an := 0 |}.

Definition set_base (p : proxy) (b : Z) : proxy :=
  {| p_base := b; p_changes := p_changes p; p_hb := p_hb p; p_an := p_an p |}.
Definition set_changes (p : proxy) (ch : list Z) : proxy :=
  {| p_base := p_base p; p_changes := ch; p_hb := p_hb p; p_an := p_an p |}.
Definition set_hb (p : proxy) (c : Z) : proxy :=
  {| p_base := p_base p; p_changes := p_changes p; p_hb := c; p_an := p_an p |}.
Definition set_an (p : proxy) (c : Z) : proxy :=
  {| p_base := p_base p; p_changes := p_changes p; p_hb := p_hb p; p_an := c |}.

(* advance_ack_base: for (&sn, _) in changes.range(ack_base..) { if sn == test_sn { test_sn += 1;
   ack_base = test_sn } else { break } }.   The keys come in increasing order, so the loop runs
   exactly while test_sn is a key.  Every iteration consumes a distinct key >= the starting base, so
   [length changes] iterations always suffice (lemma adv_stops in Proofs.v: the result is not a key). *)
Fixpoint adv (fuel : nat) (b : Z) (ch : list Z) : Z :=
  match fuel with
  | O => b
  | S f => if memz b ch then adv f (b + 1) ch else b
  end.
Definition advance_ack_base (p : proxy) : proxy :=
  set_base p (adv (length (p_changes p)) (p_base p) (p_changes p)).

(* BTreeMap::insert on the key set *)
Definition ins (x : Z) (l : list Z) : list Z := if memz x l then l else x :: l.

(* should_ignore_change: seqnum < ack_base || changes.contains_key(&seqnum) *)
Definition should_ignore_change (p : proxy) (sn : Z) : bool :=
  (sn <? p_base p) || memz sn (p_changes p).

(* received_changes_add (the deadline tracker fields are not modelled) *)
Definition received_changes_add (p : proxy) (sn : Z) : proxy :=
  let p1 := set_changes p (ins sn (p_changes p)) in
  if sn =? p_base p then advance_ack_base p1 else p1.

(* set_irrelevant_change *)
Definition set_irrelevant_change (p : proxy) (sn : Z) : proxy :=
  let p1 := if p_base p <=? sn then set_changes p (ins sn (p_changes p)) else p in
  if sn =? p_base p then advance_ack_base p1 else p1.

(* irrelevant_changes_range(remove_from, remove_until_before), as it is after repo fix c71c7f1
   ("bound the work done for a GAP range by the ACKNACK window"): when the range starts above
   ack_base only the sequence numbers up to min(remove_until_before - 1, ack_base + 255) get a
   not-available marker; the rest of the range is NOT recorded (it is requested again once ack_base
   has advanced, and the writer's renewed GAP then starts at ack_base and takes the first branch). *)
Definition irrelevant_changes_range (p : proxy) (from until : Z) : proxy :=
  if until <? from then p                                   (* error!("negative range"); return *)
  else if from <=? p_base p then
    (* split_off(&from); split_off(&until); append(after): drop the keys in [from, until) *)
    let p1 := set_changes p (filter (fun s => negb ((from <=? s) && (s <? until))) (p_changes p)) in
    if p_base p <? until then advance_ack_base (set_base p1 until) else p1
  else
    (* let last_to_mark = min(remove_until_before - 1, ack_base + 255);
       for na in range_inclusive(from, last_to_mark) { changes.insert(na, None) } *)
    let last_to_mark := Z.min (until - 1) (p_base p + 255) in
    set_changes p (fold_right ins (p_changes p) (iota from (Z.to_nat (last_to_mark - from + 1)))).

(* the code before fix c71c7f1 (one marker per sequence number of the range, however long);
   kept for the contrast lemma icr_old_new in Proxy.v, not used by [step] *)
Definition irrelevant_changes_range_old (p : proxy) (from until : Z) : proxy :=
  if until <? from then p
  else if from <=? p_base p then
    let p1 := set_changes p (filter (fun s => negb ((from <=? s) && (s <? until))) (p_changes p)) in
    if p_base p <? until then advance_ack_base (set_base p1 until) else p1
  else
    set_changes p (fold_right ins (p_changes p) (iota from (Z.to_nat (until - from)))).

(* irrelevant_changes_up_to(smallest) = irrelevant_changes_range(SequenceNumber::new(0), smallest) *)
Definition irrelevant_changes_up_to (p : proxy) (first : Z) : proxy :=
  irrelevant_changes_range p 0 first.

(* missing_seqnums(hb_first, hb_last) *)
Definition missing_seqnums (p : proxy) (first last : Z) : list Z :=
  if last <? first then []
  else
    let lo := Z.max first (p_base p) in
    filter (fun s => negb (memz s (p_changes p))) (iota lo (Z.to_nat (last - lo + 1))).

(* ---------------------------------------------------------------------------------------- *)
(* NumberSet: (bitmap_base, num_bits, members in increasing order = what iter() yields) *)
Definition number_set := (Z * Z * list Z)%type.

(* NumberSet::from_base_and_set(base, set): `set` is a BTreeSet, i.e. strictly increasing. *)
Definition from_base_and_set (base : Z) (set : list Z) : number_set :=
  match set with
  | [] => (base, 0, [])                                     (* new_empty(base) *)
  | start :: _ =>
      let en := last set start in
      let base := if start <? base then start else base in
      if base <? 1 then (1, 0, [])                          (* new_empty(N::from(1)) *)
      else
        let en := if 256 <=? en - base then base + 255 else en in
        (base, en - base + 1, filter (fun s => (base <=? s) && (s <=? en)) set)
  end.

(* ---------------------------------------------------------------------------------------- *)
(* submessages as they arrive (one per datagram, source GuidPrefix = writer w; an INFO_TS in front
   of DATA / DATAFRAG gives the source timestamp) *)
Inductive op :=
| Data (w sn : Z) (ts : option Z) (payload : list Z)
| Frag (w : Z) (df : F.datafrag) (ts : option Z)
| Hb (w first last count : Z) (final : bool)
| Gap (w start base numbits : Z) (bits : list Z).  (* gap_list = (base, numbits, members) *)

Definition op_writer (o : op) : Z :=
  match o with Data w _ _ _ | Frag w _ _ | Hb w _ _ _ _ | Gap w _ _ _ _ => w end.

Inductive reply :=
| AckNack (w base numbits : Z) (bits : list Z) (count : Z)
| NackFrag (w sn base numbits : Z) (bits : list Z) (count : Z).

Inductive out :=
| OReply (r : reply)                                        (* datagram handed to UDPSender *)
| OAdd (w sn : Z) (ts : option Z) (payload : list Z)        (* TopicCache::add_change *)
| OMark (w sn : Z)                                          (* mark_reliably_received_before *)
| OPanic.                                                   (* assembler panic (excluded by C05_no_panic) *)

Record rstate := {
  r_prox : Z -> option proxy;            (* matched_writers *)
  r_asm : Z -> option F.assembler }.     (* fragment_assemblers *)

Definition upd {A} (f : Z -> option A) (w : Z) (v : A) : Z -> option A :=
  fun k => if k =? w then Some v else f k.
Definition set_prox (st : rstate) (w : Z) (p : proxy) : rstate :=
  {| r_prox := upd (r_prox st) w p; r_asm := r_asm st |}.
Definition set_asm (st : rstate) (w : Z) (fa : F.assembler) : rstate :=
  {| r_prox := r_prox st; r_asm := upd (r_asm st) w fa |}.

(* Reader::process_received_data + make_cache_change for a matched or unmatched remote writer
   (user-defined entity kinds, stateful reader) *)
Definition process_received_data (st : rstate) (w sn : Z) (ts : option Z) (payload : list Z)
  : rstate * list out :=
  match r_prox st w with
  | None => (st, [])                                         (* no writer proxy: ignore *)
  | Some p =>
      if should_ignore_change p sn then (st, [])
      else
        let p' := received_changes_add p sn in
        (set_prox st w p', [OAdd w sn ts payload; OMark w (p_base p')])
  end.

(* Reader::is_frag_partially_received / missing_frags_for *)
Definition is_partial (st : rstate) (w sn : Z) : bool :=
  match r_asm st w with
  | Some fa => match F.alookup sn (F.fa_bufs fa) with Some _ => true | None => false end
  | None => false
  end.
Definition missing_frags (st : rstate) (w sn : Z) : list Z :=
  match r_asm st w with Some fa => F.missing_frags_for fa sn | None => [] end.

(* The NACKFRAG loop of handle_heartbeat_msg: every partially received SN takes a count; a NACKFRAG
   is built when the assembler reports a missing fragment. *)
Fixpoint nackfrags (st : rstate) (w : Z) (partial : list Z) (cnt : Z) : list reply * Z :=
  match partial with
  | [] => ([], cnt)
  | sn :: rest =>
      let r := nackfrags st w rest (cnt + 1) in
      match missing_frags st w sn with
      | [] => r                                             (* error!("The dog ate my missing fragments.") *)
      | first :: _ =>
          let '(b, n, m) := from_base_and_set first (missing_frags st w sn) in
          (NackFrag w sn b n m cnt :: fst r, snd r)
      end
  end.

Fixpoint take_while {A} (f : A -> bool) (l : list A) : list A :=
  match l with
  | [] => []
  | x :: l' => if f x then x :: take_while f l' else []
  end.

(* The part of the missing list an ACKNACK can carry:
   .take_while(|sn| sn < &(first_missing + SequenceNumber::new(256))) *)
Definition hb_window (missing : list Z) : list Z :=
  match missing with
  | first_missing :: _ => take_while (fun s => s <? first_missing + 256) missing
  | [] => []
  end.
(* reader_sn_state: the window without the partially received numbers (.filter(..)), or the empty
   set at all_ackable_before() when nothing is missing *)
Definition hb_sns (st : rstate) (w : Z) (p2 : proxy) (missing : list Z) : number_set :=
  match missing with
  | first_missing :: _ =>
      from_base_and_set first_missing (filter (fun s => negb (is_partial st w s)) (hb_window missing))
  | [] => (p_base p2, 0, [])
  end.
(* partially_received *)
Definition hb_partial (st : rstate) (w : Z) (missing : list Z) : list Z :=
  filter (fun s => is_partial st w s) (hb_window missing).

(* Reader::handle_heartbeat_msg, worker closure.  [fixed = false] is the code before the fix: commit
   of this property (the ACKNACK took its count before the NACKFRAGs that precede it on the wire);
   [fixed = true] is the current code (NACKFRAG counts first, then the ACKNACK's). *)
Definition handle_heartbeat (fixed : bool) (st : rstate) (w : Z) (p : proxy)
  (first last count : Z) (final : bool) : rstate * list out :=
  if count <=? p_hb p then (st, [])                          (* already seen *)
  else
    let p1 := set_hb p count in
    let p2 := irrelevant_changes_up_to p1 first in
    let mark := OMark w (p_base p2) in
    let last_sn_to_check := Z.min last (p_base p2 + 255) in
    let missing := missing_seqnums p2 first last_sn_to_check in
    if negb (match missing with [] => true | _ => false end) || negb final then
      let '(b, n, m) := hb_sns st w p2 missing in
      let partial := hb_partial st w missing in
      if fixed then
        let nf := nackfrags st w partial (p_an p2) in
        let c := snd nf in
        (set_prox st w (set_an p2 (c + 1)),
         mark :: map OReply (fst nf) ++ [OReply (AckNack w b n m c)])
      else
        let c := p_an p2 in
        let nf := nackfrags st w partial (c + 1) in
        (set_prox st w (set_an p2 (snd nf)),
         mark :: map OReply (fst nf) ++ [OReply (AckNack w b n m c)])
    else (set_prox st w p2, [mark]).

(* Reader::handle_gap_msg for a matched writer *)
Definition handle_gap (st : rstate) (w : Z) (p : proxy) (start base : Z) (bits : list Z)
  : rstate * list out :=
  if start <=? 0 then (st, [])
  else if base <=? 0 then (st, [])
  else
    let p1 := irrelevant_changes_range p start base in
    let p2 := fold_left set_irrelevant_change bits p1 in
    (set_prox st w p2, [OMark w (p_base p2)]).

(* DataFrag::deserialize validity checks (a failing submessage makes the datagram unreadable) *)
Definition datafrag_deser_ok (df : F.datafrag) : bool :=
  (1 <=? F.df_sn df)
  && (1 <=? F.df_frag_size df) && (F.df_frag_size df <=? F.df_data_size df)
  && (1 <=? F.df_start df)
  && (F.df_start df <=? F.total_frags (F.df_data_size df) (F.df_frag_size df)).

(* MessageReceiver::handle_writer_submessage -> Reader::handle_*_msg *)
Definition step (fixed : bool) (st : rstate) (o : op) : rstate * list out :=
  match o with
  | Data w sn ts payload =>
      if negb (sn <=? MAX_SN) then (st, [])
      else process_received_data st w sn ts payload
  | Frag w df ts =>
      if negb ((F.df_sn df <=? MAX_SN) && (F.df_start df <=? MAX_FN)) then (st, [])
      else if negb (datafrag_deser_ok df) then (st, [])
      else
        (* fragment_assembler_mutable(writer_guid, datafrag.fragment_size) *)
        let fa := match r_asm st w with
                  | Some fa => fa
                  | None => {| F.fa_fs := F.df_frag_size df; F.fa_bufs := [] |}
                  end in
        match F.new_datafrag fa df 0 with
        | F.Panic => (st, [OPanic])
        | F.Ok (fa', r) =>
            let st1 := set_asm st w fa' in
            match r with
            | Some bytes => process_received_data st1 w (F.df_sn df) ts bytes
            | None => (st1, [])                              (* garbage_collect_fragments: timer, not modelled *)
            end
        end
  | Hb w first last count final =>
      if negb ((first <=? MAX_SN) && (last <=? MAX_SN)) then (st, [])
      else match r_prox st w with
           | None => (st, [])
           | Some p => handle_heartbeat fixed st w p first last count final
           end
  | Gap w start base numbits bits =>
      if negb ((start <=? MAX_SN) && (base <=? MAX_SN)) then (st, [])
      else match r_prox st w with
           | None => (st, [])
           | Some p => handle_gap st w p start base bits
           end
  end.

Definition init (matched : list Z) : rstate :=
  {| r_prox := fun w => if memz w matched then Some proxy_new else None;
     r_asm := fun _ => None |}.

(* ---------------------------------------------------------------------------------------- *)
(* Correspondence interface *)
Record case := { c_matched : list Z; c_ops : list op }.

(* what is observed after each submessage: the replies it caused (wire order), the cache changes it
   added, and RtpsWriterProxy::all_ackable_before / a digest (size, sum) of the key set of `changes`
   of its writer *)
Record sobs := {
  so_replies : list reply;
  so_adds : list (Z * Z);
  so_base : Z;               (* 0 when the writer is not matched *)
  so_nch : Z;                (* number of keys of `changes` *)
  so_sum : Z }.              (* and their sum *)

Inductive obs :=
| ORun (l : list sobs)
| OPanicked (l : list sobs)  (* the implementation panicked; observations up to there *)
| OInvalid.

Definition replies_of (outs : list out) : list reply :=
  flat_map (fun o => match o with OReply r => [r] | _ => [] end) outs.
Definition adds_of (outs : list out) : list (Z * Z) :=
  flat_map (fun o => match o with OAdd w sn _ _ => [(w, sn)] | _ => [] end) outs.
Definition panicked (outs : list out) : bool :=
  existsb (fun o => match o with OPanic => true | _ => false end) outs.

Definition mk_sobs (st : rstate) (o : op) (outs : list out) : sobs :=
  {| so_replies := replies_of outs;
     so_adds := adds_of outs;
     so_base := match r_prox st (op_writer o) with Some p => p_base p | None => 0 end;
     so_nch := match r_prox st (op_writer o) with Some p => len (p_changes p) | None => 0 end;
     so_sum := match r_prox st (op_writer o) with Some p => fold_right Z.add 0 (p_changes p) | None => 0 end |}.

Fixpoint mrun (fixed : bool) (st : rstate) (ops : list op) : list sobs :=
  match ops with
  | [] => []
  | o :: ops' =>
      let r := step fixed st o in
      mk_sobs (fst r) o (snd r) :: mrun fixed (fst r) ops'
  end.

(* input space: field ranges of the wire types *)
Definition i64b (x : Z) : bool := (- 2 ^ 63 <=? x) && (x <? 2 ^ 63).
Definition i32b (x : Z) : bool := (- 2 ^ 31 <=? x) && (x <? 2 ^ 31).
Definition optb {A} (f : A -> bool) (o : option A) : bool :=
  match o with Some x => f x | None => true end.
Definition tsb (t : Z) : bool := (0 <=? t) && (t <? 2 ^ 64).
Fixpoint incr_from (lo : Z) (l : list Z) : bool :=   (* strictly increasing, all >= lo *)
  match l with
  | [] => true
  | x :: l' => (lo <=? x) && incr_from (x + 1) l'
  end.
Definition op_okb (o : op) : bool :=
  match o with
  | Data w sn ts payload =>
      i64b sn && optb tsb ts && (4 <=? len payload) && forallb F.byte_okb payload
  | Frag w df ts => i64b (F.df_sn df) && F.df_okb df && optb tsb ts && forallb F.byte_okb (F.df_payload df)
  | Hb w first last count final => i64b first && i64b last && i32b count
  | Gap w start base numbits bits =>
      i64b start && i64b base && (0 <=? numbits) && (numbits <=? 256)
      && incr_from base bits && forallb (fun s => s <? base + numbits) bits
  end.
Definition wf_case (c : case) : bool := forallb op_okb (c_ops c).

Definition run_with (fixed : bool) (c : case) : obs :=
  if negb (wf_case c) then OInvalid
  else ORun (mrun fixed (init (c_matched c)) (c_ops c)).
Definition run := run_with true.
Definition run_old := run_with false.

Definition zlist_eqb (a b : list Z) : bool :=
  (length a =? length b)%nat && forallb (fun p => fst p =? snd p) (combine a b).
Definition subsetb (a b : list Z) : bool := forallb (fun x => memz x b) a.
Definition reply_eqb (a b : reply) : bool :=
  match a, b with
  | AckNack w ba n m c, AckNack w' ba' n' m' c' =>
      (w =? w') && (ba =? ba') && (n =? n') && zlist_eqb m m' && (c =? c')
  | NackFrag w sn ba n m c, NackFrag w' sn' ba' n' m' c' =>
      (w =? w') && (sn =? sn') && (ba =? ba') && (n =? n') && zlist_eqb m m' && (c =? c')
  | _, _ => false
  end.
Fixpoint list_eqb {A} (e : A -> A -> bool) (a b : list A) : bool :=
  match a, b with
  | [], [] => true
  | x :: a', y :: b' => e x y && list_eqb e a' b'
  | _, _ => false
  end.
Definition sobs_eqb (a b : sobs) : bool :=
  list_eqb reply_eqb (so_replies a) (so_replies b)
  && list_eqb (fun p q => (fst p =? fst q) && (snd p =? snd q)) (so_adds a) (so_adds b)
  && (so_base a =? so_base b) && (so_nch a =? so_nch b) && (so_sum a =? so_sum b).
Definition obs_eqb (a b : obs) : bool :=
  match a, b with
  | ORun l, ORun l' => list_eqb sobs_eqb l l'
  | OPanicked l, OPanicked l' => list_eqb sobs_eqb l l'
  | OInvalid, OInvalid => true
  | _, _ => false
  end.

(* ---------------------------------------------------------------------------------------- *)
(* Property oracle.  It keeps, per writer, a summary of what the history has told the reader — only
   inputs (submessages) and observed outputs (cache changes added, the hand-over bound
   RtpsWriterProxy::all_ackable_before reported after every submessage) enter it:
     s_lo    everything below is unavailable by an effective HEARTBEAT (first_sn)
     s_rng   GAP ranges [gapStart, gapList.base), each with the reader's ack base observed when the
             GAP arrived
     s_pts   sequence numbers listed in GAP bitmaps, and those whose sample was added to the cache
     s_hbmax highest HEARTBEAT count so far (a HEARTBEAT is effective iff its count is higher)
     s_adv   range advertised by the last effective HEARTBEAT
     s_lastbase / s_lastcount   base of the last ACKNACK / count of the last ACKNACK or NACKFRAG
     s_base  all_ackable_before observed after the previous submessage of this writer ([so_base];
             1 = RtpsWriterProxy::new before the first one)

   DECLARED and RECORDED.  Since repo fix c71c7f1 the reader deliberately records a GAP range that
   starts above its ack base only within the 256 sequence numbers from the ack base (the numbers the
   next ACKNACK can name); the remainder is requested again later and the writer has to declare it
   again (that GAP then starts at the ack base and is taken over whole).  So the summary yields two
   sets:
     [known s m]    DECLARED: m was received, or some submessage told the reader that m is
                    unavailable (HEARTBEAT.first above it, inside a valid GAP's range, in its bitmap);
     [recorded s m] RECORDED: what the reader accepted — like declared, but a GAP range whose start
                    was above the ack base at that time counts only up to that ack base + 256.
   recorded s m -> known s m for every summary (lemma recorded_sub_known, Oracle.v).
   The property text is read as follows (properties.jsonl, C03):
     "its base never exceeds the lowest sequence number the reader has neither received nor been
      told is unavailable"                        — judged against DECLARED (clause [truthful] below,
                                                     unchanged by the repair);
     "every sequence number listed as missing is really missing and lies inside the range the writer
      last advertised"                            — judged against RECORDED: a number that was named
                                                     only in the far part of such a GAP is not received
                                                     and not recorded, for the reader it is missing
                                                     and it has to ask again;
     "Whenever the advertised range contains a missing sample, the lowest one is requested"
                                                  — "missing" is what the text says: not received
                                                     and not DECLARED.  If the range contains such a
                                                     number, let m1 be the lowest one and m0 <= m1 the
                                                     lowest number of the range that is not RECORDED:
                                                     some number of [m0, m1] must be requested (clause
                                                     [lowest_requested_ok] below).  The reader as it is
                                                     requests m0 (it forgot the far part of the GAP and
                                                     asks again); a reader that remembers more of such
                                                     a GAP requests a later number of [m0, m1], one
                                                     that remembers all of it requests m1 itself; all
                                                     of them request the lowest number that is missing
                                                     for them, and none may skip beyond m1, the lowest
                                                     number nobody ever received or declared.  Without
                                                     a cut GAP in the way m0 = m1 and the clause says
                                                     "m1 is requested" (lowest_requested_exact_when_
                                                     no_cut, Oracle.v). *)
Record grange := { g_from : Z; g_until : Z; g_ackbase : Z }.

Record wspec := {
  s_lo : Z;
  s_rng : list grange;
  s_pts : list Z;
  s_hbmax : Z;
  s_adv : option (Z * Z);
  s_lastbase : Z;
  s_lastcount : option Z;
  s_frag : list Z;       (* sequence numbers of which a DATAFRAG has been seen *)
  s_base : Z }.

Definition spec0 : wspec :=
  {| s_lo := 1; s_rng := []; s_pts := []; s_hbmax := 0; s_adv := None; s_lastbase := 1;
     s_lastcount := None; s_frag := []; s_base := 1 |}.

Definition in_rng (m : Z) (r : grange) : bool := (g_from r <=? m) && (m <? g_until r).
(* DECLARED: "received, or told it is unavailable" *)
Definition known (s : wspec) (m : Z) : bool :=
  (m <? s_lo s) || existsb (in_rng m) (s_rng s) || memz m (s_pts s).

(* the end of the part of a GAP range that the reader records (irrelevant_changes_range): all of it
   when it starts at or below the ack base, otherwise only up to ack base + 255 inclusive *)
Definition g_cut (r : grange) : Z :=
  if g_from r <=? g_ackbase r then g_until r else Z.min (g_until r) (g_ackbase r + 256).
Definition rec_rng (r : grange) : grange :=
  {| g_from := g_from r; g_until := g_cut r; g_ackbase := g_ackbase r |}.
(* the summary with every GAP range cut to its recorded part *)
Definition rec_view (s : wspec) : wspec :=
  {| s_lo := s_lo s; s_rng := map rec_rng (s_rng s); s_pts := s_pts s; s_hbmax := s_hbmax s;
     s_adv := s_adv s; s_lastbase := s_lastbase s; s_lastcount := s_lastcount s; s_frag := s_frag s;
     s_base := s_base s |}.
(* RECORDED: "received, or told it is unavailable and taken note of" *)
Definition recorded (s : wspec) (m : Z) : bool := known (rec_view s) m.

(* the least unknown number >= x is x itself, s_lo, the end of a range, or the successor of a point *)
Definition cands (s : wspec) : list Z :=
  s_lo s :: map g_until (s_rng s) ++ map (fun p => p + 1) (s_pts s).
Fixpoint minl (x : Z) (l : list Z) : Z :=
  match l with [] => x | y :: l' => minl (Z.min x y) l' end.
(* least number >= x that is not DECLARED *)
Definition lowest_unknown (s : wspec) (x : Z) : option Z :=
  match filter (fun c => (x <=? c) && negb (known s c)) (x :: cands s) with
  | [] => None
  | c :: l => Some (minl c l)
  end.
(* least number >= x that is not RECORDED *)
Definition lowest_unrecorded (s : wspec) (x : Z) : option Z := lowest_unknown (rec_view s) x.

Definition sstate := Z -> option wspec.    (* None = writer not matched *)
Definition sinit (matched : list Z) : sstate := fun w => if memz w matched then Some spec0 else None.

Definition add_pts (s : wspec) (l : list Z) : wspec :=
  {| s_lo := s_lo s; s_rng := s_rng s; s_pts := l ++ s_pts s; s_hbmax := s_hbmax s; s_adv := s_adv s;
     s_lastbase := s_lastbase s; s_lastcount := s_lastcount s; s_frag := s_frag s; s_base := s_base s |}.
Definition set_sbase (s : wspec) (b : Z) : wspec :=
  {| s_lo := s_lo s; s_rng := s_rng s; s_pts := s_pts s; s_hbmax := s_hbmax s; s_adv := s_adv s;
     s_lastbase := s_lastbase s; s_lastcount := s_lastcount s; s_frag := s_frag s; s_base := b |}.

(* what the submessage tells the reader (validity rules: numbers accepted; GAP gapStart >= 1 and
   gapList.base >= 1; HEARTBEAT count higher than any before).  A GAP range is stored together with
   the ack base the reader had when it arrived ([s_base]: observed after the previous submessage of
   the writer; nothing else moves a writer proxy's ack base). *)
Definition spec_input (s : wspec) (o : op) : wspec :=
  match o with
  | Data _ _ _ _ => s
  | Frag _ df _ =>
      {| s_lo := s_lo s; s_rng := s_rng s; s_pts := s_pts s; s_hbmax := s_hbmax s; s_adv := s_adv s;
         s_lastbase := s_lastbase s; s_lastcount := s_lastcount s; s_frag := F.df_sn df :: s_frag s;
         s_base := s_base s |}
  | Hb _ first last count _ =>
      if (first <=? MAX_SN) && (last <=? MAX_SN) && (s_hbmax s <? count) then
        {| s_lo := Z.max (s_lo s) first; s_rng := s_rng s; s_pts := s_pts s; s_hbmax := count;
           s_adv := Some (first, last); s_lastbase := s_lastbase s; s_lastcount := s_lastcount s;
           s_frag := s_frag s; s_base := s_base s |}
      else s
  | Gap _ start base _ bits =>
      if (start <=? MAX_SN) && (base <=? MAX_SN) && (1 <=? start) && (1 <=? base) then
        {| s_lo := s_lo s;
           s_rng := {| g_from := start; g_until := base; g_ackbase := s_base s |} :: s_rng s;
           s_pts := bits ++ s_pts s;
           s_hbmax := s_hbmax s; s_adv := s_adv s; s_lastbase := s_lastbase s;
           s_lastcount := s_lastcount s; s_frag := s_frag s; s_base := s_base s |}
      else s
  end.

Definition effective_hb (s : wspec) (o : op) : bool :=
  match o with
  | Hb _ first last count _ => (first <=? MAX_SN) && (last <=? MAX_SN) && (s_hbmax s <? count)
  | _ => false
  end.

Definition count_okb (last : option Z) (c : Z) : bool :=
  match last with None => true | Some l => l <? c end.

(* one reply judged against the summary [s] (which already contains the submessage it answers and
   the cache changes added so far); returns the summary with the reply's base/count recorded *)
Definition reply_ok (w : Z) (s : wspec) (r : reply) : option wspec :=
  match r with
  | AckNack w' base numbits bits count =>
      (* base <= lowest number neither received nor DECLARED unavailable *)
      let truthful := match lowest_unknown s 1 with Some lu => base <=? lu | None => false end in
      let in_adv := match s_adv s with
                    | Some (first, last) => forallb (fun m => (first <=? m) && (m <=? last)) bits
                    | None => match bits with [] => true | _ => false end
                    end in
      if (w' =? w) && truthful && (s_lastbase s <=? base)
         && (0 <=? numbits) && (numbits <=? 256) && incr_from base bits
         (* listed as missing => really missing: neither received nor RECORDED as unavailable *)
         && forallb (fun m => (m <? base + numbits) && negb (recorded s m)) bits && in_adv
         && count_okb (s_lastcount s) count
      then Some {| s_lo := s_lo s; s_rng := s_rng s; s_pts := s_pts s; s_hbmax := s_hbmax s;
                   s_adv := s_adv s; s_lastbase := base; s_lastcount := Some count;
                   s_frag := s_frag s; s_base := s_base s |}
      else None
  | NackFrag w' sn base numbits bits count =>
      let in_adv := match s_adv s with
                    | Some (first, last) => (first <=? sn) && (sn <=? last)
                    | None => false
                    end in
      (* the sample whose fragments are requested is really missing: not RECORDED *)
      if (w' =? w) && negb (recorded s sn) && in_adv && memz sn (s_frag s)
         && (1 <=? base) && (0 <=? numbits) && (numbits <=? 256) && incr_from base bits
         && forallb (fun m => m <? base + numbits) bits
         && match bits with b0 :: _ => b0 =? base | [] => false end
         && count_okb (s_lastcount s) count
      then Some {| s_lo := s_lo s; s_rng := s_rng s; s_pts := s_pts s; s_hbmax := s_hbmax s;
                   s_adv := s_adv s; s_lastbase := s_lastbase s; s_lastcount := Some count;
                   s_frag := s_frag s; s_base := s_base s |}
      else None
  end.

Fixpoint replies_ok (w : Z) (s : wspec) (rs : list reply) : option wspec :=
  match rs with
  | [] => Some s
  | r :: rs' => match reply_ok w s r with Some s' => replies_ok w s' rs' | None => None end
  end.

(* is sequence number m asked for by this reply list? *)
Definition requested (m : Z) (rs : list reply) : bool :=
  existsb (fun r => match r with
                    | AckNack _ _ _ bits _ => memz m bits
                    | NackFrag _ sn _ _ _ _ => sn =? m
                    end) rs.

(* does this reply list ask for some sequence number of [lo, hi]?  It scans the numbers the replies
   name (at most 256 per ACKNACK); the interval itself can be 2^40 numbers wide and is never
   enumerated. *)
Definition in_iv (lo hi m : Z) : bool := (lo <=? m) && (m <=? hi).
Definition requested_in (lo hi : Z) (rs : list reply) : bool :=
  existsb (fun r => match r with
                    | AckNack _ _ _ bits _ => existsb (in_iv lo hi) bits
                    | NackFrag _ sn _ _ _ _ => in_iv lo hi sn
                    end) rs.

(* after an effective HEARTBEAT(first, last): with x = max first 1,
     m1 = the lowest number >= x that is not DECLARED (never received, never declared unavailable),
     m0 = the lowest number >= x that is not RECORDED (m0 <= m1, lemma lowest_unrecorded_le).
   If m1 <= last — the advertised range contains a missing sample — some number of [m0, m1] must be
   requested (a set bit of the ACKNACK or the subject of a NACKFRAG of the same reply list).
   Which one depends on how much of a GAP range that started above the ack base the reader chose to
   remember: the code as it is (fix c71c7f1) forgets the part beyond ack base + 255 and requests m0;
   a reader that keeps the whole range (the code before that fix, or an interval set) requests m1;
   anything in between is a reader with a longer memory than 256.  What is listed must in any case
   not be RECORDED ([reply_ok]), so a number of [m0, m1) that is requested was declared only in the
   far part of such a GAP.  For histories without a cut GAP below m1, m0 = m1 and the clause is
   "m1 is requested".
   If m1 > last but m0 <= last (everything in the range was declared, but part of it only in the
   forgotten far part of a GAP) nothing is demanded: the reader as it is requests m0 there (a
   declared-but-forgotten number, allowed by [reply_ok]), a remembering reader requests nothing;
   the advertised range contains no missing sample in the sense of the property text, so both are
   acceptable. *)
Definition lowest_requested_ok (s : wspec) (o : op) (rs : list reply) : bool :=
  match o with
  | Hb _ first last _ _ =>
      match lowest_unrecorded s (Z.max first 1), lowest_unknown s (Z.max first 1) with
      | Some m0, Some m1 => if m1 <=? last then requested_in m0 m1 rs else true
      | _, _ => false                       (* never: lowest_unknown_some *)
      end
  | _ => true
  end.

(* the cache changes a submessage may add: its own (writer, sequence number), at most once *)
Definition adds_okb (o : op) (adds : list (Z * Z)) : bool :=
  match adds with
  | [] => true
  | [(w, sn)] =>
      match o with
      | Data w' sn' _ _ => (w =? w') && (sn =? sn')
      | Frag w' df _ => (w =? w') && (sn =? F.df_sn df)
      | _ => false
      end
  | _ => false
  end.

Definition step_ok (S : sstate) (o : op) (so : sobs) : option sstate :=
  let w := op_writer o in
  match S w with
  | None =>                                (* not matched: nothing may happen *)
      match so_replies so, so_adds so with [], [] => Some S | _, _ => None end
  | Some s =>
      if negb (adds_okb o (so_adds so)) then None
      else
        let eff := effective_hb s o in
        let s1 := add_pts (spec_input s o) (map snd (so_adds so)) in
        match replies_ok w s1 (so_replies so) with
        | None => None
        | Some s2 =>
            if eff && negb (lowest_requested_ok s1 o (so_replies so)) then None
            else
              (* the hand-over bound observed after this submessage is the ack base the next GAP
                 of this writer meets *)
              Some (fun k => if k =? w then Some (set_sbase s2 (so_base so)) else S k)
        end
  end.

Fixpoint chk (S : sstate) (ops : list op) (l : list sobs) : bool :=
  match ops, l with
  | [], [] => true
  | o :: ops', so :: l' =>
      match step_ok S o so with Some S' => chk S' ops' l' | None => false end
  | _, _ => false
  end.

Definition ok (c : case) (o : obs) : bool :=
  if negb (wf_case c) then match o with OInvalid => true | _ => false end
  else match o with
       | ORun l => chk (sinit (c_matched c)) (c_ops c) l
       | _ => false
       end.
