(* C03 — lemmas about the writer-proxy model: the set of known sequence numbers
   (should_ignore_change) after every operation, the invariant ack_base >= 1 /\ ack_base not a key
   of `changes`, monotonicity of ack_base, and facts about missing_seqnums / from_base_and_set. *)
From Coq Require Import List ZArith Lia Bool.
From RD Require Import C03.Model.
From RD Require C05.Lists.
Module FL := RD.C05.Lists.
Import ListNotations.
Open Scope Z_scope.

(* ---------------------------------------------------------------------------------------- *)
(* lists *)
Lemma memz_true k S : memz k S = true <-> In k S.
Proof. apply FL.memz_true. Qed.
Lemma memz_false k S : memz k S = false <-> ~ In k S.
Proof.
  rewrite <- memz_true. destruct (memz k S); split; intro H; congruence.
Qed.
Lemma memz_cons k x S : memz k (x :: S) = (k =? x) || memz k S.
Proof. apply FL.memz_cons. Qed.
Lemma memz_nil k : memz k [] = false.
Proof. reflexivity. Qed.
Lemma memz_app k a b : memz k (a ++ b) = memz k a || memz k b.
Proof. unfold memz, F.memz. apply existsb_app. Qed.
Lemma memz_filter k f S : memz k (filter f S) = memz k S && f k.
Proof.
  induction S as [|x S IH]; [reflexivity|]. cbn [filter].
  destruct (f x) eqn:E; rewrite ?memz_cons, IH.
  - destruct (Z.eqb_spec k x); [subst; rewrite E; cbn; now rewrite orb_true_r || (destruct (memz x S); reflexivity)|reflexivity].
  - destruct (Z.eqb_spec k x); [subst; rewrite E; cbn; now rewrite andb_false_r|reflexivity].
Qed.
Lemma memz_ins k x S : memz k (ins x S) = (k =? x) || memz k S.
Proof.
  unfold ins. destruct (memz x S) eqn:E; [|apply memz_cons].
  destruct (Z.eqb_spec k x) as [->|]; [now rewrite E|reflexivity].
Qed.
Lemma memz_ins_all k xs S : memz k (fold_right ins S xs) = memz k xs || memz k S.
Proof.
  induction xs as [|x xs IH]; [reflexivity|]. cbn [fold_right]. rewrite memz_ins, IH, memz_cons.
  now rewrite orb_assoc.
Qed.
Lemma in_iota a c k : In k (iota a c) <-> a <= k < a + Z.of_nat c.
Proof. apply FL.in_iota. Qed.
Lemma memz_iota m a n : memz m (iota a (Z.to_nat n)) = (a <=? m) && (m <? a + n).
Proof.
  destruct (memz m (iota a (Z.to_nat n))) eqn:E.
  - apply memz_true, in_iota in E. symmetry. apply andb_true_iff. split; [apply Z.leb_le|apply Z.ltb_lt]; lia.
  - apply memz_false in E. rewrite in_iota in E. symmetry. apply andb_false_iff.
    destruct (Z.leb_spec a m); [right|left; reflexivity]. apply Z.ltb_ge. lia.
Qed.

Lemma incr_from_weaken l : forall lo lo', lo' <= lo -> incr_from lo l = true -> incr_from lo' l = true.
Proof.
  destruct l as [|x l]; [reflexivity|]. intros lo lo' H. cbn [incr_from].
  rewrite !andb_true_iff, !Z.leb_le. intros [A B]. split; [lia|exact B].
Qed.
Lemma incr_from_iota c : forall a, incr_from a (iota a c) = true.
Proof.
  induction c as [|c IH]; intros a; [reflexivity|]. cbn [iota F.iota incr_from].
  apply andb_true_iff. split; [apply Z.leb_le; lia|apply IH].
Qed.
Lemma incr_from_ge l : forall lo x, incr_from lo l = true -> In x l -> lo <= x.
Proof.
  induction l as [|y l IH]; intros lo x H Hx; [destruct Hx|]. cbn [incr_from] in H.
  apply andb_true_iff in H as [A B]. apply Z.leb_le in A. destruct Hx as [->|Hx]; [lia|].
  specialize (IH _ _ B Hx). lia.
Qed.
Lemma incr_from_filter f l : forall lo, incr_from lo l = true -> incr_from lo (filter f l) = true.
Proof.
  induction l as [|y l IH]; intros lo H; [reflexivity|]. cbn [incr_from] in H.
  apply andb_true_iff in H as [A B]. cbn [filter]. destruct (f y).
  - cbn [incr_from]. rewrite A. cbn. now apply IH.
  - apply IH. apply (incr_from_weaken l (y + 1)); [apply Z.leb_le in A; lia|exact B].
Qed.
Lemma incr_from_take_while f l : forall lo, incr_from lo l = true -> incr_from lo (take_while f l) = true.
Proof.
  induction l as [|y l IH]; intros lo H; [reflexivity|]. cbn [incr_from] in H.
  apply andb_true_iff in H as [A B]. cbn [take_while]. destruct (f y); [|reflexivity].
  cbn [incr_from]. rewrite A. cbn. now apply IH.
Qed.
Lemma take_while_In {A} (f : A -> bool) l x : In x (take_while f l) -> In x l.
Proof.
  induction l as [|y l IH]; [intros []|]. cbn [take_while]. destruct (f y); [|intros []].
  intros [->|H]; [now left|right; auto].
Qed.
Lemma take_while_head {A} (f : A -> bool) x l : f x = true -> take_while f (x :: l) = x :: take_while f l.
Proof. intros H. cbn [take_while]. now rewrite H. Qed.

Lemma last_in {A} (l : list A) d : l <> [] -> In (last l d) l.
Proof.
  induction l as [|x l IH]; [congruence|]. intros _. destruct l as [|y l]; [now left|].
  right. apply IH. congruence.
Qed.

Lemma incr_from_le_last l : forall lo d x, incr_from lo l = true -> In x l -> x <= last l d.
Proof.
  induction l as [|y l IH]; intros lo d x Hi Hx; [destruct Hx|].
  cbn [incr_from] in Hi. apply andb_true_iff in Hi as [A B].
  destruct l as [|z l]; [destruct Hx as [->|[]]; cbn; lia|].
  change (last (y :: z :: l) d) with (last (z :: l) d).
  destruct Hx as [->|Hx].
  - assert (H : In (last (z :: l) d) (z :: l)) by (apply last_in; congruence).
    pose proof (incr_from_ge _ _ _ B H). lia.
  - apply (IH (y + 1) d x B Hx).
Qed.

(* ---------------------------------------------------------------------------------------- *)
(* advance_ack_base *)
Definition cnt_ge (b : Z) (ch : list Z) : nat := length (filter (fun x => b <=? x) ch).

Lemma cnt_ge_mono b ch : (cnt_ge (b + 1) ch <= cnt_ge b ch)%nat.
Proof.
  unfold cnt_ge. induction ch as [|x ch IH]; [reflexivity|]. cbn [filter].
  destruct (Z.leb_spec (b + 1) x), (Z.leb_spec b x); cbn [length]; lia.
Qed.
Lemma cnt_ge_step b ch : memz b ch = true -> (cnt_ge (b + 1) ch < cnt_ge b ch)%nat.
Proof.
  induction ch as [|x ch IH]; [discriminate|]. rewrite memz_cons. intros H.
  unfold cnt_ge in *. cbn [filter].
  destruct (Z.eqb_spec b x) as [->|Hne].
  - pose proof (cnt_ge_mono x ch) as M. unfold cnt_ge in M.
    destruct (Z.leb_spec (x + 1) x), (Z.leb_spec x x); cbn [length]; lia.
  - cbn in H. specialize (IH H).
    destruct (Z.leb_spec (b + 1) x), (Z.leb_spec b x); cbn [length]; lia.
Qed.
Lemma cnt_ge_len b ch : (cnt_ge b ch <= length ch)%nat.
Proof. unfold cnt_ge. induction ch as [|x ch IH]; [reflexivity|]. cbn [filter]. destruct (b <=? x); cbn [length]; lia. Qed.

Lemma adv_spec fuel : forall b ch,
  b <= adv fuel b ch /\ forall x, b <= x < adv fuel b ch -> memz x ch = true.
Proof.
  induction fuel as [|f IH]; intros b ch; cbn [adv].
  - split; [lia|]. intros; lia.
  - destruct (memz b ch) eqn:E.
    + destruct (IH (b + 1) ch) as [A B]. split; [lia|]. intros x Hx.
      destruct (Z.eq_dec x b) as [->|]; [exact E|]. apply B. lia.
    + split; [lia|]. intros; lia.
Qed.
Lemma adv_stops fuel : forall b ch, (cnt_ge b ch <= fuel)%nat -> memz (adv fuel b ch) ch = false.
Proof.
  induction fuel as [|f IH]; intros b ch H; cbn [adv].
  - destruct (memz b ch) eqn:E; [|reflexivity]. apply cnt_ge_step in E. lia.
  - destruct (memz b ch) eqn:E; [|exact E]. apply IH. apply cnt_ge_step in E. lia.
Qed.

(* ---------------------------------------------------------------------------------------- *)
(* the known set and the proxy invariant *)
Definition known_p (p : proxy) (m : Z) : bool := should_ignore_change p m.
Definition pinv (p : proxy) : Prop := 1 <= p_base p /\ memz (p_base p) (p_changes p) = false.

Lemma pinv_new : pinv proxy_new.
Proof. split; [cbn; lia|reflexivity]. Qed.

Lemma advance_known p m : known_p (advance_ack_base p) m = known_p p m.
Proof.
  unfold known_p, should_ignore_change, advance_ack_base. cbn [p_base p_changes set_base].
  destruct (adv_spec (length (p_changes p)) (p_base p) (p_changes p)) as [A B].
  destruct (memz m (p_changes p)) eqn:E; [now rewrite !orb_true_r|]. rewrite !orb_false_r.
  destruct (Z.ltb_spec m (p_base p)), (Z.ltb_spec m (adv (length (p_changes p)) (p_base p) (p_changes p)));
    try reflexivity; try lia.
  rewrite B in E by lia. discriminate.
Qed.
Lemma advance_base p : p_base p <= p_base (advance_ack_base p).
Proof. unfold advance_ack_base. cbn. apply adv_spec. Qed.
Lemma advance_changes p : p_changes (advance_ack_base p) = p_changes p.
Proof. reflexivity. Qed.
Lemma advance_pinv p : 1 <= p_base p -> pinv (advance_ack_base p).
Proof.
  intros H. split; [pose proof (advance_base p); lia|].
  unfold advance_ack_base. cbn [p_base p_changes set_base]. apply adv_stops, cnt_ge_len.
Qed.
Lemma advance_hb p : p_hb (advance_ack_base p) = p_hb p. Proof. reflexivity. Qed.
Lemma advance_an p : p_an (advance_ack_base p) = p_an p. Proof. reflexivity. Qed.

(* received_changes_add *)
Lemma rca_known p sn m : known_p (received_changes_add p sn) m = known_p p m || (m =? sn).
Proof.
  unfold received_changes_add.
  assert (E : known_p (set_changes p (ins sn (p_changes p))) m = known_p p m || (m =? sn)).
  { unfold known_p, should_ignore_change. cbn [p_base p_changes set_changes]. rewrite memz_ins.
    destruct (m <? p_base p), (m =? sn), (memz m (p_changes p)); reflexivity. }
  destruct (sn =? p_base p); [rewrite advance_known|]; exact E.
Qed.
Lemma rca_pinv p sn : pinv p -> pinv (received_changes_add p sn).
Proof.
  intros [A B]. unfold received_changes_add. destruct (Z.eqb_spec sn (p_base p)) as [->|Hne].
  - apply advance_pinv. exact A.
  - split; [exact A|]. cbn [p_base p_changes set_changes]. rewrite memz_ins, B.
    destruct (Z.eqb_spec (p_base p) sn); [congruence|reflexivity].
Qed.
Lemma rca_base p sn : p_base p <= p_base (received_changes_add p sn).
Proof.
  unfold received_changes_add. destruct (sn =? p_base p); [|cbn; lia].
  etransitivity; [|apply advance_base]. cbn. lia.
Qed.
Lemma rca_hb p sn : p_hb (received_changes_add p sn) = p_hb p.
Proof. unfold received_changes_add. destruct (sn =? p_base p); reflexivity. Qed.
Lemma rca_an p sn : p_an (received_changes_add p sn) = p_an p.
Proof. unfold received_changes_add. destruct (sn =? p_base p); reflexivity. Qed.

(* set_irrelevant_change *)
Lemma sic_known p sn m : known_p (set_irrelevant_change p sn) m = known_p p m || (m =? sn).
Proof.
  unfold set_irrelevant_change.
  assert (E : known_p (if p_base p <=? sn then set_changes p (ins sn (p_changes p)) else p) m
              = known_p p m || (m =? sn)).
  { unfold known_p, should_ignore_change. destruct (Z.leb_spec (p_base p) sn) as [H|H].
    - cbn [p_base p_changes set_changes]. rewrite memz_ins.
      destruct (m <? p_base p), (m =? sn), (memz m (p_changes p)); reflexivity.
    - destruct (Z.eqb_spec m sn) as [->|]; [|now rewrite orb_false_r].
      destruct (Z.ltb_spec sn (p_base p)); [reflexivity|lia]. }
  destruct (sn =? p_base p); [rewrite advance_known|]; exact E.
Qed.
Lemma sic_pinv p sn : pinv p -> pinv (set_irrelevant_change p sn).
Proof.
  intros [A B]. unfold set_irrelevant_change. destruct (Z.eqb_spec sn (p_base p)) as [->|Hne].
  - apply advance_pinv. destruct (p_base p <=? p_base p); exact A.
  - destruct (Z.leb_spec (p_base p) sn); split; try exact A; try exact B.
    cbn [p_base p_changes set_changes]. rewrite memz_ins, B.
    destruct (Z.eqb_spec (p_base p) sn); [congruence|reflexivity].
Qed.
Lemma sic_base p sn : p_base p <= p_base (set_irrelevant_change p sn).
Proof.
  unfold set_irrelevant_change. destruct (sn =? p_base p).
  - etransitivity; [|apply advance_base]. destruct (p_base p <=? sn); cbn; lia.
  - destruct (p_base p <=? sn); cbn; lia.
Qed.
Lemma sic_hb p sn : p_hb (set_irrelevant_change p sn) = p_hb p.
Proof. unfold set_irrelevant_change. destruct (sn =? p_base p), (p_base p <=? sn); reflexivity. Qed.
Lemma sic_an p sn : p_an (set_irrelevant_change p sn) = p_an p.
Proof. unfold set_irrelevant_change. destruct (sn =? p_base p), (p_base p <=? sn); reflexivity. Qed.

Lemma sic_fold_known bits : forall p m,
  known_p (fold_left set_irrelevant_change bits p) m = known_p p m || memz m bits.
Proof.
  induction bits as [|b bits IH]; intros p m; cbn [fold_left]; [now rewrite memz_nil, orb_false_r|].
  rewrite IH, sic_known, memz_cons. now rewrite orb_assoc.
Qed.
Lemma sic_fold_pinv bits : forall p, pinv p -> pinv (fold_left set_irrelevant_change bits p).
Proof. induction bits as [|b bits IH]; intros p H; cbn [fold_left]; [exact H|]. apply IH, sic_pinv, H. Qed.
Lemma sic_fold_base bits : forall p, p_base p <= p_base (fold_left set_irrelevant_change bits p).
Proof.
  induction bits as [|b bits IH]; intros p; cbn [fold_left]; [lia|].
  etransitivity; [apply sic_base|apply IH].
Qed.
Lemma sic_fold_hb bits : forall p, p_hb (fold_left set_irrelevant_change bits p) = p_hb p.
Proof. induction bits as [|b bits IH]; intros p; cbn [fold_left]; [reflexivity|]. now rewrite IH, sic_hb. Qed.
Lemma sic_fold_an bits : forall p, p_an (fold_left set_irrelevant_change bits p) = p_an p.
Proof. induction bits as [|b bits IH]; intros p; cbn [fold_left]; [reflexivity|]. now rewrite IH, sic_an. Qed.

(* irrelevant_changes_range *)
Definition in_range (from until m : Z) : bool := (from <=? m) && (m <? until).

(* end of the part of [from, until) that irrelevant_changes_range takes note of (fix c71c7f1): the
   whole range when it starts at or below ack_base, otherwise at most up to ack_base + 255 *)
Definition icr_until (p : proxy) (from until : Z) : Z :=
  if from <=? p_base p then until else Z.min until (p_base p + 256).

Lemma icr_until_le p from until : icr_until p from until <= until.
Proof. unfold icr_until. destruct (from <=? p_base p); lia. Qed.

Lemma icr_known p from until m :
  known_p (irrelevant_changes_range p from until) m
  = known_p p m || in_range from (icr_until p from until) m.
Proof.
  unfold irrelevant_changes_range, in_range, icr_until.
  destruct (Z.ltb_spec until from) as [Hneg|Hpos].
  - destruct (from <=? p_base p);
      destruct (Z.leb_spec from m); cbn [andb]; rewrite ?orb_false_r; try reflexivity;
      match goal with |- _ = _ || (m <? ?u) => destruct (Z.ltb_spec m u) end; try lia; now rewrite orb_false_r.
  - destruct (Z.leb_spec from (p_base p)) as [Hfb|Hfb].
    + destruct (Z.ltb_spec (p_base p) until) as [Hbu|Hbu].
      * rewrite advance_known. unfold known_p, should_ignore_change.
        cbn [p_base p_changes set_base set_changes]. rewrite memz_filter.
        destruct (memz m (p_changes p));
          destruct (Z.leb_spec from m), (Z.ltb_spec m until), (Z.ltb_spec m (p_base p)); cbn; try reflexivity; lia.
      * unfold known_p, should_ignore_change. cbn [p_base p_changes set_changes]. rewrite memz_filter.
        destruct (memz m (p_changes p));
          destruct (Z.leb_spec from m), (Z.ltb_spec m until), (Z.ltb_spec m (p_base p)); cbn; try reflexivity; lia.
    + unfold known_p, should_ignore_change. cbn [p_base p_changes set_changes].
      rewrite memz_ins_all, memz_iota.
      replace (from + (Z.min (until - 1) (p_base p + 255) - from + 1)) with (Z.min until (p_base p + 256)) by lia.
      destruct (m <? p_base p), (memz m (p_changes p)), ((from <=? m) && (m <? Z.min until (p_base p + 256))); reflexivity.
Qed.
(* what is taken note of is part of what was said *)
Lemma icr_known_sub p from until m :
  known_p (irrelevant_changes_range p from until) m = true -> known_p p m = true \/ in_range from until m = true.
Proof.
  rewrite icr_known. intros H. apply orb_true_iff in H as [H|H]; [now left|right].
  unfold in_range in *. apply andb_true_iff in H as [A B]. rewrite A. apply Z.ltb_lt in B.
  pose proof (icr_until_le p from until). apply Z.ltb_lt. lia.
Qed.

(* the code before fix c71c7f1 took note of the whole range ... *)
Lemma icr_old_known p from until m :
  known_p (irrelevant_changes_range_old p from until) m = known_p p m || in_range from until m.
Proof.
  unfold irrelevant_changes_range_old, in_range.
  destruct (Z.ltb_spec until from) as [Hneg|Hpos].
  - destruct (Z.leb_spec from m), (Z.ltb_spec m until); cbn; try lia; now rewrite orb_false_r.
  - destruct (Z.leb_spec from (p_base p)) as [Hfb|Hfb].
    + destruct (Z.ltb_spec (p_base p) until) as [Hbu|Hbu].
      * rewrite advance_known. unfold known_p, should_ignore_change.
        cbn [p_base p_changes set_base set_changes]. rewrite memz_filter.
        destruct (memz m (p_changes p));
          destruct (Z.leb_spec from m), (Z.ltb_spec m until), (Z.ltb_spec m (p_base p)); cbn; try reflexivity; lia.
      * unfold known_p, should_ignore_change. cbn [p_base p_changes set_changes]. rewrite memz_filter.
        destruct (memz m (p_changes p));
          destruct (Z.leb_spec from m), (Z.ltb_spec m until), (Z.ltb_spec m (p_base p)); cbn; try reflexivity; lia.
    + unfold known_p, should_ignore_change. cbn [p_base p_changes set_changes].
      rewrite memz_ins_all, memz_iota. replace (from + (until - from)) with until by lia.
      destruct (m <? p_base p), (memz m (p_changes p)), ((from <=? m) && (m <? until)); reflexivity.
Qed.
(* ... and the two agree exactly when the range starts at or below ack_base or ends within the
   256 numbers from it; with one entry of `changes` per number of the range the old code's cost was
   whatever the GAP claimed (C06) *)
Lemma icr_old_new p from until : from <= p_base p \/ until <= p_base p + 256 ->
  irrelevant_changes_range p from until = irrelevant_changes_range_old p from until.
Proof.
  intros H. unfold irrelevant_changes_range, irrelevant_changes_range_old.
  destruct (until <? from); [reflexivity|]. destruct (Z.leb_spec from (p_base p)); [reflexivity|].
  replace (Z.min (until - 1) (p_base p + 255) - from + 1) with (until - from) by lia. reflexivity.
Qed.
Lemma icr_old_differs :
  let p := proxy_new in
  known_p (irrelevant_changes_range_old p 3 1000) 500 = true
  /\ known_p (irrelevant_changes_range p 3 1000) 500 = false
  /\ known_p (irrelevant_changes_range p 3 1000) 256 = true
  /\ known_p (irrelevant_changes_range p 3 1000) 257 = false.
Proof. vm_compute. repeat split. Qed.

Lemma icr_pinv p from until : pinv p -> pinv (irrelevant_changes_range p from until).
Proof.
  intros [A B]. unfold irrelevant_changes_range.
  destruct (Z.ltb_spec until from); [split; assumption|].
  destruct (Z.leb_spec from (p_base p)).
  - destruct (Z.ltb_spec (p_base p) until).
    + apply advance_pinv. cbn. lia.
    + split; [exact A|]. cbn [p_base p_changes set_changes]. now rewrite memz_filter, B.
  - split; [exact A|]. cbn [p_base p_changes set_changes]. rewrite memz_ins_all, B, memz_iota.
    destruct (Z.leb_spec from (p_base p)); [lia|reflexivity].
Qed.
Lemma icr_base p from until : p_base p <= p_base (irrelevant_changes_range p from until).
Proof.
  unfold irrelevant_changes_range. destruct (until <? from); [lia|].
  destruct (from <=? p_base p); [|cbn; lia].
  destruct (Z.ltb_spec (p_base p) until); [|cbn; lia].
  etransitivity; [|apply advance_base]. cbn. lia.
Qed.
(* a range starting at or below the base moves the base to its end *)
Lemma icr_base_until p from until : from <= p_base p -> from <= until ->
  until <= p_base (irrelevant_changes_range p from until).
Proof.
  intros H1 H2. unfold irrelevant_changes_range.
  destruct (Z.ltb_spec until from); [lia|]. destruct (Z.leb_spec from (p_base p)); [|lia].
  destruct (Z.ltb_spec (p_base p) until); [|cbn; lia].
  etransitivity; [|apply advance_base]. cbn. lia.
Qed.
Lemma icr_hb p from until : p_hb (irrelevant_changes_range p from until) = p_hb p.
Proof.
  unfold irrelevant_changes_range. destruct (until <? from); [reflexivity|].
  destruct (from <=? p_base p); [|reflexivity]. destruct (p_base p <? until); reflexivity.
Qed.
Lemma icr_an p from until : p_an (irrelevant_changes_range p from until) = p_an p.
Proof.
  unfold irrelevant_changes_range. destruct (until <? from); [reflexivity|].
  destruct (from <=? p_base p); [|reflexivity]. destruct (p_base p <? until); reflexivity.
Qed.

(* irrelevant_changes_up_to: afterwards first <= ack_base *)
Lemma up_to_first p first : pinv p -> first <= p_base (irrelevant_changes_up_to p first).
Proof.
  intros [A _]. unfold irrelevant_changes_up_to.
  destruct (Z.le_gt_cases 0 first).
  - apply icr_base_until; lia.
  - pose proof (icr_base p 0 first). lia.
Qed.

(* ---------------------------------------------------------------------------------------- *)
(* missing_seqnums *)
Lemma missing_in p first last s : In s (missing_seqnums p first last) ->
  first <= s <= last /\ p_base p <= s /\ memz s (p_changes p) = false.
Proof.
  unfold missing_seqnums. destruct (Z.ltb_spec last first); [intros []|].
  rewrite filter_In, in_iota. intros [A B]. apply negb_true_iff in B.
  split; [|split; [lia|exact B]]. lia.
Qed.
Lemma missing_unknown p first last s : In s (missing_seqnums p first last) -> known_p p s = false.
Proof.
  intros H. apply missing_in in H as (_ & A & B). unfold known_p, should_ignore_change.
  rewrite B. destruct (Z.ltb_spec s (p_base p)); [lia|reflexivity].
Qed.
Lemma missing_incr p first last : incr_from (p_base p) (missing_seqnums p first last) = true.
Proof.
  unfold missing_seqnums. destruct (last <? first); [reflexivity|].
  apply incr_from_filter. apply (incr_from_weaken _ (Z.max first (p_base p))); [lia|apply incr_from_iota].
Qed.
Lemma missing_head p first last : pinv p -> first <= p_base p -> p_base p <= last ->
  exists l, missing_seqnums p first last = p_base p :: l.
Proof.
  intros [A B] H1 H2. unfold missing_seqnums. destruct (Z.ltb_spec last first); [lia|].
  rewrite Z.max_r by lia.
  destruct (Z.to_nat (last - p_base p + 1)) as [|n] eqn:E; [lia|].
  cbn [iota F.iota filter]. rewrite B. cbn. eexists. reflexivity.
Qed.
Lemma missing_nil_base p first last : pinv p -> first <= p_base p ->
  missing_seqnums p first last = [] -> last < p_base p.
Proof.
  intros Hp H1 E. destruct (Z.lt_ge_cases last (p_base p)) as [|H2]; [assumption|].
  destruct (missing_head p first last Hp H1 H2) as (l & El). congruence.
Qed.

(* ---------------------------------------------------------------------------------------- *)
(* from_base_and_set on an increasing set whose elements are >= base >= 1 *)
Lemma fbs_spec base set :
  1 <= base -> incr_from base set = true ->
  exists n m, from_base_and_set base set = (base, n, m)
    /\ 0 <= n <= 256 /\ incr_from base m = true
    /\ (forall x, In x m -> In x set /\ x < base + n)
    /\ (forall x, In x set -> x < base + 256 -> In x m)
    /\ (set = [] -> m = []).
Proof.
  intros Hb Hi. unfold from_base_and_set. destruct set as [|start rest] eqn:Es.
  - exists 0, []. split; [reflexivity|]. split; [lia|]. split; [reflexivity|].
    split; [intros x []|]. split; [intros x []|]. reflexivity.
  - rewrite <- Es in *.
    assert (Hs : base <= start). { apply (incr_from_ge set base); [exact Hi|subst; now left]. }
    destruct (Z.ltb_spec start base); [lia|]. destruct (Z.ltb_spec base 1); [lia|].
    assert (Hl : base <= last set start).
    { apply (incr_from_ge set base); [exact Hi|]. apply last_in. subst; congruence. }
    set (en := if 256 <=? last set start - base then base + 255 else last set start).
    assert (He : en = Z.min (last set start) (base + 255)).
    { subst en. destruct (Z.leb_spec 256 (last set start - base)); lia. }
    exists (en - base + 1), (filter (fun s => (base <=? s) && (s <=? en)) set).
    split; [reflexivity|]. split; [lia|]. split; [now apply incr_from_filter|].
    split; [|split].
    + intros x Hx. apply filter_In in Hx as [A B]. apply andb_true_iff in B as [_ B].
      apply Z.leb_le in B. split; [exact A|lia].
    + intros x Hx Hlt. apply filter_In. split; [exact Hx|].
      assert (base <= x) by (apply (incr_from_ge set base); assumption).
      apply andb_true_iff. split; [apply Z.leb_le; lia|apply Z.leb_le].
      (* x <= last set start because the set is increasing *)
      assert (Hxl : x <= last set start) by (apply (incr_from_le_last set base); assumption).
      lia.
    + intros; congruence.
Qed.
