(* C03 — what the oracle says, as propositions (oracle soundness), and the property statements for the
   model obtained from run_ok. *)
From Coq Require Import List ZArith Lia Bool.
From RD Require Import C03.Model C03.Proxy C03.Oracle C03.Sim C03.Proofs.
Import ListNotations.
Open Scope Z_scope.

(* ---------------------------------------------------------------------------------------- *)
(* reading of one reply against the history summary [s] of its writer.
   [known s m] (DECLARED) = m was received (its cache change was observed) or the writer declared it
   unavailable (effective HEARTBEAT first_sn above it, valid GAP range or bitmap).
   [recorded s m] (RECORDED) = the same, except that a GAP range that started above the reader's ack
   base counts only up to that ack base + 256 (what irrelevant_changes_range takes note of since
   repo fix c71c7f1).  recorded s m -> known s m (recorded_sub_known). *)
Definition in_advertised (s : wspec) (x : Z) : Prop :=
  exists first last, s_adv s = Some (first, last) /\ first <= x <= last.

Definition ReplyP (w : Z) (s : wspec) (r : reply) : Prop :=
  match r with
  | AckNack w' base n bits c =>
      w' = w
      /\ (forall m, 1 <= m < base -> known s m = true)              (* base truthful *)
      /\ 0 <= n <= 256
      /\ (forall x, In x bits -> base <= x < base + n /\ recorded s x = false /\ in_advertised s x)
  | NackFrag w' sn base n bits c =>
      w' = w /\ recorded s sn = false /\ in_advertised s sn /\ In sn (s_frag s)
      /\ 1 <= base /\ 0 <= n <= 256 /\ (forall x, In x bits -> base <= x < base + n) /\ In base bits
  end.

Definition count_of (r : reply) : Z :=
  match r with AckNack _ _ _ _ c => c | NackFrag _ _ _ _ _ c => c end.
Definition base_of (r : reply) : list Z :=
  match r with AckNack _ b _ _ _ => [b] | NackFrag _ _ _ _ _ _ => [] end.
Definition writer_of (r : reply) : Z :=
  match r with AckNack w _ _ _ _ => w | NackFrag w _ _ _ _ _ => w end.

(* strictly increasing, every element above the optional bound *)
Fixpoint incr_opt (lc : option Z) (cs : list Z) : Prop :=
  match cs with
  | [] => True
  | c :: cs' => match lc with Some l => l < c | None => True end /\ incr_opt (Some c) cs'
  end.
(* non-decreasing, every element at least the bound *)
Fixpoint mono_from (b : Z) (bs : list Z) : Prop :=
  match bs with
  | [] => True
  | x :: bs' => b <= x /\ mono_from x bs'
  end.

Lemma incr_from_in lo l x : incr_from lo l = true -> In x l -> lo <= x.
Proof. apply incr_from_ge. Qed.

Lemma same_known_fields s s' :
  s_lo s' = s_lo s -> s_rng s' = s_rng s -> s_pts s' = s_pts s -> forall m, known s' m = known s m.
Proof. intros A B C m. unfold known. now rewrite A, B, C. Qed.
Lemma same_recorded_fields s s' :
  s_lo s' = s_lo s -> s_rng s' = s_rng s -> s_pts s' = s_pts s -> forall m, recorded s' m = recorded s m.
Proof. intros A B C m. rewrite !recorded_unfold. now rewrite A, B, C. Qed.

Lemma reply_ok_sound w s r s' :
  reply_ok w s r = Some s' ->
  ReplyP w s r
  /\ (match s_lastcount s with Some l => l < count_of r | None => True end)
  /\ s_lastcount s' = Some (count_of r)
  /\ (forall b, In b (base_of r) -> s_lastbase s <= b)
  /\ s_lastbase s' = match base_of r with b :: _ => b | [] => s_lastbase s end
  /\ writer_of r = w
  /\ s_lo s' = s_lo s /\ s_rng s' = s_rng s /\ s_pts s' = s_pts s /\ s_adv s' = s_adv s
  /\ s_frag s' = s_frag s /\ s_hbmax s' = s_hbmax s.
Proof.
  destruct r as [w' base n bits c|w' sn base n bits c]; cbn [reply_ok].
  - destruct (lowest_unknown s 1) as [lu|] eqn:Elu; cbn [andb].
    2:{ rewrite andb_false_r. cbn [andb]. discriminate. }
    match goal with |- (if ?c then _ else _) = _ -> _ => destruct c eqn:E end; [|discriminate].
    intros H. inversion H; subst s'. clear H. cbn [s_lastcount s_lastbase s_lo s_rng s_pts s_adv s_frag s_hbmax base_of count_of writer_of].
    repeat (apply andb_true_iff in E as [E ?]).
    apply Z.eqb_eq in E. apply Z.leb_le in H6, H5, H4, H3.
    apply lowest_unknown_sound in Elu as (L1 & L2 & L3).
    split; [|split; [|split; [reflexivity|split; [|repeat split; try reflexivity; exact E]]]].
    + split; [exact E|]. split; [intros m Hm; apply L3; lia|]. split; [lia|].
      intros x Hx. rewrite forallb_forall in H1. specialize (H1 x Hx). apply andb_true_iff in H1 as [A B].
      apply Z.ltb_lt in A. apply negb_true_iff in B. pose proof (incr_from_in _ _ _ H2 Hx).
      split; [lia|]. split; [exact B|]. unfold in_advertised.
      destruct (s_adv s) as [[f l]|]; [|destruct bits; [destruct Hx|discriminate]].
      exists f, l. split; [reflexivity|]. rewrite forallb_forall in H0. specialize (H0 x Hx).
      apply andb_true_iff in H0 as [A1 A2]. apply Z.leb_le in A1, A2. lia.
    + unfold count_okb in H. destruct (s_lastcount s); [now apply Z.ltb_lt|exact I].
    + intros b [<-|[]]. lia.
  - match goal with |- (if ?c then _ else _) = _ -> _ => destruct c eqn:E end; [|discriminate].
    intros H. inversion H; subst s'. clear H. cbn [s_lastcount s_lastbase s_lo s_rng s_pts s_adv s_frag s_hbmax base_of count_of writer_of].
    repeat (apply andb_true_iff in E as [E ?]).
    apply Z.eqb_eq in E. apply negb_true_iff in H8. apply memz_true in H6.
    apply Z.leb_le in H5, H4, H3.
    split; [|split; [|split; [reflexivity|split; [|repeat split; try reflexivity; exact E]]]].
    + split; [exact E|]. split; [exact H8|]. split.
      { unfold in_advertised. destruct (s_adv s) as [[f l]|]; [|discriminate].
        exists f, l. split; [reflexivity|]. apply andb_true_iff in H7 as [A1 A2]. apply Z.leb_le in A1, A2. lia. }
      split; [exact H6|]. split; [lia|]. split; [lia|]. split.
      { intros x Hx. rewrite forallb_forall in H1. specialize (H1 x Hx). apply Z.ltb_lt in H1.
        pose proof (incr_from_in _ _ _ H2 Hx). lia. }
      destruct bits as [|b0 t]; [discriminate|]. apply Z.eqb_eq in H0. subst. now left.
    + unfold count_okb in H. destruct (s_lastcount s); [now apply Z.ltb_lt|exact I].
    + intros b [].
Qed.

(* a reply list judged by replies_ok *)
Lemma replies_ok_sound w : forall rs s s',
  replies_ok w s rs = Some s' ->
  (forall r, In r rs -> ReplyP w s r /\ writer_of r = w)
  /\ (forall rest, incr_opt (s_lastcount s') rest -> incr_opt (s_lastcount s) (map count_of rs ++ rest))
  /\ (forall rest, mono_from (s_lastbase s') rest -> mono_from (s_lastbase s) (flat_map base_of rs ++ rest))
  /\ s_lo s' = s_lo s /\ s_rng s' = s_rng s /\ s_pts s' = s_pts s /\ s_adv s' = s_adv s
  /\ s_frag s' = s_frag s /\ s_hbmax s' = s_hbmax s.
Proof.
  induction rs as [|r rs IH]; intros s s' H; cbn [replies_ok] in H.
  - inversion H; subst. split; [intros r0 []|]. split; [intros rest Hr; exact Hr|].
    split; [intros rest Hr; exact Hr|]. repeat split.
  - destruct (reply_ok w s r) as [s1|] eqn:E; [|discriminate].
    apply reply_ok_sound in E as (P & C1 & C2 & B1 & B2 & W & F1 & F2 & F3 & F4 & F5 & F6).
    destruct (IH s1 s' H) as (Q & QC & QB & G1 & G2 & G3 & G4 & G5 & G6).
    split; [|split; [|split]].
    + intros r' [<-|Hr]; [split; assumption|]. destruct (Q r' Hr) as [A B]. split; [|exact B].
      (* the knowledge part of the summary is the same for every reply of the list *)
      pose proof (same_known_fields s s1 F1 F2 F3) as Hk.
      pose proof (same_recorded_fields s s1 F1 F2 F3) as Hr'.
      destruct r' as [w' base n bits c|w' sn base n bits c]; cbn [ReplyP] in *.
      * destruct A as (A1 & A2 & A3 & A4). split; [exact A1|]. split; [intros m Hm; rewrite <- Hk; now apply A2|].
        split; [exact A3|]. intros x Hx. destruct (A4 x Hx) as (X1 & X2 & X3). split; [exact X1|].
        split; [now rewrite <- Hr'|]. unfold in_advertised in *. now rewrite <- F4.
      * destruct A as (A1 & A2 & A3 & A4 & A5). split; [exact A1|]. split; [now rewrite <- Hr'|].
        split; [unfold in_advertised in *; now rewrite <- F4|]. split; [now rewrite <- F5|exact A5].
    + intros rest Hrest. cbn [map app incr_opt]. split; [exact C1|]. rewrite <- C2. now apply QC.
    + intros rest Hrest. cbn [flat_map]. rewrite <- app_assoc. specialize (QB rest Hrest).
      destruct (base_of r) as [|b t] eqn:Eb.
      * cbn [app]. rewrite B2 in QB. exact QB.
      * assert (Ht : t = []) by (destruct r; cbn [base_of] in Eb; [now inversion Eb|discriminate]). subst t.
        cbn [app mono_from]. split; [apply B1; now left|]. rewrite B2 in QB. exact QB.
    + repeat split; congruence.
Qed.

(* ---------------------------------------------------------------------------------------- *)
(* reading of one step *)

(* "Whenever the advertised range contains a missing sample, the lowest one is requested": if the
   range of the HEARTBEAT contains a number that is not DECLARED — m1 being the lowest such number at
   or above max(first, 1) — then some number between m0, the lowest number at or above max(first, 1)
   that is not RECORDED, and m1 is requested (m0 <= m1).  Which number of [m0, m1] it is depends on
   how much of a GAP range that started above its ack base the reader remembers: m0 for the code as
   it is, m1 for a reader that remembers everything it was told. *)
Definition LowestReqP (s1 : wspec) (first last : Z) (rs : list reply) : Prop :=
  forall m0 m1, Z.max first 1 <= m1 <= last -> known s1 m1 = false ->
    (forall m, Z.max first 1 <= m < m1 -> known s1 m = true) ->
    Z.max first 1 <= m0 -> recorded s1 m0 = false ->
    (forall m, Z.max first 1 <= m < m0 -> recorded s1 m = true) ->
    m0 <= m1 /\ exists r, m0 <= r <= m1 /\ requested r rs = true.

Definition StepP (S : sstate) (o : op) (so : sobs) (S' : sstate) : Prop :=
  let w := op_writer o in
  match S w with
  | None => so_replies so = [] /\ so_adds so = [] /\ S' = S
  | Some s =>
      let s1 := add_pts (spec_input s o) (map snd (so_adds so)) in
      (forall r, In r (so_replies so) -> ReplyP w s1 r /\ writer_of r = w)
      /\ (effective_hb s o = true ->
          match o with
          | Hb _ first last _ _ => LowestReqP s1 first last (so_replies so)
          | _ => True
          end)
      /\ adds_okb o (so_adds so) = true
      /\ exists s2, S' = supd S w (set_sbase s2 (so_base so)) /\ replies_ok w s1 (so_replies so) = Some s2
  end.

Lemma step_ok_sound S o so S' : step_ok S o so = Some S' -> StepP S o so S'.
Proof.
  unfold step_ok, StepP. destruct (S (op_writer o)) as [s|] eqn:Es.
  - destruct (adds_okb o (so_adds so)) eqn:Ea; cbn [negb]; [|discriminate].
    destruct (replies_ok (op_writer o) _ (so_replies so)) as [s2|] eqn:Er; [|discriminate].
    destruct (effective_hb s o && negb (lowest_requested_ok _ o (so_replies so))) eqn:El; [discriminate|].
    intros H. inversion H; subst S'. clear H.
    split; [apply (replies_ok_sound _ _ _ _ Er)|]. split; [|split; [reflexivity|]].
    + intros He. rewrite He in El. cbn [andb] in El. apply negb_false_iff in El.
      destruct o as [| |w first last count final|]; try exact I.
      exact (lowest_requested_ok_spec _ _ _ _ _ _ _ El).
    + exists s2. split; reflexivity.
  - destruct (so_replies so), (so_adds so); try discriminate. intros H; inversion H; auto.
Qed.

(* the summaries before every step of a checked run *)
Fixpoint states (S : sstate) (ops : list op) (l : list sobs) : list sstate :=
  match ops, l with
  | o :: ops', so :: l' =>
      S :: match step_ok S o so with Some S' => states S' ops' l' | None => [] end
  | _, _ => []
  end.

Lemma chk_steps : forall ops l S i o so Si,
  chk S ops l = true -> nth_error ops i = Some o -> nth_error l i = Some so ->
  nth_error (states S ops l) i = Some Si -> exists S', step_ok Si o so = Some S'.
Proof.
  induction ops as [|o0 ops IH]; intros l S i o so Si Hc Ho Hso Hs; [destruct i; discriminate|].
  destruct l as [|so0 l]; [destruct i; discriminate|]. cbn [chk states] in *.
  destruct (step_ok S o0 so0) as [S'|] eqn:E; [|discriminate].
  destruct i as [|i]; cbn [nth_error] in *.
  - inversion Ho; inversion Hso; inversion Hs; subst. eauto.
  - eapply IH; eauto.
Qed.

(* all replies of a run addressed to writer w, in wire order *)
Definition replies_to (w : Z) (l : list sobs) : list reply :=
  filter (fun r => writer_of r =? w) (flat_map so_replies l).

Lemma filter_all {A} (f : A -> bool) l : (forall x, In x l -> f x = true) -> filter f l = l.
Proof.
  induction l as [|x l IH]; intros H; [reflexivity|]. cbn [filter]. rewrite (H x (or_introl eq_refl)).
  f_equal. apply IH. intros y Hy. apply H. now right.
Qed.
Lemma filter_none {A} (f : A -> bool) l : (forall x, In x l -> f x = false) -> filter f l = [].
Proof.
  induction l as [|x l IH]; intros H; [reflexivity|]. cbn [filter]. rewrite (H x (or_introl eq_refl)).
  apply IH. intros y Hy. apply H. now right.
Qed.

Lemma spec_input_last s o l :
  s_lastcount (add_pts (spec_input s o) l) = s_lastcount s
  /\ s_lastbase (add_pts (spec_input s o) l) = s_lastbase s.
Proof.
  destruct o; cbn [spec_input add_pts s_lastcount s_lastbase]; try (split; reflexivity).
  - destruct ((first <=? MAX_SN) && (last <=? MAX_SN) && (s_hbmax s <? count)); split; reflexivity.
  - destruct ((start <=? MAX_SN) && (base <=? MAX_SN) && (1 <=? start) && (1 <=? base)); split; reflexivity.
Qed.

Lemma chk_order : forall ops l S,
  chk S ops l = true -> forall w,
  match S w with
  | Some s => incr_opt (s_lastcount s) (map count_of (replies_to w l))
              /\ mono_from (s_lastbase s) (flat_map base_of (replies_to w l))
  | None => replies_to w l = []
  end.
Proof.
  induction ops as [|o ops IH]; intros l S Hc w; destruct l as [|so l]; try discriminate.
  - destruct (S w); cbn; auto.
  - cbn [chk] in Hc. destruct (step_ok S o so) as [S'|] eqn:E; [|discriminate].
    specialize (IH l S' Hc w). apply step_ok_sound in E. unfold StepP in E.
    unfold replies_to in *. cbn [flat_map]. rewrite filter_app.
    destruct (S (op_writer o)) as [s|] eqn:Es.
    + destruct E as (HR & _ & _ & s2 & -> & Er).
      destruct (replies_ok_sound _ _ _ _ Er) as (_ & QC & QB & F1 & F2 & F3 & F4 & F5 & F6).
      unfold supd in IH. destruct (Z.eqb_spec w (op_writer o)) as [->|N].
      * rewrite Es. rewrite filter_all by (intros r Hr; apply Z.eqb_eq; now apply HR).
        destruct IH as [I1 I2]. rewrite map_app, flat_map_app. split.
        -- apply QC in I1. now rewrite (proj1 (spec_input_last s o _)) in I1.
        -- apply QB in I2. now rewrite (proj2 (spec_input_last s o _)) in I2.
      * rewrite filter_none; [exact IH|]. intros r Hr. apply Z.eqb_neq. destruct (HR r Hr) as [_ ->]. congruence.
    + destruct E as (E1 & _ & ->). rewrite E1. exact IH.
Qed.

(* ---------------------------------------------------------------------------------------- *)
(* the property statements for the model *)
Definition L (c : case) : list sobs := mrun true (init (c_matched c)) (c_ops c).
Definition St (c : case) : list sstate := states (sinit (c_matched c)) (c_ops c) (L c).

(* at step i the submessage o was handled, so was observed, and s1 is the history summary of o's
   writer including o itself and the cache changes o caused *)
Definition summary_at (c : case) (i : nat) (o : op) (so : sobs) (s s1 : wspec) : Prop :=
  exists Si, nth_error (c_ops c) i = Some o /\ nth_error (L c) i = Some so
    /\ nth_error (St c) i = Some Si /\ Si (op_writer o) = Some s
    /\ s1 = add_pts (spec_input s o) (map snd (so_adds so)).

Lemma run_chk c : wf_case c = true -> chk (sinit (c_matched c)) (c_ops c) (L c) = true.
Proof.
  intros Hwf. pose proof (run_ok c) as H. unfold ok, run, run_with in H. rewrite Hwf in H. exact H.
Qed.

Lemma step_at c i o so s s1 : wf_case c = true -> summary_at c i o so s s1 ->
  exists Si S', Si (op_writer o) = Some s /\ StepP Si o so S'.
Proof.
  intros Hwf (Si & A & B & C & D & E).
  destruct (chk_steps _ _ _ _ _ _ _ (run_chk c Hwf) A B C) as (S' & Hs).
  exists Si, S'. split; [exact D|now apply step_ok_sound].
Qed.

Theorem base_truthful c i o so s s1 : wf_case c = true -> summary_at c i o so s s1 ->
  forall w base n bits cnt, In (AckNack w base n bits cnt) (so_replies so) ->
  w = op_writer o /\ forall m, 1 <= m < base -> known s1 m = true.
Proof.
  intros Hwf Hs w base n bits cnt Hin. destruct Hs as (Si0 & A & B & C & D & E).
  destruct (step_at c i o so s s1 Hwf (ex_intro _ Si0 (conj A (conj B (conj C (conj D E)))))) as (Si & S' & Hsi & HP).
  unfold StepP in HP. rewrite Hsi in HP. destruct HP as (HR & _). rewrite <- E in HR.
  destruct (HR _ Hin) as [(P1 & P2 & _) _]. split; [exact P1|exact P2].
Qed.

Theorem bits_missing c i o so s s1 : wf_case c = true -> summary_at c i o so s s1 ->
  forall w base n bits cnt, In (AckNack w base n bits cnt) (so_replies so) ->
  0 <= n <= 256 /\ forall x, In x bits -> base <= x < base + n /\ recorded s1 x = false /\ in_advertised s1 x.
Proof.
  intros Hwf Hs w base n bits cnt Hin. destruct Hs as (Si0 & A & B & C & D & E).
  destruct (step_at c i o so s s1 Hwf (ex_intro _ Si0 (conj A (conj B (conj C (conj D E)))))) as (Si & S' & Hsi & HP).
  unfold StepP in HP. rewrite Hsi in HP. destruct HP as (HR & _). rewrite <- E in HR.
  destruct (HR _ Hin) as [(_ & _ & P3 & P4) _]. split; [exact P3|exact P4].
Qed.

Theorem lowest_requested c i w first last count final so s s1 : wf_case c = true ->
  summary_at c i (Hb w first last count final) so s s1 ->
  effective_hb s (Hb w first last count final) = true ->
  forall m0 m1, Z.max first 1 <= m1 <= last -> known s1 m1 = false ->
    (forall m, Z.max first 1 <= m < m1 -> known s1 m = true) ->
    Z.max first 1 <= m0 -> recorded s1 m0 = false ->
    (forall m, Z.max first 1 <= m < m0 -> recorded s1 m = true) ->
    m0 <= m1 /\ exists r, m0 <= r <= m1 /\ requested r (so_replies so) = true.
Proof.
  intros Hwf Hs He. destruct Hs as (Si0 & A & B & C & D & E).
  destruct (step_at c i _ so s s1 Hwf (ex_intro _ Si0 (conj A (conj B (conj C (conj D E)))))) as (Si & S' & Hsi & HP).
  unfold StepP in HP. rewrite Hsi in HP. destruct HP as (_ & HL & _). rewrite <- E in HL. exact (HL He).
Qed.

(* when no GAP of the history was cut below it — RECORDED and DECLARED agree below the lowest
   not-declared number m1 of the range — m1 itself is requested *)
Corollary lowest_requested_exact c i w first last count final so s s1 : wf_case c = true ->
  summary_at c i (Hb w first last count final) so s s1 ->
  effective_hb s (Hb w first last count final) = true ->
  forall m1, Z.max first 1 <= m1 <= last -> known s1 m1 = false ->
    (forall m, Z.max first 1 <= m < m1 -> known s1 m = true) ->
    (forall m, Z.max first 1 <= m < m1 -> recorded s1 m = known s1 m) ->
    requested m1 (so_replies so) = true.
Proof.
  intros Hwf Hs He m1 R1 K1 B1 Hag.
  assert (K0 : recorded s1 m1 = false).
  { destruct (recorded s1 m1) eqn:Er; [|reflexivity]. apply recorded_sub_known in Er. congruence. }
  assert (B0 : forall m, Z.max first 1 <= m < m1 -> recorded s1 m = true).
  { intros m Hm. rewrite Hag by exact Hm. now apply B1. }
  destruct (lowest_requested c i w first last count final so s s1 Hwf Hs He m1 m1 R1 K1 B1 (proj1 R1) K0 B0)
    as (_ & r & Hr & Hreq).
  assert (r = m1) by lia. now subst r.
Qed.

Theorem nackfrag_sound c i o so s s1 : wf_case c = true -> summary_at c i o so s s1 ->
  forall w sn base n bits cnt, In (NackFrag w sn base n bits cnt) (so_replies so) ->
  w = op_writer o /\ recorded s1 sn = false /\ in_advertised s1 sn /\ In sn (s_frag s1)
  /\ 1 <= base /\ 0 <= n <= 256 /\ (forall x, In x bits -> base <= x < base + n) /\ In base bits.
Proof.
  intros Hwf Hs w sn base n bits cnt Hin. destruct Hs as (Si0 & A & B & C & D & E).
  destruct (step_at c i o so s s1 Hwf (ex_intro _ Si0 (conj A (conj B (conj C (conj D E)))))) as (Si & S' & Hsi & HP).
  unfold StepP in HP. rewrite Hsi in HP. destruct HP as (HR & _). rewrite <- E in HR.
  destruct (HR _ Hin) as [P _]. exact P.
Qed.

Theorem base_monotone c w : wf_case c = true -> mono_from 1 (flat_map base_of (replies_to w (L c))).
Proof.
  intros Hwf. pose proof (chk_order _ _ _ (run_chk c Hwf) w) as H. unfold sinit in H.
  destruct (memz w (c_matched c)); [exact (proj2 H)|]. rewrite H. exact I.
Qed.

Theorem count_increasing c w : wf_case c = true -> incr_opt None (map count_of (replies_to w (L c))).
Proof.
  intros Hwf. pose proof (chk_order _ _ _ (run_chk c Hwf) w) as H. unfold sinit in H.
  destruct (memz w (c_matched c)); [exact (proj1 H)|]. rewrite H. exact I.
Qed.

(* NACKFRAG construction, at the level of the model state: the fragment set is the assembler's
   missing-fragment report (the fragment numbers whose bit is clear in the assembly buffer's
   bitmap, C05) cut to the 256 numbers starting at the lowest one. *)
Lemma nackfrags_exact st w partial : forall cnt r,
  In r (fst (nackfrags st w partial cnt)) ->
  exists sn b n m c f0 rest, r = NackFrag w sn b n m c /\ In sn partial
    /\ missing_frags st w sn = f0 :: rest /\ b = f0 /\ 0 <= n <= 256
    /\ (forall k, In k m <-> In k (missing_frags st w sn) /\ k < f0 + 256).
Proof.
  induction partial as [|sn0 restp IH]; intros cnt r Hin; [destruct Hin|].
  cbn [nackfrags] in Hin. destruct (missing_frags st w sn0) as [|f0 fl] eqn:Em.
  - destruct (IH _ _ Hin) as (sn & b & n & m & c & f & rs & A & B & C).
    exists sn, b, n, m, c, f, rs. split; [exact A|]. split; [now right|exact C].
  - assert (Hinc : incr_from 1 (f0 :: fl) = true).
    { rewrite <- Em. unfold missing_frags. destruct (r_asm st w); [apply missing_frags_incr|reflexivity]. }
    assert (Hf0 : 1 <= f0). { apply (incr_from_ge _ 1 f0 Hinc). now left. }
    assert (Hinc0 : incr_from f0 (f0 :: fl) = true).
    { cbn [incr_from] in *. apply andb_true_iff in Hinc as [_ B]. rewrite B. now rewrite Z.leb_refl. }
    destruct (fbs_spec f0 (f0 :: fl) Hf0 Hinc0) as (n & m & E & Hn & Hmi & Hm1 & Hm2 & _).
    rewrite E in Hin. cbn [fst] in Hin. destruct Hin as [<-|Hin].
    + exists sn0, f0, n, m, cnt, f0, fl. split; [reflexivity|]. split; [now left|]. split; [exact Em|].
      split; [reflexivity|]. split; [exact Hn|]. intros k. rewrite Em. split.
      * intros Hk. destruct (Hm1 k Hk). split; [assumption|lia].
      * intros [Hk1 Hk2]. now apply Hm2.
    + destruct (IH _ _ Hin) as (sn & b & n' & m' & c & f & rs & A & B & C).
      exists sn, b, n', m', c, f, rs. split; [exact A|]. split; [now right|exact C].
Qed.

Theorem nackfrag_exact st w p first last count final r :
  In (OReply r) (snd (handle_heartbeat true st w p first last count final)) ->
  match r with
  | AckNack _ _ _ _ _ => True
  | NackFrag w' sn b n m c =>
      exists f0 rest, missing_frags st w sn = f0 :: rest /\ b = f0 /\ 0 <= n <= 256
        /\ (forall k, In k m <-> In k (missing_frags st w sn) /\ k < f0 + 256)
  end.
Proof.
  unfold handle_heartbeat. destruct (count <=? p_hb p); [intros []|].
  set (p2 := irrelevant_changes_up_to (set_hb p count) first).
  set (missing := missing_seqnums p2 first (Z.min last (p_base p2 + 255))).
  destruct (negb (match missing with [] => true | _ => false end) || negb final).
  - destruct (hb_sns st w p2 missing) as [[b n] m]. cbn [snd].
    intros [H|H]; [discriminate|]. apply in_app_or in H as [H|[H|[]]].
    + apply in_map_iff in H as (r' & Hr & Hin). inversion Hr; subst r'.
      destruct (nackfrags_exact _ _ _ _ _ Hin) as (sn & b' & n' & m' & c & f0 & rest & -> & _ & A & B & C & D).
      exists f0, rest. split; [exact A|]. split; [exact B|]. split; [exact C|exact D].
    + inversion H; subst. exact I.
  - cbn [snd]. intros [H|[]]. discriminate.
Qed.

(* the code before the fix: the count of the ACKNACK is lower than those of the NACKFRAGs sent
   before it (corpus case 0, replayed on the real code before the fix: commit) *)
Definition witness_count : case :=
  {| c_matched := [1];
     c_ops := [Frag 1 (F.Build_datafrag 1 1 1 20 8 [0; 1; 0; 0; 12; 0; 0; 0]) None; Hb 1 1 2 1 false] |}.
Lemma count_old_refuted : ok witness_count (run_old witness_count) = false.
Proof. vm_compute. reflexivity. Qed.
Lemma count_new_ok : ok witness_count (run witness_count) = true.
Proof. apply run_ok. Qed.

Lemma oracle_sound_run : forall ops l S, chk S ops l = true ->
  (forall i o so Si, nth_error ops i = Some o -> nth_error l i = Some so ->
     nth_error (states S ops l) i = Some Si -> exists S', StepP Si o so S')
  /\ forall w, match S w with
               | Some s => incr_opt (s_lastcount s) (map count_of (replies_to w l))
                           /\ mono_from (s_lastbase s) (flat_map base_of (replies_to w l))
               | None => replies_to w l = []
               end.
Proof.
  intros ops l S H. split.
  - intros i o so Si A B C. destruct (chk_steps ops l S i o so Si H A B C) as (S' & E).
    exists S'. now apply step_ok_sound.
  - exact (chk_order ops l S H).
Qed.

Lemma witness_nonvacuous :
  wf_case witness_count = true
  /\ nth_error (L witness_count) 1
     = Some {| so_replies := [NackFrag 1 1 2 2 [2; 3] 0; AckNack 1 1 2 [2] 1]; so_adds := [];
               so_base := 1; so_nch := 0; so_sum := 0 |}.
Proof. vm_compute. split; reflexivity. Qed.

(* ---------------------------------------------------------------------------------------- *)
(* DECLARED vs RECORDED (repo fix c71c7f1) *)

(* a number that was declared but is not recorded lies in the far part (ack base + 256 and above) of
   a GAP range that started above the ack base the reader had when the GAP arrived *)
Lemma declared_not_recorded_far s m : known s m = true -> recorded s m = false ->
  exists r, In r (s_rng s) /\ g_ackbase r < g_from r /\ g_from r <= m /\ g_ackbase r + 256 <= m < g_until r.
Proof.
  intros Hk Hr. rewrite recorded_unfold in Hr. apply known_cases in Hk.
  apply orb_false_iff in Hr as [Hr Hp]. apply orb_false_iff in Hr as [Hlo Hr].
  destruct Hk as [A|[(r & A & B)|A]].
  - apply Z.ltb_ge in Hlo. lia.
  - exists r. split; [exact A|].
    assert (Hc : (g_from r <=? m) && (m <? g_cut r) = false).
    { destruct ((g_from r <=? m) && (m <? g_cut r)) eqn:E; [|reflexivity].
      assert (existsb (fun r => (g_from r <=? m) && (m <? g_cut r)) (s_rng s) = true)
        by (apply existsb_exists; exists r; split; assumption). congruence. }
    apply andb_false_iff in Hc as [Hc|Hc]; [apply Z.leb_gt in Hc; lia|]. apply Z.ltb_ge in Hc.
    unfold g_cut in Hc. destruct (Z.leb_spec (g_from r) (g_ackbase r)); lia.
  - apply memz_false in Hp. contradiction.
Qed.

(* the model states behind the summaries of a run: at every step the reader state is related (Inv)
   to the summary state the oracle has at that step *)
Lemma run_states : forall ops st S i o Si, forallb op_okb ops = true -> Inv st S ->
  nth_error ops i = Some o -> nth_error (states S ops (mrun true st ops)) i = Some Si ->
  exists sti, Inv sti Si
    /\ nth_error (mrun true st ops) i = Some (mk_sobs (fst (step true sti o)) o (snd (step true sti o))).
Proof.
  induction ops as [|o0 ops IH]; intros st S i o Si Hok HI Ho Hs; [destruct i; discriminate|].
  cbn [forallb] in Hok. apply andb_true_iff in Hok as [H1 H2].
  cbn [mrun states] in *. destruct (step_sound st S o0 H1 HI) as (S' & E & HI'). rewrite E in Hs.
  destruct i as [|i]; cbn [nth_error] in *.
  - inversion Ho; inversion Hs; subst. exists st. split; [exact HI|reflexivity].
  - apply (IH _ S' i o Si H2 HI' Ho Hs).
Qed.

(* replies only come from HEARTBEATs *)
Lemma step_replies_hb st o r : In r (replies_of (snd (step true st o))) ->
  exists w first last count final p, o = Hb w first last count final
    /\ (first <=? MAX_SN) && (last <=? MAX_SN) = true /\ r_prox st w = Some p /\ p_hb p < count
    /\ In (OReply r) (snd (handle_heartbeat true st w p first last count final)).
Proof.
  assert (Hprd : forall st w sn ts pay, replies_of (snd (process_received_data st w sn ts pay)) = []).
  { intros st0 w sn ts pay. unfold process_received_data. destruct (r_prox st0 w); [|reflexivity].
    destruct (should_ignore_change p sn); reflexivity. }
  destruct o as [w sn ts pay|w df ts|w first last count final|w start base numbits bits]; cbn [step].
  - destruct (negb (sn <=? MAX_SN)); [intros []|]. rewrite Hprd. intros [].
  - destruct (negb ((F.df_sn df <=? MAX_SN) && (F.df_start df <=? MAX_FN))); [intros []|].
    destruct (negb (datafrag_deser_ok df)); [intros []|].
    destruct (F.new_datafrag _ df 0) as [|[fa' [bytes|]]]; cbn [snd]; try (intros H; cbn in H; tauto).
    rewrite Hprd. intros [].
  - destruct ((first <=? MAX_SN) && (last <=? MAX_SN)) eqn:Hacc; cbn [negb]; [|intros []].
    destruct (r_prox st w) as [p|] eqn:Ep; [|intros []].
    intros Hin. exists w, first, last, count, final, p. split; [reflexivity|]. split; [exact Hacc|]. split; [exact Ep|].
    assert (Hin' : In (OReply r) (snd (handle_heartbeat true st w p first last count final))).
    { unfold replies_of in Hin. apply in_flat_map in Hin as (x & Hx & Hr). destruct x; cbn in Hr; try tauto.
      destruct Hr as [<-|[]]. exact Hx. }
    split; [|exact Hin'].
    destruct (Z.lt_ge_cases (p_hb p) count) as [|Hge]; [assumption|exfalso].
    unfold handle_heartbeat in Hin'. destruct (Z.leb_spec count (p_hb p)); [destruct Hin'|lia].
  - destruct (negb ((start <=? MAX_SN) && (base <=? MAX_SN))); [intros []|].
    destruct (r_prox st w) as [p|]; [|intros []]. unfold handle_gap.
    destruct (start <=? 0); [intros []|]. destruct (base <=? 0); intros [].
Qed.

Lemma hb_no_adds st w p first last count final :
  adds_of (snd (handle_heartbeat true st w p first last count final)) = [].
Proof.
  unfold handle_heartbeat. destruct (count <=? p_hb p); [reflexivity|].
  destruct (negb _ || negb final); [|reflexivity].
  destruct (hb_sns st w _ _) as [[b n] m]. cbn [snd]. rewrite adds_of_mark, adds_of_app, adds_of_map. reflexivity.
Qed.

(* the model's ACKNACK base: everything below it is even RECORDED (taken note of by the reader), not
   only DECLARED.  This is about the model (it needs the reader state); the oracle that judges the
   implementation checks DECLARED only, as the property text asks. *)
Theorem base_recorded c i o so s s1 : wf_case c = true -> summary_at c i o so s s1 ->
  forall w base n bits cnt, In (AckNack w base n bits cnt) (so_replies so) ->
  forall m, m < base -> recorded s1 m = true.
Proof.
  intros Hwf (Si & A & B & C & D & E) w base n bits cnt Hin m Hm.
  destruct (run_states _ _ _ _ _ _ Hwf (Inv_init (c_matched c)) A C) as (sti & HI & Hso).
  unfold L in B. rewrite B in Hso. inversion Hso; subst so. clear Hso.
  cbn [so_replies mk_sobs] in Hin.
  destruct (step_replies_hb _ _ _ Hin) as (w0 & first & last & count & final & p & -> & Hacc & Hp & Hcnt & Hin').
  cbn [op_writer] in D.
  destruct (Inv_InvW sti Si w0 p s HI Hp D) as [Hrel _].
  destruct (hb_ack_base sti w0 p s first last count final Hrel Hacc Hcnt _ _ _ _ _ Hin') as [_ Hrec].
  subst s1. cbn [so_adds mk_sobs step]. rewrite Hacc, Hp. cbn [negb]. rewrite hb_no_adds. cbn [map]. rewrite add_pts_nil.
  now apply Hrec.
Qed.

(* which number of [m0, m1] the model requests: m0, the lowest number that is not RECORDED (its ack
   base), even when it was declared — in the far part of a GAP the reader cut.  This is about the
   model, i.e. the code as it is (it needs the reader state); the oracle accepts any number between
   m0 and the lowest not-declared one. *)
Theorem lowest_unrecorded_requested c i w first last count final so s s1 : wf_case c = true ->
  summary_at c i (Hb w first last count final) so s s1 ->
  effective_hb s (Hb w first last count final) = true ->
  forall m0, Z.max first 1 <= m0 <= last -> recorded s1 m0 = false ->
    (forall m, Z.max first 1 <= m < m0 -> recorded s1 m = true) ->
    requested m0 (so_replies so) = true.
Proof.
  intros Hwf (Si & A & B & C & D & E) He m0 Hr Hk Hb.
  destruct (run_states _ _ _ _ _ _ Hwf (Inv_init (c_matched c)) A C) as (sti & HI & Hso).
  unfold L in B. rewrite B in Hso. inversion Hso; subst so. clear Hso.
  cbn [op_writer] in D.
  cbn [effective_hb] in He. apply andb_true_iff in He as [Hacc Hc]. apply Z.ltb_lt in Hc.
  destruct (r_prox sti w) as [p|] eqn:Ep; [|apply (Inv_matched _ _ w HI) in Ep; congruence].
  destruct (Inv_InvW sti Si w p s HI Ep D) as [Hrel _].
  assert (Hcnt : p_hb p < count) by (destruct Hrel; lia).
  cbn [so_adds mk_sobs step] in E. rewrite Hacc in E. cbn [negb] in E.
  cbn [so_replies mk_sobs step]. rewrite Hacc. cbn [negb].
  rewrite hb_no_adds in E. cbn [map] in E. rewrite add_pts_nil in E. subst s1.
  destruct (hb_first_le p s first count Hrel) as [Hf1 Hb1].
  pose proof (hb_lu w p s first last count final Hrel Hacc Hcnt (Z.max first 1) ltac:(lia)) as E0.
  pose proof (lowest_unknown_char (rec_view _) _ m0 (proj1 Hr) Hk Hb) as E1.
  unfold lowest_unrecorded in E0. rewrite E1 in E0. injection E0 as ->.
  apply (hb_requests_base sti Si w p s first last count final HI Hrel Hcnt). lia.
Qed.

(* the behaviour made visible: writer 1, reader's ack base 1.
     step 0  GAP [5, 1000)            recorded only within the window: 5..256 (252 markers)
     step 1  HEARTBEAT(1..1200)       ACKNACK base 1, bits 1..4
     2..5    DATA 1..4                ack base 257
     step 6  HEARTBEAT(1..1200)       ACKNACK base 257, bits 257..512: the far part of the GAP is
                                      requested again (300 was declared, is not recorded)
     step 7  GAP [257, 1000)          the renewed GAP starts at the ack base: taken whole, base 1000
     step 8  HEARTBEAT(1..1200)       ACKNACK base 1000, bits 1000..1200 *)
Definition gw_pay : list Z := [0; 1; 0; 0; 7; 0; 0; 0].
Definition gw_case : case :=
  {| c_matched := [1];
     c_ops := [Gap 1 5 1000 0 []; Hb 1 1 1200 1 false;
               Data 1 1 None gw_pay; Data 1 2 None gw_pay; Data 1 3 None gw_pay; Data 1 4 None gw_pay;
               Hb 1 1 1200 2 false; Gap 1 257 1000 0 []; Hb 1 1 1200 3 false] |}.
Definition gw_acks (so : sobs) : list (Z * Z * Z * Z) :=   (* base, numBits, first and last bit *)
  flat_map (fun r => match r with
                     | AckNack _ b n bits _ => [(b, n, hd 0 bits, last bits 0)]
                     | NackFrag _ _ _ _ _ _ => []
                     end) (so_replies so).
Definition gw_summary (i : nat) : option wspec :=
  match nth_error (St gw_case) i with Some Si => Si 1 | None => None end.
Lemma gap_window_example :
  wf_case gw_case = true
  /\ map (fun so => (so_base so, so_nch so)) (L gw_case)
     = [(1, 252); (1, 252); (2, 253); (3, 254); (4, 255); (257, 256); (257, 256); (1000, 256); (1000, 256)]
  /\ map gw_acks (L gw_case)
     = [[]; [(1, 4, 1, 4)]; []; []; []; []; [(257, 256, 257, 512)]; []; [(1000, 201, 1000, 1200)]]
  /\ (* before step 7: 256 declared and recorded, 300 declared but not recorded, summary base 257 *)
     option_map (fun s => (known s 256, recorded s 256, known s 300, recorded s 300, s_base s)) (gw_summary 7)
     = Some (true, true, true, false, 257)
  /\ (* before step 8: the renewed GAP from the ack base is recorded whole *)
     option_map (fun s => (recorded s 300, recorded s 999, recorded s 1000, s_base s)) (gw_summary 8)
     = Some (true, true, false, 1000).
Proof. vm_compute. repeat split. Qed.

(* the tolerance of the "lowest missing one is requested" clause made visible: writer 1 sends
   GAP [5, 1000) while the reader's ack base is 1, then DATA 1..4, then HEARTBEAT(1..1200).  The
   lowest number that is not RECORDED is m0 = 257, the lowest that is not DECLARED is m1 = 1000.
     - the code as it is (the model) has base 257 and requests 257..512            accepted (m0)
     - a reader that remembers the GAP up to 512 has base 513, requests 513..768   accepted
     - a reader that remembers the whole GAP has base 1000, requests 1000..1200    accepted (m1)
     - a reader with base 1000 that requests 1001..1200 only                       rejected: it skips
       1000, which nobody ever sent or declared (every other clause of the oracle holds for it)
     - a reader with base 257 that requests 258..512 only                          accepted: 258 lies
       in [m0, m1], the clause cannot tell it from a reader that remembers one number more.  Where
       no GAP was cut (m0 = m1) the same behaviour is rejected: HEARTBEAT(1..1200) alone, ACKNACK
       base 1 with bits 2..256 (last two lines). *)
Definition tol_case : case :=
  {| c_matched := [1];
     c_ops := [Gap 1 5 1000 0 []; Data 1 1 None gw_pay; Data 1 2 None gw_pay; Data 1 3 None gw_pay;
               Data 1 4 None gw_pay; Hb 1 1 1200 1 false] |}.
Definition tol_so (adds : list (Z * Z)) (base : Z) (rs : list reply) : sobs :=
  {| so_replies := rs; so_adds := adds; so_base := base; so_nch := 0; so_sum := 0 |}.
(* observations of a reader whose ack base after DATA 4 is [base] and whose ACKNACK is (base, n, bits) *)
Definition tol_obs (base n : Z) (bits : list Z) : obs :=
  ORun [tol_so [] 1 []; tol_so [(1, 1)] 2 []; tol_so [(1, 2)] 3 []; tol_so [(1, 3)] 4 [];
        tol_so [(1, 4)] base []; tol_so [] base [AckNack 1 base n bits 0]].
Definition tol_case0 : case := {| c_matched := [1]; c_ops := [Hb 1 1 1200 1 false] |}.
Lemma tolerance_example :
  option_map so_replies (nth_error (L tol_case) 5) = Some [AckNack 1 257 256 (iota 257 256) 0]
  /\ ok tol_case (run tol_case) = true
  /\ ok tol_case (tol_obs 257 256 (iota 257 256)) = true
  /\ ok tol_case (tol_obs 513 256 (iota 513 256)) = true
  /\ ok tol_case (tol_obs 1000 201 (iota 1000 201)) = true
  /\ ok tol_case (tol_obs 1000 201 (iota 1001 200)) = false
  /\ ok tol_case (tol_obs 257 256 (iota 258 255)) = true
  /\ ok tol_case0 (ORun [tol_so [] 1 [AckNack 1 1 256 (iota 1 256) 0]]) = true
  /\ ok tol_case0 (ORun [tol_so [] 1 [AckNack 1 1 256 (iota 2 255) 0]]) = false.
Proof. vm_compute. repeat split. Qed.

(* ---------------------------------------------------------------------------------------- *)
(* the [OPanic] outcome of the fragment assembler (C05's debug-build arithmetic) is never produced:
   the repaired FragmentAssembler::new_datafrag validates before it indexes (C05_no_panic) *)
Lemma step_no_panic st S o : op_okb o = true -> Inv st S -> panicked (snd (step true st o)) = false.
Proof.
  intros Hok HI. destruct o as [w sn ts pay|w df ts|w first last count final|w start base numbits bits]; cbn [step].
  - destruct (negb (sn <=? MAX_SN)); [reflexivity|]. unfold process_received_data.
    destruct (r_prox st w); [|reflexivity]. destruct (should_ignore_change p sn); reflexivity.
  - cbn [op_okb] in Hok. apply andb_true_iff in Hok as [Hok _]. apply andb_true_iff in Hok as [Hok _].
    apply andb_true_iff in Hok as [_ Hdf]. apply FA.df_okb_spec in Hdf.
    destruct (negb ((F.df_sn df <=? MAX_SN) && (F.df_start df <=? MAX_FN))); [reflexivity|].
    destruct (negb (datafrag_deser_ok df)); [reflexivity|].
    set (fa := match r_asm st w with Some fa => fa | None => {| F.fa_fs := F.df_frag_size df; F.fa_bufs := [] |} end).
    assert (Hfa : FA.fa_inv fa).
    { subst fa. destruct (r_asm st w) as [fa|] eqn:Ea; [apply (proj1 (proj2 HI) w fa Ea)|].
      apply fresh_asm_ok. apply Hdf. }
    destruct (FA.new_datafrag_ok fa df 0 Hfa Hdf) as (fa' & r & E & _). rewrite E.
    destruct r as [bytes|]; [|reflexivity]. unfold process_received_data. cbn [set_asm r_prox].
    destruct (r_prox st w); [|reflexivity]. destruct (should_ignore_change p (F.df_sn df)); reflexivity.
  - destruct (negb ((first <=? MAX_SN) && (last <=? MAX_SN))); [reflexivity|].
    destruct (r_prox st w) as [p|]; [|reflexivity]. unfold handle_heartbeat.
    destruct (count <=? p_hb p); [reflexivity|].
    set (p2 := irrelevant_changes_up_to (set_hb p count) first).
    destruct (negb _ || negb final); [|reflexivity].
    destruct (hb_sns st w p2 _) as [[b n] m]. cbn [snd panicked existsb]. unfold panicked.
    rewrite existsb_app. cbn [existsb]. rewrite orb_false_r.
    induction (fst (nackfrags st w _ (p_an p2))) as [|r l IH]; [reflexivity|exact IH].
  - destruct (negb ((start <=? MAX_SN) && (base <=? MAX_SN))); [reflexivity|].
    destruct (r_prox st w) as [p|]; [|reflexivity]. unfold handle_gap.
    destruct (start <=? 0); [reflexivity|]. destruct (base <=? 0); reflexivity.
Qed.

Fixpoint never_panics (st : rstate) (ops : list op) : bool :=
  match ops with
  | [] => true
  | o :: ops' => negb (panicked (snd (step true st o))) && never_panics (fst (step true st o)) ops'
  end.

Lemma run_no_panic ops : forall st S, forallb op_okb ops = true -> Inv st S -> never_panics st ops = true.
Proof.
  induction ops as [|o ops IH]; intros st S Hok HI; [reflexivity|].
  cbn [forallb] in Hok. apply andb_true_iff in Hok as [H1 H2]. cbn [never_panics].
  rewrite (step_no_panic st S o H1 HI). cbn [negb andb].
  destruct (step_sound st S o H1 HI) as (S' & _ & HI'). now apply (IH _ S').
Qed.

Theorem no_panic c : wf_case c = true -> never_panics (init (c_matched c)) (c_ops c) = true.
Proof. intros Hwf. apply (run_no_panic _ _ (sinit (c_matched c)) Hwf (Inv_init _)). Qed.
