(* C03 — every step of the model satisfies the oracle (C03_model_ok), the oracle's reading as
   propositions (C03_oracle_sound), and the property theorems derived from both. *)
From Coq Require Import List ZArith Lia Bool.
From RD Require Import C03.Model C03.Proxy C03.Oracle C03.Sim.
Import ListNotations.
Open Scope Z_scope.

(* ---------------------------------------------------------------------------------------- *)
(* generic pieces of a step *)
Lemma step_ok_quiet S o s st' outs :
  S (op_writer o) = Some s -> replies_of outs = [] -> adds_okb o (adds_of outs) = true ->
  effective_hb s o = false ->
  step_ok S o (mk_sobs st' o outs)
  = Some (supd S (op_writer o)
            (set_sbase (add_pts (spec_input s o) (map snd (adds_of outs)))
                       (match r_prox st' (op_writer o) with Some p => p_base p | None => 0 end))).
Proof.
  intros Hs Hr Ha He. unfold step_ok, mk_sobs. cbn [so_replies so_adds so_base]. rewrite Hs, Hr, Ha, He.
  cbn [negb replies_ok andb]. reflexivity.
Qed.

Lemma step_ok_unmatched S o st' outs :
  S (op_writer o) = None -> replies_of outs = [] -> adds_of outs = [] ->
  step_ok S o (mk_sobs st' o outs) = Some S.
Proof. intros Hs Hr Ha. unfold step_ok, mk_sobs. cbn [so_replies so_adds]. now rewrite Hs, Hr, Ha. Qed.

Definition InvW (st : rstate) (w : Z) (p : proxy) (s : wspec) : Prop :=
  rel p s /\ forall sn, is_partial st w sn = true -> memz sn (s_frag s) = true.

Lemma Inv_InvW st S w p s : Inv st S -> r_prox st w = Some p -> S w = Some s -> InvW st w p s.
Proof.
  intros (I1 & _ & I3) Hp Hs. specialize (I1 w). rewrite Hp, Hs in I1. split; [exact (proj1 I1)|].
  intros sn. apply (I3 w s sn Hs).
Qed.
(* the summary carries the proxy's current ack base *)
Lemma Inv_base st S w p s : Inv st S -> r_prox st w = Some p -> S w = Some s -> s_base s = p_base p.
Proof. intros (I1 & _) Hp Hs. specialize (I1 w). rewrite Hp, Hs in I1. exact (proj2 I1). Qed.
Lemma Inv_matched st S w : Inv st S -> (r_prox st w = None <-> S w = None).
Proof.
  intros (I1 & _). specialize (I1 w). destruct (r_prox st w), (S w); try tauto; split; congruence.
Qed.

Lemma Inv_step st S st' w p' s' :
  Inv st S -> r_prox st' w = Some p' ->
  (forall k, k <> w -> r_prox st' k = r_prox st k) ->
  (forall k, k <> w -> r_asm st' k = r_asm st k) ->
  (forall fa, r_asm st' w = Some fa -> asm_ok fa) ->
  InvW st' w p' s' ->
  Inv st' (supd S w (set_sbase s' (match r_prox st' w with Some p => p_base p | None => 0 end))).
Proof.
  intros (I1 & I2 & I3) Hp Hop Hoa Hfa [Hr Hf]. rewrite Hp. split; [|split].
  - intros k. unfold supd. destruct (Z.eqb_spec k w) as [->|N].
    { rewrite Hp. split; [now apply rel_set_sbase|reflexivity]. }
    rewrite (Hop k N). apply I1.
  - intros k fa. destruct (Z.eq_dec k w) as [->|N]; [apply Hfa|]. rewrite (Hoa k N). apply I2.
  - intros k s sn. unfold supd. destruct (Z.eqb_spec k w) as [->|N]; intros E.
    + inversion E; subst. cbn [set_sbase s_frag]. apply Hf.
    + unfold is_partial. rewrite (Hoa k N). apply (I3 k s sn E).
Qed.

Lemma Inv_unmatched st S st' w :
  Inv st S -> S w = None -> r_prox st' = r_prox st ->
  (forall k, k <> w -> r_asm st' k = r_asm st k) ->
  (forall fa, r_asm st' w = Some fa -> asm_ok fa) -> Inv st' S.
Proof.
  intros (I1 & I2 & I3) Hs Hp Hoa Hfa. split; [|split].
  - intros k. rewrite Hp. apply I1.
  - intros k fa. destruct (Z.eq_dec k w) as [->|N]; [apply Hfa|]. rewrite (Hoa k N). apply I2.
  - intros k s sn E. destruct (Z.eq_dec k w) as [->|N]; [congruence|].
    unfold is_partial. rewrite (Hoa k N). apply (I3 k s sn E).
Qed.

(* summaries that [rel] cannot tell apart *)
Lemma rel_same p s s' :
  (forall m, recorded s' m = recorded s m) -> s_hbmax s' = s_hbmax s -> s_lastbase s' = s_lastbase s ->
  s_lastcount s' = s_lastcount s -> rel p s -> rel p s'.
Proof.
  intros Hk Hh Hb Hc [A B C D E]. constructor; [exact A| |congruence|lia|].
  - intros m. now rewrite Hk.
  - intros l. rewrite Hc. apply E.
Qed.

(* ---------------------------------------------------------------------------------------- *)
(* process_received_data *)
Lemma prd_core st w sn ts payload p s :
  r_prox st w = Some p -> rel p s ->
  let r := process_received_data st w sn ts payload in
  exists p', r_prox (fst r) w = Some p' /\ r_asm (fst r) = r_asm st
    /\ (forall k, k <> w -> r_prox (fst r) k = r_prox st k)
    /\ replies_of (snd r) = []
    /\ (adds_of (snd r) = [] \/ adds_of (snd r) = [(w, sn)])
    /\ rel p' (add_pts s (map snd (adds_of (snd r)))).
Proof.
  intros Hp Hr. unfold process_received_data. rewrite Hp.
  destruct (should_ignore_change p sn) eqn:Ei; cbn [fst snd].
  - exists p. split; [exact Hp|]. split; [reflexivity|]. split; [reflexivity|]. split; [reflexivity|].
    split; [now left|]. cbn [adds_of flat_map map]. now rewrite add_pts_nil.
  - exists (received_changes_add p sn). cbn [set_prox r_prox r_asm]. split; [apply upd_same|].
    split; [reflexivity|]. split; [intros k N; now apply upd_other|]. split; [reflexivity|].
    split; [right; reflexivity|]. cbn [adds_of flat_map app map snd].
    destruct Hr as [A B C D E]. constructor.
    + now apply rca_pinv.
    + intros m. rewrite rca_known, B. unfold recorded, known, rec_view, add_pts. cbn [s_lo s_rng s_pts app]. rewrite memz_cons.
      destruct (m <? s_lo s), (existsb (in_rng m) (map rec_rng (s_rng s))), (m =? sn), (memz m (s_pts s)); reflexivity.
    + now rewrite rca_hb.
    + cbn [s_lastbase add_pts]. pose proof (rca_base p sn). lia.
    + intros l. cbn [s_lastcount add_pts]. rewrite rca_an. apply E.
Qed.

Lemma known_add_frag s sn m :
  known {| s_lo := s_lo s; s_rng := s_rng s; s_pts := s_pts s; s_hbmax := s_hbmax s; s_adv := s_adv s;
           s_lastbase := s_lastbase s; s_lastcount := s_lastcount s; s_frag := sn :: s_frag s;
           s_base := s_base s |} m
  = known s m.
Proof. reflexivity. Qed.

(* ---------------------------------------------------------------------------------------- *)
(* one step *)
Lemma fresh_asm_ok fs : 0 <= fs < 2 ^ 16 -> asm_ok {| F.fa_fs := fs; F.fa_bufs := [] |}.
Proof.
  intros H. split.
  - split; [exact H|]. split; [constructor|constructor].
  - intros sn ab E. discriminate.
Qed.

Lemma step_sound st S o : op_okb o = true -> Inv st S ->
  exists S', step_ok S o (mk_sobs (fst (step true st o)) o (snd (step true st o))) = Some S'
             /\ Inv (fst (step true st o)) S'.
Proof.
  intros Hok HI. destruct o as [w sn ts payload|w df ts|w first last count final|w start base numbits bits].
  - (* DATA *)
    cbn [step]. destruct (negb (sn <=? MAX_SN)).
    + cbn [fst snd]. destruct (S w) as [s|] eqn:Es.
      * destruct (r_prox st w) as [p|] eqn:Ep; [|apply (Inv_matched _ _ w HI) in Ep; congruence].
        rewrite (step_ok_quiet S (Data w sn ts payload) s st [] Es); try reflexivity.
        eexists. split; [reflexivity|]. cbn [op_writer adds_of flat_map map spec_input]. rewrite add_pts_nil.
        apply (Inv_step st S st w p s HI Ep); try reflexivity.
        -- intros fa. apply HI.
        -- now apply (Inv_InvW st S).
      * rewrite step_ok_unmatched; try reflexivity; try assumption. eauto.
    + destruct (S w) as [s|] eqn:Es.
      * destruct (r_prox st w) as [p|] eqn:Ep; [|apply (Inv_matched _ _ w HI) in Ep; congruence].
        destruct (Inv_InvW st S w p s HI Ep Es) as [Hr Hf].
        destruct (prd_core st w sn ts payload p s Ep Hr) as (p' & A & B & C & D & E & G).
        rewrite (step_ok_quiet S (Data w sn ts payload) s _ _ Es D); [| |reflexivity].
        2:{ destruct E as [-> | ->]; cbn [adds_okb]; [reflexivity|]. now rewrite !Z.eqb_refl. }
        eexists. split; [reflexivity|]. cbn [spec_input op_writer].
        apply (Inv_step st S _ w p' _ HI A C).
        -- intros k _. now rewrite B.
        -- intros fa. rewrite B. apply HI.
        -- split; [exact G|]. intros sn'. unfold is_partial. rewrite B. cbn [s_frag add_pts]. apply Hf.
      * assert (Ep : r_prox st w = None) by (now apply (Inv_matched _ _ w HI)).
        unfold process_received_data. rewrite Ep. cbn [fst snd].
        rewrite step_ok_unmatched; try reflexivity; try assumption. eauto.
  - (* DATAFRAG *)
    cbn [op_okb] in Hok. apply andb_true_iff in Hok as [Hok _]. apply andb_true_iff in Hok as [Hok _].
    apply andb_true_iff in Hok as [_ Hdf]. apply FA.df_okb_spec in Hdf.
    assert (Hquiet : forall st', r_prox st' = r_prox st ->
              (forall k, k <> w -> r_asm st' k = r_asm st k) ->
              (forall fa, r_asm st' w = Some fa -> asm_ok fa) ->
              (forall sn, is_partial st' w sn = true -> sn = F.df_sn df \/ is_partial st w sn = true) ->
              forall outs, replies_of outs = [] -> adds_of outs = [] ->
              exists S', step_ok S (Frag w df ts) (mk_sobs st' (Frag w df ts) outs) = Some S' /\ Inv st' S').
    { intros st' Hp Hoa Hfa Hpart outs Hr Ha. destruct (S w) as [s|] eqn:Es.
      - destruct (r_prox st w) as [p|] eqn:Ep; [|apply (Inv_matched _ _ w HI) in Ep; congruence].
        destruct (Inv_InvW st S w p s HI Ep Es) as [Hrel Hf].
        rewrite (step_ok_quiet S (Frag w df ts) s st' outs Es Hr); [|now rewrite Ha|reflexivity].
        eexists. split; [reflexivity|]. rewrite Ha. cbn [map op_writer]. rewrite add_pts_nil.
        apply (Inv_step st S st' w p _ HI); try assumption.
        + now rewrite Hp.
        + intros k _. now rewrite Hp.
        + split.
          * eapply rel_same; [| | | |exact Hrel]; reflexivity.
          * intros sn Hsn. cbn [spec_input s_frag]. rewrite memz_cons.
            destruct (Hpart sn Hsn) as [->|H]; [now rewrite Z.eqb_refl|]. rewrite (Hf sn H). apply orb_true_r.
      - rewrite step_ok_unmatched; try assumption. eexists. split; [reflexivity|].
        apply (Inv_unmatched st S st' w HI Es Hp Hoa Hfa). }
    cbn [step].
    destruct (negb ((F.df_sn df <=? MAX_SN) && (F.df_start df <=? MAX_FN))).
    { cbn [fst snd]. apply Hquiet; try reflexivity; auto. intros fa. apply HI. }
    destruct (negb (datafrag_deser_ok df)).
    { cbn [fst snd]. apply Hquiet; try reflexivity; auto. intros fa. apply HI. }
    set (fa := match r_asm st w with Some fa => fa | None => {| F.fa_fs := F.df_frag_size df; F.fa_bufs := [] |} end).
    assert (Hfa : asm_ok fa).
    { subst fa. destruct (r_asm st w) as [fa|] eqn:Ea; [apply (proj1 (proj2 HI) w fa Ea)|].
      apply fresh_asm_ok. apply Hdf. }
    assert (Hlook : forall sn, F.alookup sn (F.fa_bufs fa) <> None -> is_partial st w sn = true).
    { intros sn. subst fa. unfold is_partial. destruct (r_asm st w); cbn [F.fa_bufs F.alookup]; [|congruence].
      destruct (F.alookup sn (F.fa_bufs a)); congruence. }
    destruct (F.new_datafrag fa df 0) as [|[fa' r]] eqn:End.
    { cbn [fst snd]. apply Hquiet; try reflexivity; auto. intros fa0. apply HI. }
    assert (Hfa' : asm_ok fa').
    { destruct Hfa as [A B]. destruct (FA.new_datafrag_ok fa df 0 A Hdf) as (fa2 & r2 & E2 & I2 & _).
      rewrite End in E2. inversion E2; subst. split; [exact I2|]. eapply new_datafrag_incomplete; eauto. }
    assert (Hpart : forall sn, is_partial (set_asm st w fa') w sn = true -> sn = F.df_sn df \/ is_partial st w sn = true).
    { intros sn. unfold is_partial at 1, set_asm. cbn [r_asm]. rewrite upd_same.
      destruct (Z.eq_dec sn (F.df_sn df)) as [->|N]; [now left|]. right. apply Hlook.
      destruct (FA.new_datafrag_frame _ _ _ _ _ End) as [_ Hfr]. rewrite <- (Hfr sn N).
      destruct (F.alookup sn (F.fa_bufs fa')); congruence. }
    destruct r as [bytes|].
    + (* completed: process_received_data on the state with the new assembler *)
      set (st1 := set_asm st w fa').
      destruct (S w) as [s|] eqn:Es.
      * destruct (r_prox st w) as [p|] eqn:Ep; [|apply (Inv_matched _ _ w HI) in Ep; congruence].
        destruct (Inv_InvW st S w p s HI Ep Es) as [Hrel Hf].
        set (s0 := spec_input s (Frag w df ts)).
        assert (Hrel0 : rel p s0). { eapply rel_same; [| | | |exact Hrel]; reflexivity. }
        destruct (prd_core st1 w (F.df_sn df) ts bytes p s0 Ep Hrel0) as (p' & A & B & C & D & E & G).
        rewrite (step_ok_quiet S (Frag w df ts) s _ _ Es D); [| |reflexivity].
        2:{ destruct E as [-> | ->]; cbn [adds_okb]; [reflexivity|]. now rewrite !Z.eqb_refl. }
        eexists. split; [reflexivity|]. fold s0. cbn [op_writer].
        apply (Inv_step st S _ w p' _ HI A).
        -- intros k N. now rewrite (C k N).
        -- intros k N. rewrite B. subst st1. cbn [set_asm r_asm]. now apply upd_other.
        -- intros fa0. rewrite B. subst st1. cbn [set_asm r_asm]. rewrite upd_same. intros E0. inversion E0; subst. exact Hfa'.
        -- split; [exact G|]. intros sn Hsn. cbn [s_frag add_pts]. subst s0. cbn [spec_input s_frag]. rewrite memz_cons.
           assert (Hsn' : is_partial st1 w sn = true). { unfold is_partial in *. now rewrite B in Hsn. }
           destruct (Hpart sn Hsn') as [->|H]; [now rewrite Z.eqb_refl|]. rewrite (Hf sn H). apply orb_true_r.
      * assert (Ep : r_prox st w = None) by (now apply (Inv_matched _ _ w HI)).
        unfold process_received_data. subst st1. cbn [set_asm r_prox]. rewrite Ep. cbn [fst snd].
        apply Hquiet; try reflexivity; auto.
        -- intros k N. cbn [set_asm r_asm]. now apply upd_other.
        -- intros fa0. cbn [set_asm r_asm]. rewrite upd_same. intros E0. inversion E0; subst. exact Hfa'.
    + cbn [fst snd]. apply Hquiet; try reflexivity; auto.
      * intros k N. cbn [set_asm r_asm]. now apply upd_other.
      * intros fa0. cbn [set_asm r_asm]. rewrite upd_same. intros E0. inversion E0; subst. exact Hfa'.
  - (* HEARTBEAT *)
    cbn [step].
    destruct ((first <=? MAX_SN) && (last <=? MAX_SN)) eqn:Hacc; cbn [negb].
    + destruct (r_prox st w) as [p|] eqn:Ep.
      * destruct (S w) as [s|] eqn:Es; [|apply (Inv_matched _ _ w HI) in Es; congruence].
        destruct (Inv_InvW st S w p s HI Ep Es) as [Hrel Hf].
        destruct (Z.lt_ge_cases (p_hb p) count) as [Hc|Hc].
        -- apply (hb_sound st S w p s first last count final HI Es Hrel Hacc Hc).
        -- unfold handle_heartbeat. destruct (Z.leb_spec count (p_hb p)); [|lia]. cbn [fst snd].
           assert (Heff : effective_hb s (Hb w first last count final) = false).
           { cbn [effective_hb]. rewrite Hacc. cbn [andb]. destruct Hrel. apply Z.ltb_ge. lia. }
           rewrite (step_ok_quiet S (Hb w first last count final) s st [] Es eq_refl eq_refl Heff).
           eexists. split; [reflexivity|]. cbn [adds_of flat_map map op_writer]. rewrite add_pts_nil.
           cbn [spec_input]. cbn [effective_hb] in Heff. rewrite Heff.
           apply (Inv_step st S st w p s HI Ep); try reflexivity; [intros fa; apply HI|]. split; assumption.
      * assert (Es : S w = None) by (now apply (Inv_matched _ _ w HI)).
        cbn [fst snd]. rewrite step_ok_unmatched; try reflexivity; try assumption. eauto.
    + cbn [fst snd]. destruct (S w) as [s|] eqn:Es.
      * destruct (r_prox st w) as [p|] eqn:Ep; [|apply (Inv_matched _ _ w HI) in Ep; congruence].
        assert (Heff : effective_hb s (Hb w first last count final) = false).
        { cbn [effective_hb]. now rewrite Hacc. }
        rewrite (step_ok_quiet S (Hb w first last count final) s st [] Es eq_refl eq_refl Heff).
        eexists. split; [reflexivity|]. cbn [adds_of flat_map map op_writer]. rewrite add_pts_nil.
        cbn [spec_input]. rewrite Hacc. cbn [andb].
        apply (Inv_step st S st w p s HI Ep); try reflexivity; [intros fa; apply HI|]. now apply (Inv_InvW st S).
      * rewrite step_ok_unmatched; try reflexivity; try assumption. eauto.
  - (* GAP *)
    cbn [step].
    assert (Hnoop : spec_input (match S w with Some s => s | None => spec0 end) (Gap w start base numbits bits)
                    = (match S w with Some s => s | None => spec0 end) ->
            exists S', step_ok S (Gap w start base numbits bits) (mk_sobs st (Gap w start base numbits bits) []) = Some S' /\ Inv st S').
    { intros Hsp. destruct (S w) as [s|] eqn:Es.
      - destruct (r_prox st w) as [p|] eqn:Ep; [|apply (Inv_matched _ _ w HI) in Ep; congruence].
        rewrite (step_ok_quiet S (Gap w start base numbits bits) s st [] Es eq_refl eq_refl eq_refl).
        eexists. split; [reflexivity|]. cbn [adds_of flat_map map op_writer]. rewrite add_pts_nil, Hsp.
        apply (Inv_step st S st w p s HI Ep); try reflexivity; [intros fa; apply HI|]. now apply (Inv_InvW st S).
      - rewrite step_ok_unmatched; try reflexivity; try assumption. eauto. }
    destruct ((start <=? MAX_SN) && (base <=? MAX_SN)) eqn:Hacc; cbn [negb].
    2:{ cbn [fst snd]. apply Hnoop. cbn [spec_input]. now rewrite Hacc. }
    destruct (r_prox st w) as [p|] eqn:Ep.
    2:{ cbn [fst snd]. assert (Es : S w = None) by (now apply (Inv_matched _ _ w HI)).
        rewrite step_ok_unmatched; try reflexivity; try assumption. eauto. }
    unfold handle_gap.
    destruct (Z.leb_spec start 0) as [Hs0|Hs0].
    { cbn [fst snd]. apply Hnoop. cbn [spec_input]. rewrite Hacc. cbn [andb].
      destruct (Z.leb_spec 1 start); [lia|reflexivity]. }
    destruct (Z.leb_spec base 0) as [Hb0|Hb0].
    { cbn [fst snd]. apply Hnoop. cbn [spec_input]. rewrite Hacc. cbn [andb].
      destruct (Z.leb_spec 1 base); [lia|]. now rewrite andb_false_r. }
    destruct (S w) as [s|] eqn:Es; [|apply (Inv_matched _ _ w HI) in Es; congruence].
    destruct (Inv_InvW st S w p s HI Ep Es) as [Hrel Hf].
    pose proof (Inv_base st S w p s HI Ep Es) as Hbase.
    cbn [fst snd].
    rewrite (step_ok_quiet S (Gap w start base numbits bits) s _ [OMark w _] Es eq_refl eq_refl eq_refl).
    eexists. split; [reflexivity|]. cbn [adds_of flat_map map op_writer]. rewrite add_pts_nil.
    cbn [spec_input]. rewrite Hacc. cbn [andb].
    destruct (Z.leb_spec 1 start); [|lia]. destruct (Z.leb_spec 1 base); [|lia]. cbn [andb].
    eapply (Inv_step st S _ w _ _ HI).
    + cbn [set_prox r_prox]. apply upd_same.
    + intros k N. cbn [set_prox r_prox]. now apply upd_other.
    + intros k N. reflexivity.
    + intros fa. apply HI.
    + split.
      * destruct Hrel as [A B C D E]. constructor.
        -- now apply sic_fold_pinv, icr_pinv.
        -- (* the proxy records exactly the cut range: the summary's ack base is the proxy's *)
           intros m. rewrite sic_fold_known, icr_known, B, !recorded_unfold.
           cbn [s_lo s_rng s_pts existsb].
           generalize (existsb (fun r => (g_from r <=? m) && (m <? g_cut r)) (s_rng s)). intros e.
           unfold in_range, icr_until, g_cut. cbn [g_from g_until g_ackbase]. rewrite Hbase, memz_app.
           destruct (m <? s_lo s), (memz m bits), (memz m (s_pts s)), e, ((start <=? m) && _); reflexivity.
        -- rewrite sic_fold_hb, icr_hb. exact C.
        -- cbn [s_lastbase]. pose proof (sic_fold_base bits (irrelevant_changes_range p start base)).
           pose proof (icr_base p start base). lia.
        -- intros l. cbn [s_lastcount]. rewrite sic_fold_an, icr_an. apply E.
      * intros sn. cbn [s_frag]. apply Hf.
Qed.

Lemma chk_mrun ops : forall st S, forallb op_okb ops = true -> Inv st S -> chk S ops (mrun true st ops) = true.
Proof.
  induction ops as [|o ops IH]; intros st S Hok HI; [reflexivity|].
  cbn [forallb] in Hok. apply andb_true_iff in Hok as [H1 H2].
  cbn [mrun chk]. destruct (step_sound st S o H1 HI) as (S' & E & HI').
  rewrite E. now apply IH.
Qed.

Theorem run_ok : forall c, ok c (run c) = true.
Proof.
  intros c. unfold ok, run, run_with. destruct (wf_case c) eqn:Hwf; cbn [negb]; [|reflexivity].
  apply chk_mrun; [exact Hwf|apply Inv_init].
Qed.
