(* C03 — the model satisfies the oracle: a simulation between the reader model (writer proxies,
   assemblers) and the oracle's history summaries. *)
From Coq Require Import List ZArith Lia Bool.
From RD Require Import C03.Model C03.Proxy C03.Oracle.
From RD Require C05.Asm.
Module FA := RD.C05.Asm.
Import ListNotations.
Open Scope Z_scope.

(* ---------------------------------------------------------------------------------------- *)
(* fragment assembler: what is stored is incomplete *)
Definition bufs_incomplete (fa : F.assembler) : Prop :=
  forall sn ab, F.alookup sn (F.fa_bufs fa) = Some ab -> F.is_complete ab = false.
Definition asm_ok (fa : F.assembler) : Prop := FA.fa_inv fa /\ bufs_incomplete fa.

Lemma new_datafrag_incomplete fa df now fa' r :
  F.new_datafrag fa df now = F.Ok (fa', r) -> bufs_incomplete fa -> bufs_incomplete fa'.
Proof.
  intros H Hinc sn' ab' Hl. unfold F.new_datafrag in H.
  destruct (F.validate_datafrag fa df); [|inversion H; subst; eauto].
  unfold F.assemble in H.
  destruct (match F.alookup (F.df_sn df) (F.fa_bufs fa) with
            | Some ab => F.Ok ab | None => F.abuf_new df now end) as [|ab0]; cbn [F.bind] in H; [discriminate|].
  destruct (F.insert_frags ab0 df (F.fa_fs fa) now) as [|ab]; cbn [F.bind] in H; [discriminate|].
  destruct (F.is_complete ab) eqn:Ec; inversion H; subst; cbn [F.fa_bufs] in Hl.
  - destruct (Z.eq_dec sn' (F.df_sn df)) as [->|N].
    + rewrite FL.alookup_aremove_eq in Hl. discriminate.
    + rewrite FL.alookup_aremove_neq in Hl by exact N. eauto.
  - destruct (Z.eq_dec sn' (F.df_sn df)) as [->|N].
    + rewrite FL.alookup_ainsert_eq in Hl. inversion Hl; subst. exact Ec.
    + rewrite FL.alookup_ainsert_neq in Hl by exact N. eauto.
Qed.

Lemma forallb_false_nth (bm : list bool) :
  forallb (fun b => b) bm = false -> exists j, (j < length bm)%nat /\ nth j bm true = false.
Proof.
  induction bm as [|b bm IH]; [discriminate|]. cbn [forallb]. intros H.
  destruct b.
  - cbn in H. destruct (IH H) as (j & A & B). exists (S j). split; [cbn; lia|exact B].
  - exists 0%nat. split; [cbn; lia|reflexivity].
Qed.

Lemma missing_frags_nonempty fa sn ab :
  asm_ok fa -> F.alookup sn (F.fa_bufs fa) = Some ab -> F.missing_frags_for fa sn <> [].
Proof.
  intros [Hinv Hinc] Hl. unfold F.missing_frags_for. rewrite Hl.
  pose proof (Hinc _ _ Hl) as Hc. unfold F.is_complete in Hc.
  apply forallb_false_nth in Hc as (j & Hj & Hn).
  pose proof (FA.fa_inv_lookup _ _ _ Hinv Hl) as (_ & _ & _ & _ & Hlen).
  intros E.
  assert (Hin : In (Z.of_nat j + 1)
    (filter (fun k => negb (F.znth (k - 1) (F.ab_bitmap ab) true)) (F.iota 1 (Z.to_nat (F.ab_count ab))))).
  { apply filter_In. split.
    - apply FL.in_iota. unfold F.len in Hlen. lia.
    - unfold F.znth. replace (Z.to_nat (Z.of_nat j + 1 - 1)) with j by lia. now rewrite Hn. }
  rewrite E in Hin. destruct Hin.
Qed.

Lemma missing_frags_incr fa sn : incr_from 1 (F.missing_frags_for fa sn) = true.
Proof.
  unfold F.missing_frags_for. destruct (F.alookup sn (F.fa_bufs fa)); [|reflexivity].
  apply incr_from_filter. apply (incr_from_iota _ 1).
Qed.

(* ---------------------------------------------------------------------------------------- *)
(* the simulation relation: the proxy knows exactly what the summary says was RECORDED (hence, by
   recorded_sub_known, only what was DECLARED) *)
Record rel (p : proxy) (s : wspec) : Prop := {
  r_inv : pinv p;
  r_known : forall m, known_p p m = recorded s m;
  r_hbc : p_hb p = s_hbmax s;
  r_lastbase : s_lastbase s <= p_base p;
  r_count : forall l, s_lastcount s = Some l -> l < p_an p }.

Definition Inv (st : rstate) (S : sstate) : Prop :=
  (forall w, match r_prox st w, S w with
             | Some p, Some s => rel p s /\ s_base s = p_base p
             | None, None => True
             | _, _ => False
             end)
  /\ (forall w fa, r_asm st w = Some fa -> asm_ok fa)
  /\ (forall w s sn, S w = Some s -> is_partial st w sn = true -> memz sn (s_frag s) = true).

Lemma add_pts_nil s : add_pts s [] = s.
Proof. destruct s; reflexivity. Qed.

Lemma Inv_init matched : Inv (init matched) (sinit matched).
Proof.
  split; [|split].
  - intros w. unfold init, sinit. cbn [r_prox]. destruct (memz w matched); [|exact I].
    split; [|reflexivity].
    constructor; [apply pinv_new| |reflexivity|cbn; lia|intros l H; discriminate].
    intros m. unfold known_p, should_ignore_change, recorded, known. cbn. now destruct (m <? 1).
  - intros w fa H. discriminate.
  - intros w s sn _ H. unfold is_partial, init in H. cbn in H. discriminate.
Qed.

Definition supd (S : sstate) (w : Z) (s : wspec) : sstate := fun k => if k =? w then Some s else S k.

Lemma upd_same {A} (f : Z -> option A) w v : upd f w v w = Some v.
Proof. unfold upd. now rewrite Z.eqb_refl. Qed.
Lemma upd_other {A} (f : Z -> option A) w v k : k <> w -> upd f w v k = f k.
Proof. unfold upd. intros H. destruct (Z.eqb_spec k w); [congruence|reflexivity]. Qed.

Lemma rel_set_sbase p s b : rel p s -> rel p (set_sbase s b).
Proof. intros [A B C D E]. constructor; assumption. Qed.

(* updating the proxy and the summary of one matched writer; the summary takes the new ack base *)
Lemma Inv_set st S w p s :
  Inv st S -> rel p s -> (forall sn, is_partial st w sn = true -> memz sn (s_frag s) = true) ->
  Inv (set_prox st w p) (supd S w (set_sbase s (p_base p))).
Proof.
  intros (I1 & I2 & I3) Hr Hf. split; [|split].
  - intros k. unfold set_prox, supd. cbn [r_prox]. unfold upd. destruct (k =? w); [|apply I1].
    split; [now apply rel_set_sbase|reflexivity].
  - exact I2.
  - intros k s' sn. unfold supd. unfold is_partial, set_prox. cbn [r_asm].
    destruct (Z.eqb_spec k w) as [->|N]; intros E.
    + inversion E; subst. cbn [set_sbase s_frag]. apply Hf.
    + apply (I3 k s' sn E).
Qed.

(* fields of the summary that [rel] looks at *)
Definition same_view (s s' : wspec) : Prop :=
  s_lo s' = s_lo s /\ s_rng s' = s_rng s /\ s_pts s' = s_pts s /\ s_hbmax s' = s_hbmax s
  /\ s_adv s' = s_adv s /\ s_lastbase s' = s_lastbase s /\ s_frag s' = s_frag s.
Lemma same_view_known s s' m : same_view s s' -> known s' m = known s m.
Proof. intros (A & B & C & _). unfold known. now rewrite A, B, C. Qed.
Lemma same_view_recview s s' : same_view s s' -> same_view (rec_view s) (rec_view s').
Proof. intros (A & B & C & D & E & G & H). unfold same_view, rec_view. cbn. now rewrite A, B, C, D, E, G, H. Qed.
Lemma same_view_rec s s' m : same_view s s' -> recorded s' m = recorded s m.
Proof. intros H. unfold recorded. apply same_view_known, same_view_recview, H. Qed.
Lemma same_view_lu s s' x : same_view s s' -> lowest_unknown s' x = lowest_unknown s x.
Proof.
  intros H. unfold lowest_unknown.
  assert (Ec : cands s' = cands s). { destruct H as (A & B & C & _). unfold cands. now rewrite A, B, C. }
  rewrite Ec. erewrite filter_ext; [reflexivity|]. intros c. cbn. now rewrite (same_view_known s s' c H).
Qed.
Lemma same_view_lur s s' x : same_view s s' -> lowest_unrecorded s' x = lowest_unrecorded s x.
Proof. intros H. unfold lowest_unrecorded. apply same_view_lu, same_view_recview, H. Qed.

(* ---------------------------------------------------------------------------------------- *)
(* NACKFRAGs *)
Lemma incr_from_head lo l : incr_from lo l = true -> In lo l -> exists t, l = lo :: t.
Proof.
  destruct l as [|x l]; [intros _ []|]. cbn [incr_from]. intros H Hin.
  apply andb_true_iff in H as [A B]. apply Z.leb_le in A.
  destruct Hin as [->|Hin]; [now eexists|].
  pose proof (incr_from_ge _ _ _ B Hin). assert (x = lo) by lia. subst. now eexists.
Qed.

Lemma nackfrags_ok st w partial : forall cnt s,
  (forall sn, In sn partial ->
      recorded s sn = false /\ memz sn (s_frag s) = true
      /\ exists first last, s_adv s = Some (first, last) /\ first <= sn <= last) ->
  (forall l, s_lastcount s = Some l -> l < cnt) ->
  exists s', replies_ok w s (fst (nackfrags st w partial cnt)) = Some s'
    /\ same_view s s'
    /\ (forall l, s_lastcount s' = Some l -> l < snd (nackfrags st w partial cnt))
    /\ cnt <= snd (nackfrags st w partial cnt).
Proof.
  induction partial as [|sn rest IH]; intros cnt s Hp Hc.
  - exists s. cbn. split; [reflexivity|]. split; [repeat split|]. split; [exact Hc|lia].
  - cbn [nackfrags].
    destruct (missing_frags st w sn) as [|f0 fl] eqn:Em.
    + destruct (IH (cnt + 1) s) as (s' & A & B & C & D).
      { intros x Hx. apply Hp. now right. } { intros l Hl. specialize (Hc l Hl). lia. }
      exists s'. split; [exact A|]. split; [exact B|]. split; [exact C|lia].
    + (* the NACKFRAG for sn *)
      assert (Hinc : incr_from 1 (f0 :: fl) = true).
      { rewrite <- Em. unfold missing_frags. destruct (r_asm st w); [apply missing_frags_incr|reflexivity]. }
      assert (Hf0 : 1 <= f0). { apply (incr_from_ge _ 1 f0 Hinc). now left. }
      assert (Hinc0 : incr_from f0 (f0 :: fl) = true).
      { cbn [incr_from] in *. apply andb_true_iff in Hinc as [_ B]. rewrite B. now rewrite Z.leb_refl. }
      destruct (fbs_spec f0 (f0 :: fl) Hf0 Hinc0) as (n & m & E & Hn & Hmi & Hm1 & Hm2 & _).
      rewrite E.
      assert (Hhead : exists t, m = f0 :: t).
      { apply incr_from_head; [exact Hmi|]. apply Hm2; [now left|lia]. }
      destruct Hhead as (t & ->).
      destruct (Hp sn (or_introl eq_refl)) as (K & Fr & first & last & Adv & Rng).
      set (s1 := {| s_lo := s_lo s; s_rng := s_rng s; s_pts := s_pts s; s_hbmax := s_hbmax s;
                    s_adv := s_adv s; s_lastbase := s_lastbase s; s_lastcount := Some cnt;
                    s_frag := s_frag s; s_base := s_base s |}).
      assert (Hv1 : same_view s s1) by (repeat split).
      destruct (IH (cnt + 1) s1) as (s' & A & B & C & D).
      { intros x Hx. destruct (Hp x (or_intror Hx)) as (K' & Fr' & R'). repeat split; assumption. }
      { intros l Hl. cbn in Hl. inversion Hl. lia. }
      exists s'. split; [|split; [|split]].
      * cbn [fst replies_ok reply_ok]. rewrite Z.eqb_refl, K, Adv, Fr. cbn [negb andb].
        replace ((first <=? sn) && (sn <=? last)) with true
          by (symmetry; apply andb_true_iff; split; apply Z.leb_le; lia).
        replace (1 <=? f0) with true by (symmetry; apply Z.leb_le; lia).
        replace (0 <=? n) with true by (symmetry; apply Z.leb_le; lia).
        replace (n <=? 256) with true by (symmetry; apply Z.leb_le; lia).
        rewrite Hmi. cbn [andb].
        replace (forallb (fun m0 => m0 <? f0 + n) (f0 :: t)) with true.
        2:{ symmetry. apply forallb_forall. intros x Hx. apply Z.ltb_lt. apply Hm1. exact Hx. }
        rewrite Z.eqb_refl. cbn [andb].
        replace (count_okb (s_lastcount s) cnt) with true.
        2:{ symmetry. unfold count_okb. destruct (s_lastcount s) as [l|] eqn:El; [|reflexivity].
            apply Z.ltb_lt. now apply Hc. }
        unfold s1 in A. rewrite Adv in A. exact A.
      * destruct Hv1 as (a1 & a2 & a3 & a4 & a5 & a6 & a7). destruct B as (b1 & b2 & b3 & b4 & b5 & b6 & b7).
        repeat split; congruence.
      * exact C.
      * cbn [snd]. lia.
Qed.

Lemma nackfrags_requested st w partial sn : forall cnt,
  In sn partial -> missing_frags st w sn <> [] -> requested sn (fst (nackfrags st w partial cnt)) = true.
Proof.
  induction partial as [|x rest IH]; intros cnt [] Hne.
  - subst x. cbn [nackfrags]. destruct (missing_frags st w sn) as [|f0 fl] eqn:Em; [congruence|].
    destruct (from_base_and_set f0 (f0 :: fl)) as [[b n] m]. cbn [fst requested existsb].
    now rewrite Z.eqb_refl.
  - cbn [nackfrags]. specialize (IH (cnt + 1) H Hne).
    destruct (missing_frags st w x) as [|f0 fl]; [exact IH|].
    destruct (from_base_and_set f0 (f0 :: fl)) as [[b n] m]. cbn [fst requested existsb].
    unfold requested in IH. rewrite IH. apply orb_true_r.
Qed.

Lemma replies_ok_app w s rs1 rs2 s1 :
  replies_ok w s rs1 = Some s1 -> replies_ok w s (rs1 ++ rs2) = replies_ok w s1 rs2.
Proof.
  revert s. induction rs1 as [|r rs1 IH]; intros s H; cbn [replies_ok app] in *.
  - now inversion H.
  - destruct (reply_ok w s r); [now apply IH|discriminate].
Qed.
Lemma requested_app m rs1 rs2 : requested m (rs1 ++ rs2) = requested m rs1 || requested m rs2.
Proof. unfold requested. apply existsb_app. Qed.

Lemma replies_of_map rs : replies_of (map OReply rs) = rs.
Proof. unfold replies_of. induction rs as [|r rs IH]; [reflexivity|]. cbn [map flat_map app]. now rewrite IH. Qed.
Lemma replies_of_app a b : replies_of (a ++ b) = replies_of a ++ replies_of b.
Proof. unfold replies_of. apply flat_map_app. Qed.
Lemma adds_of_app a b : adds_of (a ++ b) = adds_of a ++ adds_of b.
Proof. unfold adds_of. apply flat_map_app. Qed.
Lemma adds_of_map rs : adds_of (map OReply rs) = [].
Proof. unfold adds_of. induction rs as [|r rs IH]; [reflexivity|]. cbn [map flat_map app]. exact IH. Qed.

Lemma adds_of_mark w b l : adds_of (OMark w b :: l) = adds_of l. Proof. reflexivity. Qed.
Lemma replies_of_mark w b l : replies_of (OMark w b :: l) = replies_of l. Proof. reflexivity. Qed.

(* ---------------------------------------------------------------------------------------- *)
(* HEARTBEAT *)
Lemma set_hb_known p c m : known_p (set_hb p c) m = known_p p m. Proof. reflexivity. Qed.
Lemma set_hb_pinv p c : pinv p -> pinv (set_hb p c). Proof. intros H; exact H. Qed.

Lemma hb_window_sub missing x : In x (hb_window missing) -> In x missing.
Proof. unfold hb_window. destruct missing; [intros []|]. apply take_while_In. Qed.
Lemma hb_window_incr lo missing : incr_from lo missing = true -> incr_from lo (hb_window missing) = true.
Proof. unfold hb_window. destruct missing as [|m0 l] eqn:E; [reflexivity|]. rewrite <- E. apply incr_from_take_while. Qed.
Lemma hb_window_head m0 l : In m0 (hb_window (m0 :: l)).
Proof.
  unfold hb_window. rewrite take_while_head; [now left|]. apply Z.ltb_lt. lia.
Qed.

Section Heartbeat.
  Variables (st : rstate) (S : sstate) (w : Z) (p : proxy) (s : wspec).
  Variables (first last count : Z) (final : bool).
  Hypothesis HI : Inv st S.
  Hypothesis Hp : r_prox st w = Some p.
  Hypothesis Hs : S w = Some s.
  Hypothesis Hrel : rel p s.
  Hypothesis Hacc : (first <=? MAX_SN) && (last <=? MAX_SN) = true.
  Hypothesis Hcnt : p_hb p < count.

  Let o := Hb w first last count final.
  Let p2 := irrelevant_changes_up_to (set_hb p count) first.
  Let s1 := spec_input s o.

  Lemma hb_s1 : s1 = {| s_lo := Z.max (s_lo s) first; s_rng := s_rng s; s_pts := s_pts s; s_hbmax := count;
           s_adv := Some (first, last); s_lastbase := s_lastbase s; s_lastcount := s_lastcount s;
           s_frag := s_frag s; s_base := s_base s |}.
  Proof.
    subst s1 o. cbn [spec_input]. rewrite Hacc. cbn [andb].
    destruct Hrel. replace (s_hbmax s <? count) with true by (symmetry; apply Z.ltb_lt; lia). reflexivity.
  Qed.

  Lemma hb_eff : effective_hb s o = true.
  Proof.
    subst o. cbn [effective_hb]. rewrite Hacc. cbn [andb]. destruct Hrel. apply Z.ltb_lt. lia.
  Qed.

  Lemma hb_p2_inv : pinv p2.
  Proof. subst p2. apply icr_pinv, set_hb_pinv, Hrel. Qed.

  Lemma hb_p2_known m : known_p p2 m = recorded s1 m.
  Proof.
    subst p2. unfold irrelevant_changes_up_to. rewrite icr_known, set_hb_known, hb_s1.
    destruct Hrel as [[Hb1 _] Hk _ _ _]. rewrite Hk.
    unfold icr_until. cbn [p_base set_hb]. destruct (Z.leb_spec 0 (p_base p)); [|lia].
    unfold recorded, known, rec_view. cbn [s_lo s_rng s_pts]. unfold in_range.
    assert (Hneg : m < 0 -> recorded s m = true).
    { intros Hm. rewrite <- Hk. unfold known_p, should_ignore_change.
      destruct (Z.ltb_spec m (p_base p)); [reflexivity|lia]. }
    unfold recorded, known, rec_view in Hneg. cbn [s_lo s_rng s_pts] in Hneg.
    destruct (existsb (in_rng m) (map rec_rng (s_rng s))), (memz m (s_pts s));
      rewrite ?orb_true_r; try reflexivity.
    rewrite !orb_false_r in *.
    destruct (Z.ltb_spec m (s_lo s)), (Z.leb_spec 0 m), (Z.ltb_spec m first), (Z.ltb_spec m (Z.max (s_lo s) first));
      cbn; try reflexivity; try lia.
  Qed.

  Lemma hb_first_le : first <= p_base p2 /\ 1 <= p_base p2.
  Proof. split; [subst p2; apply up_to_first, set_hb_pinv, Hrel|apply hb_p2_inv]. Qed.

  Lemma hb_base_unknown : recorded s1 (p_base p2) = false.
  Proof.
    rewrite <- hb_p2_known. destruct hb_p2_inv as [_ B]. unfold known_p, should_ignore_change. rewrite B.
    destruct (Z.ltb_spec (p_base p2) (p_base p2)); [lia|reflexivity].
  Qed.
  Lemma hb_below_known m : m < p_base p2 -> recorded s1 m = true.
  Proof.
    intros H. rewrite <- hb_p2_known. unfold known_p, should_ignore_change.
    destruct (Z.ltb_spec m (p_base p2)); [reflexivity|lia].
  Qed.
  (* the lowest number that is not recorded is the ack base ... *)
  Lemma hb_lu x : x <= p_base p2 -> lowest_unrecorded s1 x = Some (p_base p2).
  Proof.
    intros H. unfold lowest_unrecorded. apply lowest_unknown_char; [exact H|apply hb_base_unknown|].
    intros m Hm. apply hb_below_known. lia.
  Qed.
  (* ... and the lowest number that was not declared is at or above it *)
  Lemma hb_truth : exists lu, lowest_unknown s1 1 = Some lu /\ p_base p2 <= lu.
  Proof.
    destruct (lowest_unknown_some s1 1) as (lu & E). exists lu. split; [exact E|].
    apply lowest_unknown_sound in E as (_ & K & _).
    destruct (Z.lt_ge_cases lu (p_base p2)) as [H|H]; [|lia].
    apply hb_below_known, recorded_sub_known in H. congruence.
  Qed.

  Lemma hb_p2_fields : p_hb p2 = count /\ p_an p2 = p_an p /\ p_base p <= p_base p2.
  Proof.
    subst p2. unfold irrelevant_changes_up_to. rewrite icr_hb, icr_an. cbn [p_hb p_an set_hb].
    split; [reflexivity|]. split; [reflexivity|]. apply (icr_base (set_hb p count)).
  Qed.

  Let last_chk := Z.min last (p_base p2 + 255).
  Let missing := missing_seqnums p2 first last_chk.

  Lemma hb_missing_props x : In x missing ->
    first <= x <= last /\ p_base p2 <= x /\ recorded s1 x = false.
  Proof.
    intros H. pose proof (missing_unknown _ _ _ _ H) as U. apply missing_in in H as (A & B & _).
    subst last_chk. rewrite <- hb_p2_known. repeat split; try lia; exact U.
  Qed.

  Lemma hb_missing_shape :
    (missing = [] /\ last < p_base p2) \/ (exists l, missing = p_base p2 :: l /\ p_base p2 <= last).
  Proof.
    destruct hb_first_le as [A B].
    destruct (Z.lt_ge_cases last_chk (p_base p2)) as [H|H].
    - left. split; [|subst last_chk; lia].
      destruct missing as [|x l] eqn:E; [reflexivity|exfalso].
      assert (Hx : In x missing) by (rewrite E; now left). apply missing_in in Hx. lia.
    - right. destruct (missing_head p2 first last_chk hb_p2_inv A H) as (l & E).
      exists l. split; [exact E|subst last_chk; lia].
  Qed.

  (* the proxy and the summary after a reply with count c *)
  Lemma hb_rel_after c s2 :
    same_view s1 s2 \/ (s_lo s2 = s_lo s1 /\ s_rng s2 = s_rng s1 /\ s_pts s2 = s_pts s1 /\ s_hbmax s2 = s_hbmax s1) ->
    s_lo s2 = s_lo s1 -> s_rng s2 = s_rng s1 -> s_pts s2 = s_pts s1 -> s_hbmax s2 = s_hbmax s1 ->
    s_lastbase s2 <= p_base p2 -> (forall l, s_lastcount s2 = Some l -> l < c) ->
    rel (set_an p2 c) s2.
  Proof.
    intros _ E1 E2 E3 E4 Hlb Hc. constructor.
    - exact hb_p2_inv.
    - intros m. change (known_p (set_an p2 c) m) with (known_p p2 m). rewrite hb_p2_known.
      unfold recorded, known, rec_view. cbn [s_lo s_rng s_pts]. now rewrite E1, E2, E3.
    - cbn [p_hb set_an]. rewrite E4, hb_s1. cbn. apply hb_p2_fields.
    - exact Hlb.
    - exact Hc.
  Qed.

  Lemma hb_partial_frag sn : is_partial st w sn = true -> memz sn (s_frag s1) = true.
  Proof.
    intros H. rewrite hb_s1. cbn [s_frag]. destruct HI as (_ & _ & I3). now apply (I3 w s sn Hs).
  Qed.

  Lemma hb_sound :
    exists S', step_ok S o (mk_sobs (fst (handle_heartbeat true st w p first last count final)) o
                                   (snd (handle_heartbeat true st w p first last count final))) = Some S'
               /\ Inv (fst (handle_heartbeat true st w p first last count final)) S'.
  Proof.
    unfold handle_heartbeat. destruct (Z.leb_spec count (p_hb p)) as [|_]; [lia|].
    fold p2. fold last_chk. fold missing.
    destruct hb_first_le as [Hf1 Hb1]. destruct hb_p2_fields as (Fhb & Fan & Fbase).
    assert (Hlb : s_lastbase s1 <= p_base p2).
    { rewrite hb_s1. cbn [s_lastbase]. destruct Hrel. lia. }
    assert (Hlc : forall l, s_lastcount s1 = Some l -> l < p_an p2).
    { rewrite hb_s1. cbn [s_lastcount]. rewrite Fan. apply Hrel. }
    unfold step_ok. change (op_writer o) with w. rewrite Hs. pose proof hb_eff as Heff. unfold o in Heff |- *.
    destruct (negb (match missing with [] => true | _ => false end) || negb final) eqn:Ereply.
    - (* a reply is sent *)
      destruct (hb_sns st w p2 missing) as [[b n] m] eqn:Esns.
      cbn [fst snd]. unfold mk_sobs. cbn [so_adds so_replies].
      rewrite adds_of_mark, adds_of_app, adds_of_map. cbn [adds_of flat_map app adds_okb negb].
      rewrite Heff. rewrite add_pts_nil. cbn [map].
      rewrite replies_of_mark, replies_of_app, replies_of_map. cbn [replies_of flat_map app].
      change (spec_input s (Hb w first last count final)) with s1.
      set (partial := hb_partial st w missing).
      (* the NACKFRAG part *)
      destruct (nackfrags_ok st w partial (p_an p2) s1) as (s' & A & B & C & D).
      { intros sn Hsn. unfold partial, hb_partial in Hsn. apply filter_In in Hsn as [Hw Hpa].
        apply hb_window_sub in Hw. destruct (hb_missing_props sn Hw) as (R & _ & K).
        split; [exact K|]. split; [now apply hb_partial_frag|].
        exists first, last. split; [rewrite hb_s1; reflexivity|exact R]. }
      { exact Hlc. }
      rewrite (replies_ok_app _ _ _ _ _ A). cbn [replies_ok reply_ok].
      rewrite Z.eqb_refl. cbn [andb].
      (* facts about the ACKNACK's set *)
      assert (Hset : b = p_base p2 /\ 0 <= n <= 256 /\ incr_from b m = true
                     /\ (forall x, In x m -> In x missing /\ x < b + n)
                     /\ (is_partial st w (p_base p2) = false -> p_base p2 <= last -> In (p_base p2) m)).
      { unfold hb_sns in Esns. destruct hb_missing_shape as [[E _]|(l & E & Hl)].
        - rewrite E in Esns. injection Esns as <- <- <-. split; [reflexivity|]. split; [lia|]. split; [reflexivity|].
          split; [intros x []|]. intros _ Hle. exfalso.
          destruct hb_missing_shape as [[_ ?]|(l & E' & _)]; [lia|congruence].
        - rewrite E in Esns.
          assert (Hinc : incr_from (p_base p2) (filter (fun s0 => negb (is_partial st w s0)) (hb_window (p_base p2 :: l))) = true).
          { apply incr_from_filter, hb_window_incr. rewrite <- E. apply missing_incr. }
          destruct (fbs_spec _ _ Hb1 Hinc) as (n' & m' & E' & Hn & Hmi & Hm1 & Hm2 & _).
          rewrite E' in Esns. injection Esns as <- <- <-. split; [reflexivity|]. split; [exact Hn|].
          split; [exact Hmi|]. split.
          + intros x Hx. destruct (Hm1 x Hx) as [Hx1 Hx2]. split; [|exact Hx2].
            apply filter_In in Hx1 as [Hx1 _]. apply hb_window_sub in Hx1. now rewrite E.
          + intros Hnp _. apply Hm2; [|lia]. apply filter_In. split; [apply hb_window_head|now rewrite Hnp]. }
      destruct Hset as (-> & Hn & Hmi & Hm1 & Hm2).
      rewrite (same_view_lu s1 s' 1 B). destruct hb_truth as (lu & Elu & Hlu). rewrite Elu.
      replace (p_base p2 <=? lu) with true by (symmetry; apply Z.leb_le; lia). cbn [andb].
      assert (Elb : s_lastbase s' = s_lastbase s1) by apply B. rewrite Elb.
      replace (s_lastbase s1 <=? p_base p2) with true by (symmetry; apply Z.leb_le; lia).
      replace (0 <=? n) with true by (symmetry; apply Z.leb_le; lia).
      replace (n <=? 256) with true by (symmetry; apply Z.leb_le; lia).
      rewrite Hmi. cbn [andb].
      replace (forallb (fun m0 => (m0 <? p_base p2 + n) && negb (recorded s' m0)) m) with true.
      2:{ symmetry. apply forallb_forall. intros x Hx. destruct (Hm1 x Hx) as [Hx1 Hx2].
          rewrite (same_view_rec s1 s' x B). destruct (hb_missing_props x Hx1) as (_ & _ & K). rewrite K.
          apply andb_true_iff. split; [apply Z.ltb_lt; lia|reflexivity]. }
      assert (Eadv : s_adv s' = Some (first, last)). { destruct B as (_ & _ & _ & _ & Ea & _). rewrite Ea, hb_s1. reflexivity. }
      rewrite Eadv.
      replace (forallb (fun m0 => (first <=? m0) && (m0 <=? last)) m) with true.
      2:{ symmetry. apply forallb_forall. intros x Hx. destruct (Hm1 x Hx) as [Hx1 _].
          destruct (hb_missing_props x Hx1) as (R & _). apply andb_true_iff. split; apply Z.leb_le; lia. }
      replace (count_okb (s_lastcount s') (snd (nackfrags st w partial (p_an p2)))) with true.
      2:{ symmetry. unfold count_okb. destruct (s_lastcount s') as [l|] eqn:El; [|reflexivity]. apply Z.ltb_lt. now apply C. }
      cbn [andb].
      (* lowest requested *)
      assert (Hlr : lowest_requested_ok s1 (Hb w first last count final)
                (fst (nackfrags st w partial (p_an p2)) ++
                 [AckNack w (p_base p2) n m (snd (nackfrags st w partial (p_an p2)))]) = true).
      { (* the model requests m0 = its ack base, the lowest number that is not recorded; the lowest
           number that is not declared, m1, is at or above it *)
        cbn [lowest_requested_ok]. rewrite hb_lu by lia.
        destruct (lowest_unknown_some s1 (Z.max first 1)) as (m1 & E1). rewrite E1.
        pose proof (lowest_unrecorded_le _ _ _ _ (hb_lu (Z.max first 1) ltac:(lia)) E1) as Hm01.
        destruct (Z.leb_spec m1 last) as [Hle1|]; [|reflexivity].
        assert (Hle : p_base p2 <= last) by lia.
        apply requested_in_spec. exists (p_base p2). split; [lia|].
        rewrite requested_app. destruct (is_partial st w (p_base p2)) eqn:Epa.
        - rewrite nackfrags_requested; [reflexivity| |].
          + unfold partial, hb_partial. apply filter_In. split; [|exact Epa].
            destruct hb_missing_shape as [[_ ?]|(l & E & _)]; [lia|]. rewrite E. apply hb_window_head.
          + unfold missing_frags. unfold is_partial in Epa. destruct (r_asm st w) as [fa|] eqn:Ea; [|discriminate].
            destruct (F.alookup (p_base p2) (F.fa_bufs fa)) as [ab|] eqn:El; [|discriminate].
            destruct HI as (_ & I2 & _). eapply missing_frags_nonempty; [apply (I2 w fa Ea)|exact El].
        - cbn [requested existsb]. rewrite (proj2 (memz_true _ _) (Hm2 eq_refl Hle)). now rewrite orb_true_r. }
      rewrite Hlr. cbn [negb andb].
      eexists. split; [reflexivity|]. cbn [so_base op_writer set_prox r_prox]. rewrite upd_same.
      apply (Inv_set st S w _ _ HI).
      + apply hb_rel_after; cbn [s_lo s_rng s_pts s_hbmax s_lastbase s_lastcount]; try apply B; try lia.
        * right. repeat split; apply B.
        * intros l Hl. inversion Hl. lia.
      + intros sn Hsn. cbn [s_frag]. destruct B as (_ & _ & _ & _ & _ & _ & Ef). rewrite Ef. now apply hb_partial_frag.
    - (* no reply: nothing missing and the final flag is set *)
      apply orb_false_iff in Ereply as [E1 E2]. apply negb_false_iff in E1.
      destruct missing as [|x l] eqn:Em; [|discriminate].
      cbn [fst snd]. unfold mk_sobs. cbn [so_adds so_replies adds_of replies_of flat_map app adds_okb negb].
      rewrite Heff, add_pts_nil. cbn [map replies_ok].
      change (spec_input s (Hb w first last count final)) with s1.
      assert (Hlr : lowest_requested_ok s1 (Hb w first last count final) [] = true).
      { cbn [lowest_requested_ok]. rewrite hb_lu by lia.
        destruct (lowest_unknown_some s1 (Z.max first 1)) as (m1 & Em1). rewrite Em1.
        pose proof (lowest_unrecorded_le _ _ _ _ (hb_lu (Z.max first 1) ltac:(lia)) Em1) as Hm01.
        destruct hb_missing_shape as [[_ Hl]|(l & E & _)]; [|subst missing; congruence].
        destruct (Z.leb_spec m1 last); [lia|reflexivity]. }
      rewrite Hlr. cbn [negb andb].
      eexists. split; [reflexivity|]. cbn [so_base op_writer set_prox r_prox]. rewrite upd_same.
      apply (Inv_set st S w _ _ HI).
      + replace p2 with (set_an p2 (p_an p2)) by (destruct p2; reflexivity).
        apply hb_rel_after; try reflexivity; try assumption. now left.
      + intros sn Hsn. now apply hb_partial_frag.
  Qed.
  (* the base of the ACKNACK is the proxy's ack base after the HEARTBEAT, and everything below it is
     RECORDED (more than the property asks for: base_truthful only needs DECLARED) *)
  Lemma hb_sns_base b n m : hb_sns st w p2 missing = (b, n, m) -> b = p_base p2.
  Proof.
    unfold hb_sns. destruct hb_first_le as [_ Hb1]. destruct hb_missing_shape as [[E _]|(l & E & Hl)]; rewrite E.
    - intros H. now inversion H.
    - assert (Hinc : incr_from (p_base p2) (filter (fun s0 => negb (is_partial st w s0)) (hb_window (p_base p2 :: l))) = true).
      { apply incr_from_filter, hb_window_incr. rewrite <- E. apply missing_incr. }
      destruct (fbs_spec _ _ Hb1 Hinc) as (n' & m' & E' & _). rewrite E'. intros H. now inversion H.
  Qed.

  Lemma nackfrags_no_acknack partial : forall cnt w' b n m c,
    ~ In (AckNack w' b n m c) (fst (nackfrags st w partial cnt)).
  Proof.
    induction partial as [|sn rest IH]; intros cnt w' b n m c; cbn [nackfrags]; [intros []|].
    destruct (missing_frags st w sn) as [|f0 fl]; [apply IH|].
    destruct (from_base_and_set f0 (f0 :: fl)) as [[b0 n0] m0]. cbn [fst]. intros [H|H]; [discriminate|].
    now apply IH in H.
  Qed.

  Lemma hb_ack_base w' b n m c :
    In (OReply (AckNack w' b n m c)) (snd (handle_heartbeat true st w p first last count final)) ->
    b = p_base p2 /\ forall x, x < b -> recorded s1 x = true.
  Proof.
    unfold handle_heartbeat. destruct (Z.leb_spec count (p_hb p)) as [|_]; [lia|].
    fold p2. fold last_chk. fold missing.
    destruct (negb (match missing with [] => true | _ => false end) || negb final).
    - destruct (hb_sns st w p2 missing) as [[b0 n0] m0] eqn:Esns. cbn [snd].
      intros [H|H]; [discriminate|]. apply in_app_or in H as [H|[H|[]]].
      + apply in_map_iff in H as (r & Hr & Hin). inversion Hr; subst r. now apply nackfrags_no_acknack in Hin.
      + injection H as _ Hb _ _ _. apply hb_sns_base in Esns. rewrite <- Hb, Esns. split; [reflexivity|].
        intros x Hx. now apply hb_below_known.
    - cbn [snd]. intros [H|[]]. discriminate.
  Qed.
  (* the code as it is requests its ack base itself — the lowest number it has not recorded — whenever
     the advertised range reaches it (more specific than the oracle's tolerant clause, which accepts
     any number between the lowest not-recorded and the lowest not-declared one) *)
  Lemma hb_requests_base : p_base p2 <= last ->
    requested (p_base p2) (replies_of (snd (handle_heartbeat true st w p first last count final))) = true.
  Proof.
    intros Hle. unfold handle_heartbeat. destruct (Z.leb_spec count (p_hb p)) as [|_]; [lia|].
    fold p2. fold last_chk. fold missing.
    destruct hb_first_le as [Hf1 Hb1].
    destruct hb_missing_shape as [[_ ?]|(l & E & _)]; [lia|].
    rewrite E. cbn [negb orb].
    destruct (hb_sns st w p2 (p_base p2 :: l)) as [[b n] m] eqn:Esns. cbn [snd].
    rewrite replies_of_mark, replies_of_app, replies_of_map. cbn [replies_of flat_map app].
    rewrite requested_app. destruct (is_partial st w (p_base p2)) eqn:Epa.
    - rewrite nackfrags_requested; [reflexivity| |].
      + unfold hb_partial. apply filter_In. split; [apply hb_window_head|exact Epa].
      + unfold missing_frags. unfold is_partial in Epa. destruct (r_asm st w) as [fa|] eqn:Ea; [|discriminate].
        destruct (F.alookup (p_base p2) (F.fa_bufs fa)) as [ab|] eqn:El; [|discriminate].
        destruct HI as (_ & I2 & _). eapply missing_frags_nonempty; [apply (I2 w fa Ea)|exact El].
    - unfold hb_sns in Esns.
      assert (Hinc : incr_from (p_base p2) (filter (fun s0 => negb (is_partial st w s0)) (hb_window (p_base p2 :: l))) = true).
      { apply incr_from_filter, hb_window_incr. rewrite <- E. apply missing_incr. }
      destruct (fbs_spec _ _ Hb1 Hinc) as (n' & m' & E' & _ & _ & _ & Hm2 & _).
      rewrite E' in Esns. injection Esns as <- <- <-.
      cbn [requested existsb].
      assert (Hin : In (p_base p2) m').
      { apply Hm2; [|lia]. apply filter_In. split; [apply hb_window_head|now rewrite Epa]. }
      apply memz_true in Hin. rewrite Hin. now rewrite orb_true_r.
  Qed.
End Heartbeat.
