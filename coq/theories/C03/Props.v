(* C03 — property theorems only.  Statements are pinned by ./check; proofs are one `exact`.

   Vocabulary (C03/Model.v, C03/Theorems.v).  [L c] is the list of per-submessage observations of
   the model on case c (replies in wire order, cache changes added).  [summary_at c i o so s s1]:
   at step i submessage o was handled with observation so; s is the history summary of o's writer
   before the step and s1 the summary including o and the cache changes it caused.  A summary
   records only inputs and observed outputs: [known s1 m] (DECLARED) = m < first_sn of an effective
   HEARTBEAT, or m in a valid GAP's range/bitmap, or the sample m was added to the topic cache.
   [recorded s1 m] (RECORDED) = the same, except that a GAP range that started above the ack base
   the reader had when the GAP arrived (all_ackable_before observed after the previous submessage
   of that writer) counts only up to that ack base + 256: what RtpsWriterProxy::
   irrelevant_changes_range takes note of since repo fix c71c7f1.  recorded -> known
   (C03_recorded_sub_declared).
   [in_advertised s1 x] = x lies in the range of the last effective HEARTBEAT. *)
From Coq Require Import List ZArith Bool.
From RD Require Import C03.Model C03.Oracle C03.Sim C03.Proofs C03.Theorems.
Import ListNotations.
Open Scope Z_scope.

(* the model satisfies the oracle on every case *)
Theorem C03_model_ok : forall c, ok c (run c) = true.
Proof. exact run_ok. Qed.
Print Assumptions C03_model_ok.

(* what the oracle's verdict means, step by step: every reply satisfies ReplyP against the summary
   of its writer (base: everything below it DECLARED; bits and NACKFRAG subjects: not RECORDED), if
   an effective HEARTBEAT's range contains a number that is not DECLARED then some number between the
   lowest not-RECORDED and the lowest not-DECLARED one is requested ([LowestReqP]), a submessage adds
   at most its own sample to the cache *)
Theorem C03_oracle_sound : forall S o so S', step_ok S o so = Some S' -> StepP S o so S'.
Proof. exact step_ok_sound. Qed.
Print Assumptions C03_oracle_sound.

(* ... and for a whole run: every step is judged, counts grow and bases never decrease *)
Theorem C03_oracle_sound_run : forall ops l S, chk S ops l = true ->
  (forall i o so Si, nth_error ops i = Some o -> nth_error l i = Some so ->
     nth_error (states S ops l) i = Some Si -> exists S', StepP Si o so S')
  /\ forall w, match S w with
               | Some s => incr_opt (s_lastcount s) (map count_of (replies_to w l))
                           /\ mono_from (s_lastbase s) (flat_map base_of (replies_to w l))
               | None => replies_to w l = []
               end.
Proof. exact oracle_sound_run. Qed.
Print Assumptions C03_oracle_sound_run.

(* every ACKNACK: everything below its base was received or declared unavailable (DECLARED) *)
Theorem C03_base_truthful : forall c i o so s s1, wf_case c = true -> summary_at c i o so s s1 ->
  forall w base n bits cnt, In (AckNack w base n bits cnt) (so_replies so) ->
  w = op_writer o /\ forall m, 1 <= m < base -> known s1 m = true.
Proof. exact base_truthful. Qed.
Print Assumptions C03_base_truthful.

(* the model gives more than the property asks: everything below an ACKNACK's base is even RECORDED
   (the base is the reader's ack base: the lowest number it has neither received nor taken note of);
   with C03_recorded_sub_declared this implies C03_base_truthful *)
Theorem C03_base_recorded : forall c i o so s s1, wf_case c = true -> summary_at c i o so s s1 ->
  forall w base n bits cnt, In (AckNack w base n bits cnt) (so_replies so) ->
  forall m, m < base -> recorded s1 m = true.
Proof. exact base_recorded. Qed.
Print Assumptions C03_base_recorded.

(* RECORDED is part of DECLARED, for every summary whatsoever ... *)
Theorem C03_recorded_sub_declared : forall s m, recorded s m = true -> known s m = true.
Proof. exact recorded_sub_known. Qed.
Print Assumptions C03_recorded_sub_declared.

(* ... and the difference is exactly the far part of GAP ranges that started above the reader's ack
   base: a declared number that is not recorded (the only declared numbers an ACKNACK may list,
   C03_bits_missing) lies at ack base + 256 or above in such a range *)
Theorem C03_declared_not_recorded_far : forall s m, known s m = true -> recorded s m = false ->
  exists r, In r (s_rng s) /\ g_ackbase r < g_from r /\ g_from r <= m /\ g_ackbase r + 256 <= m < g_until r.
Proof. exact declared_not_recorded_far. Qed.
Print Assumptions C03_declared_not_recorded_far.

(* the bases of the ACKNACKs sent to one writer never decrease along a run *)
Theorem C03_base_monotone : forall c w, wf_case c = true ->
  mono_from 1 (flat_map base_of (replies_to w (L c))).
Proof. exact base_monotone. Qed.
Print Assumptions C03_base_monotone.

(* every number listed as missing is really missing — neither received nor recorded as unavailable
   — and inside the last advertised range; at most 256 bits *)
Theorem C03_bits_missing : forall c i o so s s1, wf_case c = true -> summary_at c i o so s s1 ->
  forall w base n bits cnt, In (AckNack w base n bits cnt) (so_replies so) ->
  0 <= n <= 256 /\ forall x, In x bits -> base <= x < base + n /\ recorded s1 x = false /\ in_advertised s1 x.
Proof. exact bits_missing. Qed.
Print Assumptions C03_bits_missing.

(* "Whenever the advertised range contains a missing sample, the lowest one is requested": after an
   effective HEARTBEAT(first, last) whose range contains a number that is not DECLARED (m1 = the
   lowest such number at or above max(first, 1)), some number r between m0 — the lowest number at or
   above max(first, 1) that is not RECORDED — and m1 is requested: a set bit of the ACKNACK or the
   subject of a NACKFRAG of the same reply; m0 <= m1 always.  Windows wider than 256 are inside the
   quantifier.  Which r depends on how much of a GAP range that started above its ack base the
   reader remembers (the code as it is: r = m0, see C03_lowest_unrecorded_requested; a reader that
   remembers everything it was told: r = m1); r is in any case not RECORDED (C03_bits_missing,
   C03_nackfrag_sound), and no reader may skip beyond m1. *)
Theorem C03_lowest_requested : forall c i w first last count final so s s1, wf_case c = true ->
  summary_at c i (Hb w first last count final) so s s1 ->
  effective_hb s (Hb w first last count final) = true ->
  forall m0 m1, Z.max first 1 <= m1 <= last -> known s1 m1 = false ->
    (forall m, Z.max first 1 <= m < m1 -> known s1 m = true) ->
    Z.max first 1 <= m0 -> recorded s1 m0 = false ->
    (forall m, Z.max first 1 <= m < m0 -> recorded s1 m = true) ->
    m0 <= m1 /\ exists r, m0 <= r <= m1 /\ requested r (so_replies so) = true.
Proof. exact lowest_requested. Qed.
Print Assumptions C03_lowest_requested.

(* ... and when RECORDED and DECLARED agree below m1 (no GAP of the history was cut there; in
   particular in every history without a GAP that started above the ack base and reached beyond
   ack base + 256) the lowest not-DECLARED number of the range itself is requested *)
Theorem C03_lowest_requested_exact : forall c i w first last count final so s s1, wf_case c = true ->
  summary_at c i (Hb w first last count final) so s s1 ->
  effective_hb s (Hb w first last count final) = true ->
  forall m1, Z.max first 1 <= m1 <= last -> known s1 m1 = false ->
    (forall m, Z.max first 1 <= m < m1 -> known s1 m = true) ->
    (forall m, Z.max first 1 <= m < m1 -> recorded s1 m = known s1 m) ->
    requested m1 (so_replies so) = true.
Proof. exact lowest_requested_exact. Qed.
Print Assumptions C03_lowest_requested_exact.

(* the oracle's clause is that statement (for every summary and reply list) ... *)
Theorem C03_lowest_requested_clause : forall s w first last count final rs,
  lowest_requested_ok s (Hb w first last count final) rs = true ->
  forall m0 m1, Z.max first 1 <= m1 <= last -> known s m1 = false ->
    (forall m, Z.max first 1 <= m < m1 -> known s m = true) ->
    Z.max first 1 <= m0 -> recorded s m0 = false ->
    (forall m, Z.max first 1 <= m < m0 -> recorded s m = true) ->
    m0 <= m1 /\ exists r, m0 <= r <= m1 /\ requested r rs = true.
Proof. exact lowest_requested_ok_spec. Qed.
Print Assumptions C03_lowest_requested_clause.

(* ... and where RECORDED and DECLARED agree on the advertised range it is the exact clause "the lowest
   not-DECLARED number of the range is requested" *)
Theorem C03_lowest_requested_exact_when_no_cut : forall s w first last count final rs,
  (forall m, Z.max first 1 <= m <= last -> recorded s m = known s m) ->
  lowest_requested_ok s (Hb w first last count final) rs
  = match lowest_unknown s (Z.max first 1) with
    | Some m1 => if m1 <=? last then requested m1 rs else true
    | None => false
    end.
Proof. exact lowest_requested_exact_when_no_cut. Qed.
Print Assumptions C03_lowest_requested_exact_when_no_cut.

(* the model gives more than the oracle asks: it requests m0 itself, the lowest number of the range
   that is not RECORDED (= the reader's ack base), also when that number was declared in the far
   part of a GAP the reader cut — the code as it is asks again for what it forgot *)
Theorem C03_lowest_unrecorded_requested : forall c i w first last count final so s s1, wf_case c = true ->
  summary_at c i (Hb w first last count final) so s s1 ->
  effective_hb s (Hb w first last count final) = true ->
  forall m0, Z.max first 1 <= m0 <= last -> recorded s1 m0 = false ->
    (forall m, Z.max first 1 <= m < m0 -> recorded s1 m = true) ->
    requested m0 (so_replies so) = true.
Proof. exact lowest_unrecorded_requested. Qed.
Print Assumptions C03_lowest_unrecorded_requested.

(* a NACKFRAG names a missing (not recorded) sample of the advertised range of which a DATAFRAG was seen, its
   set is non-empty, starts at its base and spans at most 256 fragment numbers ... *)
Theorem C03_nackfrag_sound : forall c i o so s s1, wf_case c = true -> summary_at c i o so s s1 ->
  forall w sn base n bits cnt, In (NackFrag w sn base n bits cnt) (so_replies so) ->
  w = op_writer o /\ recorded s1 sn = false /\ in_advertised s1 sn /\ In sn (s_frag s1)
  /\ 1 <= base /\ 0 <= n <= 256 /\ (forall x, In x bits -> base <= x < base + n) /\ In base bits.
Proof. exact nackfrag_sound. Qed.
Print Assumptions C03_nackfrag_sound.

(* ... and (at the level of the model state) its set is exactly the assembler's missing-fragment
   report — the fragment numbers whose bit is clear in the assembly buffer (C05) — cut to the 256
   numbers starting at the lowest missing one *)
Theorem C03_nackfrag_exact : forall st w p first last count final r,
  In (OReply r) (snd (handle_heartbeat true st w p first last count final)) ->
  match r with
  | AckNack _ _ _ _ _ => True
  | NackFrag w' sn b n m c =>
      exists f0 rest, missing_frags st w sn = f0 :: rest /\ b = f0 /\ 0 <= n <= 256
        /\ (forall k, In k m <-> In k (missing_frags st w sn) /\ k < f0 + 256)
  end.
Proof. exact nackfrag_exact. Qed.
Print Assumptions C03_nackfrag_exact.

(* the counts of the ACKNACK and NACKFRAG submessages sent to one writer are strictly increasing in
   wire order (counts in Z: the i32 wrap after 2^31 replies is outside the statement) *)
Theorem C03_count_increasing : forall c w, wf_case c = true ->
  incr_opt None (map count_of (replies_to w (L c))).
Proof. exact count_increasing. Qed.
Print Assumptions C03_count_increasing.

(* the model's reader never takes the [OPanic] outcome of the fragment assembler (C05's debug-build
   arithmetic): along every well-formed history no step panics *)
Theorem C03_no_panic : forall c, wf_case c = true -> never_panics (init (c_matched c)) (c_ops c) = true.
Proof. exact no_panic. Qed.
Print Assumptions C03_no_panic.

(* the code before the fix: commit sent the NACKFRAGs with counts above the count of the ACKNACK that
   follows them (witness replayed on the real code: corpus case 0) *)
Theorem C03_count_old_refuted : exists c, ok c (run_old c) = false.
Proof. exact (ex_intro _ witness_count count_old_refuted). Qed.
Print Assumptions C03_count_old_refuted.

(* the GAP window made visible (see Theorems.v for the narrative): a GAP far above the ack base is
   recorded only in the 256-window, the far numbers are requested again once the base has advanced,
   and the writer's renewed GAP from the base clears them *)
Example C03_gap_window_example :
  wf_case gw_case = true
  /\ map (fun so => (so_base so, so_nch so)) (L gw_case)
     = [(1, 252); (1, 252); (2, 253); (3, 254); (4, 255); (257, 256); (257, 256); (1000, 256); (1000, 256)]
  /\ map gw_acks (L gw_case)
     = [[]; [(1, 4, 1, 4)]; []; []; []; []; [(257, 256, 257, 512)]; []; [(1000, 201, 1000, 1200)]]
  /\ option_map (fun s => (known s 256, recorded s 256, known s 300, recorded s 300, s_base s)) (gw_summary 7)
     = Some (true, true, true, false, 257)
  /\ option_map (fun s => (recorded s 300, recorded s 999, recorded s 1000, s_base s)) (gw_summary 8)
     = Some (true, true, false, 1000).
Proof. exact gap_window_example. Qed.

(* the tolerance made visible (Theorems.v, tolerance_example): GAP [5,1000) at ack base 1, DATA 1..4,
   HEARTBEAT(1..1200); m0 = 257, m1 = 1000.  The model requests 257..512; observations of readers that
   request from 257, 513 or 1000 pass the oracle, one that has base 1000 and starts at 1001 fails; and
   without a cut GAP, skipping the lowest missing number fails *)
Example C03_tolerance_example :
  option_map so_replies (nth_error (L tol_case) 5) = Some [AckNack 1 257 256 (iota 257 256) 0]
  /\ ok tol_case (run tol_case) = true
  /\ ok tol_case (tol_obs 257 256 (iota 257 256)) = true
  /\ ok tol_case (tol_obs 513 256 (iota 513 256)) = true
  /\ ok tol_case (tol_obs 1000 201 (iota 1000 201)) = true
  /\ ok tol_case (tol_obs 1000 201 (iota 1001 200)) = false
  /\ ok tol_case (tol_obs 257 256 (iota 258 255)) = true
  /\ ok tol_case0 (ORun [tol_so [] 1 [AckNack 1 1 256 (iota 1 256) 0]]) = true
  /\ ok tol_case0 (ORun [tol_so [] 1 [AckNack 1 1 256 (iota 2 255) 0]]) = false.
Proof. exact tolerance_example. Qed.

(* non-vacuity: the witness is well-formed, and its reply carries a NACKFRAG and an ACKNACK with a
   set bit *)
Example C03_witness_nonvacuous :
  wf_case witness_count = true
  /\ nth_error (L witness_count) 1
     = Some {| so_replies := [NackFrag 1 1 2 2 [2; 3] 0; AckNack 1 1 2 [2] 1]; so_adds := [];
               so_base := 1; so_nch := 0; so_sum := 0 |}.
Proof. exact witness_nonvacuous. Qed.
