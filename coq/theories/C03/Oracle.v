(* C03 — the oracle's [lowest_unknown]: it really is the least number >= x that the history summary
   does not know. *)
From Coq Require Import List ZArith Lia Bool.
From RD Require Import C03.Model C03.Proxy.
Import ListNotations.
Open Scope Z_scope.

Lemma minl_spec l : forall x, In (minl x l) (x :: l) /\ forall y, In y (x :: l) -> minl x l <= y.
Proof.
  induction l as [|z l IH]; intros x; cbn [minl].
  - split; [now left|]. intros y [->|[]]; lia.
  - destruct (IH (Z.min x z)) as [A B]. split.
    + destruct A as [A|A]; [|right; right; exact A].
      rewrite <- A. destruct (Z.min_spec x z) as [[_ E]|[_ E]]; [left|right; left]; lia.
    + intros y [->|[->|Hy]].
      * specialize (B (Z.min y z) (or_introl eq_refl)). lia.
      * specialize (B (Z.min x y) (or_introl eq_refl)). lia.
      * apply B. now right.
Qed.

Lemma known_cases s m : known s m = true <->
  m < s_lo s \/ (exists r, In r (s_rng s) /\ g_from r <= m < g_until r) \/ In m (s_pts s).
Proof.
  unfold known. rewrite !orb_true_iff, Z.ltb_lt, existsb_exists, memz_true.
  split.
  - intros [[A|(r & A & B)]|A]; [now left|right; left|now right; right].
    exists r. split; [exact A|]. unfold in_rng in B. apply andb_true_iff in B as [B1 B2].
    apply Z.leb_le in B1. apply Z.ltb_lt in B2. lia.
  - intros [A|[(r & A & B)|A]]; [now left; left|left; right|now right].
    exists r. split; [exact A|]. unfold in_rng. apply andb_true_iff. split; [apply Z.leb_le|apply Z.ltb_lt]; lia.
Qed.

(* the least unknown number above x is a candidate *)
Lemma least_unknown_cand s x m :
  x <= m -> known s m = false -> (forall m', x <= m' < m -> known s m' = true) ->
  In m (x :: cands s).
Proof.
  intros Hx Hm Hbelow. destruct (Z.eq_dec m x) as [->|Hne]; [now left|]. right.
  assert (Hp : known s (m - 1) = true) by (apply Hbelow; lia).
  apply known_cases in Hp. unfold cands.
  assert (Hnk : ~ (m < s_lo s \/ (exists r, In r (s_rng s) /\ g_from r <= m < g_until r) \/ In m (s_pts s))).
  { rewrite <- known_cases. congruence. }
  destruct Hp as [A|[(r & A & B)|A]].
  - left. assert (~ m < s_lo s) by tauto. lia.
  - right. apply in_or_app. left. apply in_map_iff. exists r. split; [|exact A].
    assert (~ (g_from r <= m < g_until r)). { intros C. apply Hnk. right; left. exists r. tauto. } lia.
  - right. apply in_or_app. right. apply in_map_iff. exists (m - 1). split; [lia|exact A].
Qed.

(* every unknown number above x has a least unknown one below or at it *)
Lemma exists_least_unknown s x : forall n m, Z.to_nat (m - x) = n -> x <= m -> known s m = false ->
  exists m0, x <= m0 <= m /\ known s m0 = false /\ forall m', x <= m' < m0 -> known s m' = true.
Proof.
  induction n as [n IH] using lt_wf_ind. intros m Hn Hx Hm.
  destruct (forallb (fun k => known s k) (iota x (Z.to_nat (m - x)))) eqn:E.
  - exists m. split; [lia|]. split; [exact Hm|]. intros m' Hm'.
    rewrite forallb_forall in E. apply E. apply in_iota. lia.
  - assert (exists k, In k (iota x (Z.to_nat (m - x))) /\ known s k = false) as (k & Hk & Hkk).
    { clear - E. induction (iota x (Z.to_nat (m - x))) as [|a l IHl]; [discriminate|].
      cbn [forallb] in E. apply andb_false_iff in E as [E|E].
      - exists a. split; [now left|exact E].
      - destruct (IHl E) as (k & A & B). exists k. split; [now right|exact B]. }
    apply in_iota in Hk.
    destruct (IH (Z.to_nat (k - x)) ltac:(lia) k eq_refl ltac:(lia) Hkk) as (m0 & A & B & C).
    exists m0. split; [lia|]. split; assumption.
Qed.

Lemma lowest_unknown_char s x b :
  x <= b -> known s b = false -> (forall m, x <= m < b -> known s m = true) ->
  lowest_unknown s x = Some b.
Proof.
  intros Hx Hb Hbelow. unfold lowest_unknown.
  set (f := fun c => (x <=? c) && negb (known s c)).
  assert (Hin : In b (filter f (x :: cands s))).
  { apply filter_In. split; [now apply least_unknown_cand|]. subst f. cbn beta.
    rewrite Hb. apply andb_true_iff. split; [apply Z.leb_le; lia|reflexivity]. }
  destruct (filter f (x :: cands s)) as [|c l] eqn:E; [destruct Hin|].
  f_equal. destruct (minl_spec l c) as [A B].
  assert (Hge : forall y, In y (c :: l) -> b <= y).
  { intros y Hy. rewrite <- E in Hy. apply filter_In in Hy as [_ Hy]. subst f. cbn beta in Hy.
    apply andb_true_iff in Hy as [Hy1 Hy2]. apply Z.leb_le in Hy1. apply negb_true_iff in Hy2.
    destruct (Z.lt_ge_cases y b); [|assumption]. rewrite Hbelow in Hy2 by lia. discriminate. }
  specialize (B b Hin). specialize (Hge _ A). lia.
Qed.

Lemma lowest_unknown_sound s x lu :
  lowest_unknown s x = Some lu ->
  x <= lu /\ known s lu = false /\ forall m, x <= m < lu -> known s m = true.
Proof.
  unfold lowest_unknown. set (f := fun c => (x <=? c) && negb (known s c)).
  destruct (filter f (x :: cands s)) as [|c l] eqn:E; [discriminate|]. intros H. inversion H; subst lu. clear H.
  destruct (minl_spec l c) as [A B]. rewrite <- E in A.
  assert (A' := A). apply filter_In in A' as [_ A']. subst f. cbn beta in A'.
  apply andb_true_iff in A' as [A1 A2]. apply Z.leb_le in A1. apply negb_true_iff in A2.
  split; [exact A1|]. split; [exact A2|].
  intros m Hm. destruct (known s m) eqn:Ek; [reflexivity|exfalso].
  destruct (exists_least_unknown s x _ m eq_refl ltac:(lia) Ek) as (m0 & H1 & H2 & H3).
  assert (Hc : In m0 (filter (fun c0 => (x <=? c0) && negb (known s c0)) (x :: cands s))).
  { apply filter_In. split; [apply least_unknown_cand; [lia|exact H2|exact H3]|].
    rewrite H2. apply andb_true_iff. split; [apply Z.leb_le; lia|reflexivity]. }
  rewrite E in Hc. specialize (B _ Hc). lia.
Qed.

(* ---------------------------------------------------------------------------------------- *)
(* RECORDED is part of DECLARED, for every summary *)
Lemma g_cut_le r : g_cut r <= g_until r.
Proof. unfold g_cut. destruct (g_from r <=? g_ackbase r); lia. Qed.

Lemma in_rng_rec m r : in_rng m (rec_rng r) = true -> in_rng m r = true.
Proof.
  unfold in_rng. cbn [rec_rng g_from g_until]. rewrite !andb_true_iff, !Z.leb_le, !Z.ltb_lt.
  pose proof (g_cut_le r). lia.
Qed.

Lemma recorded_unfold s m :
  recorded s m = (m <? s_lo s) || existsb (fun r => (g_from r <=? m) && (m <? g_cut r)) (s_rng s) || memz m (s_pts s).
Proof.
  unfold recorded, known, rec_view. cbn [s_lo s_rng s_pts]. f_equal. f_equal.
  induction (s_rng s) as [|r l IH]; [reflexivity|]. cbn [map existsb]. now rewrite IH.
Qed.

Lemma recorded_sub_known s m : recorded s m = true -> known s m = true.
Proof.
  unfold recorded, known, rec_view. cbn [s_lo s_rng s_pts]. rewrite !orb_true_iff.
  intros [[A|A]|A]; [now left; left| |now right]. left; right.
  apply existsb_exists in A as (r' & Hin & Hr). apply in_map_iff in Hin as (r & <- & Hin).
  apply existsb_exists. exists r. split; [exact Hin|now apply in_rng_rec].
Qed.

(* a GAP range that started at or below the ack base of its time, or ended within 256 numbers of it,
   is recorded whole *)
Lemma g_cut_whole r : g_from r <= g_ackbase r \/ g_until r <= g_ackbase r + 256 -> g_cut r = g_until r.
Proof. unfold g_cut. destruct (Z.leb_spec (g_from r) (g_ackbase r)); lia. Qed.

(* there is always a number the summary does not know: lowest_unknown never answers None *)
Definition ubound (s : wspec) : Z := fold_right Z.max (s_lo s) (map g_until (s_rng s) ++ map (fun p => p + 1) (s_pts s)).
Lemma fold_max_ge l : forall a x, In x (a :: l) -> x <= fold_right Z.max a l.
Proof.
  induction l as [|y l IH]; intros a x H; cbn [fold_right].
  - destruct H as [->|[]]. lia.
  - destruct H as [->|[->|H]].
    + specialize (IH x x (or_introl eq_refl)). lia.
    + lia.
    + specialize (IH a x (or_intror H)). lia.
Qed.
Lemma known_below_ubound s m : known s m = true -> m < ubound s.
Proof.
  intros H. apply known_cases in H. unfold ubound.
  set (l := map g_until (s_rng s) ++ map (fun p => p + 1) (s_pts s)).
  destruct H as [A|[(r & A & B)|A]].
  - pose proof (fold_max_ge l (s_lo s) (s_lo s) (or_introl eq_refl)). lia.
  - assert (Hin : In (g_until r) (s_lo s :: l)). { right. apply in_or_app. left. now apply in_map. }
    pose proof (fold_max_ge l _ _ Hin). lia.
  - assert (Hin : In (m + 1) (s_lo s :: l)). { right. apply in_or_app. right. apply in_map_iff. now exists m. }
    pose proof (fold_max_ge l _ _ Hin). lia.
Qed.
Lemma lowest_unknown_some s x : exists lu, lowest_unknown s x = Some lu.
Proof.
  set (m := Z.max x (ubound s)).
  assert (Hm : known s m = false).
  { destruct (known s m) eqn:E; [|reflexivity]. apply known_below_ubound in E. lia. }
  destruct (exists_least_unknown s x _ m eq_refl ltac:(lia) Hm) as (m0 & A & B & C).
  exists m0. apply lowest_unknown_char; [lia|exact B|exact C].
Qed.

(* ---------------------------------------------------------------------------------------- *)
(* the tolerant "lowest missing one is requested" clause (lowest_requested_ok) *)

(* the lowest not-RECORDED number is never above the lowest not-DECLARED one *)
Lemma lowest_unrecorded_le s x m0 m1 :
  lowest_unrecorded s x = Some m0 -> lowest_unknown s x = Some m1 -> m0 <= m1.
Proof.
  unfold lowest_unrecorded. intros H0 H1.
  apply lowest_unknown_sound in H0 as (A0 & B0 & C0). apply lowest_unknown_sound in H1 as (A1 & B1 & C1).
  destruct (Z.le_gt_cases m0 m1) as [|H]; [assumption|exfalso].
  assert (Hr : recorded s m1 = true) by (apply C0; lia).
  apply recorded_sub_known in Hr. congruence.
Qed.

Lemma in_iv_spec lo hi m : in_iv lo hi m = true <-> lo <= m <= hi.
Proof. unfold in_iv. rewrite andb_true_iff, !Z.leb_le. tauto. Qed.

(* [requested_in lo hi rs]: the reply list asks for some number of [lo, hi] *)
Lemma requested_in_spec lo hi rs :
  requested_in lo hi rs = true <-> exists r, lo <= r <= hi /\ requested r rs = true.
Proof.
  unfold requested_in, requested. rewrite existsb_exists. split.
  - intros (rp & Hin & H). destruct rp as [w b n bits c|w sn b n bits c].
    + apply existsb_exists in H as (m & Hm & Hiv). exists m. split; [now apply in_iv_spec|].
      apply existsb_exists. exists (AckNack w b n bits c). split; [exact Hin|now apply memz_true].
    + exists sn. split; [now apply in_iv_spec|].
      apply existsb_exists. exists (NackFrag w sn b n bits c). split; [exact Hin|apply Z.eqb_refl].
  - intros (m & Hm & H). apply existsb_exists in H as (rp & Hin & H). exists rp. split; [exact Hin|].
    destruct rp as [w b n bits c|w sn b n bits c].
    + apply existsb_exists. exists m. split; [now apply memz_true|now apply in_iv_spec].
    + apply Z.eqb_eq in H. subst sn. now apply in_iv_spec.
Qed.

Lemma requested_in_point m rs : requested_in m m rs = requested m rs.
Proof.
  destruct (requested m rs) eqn:E.
  - apply requested_in_spec. exists m. split; [lia|exact E].
  - destruct (requested_in m m rs) eqn:E'; [|reflexivity].
    apply requested_in_spec in E' as (r & Hr & H). assert (r = m) by lia. subst r. congruence.
Qed.

(* the clause, read in Prop *)
Lemma lowest_requested_ok_spec s w first last count final rs :
  lowest_requested_ok s (Hb w first last count final) rs = true ->
  forall m0 m1, Z.max first 1 <= m1 <= last -> known s m1 = false ->
    (forall m, Z.max first 1 <= m < m1 -> known s m = true) ->
    Z.max first 1 <= m0 -> recorded s m0 = false ->
    (forall m, Z.max first 1 <= m < m0 -> recorded s m = true) ->
    m0 <= m1 /\ exists r, m0 <= r <= m1 /\ requested r rs = true.
Proof.
  cbn [lowest_requested_ok]. intros H m0 m1 R1 K1 B1 R0 K0 B0.
  pose proof (lowest_unknown_char s _ m1 (proj1 R1) K1 B1) as E1.
  pose proof (lowest_unknown_char (rec_view s) _ m0 R0 K0 B0) as E0.
  fold (lowest_unrecorded s (Z.max first 1)) in E0. rewrite E0, E1 in H.
  split; [exact (lowest_unrecorded_le _ _ _ _ E0 E1)|].
  destruct (Z.leb_spec m1 last); [|lia]. now apply requested_in_spec.
Qed.

(* when RECORDED and DECLARED agree on the advertised range (no GAP of the history was cut inside
   it), the clause is the exact one: the lowest not-DECLARED number of the range is requested *)
Lemma lowest_requested_exact_when_no_cut s w first last count final rs :
  (forall m, Z.max first 1 <= m <= last -> recorded s m = known s m) ->
  lowest_requested_ok s (Hb w first last count final) rs
  = match lowest_unknown s (Z.max first 1) with
    | Some m1 => if m1 <=? last then requested m1 rs else true
    | None => false
    end.
Proof.
  intros Hag. cbn [lowest_requested_ok].
  destruct (lowest_unknown_some (rec_view s) (Z.max first 1)) as (m0 & E0).
  fold (lowest_unrecorded s (Z.max first 1)) in E0.
  destruct (lowest_unknown_some s (Z.max first 1)) as (m1 & E1). rewrite E0, E1.
  destruct (Z.leb_spec m1 last) as [Hle|]; [|reflexivity].
  pose proof (lowest_unrecorded_le _ _ _ _ E0 E1) as Hm.
  unfold lowest_unrecorded in E0. apply lowest_unknown_sound in E0 as (A0 & B0 & _).
  apply lowest_unknown_sound in E1 as (A1 & _ & C1).
  assert (m0 = m1).
  { destruct (Z.eq_dec m0 m1) as [|N]; [assumption|exfalso].
    fold (recorded s m0) in B0. rewrite Hag in B0 by lia. rewrite C1 in B0 by lia. discriminate. }
  subst m0. apply requested_in_point.
Qed.
