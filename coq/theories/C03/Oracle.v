(* C03 — the oracle's [lowest_unknown]: it really is the least number >= x that the history summary
   does not know. *)
From Coq Require Import List ZArith Lia Bool.
From RD Require Import C03.Model C03.Proxy.
Import ListNotations.
Open Scope Z_scope.

Lemma minl_spec l : forall x, In (minl x l) (x :: l) /\ forall y, In y (x :: l) -> minl x l <= y.
Proof.
  induction l as [|z l IH]; intros x; cbn [minl].
  - split; [now left|]. intros y [->|[]]; lia.
  - destruct (IH (Z.min x z)) as [A B]. split.
    + destruct A as [A|A]; [|right; right; exact A].
      rewrite <- A. destruct (Z.min_spec x z) as [[_ E]|[_ E]]; [left|right; left]; lia.
    + intros y [->|[->|Hy]].
      * specialize (B (Z.min y z) (or_introl eq_refl)). lia.
      * specialize (B (Z.min x y) (or_introl eq_refl)). lia.
      * apply B. now right.
Qed.

Lemma known_cases s m : known s m = true <->
  m < s_lo s \/ (exists r, In r (s_rng s) /\ fst r <= m < snd r) \/ In m (s_pts s).
Proof.
  unfold known. rewrite !orb_true_iff, Z.ltb_lt, existsb_exists, memz_true.
  split.
  - intros [[A|(r & A & B)]|A]; [now left|right; left|now right; right].
    exists r. split; [exact A|]. unfold in_rng in B. apply andb_true_iff in B as [B1 B2].
    apply Z.leb_le in B1. apply Z.ltb_lt in B2. lia.
  - intros [A|[(r & A & B)|A]]; [now left; left|left; right|now right].
    exists r. split; [exact A|]. unfold in_rng. apply andb_true_iff. split; [apply Z.leb_le|apply Z.ltb_lt]; lia.
Qed.

(* the least unknown number above x is a candidate *)
Lemma least_unknown_cand s x m :
  x <= m -> known s m = false -> (forall m', x <= m' < m -> known s m' = true) ->
  In m (x :: cands s).
Proof.
  intros Hx Hm Hbelow. destruct (Z.eq_dec m x) as [->|Hne]; [now left|]. right.
  assert (Hp : known s (m - 1) = true) by (apply Hbelow; lia).
  apply known_cases in Hp. unfold cands.
  assert (Hnk : ~ (m < s_lo s \/ (exists r, In r (s_rng s) /\ fst r <= m < snd r) \/ In m (s_pts s))).
  { rewrite <- known_cases. congruence. }
  destruct Hp as [A|[(r & A & B)|A]].
  - left. assert (~ m < s_lo s) by tauto. lia.
  - right. apply in_or_app. left. apply in_map_iff. exists r. split; [|exact A].
    assert (~ (fst r <= m < snd r)). { intros C. apply Hnk. right; left. exists r. tauto. } lia.
  - right. apply in_or_app. right. apply in_map_iff. exists (m - 1). split; [lia|exact A].
Qed.

(* every unknown number above x has a least unknown one below or at it *)
Lemma exists_least_unknown s x : forall n m, Z.to_nat (m - x) = n -> x <= m -> known s m = false ->
  exists m0, x <= m0 <= m /\ known s m0 = false /\ forall m', x <= m' < m0 -> known s m' = true.
Proof.
  induction n as [n IH] using lt_wf_ind. intros m Hn Hx Hm.
  destruct (forallb (fun k => known s k) (iota x (Z.to_nat (m - x)))) eqn:E.
  - exists m. split; [lia|]. split; [exact Hm|]. intros m' Hm'.
    rewrite forallb_forall in E. apply E. apply in_iota. lia.
  - assert (exists k, In k (iota x (Z.to_nat (m - x))) /\ known s k = false) as (k & Hk & Hkk).
    { clear - E. induction (iota x (Z.to_nat (m - x))) as [|a l IHl]; [discriminate|].
      cbn [forallb] in E. apply andb_false_iff in E as [E|E].
      - exists a. split; [now left|exact E].
      - destruct (IHl E) as (k & A & B). exists k. split; [now right|exact B]. }
    apply in_iota in Hk.
    destruct (IH (Z.to_nat (k - x)) ltac:(lia) k eq_refl ltac:(lia) Hkk) as (m0 & A & B & C).
    exists m0. split; [lia|]. split; assumption.
Qed.

Lemma lowest_unknown_char s x b :
  x <= b -> known s b = false -> (forall m, x <= m < b -> known s m = true) ->
  lowest_unknown s x = Some b.
Proof.
  intros Hx Hb Hbelow. unfold lowest_unknown.
  set (f := fun c => (x <=? c) && negb (known s c)).
  assert (Hin : In b (filter f (x :: cands s))).
  { apply filter_In. split; [now apply least_unknown_cand|]. subst f. cbn beta.
    rewrite Hb. apply andb_true_iff. split; [apply Z.leb_le; lia|reflexivity]. }
  destruct (filter f (x :: cands s)) as [|c l] eqn:E; [destruct Hin|].
  f_equal. destruct (minl_spec l c) as [A B].
  assert (Hge : forall y, In y (c :: l) -> b <= y).
  { intros y Hy. rewrite <- E in Hy. apply filter_In in Hy as [_ Hy]. subst f. cbn beta in Hy.
    apply andb_true_iff in Hy as [Hy1 Hy2]. apply Z.leb_le in Hy1. apply negb_true_iff in Hy2.
    destruct (Z.lt_ge_cases y b); [|assumption]. rewrite Hbelow in Hy2 by lia. discriminate. }
  specialize (B b Hin). specialize (Hge _ A). lia.
Qed.

Lemma lowest_unknown_sound s x lu :
  lowest_unknown s x = Some lu ->
  x <= lu /\ known s lu = false /\ forall m, x <= m < lu -> known s m = true.
Proof.
  unfold lowest_unknown. set (f := fun c => (x <=? c) && negb (known s c)).
  destruct (filter f (x :: cands s)) as [|c l] eqn:E; [discriminate|]. intros H. inversion H; subst lu. clear H.
  destruct (minl_spec l c) as [A B]. rewrite <- E in A.
  assert (A' := A). apply filter_In in A' as [_ A']. subst f. cbn beta in A'.
  apply andb_true_iff in A' as [A1 A2]. apply Z.leb_le in A1. apply negb_true_iff in A2.
  split; [exact A1|]. split; [exact A2|].
  intros m Hm. destruct (known s m) eqn:Ek; [reflexivity|exfalso].
  destruct (exists_least_unknown s x _ m eq_refl ltac:(lia) Ek) as (m0 & H1 & H2 & H3).
  assert (Hc : In m0 (filter (fun c0 => (x <=? c0) && negb (known s c0)) (x :: cands s))).
  { apply filter_In. split; [apply least_unknown_cand; [lia|exact H2|exact H3]|].
    rewrite H2. apply andb_true_iff. split; [apply Z.leb_le; lia|reflexivity]. }
  rewrite E in Hc. specialize (B _ Hc). lia.
Qed.
