(* C16 — property theorems only.  PARTIAL: cryptographic strength is assumed — every theorem is
   stated for arbitrary primitives [mac enc gtag dec kdf] satisfying the record [ideal]
   (lengths, dec (enc p) = p, tag check = recomputation, ideal injectivity); Instance.v shows the
   hypotheses are satisfiable. *)
From Coq Require Import List ZArith Bool.
From RD Require Import Common.Corr C16.Model C16.Proofs C16.Payload C16.Upper C16.Instance C16.Run C16.Sweep.
Import ListNotations.
Open Scope Z_scope.

Section P.
  Variable mac : bytes -> bytes -> bytes -> bytes.
  Variable enc : bytes -> bytes -> bytes -> bytes.
  Variable gtag : bytes -> bytes -> bytes -> bytes.
  Variable dec : bytes -> bytes -> bytes -> bytes -> option bytes.
  Variable kdf : bool -> bytes -> bytes -> bytes -> bytes.
  Hypothesis I : ideal mac enc gtag dec kdf.

  (* payload level, AES-GCM kinds, through the DATA framing (padding to a multiple of 4): every
     length, exact bytes back (repaired code) *)
  Theorem C16_roundtrip_payload : forall cs store h rs ivs plain e,
    lookup h store = Some rs -> same_key (select rs ScPayload) (select cs ScPayload) ->
    is_gcm (km_kind (select cs ScPayload)) = true ->
    length (km_id (select cs ScPayload)) = 4%nat -> length ivs = 8%nat ->
    encode_payload mac enc gtag kdf cs ivs plain = Some e ->
    decode_payload mac dec kdf true store h (data_framing e) = Some plain.
  Proof. exact (roundtrip_payload_gcm_data mac enc gtag dec kdf I). Qed.

  (* payload level, all four kinds, every length, when the encoded payload arrives as produced
     (DATAFRAG / reassembly cuts at data_size); code as written or repaired *)
  Theorem C16_roundtrip_payload_unframed : forall fixed cs store h rs ivs plain e,
    lookup h store = Some rs -> same_key (select rs ScPayload) (select cs ScPayload) ->
    length (km_id (select cs ScPayload)) = 4%nat -> length ivs = 8%nat ->
    encode_payload mac enc gtag kdf cs ivs plain = Some e ->
    decode_payload mac dec kdf fixed store h e = Some plain.
  Proof. exact (roundtrip_payload_direct mac enc gtag dec kdf I). Qed.

  (* payload level, AES-GMAC kinds through the DATA framing: lengths that are a multiple of 4 (the
     others are the known finding gmac-payload-unaligned) *)
  Theorem C16_roundtrip_payload_gmac_aligned : forall fixed cs store h rs ivs plain e,
    lookup h store = Some rs -> same_key (select rs ScPayload) (select cs ScPayload) ->
    is_gmac (km_kind (select cs ScPayload)) = true ->
    length (km_id (select cs ScPayload)) = 4%nat -> length ivs = 8%nat ->
    (length plain mod 4 = 0)%nat ->
    encode_payload mac enc gtag kdf cs ivs plain = Some e ->
    decode_payload mac dec kdf fixed store h (data_framing e) = Some plain.
  Proof. exact (roundtrip_payload_gmac_data_aligned mac enc gtag dec kdf I). Qed.

  (* submessage level: all kinds, with or without receiver-specific MACs, any receiver list, every
     plaintext; the local endpoint matched to the sending endpoint gets exactly the plaintext *)
  Theorem C16_roundtrip_submessage : forall cs rs_store receivers ivs plain m e store hw w rsj cls matched_local lr,
    session_encoding_materials kdf cs rs_store ScMsg receivers ivs = Some m ->
    encode_unit mac enc gtag m plain = Some e ->
    lookup hw store = Some rsj -> same_key (select rsj ScMsg) (select cs ScMsg) ->
    length (km_id (select cs ScMsg)) = 4%nat -> length ivs = 8%nat ->
    Forall (fun p => length (fst p) = 4%nat) (em_rs m) ->
    rs_agrees kdf (select rsj ScMsg) (km_salt (select cs ScMsg)) (em_rs m) ->
    cls plain = Some w -> lookup hw matched_local = Some lr ->
    decode_submessage mac dec kdf cls store (Some [(hw, w)]) matched_local e = DSuccess plain [lr].
  Proof. exact (roundtrip_submessage mac enc gtag dec kdf I). Qed.

  (* whole-message level *)
  Theorem C16_roundtrip_message : forall cs rs_store receivers ivs plain m e store h rsj info_ok,
    session_encoding_materials kdf cs rs_store ScMsg receivers ivs = Some m ->
    encode_unit mac enc gtag m plain = Some e ->
    lookup h store = Some rsj -> same_key (select rsj ScMsg) (select cs ScMsg) ->
    length (km_id (select cs ScMsg)) = 4%nat -> length ivs = 8%nat ->
    Forall (fun p => length (fst p) = 4%nat) (em_rs m) ->
    rs_agrees kdf (select rsj ScMsg) (km_salt (select cs ScMsg)) (em_rs m) ->
    info_ok plain = true ->
    decode_message mac dec kdf info_ok store h e = DSuccess plain [].
  Proof. exact (roundtrip_message mac enc gtag dec kdf I). Qed.

  (* tamper, payload level: the genuine encoded payload with exactly one of kind / key id / IV
     (session id or suffix) / content / common MAC replaced by ANY other value is rejected *)
  Theorem C16_tamper_payload_gmac : forall fixed store h rs k id iv body cmac,
    lookup h store = Some rs ->
    is_gmac k = true -> length id = 4%nat -> length iv = 12%nat ->
    km_id (select rs ScPayload) = id -> km_kind (select rs ScPayload) = k ->
    cmac = mac (kdf false (km_key (select rs ScPayload)) (km_salt (select rs ScPayload)) (firstn 4 iv)) iv body ->
    (forall k', is_gmac k' = true -> k' <> k ->
       decode_payload mac dec kdf fixed store h (header k' id iv ++ body ++ footer cmac []) = None) /\
    (forall id', length id' = 4%nat -> id' <> id ->
       decode_payload mac dec kdf fixed store h (header k id' iv ++ body ++ footer cmac []) = None) /\
    (forall iv', length iv' = 12%nat -> iv' <> iv ->
       decode_payload mac dec kdf fixed store h (header k id iv' ++ body ++ footer cmac []) = None) /\
    (forall body', body' <> body ->
       decode_payload mac dec kdf fixed store h (header k id iv ++ body' ++ footer cmac []) = None) /\
    (forall cmac', length cmac' = 16%nat -> cmac' <> cmac ->
       decode_payload mac dec kdf fixed store h (header k id iv ++ body ++ footer cmac' []) = None).
  Proof. exact (tamper_payload_gmac mac enc gtag dec kdf I). Qed.

  Theorem C16_tamper_payload_gcm : forall store h rs k id iv plain c cmac padding,
    lookup h store = Some rs ->
    is_gcm k = true -> length id = 4%nat -> length iv = 12%nat ->
    (length padding < 4)%nat -> all_zero padding = true ->
    km_id (select rs ScPayload) = id -> km_kind (select rs ScPayload) = k ->
    let sk := kdf false (km_key (select rs ScPayload)) (km_salt (select rs ScPayload)) (firstn 4 iv) in
    c = enc sk iv plain -> cmac = gtag sk iv plain ->
    (forall k', is_gcm k' = true -> k' <> k ->
       decode_payload mac dec kdf true store h (header k' id iv ++ content c ++ footer cmac [] ++ padding) = None) /\
    (forall id', length id' = 4%nat -> id' <> id ->
       decode_payload mac dec kdf true store h (header k id' iv ++ content c ++ footer cmac [] ++ padding) = None) /\
    (forall iv', length iv' = 12%nat -> iv' <> iv ->
       decode_payload mac dec kdf true store h (header k id iv' ++ content c ++ footer cmac [] ++ padding) = None) /\
    (forall c', c' <> c ->
       decode_payload mac dec kdf true store h (header k id iv ++ content c' ++ footer cmac [] ++ padding) = None) /\
    (forall cmac', length cmac' = 16%nat -> cmac' <> cmac ->
       decode_payload mac dec kdf true store h (header k id iv ++ content c ++ footer cmac' [] ++ padding) = None).
  Proof. exact (tamper_payload_gcm mac enc gtag dec kdf I). Qed.

  (* tamper + origin authentication, upper levels, as authenticity: whatever (header, body, footer)
     is ACCEPTED carries the registered key id and kind, its body and common MAC are exactly what
     the registered key produces under the header's IV for the returned plaintext, and — when the
     receiver holds a receiver-specific key — the footer contains, under that key's id, exactly
     the MAC of the common MAC under that key.  Any other value of any of these fields, a missing
     or invalid receiver-specific MAC, or different key material, is therefore rejected. *)
  Theorem C16_tamper_message : forall info_ok store h e p l,
    decode_message mac dec kdf info_ok store h e = DSuccess p l ->
    exists rs k id iv cmac rsl,
      parse_header (e_hdr e) = Some (k, id, iv) /\ parse_footer (e_ftr e) = Some (cmac, rsl) /\
      lookup h store = Some rs /\ km_id (select rs ScMsg) = id /\ km_kind (select rs ScMsg) = k /\
      let key := select rs ScMsg in
      let sk := kdf false (km_key key) (km_salt key) (firstn 4 iv) in
      (is_gmac k = true -> e_body e = p /\ cmac = mac sk iv p /\ rs_proof mac kdf key iv cmac rsl) /\
      (is_gcm k = true ->
         exists c, parse_content (e_body e) = Some (c, []) /\ c = enc sk iv p /\ cmac = gtag sk iv p
                   /\ rs_proof mac kdf key iv cmac rsl).
  Proof. exact (message_accept mac enc gtag dec kdf I). Qed.

  Theorem C16_origin_auth : forall cls store hw w matched_local e p l,
    decode_submessage mac dec kdf cls store (Some [(hw, w)]) matched_local e = DSuccess p l ->
    exists rs k id iv cmac rsl,
      parse_header (e_hdr e) = Some (k, id, iv) /\ parse_footer (e_ftr e) = Some (cmac, rsl) /\
      lookup hw store = Some rs /\ km_id (select rs ScMsg) = id /\ km_kind (select rs ScMsg) = k /\
      let key := select rs ScMsg in
      let sk := kdf false (km_key key) (km_salt key) (firstn 4 iv) in
      (is_gmac k = true -> e_body e = p /\ cmac = mac sk iv p /\ rs_proof mac kdf key iv cmac rsl) /\
      (is_gcm k = true ->
         exists c, parse_content (e_body e) = Some (c, []) /\ c = enc sk iv p /\ cmac = gtag sk iv p
                   /\ rs_proof mac kdf key iv cmac rsl).
  Proof. exact (submessage_accept mac enc gtag dec kdf I). Qed.

  (* wrong key: a receiver whose registered master key or salt differs from the sender's rejects *)
  Theorem C16_wrong_key : forall fixed store h rs k id iv body key salt,
    lookup h store = Some rs -> is_gmac k = true -> length id = 4%nat -> length iv = 12%nat ->
    (km_key (select rs ScPayload) <> key \/ km_salt (select rs ScPayload) <> salt) ->
    decode_payload mac dec kdf fixed store h
      (header k id iv ++ body ++ footer (mac (kdf false key salt (firstn 4 iv)) iv body) []) = None.
  Proof. exact (wrong_key_payload mac enc gtag dec kdf I). Qed.
End P.
Print Assumptions C16_roundtrip_payload.
Print Assumptions C16_roundtrip_payload_unframed.
Print Assumptions C16_roundtrip_payload_gmac_aligned.
Print Assumptions C16_roundtrip_submessage.
Print Assumptions C16_roundtrip_message.
Print Assumptions C16_tamper_payload_gmac.
Print Assumptions C16_tamper_payload_gcm.
Print Assumptions C16_tamper_message.
Print Assumptions C16_origin_auth.
Print Assumptions C16_wrong_key.

(* the hypotheses are satisfiable *)
Theorem C16_ideal_instance : ideal i_mac i_enc i_gtag i_dec i_kdf.
Proof. exact instance_ideal. Qed.
Print Assumptions C16_ideal_instance.

(* the executable model (generic functions run with the ideal instance) passes the oracle on the
   stated finite domain: 3 levels x 4 kinds x origin authentication x lengths 0..17 x 1..3
   receivers x 2 framings x 22 alteration classes x 2 byte positions (114 048 cases), outside the
   known-finding class.  PARTIAL: not for all lengths (the all-length statements are the theorems
   above); the sweep is by vm_compute. *)
Theorem C16_model_ok_partial : forall c, In c domain -> known_class c = false -> ok c (run c) = true.
Proof. exact model_ok_partial. Qed.
Print Assumptions C16_model_ok_partial.

Theorem C16_oracle_sound : forall c o,
  ok c o = true <->
  o_enc_ok o = true /\ o_hdr_kind o = c_kind c /\
  o_nmacs o = (if c_oa c && negb (level_eqb (c_level c) LPayload) then Z.max 1 (c_nrecv c) else 0) /\
  o_enc_len o = expected_len c /\
  o_outcome o <> OPanic /\ o_outcome o <> OWrongData /\
  match expect c with
  | ExpSuccess =>
      o_outcome o = OSuccess (if negb (level_eqb (c_level c) LPayload)
                              then Z.of_nat (pad4 (Z.to_nat (c_len c))) else 0)
  | ExpReject => forall p, o_outcome o <> OSuccess p
  | ExpAny => True
  end.
Proof. exact ok_spec. Qed.
Print Assumptions C16_oracle_sound.

(* the code as written (footer always taken from the end of the buffer) loses every AES-GCM
   protected payload whose length is not a multiple of 4; the known finding for AES-GMAC *)
Theorem C16_roundtrip_payload_old_refuted :
  known_class witness_old = false /\ ok witness_old (run_old witness_old) = false
  /\ o_outcome (run_old witness_old) = OErr /\ o_outcome (run witness_old) = OSuccess 0.
Proof. exact roundtrip_payload_old_refuted. Qed.
Theorem C16_known_class_fails :
  known_class witness_known = true /\ ok witness_known (run witness_known) = false
  /\ o_outcome (run witness_known) = OErr.
Proof. exact known_class_fails. Qed.
Print Assumptions C16_roundtrip_payload_old_refuted.
Print Assumptions C16_known_class_fails.

Example domain_size : Z.of_nat (length domain) = 114048.
Proof. vm_compute. reflexivity. Qed.
