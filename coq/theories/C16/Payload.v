(* C16 — payload level: what decode_serialized_payload computes on a buffer of the encoded shape,
   round trips through the DATA framing for all lengths, tamper / wrong key. *)
From Coq Require Import List ZArith Bool Lia.
From RD Require Import Common.Corr C16.Model C16.Proofs.
Import ListNotations.
Open Scope Z_scope.

Section Payload.
  Variable mac : bytes -> bytes -> bytes -> bytes.
  Variable enc : bytes -> bytes -> bytes -> bytes.
  Variable gtag : bytes -> bytes -> bytes -> bytes.
  Variable dec : bytes -> bytes -> bytes -> bytes -> option bytes.
  Variable kdf : bool -> bytes -> bytes -> bytes -> bytes.
  Hypothesis I : ideal mac enc gtag dec kdf.

  Lemma Some_inj : forall {A} (a b : A), Some a = Some b -> a = b.
  Proof. intros A a b H; congruence. Qed.

  Definition same_key (a b : keymat) : Prop :=
    km_kind a = km_kind b /\ km_salt a = km_salt b /\ km_id a = km_id b /\ km_key a = km_key b.

  Lemma kinds_excl : forall k, is_gcm k = true -> is_gmac k = false.
  Proof. intros k. unfold is_gcm, is_gmac. destruct (k =? 1) eqn:E1, (k =? 3) eqn:E3, (k =? 2) eqn:E2, (k =? 4) eqn:E4; try reflexivity; intros; try discriminate; lia. Qed.
  Lemma gcm_valid : forall k, is_gcm k = true -> kind_valid k = true.
  Proof. intros k. unfold is_gcm, kind_valid. destruct (k =? 2) eqn:E2, (k =? 4) eqn:E4; intro H; try discriminate; lia. Qed.
  Lemma gmac_valid : forall k, is_gmac k = true -> kind_valid k = true.
  Proof. intros k. unfold is_gmac, kind_valid. destruct (k =? 1) eqn:E2, (k =? 3) eqn:E4; intro H; try discriminate; lia. Qed.

  Lemma header_length : forall k id iv, length id = 4%nat -> length iv = 12%nat -> length (header k id iv) = 20%nat.
  Proof. intros. unfold header. rewrite !app_length, word_length. lia. Qed.
  Lemma footer_nil_length : forall cmac, length cmac = 16%nat -> length (footer cmac []) = 20%nat.
  Proof. intros. unfold footer. rewrite !app_length, word_length. cbn. lia. Qed.
  Lemma content_length : forall c, length (content c) = (4 + length c)%nat.
  Proof. intro c. unfold content. rewrite app_length. reflexivity. Qed.

  (* encode_serialized_payload spelled out *)
  Lemma encode_payload_eq : forall cs ivs plain,
    encode_payload mac enc gtag kdf cs ivs plain =
    let c := select cs ScPayload in
    let iv := SESSION_ID ++ ivs in
    let sk := kdf false (km_key c) (km_salt c) SESSION_ID in
    if is_gmac (km_kind c) then
      Some (header (km_kind c) (km_id c) iv ++ plain ++ footer (mac sk iv plain) [])
    else if is_gcm (km_kind c) then
      Some (header (km_kind c) (km_id c) iv ++ content (enc sk iv plain) ++ footer (gtag sk iv plain) [])
    else None.
  Proof.
    intros cs ivs plain. unfold encode_payload, session_encoding_materials. cbn [rs_session_keys].
    unfold encode_unit. cbn [em_kind em_id em_iv em_skey em_rs rs_macs map e_hdr e_body e_ftr].
    cbn [firstn app SESSION_ID].
    destruct (is_gmac (km_kind (select cs ScPayload))); [reflexivity|].
    destruct (is_gcm (km_kind (select cs ScPayload))); reflexivity.
  Qed.

  (* decode key lookup when the receiver registered the sender's material *)
  Lemma sdm_same : forall store h rs sc c iv,
    lookup h store = Some rs -> same_key (select rs sc) c ->
    session_decode_materials kdf store h (km_id c) sc iv =
    Some (Build_dec_mat (km_id c) (km_kind c) (kdf false (km_key c) (km_salt c) (firstn 4 iv))
            (if bytes_eqb (km_rs_id (select rs sc)) ZERO_ID then None
             else Some (km_rs_id (select rs sc), kdf true (km_rs_key (select rs sc)) (km_salt c) (firstn 4 iv)))).
  Proof.
    intros store h rs sc c iv Hl [Hk [Hs [Hi Hy]]]. unfold session_decode_materials. rewrite Hl.
    rewrite Hi, bytes_eqb_refl, Hk, Hs, Hy. reflexivity.
  Qed.
  Lemma sdm_other_id : forall store h rs sc id iv,
    lookup h store = Some rs -> km_id (select rs sc) <> id ->
    session_decode_materials kdf store h id sc iv = None.
  Proof.
    intros store h rs sc id iv Hl Hn. unfold session_decode_materials. rewrite Hl.
    rewrite bytes_eqb_neq by assumption. reflexivity.
  Qed.

  (* shape lemma, GMAC (as written and repaired alike) *)
  Lemma gmac_shape : forall fixed store h k id iv body cmac,
    is_gmac k = true -> length id = 4%nat -> length iv = 12%nat -> length cmac = 16%nat ->
    decode_payload mac dec kdf fixed store h (header k id iv ++ body ++ footer cmac []) =
    match session_decode_materials kdf store h id ScPayload iv with
    | None => None
    | Some m => if negb (dm_kind m =? k) then None
                else if validate mac (dm_skey m) iv body cmac then Some body else None
    end.
  Proof.
    intros fixed store h k id iv body cmac Hk Hid Hiv Hc. unfold decode_payload.
    pose proof (header_length k id iv Hid Hiv) as Hh. pose proof (footer_nil_length cmac Hc) as Hf.
    assert (E : (length (header k id iv ++ body ++ footer cmac []) <? 40)%nat = false).
    { rewrite !app_length, Hh, Hf. apply Nat.ltb_ge. lia. }
    rewrite E. rewrite (firstn_app_exact (header k id iv)) by assumption.
    rewrite parse_header_header by (try assumption; apply gmac_valid; assumption).
    cbv beta iota.
    rewrite (skipn_app_exact (header k id iv)) by assumption.
    assert (Hg : is_gcm k = false).
    { unfold is_gcm, is_gmac in *. destruct (k =? 1) eqn:E1, (k =? 3) eqn:E3, (k =? 2) eqn:E2, (k =? 4) eqn:E4; try reflexivity; try discriminate; lia. }
    rewrite Hg, andb_false_r.
    assert (El : (length (body ++ footer cmac []) - 20)%nat = length body) by (rewrite app_length, Hf; lia).
    rewrite El, firstn_app_exact, skipn_app_exact by reflexivity.
    rewrite parse_footer_footer by (try assumption; constructor).
    destruct (session_decode_materials kdf store h id ScPayload iv) as [m|]; [|reflexivity].
    destruct (negb (dm_kind m =? k)); [reflexivity|]. rewrite Hk. reflexivity.
  Qed.

  (* shape lemma, GCM, repaired code: up to 3 zero cells may follow the footer *)
  Lemma gcm_shape : forall store h k id iv c cmac padding,
    is_gcm k = true -> length id = 4%nat -> length iv = 12%nat -> length cmac = 16%nat ->
    (length padding < 4)%nat -> all_zero padding = true ->
    decode_payload mac dec kdf true store h (header k id iv ++ content c ++ footer cmac [] ++ padding) =
    match session_decode_materials kdf store h id ScPayload iv with
    | None => None
    | Some m => if negb (dm_kind m =? k) then None else dec (dm_skey m) iv c cmac
    end.
  Proof.
    intros store h k id iv c cmac padding Hk Hid Hiv Hc Hp Hz. unfold decode_payload.
    pose proof (header_length k id iv Hid Hiv) as Hh. pose proof (footer_nil_length cmac Hc) as Hf.
    assert (E : (length (header k id iv ++ content c ++ footer cmac [] ++ padding) <? 40)%nat = false).
    { rewrite !app_length, Hh, Hf. apply Nat.ltb_ge. lia. }
    rewrite E. rewrite (firstn_app_exact (header k id iv)) by assumption.
    rewrite parse_header_header by (try assumption; apply gcm_valid; assumption).
    cbv beta iota.
    rewrite (skipn_app_exact (header k id iv)) by assumption.
    rewrite Hk. cbn [andb]. rewrite parse_content_content.
    assert (E2 : (length (footer cmac [] ++ padding) <? 20)%nat = false).
    { rewrite app_length, Hf. apply Nat.ltb_ge. lia. }
    rewrite E2. rewrite (skipn_app_exact (footer cmac [])) by assumption.
    assert (E3 : (length padding <? 4)%nat = true) by (apply Nat.ltb_lt; exact Hp).
    rewrite E3, Hz. cbn [andb].
    rewrite <- content_length. rewrite (firstn_app_exact (content c)) by reflexivity.
    rewrite (firstn_app_exact (footer cmac [])) by assumption.
    rewrite parse_footer_footer by (try assumption; constructor).
    destruct (session_decode_materials kdf store h id ScPayload iv) as [m|]; [|reflexivity].
    destruct (negb (dm_kind m =? k)); [reflexivity|].
    rewrite (kinds_excl k Hk).
    rewrite <- (app_nil_r (content c)), parse_content_content. reflexivity.
  Qed.

  Definition iv_of (ivs : bytes) : bytes := SESSION_ID ++ ivs.
  Lemma iv_length : forall ivs, length ivs = 8%nat -> length (iv_of ivs) = 12%nat.
  Proof. intros ivs H. unfold iv_of. rewrite app_length, H. reflexivity. Qed.
  Lemma iv_session : forall ivs, firstn 4 (iv_of ivs) = SESSION_ID.
  Proof. reflexivity. Qed.

  (* ---- C16_roundtrip_payload ---- *)
  (* AES-GCM kinds, through the DATA framing, EVERY length (repaired code) *)
  Theorem roundtrip_payload_gcm_data : forall cs store h rs ivs plain e,
    lookup h store = Some rs -> same_key (select rs ScPayload) (select cs ScPayload) ->
    is_gcm (km_kind (select cs ScPayload)) = true ->
    length (km_id (select cs ScPayload)) = 4%nat -> length ivs = 8%nat ->
    encode_payload mac enc gtag kdf cs ivs plain = Some e ->
    decode_payload mac dec kdf true store h (data_framing e) = Some plain.
  Proof.
    intros cs store h rs ivs plain e Hl Hs Hk Hid Hivs He.
    rewrite encode_payload_eq in He. cbv zeta in He. rewrite (kinds_excl _ Hk), Hk in He.
    apply Some_inj in He; subst e. unfold data_framing.
    rewrite <- !app_assoc.
    rewrite gcm_shape;
      [ | exact Hk | exact Hid | apply iv_length; exact Hivs | apply (gtag_len _ _ _ _ _ I)
        | rewrite zeros_length; apply pad4_lt | apply all_zero_zeros ].
    rewrite (sdm_same store h rs ScPayload (select cs ScPayload) _ Hl Hs). cbn [dm_kind dm_skey].
    rewrite Z.eqb_refl. cbn [negb]. apply (dec_enc _ _ _ _ _ I).
  Qed.

  (* AES-GCM and AES-GMAC kinds, every length, when the encoded payload reaches the decoder as it
     was produced (DATAFRAG, whose reassembly cuts at data_size; or a length that needs no padding) *)
  Theorem roundtrip_payload_direct : forall fixed cs store h rs ivs plain e,
    lookup h store = Some rs -> same_key (select rs ScPayload) (select cs ScPayload) ->
    length (km_id (select cs ScPayload)) = 4%nat -> length ivs = 8%nat ->
    encode_payload mac enc gtag kdf cs ivs plain = Some e ->
    decode_payload mac dec kdf fixed store h e = Some plain.
  Proof.
    intros fixed cs store h rs ivs plain e Hl Hs Hid Hivs He.
    rewrite encode_payload_eq in He. cbv zeta in He.
    destruct (is_gmac (km_kind (select cs ScPayload))) eqn:Hm.
    - apply Some_inj in He; subst e.
      rewrite gmac_shape; [ | exact Hm | exact Hid | apply iv_length; exact Hivs | apply (mac_len _ _ _ _ _ I) ].
      rewrite (sdm_same store h rs ScPayload (select cs ScPayload) _ Hl Hs). cbn [dm_kind dm_skey].
      rewrite Z.eqb_refl. cbn [negb]. unfold validate. rewrite bytes_eqb_refl. reflexivity.
    - destruct (is_gcm (km_kind (select cs ScPayload))) eqn:Hc; [|discriminate].
      apply Some_inj in He; subst e.
      destruct fixed.
      + rewrite <- (app_nil_r (footer _ _)).
        rewrite gcm_shape;
          [ | exact Hc | exact Hid | apply iv_length; exact Hivs | apply (gtag_len _ _ _ _ _ I)
            | cbn; lia | reflexivity ].
        rewrite (sdm_same store h rs ScPayload (select cs ScPayload) _ Hl Hs). cbn [dm_kind dm_skey].
        rewrite Z.eqb_refl. cbn [negb]. apply (dec_enc _ _ _ _ _ I).
      + (* as written: footer from the end; no padding here, so it is the real footer *)
        unfold decode_payload.
        pose proof (header_length (km_kind (select cs ScPayload)) _ (SESSION_ID ++ ivs) Hid (iv_length ivs Hivs)) as Hh.
        pose proof (footer_nil_length _ (gtag_len _ _ _ _ _ I
                      (kdf false (km_key (select cs ScPayload)) (km_salt (select cs ScPayload)) SESSION_ID)
                      (SESSION_ID ++ ivs) plain)) as Hf.
        match goal with |- context [(length ?b <? 40)%nat] =>
          assert (E : (length b <? 40)%nat = false) by (rewrite !app_length, Hh, Hf; apply Nat.ltb_ge; lia) end.
        rewrite E. rewrite (firstn_app_exact (header _ _ _)) by assumption.
        rewrite parse_header_header by (try assumption; try (apply gcm_valid; assumption); apply iv_length; assumption).
        cbv beta iota. rewrite (skipn_app_exact (header _ _ _)) by assumption.
        cbn [andb].
        match goal with |- context [firstn (length (?c ++ ?f) - 20) _] =>
          assert (El : (length (c ++ f) - 20)%nat = length c) by (rewrite app_length, Hf; lia);
          rewrite El, firstn_app_exact, skipn_app_exact by reflexivity end.
        rewrite parse_footer_footer by (try (apply (gtag_len _ _ _ _ _ I)); constructor).
        rewrite (sdm_same store h rs ScPayload (select cs ScPayload) _ Hl Hs). cbn [dm_kind dm_skey].
        rewrite Z.eqb_refl. cbn [negb]. rewrite Hm, Hc.
        rewrite <- (app_nil_r (content _)), parse_content_content. apply (dec_enc _ _ _ _ _ I).
  Qed.

  (* AES-GMAC kinds through the DATA framing: lengths that are a multiple of 4 (known finding for
     the others: the padding cannot be told from the content, which has no length marker) *)
  Theorem roundtrip_payload_gmac_data_aligned : forall fixed cs store h rs ivs plain e,
    lookup h store = Some rs -> same_key (select rs ScPayload) (select cs ScPayload) ->
    is_gmac (km_kind (select cs ScPayload)) = true ->
    length (km_id (select cs ScPayload)) = 4%nat -> length ivs = 8%nat ->
    (length plain mod 4 = 0)%nat ->
    encode_payload mac enc gtag kdf cs ivs plain = Some e ->
    decode_payload mac dec kdf fixed store h (data_framing e) = Some plain.
  Proof.
    intros fixed cs store h rs ivs plain e Hl Hs Hk Hid Hivs Hal He.
    assert (Hlen : length e = (40 + length plain)%nat).
    { rewrite encode_payload_eq in He. cbv zeta in He. rewrite Hk in He. apply Some_inj in He; subst e.
      rewrite !app_length, (header_length _ _ (SESSION_ID ++ ivs) Hid (iv_length ivs Hivs)),
        (footer_nil_length _ (mac_len _ _ _ _ _ I _ _ _)). lia. }
    unfold data_framing. rewrite pad4_aligned.
    - cbn [zeros repeat]. rewrite app_nil_r. eapply roundtrip_payload_direct; eassumption.
    - rewrite Hlen. replace (40 + length plain)%nat with (length plain + 10 * 4)%nat by lia.
      rewrite Nat.mod_add by discriminate. exact Hal.
  Qed.

  (* ---- C16_tamper / C16_wrong_key, payload level ---- *)
  (* Authenticity: whatever buffer of the encoded shape is accepted, it carries the receiver's
     registered key id and kind, and its MAC / ciphertext are exactly what the registered key
     produces for the returned plaintext under the IV in the header. *)
  Theorem payload_accept_gmac : forall fixed store h k id iv body cmac p,
    is_gmac k = true -> length id = 4%nat -> length iv = 12%nat -> length cmac = 16%nat ->
    decode_payload mac dec kdf fixed store h (header k id iv ++ body ++ footer cmac []) = Some p ->
    exists rs, lookup h store = Some rs /\ km_id (select rs ScPayload) = id /\
      km_kind (select rs ScPayload) = k /\ p = body /\
      cmac = mac (kdf false (km_key (select rs ScPayload)) (km_salt (select rs ScPayload)) (firstn 4 iv)) iv body.
  Proof.
    intros fixed store h k id iv body cmac p Hk Hid Hiv Hc H.
    rewrite gmac_shape in H by assumption. unfold session_decode_materials in H.
    destruct (lookup h store) as [rs|] eqn:El; [|discriminate].
    destruct (bytes_eqb (km_id (select rs ScPayload)) id) eqn:Ei; [|discriminate].
    cbn [dm_kind dm_skey] in H.
    destruct (km_kind (select rs ScPayload) =? k) eqn:Ek; [|discriminate]. cbn [negb] in H.
    unfold validate in H.
    destruct (bytes_eqb cmac _) eqn:Em; [|discriminate].
    inversion H; subst p. apply bytes_eqb_spec in Ei, Em. apply Z.eqb_eq in Ek.
    exists rs. repeat split; assumption.
  Qed.

  Theorem payload_accept_gcm : forall store h k id iv c cmac padding p,
    is_gcm k = true -> length id = 4%nat -> length iv = 12%nat -> length cmac = 16%nat ->
    (length padding < 4)%nat -> all_zero padding = true ->
    decode_payload mac dec kdf true store h (header k id iv ++ content c ++ footer cmac [] ++ padding) = Some p ->
    exists rs, lookup h store = Some rs /\ km_id (select rs ScPayload) = id /\
      km_kind (select rs ScPayload) = k /\
      let sk := kdf false (km_key (select rs ScPayload)) (km_salt (select rs ScPayload)) (firstn 4 iv) in
      c = enc sk iv p /\ cmac = gtag sk iv p.
  Proof.
    intros store h k id iv c cmac padding p Hk Hid Hiv Hc Hp Hz H.
    rewrite gcm_shape in H by assumption. unfold session_decode_materials in H.
    destruct (lookup h store) as [rs|] eqn:El; [|discriminate].
    destruct (bytes_eqb (km_id (select rs ScPayload)) id) eqn:Ei; [|discriminate].
    cbn [dm_kind dm_skey] in H.
    destruct (km_kind (select rs ScPayload) =? k) eqn:Ek; [|discriminate]. cbn [negb] in H.
    apply (dec_sound _ _ _ _ _ I) in H. apply bytes_eqb_spec in Ei. apply Z.eqb_eq in Ek.
    exists rs. repeat split; try assumption; apply H.
  Qed.

  (* ---- C16_tamper, payload level, field by field: the genuine encoded payload with exactly one
     of kind / key id / IV (session id or suffix) / content / common MAC replaced is rejected ---- *)
  Theorem tamper_payload_gmac : forall fixed store h rs k id iv body cmac,
    lookup h store = Some rs ->
    is_gmac k = true -> length id = 4%nat -> length iv = 12%nat ->
    km_id (select rs ScPayload) = id -> km_kind (select rs ScPayload) = k ->
    cmac = mac (kdf false (km_key (select rs ScPayload)) (km_salt (select rs ScPayload)) (firstn 4 iv)) iv body ->
    (forall k', is_gmac k' = true -> k' <> k ->
       decode_payload mac dec kdf fixed store h (header k' id iv ++ body ++ footer cmac []) = None) /\
    (forall id', length id' = 4%nat -> id' <> id ->
       decode_payload mac dec kdf fixed store h (header k id' iv ++ body ++ footer cmac []) = None) /\
    (forall iv', length iv' = 12%nat -> iv' <> iv ->
       decode_payload mac dec kdf fixed store h (header k id iv' ++ body ++ footer cmac []) = None) /\
    (forall body', body' <> body ->
       decode_payload mac dec kdf fixed store h (header k id iv ++ body' ++ footer cmac []) = None) /\
    (forall cmac', length cmac' = 16%nat -> cmac' <> cmac ->
       decode_payload mac dec kdf fixed store h (header k id iv ++ body ++ footer cmac' []) = None).
  Proof.
    intros fixed store h rs k id iv body cmac Hl Hk Hid Hiv Eid Ekind Ec.
    assert (Hc : length cmac = 16%nat) by (subst cmac; apply (mac_len _ _ _ _ _ I)).
    assert (R : forall k' id' iv' body' cmac' p,
      is_gmac k' = true -> length id' = 4%nat -> length iv' = 12%nat -> length cmac' = 16%nat ->
      decode_payload mac dec kdf fixed store h (header k' id' iv' ++ body' ++ footer cmac' []) = Some p ->
      id' = id /\ k' = k /\
      cmac' = mac (kdf false (km_key (select rs ScPayload)) (km_salt (select rs ScPayload)) (firstn 4 iv')) iv' body').
    { intros k' id' iv' body' cmac' p Hk' Hid' Hiv' Hc' H.
      destruct (payload_accept_gmac _ _ _ _ _ _ _ _ _ Hk' Hid' Hiv' Hc' H) as [rs' [Hl' [Ei [Ek [_ Em]]]]].
      rewrite Hl in Hl'. apply Some_inj in Hl'. subst rs'. repeat split; congruence. }
    repeat split.
    - intros k' Hk' Hn. destruct (decode_payload _ _ _ _ _ _ _) eqn:E; [|reflexivity].
      apply R in E; try assumption. destruct E as [_ [E _]]. contradiction.
    - intros id' Hid' Hn. destruct (decode_payload _ _ _ _ _ _ _) eqn:E; [|reflexivity].
      apply R in E; try assumption. destruct E as [E _]. contradiction.
    - intros iv' Hiv' Hn. destruct (decode_payload _ _ _ _ _ _ _) eqn:E; [|reflexivity].
      apply R in E; try assumption. destruct E as [_ [_ E]]. rewrite Ec in E.
      apply (mac_inj _ _ _ _ _ I) in E. destruct E as [_ [E _]]. congruence.
    - intros body' Hn. destruct (decode_payload _ _ _ _ _ _ _) eqn:E; [|reflexivity].
      apply R in E; try assumption. destruct E as [_ [_ E]]. rewrite Ec in E.
      apply (mac_inj _ _ _ _ _ I) in E. destruct E as [_ [_ E]]. congruence.
    - intros cmac' Hc' Hn. destruct (decode_payload _ _ _ _ _ _ _) eqn:E; [|reflexivity].
      apply R in E; try assumption. destruct E as [_ [_ E]]. congruence.
  Qed.

  Theorem tamper_payload_gcm : forall store h rs k id iv plain c cmac padding,
    lookup h store = Some rs ->
    is_gcm k = true -> length id = 4%nat -> length iv = 12%nat ->
    (length padding < 4)%nat -> all_zero padding = true ->
    km_id (select rs ScPayload) = id -> km_kind (select rs ScPayload) = k ->
    let sk := kdf false (km_key (select rs ScPayload)) (km_salt (select rs ScPayload)) (firstn 4 iv) in
    c = enc sk iv plain -> cmac = gtag sk iv plain ->
    (forall k', is_gcm k' = true -> k' <> k ->
       decode_payload mac dec kdf true store h (header k' id iv ++ content c ++ footer cmac [] ++ padding) = None) /\
    (forall id', length id' = 4%nat -> id' <> id ->
       decode_payload mac dec kdf true store h (header k id' iv ++ content c ++ footer cmac [] ++ padding) = None) /\
    (forall iv', length iv' = 12%nat -> iv' <> iv ->
       decode_payload mac dec kdf true store h (header k id iv' ++ content c ++ footer cmac [] ++ padding) = None) /\
    (forall c', c' <> c ->
       decode_payload mac dec kdf true store h (header k id iv ++ content c' ++ footer cmac [] ++ padding) = None) /\
    (forall cmac', length cmac' = 16%nat -> cmac' <> cmac ->
       decode_payload mac dec kdf true store h (header k id iv ++ content c ++ footer cmac' [] ++ padding) = None).
  Proof.
    intros store h rs k id iv plain c cmac padding Hl Hk Hid Hiv Hp Hz Eid Ekind sk Ec Em.
    assert (Hc : length cmac = 16%nat) by (subst cmac; apply (gtag_len _ _ _ _ _ I)).
    assert (R : forall k' id' iv' c' cmac' p,
      is_gcm k' = true -> length id' = 4%nat -> length iv' = 12%nat -> length cmac' = 16%nat ->
      decode_payload mac dec kdf true store h (header k' id' iv' ++ content c' ++ footer cmac' [] ++ padding) = Some p ->
      id' = id /\ k' = k /\
      let sk' := kdf false (km_key (select rs ScPayload)) (km_salt (select rs ScPayload)) (firstn 4 iv') in
      c' = enc sk' iv' p /\ cmac' = gtag sk' iv' p).
    { intros k' id' iv' c' cmac' p Hk' Hid' Hiv' Hc' H.
      destruct (payload_accept_gcm _ _ _ _ _ _ _ _ _ Hk' Hid' Hiv' Hc' Hp Hz H) as [rs' [Hl' [Ei [Ek Ex]]]].
      rewrite Hl in Hl'. apply Some_inj in Hl'. subst rs'. cbn zeta in Ex. repeat split; try congruence; apply Ex. }
    repeat split.
    - intros k' Hk' Hn. destruct (decode_payload _ _ _ _ _ _ _) eqn:E; [|reflexivity].
      apply R in E; try assumption. destruct E as [_ [E _]]. contradiction.
    - intros id' Hid' Hn. destruct (decode_payload _ _ _ _ _ _ _) eqn:E; [|reflexivity].
      apply R in E; try assumption. destruct E as [E _]. contradiction.
    - intros iv' Hiv' Hn. destruct (decode_payload _ _ _ _ _ _ _) eqn:E; [|reflexivity].
      apply R in E; try assumption. destruct E as [_ [_ [_ E]]]. rewrite Em in E.
      apply (gtag_inj _ _ _ _ _ I) in E. destruct E as [_ [E _]]. congruence.
    - intros c' Hn. destruct (decode_payload _ _ _ _ _ _ _) eqn:E; [|reflexivity].
      apply R in E; try assumption. destruct E as [_ [_ [E1 E2]]]. fold sk in E1, E2. rewrite Em in E2.
      apply (gtag_inj _ _ _ _ _ I) in E2. destruct E2 as [_ [_ E2]]. subst. contradiction.
    - intros cmac' Hc' Hn. destruct (decode_payload _ _ _ _ _ _ _) eqn:E; [|reflexivity].
      apply R in E; try assumption. destruct E as [_ [_ [E1 E2]]]. fold sk in E1, E2. rewrite Ec in E1.
      apply (enc_inj _ _ _ _ _ I) in E1. subst. contradiction.
  Qed.

  (* ---- C16_wrong_key, payload level: a receiver whose registered master key or salt differs from
     the sender's (same key id and kind) rejects the genuine encoded payload ---- *)
  Theorem wrong_key_payload : forall fixed store h rs k id iv body key salt,
    lookup h store = Some rs -> is_gmac k = true -> length id = 4%nat -> length iv = 12%nat ->
    (km_key (select rs ScPayload) <> key \/ km_salt (select rs ScPayload) <> salt) ->
    decode_payload mac dec kdf fixed store h
      (header k id iv ++ body ++ footer (mac (kdf false key salt (firstn 4 iv)) iv body) []) = None.
  Proof.
    intros fixed store h rs k id iv body key salt Hl Hk Hid Hiv Hd.
    destruct (decode_payload _ _ _ _ _ _ _) eqn:E; [|reflexivity].
    apply payload_accept_gmac in E; try assumption; try apply (mac_len _ _ _ _ _ I).
    destruct E as [rs' [Hl' [_ [_ [_ Em]]]]]. rewrite Hl in Hl'. apply Some_inj in Hl'. subst rs'.
    apply (mac_inj _ _ _ _ _ I) in Em. destruct Em as [Ek _].
    apply (kdf_inj _ _ _ _ _ I) in Ek. destruct Ek as [_ [E1 [E2 _]]]. destruct Hd; congruence.
  Qed.
End Payload.
