(* C16 — correspondence interface: cases, observations, the executable model (the generic functions
   of Model.v run with the ideal instance), the property oracle. *)
From Coq Require Import List ZArith Bool Lia.
From RD Require Import Common.Corr C16.Model C16.Proofs C16.Instance.
Import ListNotations.
Open Scope Z_scope.

Inductive level := LPayload | LSubmsg | LMessage.
Inductive framing := FData | FDataFrag.
Inductive alter :=
| ANone | AKind (k : Z) | AKindInvalid | AKeyId | ASessionId | AIvSuffix | AContent | AContentLen
| ACommonMac | ARsMacMine | ARsMacOther | ARsKeyIdMine | ARsDropMine | ARsCount | AAppend
| AWrongMasterKey | AWrongSalt | AOtherSender | ANotInList.
Record case := {
  c_level : level; c_kind : Z; c_oa : bool; c_len : Z; c_nrecv : Z; c_framing : framing;
  c_alter : alter; c_pos : Z }.
Inductive outc := OSuccess (pad : Z) | OErr | OKeysNotFound | ORsMacFailed | OWireErr | OWrongData | OPanic.
Record obs := {
  o_enc_ok : bool; o_enc_len : Z; o_wire_len : Z; o_hdr_kind : Z; o_nmacs : Z; o_outcome : outc }.

Definition level_eqb (a b : level) : bool :=
  match a, b with LPayload, LPayload | LSubmsg, LSubmsg | LMessage, LMessage => true | _, _ => false end.
Definition outc_eqb (a b : outc) : bool :=
  match a, b with
  | OSuccess x, OSuccess y => x =? y
  | OErr, OErr | OKeysNotFound, OKeysNotFound | ORsMacFailed, ORsMacFailed | OWireErr, OWireErr
  | OWrongData, OWrongData | OPanic, OPanic => true
  | _, _ => false
  end.
Definition obs_eqb (a b : obs) : bool :=
  Bool.eqb (o_enc_ok a) (o_enc_ok b) && (o_enc_len a =? o_enc_len b) && (o_wire_len a =? o_wire_len b)
  && (o_hdr_kind a =? o_hdr_kind b) && (o_nmacs a =? o_nmacs b) && outc_eqb (o_outcome a) (o_outcome b).

(* ---- the scenario the driver builds ---- *)
Definition KEY_ID : bytes := [Lf 1; Lf 2; Lf 3; Lf 4].
Definition rs_id (j : Z) : bytes := [Lf 9; Lf j; Lf 0; Lf 0].
Definition common_km (kind : Z) : keymat := Build_keymat kind [Lf 101] KEY_ID [Lf 100] ZERO_ID [].
Definition receiver_km (kind : Z) (oa : bool) (j : Z) : keymat :=
  if oa then Build_keymat kind [Lf 101] KEY_ID [Lf 100] (rs_id j) [Lf (200 + j)]
  else common_km kind.
Definition rs_store (kind : Z) (oa : bool) (n : nat) : list (Z * kmseq) :=
  map (fun j => (Z.of_nat j, KOne (receiver_km kind oa (Z.of_nat j)))) (seq 1 n).
Definition IVS : bytes := map Lf [50; 51; 52; 53; 54; 55; 56; 57].
Definition payload_of (n : nat) : bytes := map (fun i => Lf (Z.of_nat i)) (seq 0 n).
(* serialized DATA submessage: 4 header cells (id 0x15), 20 cells up to the payload, payload, padding *)
Definition data_sub (p : bytes) : bytes :=
  [Lf 21; Lf 5; Lf 0; Lf 0] ++ zeros 20 ++ p ++ zeros (pad4 (length p)).
Definition info_src : bytes := [Lf 12; Lf 0; Lf 0; Lf 20] ++ zeros 20.
Definition cls_of (p : bytes) : option bool :=
  match p with Lf 21 :: _ => Some true | Lf 6 :: _ => Some false | _ => None end.
Definition info_ok (p : bytes) : bool := bytes_eqb (firstn 24 p) info_src.

Definition H_SENDER := 7.      (* handle under which the receiver registered the sender *)
Definition LOCAL_READER := 3.

(* what the receiver registered for the sender *)
Definition registered (c : case) : keymat :=
  let k := receiver_km (c_kind c) (c_oa c && negb (level_eqb (c_level c) LPayload)) 1 in
  match c_alter c with
  | AWrongMasterKey => Build_keymat (km_kind k) (km_salt k) (km_id k) [Lf 100; Lf 1] (km_rs_id k) (km_rs_key k)
  | AWrongSalt => Build_keymat (km_kind k) [Lf 101; Lf 1] (km_id k) (km_key k) (km_rs_id k) (km_rs_key k)
  | AOtherSender => Build_keymat (km_kind k) [Lf 301] [Lf 5; Lf 6; Lf 7; Lf 8] [Lf 300]
                      (if bytes_eqb (km_rs_id k) ZERO_ID then ZERO_ID else [Lf 8; Lf 1; Lf 0; Lf 0]) [Lf 400]
  | _ => k
  end.

Definition flipc (b : byte) : byte := Nd [b].
Fixpoint upd (n : nat) (f : byte -> byte) (l : bytes) : bytes :=
  match l, n with
  | [], _ => []
  | x :: l', O => f x :: l'
  | x :: l', S n' => x :: upd n' f l'
  end.
Definition pmod (pos : Z) (n : nat) : nat := Z.to_nat (pos mod Z.of_nat n).
Definition xor1 (n : Z) : Z := if Z.even n then n + 1 else n - 1.

(* the alteration applied to the three elements (driver: alter_header_bytes / alter_footer / the
   content flips); [coff, clen]: the cell range inside the body that AContent may touch *)
Definition alter_enc (a : alter) (pos : Z) (coff clen : nat) (e : encoded) : encoded :=
  let hdr := e_hdr e in let body := e_body e in let ftr := e_ftr e in
  match a with
  | AKind k => Build_encoded (upd 3 (fun _ => Lf k) hdr) body ftr
  | AKindInvalid => Build_encoded (upd 3 (fun _ => Lf 9) hdr) body ftr
  | AKeyId => Build_encoded (upd (4 + pmod pos 4) flipc hdr) body ftr
  | ASessionId => Build_encoded (upd (8 + pmod pos 4) flipc hdr) body ftr
  | AIvSuffix => Build_encoded (upd (12 + pmod pos 8) flipc hdr) body ftr
  | AContent => if (clen =? 0)%nat then e else Build_encoded hdr (upd (coff + pmod pos clen) flipc body) ftr
  | AContentLen => Build_encoded hdr (upd 3 (fun b => match b with Lf n => Lf (xor1 n) | x => x end) body) ftr
  | ACommonMac => Build_encoded hdr body (upd (pmod pos 16) flipc ftr)
  | ARsMacMine => Build_encoded hdr body (upd (24 + pmod pos 16) flipc ftr)
  | ARsMacOther => Build_encoded hdr body (upd (44 + pmod pos 16) flipc ftr)
  | ARsKeyIdMine => Build_encoded hdr body (upd (20 + pmod pos 4) flipc ftr)
  | ARsDropMine =>
      if (40 <=? length ftr)%nat then
        Build_encoded hdr body
          (firstn 16 ftr ++ upd 3 (fun b => match b with Lf n => Lf (n - 1) | x => x end) (firstn 4 (skipn 16 ftr))
           ++ skipn 40 ftr)
      else e
  | ARsCount => Build_encoded hdr body (upd 19 (fun b => match b with Lf n => Lf (xor1 n) | x => x end) ftr)
  | _ => e
  end.

Definition hdr_kind_of (h : bytes) : Z := match nth 3 h (Lf (-1)) with Lf k => k | _ => -1 end.
Definition nmacs_of (f : bytes) : Z := match nth 19 f (Lf (-1)) with Lf k => k | _ => -1 end.

Definition classify (expected : bytes) (pad_reported : Z) (o : outcome) (want_receivers : list Z) : outc :=
  match o with
  | DSuccess p l =>
      if bytes_eqb p expected && list_eqb Z.eqb l want_receivers then OSuccess pad_reported else OWrongData
  | DKeysNotFound => OKeysNotFound
  | DRsMacFailed => ORsMacFailed
  | DErr => OErr
  end.

Definition run_with (fixed : bool) (c : case) : obs :=
  let kind := c_kind c in
  let n := Z.to_nat (c_len c) in
  let nrecv := Z.to_nat (Z.max 1 (c_nrecv c)) in
  let payload := payload_of n in
  let upper := negb (level_eqb (c_level c) LPayload) in
  let oa := c_oa c && upper in
  let store := [(H_SENDER, KOne (registered c))] in
  let receivers := match c_alter c with
                   | ANotInList => map Z.of_nat (seq 2 nrecv)
                   | _ => map Z.of_nat (seq 1 nrecv)
                   end in
  let failed := Build_obs false (-1) (-1) (-1) (-1) OErr in
  match c_level c with
  | LPayload =>
      match encode_payload i_mac i_enc i_gtag i_kdf (KOne (common_km kind)) IVS payload with
      | None => failed
      | Some e =>
          let body_len := (length e - 40)%nat in
          let parts := Build_encoded (firstn 20 e) (firstn body_len (skipn 20 e)) (skipn (20 + body_len) e) in
          let coff := if is_gcm kind then 4%nat else 0%nat in
          let a := alter_enc (c_alter c) (c_pos c) coff n parts in
          let buf := e_hdr a ++ e_body a ++ e_ftr a
                     ++ match c_alter c with AAppend => [Lf 90] | _ => [] end in
          let wire := match c_framing c with FData => data_framing buf | FDataFrag => buf end in
          let out := match decode_payload i_mac i_dec i_kdf fixed store H_SENDER wire with
                     | None => OErr
                     | Some d =>
                         if bytes_eqb d payload then OSuccess 0
                         else if bytes_eqb (firstn n d) payload && all_zero (skipn n d)
                              then OSuccess (Z.of_nat (length d - n)) else OWrongData
                     end in
          Build_obs true (Z.of_nat (length e))
                    (Z.of_nat (match c_framing c with FData => 44 | FDataFrag => 56 end + length wire))
                    (hdr_kind_of e) (nmacs_of (skipn (20 + body_len) e)) out
      end
  | LSubmsg | LMessage =>
      let is_msg := level_eqb (c_level c) LMessage in
      let plain := (if is_msg then info_src else []) ++ data_sub payload in
      match session_encoding_materials i_kdf (KOne (common_km kind)) (rs_store kind oa (S nrecv)) ScMsg receivers IVS with
      | None => failed
      | Some m =>
          match encode_unit i_mac i_enc i_gtag m plain with
          | None => failed
          | Some e =>
              let hdrcells := (if is_msg then 48 else 24)%nat in
              let (coff, clen) :=
                if is_gcm kind then (4%nat, length plain)
                else if (n =? 0)%nat then (hdrcells - 4, 1)%nat else (hdrcells, n) in
              let a := alter_enc (c_alter c) (c_pos c) coff clen e in
              let enc_len := if is_gcm kind then (if is_msg then 8 else 4) + Z.of_nat (length plain)
                             else Z.of_nat (length plain) - (if is_msg then 0 else 4) in
              let wire_len := 20 + 24 + (if is_msg then 0 else 4) + enc_len + 4 + Z.of_nat (length (e_ftr a)) in
              let out :=
                match c_alter c with
                | AKindInvalid => OWireErr      (* the CryptoHeader parser refuses an unknown kind *)
                | _ =>
                    if is_msg then classify plain (Z.of_nat (pad4 n)) (decode_message i_mac i_dec i_kdf info_ok store H_SENDER a) []
                    else classify plain (Z.of_nat (pad4 n))
                           (decode_submessage i_mac i_dec i_kdf cls_of store (Some [(H_SENDER, true)])
                              [(H_SENDER, LOCAL_READER)] a) [LOCAL_READER]
                end in
              Build_obs true enc_len wire_len (hdr_kind_of (e_hdr e)) (nmacs_of (e_ftr e)) out
          end
      end
  end.
Definition run (c : case) : obs := run_with true c.
Definition run_old (c : case) : obs := run_with false c.

(* ---- the property oracle (observables only) ---- *)
Inductive expectation := ExpSuccess | ExpReject | ExpAny.
Definition expect (c : case) : expectation :=
  let upper := negb (level_eqb (c_level c) LPayload) in
  let rs := c_oa c && upper in
  match c_alter c with
  | ANone => ExpSuccess
  | AKind k => if k =? c_kind c then ExpSuccess else ExpReject
  | AKindInvalid | AKeyId | ASessionId | AIvSuffix | ACommonMac
  | AWrongMasterKey | AWrongSalt | AOtherSender => ExpReject
  | AContent => if upper || (0 <? c_len c) then ExpReject else ExpSuccess
  | AContentLen => if negb upper && is_gcm (c_kind c) then ExpReject else ExpAny
  | AAppend => if upper then ExpSuccess else ExpReject
  | ARsMacMine | ARsKeyIdMine | ARsDropMine | ANotInList => if rs then ExpReject else ExpSuccess
  | ARsMacOther => ExpSuccess
  | ARsCount => ExpAny
  end.
Definition is_success (o : outc) : bool := match o with OSuccess _ => true | _ => false end.

Definition ok (c : case) (o : obs) : bool :=
  let upper := negb (level_eqb (c_level c) LPayload) in
  let n := c_len c in
  let r4 := n + Z.of_nat (pad4 (Z.to_nat n)) in
  (* what the sender produced: kind in the header, MAC count, length of the encoded form *)
  o_enc_ok o && (o_hdr_kind o =? c_kind c)
  && (o_nmacs o =? (if c_oa c && upper then Z.max 1 (c_nrecv c) else 0))
  && (o_enc_len o =? match c_level c with
                     | LPayload => n + (if is_gcm (c_kind c) then 44 else 40)
                     | LSubmsg => r4 + (if is_gcm (c_kind c) then 28 else 20)
                     | LMessage => r4 + (if is_gcm (c_kind c) then 56 else 48)
                     end)
  (* never a panic, never wrong data *)
  && negb (outc_eqb (o_outcome o) OPanic) && negb (outc_eqb (o_outcome o) OWrongData)
  && match expect c with
     | ExpSuccess =>
         (* exactly what was encoded: the payload itself (payload level), the serialized
            submessage(s) (upper levels; the inner DATA carries its own padding) *)
         outc_eqb (o_outcome o) (OSuccess (if upper then Z.of_nat (pad4 (Z.to_nat n)) else 0))
     | ExpReject => negb (is_success (o_outcome o))
     | ExpAny => true
     end.

(* known finding (syntactic class): an AES-GMAC protected payload whose length is not a multiple of
   4, carried in a DATA submessage *)
Definition known_class (c : case) : bool :=
  level_eqb (c_level c) LPayload && is_gmac (c_kind c) && negb (c_len c mod 4 =? 0)
  && match c_framing c with FData => true | FDataFrag => false end.
