(* C16 — ideal primitives exist: a free (symbolic) instance satisfying every hypothesis of [ideal].
   It is also what the executable correspondence model runs with. *)
From Coq Require Import List ZArith Bool Lia.
From RD Require Import Common.Corr C16.Model C16.Proofs.
Import ListNotations.
Open Scope Z_scope.

Definition i_mac (k iv d : bytes) : bytes := Nd [Nd k; Nd iv; Nd d; Lf 1] :: zeros 15.
Definition i_gtag (k iv p : bytes) : bytes := Nd [Nd k; Nd iv; Nd p; Lf 2] :: zeros 15.
Definition i_enc (k iv p : bytes) : bytes := map (fun b => Nd [Nd k; Nd iv; b; Lf 3]) p.
Definition i_unenc (b : byte) : byte :=
  match b with Nd [Nd _; Nd _; x; Lf 3] => x | _ => Lf 0 end.
Definition i_dec (k iv c t : bytes) : option bytes :=
  let p := map i_unenc c in
  if bytes_eqb c (i_enc k iv p) && bytes_eqb t (i_gtag k iv p) then Some p else None.
Definition i_kdf (r : bool) (k s i : bytes) : bytes :=
  [Nd [Lf (if r then 1 else 0); Nd k; Nd s; Nd i]].

Lemma i_unenc_enc : forall k iv p, map i_unenc (i_enc k iv p) = p.
Proof. intros k iv p. unfold i_enc. rewrite map_map. cbn. apply map_id. Qed.

Theorem instance_ideal : ideal i_mac i_enc i_gtag i_dec i_kdf.
Proof.
  constructor.
  - reflexivity.
  - reflexivity.
  - intros. unfold i_enc. apply map_length.
  - intros k iv p. unfold i_dec. rewrite i_unenc_enc, !bytes_eqb_refl. reflexivity.
  - intros k iv c t p H. unfold i_dec in H.
    destruct (bytes_eqb c _ && bytes_eqb t _) eqn:E; [|discriminate].
    apply andb_true_iff in E. destruct E as [E1 E2]. apply bytes_eqb_spec in E1, E2.
    inversion H; subst p. split; assumption.
  - intros k iv p p' H. rewrite <- (i_unenc_enc k iv p), <- (i_unenc_enc k iv p'), H. reflexivity.
  - intros k iv d k' iv' d' H. unfold i_mac in H. inversion H. repeat split; reflexivity.
  - intros k iv d k' iv' d' H. unfold i_gtag in H. inversion H. repeat split; reflexivity.
  - intros r k s i r' k' s' i' H. unfold i_kdf in H. inversion H. repeat split; try reflexivity.
    destruct r, r'; try reflexivity; discriminate.
Qed.
