(* C16 — submessage and whole-message level: round trips with and without receiver-specific MACs,
   what an accepted unit must contain (tamper, wrong key, origin authentication). *)
From Coq Require Import List ZArith Bool Lia.
From RD Require Import Common.Corr C16.Model C16.Proofs C16.Payload.
Import ListNotations.
Open Scope Z_scope.

Section Upper.
  Variable mac : bytes -> bytes -> bytes -> bytes.
  Variable enc : bytes -> bytes -> bytes -> bytes.
  Variable gtag : bytes -> bytes -> bytes -> bytes.
  Variable dec : bytes -> bytes -> bytes -> bytes -> option bytes.
  Variable kdf : bool -> bytes -> bytes -> bytes -> bytes.
  Hypothesis I : ideal mac enc gtag dec kdf.

  Lemma find_mac_rs_macs : forall id iv cm rs,
    find_mac id (rs_macs mac iv cm rs) = option_map (fun key => mac key iv cm) (find_mac id rs).
  Proof.
    intros id iv cm rs. induction rs as [|[i k] rs IH]; [reflexivity|]. cbn [rs_macs map find_mac fst snd].
    destruct (bytes_eqb i id); [reflexivity | exact IH].
  Qed.

  Lemma sem_fields : forall cs rs_store receivers ivs m,
    session_encoding_materials kdf cs rs_store ScMsg receivers ivs = Some m ->
    em_id m = km_id (select cs ScMsg) /\ em_kind m = km_kind (select cs ScMsg) /\
    em_iv m = SESSION_ID ++ ivs /\
    em_skey m = kdf false (km_key (select cs ScMsg)) (km_salt (select cs ScMsg)) SESSION_ID.
  Proof.
    intros cs rs_store receivers ivs m H. unfold session_encoding_materials in H.
    destruct (rs_session_keys _ _ _ _ _ _) as [rs|]; [|discriminate].
    apply Some_inj in H. subst m. cbn. repeat split; reflexivity.
  Qed.

  (* this receiver's receiver-specific key: none registered, or the one the sender used for it *)
  Definition rs_agrees (k : keymat) (salt : bytes) (rs : list (bytes * bytes)) : Prop :=
    bytes_eqb (km_rs_id k) ZERO_ID = true \/
    find_mac (km_rs_id k) rs = Some (kdf true (km_rs_key k) salt SESSION_ID).

  Lemma validate_rs_ok : forall k c iv4 iv cm rs dm,
    rs_agrees k (km_salt c) rs -> iv4 = SESSION_ID ->
    dm = (if bytes_eqb (km_rs_id k) ZERO_ID then None
          else Some (km_rs_id k, kdf true (km_rs_key k) (km_salt c) iv4)) ->
    validate_rs mac (Build_dec_mat (km_id c) (km_kind c) (kdf false (km_key c) (km_salt c) iv4) dm)
                iv cm (rs_macs mac iv cm rs) = true.
  Proof.
    intros k c iv4 iv cm rs dm Ha Hiv Hdm. subst iv4 dm. unfold validate_rs. cbn [dm_rs].
    destruct (bytes_eqb (km_rs_id k) ZERO_ID) eqn:E; [reflexivity|].
    destruct Ha as [Ha|Ha]; [congruence|].
    rewrite find_mac_rs_macs, Ha. cbn [option_map]. unfold validate. apply bytes_eqb_refl.
  Qed.

  Ltac prep_encoded m cs rs_store receivers ivs Hm He e :=
    destruct (sem_fields cs rs_store receivers ivs m Hm) as [Eid [Ekind [Eiv Eskey]]];
    unfold encode_unit in He; rewrite Eid, Ekind, Eiv, Eskey in He.

  (* ---- C16_roundtrip_message ---- *)
  Theorem roundtrip_message : forall cs rs_store receivers ivs plain m e store h rsj info_ok,
    session_encoding_materials kdf cs rs_store ScMsg receivers ivs = Some m ->
    encode_unit mac enc gtag m plain = Some e ->
    lookup h store = Some rsj -> same_key (select rsj ScMsg) (select cs ScMsg) ->
    length (km_id (select cs ScMsg)) = 4%nat -> length ivs = 8%nat ->
    Forall (fun p => length (fst p) = 4%nat) (em_rs m) ->
    rs_agrees (select rsj ScMsg) (km_salt (select cs ScMsg)) (em_rs m) ->
    info_ok plain = true ->
    decode_message mac dec kdf info_ok store h e = DSuccess plain [].
  Proof.
    intros cs rs_store receivers ivs plain m e store h rsj info_ok Hm He Hl Hs Hid Hivs Hwf Hag Hinfo.
    prep_encoded m cs rs_store receivers ivs Hm He e.
    set (c := select cs ScMsg) in *. set (iv := SESSION_ID ++ ivs) in *.
    set (sk := kdf false (km_key c) (km_salt c) SESSION_ID) in *.
    assert (Hiv : length iv = 12%nat) by (apply iv_length; exact Hivs).
    destruct (is_gmac (km_kind c)) eqn:Hg.
    - apply Some_inj in He. subst e. unfold decode_message. cbn [e_hdr e_body e_ftr].
      rewrite parse_header_header by (try assumption; apply gmac_valid; assumption).
      rewrite parse_footer_footer by (first [apply (mac_len _ _ _ _ _ I) | apply rs_macs_wf; [apply (mac_len _ _ _ _ _ I) | assumption]]).
      rewrite (sdm_same kdf store h rsj ScMsg c iv Hl Hs). cbn [dm_kind dm_skey].
      rewrite Z.eqb_refl, Hg. cbn [negb].
      rewrite (validate_rs_ok (select rsj ScMsg) c (firstn 4 iv) iv _ (em_rs m) _ Hag eq_refl eq_refl).
      cbn [negb]. unfold validate. change (firstn 4 iv) with SESSION_ID. fold sk.
      rewrite bytes_eqb_refl, Hinfo. reflexivity.
    - destruct (is_gcm (km_kind c)) eqn:Hc; [|discriminate].
      apply Some_inj in He. subst e. unfold decode_message. cbn [e_hdr e_body e_ftr].
      rewrite parse_header_header by (try assumption; apply gcm_valid; assumption).
      rewrite parse_footer_footer by (first [apply (gtag_len _ _ _ _ _ I) | apply rs_macs_wf; [apply (mac_len _ _ _ _ _ I) | assumption]]).
      rewrite (sdm_same kdf store h rsj ScMsg c iv Hl Hs). cbn [dm_kind dm_skey].
      rewrite Z.eqb_refl, Hg, Hc. cbn [negb].
      rewrite <- (app_nil_r (content _)), parse_content_content.
      rewrite (validate_rs_ok (select rsj ScMsg) c (firstn 4 iv) iv _ (em_rs m) _ Hag eq_refl eq_refl).
      cbn [negb]. change (firstn 4 iv) with SESSION_ID. fold sk.
      rewrite (dec_enc _ _ _ _ _ I), Hinfo. reflexivity.
  Qed.

  (* ---- C16_roundtrip_submessage (one sending endpoint [hw] registered for the participant) ---- *)
  Theorem roundtrip_submessage : forall cs rs_store receivers ivs plain m e store hw w rsj cls matched_local lr,
    session_encoding_materials kdf cs rs_store ScMsg receivers ivs = Some m ->
    encode_unit mac enc gtag m plain = Some e ->
    lookup hw store = Some rsj -> same_key (select rsj ScMsg) (select cs ScMsg) ->
    length (km_id (select cs ScMsg)) = 4%nat -> length ivs = 8%nat ->
    Forall (fun p => length (fst p) = 4%nat) (em_rs m) ->
    rs_agrees (select rsj ScMsg) (km_salt (select cs ScMsg)) (em_rs m) ->
    cls plain = Some w -> lookup hw matched_local = Some lr ->
    decode_submessage mac dec kdf cls store (Some [(hw, w)]) matched_local e = DSuccess plain [lr].
  Proof.
    intros cs rs_store receivers ivs plain m e store hw w rsj cls matched_local lr
           Hm He Hl Hs Hid Hivs Hwf Hag Hcls Hml.
    prep_encoded m cs rs_store receivers ivs Hm He e.
    set (c := select cs ScMsg) in *. set (iv := SESSION_ID ++ ivs) in *.
    set (sk := kdf false (km_key c) (km_salt c) SESSION_ID) in *.
    assert (Hiv : length iv = 12%nat) by (apply iv_length; exact Hivs).
    assert (Hfin : forall senders, senders = [(hw, w)] ->
       match cls plain with
       | None => DErr
       | Some is_writer_sub =>
           match matched_locals matched_local senders is_writer_sub with
           | None => DErr | Some [] => DRsMacFailed | Some ls => DSuccess plain ls end
       end = DSuccess plain [lr]).
    { intros senders ->. rewrite Hcls. cbn [matched_locals]. rewrite Bool.eqb_reflx, Hml. reflexivity. }
    destruct (is_gmac (km_kind c)) eqn:Hg.
    - apply Some_inj in He. subst e. unfold decode_submessage. cbn [e_hdr e_body e_ftr].
      rewrite parse_header_header by (try assumption; apply gmac_valid; assumption).
      rewrite parse_footer_footer by (first [apply (mac_len _ _ _ _ _ I) | apply rs_macs_wf; [apply (mac_len _ _ _ _ _ I) | assumption]]).
      cbn [matching fst]. rewrite (sdm_same kdf store hw rsj ScMsg c iv Hl Hs).
      cbn [unambiguous_key dm_kind dm_skey]. rewrite Z.eqb_refl, Hg. cbn [negb].
      unfold validate at 1. change (firstn 4 iv) with SESSION_ID. fold sk. rewrite bytes_eqb_refl.
      unfold rs_filter. cbn [filter fst snd map].
      rewrite (validate_rs_ok (select rsj ScMsg) c SESSION_ID iv _ (em_rs m) _ Hag eq_refl eq_refl).
      cbn [map snd]. apply Hfin. reflexivity.
    - destruct (is_gcm (km_kind c)) eqn:Hc; [|discriminate].
      apply Some_inj in He. subst e. unfold decode_submessage. cbn [e_hdr e_body e_ftr].
      rewrite parse_header_header by (try assumption; apply gcm_valid; assumption).
      rewrite parse_footer_footer by (first [apply (gtag_len _ _ _ _ _ I) | apply rs_macs_wf; [apply (mac_len _ _ _ _ _ I) | assumption]]).
      cbn [matching fst]. rewrite (sdm_same kdf store hw rsj ScMsg c iv Hl Hs).
      cbn [unambiguous_key dm_kind dm_skey]. rewrite Z.eqb_refl, Hg, Hc. cbn [negb].
      rewrite <- (app_nil_r (content _)), parse_content_content.
      change (firstn 4 iv) with SESSION_ID. fold sk. rewrite (dec_enc _ _ _ _ _ I).
      unfold rs_filter. cbn [filter fst snd map].
      rewrite (validate_rs_ok (select rsj ScMsg) c SESSION_ID iv _ (em_rs m) _ Hag eq_refl eq_refl).
      cbn [map snd]. apply Hfin. reflexivity.
  Qed.

  (* ---- what an ACCEPTED message must contain: tamper, wrong key, origin authentication ---- *)
  Definition rs_proof (k : keymat) (iv cmac : bytes) (rsl : list (bytes * bytes)) : Prop :=
    bytes_eqb (km_rs_id k) ZERO_ID = false ->
    find_mac (km_rs_id k) rsl = Some (mac (kdf true (km_rs_key k) (km_salt k) (firstn 4 iv)) iv cmac).

  Lemma validate_rs_inv : forall (k : keymat) iv cmac rsl,
    validate_rs mac (Build_dec_mat (km_id k) (km_kind k) (kdf false (km_key k) (km_salt k) (firstn 4 iv))
        (if bytes_eqb (km_rs_id k) ZERO_ID then None
         else Some (km_rs_id k, kdf true (km_rs_key k) (km_salt k) (firstn 4 iv)))) iv cmac rsl = true ->
    rs_proof k iv cmac rsl.
  Proof.
    intros k iv cmac rsl H Hz. unfold validate_rs in H. cbn [dm_rs] in H. rewrite Hz in H.
    destruct (find_mac (km_rs_id k) rsl) as [rm|]; [|discriminate].
    unfold validate in H. apply bytes_eqb_spec in H. subst rm. reflexivity.
  Qed.

  Theorem message_accept : forall info_ok store h e p l,
    decode_message mac dec kdf info_ok store h e = DSuccess p l ->
    exists rs k id iv cmac rsl,
      parse_header (e_hdr e) = Some (k, id, iv) /\ parse_footer (e_ftr e) = Some (cmac, rsl) /\
      lookup h store = Some rs /\ km_id (select rs ScMsg) = id /\ km_kind (select rs ScMsg) = k /\
      let key := select rs ScMsg in
      let sk := kdf false (km_key key) (km_salt key) (firstn 4 iv) in
      (is_gmac k = true -> e_body e = p /\ cmac = mac sk iv p /\ rs_proof key iv cmac rsl) /\
      (is_gcm k = true ->
         exists c, parse_content (e_body e) = Some (c, []) /\ c = enc sk iv p /\ cmac = gtag sk iv p
                   /\ rs_proof key iv cmac rsl).
  Proof.
    intros info_ok store h e p l H. unfold decode_message in H.
    destruct (parse_header (e_hdr e)) as [[[k id] iv]|] eqn:Eh; [|discriminate].
    destruct (parse_footer (e_ftr e)) as [[cmac rsl]|] eqn:Ef; [|discriminate].
    unfold session_decode_materials in H.
    destruct (lookup h store) as [rs|] eqn:El; [|discriminate].
    destruct (bytes_eqb (km_id (select rs ScMsg)) id) eqn:Ei; [|discriminate].
    cbn [dm_kind dm_skey] in H.
    destruct (km_kind (select rs ScMsg) =? k) eqn:Ek; [|discriminate]. cbn [negb] in H.
    apply bytes_eqb_spec in Ei. apply Z.eqb_eq in Ek.
    exists rs, k, id, iv, cmac, rsl. repeat (split; [assumption || reflexivity|]).
    cbn zeta. split.
    - intro Hg. rewrite Hg in H.
      match type of H with context [validate_rs ?a ?b ?c ?d ?e] => destruct (validate_rs a b c d e) eqn:Ev end; [|discriminate].
      cbn [negb] in H. unfold validate in H.
      destruct (bytes_eqb cmac _) eqn:Em; [|discriminate].
      destruct (info_ok (e_body e)); [|discriminate]. inversion H; subst p l.
      apply bytes_eqb_spec in Em. repeat split; [exact Em|]. apply validate_rs_inv. exact Ev.
    - intro Hc. rewrite (kinds_excl k Hc), Hc in H.
      destruct (parse_content (e_body e)) as [[c [|? ?]]|] eqn:Ep; try discriminate.
      match type of H with context [validate_rs ?a ?b ?c ?d ?e] => destruct (validate_rs a b c d e) eqn:Ev end; [|discriminate].
      cbn [negb] in H.
      destruct (dec _ iv c cmac) as [p'|] eqn:Ed; [|discriminate].
      destruct (info_ok p'); [|discriminate]. inversion H; subst p' l.
      apply (dec_sound _ _ _ _ _ I) in Ed. destruct Ed as [Ec Et].
      exists c. repeat split; try assumption. apply validate_rs_inv. exact Ev.
  Qed.

  (* submessage level, one sending endpoint: acceptance implies the same facts, and the local
     endpoint is handed the submessage only with a valid receiver-specific MAC when one is required *)
  Theorem submessage_accept : forall cls store hw w matched_local e p l,
    decode_submessage mac dec kdf cls store (Some [(hw, w)]) matched_local e = DSuccess p l ->
    exists rs k id iv cmac rsl,
      parse_header (e_hdr e) = Some (k, id, iv) /\ parse_footer (e_ftr e) = Some (cmac, rsl) /\
      lookup hw store = Some rs /\ km_id (select rs ScMsg) = id /\ km_kind (select rs ScMsg) = k /\
      let key := select rs ScMsg in
      let sk := kdf false (km_key key) (km_salt key) (firstn 4 iv) in
      (is_gmac k = true -> e_body e = p /\ cmac = mac sk iv p /\ rs_proof key iv cmac rsl) /\
      (is_gcm k = true ->
         exists c, parse_content (e_body e) = Some (c, []) /\ c = enc sk iv p /\ cmac = gtag sk iv p
                   /\ rs_proof key iv cmac rsl).
  Proof.
    intros cls store hw w matched_local e p l H. unfold decode_submessage in H.
    destruct (parse_header (e_hdr e)) as [[[k id] iv]|] eqn:Eh; [|discriminate].
    destruct (parse_footer (e_ftr e)) as [[cmac rsl]|] eqn:Ef; [|discriminate].
    cbn [matching fst] in H. unfold session_decode_materials in H.
    destruct (lookup hw store) as [rs|] eqn:El; [|discriminate].
    destruct (bytes_eqb (km_id (select rs ScMsg)) id) eqn:Ei; [|discriminate].
    cbn [unambiguous_key dm_kind dm_skey] in H.
    destruct (km_kind (select rs ScMsg) =? k) eqn:Ek; [|discriminate]. cbn [negb] in H.
    apply bytes_eqb_spec in Ei. apply Z.eqb_eq in Ek.
    exists rs, k, id, iv, cmac, rsl. repeat (split; [assumption || reflexivity|]).
    assert (Hfil : forall plain senders,
       match cls plain with
       | None => DErr
       | Some is_writer_sub =>
           match matched_locals matched_local senders is_writer_sub with
           | None => DErr | Some [] => DRsMacFailed | Some ls => DSuccess plain ls end
       end = DSuccess p l -> plain = p /\ senders <> []).
    { intros plain senders Hx. destruct (cls plain) as [ws|]; [|discriminate].
      destruct senders as [|s ss]; [cbn in Hx; discriminate|].
      destruct (matched_locals matched_local (s :: ss) ws) as [[|? ?]|]; try discriminate.
      inversion Hx; subst. split; [reflexivity | discriminate]. }
    cbn zeta. split.
    - intro Hg. rewrite Hg in H. unfold validate in H at 1.
      destruct (bytes_eqb cmac _) eqn:Em; [|discriminate].
      apply Hfil in H. destruct H as [Hp Hne]. apply bytes_eqb_spec in Em.
      unfold rs_filter in Hne. cbn [filter fst] in Hne.
      match type of Hne with context [validate_rs ?a ?b ?c ?d ?e] => destruct (validate_rs a b c d e) eqn:Ev end;
        [|cbn in Hne; contradiction].
      subst p. repeat split; [exact Em|]. apply validate_rs_inv. exact Ev.
    - intro Hc. rewrite (kinds_excl k Hc), Hc in H.
      destruct (parse_content (e_body e)) as [[c [|? ?]]|] eqn:Ep; try discriminate.
      destruct (dec _ iv c cmac) as [p'|] eqn:Ed; [|discriminate].
      apply Hfil in H. destruct H as [Hp Hne]. subst p'.
      apply (dec_sound _ _ _ _ _ I) in Ed. destruct Ed as [Ec Et].
      unfold rs_filter in Hne. cbn [filter fst] in Hne.
      match type of Hne with context [validate_rs ?a ?b ?c ?d ?e] => destruct (validate_rs a b c d e) eqn:Ev end;
        [|cbn in Hne; contradiction].
      exists c. repeat split; try assumption. apply validate_rs_inv. exact Ev.
  Qed.
End Upper.
