(* C16 — protected traffic decodes only for its intended receiver and only if untouched.

   Model of the framing and key logic of
     src/security/cryptographic/cryptographic_builtin/crypto_transform.rs
        (encode_serialized_payload, encode_submessage, encode_rtps_message, decode_rtps_message,
         decode_submessage, decode_serialized_payload)
     .../encode.rs (encode_gmac, encode_gcm, compute_receiver_specific_macs)
     .../validate_receiver_specific_macs.rs, .../key_material.rs (select, receiver_key_material_for)
     .../types.rs (BuiltinCryptoHeader / BuiltinCryptoFooter codecs), CryptoContent codec
     src/security/cryptographic/cryptographic_builtin.rs (key stores by handle,
         session_encoding_materials, get_decode_key_material, get_session_decode_crypto_materials)
   and of what the DATA framing does to a serialized payload (Data::write_to pads it to a multiple
   of 4, Data::deserialize hands the padding over as part of the payload).

   The primitives (AES-GMAC tag, AES-GCM encryption / tag / authenticated decryption, the HMAC
   session-key derivation) are Section variables; their idealised properties are the record
   [ideal], a hypothesis of every theorem.  "Bytes" are cells: [Lf z] is an ordinary octet, [Nd l]
   exists only so that ideal primitives have a model (Instance.v); a 32-bit big-endian word is 4
   cells with the value in the last one (word overflow is outside the model).

   Not modelled: the 4-byte submessage headers and the parsing of the secure submessages (C14),
   volatile endpoints (keys derived from the shared secret), session-id rotation (constant in the
   code), several endpoints of one participant sharing a key id. *)
From Coq Require Import List ZArith Bool Lia.
From RD Require Import Common.Corr.
Import ListNotations.
Open Scope Z_scope.

Inductive byte := Lf (z : Z) | Nd (l : list byte).
Definition bytes := list byte.

Fixpoint byte_eqb (a b : byte) : bool :=
  match a, b with
  | Lf x, Lf y => x =? y
  | Nd l, Nd m =>
      (fix go (l m : list byte) : bool :=
         match l, m with
         | [], [] => true
         | x :: l', y :: m' => byte_eqb x y && go l' m'
         | _, _ => false
         end) l m
  | _, _ => false
  end.
Fixpoint bytes_eqb (l m : bytes) : bool :=
  match l, m with
  | [], [] => true
  | x :: l', y :: m' => byte_eqb x y && bytes_eqb l' m'
  | _, _ => false
  end.

Definition zeros (n : nat) : bytes := repeat (Lf 0) n.
Definition pad4 (n : nat) : nat := (4 - n mod 4) mod 4.
Definition word (n : Z) : bytes := [Lf 0; Lf 0; Lf 0; Lf n].
Definition word_val (w : bytes) : option Z :=
  match w with
  | [Lf 0; Lf 0; Lf 0; Lf n] => if 0 <=? n then Some n else None
  | _ => None
  end.
Definition ZERO_ID : bytes := [Lf 0; Lf 0; Lf 0; Lf 0].
Definition SESSION_ID : bytes := [Lf 1; Lf 3; Lf 3; Lf 7].   (* CryptographicBuiltin::session_id *)

(* transformation kinds: 0 NONE, 1 AES128_GMAC, 2 AES128_GCM, 3 AES256_GMAC, 4 AES256_GCM *)
Definition kind_valid (k : Z) : bool := (0 <=? k) && (k <=? 4).
Definition is_gmac (k : Z) : bool := (k =? 1) || (k =? 3).
Definition is_gcm (k : Z) : bool := (k =? 2) || (k =? 4).

Record keymat := {
  km_kind : Z; km_salt : bytes; km_id : bytes; km_key : bytes;
  km_rs_id : bytes; km_rs_key : bytes }.
Inductive kmseq := KOne (k : keymat) | KTwo (k p : keymat).
Inductive scope := ScMsg | ScPayload.
Definition select (s : kmseq) (sc : scope) : keymat :=
  match s, sc with
  | KOne k, _ => k
  | KTwo k _, ScMsg => k
  | KTwo _ p, ScPayload => p
  end.

Fixpoint lookup {A} (h : Z) (l : list (Z * A)) : option A :=
  match l with
  | [] => None
  | (h', a) :: l' => if h =? h' then Some a else lookup h l'
  end.

Inductive outcome :=
| DSuccess (plain : bytes) (receivers : list Z)
| DKeysNotFound | DRsMacFailed | DErr.

Section Prims.
  Variable mac : bytes -> bytes -> bytes -> bytes.          (* key iv data: AES-GMAC tag *)
  Variable enc : bytes -> bytes -> bytes -> bytes.          (* key iv plaintext: AES-GCM ciphertext *)
  Variable gtag : bytes -> bytes -> bytes -> bytes.         (* key iv plaintext: AES-GCM tag *)
  Variable dec : bytes -> bytes -> bytes -> bytes -> option bytes.  (* key iv ciphertext tag *)
  Variable kdf : bool -> bytes -> bytes -> bytes -> bytes.  (* receiver-specific? master salt session-id *)

  (* validate_mac: open_in_place of the tag with the data as AAD = recomputation of the tag *)
  Definition validate (k iv d m : bytes) : bool := bytes_eqb m (mac k iv d).

  Record ideal : Prop := {
    mac_len : forall k iv d, length (mac k iv d) = 16%nat;
    gtag_len : forall k iv p, length (gtag k iv p) = 16%nat;
    enc_len : forall k iv p, length (enc k iv p) = length p;
    dec_enc : forall k iv p, dec k iv (enc k iv p) (gtag k iv p) = Some p;
    dec_sound : forall k iv c t p, dec k iv c t = Some p -> c = enc k iv p /\ t = gtag k iv p;
    enc_inj : forall k iv p p', enc k iv p = enc k iv p' -> p = p';
    mac_inj : forall k iv d k' iv' d', mac k iv d = mac k' iv' d' -> k = k' /\ iv = iv' /\ d = d';
    gtag_inj : forall k iv p k' iv' p', gtag k iv p = gtag k' iv' p' -> k = k' /\ iv = iv' /\ p = p';
    kdf_inj : forall r k s i r' k' s' i', kdf r k s i = kdf r' k' s' i' -> r = r' /\ k = k' /\ s = s' /\ i = i' }.

  (* ---------------- codecs ---------------- *)
  (* CryptoHeader: kind[4] key_id[4] session_id[4] iv_suffix[8] *)
  Definition header (kind : Z) (key_id iv : bytes) : bytes := word kind ++ key_id ++ iv.
  Definition parse_header (h : bytes) : option (Z * bytes * bytes) :=
    if negb (length h =? 20)%nat then None else
    match word_val (firstn 4 h) with
    | Some k => if kind_valid k then Some (k, firstn 4 (skipn 4 h), skipn 8 h) else None
    | None => None
    end.
  (* CryptoContent: length word, data *)
  Definition content (c : bytes) : bytes := word (Z.of_nat (length c)) ++ c.
  (* reads one CryptoContent from the front of a buffer: (data, rest) *)
  Definition parse_content (b : bytes) : option (bytes * bytes) :=
    match word_val (firstn 4 b) with
    | Some n =>
        let rest := skipn 4 b in
        if (Z.to_nat n <=? length rest)%nat then Some (firstn (Z.to_nat n) rest, skipn (Z.to_nat n) rest)
        else None
    | None => None
    end.
  (* CryptoFooter: common_mac[16] count word, count x (key_id[4] mac[16]) *)
  Fixpoint rs_bytes (l : list (bytes * bytes)) : bytes :=
    match l with
    | [] => []
    | (id, m) :: l' => id ++ m ++ rs_bytes l'
    end.
  Definition footer (cmac : bytes) (rs : list (bytes * bytes)) : bytes :=
    cmac ++ word (Z.of_nat (length rs)) ++ rs_bytes rs.
  Fixpoint parse_rs (n : nat) (b : bytes) : option (list (bytes * bytes)) :=
    match n with
    | O => Some []        (* trailing bytes are ignored by the CDR deserializer *)
    | S n' =>
        if (length b <? 20)%nat then None else
        match parse_rs n' (skipn 20 b) with
        | Some l => Some ((firstn 4 b, firstn 16 (skipn 4 b)) :: l)
        | None => None
        end
    end.
  Definition parse_footer (f : bytes) : option (bytes * list (bytes * bytes)) :=
    if (length f <? 20)%nat then None else
    match word_val (firstn 4 (skipn 16 f)) with
    | Some n =>
        match parse_rs (Z.to_nat n) (skipn 20 f) with
        | Some rs => Some (firstn 16 f, rs)
        | None => None
        end
    | None => None
    end.

  (* ---------------- encoding side ---------------- *)
  Record enc_mat := {
    em_id : bytes; em_kind : Z; em_skey : bytes; em_iv : bytes; em_rs : list (bytes * bytes) }.

  (* KeyMaterial_AES_GCM_GMAC::receiver_key_material_for *)
  Definition receiver_key_material_for (r common : keymat) : option (bytes * bytes) :=
    if bytes_eqb (km_id r) (km_id common) && (km_kind r =? km_kind common)
       && bytes_eqb (km_key r) (km_key common) && bytes_eqb (km_salt r) (km_salt common)
    then Some (km_rs_id r, km_rs_key r) else None.

  (* session_encoding_materials (non-volatile); the random IV suffix is an input *)
  Fixpoint rs_session_keys (common : keymat) (rs_store : list (Z * kmseq)) (sc : scope)
           (receivers : list Z) (iv : bytes) : option (list (bytes * bytes)) :=
    match receivers with
    | [] => Some []
    | h :: hs =>
        match lookup h rs_store with
        | None => None
        | Some s =>
            match receiver_key_material_for (select s sc) common with
            | None => None
            | Some (id, key) =>
                match rs_session_keys common rs_store sc hs iv with
                | None => None
                | Some l =>
                    if bytes_eqb id ZERO_ID then Some l
                    else Some ((id, kdf true key (km_salt common) (firstn 4 iv)) :: l)
                end
            end
        end
    end.
  Definition session_encoding_materials (common : kmseq) (rs_store : list (Z * kmseq)) (sc : scope)
             (receivers : list Z) (iv_suffix : bytes) : option enc_mat :=
    let c := select common sc in
    let iv := SESSION_ID ++ iv_suffix in
    match rs_session_keys c rs_store sc receivers iv with
    | None => None
    | Some rs => Some (Build_enc_mat (km_id c) (km_kind c) (kdf false (km_key c) (km_salt c) (firstn 4 iv)) iv rs)
    end.

  (* compute_receiver_specific_macs: each over the common MAC *)
  Definition rs_macs (iv cmac : bytes) (rs : list (bytes * bytes)) : list (bytes * bytes) :=
    map (fun p => (fst p, mac (snd p) iv cmac)) rs.

  (* the encoded form: the contents of the three secure elements *)
  Record encoded := { e_hdr : bytes; e_body : bytes; e_ftr : bytes }.

  (* encode_gmac / encode_gcm + header / footer construction; [None]: kind NONE (nothing is encoded) *)
  Definition encode_unit (m : enc_mat) (plain : bytes) : option encoded :=
    let hdr := header (em_kind m) (em_id m) (em_iv m) in
    if is_gmac (em_kind m) then
      let cm := mac (em_skey m) (em_iv m) plain in
      Some (Build_encoded hdr plain (footer cm (rs_macs (em_iv m) cm (em_rs m))))
    else if is_gcm (em_kind m) then
      let cm := gtag (em_skey m) (em_iv m) plain in
      Some (Build_encoded hdr (content (enc (em_skey m) (em_iv m) plain))
                          (footer cm (rs_macs (em_iv m) cm (em_rs m))))
    else None.

  (* encode_serialized_payload: no receiver-specific MACs, one buffer *)
  Definition encode_payload (common : kmseq) (iv_suffix plain : bytes) : option bytes :=
    match session_encoding_materials common [] ScPayload [] iv_suffix with
    | None => None
    | Some m =>
        match encode_unit m plain with
        | Some e => Some (e_hdr e ++ e_body e ++ e_ftr e)
        | None => None
        end
    end.

  (* what a DATA submessage does to a serialized payload on its way to the receiver *)
  Definition data_framing (p : bytes) : bytes := p ++ zeros (pad4 (length p)).

  (* ---------------- decoding side ---------------- *)
  Record dec_mat := { dm_id : bytes; dm_kind : Z; dm_skey : bytes; dm_rs : option (bytes * bytes) }.

  (* get_decode_key_material + get_session_decode_crypto_materials *)
  Definition session_decode_materials (store : list (Z * kmseq)) (h : Z) (key_id : bytes)
             (sc : scope) (iv : bytes) : option dec_mat :=
    match lookup h store with
    | None => None
    | Some s =>
        let k := select s sc in
        if bytes_eqb (km_id k) key_id then
          Some (Build_dec_mat (km_id k) (km_kind k) (kdf false (km_key k) (km_salt k) (firstn 4 iv))
                  (if bytes_eqb (km_rs_id k) ZERO_ID then None
                   else Some (km_rs_id k, kdf true (km_rs_key k) (km_salt k) (firstn 4 iv))))
        else None
    end.

  (* validate_receiver_specific_mac *)
  Fixpoint find_mac (id : bytes) (l : list (bytes * bytes)) : option bytes :=
    match l with
    | [] => None
    | (i, m) :: l' => if bytes_eqb i id then Some m else find_mac id l'
    end.
  Definition validate_rs (m : dec_mat) (iv cmac : bytes) (rs : list (bytes * bytes)) : bool :=
    match dm_rs m with
    | None => true
    | Some (id, key) =>
        match find_mac id rs with
        | Some rm => validate key iv cmac rm
        | None => false
        end
    end.

  (* decode_serialized_payload; [fixed = false]: as written (footer = the last 20 bytes for every
     kind); [fixed = true]: repaired (GCM: the footer follows CryptoContent, up to 3 zero bytes of
     padding behind it) *)
  Definition all_zero (b : bytes) : bool := forallb (fun x => byte_eqb x (Lf 0)) b.
  Definition decode_payload (fixed : bool) (store : list (Z * kmseq)) (h : Z) (buf : bytes)
    : option bytes :=
    if (length buf <? 40)%nat then None else
    match parse_header (firstn 20 buf) with
    | None => None
    | Some (kind, key_id, iv) =>
        let rest := skipn 20 buf in
        let split :=
          if fixed && is_gcm kind then
            match parse_content rest with
            | Some (c, after) =>
                if (length after <? 20)%nat then None else
                let padding := skipn 20 after in
                if (length padding <? 4)%nat && all_zero padding
                then Some (firstn (4 + length c) rest, firstn 20 after) else None
            | None => None
            end
          else Some (firstn (length rest - 20) rest, skipn (length rest - 20) rest) in
        match split with
        | None => None
        | Some (cbytes, fbytes) =>
            match parse_footer fbytes with
            | None => None
            | Some (cmac, _) =>
                match session_decode_materials store h key_id ScPayload iv with
                | None => None
                | Some m =>
                    if negb (dm_kind m =? kind) then None else
                    if is_gmac kind then
                      if validate (dm_skey m) iv cbytes cmac then Some cbytes else None
                    else if is_gcm kind then
                      match parse_content cbytes with
                      | Some (c, _) => dec (dm_skey m) iv c cmac
                      | None => None
                      end
                    else None
                end
            end
        end
    end.

  (* decode_rtps_message on the parsed elements (sender's participant handle [h]); the InfoSource
     comparison is [info_ok] applied to the authenticated plaintext *)
  Definition decode_message (info_ok : bytes -> bool) (store : list (Z * kmseq)) (h : Z) (e : encoded)
    : outcome :=
    match parse_header (e_hdr e), parse_footer (e_ftr e) with
    | Some (kind, key_id, iv), Some (cmac, rs) =>
        match session_decode_materials store h key_id ScMsg iv with
        | None => DKeysNotFound
        | Some m =>
            if negb (dm_kind m =? kind) then DErr else
            if is_gmac kind then
              if negb (validate_rs m iv cmac rs) then DRsMacFailed else
              if validate (dm_skey m) iv (e_body e) cmac
              then (if info_ok (e_body e) then DSuccess (e_body e) [] else DErr) else DErr
            else if is_gcm kind then
              match parse_content (e_body e) with
              | Some (c, []) =>
                  if negb (validate_rs m iv cmac rs) then DRsMacFailed else
                  match dec (dm_skey m) iv c cmac with
                  | Some p => if info_ok p then DSuccess p [] else DErr
                  | None => DErr
                  end
              | _ => DErr
              end
            else (if info_ok (e_body e) then DSuccess (e_body e) [] else DErr)
        end
    | _, _ => DErr
    end.

  (* decode_submessage: the sender participant's endpoints [eps] = (handle, is_writer); every
     endpoint whose key id matches must have the header's kind and the same session key; the
     receiver-specific MAC filters the endpoints; [cls] classifies the plaintext submessage
     (Some true: writer submessage, Some false: reader submessage, None: undecodable) *)
  Fixpoint matching (store : list (Z * kmseq)) (eps : list (Z * bool)) (key_id iv : bytes)
    : list (dec_mat * (Z * bool)) :=
    match eps with
    | [] => []
    | ep :: eps' =>
        match session_decode_materials store (fst ep) key_id ScMsg iv with
        | Some m => (m, ep) :: matching store eps' key_id iv
        | None => matching store eps' key_id iv
        end
    end.
  Fixpoint unambiguous_key (kind : Z) (l : list (dec_mat * (Z * bool))) : option (option bytes) :=
    (* None: error; Some None: no key; Some (Some k) *)
    match l with
    | [] => Some None
    | (m, _) :: l' =>
        if negb (dm_kind m =? kind) then None else
        match unambiguous_key kind l' with
        | None => None
        | Some None => Some (Some (dm_skey m))
        | Some (Some k) => if bytes_eqb k (dm_skey m) then Some (Some k) else None
        end
    end.
  Definition rs_filter (l : list (dec_mat * (Z * bool))) (iv cmac : bytes) (rs : list (bytes * bytes))
    : list (Z * bool) :=
    map snd (filter (fun me => validate_rs (fst me) iv cmac rs) l).
  Fixpoint matched_locals (matched_local : list (Z * Z)) (eps : list (Z * bool)) (want_writer : bool)
    : option (list Z) :=
    match eps with
    | [] => Some []
    | (h, w) :: eps' =>
        if Bool.eqb w want_writer then
          match lookup h matched_local, matched_locals matched_local eps' want_writer with
          | Some l, Some ls => Some (l :: ls)
          | _, _ => None
          end
        else matched_locals matched_local eps' want_writer
    end.
  Definition decode_submessage (cls : bytes -> option bool) (store : list (Z * kmseq))
             (eps : option (list (Z * bool))) (matched_local : list (Z * Z)) (e : encoded) : outcome :=
    match parse_header (e_hdr e), parse_footer (e_ftr e), eps with
    | Some (kind, key_id, iv), Some (cmac, rs), Some eps =>
        let ms := matching store eps key_id iv in
        match unambiguous_key kind ms with
        | None => DErr
        | Some None => DKeysNotFound
        | Some (Some key) =>
            let finish (plain : bytes) (senders : list (Z * bool)) :=
              match cls plain with
              | None => DErr
              | Some is_writer_sub =>
                  match matched_locals matched_local senders is_writer_sub with
                  | None => DErr
                  | Some [] => DRsMacFailed
                  | Some ls => DSuccess plain ls
                  end
              end in
            if is_gmac kind then
              if validate key iv (e_body e) cmac then finish (e_body e) (rs_filter ms iv cmac rs) else DErr
            else if is_gcm kind then
              match parse_content (e_body e) with
              | Some (c, []) =>
                  match dec key iv c cmac with
                  | Some p => finish p (rs_filter ms iv cmac rs)
                  | None => DErr
                  end
              | _ => DErr
              end
            else finish (e_body e) (map snd ms)
        end
    | _, _, _ => DErr
    end.
End Prims.
