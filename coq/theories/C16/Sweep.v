(* C16 — the executable model passes the oracle on a stated finite domain (vm_compute sweep), the
   code as written and the known finding fail it; Prop reading of the oracle. *)
From Coq Require Import List ZArith Bool Lia.
From RD Require Import Common.Corr C16.Model C16.Proofs C16.Instance C16.Run.
Import ListNotations.
Open Scope Z_scope.

Definition all_alters : list alter :=
  [ANone; AKind 1; AKind 2; AKind 3; AKind 4; AKindInvalid; AKeyId; ASessionId; AIvSuffix; AContent;
   AContentLen; ACommonMac; ARsMacMine; ARsMacOther; ARsKeyIdMine; ARsDropMine; ARsCount; AAppend;
   AWrongMasterKey; AWrongSalt; AOtherSender; ANotInList].

(* every level x kind x origin authentication x length 0..17 x 1..3 receivers x framing x
   alteration class x two byte positions *)
Definition domain : list case :=
  flat_map (fun lv => flat_map (fun k => flat_map (fun oa => flat_map (fun len => flat_map (fun nr =>
  flat_map (fun fr => flat_map (fun a => map (fun pos => Build_case lv k oa len nr fr a pos) [0; 7])
  all_alters) [FData; FDataFrag]) [1; 2; 3]) (map Z.of_nat (seq 0 18))) [false; true]) [1; 2; 3; 4])
  [LPayload; LSubmsg; LMessage].

Lemma sweep : forallb (fun c => known_class c || ok c (run c)) domain = true.
Proof. vm_compute. reflexivity. Qed.

Theorem model_ok_partial : forall c, In c domain -> known_class c = false -> ok c (run c) = true.
Proof.
  intros c Hin Hk. pose proof sweep as H. rewrite forallb_forall in H. specialize (H c Hin).
  rewrite Hk in H. exact H.
Qed.

(* the code as written: an AES-GCM protected payload of length 1 through the DATA framing *)
Definition witness_old : case := Build_case LPayload 2 false 1 1 FData ANone 0.
Lemma roundtrip_payload_old_refuted :
  known_class witness_old = false /\ ok witness_old (run_old witness_old) = false
  /\ o_outcome (run_old witness_old) = OErr /\ o_outcome (run witness_old) = OSuccess 0.
Proof. vm_compute. repeat split; reflexivity. Qed.

(* the known finding: AES-GMAC protected payload of length 1 through the DATA framing *)
Definition witness_known : case := Build_case LPayload 1 false 1 1 FData ANone 0.
Lemma known_class_fails :
  known_class witness_known = true /\ ok witness_known (run witness_known) = false
  /\ o_outcome (run witness_known) = OErr.
Proof. vm_compute. repeat split; reflexivity. Qed.

Lemma outc_eqb_spec : forall a b, outc_eqb a b = true <-> a = b.
Proof.
  intros [] []; cbn; split; intro H; try discriminate; try reflexivity;
    try (apply Z.eqb_eq in H; congruence); try (inversion H; apply Z.eqb_refl).
Qed.

Definition expected_len (c : case) : Z :=
  let n := c_len c in
  let r4 := n + Z.of_nat (pad4 (Z.to_nat n)) in
  match c_level c with
  | LPayload => n + (if is_gcm (c_kind c) then 44 else 40)
  | LSubmsg => r4 + (if is_gcm (c_kind c) then 28 else 20)
  | LMessage => r4 + (if is_gcm (c_kind c) then 56 else 48)
  end.

Theorem ok_spec : forall c o,
  ok c o = true <->
  o_enc_ok o = true /\ o_hdr_kind o = c_kind c /\
  o_nmacs o = (if c_oa c && negb (level_eqb (c_level c) LPayload) then Z.max 1 (c_nrecv c) else 0) /\
  o_enc_len o = expected_len c /\
  o_outcome o <> OPanic /\ o_outcome o <> OWrongData /\
  match expect c with
  | ExpSuccess =>
      o_outcome o = OSuccess (if negb (level_eqb (c_level c) LPayload)
                              then Z.of_nat (pad4 (Z.to_nat (c_len c))) else 0)
  | ExpReject => forall p, o_outcome o <> OSuccess p
  | ExpAny => True
  end.
Proof.
  intros c o. unfold ok, expected_len. cbn zeta.
  rewrite !andb_true_iff, !Z.eqb_eq, !negb_true_iff.
  split.
  - intros [[[[[[H1 H2] H3] H4] H5] H6] H7]. repeat split; try assumption.
    + intro E. rewrite E in H5. discriminate.
    + intro E. rewrite E in H6. discriminate.
    + destruct (expect c).
      * apply outc_eqb_spec. exact H7.
      * intros p E. rewrite E in H7. discriminate.
      * exact I.
  - intros [H1 [H2 [H3 [H4 [H5 [H6 H7]]]]]]. repeat split; try assumption.
    + destruct (outc_eqb (o_outcome o) OPanic) eqn:E; [apply outc_eqb_spec in E; contradiction | reflexivity].
    + destruct (outc_eqb (o_outcome o) OWrongData) eqn:E; [apply outc_eqb_spec in E; contradiction | reflexivity].
    + destruct (expect c).
      * apply outc_eqb_spec. exact H7.
      * destruct (o_outcome o); try reflexivity. exfalso. eapply H7. reflexivity.
      * reflexivity.
Qed.
