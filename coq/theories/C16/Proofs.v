(* C16 — lemmas: cell equality, codecs, round trips for all lengths. *)
From Coq Require Import List ZArith Bool Lia.
From RD Require Import Common.Corr C16.Model.
Import ListNotations.
Open Scope Z_scope.

(* ---------------- equality ---------------- *)
Section ByteInd.
  Variable P : byte -> Prop.
  Hypothesis HL : forall z, P (Lf z).
  Hypothesis HN : forall l, Forall P l -> P (Nd l).
  Fixpoint byte_ind' (b : byte) : P b :=
    match b with
    | Lf z => HL z
    | Nd l => HN l ((fix go (l : list byte) : Forall P l :=
                       match l with
                       | [] => Forall_nil P
                       | x :: l' => Forall_cons x (byte_ind' x) (go l')
                       end) l)
    end.
End ByteInd.

Lemma byte_eqb_spec : forall a b, byte_eqb a b = true <-> a = b.
Proof.
  induction a as [z|l IH] using byte_ind'; intros [y|m]; cbn [byte_eqb]; split; intro H;
    try discriminate; try (apply Z.eqb_eq in H; congruence); try (inversion H; apply Z.eqb_refl).
  - f_equal. revert m H. induction IH as [|x l Hx _ IHl]; intros [|y m] H; try discriminate; [reflexivity|].
    apply andb_true_iff in H. destruct H as [H1 H2]. apply Hx in H1. subst. f_equal. apply IHl; exact H2.
  - inversion H; subst m. clear H. induction IH as [|x l Hx _ IHl]; [reflexivity|].
    apply andb_true_iff; split; [apply Hx; reflexivity | exact IHl].
Qed.

Lemma bytes_eqb_spec : forall l m, bytes_eqb l m = true <-> l = m.
Proof.
  induction l as [|x l IH]; intros [|y m]; cbn; split; intro H; try discriminate; try reflexivity.
  - apply andb_true_iff in H. destruct H as [H1 H2]. apply byte_eqb_spec in H1. apply IH in H2. congruence.
  - inversion H; subst. apply andb_true_iff; split; [apply byte_eqb_spec | apply IH]; reflexivity.
Qed.
Lemma bytes_eqb_refl : forall l, bytes_eqb l l = true.
Proof. intro l; apply bytes_eqb_spec; reflexivity. Qed.
Lemma bytes_eqb_neq : forall l m, l <> m -> bytes_eqb l m = false.
Proof. intros l m H. destruct (bytes_eqb l m) eqn:E; [apply bytes_eqb_spec in E; contradiction | reflexivity]. Qed.

(* ---------------- list helpers ---------------- *)
Lemma firstn_app_exact : forall {A} (l m : list A) n, length l = n -> firstn n (l ++ m) = l.
Proof. intros A l m n <-. rewrite firstn_app, Nat.sub_diag, firstn_all. cbn. apply app_nil_r. Qed.
Lemma skipn_app_exact : forall {A} (l m : list A) n, length l = n -> skipn n (l ++ m) = m.
Proof. intros A l m n <-. rewrite skipn_app, Nat.sub_diag, skipn_all. reflexivity. Qed.

Lemma skipn_skipn' : forall {A} (x y : nat) (l : list A), skipn x (skipn y l) = skipn (y + x) l.
Proof. intros A x y. induction y as [|y IH]; intro l; [reflexivity|]. destruct l; [destruct x; reflexivity|]. cbn. apply IH. Qed.

Lemma word_val_word : forall n, 0 <= n -> word_val (word n) = Some n.
Proof. intros n H. unfold word_val, word. destruct (Z.leb_spec 0 n); [reflexivity | lia]. Qed.
Lemma word_length : forall n, length (word n) = 4%nat.
Proof. reflexivity. Qed.

Lemma pad4_lt : forall n, (pad4 n < 4)%nat.
Proof. intro n. unfold pad4. apply Nat.mod_upper_bound. discriminate. Qed.
Lemma pad4_aligned : forall n, (n mod 4 = 0)%nat -> pad4 n = 0%nat.
Proof. intros n H. unfold pad4. rewrite H. reflexivity. Qed.
Lemma all_zero_zeros : forall n, all_zero (zeros n) = true.
Proof. induction n; cbn; [reflexivity | exact IHn]. Qed.
Lemma zeros_length : forall n, length (zeros n) = n.
Proof. intro n. apply repeat_length. Qed.

Section Codecs.
  Variable mac : bytes -> bytes -> bytes -> bytes.
  Variable enc : bytes -> bytes -> bytes -> bytes.
  Variable gtag : bytes -> bytes -> bytes -> bytes.
  Variable dec : bytes -> bytes -> bytes -> bytes -> option bytes.
  Variable kdf : bool -> bytes -> bytes -> bytes -> bytes.

  Lemma parse_header_header : forall k id iv,
    kind_valid k = true -> length id = 4%nat -> length iv = 12%nat ->
    parse_header (header k id iv) = Some (k, id, iv).
  Proof.
    intros k id iv Hk Hid Hiv. unfold parse_header, header.
    assert (El : (length (word k ++ id ++ iv) =? 20)%nat = true).
    { rewrite !app_length, word_length, Hid, Hiv. reflexivity. }
    rewrite El. cbn [negb].
    rewrite (firstn_app_exact (word k)) by reflexivity.
    assert (0 <= k) by (unfold kind_valid in Hk; apply andb_true_iff in Hk; destruct Hk as [Hk _]; apply Z.leb_le in Hk; exact Hk).
    rewrite word_val_word by assumption. rewrite Hk.
    rewrite (skipn_app_exact (word k)) by reflexivity.
    rewrite (firstn_app_exact id) by assumption.
    change 8%nat with (4 + 4)%nat. rewrite <- skipn_skipn'.
    rewrite (skipn_app_exact (word k)) by reflexivity.
    rewrite (skipn_app_exact id) by assumption. reflexivity.
  Qed.

  Lemma parse_content_content : forall c rest, parse_content (content c ++ rest) = Some (c, rest).
  Proof.
    intros c rest. unfold parse_content, content. rewrite <- app_assoc.
    rewrite (firstn_app_exact (word _)) by reflexivity.
    rewrite word_val_word by lia. rewrite (skipn_app_exact (word _)) by reflexivity.
    rewrite Nat2Z.id. rewrite app_length.
    destruct (Nat.leb_spec (length c) (length c + length rest)); [|lia].
    rewrite firstn_app_exact, skipn_app_exact by reflexivity. reflexivity.
  Qed.

  Definition rs_wf (rs : list (bytes * bytes)) : Prop :=
    Forall (fun p => length (fst p) = 4%nat /\ length (snd p) = 16%nat) rs.

  Lemma split_entry : forall (id m rest : bytes), length id = 4%nat -> length m = 16%nat ->
    firstn 4 (id ++ m ++ rest) = id /\ firstn 16 (skipn 4 (id ++ m ++ rest)) = m
    /\ skipn 20 (id ++ m ++ rest) = rest /\ (length (id ++ m ++ rest) <? 20)%nat = false.
  Proof.
    intros id m rest Hid Hm. repeat split.
    - apply firstn_app_exact; assumption.
    - rewrite (skipn_app_exact id) by assumption. apply firstn_app_exact; assumption.
    - change 20%nat with (4 + 16)%nat. rewrite <- skipn_skipn'.
      rewrite (skipn_app_exact id) by assumption. apply skipn_app_exact; assumption.
    - rewrite !app_length, Hid, Hm. apply Nat.ltb_ge. lia.
  Qed.

  Lemma parse_rs_rs_bytes : forall rs trailing, rs_wf rs ->
    parse_rs (length rs) (rs_bytes rs ++ trailing) = Some rs.
  Proof.
    induction rs as [|[id m] rs IH]; intros trailing H; [reflexivity|].
    inversion H as [|? ? [Hid Hm] Hrest]; subst. cbn [fst snd] in *.
    cbn [length parse_rs rs_bytes]. rewrite <- !app_assoc.
    destruct (split_entry id m (rs_bytes rs ++ trailing) Hid Hm) as [E1 [E2 [E3 E4]]].
    rewrite E4, E3, E1, E2. rewrite IH by assumption. reflexivity.
  Qed.

  Lemma parse_footer_footer : forall cmac rs, length cmac = 16%nat -> rs_wf rs ->
    parse_footer (footer cmac rs) = Some (cmac, rs).
  Proof.
    intros cmac rs Hc Hrs. unfold parse_footer, footer.
    assert (E4 : (length (cmac ++ word (Z.of_nat (length rs)) ++ rs_bytes rs) <? 20)%nat = false).
    { rewrite !app_length, word_length, Hc. apply Nat.ltb_ge. lia. }
    rewrite E4.
    rewrite (skipn_app_exact cmac) by assumption.
    rewrite (firstn_app_exact (word _)) by reflexivity. rewrite word_val_word by lia.
    change 20%nat with (16 + 4)%nat. rewrite <- skipn_skipn'.
    rewrite (skipn_app_exact cmac) by assumption. rewrite (skipn_app_exact (word _)) by reflexivity.
    rewrite Nat2Z.id. rewrite <- (app_nil_r (rs_bytes rs)). rewrite parse_rs_rs_bytes by assumption.
    rewrite (firstn_app_exact cmac) by assumption. reflexivity.
  Qed.

  Lemma rs_macs_wf : forall iv cmac rs,
    (forall k iv d, length (mac k iv d) = 16%nat) ->
    Forall (fun p => length (fst p) = 4%nat) rs -> rs_wf (rs_macs mac iv cmac rs).
  Proof.
    intros iv cmac rs Hl H. unfold rs_macs, rs_wf. apply Forall_map.
    eapply Forall_impl; [|exact H]. intros [id k] Hid. cbn in *. split; [exact Hid | apply Hl].
  Qed.
End Codecs.
