(* C06 — reasoning about metered computations: [spec m P] = m returns normally with a value,
   cost and allocation satisfying P. *)
From Coq Require Import List ZArith Bool Lia.
From RD Require Import C06.Model.
Import ListNotations.
Open Scope Z_scope.

Definition spec {A} (m : out A) (P : A -> Z -> Z -> Prop) : Prop :=
  match m with ORet a c al => P a c al | _ => False end.

Lemma spec_ret {A} (a : A) (P : A -> Z -> Z -> Prop) : P a 0 0 -> spec (ret a) P.
Proof. exact (fun H => H). Qed.

Lemma spec_bind {A B} (m : out A) (f : A -> out B) P Q :
  spec m P ->
  (forall a c al, P a c al -> spec (f a) (fun b c2 a2 => Q b (c + c2) (al + a2))) ->
  spec (bind m f) Q.
Proof.
  destruct m as [| |a c al]; cbn; try contradiction. intros HP H. specialize (H a c al HP).
  destruct (f a); cbn in *; try contradiction. exact H.
Qed.

Lemma spec_mono {A} (m : out A) (P Q : A -> Z -> Z -> Prop) :
  spec m P -> (forall a c al, P a c al -> Q a c al) -> spec m Q.
Proof. destruct m; cbn; auto. Qed.

(* the common shape: a fact about the value, bounds on the meters *)
Definition bnd {A} (R : A -> Prop) (C AL : Z) : A -> Z -> Z -> Prop :=
  fun a c al => R a /\ 0 <= c <= C /\ 0 <= al <= AL.

Lemma bnd_ret {A} (a : A) (R : A -> Prop) C AL : R a -> 0 <= C -> 0 <= AL -> spec (ret a) (bnd R C AL).
Proof. intros. apply spec_ret. unfold bnd. split; [assumption|lia]. Qed.

Lemma bnd_bind {A B} (m : out A) (f : A -> out B) R1 C1 A1 R2 C2 A2 C AL :
  spec m (bnd R1 C1 A1) ->
  (forall a, R1 a -> spec (f a) (bnd R2 C2 A2)) ->
  C1 + C2 <= C -> A1 + A2 <= AL ->
  spec (bind m f) (bnd R2 C AL).
Proof.
  intros H1 H2 HC HA. eapply spec_bind; [exact H1|].
  intros a c al (Ra & Hc & Hal). eapply spec_mono; [apply (H2 a Ra)|].
  intros b c2 a2 (Rb & Hc2 & Ha2). unfold bnd. split; [exact Rb|]. lia.
Qed.

Lemma bnd_weaken {A} (m : out A) (R R' : A -> Prop) C C' AL AL' :
  spec m (bnd R C AL) -> (forall a, R a -> R' a) -> C <= C' -> AL <= AL' -> spec m (bnd R' C' AL').
Proof.
  intros H HR HC HA. eapply spec_mono; [exact H|]. intros a c al (Ra & ? & ?).
  unfold bnd. split; [auto|lia].
Qed.

Lemma bnd_tick n : 0 <= n -> spec (tick n) (bnd (fun _ => True) n 0).
Proof. intros. cbn. unfold bnd. split; [exact I|lia]. Qed.
Lemma bnd_alloc n : 0 <= n -> spec (alloc n) (bnd (fun _ => True) 0 n).
Proof. intros. cbn. unfold bnd. split; [exact I|lia]. Qed.

Lemma bnd_iadd a b :
  i64_min <= a + b <= i64_max -> spec (iadd a b) (bnd (fun x => x = a + b) 0 0).
Proof.
  intros H. unfold iadd, in_i64.
  destruct (Z.leb_spec i64_min (a + b)), (Z.leb_spec (a + b) i64_max); try lia.
  cbn. unfold bnd. split; [reflexivity|lia].
Qed.
Lemma bnd_isub a b :
  i64_min <= a - b <= i64_max -> spec (isub a b) (bnd (fun x => x = a - b) 0 0).
Proof.
  intros H. unfold isub, in_i64.
  destruct (Z.leb_spec i64_min (a - b)), (Z.leb_spec (a - b) i64_max); try lia.
  cbn. unfold bnd. split; [reflexivity|lia].
Qed.
Lemma bnd_u32add a b :
  a + b <= u32_max -> spec (u32add a b) (bnd (fun x => x = a + b) 0 0).
Proof.
  intros H. unfold u32add. destruct (Z.leb_spec (a + b) u32_max); try lia.
  cbn. unfold bnd. split; [reflexivity|lia].
Qed.

Lemma bnd_min_iadd u a b :
  i64_min <= a + b <= i64_max ->
  spec (lim <- iadd a b ;; ret (Z.min u lim)) (bnd (fun x => x = Z.min u (a + b)) 0 0).
Proof.
  intros H. unfold iadd, in_i64.
  destruct (Z.leb_spec i64_min (a + b)), (Z.leb_spec (a + b) i64_max); try lia.
  cbn. unfold bnd. split; [reflexivity|lia].
Qed.

(* a computation that satisfies a spec does not panic and does not run out of fuel *)
Lemma spec_not_panic {A} (m : out A) P : spec m P -> m <> OPanic /\ m <> OFuel.
Proof. destruct m; cbn; intros H; try contradiction. split; discriminate. Qed.
Lemma spec_inv {A} (m : out A) P : spec m P -> exists a c al, m = ORet a c al /\ P a c al.
Proof. destruct m; cbn; intros H; try contradiction. eauto. Qed.
