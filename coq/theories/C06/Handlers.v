(* C06 — the participant state: invariant, frame, size bounds; specifications of the handlers. *)
From Coq Require Import List ZArith Bool Lia.
From RD Require Import C06.Model C06.Spec C06.Proxy.
From RD Require C05.Model C05.Lists C05.Asm.
Import ListNotations.
Open Scope Z_scope.

Module FA := RD.C05.Asm.

(* ---- association lists whose values all satisfy P ---- *)
Definition allv {A} (P : A -> Prop) (m : list (Z * A)) : Prop := Forall (fun kv => P (snd kv)) m.

Lemma allv_lookup {A} (P : A -> Prop) m k v : allv P m -> F.alookup k m = Some v -> P v.
Proof.
  intros H E. apply FL.alookup_in in E. unfold allv in H. rewrite Forall_forall in H. apply (H _ E).
Qed.
Lemma allv_ainsert {A} (P : A -> Prop) m k v : allv P m -> P v -> allv P (F.ainsert k v m).
Proof.
  intros H Hv. unfold allv, F.ainsert. constructor; [exact Hv|].
  unfold allv in H. rewrite Forall_forall in *. intros x Hx. apply H. now apply FL.in_aremove in Hx.
Qed.

(* ---- invariant ---- *)
Definition Inv (s : state) : Prop :=
  allv pinv (s_px s) /\ FA.rinv (s_fa s) /\ allv (fun fc => 0 <= fc <= u32_max) (s_hist s).

Definition cbound (N : Z) (s : state) : Prop :=
  forall w p, F.alookup w (s_px s) = Some p -> zlen (changes p) <= N.
Definition wbound (W : Z) (s : state) : Prop :=
  forall w fa sn ab, F.alookup w (s_fa s) = Some fa -> F.alookup sn (F.fa_bufs fa) = Some ab ->
                     F.ab_count ab <= W.

(* what submessages attributed to the sources in l may change *)
Definition frame (l : list Z) (s s' : state) : Prop :=
  (forall w, ~ In w l -> F.alookup w (s_px s') = F.alookup w (s_px s))
  /\ (forall w, F.alookup w (s_px s') = None <-> F.alookup w (s_px s) = None)
  /\ (forall w, ~ In w l -> F.alookup w (s_fa s') = F.alookup w (s_fa s))
  /\ (forall w, ~ In w l -> F.alookup w (s_rps s') = F.alookup w (s_rps s))
  /\ (forall w, F.alookup w (s_rps s') = None <-> F.alookup w (s_rps s) = None)
  /\ s_hist s' = s_hist s /\ s_last s' = s_last s
  /\ (forall x, In x (s_deliv s') -> In x (s_deliv s) \/ In (fst x) l)
  /\ (forall x, In x (s_deliv s) -> In x (s_deliv s')).

Lemma frame_refl l s : frame l s s.
Proof. unfold frame. repeat split; auto; tauto. Qed.
Lemma frame_trans l s1 s2 s3 : frame l s1 s2 -> frame l s2 s3 -> frame l s1 s3.
Proof.
  intros (A1 & B1 & C1 & D1 & E1 & F1 & G1 & H1 & I1) (A2 & B2 & C2 & D2 & E2 & F2 & G2 & H2 & I2).
  unfold frame. repeat split.
  - intros w Hw. now rewrite A2, A1.
  - intros H. apply B1, B2, H. - intros H. apply B2, B1, H.
  - intros w Hw. now rewrite C2, C1.
  - intros w Hw. now rewrite D2, D1.
  - intros H. apply E1, E2, H. - intros H. apply E2, E1, H.
  - congruence. - congruence.
  - intros x Hx. apply H2 in Hx as [Hx|Hx]; [apply H1 in Hx|]; tauto.
  - intros x Hx. apply I2, I1, Hx.
Qed.
Lemma frame_incl l l' s s' : incl l l' -> frame l s s' -> frame l' s s'.
Proof.
  intros Hi (A & B & C & D & E & F' & G & H & I). unfold frame. repeat split; auto.
  - apply B. - apply B. - apply E. - apply E.
  - intros x Hx. apply H in Hx as [Hx|Hx]; [left|right]; auto.
Qed.

Definition post (N W tf : Z) (l : list Z) (s s' : state) : Prop :=
  Inv s' /\ frame l s s' /\ cbound (N + 512) s' /\ wbound (Z.max W tf) s'.

Lemma post_refl N W l s : Inv s -> cbound N s -> wbound W s -> 0 <= W -> post N W 0 l s s.
Proof.
  intros I C Wb HW. unfold post. split; [exact I|]. split; [apply frame_refl|]. split.
  - intros w p E. specialize (C w p E). lia.
  - intros w fa sn ab E1 E2. specialize (Wb w fa sn ab E1 E2). lia.
Qed.

Ltac sproj := cbn [s_px s_fa s_rps s_hist s_last s_deliv s_now set_px set_fa set_deliv set_rps tock].
Ltac sproj_in H := cbn [s_px s_fa s_rps s_hist s_last s_deliv s_now set_px set_fa set_deliv set_rps tock] in H.

(* updating the proxy of w *)
Lemma set_px_post N W w p p' s :
  Inv s -> cbound N s -> wbound W s -> F.alookup w (s_px s) = Some p ->
  pinv p' -> zlen (changes p') <= N + 512 ->
  post N W 0 [w] s (set_px s (F.ainsert w p' (s_px s))).
Proof.
  intros (Ip & If & Ih) C Wb E Ip' L. unfold post, Inv. sproj.
  split; [split; [now apply allv_ainsert|split; assumption]|]. split; [|split].
  - unfold frame. sproj. split; [|split; [|split; [|split; [|split; [|split; [|split; [|split]]]]]]];
      try reflexivity; try tauto.
    + intros w' Hw. apply FL.alookup_ainsert_neq. intros ->. apply Hw. now left.
    + intros w'. destruct (Z.eq_dec w' w) as [->|Ne].
      * rewrite FL.alookup_ainsert_eq. rewrite E. split; discriminate.
      * rewrite FL.alookup_ainsert_neq by assumption. tauto.
  - intros w' q Eq. sproj_in Eq. destruct (Z.eq_dec w' w) as [->|Ne].
    + rewrite FL.alookup_ainsert_eq in Eq. inversion Eq; subst. exact L.
    + rewrite FL.alookup_ainsert_neq in Eq by assumption. specialize (C w' q Eq). lia.
  - intros w' fa sn ab E1 E2. sproj_in E1. specialize (Wb w' fa sn ab E1 E2). lia.
Qed.

Lemma lookup_cbound N s w p : cbound N s -> F.alookup w (s_px s) = Some p -> zlen (changes p) <= N.
Proof. intros C E. apply (C w p E). Qed.

(* same, the sample (w, sn) is handed to the topic cache *)
Lemma set_px_deliv_post N W w sn p p' s :
  Inv s -> cbound N s -> wbound W s -> F.alookup w (s_px s) = Some p ->
  pinv p' -> zlen (changes p') <= N + 512 ->
  post N W 0 [w] s (set_deliv (set_px s (F.ainsert w p' (s_px s))) ((w, sn) :: s_deliv s)).
Proof.
  intros I C Wb E Ip' L.
  destruct (set_px_post N W w p p' s I C Wb E Ip' L) as (I' & Fr & C' & W').
  unfold post. split; [|split; [|split]].
  - exact I'.
  - destruct Fr as (A & B & C0 & D & E0 & F0 & G & H & J). unfold frame. sproj. sproj_in A.
    sproj_in B. sproj_in C0. sproj_in D. sproj_in E0.
    split; [exact A|]. split; [exact B|]. split; [exact C0|]. split; [exact D|]. split; [exact E0|].
    split; [reflexivity|]. split; [reflexivity|]. split.
    + intros x [<-|Hx]; [right; now left|now left].
    + intros x Hx. now right.
  - exact C'.
  - exact W'.
Qed.

Lemma process_received_spec N W s w sn size :
  Inv s -> cbound N s -> wbound W s -> 0 <= W -> 0 <= N -> sn <= CB -> 0 <= size ->
  spec (process_received s w sn size) (bnd (post N W 0 [w] s) (N + 2) (ENTRY + size + 256)).
Proof.
  intros I C Wb HW HN Hsn Hsz. unfold process_received.
  destruct (F.alookup w (s_px s)) as [p|] eqn:E.
  2:{ apply bnd_ret; [now apply post_refl|lia|unfold ENTRY; lia]. }
  destruct (should_ignore p sn).
  { apply bnd_ret; [now apply post_refl|lia|unfold ENTRY; lia]. }
  assert (Ip : pinv p) by (destruct I as (Ip & _); exact (allv_lookup _ _ _ _ Ip E)).
  pose proof (lookup_cbound N s w p C E) as Lp. pose proof (zlen_nonneg (changes p)).
  eapply spec_bind. { apply (received_add_spec p sn Ip Hsn). } intros p1 c1 a1 (G & Hc1 & Ha1).
  eapply spec_bind. { apply bnd_alloc. lia. } intros u2 c2 a2 (_ & Hc2 & Ha2).
  apply spec_ret. unfold bnd. split; [|unfold ENTRY in *; lia].
  destruct G as (Ip1 & L1 & _). apply (set_px_deliv_post N W w sn p p1 s I C Wb E Ip1). lia.
Qed.

Lemma handle_data_spec N W s w sn plen :
  Inv s -> cbound N s -> wbound W s -> 0 <= W -> 0 <= N -> sn <= CB -> 0 <= plen ->
  spec (handle_data s w sn plen) (bnd (post N W 0 [w] s) (N + 2) (ENTRY + plen + 256)).
Proof.
  intros. unfold handle_data. destruct (plen <? 4).
  - apply bnd_ret; [now apply post_refl|lia|unfold ENTRY; lia].
  - now apply process_received_spec.
Qed.

Lemma iadd_elem_ok base k :
  i64_min <= base <= max_accepted -> 0 <= k <= 256 ->
  spec (iadd k base) (bnd (fun x => x = k + base) 0 0).
Proof. intros. apply bnd_iadd. nums. lia. Qed.

Lemma numset_ok_words nb words : numset_ok nb words = true -> 0 <= nb <= 256 /\ nb <= 32 * zlen words.
Proof.
  unfold numset_ok. rewrite !andb_true_iff, !Z.leb_le, Z.eqb_eq. intros ((A & B) & C).
  split; [lia|]. rewrite C. pose proof (Z.div_mod (nb + 31) 32 ltac:(lia)).
  pose proof (Z.mod_pos_bound (nb + 31) 32 ltac:(lia)). lia.
Qed.

Lemma handle_gap_spec N W s w start base nb words :
  Inv s -> cbound N s -> wbound W s -> 0 <= W -> 0 <= N ->
  i64_min <= start <= max_accepted -> i64_min <= base <= max_accepted ->
  numset_ok nb words = true ->
  spec (handle_gap fixed s w start base nb words)
       (bnd (post N W 0 [w] s) (257 * N + 132000) (ENTRY * 511)).
Proof.
  intros I C Wb HW HN Hst Hba Hns. unfold handle_gap.
  destruct (F.alookup w (s_px s)) as [p|] eqn:E.
  2:{ apply bnd_ret; [now apply post_refl|lia|unfold ENTRY; lia]. }
  destruct (Z.leb_spec start 0). { apply bnd_ret; [now apply post_refl|lia|unfold ENTRY; lia]. }
  destruct (Z.leb_spec base 0). { apply bnd_ret; [now apply post_refl|lia|unfold ENTRY; lia]. }
  assert (Ip : pinv p) by (destruct I as (Ip & _); exact (allv_lookup _ _ _ _ Ip E)).
  pose proof (lookup_cbound N s w p C E) as Lp. pose proof (zlen_nonneg (changes p)) as Hz.
  apply numset_ok_words in Hns as (Hnb & Hw).
  eapply spec_bind. { apply (irrelevant_range_spec p start base Ip); lia. }
  intros p1 c1 a1 (G1 & Hc1 & Ha1).
  eapply spec_bind.
  { apply (set_elems_spec iadd base words (Z.to_nat nb) 0); [lia|lia|].
    intros k Hk. apply iadd_elem_ok; lia. }
  intros elems c2 a2 ((Fe & Le) & Hc2 & Ha2).
  assert (Fe' : Forall (fun x => x <= CB) elems).
  { rewrite Forall_forall in *. intros x Hx. apply Fe in Hx. nums. lia. }
  eapply spec_bind. { apply (fold_irrelevant_spec elems p1); [apply G1|exact Fe']. }
  intros p2 c3 a3 (G2 & Hc3 & Ha3).
  apply spec_ret. unfold bnd.
  destruct G1 as (Ip1 & L1 & _). destruct G2 as (Ip2 & L2 & _).
  pose proof (zlen_nonneg elems). pose proof (zlen_nonneg (changes p1)).
  split; [|split].
  - apply (set_px_post N W w p p2 s I C Wb E Ip2). lia.
  - split; [lia|]. assert (zlen elems * (zlen (changes p1) + zlen elems + 2) <= 256 * (N + 255 + 256 + 2)) by nia. lia.
  - unfold ENTRY in *. lia.
Qed.

(* ---- NACKFRAG generation ---- *)
Lemma buf_count_nonneg s w fa sn ab :
  Inv s -> F.alookup w (s_fa s) = Some fa -> F.alookup sn (F.fa_bufs fa) = Some ab ->
  0 <= F.ab_count ab /\ 0 <= zlen (filter negb (F.ab_bitmap ab)).
Proof.
  intros (_ & R & _) E1 E2. pose proof (FA.rinv_lookup _ _ _ R E1) as If.
  pose proof (FA.fa_inv_lookup _ _ _ If E2) as (A & B & C & D & E).
  split; [|apply zlen_nonneg]. rewrite D. apply RD.C05.Split.total_frags_nonneg.
  apply RD.C05.Lists.len_nonneg.
Qed.

Lemma nackfrag_cost_spec W s w sn :
  Inv s -> wbound W s -> 0 <= W ->
  spec (nackfrag_cost fixed s w sn) (bnd (fun _ => True) W (WORD * 256 + MSG)).
Proof.
  intros I Wb HW. unfold nackfrag_cost.
  destruct (F.alookup w (s_fa s)) as [fa|] eqn:E1.
  2:{ apply bnd_ret; [trivial|lia|unfold WORD, MSG; lia]. }
  destruct (F.alookup sn (F.fa_bufs fa)) as [ab|] eqn:E2.
  2:{ apply bnd_ret; [trivial|lia|unfold WORD, MSG; lia]. }
  destruct (buf_count_nonneg s w fa sn ab I E1 E2) as (H1 & H2). pose proof (Wb w fa sn ab E1 E2).
  cbn [v_nackfrag_window fixed].
  eapply spec_bind. { apply bnd_tick. exact H1. } intros u1 c1 a1 (_ & Hc1 & Ha1).
  eapply spec_bind. { apply bnd_alloc. unfold WORD. lia. } intros u2 c2 a2 (_ & Hc2 & Ha2).
  eapply spec_mono. { apply bnd_alloc. unfold MSG. lia. } intros u3 c3 a3 (_ & Hc3 & Ha3).
  unfold bnd, WORD, MSG in *. split; [trivial|lia].
Qed.

Lemma nackfrags_spec W s w l :
  Inv s -> wbound W s -> 0 <= W ->
  spec (nackfrags fixed s w l) (bnd (fun _ => True) (zlen l * W) (zlen l * (WORD * 256 + MSG))).
Proof.
  intros I Wb HW. induction l as [|sn l IH]; cbn [nackfrags].
  - apply bnd_ret; [trivial|unfold zlen; cbn; lia|unfold zlen; cbn; lia].
  - eapply spec_bind. { apply (nackfrag_cost_spec W s w sn I Wb HW). } intros u1 c1 a1 (_ & Hc1 & Ha1).
    eapply spec_mono. { exact IH. } intros u2 c2 a2 (_ & Hc2 & Ha2).
    unfold bnd. rewrite zlen_cons. unfold WORD, MSG in *. split; [trivial|]. lia.
Qed.

Lemma take_while_len {A} (f : A -> bool) l : zlen (take_while f l) <= zlen l.
Proof.
  induction l as [|x l IH]; cbn [take_while]; [lia|]. destruct (f x).
  - rewrite !zlen_cons. lia.
  - rewrite zlen_cons. pose proof (zlen_nonneg l). unfold zlen at 1. cbn [length]. lia.
Qed.

(* ---- HEARTBEAT ---- *)
Lemma handle_heartbeat_spec N W s w first last count fin :
  Inv s -> cbound N s -> wbound W s -> 0 <= W -> 0 <= N ->
  i64_min <= first <= max_accepted -> i64_min <= last <= max_accepted ->
  spec (handle_heartbeat fixed s w first last count fin)
       (bnd (fun r => post N W 0 [w] s (fst r)) (N + 256 * W + 1100)
            (ENTRY * 511 + WORD * 1024 + 256 * (WORD * 256 + MSG) + MSG + 256)).
Proof.
  intros I C Wb HW HN Hf Hl. unfold handle_heartbeat.
  destruct (F.alookup w (s_px s)) as [p|] eqn:E.
  2:{ apply bnd_ret; [now apply post_refl|lia|unfold ENTRY, WORD, MSG; lia]. }
  destruct (count <=? hb_count p).
  { apply bnd_ret; [now apply post_refl|lia|unfold ENTRY, WORD, MSG; lia]. }
  assert (Ip : pinv p) by (destruct I as (Ip & _); exact (allv_lookup _ _ _ _ Ip E)).
  pose proof (lookup_cbound N s w p C E) as Lp. pose proof (zlen_nonneg (changes p)) as Hz.
  set (p0 := {| ack_base := ack_base p; changes := changes p; hb_count := count |}).
  assert (Ip0 : pinv p0) by (destruct Ip as (A & B & D); apply pinv_intro; assumption).
  eapply spec_bind. { apply (irrelevant_range_spec p0 0 first Ip0); lia. }
  intros p1 c1 a1 (G1 & Hc1 & Ha1). destruct G1 as (Ip1 & L1 & _).
  change (changes p0) with (changes p) in *.
  pose proof Ip1 as (Hb1 & _ & _).
  cbn [v_hb_window fixed].
  eapply spec_bind. { apply bnd_min_iadd. nums. lia. } intros last' c2 a2 (-> & Hc2 & Ha2).
  eapply spec_bind. { apply (missing_seqnums_spec p1 first (Z.min last (ack_base p1 + 255)) Ip1); nums; lia. }
  intros missing c3 a3 ((Am & Fm & Lm) & Hc3 & Ha3).
  assert (P1 : post N W 0 [w] s (set_px s (F.ainsert w p1 (s_px s)))).
  { apply (set_px_post N W w p p1 s I C Wb E Ip1). lia. }
  destruct (negb match missing with [] => true | _ :: _ => false end || negb fin).
  2:{ apply spec_ret. unfold bnd. cbn [fst]. split; [exact P1|]. unfold ENTRY, WORD, MSG in *. lia. }
  destruct missing as [|fm rest].
  { eapply spec_bind. { apply bnd_alloc. unfold MSG. lia. } intros u4 c4 a4 (_ & Hc4 & Ha4).
    apply spec_ret. unfold bnd. cbn [fst]. split; [exact P1|]. unfold ENTRY, WORD, MSG in *. lia. }
  assert (Hfm : 1 <= fm <= CB + 256).
  { destruct (Am [] fm rest eq_refl) as (A1 & _). inversion Fm as [|? ? (B1 & _) _]; subst. nums. lia. }
  eapply spec_bind. { apply bnd_iadd. nums. lia. } intros lim2 c4 a4 (-> & Hc4 & Ha4).
  set (cand := take_while (fun x => x <? fm + 256) (fm :: rest)).
  assert (Lc : 0 <= zlen cand <= 256).
  { split; [apply zlen_nonneg|]. pose proof (take_while_len (fun x => x <? fm + 256) (fm :: rest)). unfold cand. lia. }
  eapply spec_bind. { apply bnd_tick. lia. } intros u5 c5 a5 (_ & Hc5 & Ha5).
  set (part := filter (is_partial s w) cand).
  set (sset := filter (fun x => negb (is_partial s w x)) cand).
  assert (Lp' : 0 <= zlen part <= 256) by (split; [apply zlen_nonneg|pose proof (zlen_filter (is_partial s w) cand); unfold part; lia]).
  assert (Ls : 0 <= zlen sset <= 256) by (split; [apply zlen_nonneg|pose proof (zlen_filter (fun x => negb (is_partial s w x)) cand); unfold sset; lia]).
  eapply spec_bind. { apply bnd_alloc. unfold ENTRY, WORD. lia. } intros u6 c6 a6 (_ & Hc6 & Ha6).
  eapply spec_bind. { apply (nackfrags_spec W s w part I Wb HW). } intros u7 c7 a7 (_ & Hc7 & Ha7).
  eapply spec_bind. { apply bnd_alloc. unfold MSG. lia. } intros u8 c8 a8 (_ & Hc8 & Ha8).
  apply spec_ret. unfold bnd. cbn [fst]. split; [exact P1|].
  unfold ENTRY, WORD, MSG in *. split; nia.
Qed.

(* ---- DATAFRAG: the fragment counts of the assembly buffers ---- *)
Lemma insert_frags_count ab df fs now ab' :
  F.insert_frags ab df fs now = F.Ok ab' -> F.ab_count ab' = F.ab_count ab.
Proof.
  unfold F.insert_frags. cbv zeta. intros H.
  repeat match type of H with
         | F.bind ?m _ = _ => destruct m; cbn [F.bind] in H; [discriminate|]
         end.
  inversion H. reflexivity.
Qed.

Lemma nd_counts fa df now fa' r W :
  F.new_datafrag fa df now = F.Ok (fa', r) ->
  (forall sn ab, F.alookup sn (F.fa_bufs fa) = Some ab -> F.ab_count ab <= W) ->
  forall sn ab, F.alookup sn (F.fa_bufs fa') = Some ab ->
    F.ab_count ab <= Z.max W (F.total_frags (F.df_data_size df) (F.df_frag_size df)).
Proof.
  unfold F.new_datafrag. intros H HW.
  destruct (F.validate_datafrag fa df).
  2:{ inversion H; subst. intros sn ab E. specialize (HW sn ab E). lia. }
  unfold F.assemble in H.
  assert (H0 : exists ab0,
    match F.alookup (F.df_sn df) (F.fa_bufs fa) with Some ab => F.Ok ab | None => F.abuf_new df now end = F.Ok ab0
    /\ F.ab_count ab0 <= Z.max W (F.total_frags (F.df_data_size df) (F.df_frag_size df))).
  { destruct (F.alookup (F.df_sn df) (F.fa_bufs fa)) as [ab|] eqn:El.
    - exists ab. split; [reflexivity|]. specialize (HW _ _ El). lia.
    - destruct (F.abuf_new df now) as [|ab0] eqn:En.
      + cbn [F.bind] in H. discriminate.
      + exists ab0. split; [reflexivity|]. unfold F.abuf_new in En. cbv zeta in En.
        destruct (F.assert (F.df_frag_size df <=? F.df_data_size df)); cbn [F.bind] in En; [discriminate|].
        destruct (F.assert (0 <? F.df_frag_size df)); cbn [F.bind] in En; [discriminate|].
        inversion En. cbn [F.ab_count]. lia. }
  destruct H0 as (ab0 & E0 & C0). rewrite E0 in H. cbn [F.bind] in H.
  destruct (F.insert_frags ab0 df (F.fa_fs fa) now) as [|ab1] eqn:Ei; cbn [F.bind] in H; [discriminate|].
  apply insert_frags_count in Ei.
  destruct (F.is_complete ab1); inversion H; subst; cbn [F.fa_bufs]; intros sn ab E.
  - destruct (Z.eq_dec sn (F.df_sn df)) as [->|Ne].
    + rewrite FL.alookup_aremove_eq in E. discriminate.
    + rewrite FL.alookup_aremove_neq in E by congruence. specialize (HW _ _ E). lia.
  - destruct (Z.eq_dec sn (F.df_sn df)) as [->|Ne].
    + rewrite FL.alookup_ainsert_eq in E. inversion E; subst. lia.
    + rewrite FL.alookup_ainsert_neq in E by congruence. specialize (HW _ _ E). lia.
Qed.

Lemma mk_df_ok sn start in_sub fsize total plen :
  0 <= start <= u32_max -> 0 <= in_sub <= 65535 -> 0 <= fsize <= 65535 -> 0 <= total <= u32_max ->
  0 <= plen <= 65535 -> FA.df_ok (mk_df sn start in_sub fsize total plen).
Proof.
  intros. unfold FA.df_ok, mk_df. cbn [F.df_start F.df_count F.df_data_size F.df_frag_size F.df_payload].
  rewrite FL.len_repeat. nums. lia.
Qed.

Definition tfrags (total fsize : Z) : Z := F.total_frags total fsize.

Lemma handle_datafrag_spec N W s w sn start in_sub fsize total plen :
  Inv s -> cbound N s -> wbound W s -> 0 <= W -> 0 <= N ->
  sn <= max_accepted ->
  0 <= start <= u32_max -> 0 <= in_sub <= 65535 -> 0 <= fsize <= 65535 -> 0 <= total <= u32_max ->
  0 <= plen <= 65535 ->
  spec (handle_datafrag fixed s w sn start in_sub fsize total plen)
       (bnd (post N W (tfrags total fsize) [w] s) (N + 65600)
            (2 * total + tfrags total fsize / 8 + 2 * ENTRY + 256)).
Proof.
  intros I C Wb HW HN Hsn Hst Hin Hfs Hto Hpl. unfold handle_datafrag.
  assert (Htf : 0 <= tfrags total fsize) by (apply RD.C05.Split.total_frags_nonneg; lia).
  assert (Htf8 : 0 <= tfrags total fsize / 8) by (apply Z.div_pos; lia).
  destruct (in_sub * fsize <? plen).
  { apply bnd_ret; [|lia|unfold ENTRY; lia].
    destruct (post_refl N W [w] s I C Wb HW) as (A & B & C' & D). unfold post.
    split; [exact A|split; [exact B|split; [exact C'|]]].
    intros w' fa sn' ab E1 E2. specialize (Wb w' fa sn' ab E1 E2). lia. }
  set (df := mk_df sn start in_sub fsize total plen).
  assert (Hdf : FA.df_ok df) by (apply mk_df_ok; assumption).
  set (fa := match F.alookup w (s_fa s) with
             | Some fa => fa | None => {| F.fa_fs := fsize; F.fa_bufs := [] |} end).
  assert (Efa : fa = FA.fa_of (s_fa s) w df) by reflexivity.
  destruct I as (Ip & If & Ih).
  assert (Ifa : FA.fa_inv fa) by (rewrite Efa; now apply FA.fa_of_inv).
  cbn [v_frag_validate fixed].
  destruct (FA.new_datafrag_ok fa df (s_now s) Ifa Hdf) as (fa' & r & End & Ifa' & Hlen).
  eapply spec_bind.
  { instantiate (1 := bnd (fun _ => True) 0 (total + tfrags total fsize / 8 + ENTRY)).
    destruct (_ && _).
    - apply bnd_alloc. unfold ENTRY. unfold tfrags in *. lia.
    - apply bnd_ret; [trivial|lia|unfold ENTRY; lia]. }
  intros u1 c1 a1 (_ & Hc1 & Ha1).
  eapply spec_bind.
  { instantiate (1 := bnd (fun _ => True) 65535 0).
    destruct (F.validate_datafrag fa df).
    - eapply bnd_weaken. { apply bnd_tick. lia. } + auto. + lia. + lia.
    - apply bnd_ret; [trivial|lia|lia]. }
  intros u2 c2 a2 (_ & Hc2 & Ha2).
  rewrite End. cbn [lift].
  eapply spec_bind. { apply (bnd_ret (fa', r) (fun x => x = (fa', r)) 0 0); [reflexivity|lia|lia]. }
  intros x c3 a3 (-> & Hc3 & Ha3). cbn [fst snd].
  set (s1 := tock (set_fa s (F.ainsert w fa' (s_fa s)))).
  assert (I1 : Inv s1).
  { unfold Inv, s1. sproj. split; [exact Ip|]. split; [|exact Ih]. now apply FA.rinv_ainsert. }
  assert (C1 : cbound N s1) by (intros w' p E; unfold s1 in E; sproj_in E; apply (C w' p E)).
  assert (W1 : wbound (Z.max W (tfrags total fsize)) s1).
  { intros w' fa0 sn' ab E1 E2. unfold s1 in E1. sproj_in E1.
    destruct (Z.eq_dec w' w) as [->|Ne].
    - rewrite FL.alookup_ainsert_eq in E1. inversion E1; subst fa0.
      apply (nd_counts fa df (s_now s) fa' r W End) with (sn := sn'); [|exact E2].
      intros sn0 ab0 E0. unfold fa in E0. destruct (F.alookup w (s_fa s)) as [fa1|] eqn:Ew.
      + apply (Wb w fa1 sn0 ab0 Ew E0).
      + cbn in E0. discriminate.
    - rewrite FL.alookup_ainsert_neq in E1 by assumption. specialize (Wb w' fa0 sn' ab E1 E2). lia. }
  assert (F1 : frame [w] s s1).
  { unfold frame, s1. sproj. split; [reflexivity|]. split; [tauto|]. split.
    - intros w' Hw. apply FL.alookup_ainsert_neq. intros ->. apply Hw. now left.
    - split; [reflexivity|]. split; [tauto|]. split; [reflexivity|]. split; [reflexivity|].
      split; [intros x Hx; now left|auto]. }
  destruct r as [b|].
  - specialize (Hlen b eq_refl). cbn [F.df_data_size df mk_df] in Hlen.
    eapply spec_mono.
    { apply (process_received_spec N (Z.max W (tfrags total fsize)) s1 w sn (F.len b) I1 C1 W1);
        [lia|lia|nums; lia|rewrite Hlen; lia]. }
    intros s2 c4 a4 ((I2 & F2 & C2 & W2) & Hc4 & Ha4). unfold bnd. split.
    + unfold post. split; [exact I2|]. split; [apply (frame_trans _ s s1 s2 F1 F2)|]. split; [exact C2|].
      intros w' fa0 sn' ab E1 E2. specialize (W2 w' fa0 sn' ab E1 E2). lia.
    + rewrite Hlen in Ha4. unfold ENTRY in *. lia.
  - apply spec_ret. unfold bnd. split.
    + unfold post. split; [exact I1|]. split; [exact F1|]. split; [|exact W1].
      intros w' p E. specialize (C1 w' p E). lia.
    + unfold ENTRY in *. lia.
Qed.

(* ---- the Writer: ACKNACK and NACKFRAG ---- *)
Lemma set_rps_post N W w rp' s :
  Inv s -> cbound N s -> wbound W s -> 0 <= W -> (exists rp, F.alookup w (s_rps s) = Some rp) ->
  post N W 0 [w] s (set_rps s (F.ainsert w rp' (s_rps s))).
Proof.
  intros I C Wb HW (rp & E). unfold post. split; [exact I|]. split; [|split].
  - unfold frame. sproj. split; [reflexivity|]. split; [tauto|]. split; [reflexivity|]. split.
    + intros w' Hw. apply FL.alookup_ainsert_neq. intros ->. apply Hw. now left.
    + split.
      * intros w'. destruct (Z.eq_dec w' w) as [->|Ne].
        -- rewrite FL.alookup_ainsert_eq, E. split; discriminate.
        -- rewrite FL.alookup_ainsert_neq by assumption. tauto.
      * split; [reflexivity|]. split; [reflexivity|]. split; [intros x Hx; now left|auto].
  - intros w' p Ep. sproj_in Ep. specialize (C w' p Ep). lia.
  - intros w' fa sn ab E1 E2. sproj_in E1. specialize (Wb w' fa sn ab E1 E2). lia.
Qed.

Lemma handle_acknack_spec N W s w base nb words :
  Inv s -> cbound N s -> wbound W s -> 0 <= W -> 0 <= N ->
  i64_min <= base <= max_accepted -> numset_ok nb words = true ->
  spec (handle_acknack s w base nb words) (bnd (post N W 0 [w] s) 256 (ENTRY * 257)).
Proof.
  intros I C Wb HW HN Hba Hns. unfold handle_acknack.
  apply numset_ok_words in Hns as (Hnb & Hw).
  eapply spec_bind.
  { apply (set_elems_spec iadd base words (Z.to_nat nb) 0); [lia|lia|].
    intros k Hk. apply iadd_elem_ok; lia. }
  intros elems c1 a1 ((Fe & Le) & Hc1 & Ha1). pose proof (zlen_nonneg elems).
  destruct (F.alookup w (s_rps s)) as [rp|] eqn:E.
  2:{ apply spec_ret. unfold bnd. split; [now apply post_refl|unfold ENTRY; lia]. }
  eapply spec_bind. { apply bnd_alloc. unfold ENTRY. lia. } intros u2 c2 a2 (_ & Hc2 & Ha2).
  eapply spec_bind. { apply bnd_alloc. unfold ENTRY. lia. } intros u3 c3 a3 (_ & Hc3 & Ha3).
  apply spec_ret. unfold bnd. split; [|unfold ENTRY in *; lia].
  apply set_rps_post; auto. eauto.
Qed.

Lemma zlen_upd {A} (l : list A) i v : zlen (F.upd l i v) = zlen l.
Proof. unfold zlen. now rewrite FL.upd_length. Qed.

Lemma mark_fold fc L elems : forall acc,
  fc <= L -> spec acc (bnd (fun b => zlen b = L) 0 0) ->
  spec (fold_left (mark_frag fc) elems acc) (bnd (fun b => zlen b = L) 0 0).
Proof.
  induction elems as [|f elems IH]; intros acc HL Hacc; cbn [fold_left]; [exact Hacc|].
  apply IH; [exact HL|]. unfold mark_frag.
  eapply spec_bind. { exact Hacc. } intros b c a (Hb & Hc & Ha).
  destruct ((1 <=? f) && (f <=? fc)) eqn:Ef.
  - apply andb_true_iff in Ef as (E1 & E2). apply Z.leb_le in E1, E2.
    destruct (Z.ltb_spec (f - 1) (zlen b)); [|lia].
    apply spec_ret. unfold bnd. rewrite zlen_upd. split; [exact Hb|lia].
  - apply spec_ret. unfold bnd. split; [exact Hb|lia].
Qed.

Definition hbound (H : Z) (s : state) : Prop :=
  forall sn fc, F.alookup sn (s_hist s) = Some fc -> fc <= H.

Lemma handle_nackfrag_spec N W H s w sn base nb words :
  Inv s -> cbound N s -> wbound W s -> hbound H s -> 0 <= W -> 0 <= N ->
  0 <= base <= fmax_accepted -> numset_ok nb words = true ->
  spec (handle_nackfrag s w sn base nb words)
       (bnd (post N W 0 [w] s) 256 (Z.max 0 H / 8 + ENTRY * 2)).
Proof.
  intros I C Wb Hh HW HN Hba Hns. unfold handle_nackfrag.
  assert (H8 : 0 <= Z.max 0 H / 8) by (apply Z.div_pos; lia).
  destruct (F.alookup sn (s_hist s)) as [fc|] eqn:Eh.
  2:{ apply bnd_ret; [now apply post_refl|lia|unfold ENTRY; lia]. }
  destruct (F.alookup w (s_rps s)) as [rp|] eqn:E.
  2:{ apply bnd_ret; [now apply post_refl|lia|unfold ENTRY; lia]. }
  assert (Hfc : 0 <= fc <= u32_max) by (destruct I as (_ & _ & Ih); exact (allv_lookup _ _ _ _ Ih Eh)).
  pose proof (Hh sn fc Eh) as HfcH.
  assert (Hfc8 : 0 <= fc / 8 <= Z.max 0 H / 8).
  { split; [apply Z.div_pos; lia|apply Z.div_le_mono; lia]. }
  apply numset_ok_words in Hns as (Hnb & Hw).
  eapply spec_bind.
  { instantiate (1 := bnd (fun _ => True) 0 (fc / 8 + ENTRY)).
    destruct (F.alookup sn (rp_frags rp)).
    - apply bnd_ret; [trivial|lia|unfold ENTRY; lia].
    - eapply spec_bind. { apply bnd_alloc. unfold ENTRY. lia. } intros u0 c0 a0 (_ & Hc0 & Ha0).
      apply spec_ret. unfold bnd. split; [trivial|lia]. }
  intros bv0 c1 a1 (_ & Hc1 & Ha1).
  set (bv1 := if zlen bv0 <? fc then bv0 ++ repeat false (Z.to_nat (fc - zlen bv0)) else bv0).
  assert (Lbv1 : fc <= zlen bv1).
  { unfold bv1. destruct (Z.ltb_spec (zlen bv0) fc); [|lia].
    rewrite zlen_app. unfold zlen at 2. rewrite repeat_length. lia. }
  eapply spec_bind.
  { apply (set_elems_spec u32add base words (Z.to_nat nb) 0); [lia|lia|].
    intros k Hk. apply bnd_u32add. nums. lia. }
  intros elems c2 a2 (_ & Hc2 & Ha2).
  eapply spec_bind.
  { apply (mark_fold fc (zlen bv1) elems (ret bv1) Lbv1). apply bnd_ret; [reflexivity|lia|lia]. }
  intros bv2 c3 a3 (_ & Hc3 & Ha3).
  eapply spec_bind. { apply bnd_alloc. unfold ENTRY. lia. } intros u4 c4 a4 (_ & Hc4 & Ha4).
  apply spec_ret. unfold bnd. split; [|unfold ENTRY in *; lia].
  apply set_rps_post; auto. eauto.
Qed.
