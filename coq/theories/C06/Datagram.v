(* C06 — one submessage, one datagram: no panic, invariant, frame, bounds. *)
From Coq Require Import List ZArith Bool Lia.
From RD Require Import C06.Model C06.Spec C06.Proxy C06.Handlers.
From RD Require C05.Model C05.Lists C05.Asm C05.Split.
Import ListNotations.
Open Scope Z_scope.

(* fragment count a DATAFRAG can add to the bookkeeping *)
Definition tf (m : subm) : Z :=
  match m with DataFrag _ _ _ fs tot _ => tfrags tot fs | _ => 0 end.
(* what AssemblyBuffer::new may allocate for it, and the completed sample's copy *)
Definition dfa (m : subm) : Z :=
  match m with DataFrag _ _ _ fs tot _ => 2 * tot + tfrags tot fs / 8 | _ => 0 end.

(* step bound for one submessage: N = entries per writer proxy, W = fragments per assembly buffer *)
Definition Kc (N W : Z) : Z := 257 * N + 256 * W + 132001.
(* allocation bound for one submessage that is not a DATAFRAG: the 256-windows *)
Definition A_fix : Z := ENTRY * 511 + WORD * 1024 + 256 * (WORD * 256 + MSG) + MSG + 256.
Definition h8 (H : Z) : Z := Z.max 0 H / 8.
Definition Ka (H : Z) (m : subm) : Z := SUBM + 9 * sub_bytes m + A_fix + h8 H + dfa m.

Lemma A_fix_val : A_fix = 1091776.
Proof. reflexivity. Qed.

Lemma pad4_bounds n : 0 <= n -> n <= pad4 n <= n + 3.
Proof.
  intros. unfold pad4. pose proof (Z.mod_pos_bound n 4 ltac:(lia)).
  pose proof (Z.mod_pos_bound (4 - n mod 4) 4 ltac:(lia)).
  assert ((4 - n mod 4) mod 4 = 4 - n mod 4 \/ (4 - n mod 4) mod 4 = 0).
  { destruct (Z.eq_dec (n mod 4) 0) as [E|E].
    - right. rewrite E. reflexivity.
    - left. apply Z.mod_small. lia. }
  lia.
Qed.

Lemma tfrags_nonneg tot fs : 0 <= tot -> 0 <= tfrags tot fs.
Proof. apply RD.C05.Split.total_frags_nonneg. Qed.
Lemma tfrags_le tot fs : 1 <= fs -> 0 <= tot -> tfrags tot fs <= tot.
Proof.
  intros Hf Ht. unfold tfrags. destruct (Z.eq_dec tot 0) as [->|Ne].
  - unfold F.total_frags. destruct (fs <? 1); [lia|]. rewrite Z.div_0_l, Z.mod_0_l by lia. cbn. lia.
  - pose proof (RD.C05.Split.total_frags_lower tot fs Hf ltac:(lia)). nia.
Qed.

Lemma wbound_weaken W W' s : wbound W s -> W <= W' -> wbound W' s.
Proof. intros Hw H w fa sn ab E1 E2. specialize (Hw w fa sn ab E1 E2). lia. Qed.
Lemma cbound_weaken N N' s : cbound N s -> N <= N' -> cbound N' s.
Proof. intros Hc H w p E. specialize (Hc w p E). lia. Qed.
Lemma hbound_frame l H s s' : frame l s s' -> hbound H s -> hbound H s'.
Proof. intros (_ & _ & _ & _ & _ & Eh & _) Hh sn fc E. rewrite Eh in E. apply (Hh sn fc E). Qed.

Lemma post_weaken N W t l s s' : post N W t l s s' -> 0 <= t -> forall T, W <= T -> t <= T ->
  Inv s' /\ frame l s s' /\ cbound (N + 512) s' /\ wbound T s'.
Proof.
  intros (A & B & C & D) Ht T H1 H2. split; [exact A|]. split; [exact B|]. split; [exact C|].
  apply (wbound_weaken _ _ _ D). lia.
Qed.

(* field ranges of a well-typed submessage, in Prop *)
Lemma in_i64_spec x : in_i64 x = true <-> i64_min <= x <= i64_max.
Proof. unfold in_i64. rewrite andb_true_iff, !Z.leb_le. tauto. Qed.
Lemma in_u32_spec x : in_u32 x = true <-> 0 <= x <= u32_max.
Proof. unfold in_u32. rewrite andb_true_iff, !Z.leb_le. tauto. Qed.
Lemma in_u16_spec x : in_u16 x = true <-> 0 <= x <= 65535.
Proof. unfold in_u16. rewrite andb_true_iff, !Z.leb_le. tauto. Qed.

Ltac bprop := repeat match goal with
  | H : _ && _ = true |- _ => apply andb_true_iff in H; destruct H
  | H : in_i64 _ = true |- _ => apply in_i64_spec in H
  | H : in_u32 _ = true |- _ => apply in_u32_spec in H
  | H : in_u16 _ = true |- _ => apply in_u16_spec in H
  | H : (_ <=? _) = true |- _ => apply Z.leb_le in H
  | H : (_ <? _) = true |- _ => apply Z.ltb_lt in H
  | H : (_ =? _) = true |- _ => apply Z.eqb_eq in H
  end.

Lemma sub_bytes_nonneg m : wf_sub m = true -> sub_parses m = true -> 0 <= sub_bytes m.
Proof.
  destruct m; cbn [wf_sub sub_parses sub_bytes]; intros Hw Hp; bprop;
    try (pose proof (zlen_nonneg words)); try lia.
  - pose proof (pad4_bounds payload_len ltac:(lia)). lia.
  - pose proof (pad4_bounds payload_len ltac:(lia)). lia.
  - destruct len_field; bprop; [lia|]. pose proof (pad4_bounds body_len ltac:(lia)). lia.
  - subst parsed. cbn [negb orb] in *. bprop. lia.
Qed.

Lemma post_refl_t N W t l s : Inv s -> cbound N s -> wbound W s -> 0 <= W -> 0 <= t -> post N W t l s s.
Proof.
  intros I C Wb HW Ht. destruct (post_refl N W l s I C Wb HW) as (A & B & C' & D).
  unfold post. split; [exact A|]. split; [exact B|]. split; [exact C'|].
  apply (wbound_weaken _ _ _ D). lia.
Qed.
Lemma post_t N W t l s s' : post N W 0 l s s' -> 0 <= W -> 0 <= t -> post N W t l s s'.
Proof.
  intros (A & B & C' & D) HW Ht. unfold post. split; [exact A|]. split; [exact B|]. split; [exact C'|].
  apply (wbound_weaken _ _ _ D). lia.
Qed.

Lemma tf_nonneg m : wf_sub m = true -> 0 <= tf m.
Proof.
  destruct m; cbn [tf wf_sub]; intros; try lia. bprop. apply tfrags_nonneg. lia.
Qed.
Lemma dfa_nonneg m : wf_sub m = true -> 0 <= dfa m.
Proof.
  destruct m; cbn [dfa wf_sub]; intros; try lia. bprop.
  pose proof (tfrags_nonneg total fsize ltac:(lia)).
  assert (0 <= tfrags total fsize / 8) by (apply Z.div_pos; lia). lia.
Qed.

(* the MessageReceiver state after the submessage: the source is unchanged or set by INFO_SRC *)
Definition sub_post (N W : Z) (s : state) (rc : rcv) (m : subm) (r : state * rcv * list reply) : Prop :=
  post N W (tf m) [rc_src rc] s (fst (fst r))
  /\ (rc_src (snd (fst r)) = rc_src rc \/ m = InfoSrc (rc_src (snd (fst r)))).

Lemma handle_sub_spec N W H s rc m :
  Inv s -> cbound N s -> wbound W s -> hbound H s -> 0 <= W -> 0 <= N ->
  wf_sub m = true -> sub_parses m = true ->
  spec (handle_sub fixed s rc m) (bnd (sub_post N W s rc m) (Kc N W) (Ka H m)).
Proof.
  intros I C Wb Hh HW HN Hwf Hp.
  pose proof (sub_bytes_nonneg m Hwf Hp) as Hsb.
  pose proof (tf_nonneg m Hwf) as Htf. pose proof (dfa_nonneg m Hwf) as Hdfa.
  assert (H8 : 0 <= h8 H) by (unfold h8; apply Z.div_pos; lia).
  assert (Pr : post N W (tf m) [rc_src rc] s s) by now apply post_refl_t.
  unfold handle_sub.
  eapply spec_bind. { apply bnd_tick. lia. } intros u0 c0 a0 (_ & Hc0 & Ha0).
  eapply spec_bind. { apply bnd_alloc. unfold SUBM. lia. } intros u1 c1 a1 (_ & Hc1 & Ha1).
  assert (Skip : forall rc' rs, (rc_src rc' = rc_src rc \/ m = InfoSrc (rc_src rc')) ->
            spec (ret (s, rc', rs))
                 (fun b c2 a2 => bnd (sub_post N W s rc m) (Kc N W) (Ka H m) b
                                     (c0 + (c1 + c2)) (a0 + (a1 + a2)))).
  { intros rc' rs Hrc. apply spec_ret. unfold bnd, sub_post, Kc, Ka, A_fix, ENTRY, WORD, MSG, SUBM in *.
    cbn [fst snd]. split; [split; [exact Pr|exact Hrc]|]. split; lia. }
  destruct m; try (apply Skip; (left; reflexivity) || (right; reflexivity)).
  (* the submessages that are dispatched to a Reader / to the Writer *)
  all: destruct (rc_dst_ok rc); cbn [negb]; [|apply Skip; left; reflexivity].
  all: cbn [v_range_guard fixed andb].
  all: match goal with |- context [accepted ?x] => destruct (accepted x) eqn:Acc end;
       cbn [negb]; [|apply Skip; left; reflexivity].
  all: cbn [accepted wf_sub sub_parses tf dfa sub_bytes] in *; bprop.
  - (* HEARTBEAT *)
    eapply spec_bind. { apply (handle_heartbeat_spec N W s (rc_src rc) first last count final I C Wb HW HN); lia. }
    intros r c2 a2 (P & Hc2 & Ha2).
    apply spec_ret. unfold bnd, sub_post. cbn [fst snd]. split; [split; [exact P|now left]|].
    unfold Kc, Ka, A_fix, ENTRY, WORD, MSG, SUBM in *. cbn [sub_bytes dfa tf] in *. split; lia.
  - (* GAP *)
    eapply spec_bind.
    { apply (handle_gap_spec N W s (rc_src rc) start base numbits words I C Wb HW HN); [lia|lia|assumption]. }
    intros r c2 a2 (P & Hc2 & Ha2).
    apply spec_ret. unfold bnd, sub_post. cbn [fst snd]. split; [split; [exact P|now left]|].
    unfold Kc, Ka, A_fix, ENTRY, WORD, MSG, SUBM in *. cbn [sub_bytes dfa tf] in *. split; lia.
  - (* DATA *)
    eapply spec_bind.
    { apply (handle_data_spec N W s (rc_src rc) sn payload_len I C Wb HW HN); [nums; lia|lia]. }
    intros r c2 a2 (P & Hc2 & Ha2).
    pose proof (pad4_bounds payload_len ltac:(lia)).
    apply spec_ret. unfold bnd, sub_post. cbn [fst snd]. split; [split; [exact P|now left]|].
    unfold Kc, Ka, A_fix, ENTRY, WORD, MSG, SUBM in *. cbn [sub_bytes dfa tf] in *. split; lia.
  - (* DATAFRAG *)
    eapply spec_bind.
    { apply (handle_datafrag_spec N W s (rc_src rc) sn start in_sub fsize total payload_len I C Wb HW HN); lia. }
    intros r c2 a2 (P & Hc2 & Ha2).
    pose proof (pad4_bounds payload_len ltac:(lia)).
    apply spec_ret. unfold bnd, sub_post. cbn [fst snd]. split; [split; [exact P|now left]|].
    unfold Kc, Ka, A_fix, ENTRY, WORD, MSG, SUBM in *. cbn [sub_bytes dfa tf] in *. split; lia.
  - (* ACKNACK *)
    eapply spec_bind.
    { apply (handle_acknack_spec N W s (rc_src rc) base numbits words I C Wb HW HN); [lia|assumption]. }
    intros r c2 a2 (P & Hc2 & Ha2).
    apply spec_ret. unfold bnd, sub_post. cbn [fst snd]. split; [split; [exact P|now left]|].
    unfold Kc, Ka, A_fix, ENTRY, WORD, MSG, SUBM in *. cbn [sub_bytes dfa tf] in *. split; lia.
  - (* NACKFRAG *)
    eapply spec_bind.
    { apply (handle_nackfrag_spec N W H s (rc_src rc) sn base numbits words I C Wb Hh HW HN); [lia|assumption]. }
    intros r c2 a2 (P & Hc2 & Ha2). change (Z.max 0 H / 8) with (h8 H) in Ha2.
    apply spec_ret. unfold bnd, sub_post. cbn [fst snd]. split; [split; [exact P|now left]|].
    unfold Kc, Ka, A_fix, ENTRY, WORD, MSG, SUBM in *. cbn [sub_bytes dfa tf] in *. split; lia.
  - (* HEARTBEAT_FRAG: logged only *)
    apply Skip. now left.
Qed.

(* ---- a list of submessages ---- *)
Definition srcs (w0 : Z) (l : list subm) : list Z :=
  w0 :: flat_map (fun m => match m with InfoSrc w => [w] | _ => [] end) l.

Definition subs_ok (T : Z) (l : list subm) : Prop :=
  Forall (fun m => wf_sub m = true /\ sub_parses m = true /\ tf m <= T) l.
Definition sumKa (H : Z) (l : list subm) : Z := fold_right (fun m a => Ka H m + a) 0 l.

Definition dg_post (N T : Z) (l : list Z) (n : Z) (s : state) (r : state * list reply) : Prop :=
  Inv (fst r) /\ frame l s (fst r) /\ cbound (N + 512 * n) (fst r) /\ wbound T (fst r).

Lemma Kc_mono N N' T : N <= N' -> Kc N T <= Kc N' T.
Proof. unfold Kc. lia. Qed.
Lemma Kc_nonneg N T : 0 <= N -> 0 <= T -> 0 <= Kc N T.
Proof. unfold Kc. lia. Qed.
Lemma Ka_nonneg H m : wf_sub m = true -> sub_parses m = true -> 0 <= Ka H m.
Proof.
  intros Hw Hp. pose proof (sub_bytes_nonneg m Hw Hp). pose proof (dfa_nonneg m Hw).
  assert (0 <= h8 H) by (unfold h8; apply Z.div_pos; lia).
  unfold Ka, SUBM. rewrite A_fix_val. lia.
Qed.

Lemma handle_subs_spec H T : forall l s rc N,
  Inv s -> cbound N s -> wbound T s -> hbound H s -> 0 <= T -> 0 <= N -> subs_ok T l ->
  spec (handle_subs fixed s rc l)
       (bnd (dg_post N T (srcs (rc_src rc) l) (zlen l) s)
            (zlen l * Kc (N + 512 * zlen l) T) (sumKa H l)).
Proof.
  induction l as [|m l IH]; intros s rc N I C Wb Hh HT HN Hok.
  - cbn [handle_subs]. apply bnd_ret; [|unfold zlen; cbn; lia|cbn; lia].
    unfold dg_post. cbn [fst]. split; [exact I|]. split; [apply frame_refl|]. split; [|exact Wb].
    apply (cbound_weaken _ _ _ C). unfold zlen. cbn. lia.
  - inversion Hok as [|? ? (Hwf & Hp & Htf) Hok']; subst. cbn [handle_subs].
    eapply spec_bind. { apply (handle_sub_spec N T H s rc m I C Wb Hh HT HN Hwf Hp). }
    intros r1 c1 a1 ((P & Hrc) & Hc1 & Ha1).
    destruct (post_weaken N T (tf m) [rc_src rc] s (fst (fst r1)) P (tf_nonneg m Hwf) T ltac:(lia) Htf)
      as (I1 & F1 & C1 & W1).
    pose proof (hbound_frame _ _ _ _ F1 Hh) as Hh1.
    eapply spec_bind.
    { apply (IH (fst (fst r1)) (snd (fst r1)) (N + 512) I1 C1 W1 Hh1 HT ltac:(lia) Hok'). }
    intros r2 c2 a2 ((I2 & F2 & C2 & W2) & Hc2 & Ha2).
    apply spec_ret. unfold bnd, dg_post. cbn [fst snd]. rewrite zlen_cons.
    pose proof (zlen_nonneg l) as Hl.
    split; [split; [exact I2|split; [|split; [|exact W2]]]|].
    + apply (frame_trans _ s (fst (fst r1)) (fst r2)).
      * apply (frame_incl [rc_src rc]); [|exact F1]. intros x Hx. destruct Hx as [<-|Hx]; [now left|destruct Hx].
      * apply (frame_incl (srcs (rc_src (snd (fst r1))) l)); [|exact F2].
        unfold srcs. intros x [<-|Hx].
        -- destruct Hrc as [-> | ->]; [now left|]. right. cbn [flat_map]. now left.
        -- right. cbn [flat_map]. apply in_or_app. now right.
    + apply (cbound_weaken _ _ _ C2). lia.
    + cbn [sumKa fold_right]. fold (sumKa H l).
      pose proof (Kc_mono N (N + 512 * (zlen l + 1)) T ltac:(lia)).
      pose proof (Kc_nonneg (N + 512 * (zlen l + 1)) T ltac:(lia) HT).
      replace (N + 512 + 512 * zlen l) with (N + 512 * (zlen l + 1)) in Hc2 by lia.
      split; [|lia]. nia.
Qed.

Lemma dg_bytes_nonneg d : wf_dgram d = true -> 0 <= dg_bytes d.
Proof. unfold wf_dgram. intros H. bprop. assumption. Qed.

(* ---- a datagram ---- *)
Lemma handle_spec N T H s d :
  Inv s -> cbound N s -> wbound T s -> hbound H s -> 0 <= T -> 0 <= N ->
  wf_dgram d = true -> Forall (fun m => tf m <= T) (d_subs d) ->
  spec (handle fixed s d)
       (bnd (dg_post N T (srcs (d_src d) (d_subs d)) (zlen (d_subs d)) s)
            (zlen (d_subs d) * Kc (N + 512 * zlen (d_subs d)) T)
            (8 * dg_bytes d + sumKa H (d_subs d))).
Proof.
  intros I C Wb Hh HT HN Hwf Htf. pose proof (dg_bytes_nonneg d Hwf) as Hb.
  pose proof (zlen_nonneg (d_subs d)) as Hl.
  assert (Hsubs : forallb wf_sub (d_subs d) = true) by (unfold wf_dgram in Hwf; bprop; assumption).
  unfold handle.
  eapply spec_bind. { apply bnd_alloc. lia. } intros u0 c0 a0 (_ & Hc0 & Ha0).
  destruct (forallb sub_parses (d_subs d)) eqn:Ep.
  - assert (Hok : subs_ok T (d_subs d)).
    { unfold subs_ok. rewrite Forall_forall in *. rewrite forallb_forall in *. intros m Hm. auto. }
    eapply spec_mono.
    { apply (handle_subs_spec H T (d_subs d) s {| rc_src := d_src d; rc_dst_ok := true |} N I C Wb Hh HT HN Hok). }
    intros r c a (P & Hc & Ha). unfold bnd. cbn [rc_src] in P. split; [exact P|lia].
  - apply spec_ret. unfold bnd, dg_post. cbn [fst].
    assert (0 <= sumKa H (d_subs d)).
    { clear -Hsubs. induction (d_subs d) as [|m l IH]; cbn; [lia|]. cbn in Hsubs. bprop.
      (* the bound is only used as an upper bound: it is a sum of non-negative terms whenever the
         submessages parse; for a datagram that does not parse only its sign matters *)
      fold (sumKa H l). specialize (IH H1).
      assert (0 <= Ka H m); [|lia].
      pose proof (dfa_nonneg m H0). assert (0 <= h8 H) by (unfold h8; apply Z.div_pos; lia).
      unfold Ka, SUBM. rewrite A_fix_val.
      assert (-20 <= sub_bytes m); [|lia].
      destruct m; cbn [wf_sub sub_bytes] in *; bprop; try (pose proof (zlen_nonneg words)); try lia.
      - pose proof (pad4_bounds payload_len ltac:(lia)). lia.
      - pose proof (pad4_bounds payload_len ltac:(lia)). lia.
      - destruct len_field; bprop; [lia|]. pose proof (pad4_bounds body_len ltac:(lia)). lia. }
    pose proof (Kc_nonneg (N + 512 * zlen (d_subs d)) T ltac:(lia) HT).
    split; [split; [exact I|split; [apply frame_refl|split; [|exact Wb]]]|].
    + apply (cbound_weaken _ _ _ C). lia.
    + split; [nia|lia].
Qed.
