(* C06 — no datagram can crash, hang or bloat a participant.

   Executable model of what the receive thread does with ONE RTPS datagram after the byte-level
   parse (speedy), at the level "parsed submessage with arbitrary in-type field values":

     Message::read_from_buffer / Submessage::read_from_buffer   (a datagram one of whose
        submessages is rejected by its reader is dropped as a whole: [sub_parses])
     NumberSet reader (num_bits <= 256, (num_bits+31)/32 words), NumberSetIter::next (bitmap
        indexing, base + bit index in the number type: i64 for sequence numbers, u32 for
        fragment numbers)
     DataFrag::deserialize validity checks, MessageReceiver::decode_and_handle_datafrag length check
     MessageReceiver::handle_interpreter_submessage (INFO_DST, INFO_SRC, INFO_TS),
        handle_writer_submessage / handle_reader_submessage guards (destination prefix,
        numbers_in_accepted_range = fix 4e0d9c9)
     Reader::handle_heartbeat_msg (count check, irrelevant_changes_up_to, window = fix eef2682,
        missing_seqnums, ACKNACK set construction, NACKFRAG generation),
     Reader::handle_gap_msg, Reader::handle_data_msg / process_received_data,
     Reader::handle_datafrag_msg + FragmentAssembler (C05's model, reused), handle_heartbeatfrag_msg
     RtpsWriterProxy::{missing_seqnums, should_ignore_change, received_changes_add,
        set_irrelevant_change, irrelevant_changes_range, irrelevant_changes_up_to, advance_ack_base}
     Writer::handle_ack_nack, RtpsReaderProxy::handle_ack_nack, RtpsReaderProxy::mark_frags_requested

   Debug-build semantics: checked + and - on i64 / u32 / usize, slice and BitVec indexing are
   explicit [OPanic] outcomes.  Every value-driven loop adds its trip count to [cost], every
   value-driven allocation its size in bytes (64 per BTreeMap/BTreeSet entry, 8 per Vec element,
   the buffer size for an assembly buffer) to [alloc].  BTreeMap operations (insert, split_off,
   append, range) count as one step each.

   [version] selects, per repaired defect, the code before or after the fix: commit. *)
From Coq Require Import List ZArith Bool Lia.
From RD Require Import Common.Corr.
From RD Require C05.Model.
Import ListNotations.
Open Scope Z_scope.

Module F := RD.C05.Model.

(* ---------------------------------------------------------------------------------------- *)
(* outcomes with meters *)
Inductive out (A : Type) :=
| OPanic                       (* the receive thread unwinds: the participant is dead *)
| OFuel                        (* model artefact: loop fuel exhausted (shown impossible) *)
| ORet (a : A) (cost alloc : Z).
Arguments OPanic {A}.
Arguments OFuel {A}.
Arguments ORet {A} a cost alloc.

Definition ret {A} (a : A) : out A := ORet a 0 0.
Definition bind {A B} (m : out A) (f : A -> out B) : out B :=
  match m with
  | OPanic => OPanic
  | OFuel => OFuel
  | ORet a c1 a1 =>
      match f a with
      | OPanic => OPanic
      | OFuel => OFuel
      | ORet b c2 a2 => ORet b (c1 + c2) (a1 + a2)
      end
  end.
Notation "x <- e ;; k" := (bind e (fun x => k))
  (at level 61, e at next level, right associativity).
Definition tick (n : Z) : out unit := ORet tt n 0.
Definition alloc (n : Z) : out unit := ORet tt 0 n.
Definition lift {A} (r : F.res A) : out A :=
  match r with F.Panic => OPanic | F.Ok a => ret a end.

Definition ENTRY : Z := 64.     (* one BTreeMap / BTreeSet entry *)
Definition WORD : Z := 8.       (* one Vec<SequenceNumber> element *)
Definition MSG : Z := 2048.     (* building and encoding one reply message *)

(* ---------------------------------------------------------------------------------------- *)
(* machine integers *)
Definition i64_max : Z := 9223372036854775807.
Definition i64_min : Z := -9223372036854775808.
Definition u32_max : Z := 4294967295.
Definition max_accepted : Z := i64_max - 65536.       (* SequenceNumber::MAX_ACCEPTED *)
Definition fmax_accepted : Z := u32_max - 65536.      (* FragmentNumber::MAX_ACCEPTED *)

Definition in_i64 (x : Z) : bool := (i64_min <=? x) && (x <=? i64_max).
Definition iadd (a b : Z) : out Z := if in_i64 (a + b) then ret (a + b) else OPanic.
Definition isub (a b : Z) : out Z := if in_i64 (a - b) then ret (a - b) else OPanic.
Definition u32add (a b : Z) : out Z := if a + b <=? u32_max then ret (a + b) else OPanic.

(* ---------------------------------------------------------------------------------------- *)
Record version := {
  v_range_guard : bool;      (* 4e0d9c9  numbers_in_accepted_range *)
  v_hb_window : bool;        (* eef2682  HEARTBEAT: enumerate at most the ACKNACK window *)
  v_gap_window : bool;       (* GAP range: mark at most the ACKNACK window *)
  v_nackfrag_window : bool;  (* NACKFRAG generation: collect at most 256 missing fragments *)
  v_frag_validate : bool }.  (* 67917b6  FragmentAssembler::validate_datafrag *)
Definition fixed : version :=
  {| v_range_guard := true; v_hb_window := true; v_gap_window := true;
     v_nackfrag_window := true; v_frag_validate := true |}.
Definition pinned : version :=
  {| v_range_guard := false; v_hb_window := false; v_gap_window := false;
     v_nackfrag_window := false; v_frag_validate := false |}.

(* ---------------------------------------------------------------------------------------- *)
(* submessages as parsed, field values arbitrary within their Rust types *)
Inductive subm :=
| Heartbeat (first last count : Z) (final : bool)
| Gap (start base numbits : Z) (words : list Z)
| Data (sn payload_len : Z)
| DataFrag (sn start in_sub fsize total payload_len : Z)
| AckNack (base numbits : Z) (words : list Z) (count : Z)
| NackFrag (sn base numbits : Z) (words : list Z) (count : Z)
| HeartbeatFrag (sn last_frag count : Z)
| InfoTs (sec frac : Z)
| InfoDst (who : Z)                 (* guid prefix = 12 x who; 0 = GUIDPREFIX_UNKNOWN *)
| InfoSrc (who : Z)
| Raw (id flags body_len : Z) (len_field : option Z) (parsed : bool)
| Blob (len : Z) (parsed : bool).
  (* Raw: submessage bytes the model does not interpret; always the last submessage of its
     datagram.  Blob: a whole datagram of [len] bytes that the model does not interpret (byte
     mutations, truncations); always alone.  [parsed] = verdict of the real
     Message::read_from_buffer on the whole datagram. *)

Record dgram := { d_src : Z; d_subs : list subm }.

Definition OWN : Z := 9.            (* our participant's guid prefix is 12 x 9 *)

Definition pad4 (n : Z) : Z := n + (4 - n mod 4) mod 4.
Definition zlen {A} (l : list A) : Z := Z.of_nat (length l).

(* size on the wire (submessage header included) *)
Definition sub_bytes (s : subm) : Z :=
  match s with
  | Heartbeat _ _ _ _ => 32
  | Gap _ _ _ w => 32 + 4 * zlen w
  | Data _ pl => 24 + pad4 pl
  | DataFrag _ _ _ _ _ pl => 36 + pad4 pl
  | AckNack _ _ w _ => 28 + 4 * zlen w
  | NackFrag _ _ _ w _ => 32 + 4 * zlen w
  | HeartbeatFrag _ _ _ => 28
  | InfoTs _ _ => 12
  | InfoDst _ => 16
  | InfoSrc _ => 24
  | Raw _ _ bl lf _ => 4 + match lf with None => pad4 bl | Some _ => bl end
  | Blob n _ => n - 20
  end.
Definition dg_bytes (d : dgram) : Z := 20 + fold_right (fun s a => sub_bytes s + a) 0 (d_subs d).

(* ---------------------------------------------------------------------------------------- *)
(* RtpsWriterProxy *)
Record proxy := { ack_base : Z; changes : list Z; hb_count : Z }.
Definition proxy0 : proxy := {| ack_base := 1; changes := []; hb_count := 0 |}.
Definition with_base (p : proxy) (b : Z) : proxy :=
  {| ack_base := b; changes := changes p; hb_count := hb_count p |}.
Definition with_changes (p : proxy) (ch : list Z) : proxy :=
  {| ack_base := ack_base p; changes := ch; hb_count := hb_count p |}.

Definition mem (x : Z) (l : list Z) : bool := existsb (Z.eqb x) l.
Definition insert (x : Z) (l : list Z) : list Z := if mem x l then l else x :: l.
Definition rm (x : Z) (l : list Z) : list Z := filter (fun y => negb (y =? x)) l.

(* advance_ack_base: walk changes.range(ack_base..) while the keys are consecutive.
   [rest] = the keys not yet visited (each visit removes one), fuel = their number + 1. *)
Fixpoint advance (fuel : nat) (b : Z) (rest : list Z) : out Z :=
  match fuel with
  | O => OFuel
  | S f =>
      _ <- tick 1 ;;
      if mem b rest then (b' <- iadd b 1 ;; advance f b' (rm b rest)) else ret b
  end.
Definition advance_proxy (p : proxy) : out proxy :=
  b <- advance (S (length (changes p))) (ack_base p) (changes p) ;; ret (with_base p b).

Definition should_ignore (p : proxy) (sn : Z) : bool := (sn <? ack_base p) || mem sn (changes p).

Definition received_add (p : proxy) (sn : Z) : out proxy :=
  _ <- alloc ENTRY ;;
  let p1 := with_changes p (insert sn (changes p)) in
  if sn =? ack_base p1 then advance_proxy p1 else ret p1.

Definition set_irrelevant (p : proxy) (sn : Z) : out proxy :=
  p1 <- (if ack_base p <=? sn
         then (_ <- alloc ENTRY ;; ret (with_changes p (insert sn (changes p))))
         else ret p) ;;
  if sn =? ack_base p1 then advance_proxy p1 else ret p1.

(* for na in range_inclusive(from, ..): the iterator computes b + 1 for every b it yields *)
Fixpoint insert_range (n : nat) (from : Z) (ch : list Z) : out (list Z) :=
  match n with
  | O => ret ch
  | S k =>
      _ <- tick 1 ;; _ <- alloc ENTRY ;;
      nxt <- iadd from 1 ;;
      insert_range k nxt (insert from ch)
  end.

Definition irrelevant_range (v : version) (p : proxy) (from until_before : Z) : out proxy :=
  if until_before <? from then ret p                      (* "negative range": return *)
  else if from <=? ack_base p then
    _ <- tick 1 ;;
    let ch := filter (fun x => negb ((from <=? x) && (x <? until_before))) (changes p) in
    if ack_base p <? until_before
    then advance_proxy {| ack_base := until_before; changes := ch; hb_count := hb_count p |}
    else ret (with_changes p ch)
  else
    u1 <- isub until_before 1 ;;
    last <- (if v_gap_window v
             then (lim <- iadd (ack_base p) 255 ;; ret (Z.min u1 lim))
             else ret u1) ;;
    ch <- insert_range (Z.to_nat (last - from + 1)) from (changes p) ;;
    ret (with_changes p ch).

(* NumberSetIter: element = base + i for every set bit i < num_bits; bit i is bit 31 - i mod 32
   of bitmap[i / 32] (indexing panics outside the Vec) *)
Definition bit_set (words : list Z) (i : Z) : out bool :=
  match nth_error words (Z.to_nat (i / 32)) with
  | None => OPanic
  | Some w => ret (Z.testbit w (31 - i mod 32))
  end.
Fixpoint set_elems (add : Z -> Z -> out Z) (n : nat) (i base : Z) (words : list Z)
  : out (list Z) :=
  match n with
  | O => ret []
  | S k =>
      _ <- tick 1 ;;
      b <- bit_set words i ;;
      x <- (if b then (e <- add i base ;; ret [e]) else ret []) ;;
      rest <- set_elems add k (i + 1) base words ;;
      ret (x ++ rest)
  end.

(* missing_seqnums: for s in range_inclusive(max(first, ack_base), last) *)
Fixpoint missing_loop (n : nat) (s : Z) (ch : list Z) : out (list Z) :=
  match n with
  | O => ret []
  | S k =>
      _ <- tick 1 ;;
      nxt <- iadd s 1 ;;
      rest <- missing_loop k nxt ch ;;
      if mem s ch then ret rest else (_ <- alloc WORD ;; ret (s :: rest))
  end.
Definition missing_seqnums (p : proxy) (first last : Z) : out (list Z) :=
  if last <? first then (_ <- iadd last 1 ;; ret [])      (* first > last + 1 is evaluated *)
  else
    _ <- alloc 256 ;;                                      (* Vec::with_capacity(32) *)
    let b := Z.max first (ack_base p) in
    let k := zlen (filter (fun x => (b <=? x) && (x <=? last)) (changes p)) in
    _ <- (if b <=? last then (_ <- tick k ;; alloc (WORD * k)) else ret tt) ;;
    missing_loop (Z.to_nat (last - b + 1)) b (changes p).

(* ---------------------------------------------------------------------------------------- *)
(* RtpsReaderProxy (the local Writer's view of a remote reader) *)
Record rproxy := { rp_acked : Z; rp_unsent : list Z; rp_frags : list (Z * list bool) }.
Definition rproxy0 : rproxy := {| rp_acked := 0; rp_unsent := []; rp_frags := [] |}.
(* after the driver has written samples 1..3: every sample is "unsent" for the matched reader *)
Definition rproxy_init : rproxy := {| rp_acked := 0; rp_unsent := [1; 2; 3]; rp_frags := [] |}.

(* ---------------------------------------------------------------------------------------- *)
(* the participant: one reliable Reader (matched writer proxies by source, fragment assemblers
   by source, what was handed to the topic cache) and one reliable Writer (history = sequence
   number |-> number of fragments, last sequence number, reader proxies by source) *)
Record state := {
  s_px : list (Z * proxy);
  s_fa : F.rstate;
  s_deliv : list (Z * Z);
  s_rps : list (Z * rproxy);
  s_hist : list (Z * Z);
  s_last : Z;
  s_now : Z }.

Definition set_px (s : state) (px : list (Z * proxy)) : state :=
  {| s_px := px; s_fa := s_fa s; s_deliv := s_deliv s; s_rps := s_rps s; s_hist := s_hist s;
     s_last := s_last s; s_now := s_now s |}.
Definition set_fa (s : state) (fa : F.rstate) : state :=
  {| s_px := s_px s; s_fa := fa; s_deliv := s_deliv s; s_rps := s_rps s; s_hist := s_hist s;
     s_last := s_last s; s_now := s_now s |}.
Definition set_deliv (s : state) (d : list (Z * Z)) : state :=
  {| s_px := s_px s; s_fa := s_fa s; s_deliv := d; s_rps := s_rps s; s_hist := s_hist s;
     s_last := s_last s; s_now := s_now s |}.
Definition set_rps (s : state) (r : list (Z * rproxy)) : state :=
  {| s_px := s_px s; s_fa := s_fa s; s_deliv := s_deliv s; s_rps := r; s_hist := s_hist s;
     s_last := s_last s; s_now := s_now s |}.
Definition tock (s : state) : state :=
  {| s_px := s_px s; s_fa := s_fa s; s_deliv := s_deliv s; s_rps := s_rps s; s_hist := s_hist s;
     s_last := s_last s; s_now := s_now s + 1 |}.

(* the ACKNACKs the reader emits: (writer, base, set) *)
Definition reply := (Z * Z * list Z)%type.

Definition is_partial (s : state) (w sn : Z) : bool :=
  match F.alookup w (s_fa s) with
  | Some fa => match F.alookup sn (F.fa_bufs fa) with Some _ => true | None => false end
  | None => false
  end.

Fixpoint take_while {A} (f : A -> bool) (l : list A) : list A :=
  match l with
  | [] => []
  | x :: l' => if f x then x :: take_while f l' else []
  end.

(* NumberSet::from_base_and_set(base, set) for an ascending [set] *)
Definition from_base_and_set (base : Z) (set : list Z) : Z * list Z :=
  match set with
  | [] => (base, [])
  | start :: _ =>
      let base := if start <? base then start else base in
      if base <? 1 then (1, [])
      else
        let e := last set start in
        let e := if 256 <=? e - base then base + 255 else e in
        (base, filter (fun x => (base <=? x) && (x <=? e)) set)
  end.

(* NACKFRAG generation for one partially received sample: missing_frags_for scans the
   received-bitmap; the missing fragment numbers are collected into a BTreeSet *)
Definition nackfrag_cost (v : version) (s : state) (w sn : Z) : out unit :=
  match F.alookup w (s_fa s) with
  | Some fa =>
      match F.alookup sn (F.fa_bufs fa) with
      | Some ab =>
          let miss := zlen (filter negb (F.ab_bitmap ab)) in
          _ <- tick (F.ab_count ab) ;;
          _ <- alloc (WORD * (if v_nackfrag_window v then Z.min miss 256 else miss)) ;;
          alloc MSG
      | None => ret tt
      end
  | None => ret tt
  end.
Fixpoint nackfrags (v : version) (s : state) (w : Z) (sns : list Z) : out unit :=
  match sns with
  | [] => ret tt
  | sn :: l => _ <- nackfrag_cost v s w sn ;; nackfrags v s w l
  end.

(* Reader::handle_heartbeat_msg (reliable, stateful reader) *)
Definition handle_heartbeat (v : version) (s : state) (w first last count : Z) (final : bool)
  : out (state * list reply) :=
  match F.alookup w (s_px s) with
  | None => ret (s, [])                                   (* no writer proxy *)
  | Some p =>
      if count <=? hb_count p then ret (s, []) else
      let p0 := {| ack_base := ack_base p; changes := changes p; hb_count := count |} in
      p1 <- irrelevant_range v p0 0 first ;;
      last' <- (if v_hb_window v
                then (lim <- iadd (ack_base p1) 255 ;; ret (Z.min last lim))
                else ret last) ;;
      missing <- missing_seqnums p1 first last' ;;
      let s1 := set_px s (F.ainsert w p1 (s_px s)) in
      if negb (match missing with [] => true | _ => false end) || negb final then
        match missing with
        | fm :: _ =>
            lim2 <- iadd fm 256 ;;
            let cand := take_while (fun x => x <? lim2) missing in
            _ <- tick (zlen cand) ;;
            let part := filter (is_partial s w) cand in
            let set := filter (fun x => negb (is_partial s w x)) cand in
            _ <- alloc (ENTRY * zlen set + WORD * zlen part) ;;
            _ <- nackfrags v s w part ;;
            _ <- alloc MSG ;;
            let r := from_base_and_set fm set in
            ret (s1, [(w, fst r, snd r)])
        | [] =>
            _ <- alloc MSG ;;
            ret (s1, [(w, ack_base p1, [])])
        end
      else ret (s1, [])
  end.

(* Reader::handle_gap_msg *)
Fixpoint fold_irrelevant (p : proxy) (l : list Z) : out proxy :=
  match l with
  | [] => ret p
  | x :: l' => p' <- set_irrelevant p x ;; fold_irrelevant p' l'
  end.
Definition handle_gap (v : version) (s : state) (w start base numbits : Z) (words : list Z)
  : out state :=
  match F.alookup w (s_px s) with
  | None => ret s
  | Some p =>
      if start <=? 0 then ret s else
      if base <=? 0 then ret s else
      p1 <- irrelevant_range v p start base ;;
      elems <- set_elems iadd (Z.to_nat numbits) 0 base words ;;
      p2 <- fold_irrelevant p1 elems ;;
      ret (set_px s (F.ainsert w p2 (s_px s)))
  end.

(* Reader::process_received_data (for DATA and for a completed DATAFRAG) *)
Definition process_received (s : state) (w sn size : Z) : out state :=
  match F.alookup w (s_px s) with
  | None => ret s                      (* no proxy, user-defined writer: ignored *)
  | Some p =>
      if should_ignore p sn then ret s else
      p1 <- received_add p sn ;;
      _ <- alloc (size + 256) ;;       (* the cache change *)
      ret (set_deliv (set_px s (F.ainsert w p1 (s_px s))) ((w, sn) :: s_deliv s))
  end.

(* Reader::handle_data_msg: a payload shorter than the 4-byte representation header is dropped *)
Definition handle_data (s : state) (w sn plen : Z) : out state :=
  if plen <? 4 then ret s else process_received s w sn plen.

(* MessageReceiver::decode_and_handle_datafrag + Reader::handle_datafrag_msg *)
Definition mk_df (sn start in_sub fsize total plen : Z) : F.datafrag :=
  {| F.df_sn := sn; F.df_start := start; F.df_count := in_sub; F.df_data_size := total;
     F.df_frag_size := fsize; F.df_payload := repeat 0 (Z.to_nat plen) |}.
Definition handle_datafrag (v : version) (s : state) (w sn start in_sub fsize total plen : Z)
  : out state :=
  if in_sub * fsize <? plen then ret s else
  let df := mk_df sn start in_sub fsize total plen in
  let fa := match F.alookup w (s_fa s) with
            | Some fa => fa
            | None => {| F.fa_fs := fsize; F.fa_bufs := [] |}
            end in
  let fresh := match F.alookup sn (F.fa_bufs fa) with Some _ => false | None => true end in
  let accepted := if v_frag_validate v then F.validate_datafrag fa df else true in
  _ <- (if fresh && accepted
        then alloc (total + F.total_frags total fsize / 8 + ENTRY)   (* AssemblyBuffer::new *)
        else ret tt) ;;
  _ <- (if accepted then tick in_sub else ret tt) ;;               (* bitmap.set loop *)
  r <- lift ((if v_frag_validate v then F.new_datafrag else F.new_datafrag_old) fa df (s_now s)) ;;
  let s1 := tock (set_fa s (F.ainsert w (fst r) (s_fa s))) in
  match snd r with
  | Some b => process_received s1 w sn (F.len b)
  | None => ret s1
  end.

(* Writer::handle_ack_nack, AckNack branch + RtpsReaderProxy::handle_ack_nack *)
Definition handle_acknack (s : state) (w base numbits : Z) (words : list Z) : out state :=
  elems <- set_elems iadd (Z.to_nat numbits) 0 base words ;;
  match F.alookup w (s_rps s) with
  | None => ret s
  | Some rp =>
      let acked := Z.max base 1 in
      let un0 := filter (fun x => acked <=? x) (rp_unsent rp) in
      _ <- alloc (ENTRY * zlen elems) ;;
      let un1 := fold_left (fun l x => insert x l) elems un0 in
      let un2 := if existsb (fun x => s_last s <? x) un1
                 then filter (fun x => x <=? s_last s) un1 else un1 in
      _ <- alloc ENTRY ;;                                   (* the repair timer entry *)
      ret (set_rps s (F.ainsert w {| rp_acked := acked; rp_unsent := un2; rp_frags := rp_frags rp |}
                                (s_rps s)))
  end.

(* Writer::handle_ack_nack, NackFrag branch + RtpsReaderProxy::mark_frags_requested *)
Definition mark_frag (fc : Z) (bv : out (list bool)) (f : Z) : out (list bool) :=
  b <- bv ;;
  if (1 <=? f) && (f <=? fc)
  then (if f - 1 <? zlen b then ret (F.upd b (Z.to_nat (f - 1)) true) else OPanic)
  else ret b.
Definition handle_nackfrag (s : state) (w sn base numbits : Z) (words : list Z) : out state :=
  match F.alookup sn (s_hist s) with
  | None => ret s                                           (* sample not in the history *)
  | Some fc =>
      match F.alookup w (s_rps s) with
      | None => ret s
      | Some rp =>
          bv0 <- match F.alookup sn (rp_frags rp) with
                 | Some bv => ret bv
                 | None => (_ <- alloc (fc / 8 + ENTRY) ;; ret (repeat false (Z.to_nat fc)))
                 end ;;
          let bv1 := if zlen bv0 <? fc then bv0 ++ repeat false (Z.to_nat (fc - zlen bv0)) else bv0 in
          elems <- set_elems u32add (Z.to_nat numbits) 0 base words ;;
          bv2 <- fold_left (mark_frag fc) elems (ret bv1) ;;
          _ <- alloc ENTRY ;;
          ret (set_rps s (F.ainsert w {| rp_acked := rp_acked rp; rp_unsent := rp_unsent rp;
                                         rp_frags := F.ainsert sn bv2 (rp_frags rp) |} (s_rps s)))
      end
  end.

(* ---------------------------------------------------------------------------------------- *)
(* parse-level rejection: the whole datagram is dropped *)
Definition numset_ok (numbits : Z) (words : list Z) : bool :=
  (0 <=? numbits) && (numbits <=? 256) && (zlen words =? (numbits + 31) / 32).
Definition sub_parses (s : subm) : bool :=
  match s with
  | Gap _ _ nb w | AckNack _ nb w _ | NackFrag _ _ nb w _ => numset_ok nb w
  | DataFrag sn start _ fsize total _ =>
      (1 <=? sn) && (1 <=? fsize) && (fsize <=? total)
      && (1 <=? start) && (start <=? F.total_frags total fsize)
  | Raw _ _ _ _ parsed | Blob _ parsed => parsed
  | _ => true
  end.

(* numbers_in_accepted_range *)
Definition accepted (s : subm) : bool :=
  match s with
  | Heartbeat f l _ _ => (f <=? max_accepted) && (l <=? max_accepted)
  | Gap st b _ _ => (st <=? max_accepted) && (b <=? max_accepted)
  | Data sn _ => sn <=? max_accepted
  | DataFrag sn st _ _ _ _ => (sn <=? max_accepted) && (st <=? fmax_accepted)
  | HeartbeatFrag sn lf _ => (sn <=? max_accepted) && (lf <=? fmax_accepted)
  | AckNack b _ _ _ => b <=? max_accepted
  | NackFrag sn b _ _ _ => (sn <=? max_accepted) && (b <=? fmax_accepted)
  | _ => true
  end.

(* MessageReceiver state that submessages of one datagram can change *)
Record rcv := { rc_src : Z; rc_dst_ok : bool }.

Definition SUBM : Z := 256.   (* the parsed Submessage value *)

Definition handle_sub (v : version) (s : state) (rc : rcv) (m : subm)
  : out (state * rcv * list reply) :=
  _ <- tick 1 ;; _ <- alloc (SUBM + 8 * sub_bytes m) ;;
  match m with
  | InfoDst who => ret (s, {| rc_src := rc_src rc; rc_dst_ok := (who =? 0) || (who =? OWN) |}, [])
  | InfoSrc who => ret (s, {| rc_src := who; rc_dst_ok := rc_dst_ok rc |}, [])
  | InfoTs _ _ | Raw _ _ _ _ _ | Blob _ _ => ret (s, rc, [])
  | _ =>
      if negb (rc_dst_ok rc) then ret (s, rc, []) else
      if v_range_guard v && negb (accepted m) then ret (s, rc, []) else
      let w := rc_src rc in
      match m with
      | Heartbeat f l c fin => r <- handle_heartbeat v s w f l c fin ;; ret (fst r, rc, snd r)
      | Gap st b nb ws => s' <- handle_gap v s w st b nb ws ;; ret (s', rc, [])
      | Data sn pl => s' <- handle_data s w sn pl ;; ret (s', rc, [])
      | DataFrag sn st n fs tot pl => s' <- handle_datafrag v s w sn st n fs tot pl ;; ret (s', rc, [])
      | AckNack b nb ws _ => s' <- handle_acknack s w b nb ws ;; ret (s', rc, [])
      | NackFrag sn b nb ws _ => s' <- handle_nackfrag s w sn b nb ws ;; ret (s', rc, [])
      | _ => ret (s, rc, [])                                (* HEARTBEAT_FRAG: logged only *)
      end
  end.

Fixpoint handle_subs (v : version) (s : state) (rc : rcv) (l : list subm)
  : out (state * list reply) :=
  match l with
  | [] => ret (s, [])
  | m :: l' =>
      r <- handle_sub v s rc m ;;
      r' <- handle_subs v (fst (fst r)) (snd (fst r)) l' ;;
      ret (fst r', snd r ++ snd r')
  end.

(* MessageReceiver::handle_received_packet + draining the ACKNACK channel into the Writer *)
Definition handle (v : version) (s : state) (d : dgram) : out (state * list reply) :=
  _ <- alloc (8 * dg_bytes d) ;;
  if forallb sub_parses (d_subs d)
  then handle_subs v s {| rc_src := d_src d; rc_dst_ok := true |} (d_subs d)
  else ret (s, []).

(* ---------------------------------------------------------------------------------------- *)
(* retained state, in bytes *)
Definition ab_size (ab : F.abuf) : Z := F.len (F.ab_bytes ab) + F.len (F.ab_bitmap ab) + ENTRY.
Definition fa_size (fa : F.assembler) : Z :=
  ENTRY + fold_right (fun kv a => ab_size (snd kv) + a) 0 (F.fa_bufs fa).
Definition size (s : state) : Z :=
  fold_right (fun kv a => ENTRY * zlen (changes (snd kv)) + a) 0 (s_px s)
  + fold_right (fun kv a => fa_size (snd kv) + a) 0 (s_fa s)
  + 320 * zlen (s_deliv s)
  + fold_right (fun kv a => ENTRY * zlen (rp_unsent (snd kv))
                            + fold_right (fun sb b => zlen (snd sb) + ENTRY + b) 0 (rp_frags (snd kv))
                            + a) 0 (s_rps s).

(* ---------------------------------------------------------------------------------------- *)
(* Correspondence interface.  The driver's participant: reader matched with writers 1 and 2,
   writer with the history 1, 2 (one fragment) and 3 (three fragments), matched with the reader
   of participant 1.  Hostile traffic comes from sources other than 2; afterwards the
   well-behaved writer 2 sends DATA 1 and a HEARTBEAT 1..1. *)
Definition init : state :=
  {| s_px := [(1, proxy0); (2, proxy0)]; s_fa := []; s_deliv := [];
     s_rps := [(1, rproxy_init)]; s_hist := [(1, 1); (2, 1); (3, 3)]; s_last := 3; s_now := 0 |}.

(* run-length encoded list of datagrams: (n, d) = the datagram d, n times in a row *)
Record case := { c_rl : list (Z * dgram) }.
Definition c_dgs (c : case) : list dgram :=
  flat_map (fun p => repeat (snd p) (Z.to_nat (fst p))) (c_rl c).

Inductive outcome := OOk | OCrash | OHang.

(* bitmaps are printed run-length encoded: maximal runs (length, value) *)
Definition rlbits := list (Z * bool).
Fixpoint rle (l : list bool) : rlbits :=
  match l with
  | [] => []
  | b :: l' =>
      match rle l' with
      | (n, b') :: r => if Bool.eqb b b' then (n + 1, b) :: r else (1, b) :: (n, b') :: r
      | [] => [(1, b)]
      end
  end.

Record digest := {
  g_base : Z; g_changes : list Z; g_hb : Z;               (* proxy of writer 1 *)
  g_bufs : list (Z * list (Z * (Z * rlbits)));             (* per source: (sn, size, bitmap) *)
  g_deliv : list (Z * Z);                                  (* handed to the cache, in order *)
  g_acked : Z; g_unsent : list Z; g_frags : list (Z * rlbits) }.

Record obs := {
  o_outcomes : list outcome;       (* per datagram handled *)
  o_bytes : list Z;                (* size of each datagram *)
  o_replies : list (Z * Z * list Z);
  o_digest : option digest;        (* None after a crash *)
  o_w2_delivered : bool;           (* the well-behaved writer's sample is delivered ... *)
  o_w2_base : option Z;            (* ... and acknowledged with base 2 *)
  o_max_alloc : Z;                 (* bytes allocated while handling one datagram (max) *)
  o_retained : Z;                  (* growth of the live heap over the whole case *)
  o_max_ms : Z;
  o_cost : Z }.                    (* model only: max loop iterations for one datagram *)

Fixpoint zinsert (x : Z) (l : list Z) : list Z :=
  match l with
  | [] => [x]
  | y :: l' => if x <=? y then x :: l else y :: zinsert x l'
  end.
Definition zsort (l : list Z) : list Z := fold_right zinsert [] l.
Fixpoint kinsert {A} (x : Z * A) (l : list (Z * A)) : list (Z * A) :=
  match l with
  | [] => [x]
  | y :: l' => if fst x <=? fst y then x :: l else y :: kinsert x l'
  end.
Definition ksort {A} (l : list (Z * A)) : list (Z * A) := fold_right kinsert [] l.

Definition digest_of (s : state) : digest :=
  let p := match F.alookup 1 (s_px s) with Some p => p | None => proxy0 end in
  let rp := match F.alookup 1 (s_rps s) with Some r => r | None => rproxy0 end in
  {| g_base := ack_base p; g_changes := zsort (changes p); g_hb := hb_count p;
     g_bufs := ksort (map (fun kv => (fst kv,
                  ksort (map (fun sb => (fst sb, (F.len (F.ab_bytes (snd sb)), rle (F.ab_bitmap (snd sb)))))
                             (F.fa_bufs (snd kv))))) (s_fa s));
     g_deliv := rev (s_deliv s);
     g_acked := rp_acked rp; g_unsent := zsort (rp_unsent rp); g_frags := ksort (map (fun kv => (fst kv, rle (snd kv))) (rp_frags rp)) |}.

Record racc := { a_outs : list outcome; a_replies : list reply; a_cost : Z; a_alloc : Z }.

Fixpoint run_dgs (v : version) (s : state) (dgs : list dgram) (acc : racc) : racc * option state :=
  match dgs with
  | [] => (acc, Some s)
  | d :: rest =>
      match handle v s d with
      | ORet (s', rs) c a =>
          run_dgs v s' rest {| a_outs := OOk :: a_outs acc; a_replies := rev rs ++ a_replies acc;
                               a_cost := Z.max (a_cost acc) c; a_alloc := Z.max (a_alloc acc) a |}
      | _ => ({| a_outs := OCrash :: a_outs acc; a_replies := a_replies acc;
                 a_cost := a_cost acc; a_alloc := a_alloc acc |}, None)
      end
  end.

Definition epilogue : dgram := {| d_src := 2; d_subs := [Data 1 12; Heartbeat 1 1 1 false] |}.

(* cases the model is not evaluated on (an assembly buffer of that size as a Coq list) *)
Definition MODEL_CAP : Z := 4195264.
Definition sub_too_big (m : subm) : bool :=
  match m with DataFrag _ _ _ _ total _ => MODEL_CAP <? total | _ => false end.
Definition too_big (c : case) : bool :=
  existsb (fun d => existsb sub_too_big (d_subs d)) (c_dgs c).

Definition run_v (v : version) (c : case) : obs :=
  let bytes := map dg_bytes (c_dgs c) in
  match run_dgs v init (c_dgs c) {| a_outs := []; a_replies := []; a_cost := 0; a_alloc := 0 |} with
  | (acc, Some s) =>
      match handle v s epilogue with
      | ORet (s', rs) _ _ =>
          {| o_outcomes := rev (a_outs acc); o_bytes := bytes; o_replies := rev (a_replies acc);
             o_digest := Some (digest_of s);
             o_w2_delivered := existsb (fun x => (fst x =? 2) && (snd x =? 1)) (s_deliv s');
             o_w2_base := match rs with [(2, b, _)] => Some b | _ => None end;
             o_max_alloc := a_alloc acc; o_retained := size s - size init; o_max_ms := 0;
             o_cost := a_cost acc |}
      | _ =>
          {| o_outcomes := rev (OCrash :: a_outs acc); o_bytes := bytes;
             o_replies := rev (a_replies acc); o_digest := None; o_w2_delivered := false;
             o_w2_base := None; o_max_alloc := a_alloc acc; o_retained := 0; o_max_ms := 0;
             o_cost := a_cost acc |}
      end
  | (acc, None) =>
      {| o_outcomes := rev (a_outs acc); o_bytes := bytes; o_replies := rev (a_replies acc);
         o_digest := None; o_w2_delivered := false; o_w2_base := None;
         o_max_alloc := a_alloc acc; o_retained := 0; o_max_ms := 0; o_cost := a_cost acc |}
  end.

Definition obs_big (c : case) : obs :=
  {| o_outcomes := map (fun _ => OOk) (c_dgs c); o_bytes := map dg_bytes (c_dgs c);
     o_replies := []; o_digest := None; o_w2_delivered := true; o_w2_base := Some 2;
     o_max_alloc := 0; o_retained := 0; o_max_ms := 0; o_cost := 0 |}.

Definition run (c : case) : obs := if too_big c then obs_big c else run_v fixed c.

(* ---------------------------------------------------------------------------------------- *)
(* comparison of the model's observation [m] with the implementation's [i] *)
Definition outcome_eqb (a b : outcome) : bool :=
  match a, b with OOk, OOk | OCrash, OCrash | OHang, OHang => true | _, _ => false end.
Definition zl_eqb := list_eqb Z.eqb.
Definition bl_eqb := list_eqb (pair_eqb Z.eqb Bool.eqb).
Definition reply_eqb (a b : Z * Z * list Z) : bool :=
  (fst (fst a) =? fst (fst b)) && (snd (fst a) =? snd (fst b)) && zl_eqb (snd a) (snd b).
Definition buf_eqb (a b : Z * (Z * rlbits)) : bool :=
  (fst a =? fst b) && (fst (snd a) =? fst (snd b)) && bl_eqb (snd (snd a)) (snd (snd b)).
Definition digest_eqb (a b : digest) : bool :=
  (g_base a =? g_base b) && zl_eqb (g_changes a) (g_changes b) && (g_hb a =? g_hb b)
  && list_eqb (fun x y => (fst x =? fst y) && list_eqb buf_eqb (snd x) (snd y)) (g_bufs a) (g_bufs b)
  && list_eqb (pair_eqb Z.eqb Z.eqb) (g_deliv a) (g_deliv b)
  && (g_acked a =? g_acked b) && zl_eqb (g_unsent a) (g_unsent b)
  && list_eqb (fun x y => (fst x =? fst y) && bl_eqb (snd x) (snd y)) (g_frags a) (g_frags b).

(* the model predicts replies and state exactly unless the case contains bytes it does not
   interpret that the real parser accepted, or is outside the evaluated range *)
Definition sub_exact (m : subm) : bool :=
  match m with Raw _ _ _ _ parsed | Blob _ parsed => negb parsed | _ => true end.
Definition exact (c : case) : bool :=
  negb (too_big c) && forallb (fun d => forallb sub_exact (d_subs d)) (c_dgs c).



(* ---------------------------------------------------------------------------------------- *)
(* Property oracle: observables only.
   (a) every datagram is handled without crash or hang;
   (b) what is allocated while one datagram is handled, what stays allocated after the whole
       case, the time and (model) the loop iterations for one datagram are within budgets that
       are linear in the bytes received;
   (c) afterwards the well-behaved writer's sample is delivered and acknowledged. *)
Definition total_bytes (c : case) : Z := fold_right Z.add 0 (map dg_bytes (c_dgs c)).
Definition alloc_budget (c : case) : Z := 262144 + 128 * total_bytes c.
Definition retained_budget (c : case) : Z := 262144 + 128 * total_bytes c.
Definition cost_budget (c : case) : Z := 4096 + 64 * total_bytes c.
Definition ms_budget : Z := 3000.

Definition ok (c : case) (o : obs) : bool :=
  forallb (outcome_eqb OOk) (o_outcomes o)
  && (length (o_outcomes o) =? length (c_dgs c))%nat
  && (o_max_alloc o <=? alloc_budget c)
  && (o_retained o <=? retained_budget c)
  && (o_cost o <=? cost_budget c)
  && (o_max_ms o <=? ms_budget)
  && o_w2_delivered o
  && option_eqb Z.eqb (o_w2_base o) (Some 2).

(* Known finding F7 (not repaired): AssemblyBuffer::new allocates and zeroes data_size bytes for
   the first DATAFRAG of a sample, whatever the size of the datagram.  Syntactic class: the case
   contains a DATAFRAG announcing a data_size out of proportion to the payload it carries. *)
Definition sub_known (m : subm) : bool :=
  match m with DataFrag _ _ _ _ total pl => 64 * pl + 1024 <? total | _ => false end.
Definition known_class (c : case) : bool :=
  existsb (fun d => existsb sub_known (d_subs d)) (c_dgs c).

(* Correspondence.  Always compared: per-datagram outcomes, datagram sizes (the model's size
   function), the well-behaved peer's service.  For exact cases also the ACKNACKs emitted and the
   state digest; moreover the model's own allocation / retained-size / step counters must satisfy
   the oracle's budgets (outside the known-finding class), and the bytes the implementation
   allocated for one datagram must not exceed twice the model's count plus 64 KiB (the model's
   allocation counter over-approximates the implementation's allocations). *)
Definition obs_eqb_for (c : case) (m i : obs) : bool :=
  list_eqb outcome_eqb (o_outcomes m) (o_outcomes i)
  && zl_eqb (o_bytes m) (o_bytes i)
  && Bool.eqb (o_w2_delivered m) (o_w2_delivered i)
  && option_eqb Z.eqb (o_w2_base m) (o_w2_base i)
  && (negb (exact c)
      || (list_eqb reply_eqb (o_replies m) (o_replies i)
          && option_eqb digest_eqb (o_digest m) (o_digest i)
          && (known_class c || ok c m)
          && (o_max_alloc i <=? 2 * o_max_alloc m + 65536))).
Definition case_obs_eqb (c : case) := obs_eqb_for c.

(* field values within their Rust types, number-set words as the reader builds them *)
Definition in_u32 (x : Z) : bool := (0 <=? x) && (x <=? u32_max).
Definition in_u16 (x : Z) : bool := (0 <=? x) && (x <=? 65535).
Definition in_i32 (x : Z) : bool := (-2147483648 <=? x) && (x <=? 2147483647).
Definition words_ok (nb : Z) (w : list Z) : bool :=
  in_u32 nb && forallb in_u32 w && (zlen w =? (Z.min nb 512 + 31) / 32).
Definition wf_sub (m : subm) : bool :=
  match m with
  | Heartbeat f l c _ => in_i64 f && in_i64 l && in_i32 c
  | Gap st b nb w => in_i64 st && in_i64 b && words_ok nb w
  | Data sn pl => in_i64 sn && (0 <=? pl) && (pl <=? 65535)
  | DataFrag sn st n fs tot pl =>
      in_i64 sn && in_u32 st && in_u16 n && in_u16 fs && in_u32 tot && (0 <=? pl) && (pl <=? 65535)
  | AckNack b nb w c => in_i64 b && words_ok nb w && in_i32 c
  | NackFrag sn b nb w c => in_i64 sn && in_u32 b && words_ok nb w && in_i32 c
  | HeartbeatFrag sn lf c => in_i64 sn && in_u32 lf && in_i32 c
  | InfoTs a b => in_u32 a && in_u32 b
  | InfoDst w | InfoSrc w => (0 <=? w) && (w <=? 255)
  | Raw id fl bl lf _ => in_u16 bl && (0 <=? id) && (id <=? 255) && (0 <=? fl) && (fl <=? 255)
                         && match lf with Some l => in_u16 l | None => true end
  | Blob n p => in_u16 n && (negb p || (20 <=? n))
  end.
Definition wf_dgram (d : dgram) : bool :=
  (0 <=? d_src d) && (d_src d <=? 255) && forallb wf_sub (d_subs d) && (0 <=? dg_bytes d).
