(* C06 — hostile input.  Model of what the receive path does with the NUMERIC fields of writer
   submessages addressed to a reliable Reader (per matched remote writer: RtpsWriterProxy), with
   Rust's i64 arithmetic made explicit: every addition the code performs on a received number goes
   through [chk], which is None (= panic with overflow checks, wrap-around without) outside i64.
   Loops carry a cost counter (number of iterations).

   Code modelled (as written, after the fix: commits listed in known_findings.json):
     MessageReceiver::handle_writer_submessage    (numbers_in_accepted_range guard)
     NumberSet::read_from (num_bits <= 256), NumberSetIter::next (base + bit index)
     Reader::handle_heartbeat_msg  (count check, irrelevant_changes_up_to, missing_seqnums bounded
                                    by all_ackable_before + 255, ACKNACK base)
     Reader::handle_gap_msg        (validity checks, irrelevant_changes_range, set_irrelevant_change)
     Reader::handle_data_msg/process_received_data (should_ignore_change, received_changes_add)
     RtpsWriterProxy::{irrelevant_changes_range, advance_ack_base, missing_seqnums, ...}
   Not modelled here: DATAFRAG reassembly (C05 model), payload decoding, reader-submessage handling
   in the Writer, byte-level framing (C14 model).  Such submessages are carried in a case as opaque
   items; they make the W1-state prediction inexact (see [exact]). *)
From Coq Require Import List ZArith Bool Lia.
From RD Require Import Common.Corr.
Import ListNotations.
Open Scope Z_scope.

Definition i64_max : Z := 9223372036854775807.
Definition i64_min : Z := -9223372036854775808.
Definition max_accepted : Z := i64_max - 65536.      (* SequenceNumber::MAX_ACCEPTED *)

Definition chk (x : Z) : option Z := if (i64_min <=? x) && (x <=? i64_max) then Some x else None.

Inductive sub :=
| Heartbeat (first last count : Z) (final : bool)
| Gap (start base : Z) (numbits : Z) (words : list Z)
| Data (sn : Z) (payload_len : Z)
(* opaque for this model *)
| DataFrag (sn start in_sub fsize total payload_len : Z)
| AckNack (base numbits : Z) (words : list Z) (count : Z)
| NackFrag (sn base numbits : Z) (words : list Z) (count : Z)
| HeartbeatFrag (sn last_frag count : Z)
| InfoTs (sec frac : Z)
| Raw (id flags body_len : Z) (len_field : option Z).

(* ---------- writer proxy ---------- *)
Record proxy := { ack_base : Z; changes : list Z; hb_count : Z }.
Definition proxy0 := {| ack_base := 1; changes := []; hb_count := 0 |}.

Definition mem (x : Z) (l : list Z) : bool := existsb (Z.eqb x) l.
Definition insert (x : Z) (l : list Z) : list Z := if mem x l then l else x :: l.

(* advance_ack_base: while ack_base is in changes, move past it (test_sn + 1 is checked) *)
Fixpoint advance (fuel : nat) (b : Z) (ch : list Z) (cost : Z) : option (Z * Z) :=
  match fuel with
  | O => Some (b, cost)
  | S f => if mem b ch
           then match chk (b + 1) with
                | Some b' => advance f b' ch (cost + 1)
                | None => None
                end
           else Some (b, cost)
  end.

Definition advance_proxy (p : proxy) (cost : Z) : option (proxy * Z) :=
  match advance (S (length (changes p))) (ack_base p) (changes p) cost with
  | Some (b, c) => Some ({| ack_base := b; changes := changes p; hb_count := hb_count p |}, c)
  | None => None
  end.

(* set_irrelevant_change *)
Definition set_irrelevant (p : proxy) (sn : Z) (cost : Z) : option (proxy * Z) :=
  let p1 := if ack_base p <=? sn
            then {| ack_base := ack_base p; changes := insert sn (changes p); hb_count := hb_count p |}
            else p in
  if sn =? ack_base p1 then advance_proxy p1 cost else Some (p1, cost).

(* received_changes_add *)
Definition received_add (p : proxy) (sn : Z) (cost : Z) : option (proxy * Z) :=
  let p1 := {| ack_base := ack_base p; changes := insert sn (changes p); hb_count := hb_count p |} in
  if sn =? ack_base p1 then advance_proxy p1 cost else Some (p1, cost).

(* irrelevant_changes_range from until_before.  The else-branch inserts every number of the range:
   its cost is the span (finding "gap-span"); the range iterator's b + 1 is checked. *)
Fixpoint insert_range (n : nat) (from : Z) (ch : list Z) : list Z :=
  match n with
  | O => ch
  | S k => insert_range k (from + 1) (insert from ch)
  end.

Definition irrelevant_range (p : proxy) (from until_before : Z) (cost : Z) : option (proxy * Z) :=
  if until_before <? from then Some (p, cost)            (* "negative range" -> return *)
  else if from <=? ack_base p then
    let ch := filter (fun x => negb ((from <=? x) && (x <? until_before))) (changes p) in
    if ack_base p <? until_before
    then advance_proxy {| ack_base := until_before; changes := ch; hb_count := hb_count p |}
                       (cost + 1)
    else Some ({| ack_base := ack_base p; changes := ch; hb_count := hb_count p |}, cost + 1)
  else
    (* range_inclusive(from, until_before - 1): the last b + 1 computed is until_before *)
    match chk (until_before - 1), chk until_before with
    | Some _, Some _ =>
        Some ({| ack_base := ack_base p;
                 changes := insert_range (Z.to_nat (until_before - from)) from (changes p);
                 hb_count := hb_count p |}, cost + (until_before - from))
    | _, _ => None
    end.

(* NumberSetIter: numbers base + i for the set bits i < numbits (bit i of the set is bit 31 - i mod 32
   of word i / 32) *)
Definition bit_set (words : list Z) (i : Z) : bool :=
  Z.testbit (nth (Z.to_nat (i / 32)) words 0) (31 - i mod 32).

Fixpoint set_elems (n : nat) (i : Z) (base : Z) (words : list Z) : option (list Z) :=
  match n with
  | O => Some []
  | S k => match set_elems k (i + 1) base words with
           | None => None
           | Some rest => if bit_set words i
                          then match chk (i + base) with
                               | Some x => Some (x :: rest)
                               | None => None
                               end
                          else Some rest
           end
  end.

Fixpoint fold_irrelevant (p : proxy) (l : list Z) (cost : Z) : option (proxy * Z) :=
  match l with
  | [] => Some (p, cost)
  | x :: l' => match set_irrelevant p x (cost + 1) with
               | Some (p', c) => fold_irrelevant p' l' c
               | None => None
               end
  end.

(* missing_seqnums cost: the length of the enumerated interval *)
Definition missing_cost (p : proxy) (first last : Z) : Z :=
  if last <? first then 0 else Z.max 0 (last - Z.max first (ack_base p) + 1).

Inductive result := Panic | Done (p : proxy) (cost : Z) (acknack_base : option Z).

Definition accepted (s : sub) : bool :=
  match s with
  | Heartbeat f l _ _ => (f <=? max_accepted) && (l <=? max_accepted)
  | Gap st b _ _ => (st <=? max_accepted) && (b <=? max_accepted)
  | Data sn _ => sn <=? max_accepted
  | _ => true
  end.

Definition handle (p : proxy) (s : sub) : result :=
  if negb (accepted s) then Done p 0 None else
  match s with
  | Heartbeat first last count final =>
      if count <=? hb_count p then Done p 0 None else
      let p0 := {| ack_base := ack_base p; changes := changes p; hb_count := count |} in
      match irrelevant_range p0 0 first 0 with
      | None => Panic
      | Some (p1, c1) =>
          match chk (ack_base p1 + 255) with
          | None => Panic
          | Some lim =>
              let last' := Z.min last lim in
              (* missing_seqnums: first > last' computes last' + 1 *)
              match (if last' <? first then chk (last' + 1) else Some 0) with
              | None => Panic
              | Some _ =>
                  let c2 := c1 + missing_cost p1 first last' in
                  let missing := negb (last' <? first) && (ack_base p1 <=? last') in
                  (* first_missing + 256 in the take_while *)
                  match (if missing then chk (ack_base p1 + 256) else Some 0) with
                  | None => Panic
                  | Some _ =>
                      if missing || negb final
                      then Done p1 c2 (Some (ack_base p1))
                      else Done p1 c2 None
                  end
              end
          end
      end
  | Gap start base numbits words =>
      if start <=? 0 then Done p 0 None else
      if base <=? 0 then Done p 0 None else
      match irrelevant_range p start base 0 with
      | None => Panic
      | Some (p1, c1) =>
          match set_elems (Z.to_nat numbits) 0 base words with
          | None => Panic
          | Some elems =>
              match fold_irrelevant p1 elems c1 with
              | None => Panic
              | Some (p2, c2) => Done p2 c2 None
              end
          end
      end
  | Data sn _ =>
      if (sn <? ack_base p) || mem sn (changes p) then Done p 0 None else
      match received_add p sn 0 with
      | None => Panic
      | Some (p1, c) => Done p1 c None
      end
  | _ => Done p 0 None
  end.

(* a datagram whose number set claims more than 256 bits is rejected by the parser as a whole *)
Definition parses (s : sub) : bool :=
  match s with
  | Gap _ _ nb _ | AckNack _ nb _ _ | NackFrag _ _ nb _ _ => (0 <=? nb) && (nb <=? 256)
  | _ => true
  end.

(* ---------- a whole case: datagrams from writer W1 ---------- *)
Record case := { c_datagrams : list (list sub); c_bytes : Z }.

Inductive outcome := OOk | OPanic | OHang.

Record obs := {
  o_outcomes : list outcome;      (* per datagram handled *)
  o_max_alloc : Z;                (* bytes allocated while handling one datagram (max) *)
  o_max_ms : Z;
  o_w1_base : option Z;           (* ACKNACK base answering a probe HEARTBEAT(1,3) of W1 *)
  o_w2_delivered : bool;          (* a well-behaved writer's sample is still delivered ... *)
  o_w2_base : option Z }.         (* ... and acknowledged with base 2 *)

Fixpoint handle_all (p : proxy) (l : list sub) (cost : Z) : option (proxy * Z) :=
  match l with
  | [] => Some (p, cost)
  | s :: l' => match handle p s with
               | Panic => None
               | Done p' c _ => handle_all p' l' (cost + c)
               end
  end.

Fixpoint run_dgs (p : proxy) (dgs : list (list sub)) (acc : list outcome) (cost : Z)
  : list outcome * option proxy * Z :=
  match dgs with
  | [] => (rev acc, Some p, cost)
  | d :: rest =>
      if forallb parses d then
        match handle_all p d 0 with
        | None => (rev (OPanic :: acc), None, cost)
        | Some (p', c) => run_dgs p' rest (OOk :: acc) (Z.max cost c)
        end
      else run_dgs p rest (OOk :: acc) cost
  end.

Definition probe := Heartbeat 1 3 2147483647 false.

Definition run (c : case) : obs :=
  match run_dgs proxy0 (c_datagrams c) [] 0 with
  | (outs, Some p, cost) =>
      let b := match handle p probe with Done _ _ (Some b) => Some b | _ => None end in
      {| o_outcomes := outs; o_max_alloc := 0; o_max_ms := 0; o_w1_base := b;
         o_w2_delivered := true; o_w2_base := Some 2 |}
  | (outs, None, _) =>
      {| o_outcomes := outs; o_max_alloc := 0; o_max_ms := 0; o_w1_base := None;
         o_w2_delivered := false; o_w2_base := None |}
  end.

(* the model's prediction of W1's state is exact only when every submessage is one it models *)
Definition modelled (s : sub) : bool :=
  match s with Heartbeat _ _ _ _ | Gap _ _ _ _ | Data _ _ => true | _ => false end.
Definition exact (c : case) : bool := forallb (forallb modelled) (c_datagrams c).

Definition outcome_eqb (a b : outcome) : bool :=
  match a, b with OOk, OOk | OPanic, OPanic | OHang, OHang => true | _, _ => false end.
Definition optz_eqb := option_eqb Z.eqb.

Definition obs_eqb (m i : obs) : bool :=
  list_eqb outcome_eqb (o_outcomes m) (o_outcomes i)
  && Bool.eqb (o_w2_delivered m) (o_w2_delivered i)
  && optz_eqb (o_w2_base m) (o_w2_base i).

(* exact cases additionally compare W1's ACKNACK base *)
Definition obs_eqb_for (c : case) (m i : obs) : bool :=
  obs_eqb m i && (negb (exact c) || optz_eqb (o_w1_base m) (o_w1_base i)).

(* ---------- property oracle (observables only) ----------
   no datagram crashes or hangs the participant; memory allocated while handling a datagram stays
   within a budget proportional to the bytes received; afterwards a well-behaved peer's sample is
   delivered and acknowledged, and the hostile peer's own stream still gets a sane ACKNACK. *)
Definition alloc_budget (c : case) : Z := 262144 + 256 * c_bytes c.
Definition ms_budget : Z := 4000.

Definition ok (c : case) (o : obs) : bool :=
  forallb (outcome_eqb OOk) (o_outcomes o)
  && (Z.of_nat (length (o_outcomes o)) =? Z.of_nat (length (c_datagrams c)))
  && (o_max_alloc o <=? alloc_budget c)
  && (o_max_ms o <=? ms_budget)
  && o_w2_delivered o
  && optz_eqb (o_w2_base o) (Some 2)
  && match o_w1_base o with Some b => 1 <=? b | None => false end.

(* the correspondence evaluator takes a case-independent comparer: wrap *)
Definition case_obs_eqb (c : case) := obs_eqb_for c.
