(* C06 — property theorems only.  Proofs are one `exact`; statements are pinned by ./check.

   Setting.  [state] = one participant: a reliable Reader with its matched writer proxies and
   fragment assemblers, a reliable Writer with its history and reader proxies.  [dgram] = one
   RTPS datagram as a list of parsed submessages whose fields take ARBITRARY values within their
   Rust integer types ([wf_dgram]); byte-level parsing is not part of the model.
   [handle fixed s d] = what the receive thread does with d in state s (repaired code), with
   debug-build arithmetic: its result is OPanic exactly where the Rust code panics (overflow of
   checked + - on i64/u32/usize, slice or BitVec index out of range, assert!), OFuel if a model
   loop ran out of fuel, else ORet (new state, replies) steps allocated-bytes. *)
From Coq Require Import List ZArith Bool.
From RD Require Import Common.Corr C06.Model C06.Spec C06.Proxy C06.Handlers C06.Datagram C06.Proofs.
From RD Require C05.Lists.
Import ListNotations.
Open Scope Z_scope.

(* (a) No datagram makes the participant panic, whatever state (satisfying the invariant, which
   every reachable state does: C06_keeps_working, C06_reachable_inv) it is in. *)
Theorem C06_no_panic : forall s d,
  Inv s -> wf_dgram d = true -> handle fixed s d <> OPanic /\ handle fixed s d <> OFuel.
Proof. exact no_panic. Qed.
Print Assumptions C06_no_panic.

(* (c) After any datagram the invariant holds again, and nothing that belongs to sources the
   datagram is not attributed to (its header's guid prefix and its INFO_SRC submessages) has
   changed: their writer proxies, fragment assemblers, reader proxies, delivered samples. *)
Theorem C06_keeps_working : forall s d,
  Inv s -> wf_dgram d = true ->
  exists s' rs c a, handle fixed s d = ORet (s', rs) c a /\ Inv s'
                    /\ frame (srcs (d_src d) (d_subs d)) s s'.
Proof. exact keeps_working. Qed.
Print Assumptions C06_keeps_working.

(* ... so a well-behaved peer (source 2, nothing received from it yet) is served correctly after
   ANY hostile datagram: its proxy is untouched, its DATA 1 is handed to the cache and its
   HEARTBEAT 1..1 is answered by ACKNACK base 2 with an empty set. *)
Theorem C06_other_peer_served : forall s d,
  Inv s -> w2_fresh s -> hostile d ->
  exists s1 rs c a, handle fixed s d = ORet (s1, rs) c a /\ Inv s1 /\ w2_fresh s1
    /\ exists s2 c' a', handle fixed s1 epilogue = ORet (s2, [(2, 2, [])]) c' a'
                        /\ In (2, 1) (s_deliv s2).
Proof. exact other_peer_served. Qed.
Print Assumptions C06_other_peer_served.

(* (b) Time and memory.  N bounds the entries of every writer proxy's change map, W the fragment
   count of every assembly buffer, H the fragment count of the writer's own samples (cmax, wmax,
   hmax always qualify).  With n = number of submessages of d and T = max W (largest fragment
   count a DATAFRAG of d announces):
     steps      <= n * Kc (N + 512 n) T     where Kc N W = 257 N + 256 W + 132001
     allocation <= 8 |d| + sum over the submessages m of Ka H m,
                   Ka H m = 256 + 9 |m| + 1091776 + H/8 + (2 data_size + fragments/8 for a DATAFRAG)
   and afterwards the bounds N + 512 n, T, H hold: per submessage the bookkeeping grows by at most
   512 entries and one assembly buffer. *)
Theorem C06_linear : forall s d N W H,
  Inv s -> wf_dgram d = true -> cbound N s -> wbound W s -> hbound H s -> 0 <= N -> 0 <= W ->
  let n := zlen (d_subs d) in
  let T := Z.max W (maxtf (d_subs d)) in
  exists s' rs c a,
    handle fixed s d = ORet (s', rs) c a
    /\ Inv s' /\ frame (srcs (d_src d) (d_subs d)) s s'
    /\ 0 <= c <= n * Kc (N + 512 * n) T
    /\ 0 <= a <= 8 * dg_bytes d + sumKa H (d_subs d)
    /\ cbound (N + 512 * n) s' /\ wbound T s' /\ hbound H s'.
Proof. exact handle_bounds. Qed.
Print Assumptions C06_linear.

(* Outside the known-finding class (every DATAFRAG announces data_size <= 64 x its payload +
   1024) the allocation is linear in the size of the datagram with explicit constants:
   153 bytes per byte received + (1094464 + H/8) per submessage (the 256-entry windows). *)
Theorem C06_alloc_linear : forall s d N W H,
  Inv s -> wf_dgram d = true -> in_proportion d -> cbound N s -> wbound W s -> hbound H s ->
  0 <= N -> 0 <= W ->
  exists s' rs c a,
    handle fixed s d = ORet (s', rs) c a
    /\ a <= 153 * dg_bytes d + zlen (d_subs d) * KA H.
Proof. exact handle_alloc_linear. Qed.
Print Assumptions C06_alloc_linear.

(* every state has such bounds *)
Theorem C06_bounds_exist : forall s,
  cbound (cmax s) s /\ wbound (wmax s) s /\ hbound (hmax s) s /\ 0 <= cmax s /\ 0 <= wmax s.
Proof. exact bounds_exist. Qed.
Print Assumptions C06_bounds_exist.

(* Runs: from the initial state every sequence of hostile datagrams is handled without panic,
   leaves the invariant intact and the well-behaved peer's proxy untouched. *)
Theorem C06_reachable_inv : forall dgs acc,
  Forall hostile dgs ->
  exists s' acc', run_dgs fixed init dgs acc = (acc', Some s') /\ Inv s' /\ w2_fresh s'
    /\ a_outs acc' = repeat OOk (length dgs) ++ a_outs acc.
Proof. exact reachable_inv. Qed.
Print Assumptions C06_reachable_inv.

(* The model satisfies the crash / liveness part of the oracle on EVERY hostile case.  (The
   budget part of [ok] uses constants tighter than the proved bounds of C06_linear; it is checked
   per evaluated case, on the implementation and on the model: see obs_eqb_for.) *)
Theorem C06_model_ok_partial : forall c,
  Forall hostile (c_dgs c) -> ok_live c (run c) = true.
Proof. exact model_live. Qed.
Print Assumptions C06_model_ok_partial.

Theorem C06_ok_is_live_and_budget : forall c o, ok c o = ok_live c o && ok_budget c o.
Proof. exact ok_split. Qed.
Print Assumptions C06_ok_is_live_and_budget.

(* what an accepted observation means *)
Theorem C06_oracle_sound : forall c o,
  ok c o = true ->
  Forall (fun x => x = OOk) (o_outcomes o) /\ length (o_outcomes o) = length (c_dgs c)
  /\ o_max_alloc o <= 262144 + 128 * total_bytes c
  /\ o_retained o <= 262144 + 128 * total_bytes c
  /\ o_max_ms o <= 3000
  /\ o_w2_delivered o = true /\ o_w2_base o = Some 2.
Proof. exact oracle_sound. Qed.
Print Assumptions C06_oracle_sound.

(* The code before the fix: commits, witnesses (each is a corpus case of the driver). *)
Theorem C06_old_overflow_panics :
  Forall (fun c => existsb (outcome_eqb OCrash) (o_outcomes (run_v without_range_guard c)) = true
                   /\ ok c (run_v fixed c) = true) w_overflow.
Proof. exact old_overflow_panics. Qed.
Print Assumptions C06_old_overflow_panics.

Theorem C06_old_heartbeat_unbounded :
  Forall (fun n => n <= o_cost (run_v without_hb_window (w_heartbeat n))
                   /\ o_cost (run_v fixed (w_heartbeat n)) <= 600)
         [1000; 10000; 100000].
Proof. exact old_heartbeat_unbounded. Qed.
Print Assumptions C06_old_heartbeat_unbounded.

Theorem C06_old_gap_unbounded :
  Forall (fun n => n <= o_cost (run_v without_gap_window (w_gap n))
                   /\ 64 * n <= o_max_alloc (run_v without_gap_window (w_gap n))
                   /\ o_cost (run_v fixed (w_gap n)) <= 600)
         [500; 1000; 3000].
Proof. exact old_gap_unbounded. Qed.
Print Assumptions C06_old_gap_unbounded.

Theorem C06_old_nackfrag_unbounded :
  8 * (60000 - 1024) <= o_max_alloc (run_v without_nackfrag_window w_nackfrag)
  /\ ok w_nackfrag (run_v without_nackfrag_window w_nackfrag) = false
  /\ ok w_nackfrag (run_v fixed w_nackfrag) = true.
Proof. exact old_nackfrag_unbounded. Qed.
Print Assumptions C06_old_nackfrag_unbounded.

Theorem C06_old_datafrag_panics :
  Forall (fun c => existsb (outcome_eqb OCrash) (o_outcomes (run_v without_frag_validate c)) = true
                   /\ ok c (run_v fixed c) = true) w_datafrag.
Proof. exact old_datafrag_panics. Qed.
Print Assumptions C06_old_datafrag_panics.

(* For every n: the loop of missing_seqnums costs exactly one step per sequence number of the
   interval, the loop of irrelevant_changes_range one step and one map entry per sequence number of
   the range.  In the code before eef2682 / c71c7f1 n came straight from the wire (witnesses
   above); the repaired code passes at most 256. *)
Theorem C06_loop_cost_exact : forall n s ch,
  i64_min <= s -> s + Z.of_nat n <= i64_max ->
  (exists l a, missing_loop n s ch = ORet l (Z.of_nat n) a)
  /\ (exists ch', insert_range n s ch = ORet ch' (Z.of_nat n) (ENTRY * Z.of_nat n)).
Proof. exact loop_cost_exact. Qed.
Print Assumptions C06_loop_cost_exact.

(* Known finding F7 (not repaired): the model allocates data_size bytes like the code; the case
   is in the syntactic class and fails the oracle. *)
Theorem C06_known_datafrag_size : known_class w_f7 = true /\ ok w_f7 (run w_f7) = false.
Proof. exact f7_known. Qed.
Print Assumptions C06_known_datafrag_size.

(* Non-vacuity: the hypotheses are satisfiable. *)
Example C06_ex_init : Inv init /\ w2_fresh init /\ cbound 0 init /\ wbound 0 init /\ hbound 3 init.
Proof.
  split; [exact Inv_init|]. split; [reflexivity|]. split; [|split].
  - intros w p E. apply RD.C05.Lists.alookup_in in E. cbn in E.
    destruct E as [E|[E|[]]]; inversion E; subst; cbn; apply Z.le_refl.
  - intros w fa sn ab E. cbn in E. discriminate.
  - intros sn fc E. apply RD.C05.Lists.alookup_in in E. cbn in E.
    destruct E as [E|[E|[E|[]]]]; inversion E; subst; discriminate.
Qed.
Example C06_ex_hostile :
  hostile {| d_src := 1; d_subs := [Heartbeat 1 1099511627776 1 false; Gap 5 1099511627776 256 (repeat 4294967295 8);
                                    DataFrag 1 1 65535 4 8 8; InfoSrc 3; Data 9223372036854775807 8] |}
  /\ in_proportion {| d_src := 1; d_subs := [DataFrag 1 1 65535 4 8 8] |}.
Proof. split; [split; [reflexivity|]|reflexivity]. cbn. intros [H|[H|[]]]; discriminate. Qed.
