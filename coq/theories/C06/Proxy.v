(* C06 — RtpsWriterProxy: invariant, absence of panics, step and allocation bounds. *)
From Coq Require Import List ZArith Bool Lia.
From RD Require Import C06.Model C06.Spec.
From RD Require C05.Model C05.Lists.
Import ListNotations.
Open Scope Z_scope.

Module FL := RD.C05.Lists.

(* every stored sequence number is at most CB; ack_base at most one more *)
Definition CB : Z := max_accepted + 255.

Definition pinv (p : proxy) : Prop :=
  1 <= ack_base p <= CB + 1 /\ Forall (fun x => x <= CB) (changes p) /\ NoDup (changes p).

Lemma num_facts :
  CB = max_accepted + 255 /\ max_accepted = i64_max - 65536 /\ fmax_accepted = u32_max - 65536
  /\ i64_max = 9223372036854775807 /\ i64_min = -9223372036854775808 /\ u32_max = 4294967295.
Proof. repeat split. Qed.
Ltac nums := pose proof num_facts as (? & ? & ? & ? & ? & ?).

Lemma zlen_nonneg {A} (l : list A) : 0 <= zlen l.
Proof. unfold zlen. lia. Qed.
Lemma zlen_cons {A} (x : A) l : zlen (x :: l) = zlen l + 1.
Proof. unfold zlen. cbn [length]. lia. Qed.
Lemma zlen_app {A} (l1 l2 : list A) : zlen (l1 ++ l2) = zlen l1 + zlen l2.
Proof. unfold zlen. rewrite app_length. lia. Qed.
Lemma zlen_filter {A} (f : A -> bool) l : zlen (filter f l) <= zlen l.
Proof. unfold zlen. induction l; cbn; [lia|]. destruct (f a); cbn [length]; lia. Qed.

Lemma flen_le {A} (f : A -> bool) l : (length (filter f l) <= length l)%nat.
Proof. induction l; cbn; [lia|]. destruct (f a); cbn [length]; lia. Qed.

Lemma mem_In x l : mem x l = true <-> In x l.
Proof.
  unfold mem. rewrite existsb_exists. split.
  - intros (y & Hy & E). apply Z.eqb_eq in E. now subst.
  - intros H. exists x. split; [exact H|apply Z.eqb_refl].
Qed.
Lemma mem_false x l : mem x l = false <-> ~ In x l.
Proof. rewrite <- mem_In. destruct (mem x l); split; congruence. Qed.

Lemma In_rm x b l : In x (rm b l) <-> In x l /\ x <> b.
Proof.
  unfold rm. rewrite filter_In. split; intros (H1 & H2); split; auto.
  - destruct (Z.eqb_spec x b); [discriminate|assumption].
  - destruct (Z.eqb_spec x b); [contradiction|reflexivity].
Qed.
Lemma rm_shrinks b l : In b l -> (length (rm b l) < length l)%nat.
Proof.
  unfold rm. induction l as [|a l IH]; cbn; [tauto|]. intros [->|H].
  - rewrite Z.eqb_refl. cbn. pose proof (flen_le (fun y => negb (y =? b)) l). lia.
  - destruct (negb (a =? b)); cbn [length].
    + specialize (IH H). lia.
    + pose proof (flen_le (fun y => negb (y =? b)) l). lia.
Qed.

Lemma In_insert x y l : In x (insert y l) <-> x = y \/ In x l.
Proof.
  unfold insert. destruct (mem y l) eqn:M.
  - apply mem_In in M. split; [auto|]. intros [->|H]; assumption.
  - cbn [In]. split; intros [H|H]; auto.
Qed.
Lemma insert_nodup y l : NoDup l -> NoDup (insert y l).
Proof.
  unfold insert. destruct (mem y l) eqn:M; [auto|]. apply mem_false in M. now constructor.
Qed.
Lemma insert_len y l : zlen l <= zlen (insert y l) <= zlen l + 1.
Proof. unfold insert. destruct (mem y l); [lia|rewrite zlen_cons; lia]. Qed.
Lemma insert_forall (P : Z -> Prop) y l : P y -> Forall P l -> Forall P (insert y l).
Proof. unfold insert. destruct (mem y l); auto. Qed.

(* ---- advance_ack_base ---- *)
Lemma advance_spec : forall fuel b rest,
  (length rest < fuel)%nat -> 1 <= b <= CB + 1 -> Forall (fun x => x <= CB) rest ->
  spec (advance fuel b rest) (bnd (fun b' => b <= b' <= CB + 1) (zlen rest + 1) 0).
Proof.
  induction fuel as [|fuel IH]; intros b rest Hl Hb Hr; [lia|].
  cbn [advance]. destruct (mem b rest) eqn:M.
  - apply mem_In in M. assert (Hb' : b <= CB) by (rewrite Forall_forall in Hr; auto).
    pose proof (rm_shrinks b rest M) as Hs.
    eapply bnd_bind. { apply bnd_tick. lia. }
    { intros _ _. eapply bnd_bind. { apply bnd_iadd. nums. lia. }
      { intros b' ->. eapply bnd_weaken.
        - apply (IH (b + 1) (rm b rest)).
          + lia.
          + lia.
          + rewrite Forall_forall in *. intros x Hx. apply In_rm in Hx. apply Hr. tauto.
        - intros b'' H. cbn beta in *. lia.
        - reflexivity.
        - reflexivity. }
      { reflexivity. } { reflexivity. } }
    { unfold zlen in *. lia. } { lia. }
  - eapply bnd_bind. { apply bnd_tick. lia. }
    { intros _ _. apply bnd_ret; [lia| |]; reflexivity. }
    { pose proof (zlen_nonneg rest). lia. } { lia. }
Qed.

(* ---- the operations on one proxy ---- *)
(* what an operation may do to a proxy: keep the invariant, add at most k entries, never move
   ack_base backwards, leave the heartbeat count alone *)
Definition pgrow (k : Z) (p p' : proxy) : Prop :=
  pinv p' /\ zlen (changes p') <= zlen (changes p) + k /\ hb_count p' = hb_count p
  /\ ack_base p <= ack_base p'.

Lemma pinv_intro b ch h :
  1 <= b <= CB + 1 -> Forall (fun x => x <= CB) ch -> NoDup ch ->
  pinv {| ack_base := b; changes := ch; hb_count := h |}.
Proof. unfold pinv. cbn. auto. Qed.
Lemma pgrow_intro k p p' :
  pinv p' -> zlen (changes p') <= zlen (changes p) + k -> hb_count p' = hb_count p ->
  ack_base p <= ack_base p' -> pgrow k p p'.
Proof. unfold pgrow. auto. Qed.
Lemma pgrow_refl p : pinv p -> pgrow 0 p p.
Proof. intros I. unfold pgrow. split; [exact I|]. repeat split; lia. Qed.
Lemma pgrow_trans k1 k2 p1 p2 p3 : pgrow k1 p1 p2 -> pgrow k2 p2 p3 -> pgrow (k1 + k2) p1 p3.
Proof. unfold pgrow. intros (A & B & C & D) (A' & B' & C' & D'). split; [exact A'|]. split; [lia|]. split; [congruence|lia]. Qed.
Lemma pgrow_weaken k k' p p' : pgrow k p p' -> k <= k' -> pgrow k' p p'.
Proof. unfold pgrow. intros (A & B & C & D) H. split; [exact A|]. split; [lia|]. split; [exact C|exact D]. Qed.

Lemma advance_proxy_spec p :
  pinv p -> spec (advance_proxy p) (bnd (pgrow 0 p) (zlen (changes p) + 1) 0).
Proof.
  intros (Hb & Hf & Hn). unfold advance_proxy.
  eapply bnd_bind.
  { apply (advance_spec (S (length (changes p))) (ack_base p) (changes p)); [lia|lia|assumption]. }
  { intros b Hb'. cbn beta in Hb'. apply bnd_ret; [|reflexivity|reflexivity].
    unfold pgrow, pinv, with_base. cbn [ack_base changes hb_count]. repeat split; auto; lia. }
  { lia. } { lia. }
Qed.

Lemma received_add_spec p sn :
  pinv p -> sn <= CB ->
  spec (received_add p sn) (bnd (pgrow 1 p) (zlen (changes p) + 2) ENTRY).
Proof.
  intros (Hb & Hf & Hn) Hsn. unfold received_add.
  set (p1 := with_changes p (insert sn (changes p))).
  assert (I1 : pinv p1).
  { unfold pinv, p1, with_changes. cbn [ack_base changes hb_count]. repeat split; try lia.
    - now apply insert_forall. - now apply insert_nodup. }
  assert (G1 : pgrow 1 p p1).
  { unfold pgrow. split; [exact I1|]. unfold p1, with_changes. cbn.
    pose proof (insert_len sn (changes p)). repeat split; lia. }
  eapply bnd_bind. { apply bnd_alloc. unfold ENTRY. lia. }
  { intros _ _. destruct (sn =? ack_base p1).
    - eapply bnd_weaken. { apply advance_proxy_spec, I1. }
      + intros p' H. cbn beta in H. apply (pgrow_trans 1 0 p p1 p' G1 H).
      + reflexivity. + reflexivity.
    - apply bnd_ret; [exact G1| |]; [pose proof (zlen_nonneg (changes p1)); lia|lia]. }
  { unfold p1, with_changes. cbn [ack_base changes hb_count]. pose proof (insert_len sn (changes p)). lia. }
  { lia. }
Qed.

Lemma set_irrelevant_spec p sn :
  pinv p -> sn <= CB ->
  spec (set_irrelevant p sn) (bnd (pgrow 1 p) (zlen (changes p) + 2) ENTRY).
Proof.
  intros I Hsn. pose proof I as (Hb & Hf & Hn). unfold set_irrelevant.
  set (p1 := with_changes p (insert sn (changes p))).
  assert (I1 : pinv p1).
  { unfold pinv, p1, with_changes. cbn [ack_base changes hb_count]. repeat split; try lia.
    - now apply insert_forall. - now apply insert_nodup. }
  assert (G1 : pgrow 1 p p1).
  { unfold pgrow. split; [exact I1|]. unfold p1, with_changes. cbn.
    pose proof (insert_len sn (changes p)). repeat split; lia. }
  pose proof (zlen_nonneg (changes p)).
  eapply bnd_bind.
  { instantiate (3 := fun q => pgrow 1 p q). instantiate (2 := 0). instantiate (1 := ENTRY).
    destruct (ack_base p <=? sn).
    - eapply bnd_bind. { apply bnd_alloc. unfold ENTRY. lia. }
      { intros _ _. apply bnd_ret; [exact G1| |]; reflexivity. } { lia. } { lia. }
    - apply bnd_ret; [|lia|unfold ENTRY; lia]. apply (pgrow_weaken 0); [now apply pgrow_refl|lia]. }
  { intros q Gq. cbn beta in Gq. destruct (sn =? ack_base q).
    - eapply bnd_weaken. { apply advance_proxy_spec. apply Gq. }
      + intros p' H'. cbn beta in H'. apply (pgrow_trans 1 0 p q p' Gq H').
      + instantiate (1 := zlen (changes p) + 2). destruct Gq as (_ & L & _). lia.
      + reflexivity.
    - apply bnd_ret; [exact Gq|lia|lia]. }
  { lia. } { lia. }
Qed.

Lemma fold_irrelevant_spec l : forall p,
  pinv p -> Forall (fun x => x <= CB) l ->
  spec (fold_irrelevant p l)
       (bnd (pgrow (zlen l) p) (zlen l * (zlen (changes p) + zlen l + 2)) (ENTRY * zlen l)).
Proof.
  induction l as [|x l IH]; intros p I F.
  - cbn [ack_base changes hb_count]. apply bnd_ret; [now apply pgrow_refl| |]; unfold zlen; cbn; lia.
  - inversion F as [|? ? Hx F']; subst. cbn [fold_irrelevant].
    pose proof (zlen_nonneg (changes p)). pose proof (zlen_nonneg l).
    eapply spec_bind. { apply (set_irrelevant_spec p x I Hx). }
    intros p' c al (G & Hc & Ha).
    eapply spec_mono. { apply (IH p'); [apply G|exact F']. }
    intros p'' c2 a2 (G2 & Hc2 & Ha2). unfold bnd. split.
    + rewrite zlen_cons. replace (zlen l + 1) with (1 + zlen l) by lia.
      apply (pgrow_trans 1 (zlen l) p p' p'' G G2).
    + destruct G as (_ & L & _). rewrite zlen_cons. unfold ENTRY in *. nia.
Qed.

Lemma insert_range_spec n : forall from ch,
  i64_min <= from -> from + Z.of_nat n <= CB + 1 ->
  Forall (fun x => x <= CB) ch -> NoDup ch ->
  spec (insert_range n from ch)
       (bnd (fun ch' => Forall (fun x => x <= CB) ch' /\ NoDup ch' /\ zlen ch' <= zlen ch + Z.of_nat n)
            (Z.of_nat n) (ENTRY * Z.of_nat n)).
Proof.
  induction n as [|n IH]; intros from ch H1 H2 F N.
  - cbn [ack_base changes hb_count]. apply bnd_ret; [|lia|lia]. repeat split; auto. lia.
  - cbn [insert_range].
    eapply bnd_bind. { apply bnd_tick. lia. }
    { intros _ _. eapply bnd_bind. { apply bnd_alloc. unfold ENTRY. lia. }
      { intros _ _. eapply bnd_bind. { apply bnd_iadd. nums. lia. }
        { intros nxt ->. eapply bnd_weaken.
          - apply (IH (from + 1) (insert from ch)); [lia|lia| |].
            + apply insert_forall; [lia|exact F].
            + now apply insert_nodup.
          - intros ch' (A & B & C). repeat split; auto.
            pose proof (insert_len from ch). lia.
          - reflexivity. - reflexivity. }
        { reflexivity. } { reflexivity. } }
      { reflexivity. } { reflexivity. } }
    { lia. } { unfold ENTRY. lia. }
Qed.

Lemma filter_forall {A} (P : A -> Prop) f l : Forall P l -> Forall P (filter f l).
Proof. rewrite !Forall_forall. intros H x Hx. apply filter_In in Hx. apply H, Hx. Qed.

Lemma irrelevant_range_spec p from until_before :
  pinv p -> 0 <= from -> until_before <= max_accepted -> i64_min <= until_before ->
  spec (irrelevant_range fixed p from until_before)
       (bnd (pgrow 255 p) (zlen (changes p) + 257) (ENTRY * 255)).
Proof.
  intros I Hf Hu Hu'. pose proof I as (Hb & Fc & Nc). unfold irrelevant_range.
  pose proof (zlen_nonneg (changes p)) as Hz.
  destruct (Z.ltb_spec until_before from).
  { apply bnd_ret; [|lia|unfold ENTRY; lia]. apply (pgrow_weaken 0); [now apply pgrow_refl|lia]. }
  destruct (Z.leb_spec from (ack_base p)).
  - set (ch := filter _ (changes p)).
    assert (Fch : Forall (fun x => x <= CB) ch) by now apply filter_forall.
    assert (Nch : NoDup ch) by now apply NoDup_filter.
    assert (Lch : zlen ch <= zlen (changes p)) by apply zlen_filter.
    eapply bnd_bind. { apply bnd_tick. lia. }
    { intros _ _. destruct (Z.ltb_spec (ack_base p) until_before).
      - set (q := {| ack_base := until_before; changes := ch; hb_count := hb_count p |}).
        assert (Iq : pinv q). { unfold pinv, q. cbn [ack_base changes hb_count]. split; [unfold CB; lia|split; assumption]. }
        eapply bnd_weaken. { apply advance_proxy_spec, Iq. }
        + intros p' (A & B & C & D). unfold q in *. cbn [ack_base changes hb_count] in *. apply pgrow_intro; [exact A|lia|exact C|lia].
        + instantiate (1 := zlen (changes p) + 1). unfold q. cbn [ack_base changes hb_count]. lia.
        + instantiate (1 := 0). lia.
      - apply bnd_ret; [|lia|lia]. apply pgrow_intro; unfold with_changes; cbn [ack_base changes hb_count]; [|lia|reflexivity|lia]. apply pinv_intro; [lia|assumption|assumption]. }
    { lia. } { unfold ENTRY. lia. }
  - cbn [v_gap_window fixed].
    eapply bnd_bind. { apply bnd_isub. nums. lia. }
    { intros u1 ->. eapply bnd_bind.
      { apply bnd_min_iadd. nums. lia. }
      { intros last ->. cbn beta.
        set (last := Z.min (until_before - 1) (ack_base p + 255)).
        set (n := Z.to_nat (last - from + 1)).
        assert (Hn : Z.of_nat n <= 255) by (unfold n, last; lia).
        eapply bnd_bind.
        { apply (insert_range_spec n from (changes p)); [nums; lia| |exact Fc|exact Nc].
          unfold n, last. nums. lia. }
        { intros ch' (A & B & C). apply bnd_ret; [| |]; [|reflexivity|reflexivity].
          apply pgrow_intro; unfold with_changes; cbn [ack_base changes hb_count]; [|lia|reflexivity|lia]. apply pinv_intro; [lia|assumption|assumption]. }
        { reflexivity. } { reflexivity. } }
      { reflexivity. } { reflexivity. } }
    { cbn [ack_base changes hb_count]. lia. } { cbn [ack_base changes hb_count]. unfold ENTRY. lia. }
Qed.

(* ---- NumberSetIter ---- *)
Lemma bit_set_spec words i :
  0 <= i < 32 * zlen words -> spec (bit_set words i) (bnd (fun _ => True) 0 0).
Proof.
  intros H. unfold bit_set. destruct (nth_error words (Z.to_nat (i / 32))) eqn:E.
  - apply bnd_ret; [exact I|lia|lia].
  - exfalso. apply nth_error_None in E. unfold zlen in H.
    assert (i / 32 < Z.of_nat (length words)) by (apply Z.div_lt_upper_bound; lia). lia.
Qed.

Lemma set_elems_spec (add : Z -> Z -> out Z) base words n : forall i,
  0 <= i -> i + Z.of_nat n <= 32 * zlen words ->
  (forall k, i <= k < i + Z.of_nat n -> spec (add k base) (bnd (fun x => x = k + base) 0 0)) ->
  spec (set_elems add n i base words)
       (bnd (fun l => Forall (fun x => base + i <= x < base + i + Z.of_nat n) l
                      /\ zlen l <= Z.of_nat n)
            (Z.of_nat n) 0).
Proof.
  induction n as [|n IH]; intros i Hi Hw Hadd.
  - cbn. apply bnd_ret; [|lia|lia]. split; [constructor|unfold zlen; cbn; lia].
  - cbn [set_elems].
    eapply spec_bind. { apply bnd_tick. lia. } intros ? c0 a0 (_ & Hc0 & Ha0).
    eapply spec_bind. { apply bit_set_spec. lia. } intros b c1 a1 (_ & Hc1 & Ha1).
    assert (Hx : spec (if b then e <- add i base;; ret [e] else ret [])
                      (bnd (fun x => Forall (fun y => y = i + base) x /\ zlen x <= 1) 0 0)).
    { destruct b.
      - eapply spec_bind. { apply Hadd. lia. } intros e ce ae (-> & Hce & Hae).
        apply spec_ret. unfold bnd. split; [|lia]. split; [repeat constructor|unfold zlen; cbn; lia].
      - apply bnd_ret; [|lia|lia]. split; [constructor|unfold zlen; cbn; lia]. }
    eapply spec_bind. { exact Hx. } intros x c2 a2 ((Fx & Lx) & Hc2 & Ha2).
    eapply spec_bind. { apply (IH (i + 1)); [lia|lia|]. intros k Hk. apply Hadd. lia. }
    intros rest c3 a3 ((Fr & Lr) & Hc3 & Ha3).
    apply spec_ret. unfold bnd. split; [|lia]. split.
    + apply Forall_app. split.
      * rewrite Forall_forall in *. intros y Hy. apply Fx in Hy. lia.
      * rewrite Forall_forall in *. intros y Hy. apply Fr in Hy. lia.
    + rewrite zlen_app. lia.
Qed.

(* ---- missing_seqnums ---- *)
Definition ascending (lo : Z) (l : list Z) : Prop :=
  (* strictly increasing and at least lo *)
  forall pre x post, l = pre ++ x :: post -> lo <= x /\ Forall (fun y => x < y) post.

Lemma ascending_nil lo : ascending lo [].
Proof. intros pre x post E. destruct pre; discriminate. Qed.
Lemma ascending_cons lo x l : lo <= x -> ascending (x + 1) l -> ascending lo (x :: l).
Proof.
  intros Hx H pre y post E. destruct pre as [|z pre]; cbn in E; inversion E; subst.
  - split; [assumption|]. rewrite Forall_forall. intros z Hz.
    apply in_split in Hz as (l1 & l2 & ->). destruct (H l1 z l2 eq_refl). lia.
  - destruct (H pre y post eq_refl). split; [lia|assumption].
Qed.
Lemma ascending_weaken lo lo' l : lo' <= lo -> ascending lo l -> ascending lo' l.
Proof. intros H A pre x post E. destruct (A pre x post E). split; [lia|assumption]. Qed.
Lemma ascending_ge lo l : ascending lo l -> Forall (fun x => lo <= x) l.
Proof.
  intros A. rewrite Forall_forall. intros x Hx. apply in_split in Hx as (l1 & l2 & ->).
  apply (A l1 x l2 eq_refl).
Qed.
Lemma ascending_nodup lo l : ascending lo l -> NoDup l.
Proof.
  induction l as [|x l IH]; intros A; constructor.
  - destruct (A [] x l eq_refl) as (_ & F). rewrite Forall_forall in F. intros Hx.
    apply F in Hx. lia.
  - apply IH. intros pre y post E. apply (A (x :: pre) y post). now rewrite E.
Qed.
Lemma ascending_tail lo x l : ascending lo (x :: l) -> ascending (x + 1) l.
Proof.
  intros A pre y post E. destruct (A (x :: pre) y post) as (_ & F); [now rewrite E|].
  split; [|assumption]. destruct (A [] x l eq_refl) as (_ & Fx). rewrite Forall_forall in Fx.
  assert (x < y) by (apply Fx; rewrite E; apply in_elt). lia.
Qed.

Lemma missing_loop_spec ch n : forall s,
  i64_min <= s -> s + Z.of_nat n <= i64_max ->
  spec (missing_loop n s ch)
       (bnd (fun l => ascending s l /\ Forall (fun x => x < s + Z.of_nat n /\ ~ In x ch) l
                      /\ zlen l <= Z.of_nat n)
            (Z.of_nat n) (WORD * Z.of_nat n)).
Proof.
  induction n as [|n IH]; intros s H1 H2.
  - cbn. apply bnd_ret; [|lia|unfold WORD; lia].
    split; [apply ascending_nil|]. split; [constructor|unfold zlen; cbn; lia].
  - cbn [missing_loop].
    eapply spec_bind. { apply bnd_tick. lia. } intros ? c0 a0 (_ & Hc0 & Ha0).
    eapply spec_bind. { apply bnd_iadd. lia. } intros nxt c1 a1 (-> & Hc1 & Ha1).
    eapply spec_bind. { apply (IH (s + 1)); lia. } intros rest c2 a2 ((Ar & Fr & Lr) & Hc2 & Ha2).
    assert (Fr' : Forall (fun x => x < s + Z.of_nat (S n) /\ ~ In x ch) rest).
    { rewrite Forall_forall in *. intros x Hx. apply Fr in Hx. split; [lia|tauto]. }
    destruct (mem s ch) eqn:M.
    + apply spec_ret. unfold bnd, WORD in *. split; [|lia].
      split; [apply (ascending_weaken (s + 1)); [lia|exact Ar]|]. split; [exact Fr'|lia].
    + eapply spec_bind. { apply bnd_alloc. unfold WORD. lia. } intros ? c3 a3 (_ & Hc3 & Ha3).
      apply spec_ret. unfold bnd, WORD in *. split; [|lia].
      split; [apply ascending_cons; [lia|exact Ar]|]. split.
      * constructor; [|exact Fr']. split; [lia|]. now apply mem_false.
      * rewrite zlen_cons. lia.
Qed.

Lemma count_window ch b last :
  NoDup ch -> zlen (filter (fun x => (b <=? x) && (x <=? last)) ch) <= Z.max 0 (last - b + 1).
Proof.
  intros N. set (l := filter _ ch).
  assert (Nl : NoDup l) by now apply NoDup_filter.
  assert (I : incl l (RD.C05.Model.iota b (Z.to_nat (last - b + 1)))).
  { intros x Hx. apply filter_In in Hx as (_ & Hx). apply andb_true_iff in Hx as (A & B).
    apply Z.leb_le in A, B. apply FL.in_iota. lia. }
  pose proof (NoDup_incl_length Nl I) as L. rewrite FL.iota_length in L. unfold zlen. lia.
Qed.

Lemma missing_seqnums_spec p first last :
  pinv p -> i64_min <= last -> i64_min <= first -> last <= ack_base p + 255 ->
  spec (missing_seqnums p first last)
       (bnd (fun l => ascending (Z.max first (ack_base p)) l
                      /\ Forall (fun x => x <= last /\ ~ In x (changes p)) l /\ zlen l <= 256)
            512 (256 + WORD * 512)).
Proof.
  intros (Hb & Fc & Nc) Hl Hf Hw. unfold missing_seqnums.
  destruct (Z.ltb_spec last first).
  - eapply spec_bind. { apply bnd_iadd. nums. lia. } intros x cz az (_ & Hcz & Haz).
    apply spec_ret. unfold bnd, WORD. split; [|lia].
    split; [apply ascending_nil|]. split; [constructor|unfold zlen; cbn; lia].
  - set (b := Z.max first (ack_base p)).
    set (k := zlen (filter (fun x => (b <=? x) && (x <=? last)) (changes p))).
    assert (Hk : 0 <= k <= 256).
    { split; [apply zlen_nonneg|]. pose proof (count_window (changes p) b last Nc). unfold k, b in *. lia. }
    set (n := Z.to_nat (last - b + 1)).
    assert (Hn : Z.of_nat n <= 256) by (unfold n, b; lia).
    eapply spec_bind. { apply bnd_alloc. lia. } intros ? c0 a0 (_ & Hc0 & Ha0).
    assert (Hknown : spec (if b <=? last then _ <- tick k;; alloc (WORD * k) else ret tt)
                          (bnd (fun _ => True) 256 (WORD * 256))).
    { destruct (b <=? last).
      - eapply spec_bind. { apply bnd_tick. lia. } intros ? cz az (_ & Hcz & Haz).
        eapply spec_mono. { apply bnd_alloc. unfold WORD. lia. }
        intros ? c' a' (_ & Hc' & Ha'). unfold bnd, WORD in *. split; [exact I|lia].
      - apply bnd_ret; [exact I|lia|unfold WORD; lia]. }
    eapply spec_bind. { exact Hknown. } intros ? c1 a1 (_ & Hc1 & Ha1).
    eapply spec_mono.
    { apply (missing_loop_spec (changes p) n b); [unfold b; lia|]. nums. unfold b in *. lia. }
    intros l cm am ((A & F & L) & Hcm & Ham). unfold bnd, WORD in *. split; [|lia].
    split; [exact A|]. split; [|lia].
    assert (E : Z.of_nat n = 0 \/ Z.of_nat n = last - b + 1) by (unfold n; lia).
    destruct E as [E|E].
    + destruct l as [|y l]; [constructor|]. rewrite zlen_cons in L. pose proof (zlen_nonneg l). lia.
    + rewrite Forall_forall in *. intros x Hx. apply F in Hx. split; [lia|tauto].
Qed.
