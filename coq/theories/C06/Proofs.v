(* C06 — the theorems about one datagram and about runs. *)
From Coq Require Import List ZArith Bool Lia.
From RD Require Import Common.Corr C06.Model C06.Spec C06.Proxy C06.Handlers C06.Datagram.
From RD Require C05.Model C05.Lists C05.Asm C05.Split.
Import ListNotations.
Open Scope Z_scope.

(* ---- every state has finite bounds ---- *)
Definition amax {A} (f : A -> Z) (m : list (Z * A)) : Z :=
  fold_right (fun kv a => Z.max (f (snd kv)) a) 0 m.
Lemma amax_nonneg {A} (f : A -> Z) m : 0 <= amax f m.
Proof. induction m as [|kv m IH]; cbn [amax fold_right]; [lia|]. fold (amax f m). lia. Qed.
Lemma amax_lookup {A} (f : A -> Z) m k v : F.alookup k m = Some v -> f v <= amax f m.
Proof.
  intros E. apply FL.alookup_in in E. induction m as [|kv m IH]; [destruct E|].
  cbn [amax fold_right]. fold (amax f m). pose proof (amax_nonneg f m).
  destruct E as [->|E]; [cbn [snd]; lia|]. specialize (IH E). lia.
Qed.

Definition cmax (s : state) : Z := amax (fun p => zlen (changes p)) (s_px s).
Definition wmax (s : state) : Z := amax (fun fa => amax F.ab_count (F.fa_bufs fa)) (s_fa s).
Definition hmax (s : state) : Z := amax (fun fc => fc) (s_hist s).

Lemma cbound_cmax s : cbound (cmax s) s.
Proof. intros w p E. apply (amax_lookup (fun p => zlen (changes p)) _ _ _ E). Qed.
Lemma wbound_wmax s : wbound (wmax s) s.
Proof.
  intros w fa sn ab E1 E2. unfold wmax.
  pose proof (amax_lookup (fun fa => amax F.ab_count (F.fa_bufs fa)) _ _ _ E1) as H1. cbn beta in H1.
  pose proof (amax_lookup F.ab_count _ _ _ E2). lia.
Qed.
Lemma hbound_hmax s : hbound (hmax s) s.
Proof. intros sn fc E. apply (amax_lookup (fun fc => fc) _ _ _ E). Qed.

Definition maxtf (l : list subm) : Z := fold_right (fun m a => Z.max (tf m) a) 0 l.
Lemma maxtf_nonneg l : 0 <= maxtf l.
Proof. induction l; cbn [maxtf fold_right]; [lia|]. fold (maxtf l). lia. Qed.
Lemma maxtf_bound l : Forall (fun m => tf m <= maxtf l) l.
Proof.
  induction l as [|m l IH]; constructor; cbn [maxtf fold_right]; fold (maxtf l); [lia|].
  rewrite Forall_forall in *. intros x Hx. specialize (IH x Hx). cbn beta in *. lia.
Qed.

(* ---- one datagram ---- *)
(* C06_linear, general form *)
Lemma handle_bounds s d N W H :
  Inv s -> wf_dgram d = true -> cbound N s -> wbound W s -> hbound H s -> 0 <= N -> 0 <= W ->
  let n := zlen (d_subs d) in
  let T := Z.max W (maxtf (d_subs d)) in
  exists s' rs c a,
    handle fixed s d = ORet (s', rs) c a
    /\ Inv s' /\ frame (srcs (d_src d) (d_subs d)) s s'
    /\ 0 <= c <= n * Kc (N + 512 * n) T
    /\ 0 <= a <= 8 * dg_bytes d + sumKa H (d_subs d)
    /\ cbound (N + 512 * n) s' /\ wbound T s' /\ hbound H s'.
Proof.
  intros I Hwf C Wb Hh HN HW n T.
  assert (HT : 0 <= T) by (unfold T; lia).
  assert (WbT : wbound T s) by (apply (wbound_weaken W); [exact Wb|unfold T; lia]).
  assert (Htf : Forall (fun m => tf m <= T) (d_subs d)).
  { pose proof (maxtf_bound (d_subs d)) as B. rewrite Forall_forall in *. intros m Hm.
    specialize (B m Hm). unfold T. lia. }
  pose proof (handle_spec N T H s d I C WbT Hh HT HN Hwf Htf) as Hs.
  apply spec_inv in Hs as ([s' rs] & c & a & E & (I' & F' & C' & W') & Hc & Ha).
  exists s', rs, c, a. cbn [fst] in *. fold n in Hc, C'. 
  split; [exact E|]. split; [exact I'|]. split; [exact F'|]. split; [exact Hc|]. split; [exact Ha|].
  split; [exact C'|]. split; [exact W'|]. apply (hbound_frame _ _ _ _ F' Hh).
Qed.

(* C06_no_panic *)
Lemma no_panic s d :
  Inv s -> wf_dgram d = true -> handle fixed s d <> OPanic /\ handle fixed s d <> OFuel.
Proof.
  intros I Hwf.
  destruct (handle_bounds s d (cmax s) (wmax s) (hmax s) I Hwf (cbound_cmax s) (wbound_wmax s)
              (hbound_hmax s) (amax_nonneg _ _) (amax_nonneg _ _)) as (s' & rs & c & a & E & _).
  rewrite E. split; discriminate.
Qed.

(* C06_keeps_working: the invariant survives, and nothing attributed to other sources changes *)
Lemma keeps_working s d :
  Inv s -> wf_dgram d = true ->
  exists s' rs c a, handle fixed s d = ORet (s', rs) c a /\ Inv s'
                    /\ frame (srcs (d_src d) (d_subs d)) s s'.
Proof.
  intros I Hwf.
  destruct (handle_bounds s d (cmax s) (wmax s) (hmax s) I Hwf (cbound_cmax s) (wbound_wmax s)
              (hbound_hmax s) (amax_nonneg _ _) (amax_nonneg _ _)) as (s' & rs & c & a & E & I' & F' & _).
  eauto 10.
Qed.

(* ---- allocation is linear in the datagram for DATAFRAGs in proportion ---- *)
Definition in_proportion (d : dgram) : Prop := forallb (fun m => negb (sub_known m)) (d_subs d) = true.

Definition KA (H : Z) : Z := SUBM + A_fix + 2432 + h8 H.

Lemma Ka_linear H m :
  wf_sub m = true -> sub_parses m = true -> sub_known m = false ->
  Ka H m <= 145 * sub_bytes m + KA H.
Proof.
  intros Hwf Hp Hk. pose proof (sub_bytes_nonneg m Hwf Hp) as Hsb.
  unfold Ka, KA. destruct m; cbn [dfa] in *; try lia.
  cbn [wf_sub sub_parses sub_known sub_bytes] in *. bprop.
  apply Z.ltb_ge in Hk.
  pose proof (tfrags_le total fsize ltac:(lia) ltac:(lia)) as Ht.
  pose proof (tfrags_nonneg total fsize ltac:(lia)) as Ht0.
  assert (tfrags total fsize / 8 <= total / 8) by (apply Z.div_le_mono; lia).
  assert (total / 8 * 8 <= total) by (pose proof (Z.div_mod total 8 ltac:(lia)); pose proof (Z.mod_pos_bound total 8 ltac:(lia)); lia).
  pose proof (pad4_bounds payload_len ltac:(lia)). lia.
Qed.

Lemma sumKa_linear H l :
  Forall (fun m => wf_sub m = true /\ sub_parses m = true /\ sub_known m = false) l ->
  sumKa H l <= 145 * fold_right (fun s a => sub_bytes s + a) 0 l + zlen l * KA H.
Proof.
  induction l as [|m l IH]; intros F'; [unfold zlen; cbn; lia|].
  inversion F' as [|? ? (A & B & C) F'']; subst. specialize (IH F'').
  cbn [sumKa fold_right]. fold (sumKa H l). rewrite zlen_cons.
  pose proof (Ka_linear H m A B C). lia.
Qed.

Lemma handle_alloc_linear s d N W H :
  Inv s -> wf_dgram d = true -> in_proportion d -> cbound N s -> wbound W s -> hbound H s ->
  0 <= N -> 0 <= W ->
  exists s' rs c a,
    handle fixed s d = ORet (s', rs) c a
    /\ a <= 153 * dg_bytes d + zlen (d_subs d) * KA H.
Proof.
  intros I Hwf Hip C Wb Hh HN HW.
  destruct (handle_bounds s d N W H I Hwf C Wb Hh HN HW) as (s' & rs & c & a & E & _ & _ & _ & Ha & _).
  exists s', rs, c, a. split; [exact E|].
  pose proof (dg_bytes_nonneg d Hwf) as Hb.
  destruct (forallb sub_parses (d_subs d)) eqn:Ep.
  - assert (L : sumKa H (d_subs d)
                <= 145 * fold_right (fun s a => sub_bytes s + a) 0 (d_subs d) + zlen (d_subs d) * KA H).
    { apply sumKa_linear. unfold in_proportion in Hip. unfold wf_dgram in Hwf. bprop.
      rewrite Forall_forall. rewrite forallb_forall in *. intros m Hm.
      repeat split; auto. specialize (Hip m Hm). now destruct (sub_known m). }
    unfold dg_bytes in *. lia.
  - (* a datagram that does not parse: handle allocates only the parse buffer *)
    unfold handle in E. rewrite Ep in E. remember (8 * dg_bytes d) as k8 eqn:Ek.
    unfold bind, alloc, ret in E. inversion E; subst.
    assert (0 <= h8 H) by (unfold h8; apply Z.div_pos; lia).
    pose proof (zlen_nonneg (d_subs d)). unfold KA, SUBM. rewrite A_fix_val. nia.
Qed.

(* ---- the well-behaved peer is still served ---- *)
Definition w2_fresh (s : state) : Prop := F.alookup 2 (s_px s) = Some proxy0.

Lemma epilogue_ok s :
  w2_fresh s ->
  exists s' c a, handle fixed s epilogue = ORet (s', [(2, 2, [])]) c a /\ In (2, 1) (s_deliv s').
Proof.
  unfold w2_fresh. intros E. destruct s as [px fa dl rps hist last now]. cbn [s_px] in E.
  unfold handle, epilogue. cbn [d_subs d_src forallb sub_parses andb].
  unfold handle_subs, handle_sub. cbn [accepted v_range_guard fixed rc_dst_ok rc_src negb andb].
  unfold handle_data, process_received. cbn [s_px Z.ltb].
  rewrite E. cbn. eexists _, _, _. split; [reflexivity|]. cbn. now left.
Qed.

(* hostile traffic: well-typed datagrams none of whose submessages is attributed to source 2 *)
Definition hostile (d : dgram) : Prop :=
  wf_dgram d = true /\ ~ In 2 (srcs (d_src d) (d_subs d)).

Lemma hostile_keeps_w2 s d :
  Inv s -> w2_fresh s -> hostile d ->
  exists s' rs c a, handle fixed s d = ORet (s', rs) c a /\ Inv s' /\ w2_fresh s'.
Proof.
  intros I Hw (Hwf & Hs).
  destruct (keeps_working s d I Hwf) as (s' & rs & c & a & E & I' & (A & _)).
  exists s', rs, c, a. split; [exact E|]. split; [exact I'|]. unfold w2_fresh. now rewrite A.
Qed.

(* ---- runs ---- *)
Lemma Inv_init : Inv init.
Proof.
  unfold Inv, init. cbn [s_px s_fa s_hist]. split; [|split].
  - assert (P0 : pinv proxy0).
    { unfold pinv, proxy0. cbn. nums. split; [lia|]. split; constructor. }
    unfold allv. constructor; [exact P0|]. constructor; [exact P0|]. constructor.
  - constructor.
  - unfold allv. nums. constructor; [cbn; lia|]. constructor; [cbn; lia|]. constructor; [cbn; lia|]. constructor.
Qed.
Lemma w2_fresh_init : w2_fresh init.
Proof. reflexivity. Qed.

Lemma run_dgs_ok : forall dgs s acc,
  Inv s -> w2_fresh s -> Forall hostile dgs ->
  exists s' acc', run_dgs fixed s dgs acc = (acc', Some s') /\ Inv s' /\ w2_fresh s'
    /\ a_outs acc' = repeat OOk (length dgs) ++ a_outs acc.
Proof.
  induction dgs as [|d dgs IH]; intros s acc I Hw Hh.
  - exists s, acc. cbn. auto.
  - inversion Hh as [|? ? Hd Hh']; subst.
    destruct (hostile_keeps_w2 s d I Hw Hd) as (s1 & rs & c & a & E & I1 & Hw1).
    cbn [run_dgs]. rewrite E.
    destruct (IH s1 {| a_outs := OOk :: a_outs acc; a_replies := rev rs ++ a_replies acc;
                       a_cost := Z.max (a_cost acc) c; a_alloc := Z.max (a_alloc acc) a |}
                 I1 Hw1 Hh') as (s' & acc' & E' & I' & Hw' & Ho).
    exists s', acc'. split; [exact E'|]. split; [exact I'|]. split; [exact Hw'|].
    rewrite Ho. cbn [a_outs length repeat]. rewrite (repeat_cons (length dgs) OOk).
    rewrite <- app_assoc. reflexivity.
Qed.

(* the crash/liveness part of the oracle *)
Definition ok_live (c : case) (o : obs) : bool :=
  forallb (outcome_eqb OOk) (o_outcomes o)
  && (length (o_outcomes o) =? length (c_dgs c))%nat
  && o_w2_delivered o
  && option_eqb Z.eqb (o_w2_base o) (Some 2).

Definition ok_budget (c : case) (o : obs) : bool :=
  (o_max_alloc o <=? alloc_budget c) && (o_retained o <=? retained_budget c)
  && (o_cost o <=? cost_budget c) && (o_max_ms o <=? ms_budget).

Lemma ok_split c o : ok c o = ok_live c o && ok_budget c o.
Proof.
  unfold ok, ok_live, ok_budget.
  destruct (forallb (outcome_eqb OOk) (o_outcomes o)), (length (o_outcomes o) =? length (c_dgs c))%nat,
    (o_max_alloc o <=? alloc_budget c), (o_retained o <=? retained_budget c),
    (o_cost o <=? cost_budget c), (o_max_ms o <=? ms_budget), (o_w2_delivered o),
    (option_eqb Z.eqb (o_w2_base o) (Some 2)); reflexivity.
Qed.

Lemma rev_repeat' {A} (x : A) n : rev (repeat x n) = repeat x n.
Proof. induction n as [|n IH]; [reflexivity|]. cbn [repeat rev]. rewrite IH. symmetry. apply repeat_cons. Qed.
Lemma forallb_repeat_ok n : forallb (outcome_eqb OOk) (repeat OOk n) = true.
Proof. induction n; cbn; auto. Qed.

Lemma model_live c :
  Forall hostile (c_dgs c) -> ok_live c (run c) = true.
Proof.
  intros Hh. unfold run. destruct (too_big c).
  - unfold ok_live, obs_big. cbn [o_outcomes o_w2_delivered o_w2_base].
    rewrite map_length, Nat.eqb_refl. cbn [option_eqb]. rewrite Z.eqb_refl, !andb_true_r.
    clear Hh. induction (c_dgs c); cbn; auto.
  - unfold run_v.
    destruct (run_dgs_ok (c_dgs c) init {| a_outs := []; a_replies := []; a_cost := 0; a_alloc := 0 |}
                Inv_init w2_fresh_init Hh) as (s & acc & E & I & Hw & Ho).
    rewrite E. destruct (epilogue_ok s Hw) as (s' & cc & aa & Ee & Hin). rewrite Ee.
    unfold ok_live. cbn [o_outcomes o_w2_delivered o_w2_base].
    rewrite Ho. cbn [a_outs]. rewrite app_nil_r, rev_repeat', forallb_repeat_ok, repeat_length, Nat.eqb_refl.
    cbn [option_eqb andb]. rewrite Z.eqb_refl, andb_true_r.
    apply existsb_exists. exists (2, 1). split; [exact Hin|reflexivity].
Qed.

(* ---- oracle soundness: what ok = true means ---- *)
Lemma oracle_sound c o :
  ok c o = true ->
  Forall (fun x => x = OOk) (o_outcomes o) /\ length (o_outcomes o) = length (c_dgs c)
  /\ o_max_alloc o <= 262144 + 128 * total_bytes c
  /\ o_retained o <= 262144 + 128 * total_bytes c
  /\ o_max_ms o <= 3000
  /\ o_w2_delivered o = true /\ o_w2_base o = Some 2.
Proof.
  unfold ok, alloc_budget, retained_budget, ms_budget. intros H.
  repeat (apply andb_true_iff in H as (H & ?)).
  repeat match goal with
         | H : (_ <=? _) = true |- _ => apply Z.leb_le in H
         end.
  split; [|split; [|repeat split; try assumption]].
  - rewrite Forall_forall. rewrite forallb_forall in H. intros x Hx. specialize (H x Hx).
    destruct x; try discriminate. reflexivity.
  - now apply Nat.eqb_eq.
  - destruct (o_w2_base o) as [b|]; [|discriminate]. cbn in H0. apply Z.eqb_eq in H0. now subst.
Qed.

(* ---- the code before the fix: commits (witnesses, replayed on the real code by the driver's corpus) ---- *)
Definition without_range_guard : version :=
  {| v_range_guard := false; v_hb_window := true; v_gap_window := true;
     v_nackfrag_window := true; v_frag_validate := true |}.
Definition without_hb_window : version :=
  {| v_range_guard := true; v_hb_window := false; v_gap_window := true;
     v_nackfrag_window := true; v_frag_validate := true |}.
Definition without_gap_window : version :=
  {| v_range_guard := true; v_hb_window := true; v_gap_window := false;
     v_nackfrag_window := true; v_frag_validate := true |}.
Definition without_nackfrag_window : version :=
  {| v_range_guard := true; v_hb_window := true; v_gap_window := true;
     v_nackfrag_window := false; v_frag_validate := true |}.
Definition without_frag_validate : version :=
  {| v_range_guard := true; v_hb_window := true; v_gap_window := true;
     v_nackfrag_window := true; v_frag_validate := false |}.

Definition one (d : dgram) : Z * dgram := (1, d).
Definition from1 (l : list subm) : dgram := {| d_src := 1; d_subs := l |}.

(* 4e0d9c9: numbers near i64::MAX / u32::MAX overflow the window arithmetic *)
Definition w_overflow : list case :=
  [ {| c_rl := [one (from1 [Heartbeat i64_max i64_max 1 false])] |};
    {| c_rl := [one (from1 [Gap (i64_max - 3) (i64_max - 2) 32 [4294967295]])] |};
    {| c_rl := [one (from1 [AckNack (i64_max - 2) 32 [4294967295] 1])] |};
    {| c_rl := [one (from1 [NackFrag 3 (u32_max - 2) 32 [4294967295] 1])] |} ].
Lemma old_overflow_panics :
  Forall (fun c => existsb (outcome_eqb OCrash) (o_outcomes (run_v without_range_guard c)) = true
                   /\ ok c (run_v fixed c) = true) w_overflow.
Proof. repeat constructor; vm_compute; reflexivity. Qed.

(* eef2682: a HEARTBEAT costs as many steps as the range it advertises *)
Definition w_heartbeat (n : Z) : case := {| c_rl := [one (from1 [Heartbeat 1 n 1 false])] |}.
Lemma old_heartbeat_unbounded :
  Forall (fun n => n <= o_cost (run_v without_hb_window (w_heartbeat n))
                   /\ o_cost (run_v fixed (w_heartbeat n)) <= 600)
         [1000; 10000; 100000].
Proof. repeat constructor; vm_compute; intro; discriminate. Qed.

(* GAP above ack_base: one map entry per sequence number of the advertised range *)
Definition w_gap (n : Z) : case := {| c_rl := [one (from1 [Gap 5 (5 + n) 0 []])] |}.
Lemma old_gap_unbounded :
  Forall (fun n => n <= o_cost (run_v without_gap_window (w_gap n))
                   /\ 64 * n <= o_max_alloc (run_v without_gap_window (w_gap n))
                   /\ o_cost (run_v fixed (w_gap n)) <= 600)
         [500; 1000; 3000].
Proof. repeat constructor; vm_compute; intro; discriminate. Qed.

(* NACKFRAG generation: every missing fragment number was collected *)
Definition w_nackfrag : case :=
  {| c_rl := [one (from1 [DataFrag 1 1 1024 1 60000 1024]); one (from1 [Heartbeat 1 1 1 false])] |}.
Lemma old_nackfrag_unbounded :
  8 * (60000 - 1024) <= o_max_alloc (run_v without_nackfrag_window w_nackfrag)
  /\ ok w_nackfrag (run_v without_nackfrag_window w_nackfrag) = false
  /\ ok w_nackfrag (run_v fixed w_nackfrag) = true.
Proof. vm_compute. split; [intro; discriminate|split; reflexivity]. Qed.

(* 67917b6 (C05): inconsistent DATAFRAG fields panic in insert_frags *)
Definition w_datafrag : list case :=
  [ {| c_rl := [one (from1 [DataFrag 1 1 65535 4 8 8])] |};
    {| c_rl := [one (from1 [DataFrag 1 1 1 8 16 8]); one (from1 [DataFrag 1 4 1 8 64 8])] |} ].
Lemma old_datafrag_panics :
  Forall (fun c => existsb (outcome_eqb OCrash) (o_outcomes (run_v without_frag_validate c)) = true
                   /\ ok c (run_v fixed c) = true) w_datafrag.
Proof. repeat constructor; vm_compute; reflexivity. Qed.

(* F7, not repaired: the model allocates data_size bytes too; the oracle rejects it *)
Definition w_f7 : case := {| c_rl := [one (from1 [DataFrag 1 1 1 1024 2000000 1024])] |}.
Lemma f7_known : known_class w_f7 = true /\ ok w_f7 (run w_f7) = false.
Proof. vm_compute. split; reflexivity. Qed.

Lemma other_peer_served s d :
  Inv s -> w2_fresh s -> hostile d ->
  exists s1 rs c a, handle fixed s d = ORet (s1, rs) c a /\ Inv s1 /\ w2_fresh s1
    /\ exists s2 c' a', handle fixed s1 epilogue = ORet (s2, [(2, 2, [])]) c' a'
                        /\ In (2, 1) (s_deliv s2).
Proof.
  intros I W Hd. destruct (hostile_keeps_w2 s d I W Hd) as (s1 & rs & c & a & E & I1 & W1).
  exists s1, rs, c, a. split; [exact E|]. split; [exact I1|]. split; [exact W1|].
  exact (epilogue_ok s1 W1).
Qed.

Lemma bounds_exist s :
  cbound (cmax s) s /\ wbound (wmax s) s /\ hbound (hmax s) s /\ 0 <= cmax s /\ 0 <= wmax s.
Proof.
  split; [apply cbound_cmax|]. split; [apply wbound_wmax|]. split; [apply hbound_hmax|].
  split; apply amax_nonneg.
Qed.

Lemma reachable_inv dgs acc :
  Forall hostile dgs ->
  exists s' acc', run_dgs fixed init dgs acc = (acc', Some s') /\ Inv s' /\ w2_fresh s'
    /\ a_outs acc' = repeat OOk (length dgs) ++ a_outs acc.
Proof. intros H. exact (run_dgs_ok dgs init acc Inv_init w2_fresh_init H). Qed.

(* ---- the loops cost exactly their trip count (what the window fixes bound) ---- *)
Lemma iadd_ok a b : i64_min <= a + b <= i64_max -> iadd a b = ORet (a + b) 0 0.
Proof.
  intros H. unfold iadd, in_i64.
  destruct (Z.leb_spec i64_min (a + b)), (Z.leb_spec (a + b) i64_max); try lia. reflexivity.
Qed.

Lemma missing_loop_cost ch n : forall s,
  i64_min <= s -> s + Z.of_nat n <= i64_max ->
  exists l a, missing_loop n s ch = ORet l (Z.of_nat n) a.
Proof.
  induction n as [|n IH]; intros s H1 H2.
  - exists [], 0. reflexivity.
  - destruct (IH (s + 1) ltac:(lia) ltac:(lia)) as (l & a & E).
    cbn [missing_loop]. rewrite iadd_ok by lia. unfold bind, tick, alloc, ret. rewrite E.
    destruct (mem s ch); cbv beta iota; eexists _, _; f_equal; lia.
Qed.

Lemma insert_range_cost n : forall from ch,
  i64_min <= from -> from + Z.of_nat n <= i64_max ->
  exists ch', insert_range n from ch = ORet ch' (Z.of_nat n) (ENTRY * Z.of_nat n).
Proof.
  induction n as [|n IH]; intros from ch H1 H2.
  - exists ch. unfold insert_range, ret, ENTRY. f_equal.
  - destruct (IH (from + 1) (insert from ch) ltac:(lia) ltac:(lia)) as (ch' & E).
    cbn [insert_range]. rewrite iadd_ok by lia. unfold bind, tick, alloc. rewrite E.
    cbv beta iota. eexists. f_equal; unfold ENTRY; lia.
Qed.

Lemma loop_cost_exact n s ch :
  i64_min <= s -> s + Z.of_nat n <= i64_max ->
  (exists l a, missing_loop n s ch = ORet l (Z.of_nat n) a)
  /\ (exists ch', insert_range n s ch = ORet ch' (Z.of_nat n) (ENTRY * Z.of_nat n)).
Proof. intros H1 H2. split; [now apply missing_loop_cost|now apply insert_range_cost]. Qed.
