(* C08 — read/take honour DDS sample / view / instance semantics and History depth.

   Model of DataSampleCache (src/dds/with_key/datasample_cache.rs):
     add_sample (instance state machine, generation counts, KeepLast / max_samples_per_instance
     eviction as written: it counts the stale instance_samples entries of taken samples),
     sample_selector, select_keys_for_access, select_instance_keys_for_access,
     sort_by_sequence_number, read_by_keys, take_by_keys, read_bare_by_keys, take_bare_by_keys,
     make_sample_info, record_instance_generation_viewed, mark_instances_viewed, next_key
   and of the DataReader forms on top (src/dds/with_key/datareader.rs): read, take,
   read_next_sample, take_next_sample, iterator, conditional_iterator, into_iterator,
   into_conditional_iterator, read_instance, take_instance (infer_key This/Next).

   The reader is best effort: fill_and_lock_local_datasample_cache hands the changes to add_sample in
   arrival order, with their (strictly increasing) receive instants; every change is intelligible
   (C09 covers the others).  Receive instants are the arrival counter. *)
From Coq Require Import List ZArith Bool Lia.
From RD Require Import Common.Corr.
Import ListNotations.
Open Scope Z_scope.

(* ---------------------------------------------------------------------------------------- *)
Inductive hist := HNone | HKeepAll | HKeepLast (depth : Z).
Record qos := mkQos { q_hist : hist; q_rl : option Z (* resource_limits.max_samples_per_instance *) }.

Inductive istate := Alive | Disposed.   (* add_sample never produces NotAliveNoWriters *)

Record dsample := mkD {
  d_ts : Z; d_key : Z; d_val : option Z (* None = Sample::Dispose *); d_w : Z; d_sn : Z;
  d_gen : Z  (* generation_counts.disposed_generation_count; no_writers_generation_count stays 0 *);
  d_read : bool }.

Record inst := mkI {
  i_key : Z;
  i_samples : list Z;      (* instance_samples: BTreeSet<Timestamp>, ascending *)
  i_state : istate;
  i_gen : Z;               (* latest_generation_available (disposed count; total = the same) *)
  i_acc : Z }.             (* last_generation_accessed.total(); sub_zero() has total -2 *)

Record cache := mkCache {
  samples : list dsample;  (* datasamples: BTreeMap<Timestamp,_>, ascending *)
  insts : list inst }.     (* instance_map: BTreeMap<K,_>, ascending key *)

Inductive cond := CAny | CNotRead.    (* the two ReadConditions that can be constructed *)
Inductive sel := This | Next.

Inductive form :=
| FRead (max : Z) (c : cond)
| FTake (max : Z) (c : cond)
| FReadNext | FTakeNext
| FIter | FIntoIter
| FCondIter (c : cond) | FIntoCondIter (c : cond)
| FReadInst (max : Z) (c : cond) (key : option Z) (s : sel)
| FTakeInst (max : Z) (c : cond) (key : option Z) (s : sel).

Inductive op :=
| OAdd (w sn key : Z) (val : option Z)   (* a value / a dispose of instance key arrives *)
| OCall (f : form).

Record case := mkCase { c_qos : qos; ops : list op }.

(* what comes back with a sample: the SampleInfo fields (timestamps excluded) *)
Record osample := mkO {
  o_ts : Z;                      (* ghost: receive instant, zeroed in observations *)
  o_w : Z; o_sn : Z; o_key : Z; o_val : option Z;
  o_read : bool;                 (* sample_state = Read *)
  o_new : bool;                  (* view_state = New *)
  o_alive : bool;                (* instance_state = Alive (else NotAliveDisposed) *)
  o_dgen : Z; o_ngen : Z;        (* disposed / no_writers generation count *)
  o_srank : Z; o_grank : Z; o_agrank : Z }.

Inductive cres :=
| RVec (l : list osample)               (* Vec<DataSample> *)
| ROpt (s : option osample)             (* Option<DataSample> *)
| RBare (l : list (Z * option Z))       (* iterator over Sample<D,K>: (key, value) *)
| RPanic.
Definition obs := list cres.

(* ---------------------------------------------------------------------------------------- *)
(* BTreeMap / BTreeSet operations on ascending lists *)
Fixpoint find_inst (l : list inst) (k : Z) : option inst :=
  match l with
  | [] => None
  | i :: r => if i_key i =? k then Some i else find_inst r k
  end.
Fixpoint put_inst (l : list inst) (n : inst) : list inst :=
  match l with
  | [] => [n]
  | i :: r => if i_key i =? i_key n then n :: r
              else if i_key n <? i_key i then n :: i :: r else i :: put_inst r n
  end.
Fixpoint ins_ts (l : list Z) (t : Z) : list Z :=
  match l with
  | [] => [t]
  | x :: r => if x =? t then l else if t <? x then t :: l else x :: ins_ts r t
  end.
Fixpoint ins_sample (l : list dsample) (d : dsample) : list dsample :=
  match l with
  | [] => [d]
  | x :: r => if d_ts d <? d_ts x then d :: l else x :: ins_sample r d
  end.
Fixpoint takeZ {A} (n : Z) (l : list A) : list A :=
  match l with
  | [] => []
  | x :: r => if n <=? 0 then [] else x :: takeZ (n - 1) r
  end.
Definition memZ (x : Z) (l : list Z) : bool := existsb (Z.eqb x) l.
Definition find_sample (l : list dsample) (t : Z) : option dsample :=
  find (fun d => d_ts d =? t) l.

(* ---------------------------------------------------------------------------------------- *)
(* add_sample *)
(* ul = false: the code before the second repair took max_samples_per_instance as it is, also the
   negative LENGTH_UNLIMITED; ul = true: a negative value is no limit *)
Definition keep_limit (ul : bool) (q : qos) : option Z :=
  match q_hist q with
  | HKeepAll =>                        (* sample_keep_history_limit.or(sample_keep_resource_limit) *)
      match q_rl q with
      | Some m => if ul && (m <? 0) then None else Some m
      | None => None
      end
  | HKeepLast d => Some d
  | HNone => Some 1                    (* default history policy *)
  end.

Definition add_sample (ul : bool) (q : qos) (c : cache) (ts w sn key : Z) (val : option Z) : cache :=
  let new_state := match val with Some _ => Alive | None => Disposed end in
  (* find or create metadata record *)
  let imd := match find_inst (insts c) key with
             | Some i => i
             | None => mkI key [] new_state 0 (-2)
             end in
  let isamples := ins_ts (i_samples imd) ts in
  let gen := match i_state imd, new_state with
             | Alive, _ => i_gen imd
             | Disposed, Alive => i_gen imd + 1      (* born again *)
             | Disposed, Disposed => i_gen imd
             end in
  let dss := ins_sample (samples c) (mkD ts key val w sn gen false) in
  (* garbage collect *)
  match keep_limit ul q with
  | Some keep =>
      let remove_count := Z.of_nat (length isamples) - keep in
      if 0 <? remove_count then
        let gone := takeZ remove_count isamples in
        mkCache (filter (fun d => negb (memZ (d_ts d) gone)) dss)
                (put_inst (insts c)
                          (mkI key (filter (fun t => negb (memZ t gone)) isamples) new_state gen (i_acc imd)))
      else mkCache dss (put_inst (insts c) (mkI key isamples new_state gen (i_acc imd)))
  | None => mkCache dss (put_inst (insts c) (mkI key isamples new_state gen (i_acc imd)))
  end.

(* ---------------------------------------------------------------------------------------- *)
(* selection *)
Definition selector (rc : cond) (d : dsample) : bool :=
  match rc with CAny => true | CNotRead => negb (d_read d) end.

Fixpoint ins_sn (x : dsample) (l : list dsample) : list dsample :=
  match l with
  | [] => [x]
  | y :: r => if d_sn x <=? d_sn y then x :: y :: r else y :: ins_sn x r
  end.
(* sort_by_cached_key is stable *)
Definition sort_sn (l : list dsample) : list dsample := fold_right ins_sn [] l.

Definition select_keys (c : cache) (rc : cond) : list dsample :=
  sort_sn (filter (selector rc) (samples c)).

Definition select_instance_keys (c : cache) (key : Z) (rc : cond) : list dsample :=
  match find_inst (insts c) key with
  | None => []
  | Some imd =>
      sort_sn (flat_map (fun t => match find_sample (samples c) t with
                                  | Some d => if selector rc d then [d] else []
                                  | None => []
                                  end) (i_samples imd))
  end.

(* ---------------------------------------------------------------------------------------- *)
(* read_by_keys / take_by_keys *)
Definition last_gen (l : list dsample) : Z :=
  match rev l with d :: _ => d_gen d | [] => 0 end.

Definition acc_of (c : cache) (key : Z) : Z :=
  match find_inst (insts c) key with Some i => i_acc i | None => -2 end.
Definition state_of (c : cache) (key : Z) : istate :=
  match find_inst (insts c) key with Some i => i_state i | None => Alive end.
Definition gen_of (c : cache) (key : Z) : Z :=
  match find_inst (insts c) key with Some i => i_gen i | None => 0 end.

(* make_sample_info *)
Definition info (c : cache) (d : dsample) (rank mrs mrsic : Z) : osample :=
  mkO (d_ts d) (d_w d) (d_sn d) (d_key d) (d_val d) (d_read d)
      (acc_of c (d_key d) <? d_gen d)
      (match state_of c (d_key d) with Alive => true | Disposed => false end)
      (d_gen d) 0 rank (mrsic - d_gen d) (mrs - d_gen d).

Fixpoint infos (c : cache) (keys : list dsample) (len idx mrs mrsic : Z) : list osample :=
  match keys with
  | [] => []
  | d :: r => info c d (len - idx - 1) mrs mrsic :: infos c r len (idx + 1) mrs mrsic
  end.

(* record_instance_generation_viewed over all keys: highest generation touched per instance *)
Definition touched_gen (keys : list dsample) (key : Z) : option Z :=
  fold_left (fun acc d => if d_key d =? key
                          then match acc with
                               | None => Some (d_gen d)
                               | Some g => if g <? d_gen d then Some (d_gen d) else Some g
                               end
                          else acc) keys None.

(* mark_instances_viewed.  fixed = false: `imd.last_generation_accessed = *gen` (pre-repair);
   fixed = true: never lowered *)
Definition mark_viewed (fixed : bool) (keys : list dsample) (l : list inst) : list inst :=
  map (fun i => match touched_gen keys (i_key i) with
                | None => i
                | Some g => mkI (i_key i) (i_samples i) (i_state i) (i_gen i)
                                (if fixed then Z.max (i_acc i) g else g)
                end) l.

Definition in_keys (keys : list dsample) (d : dsample) : bool :=
  existsb (fun k => d_ts k =? d_ts d) keys.

Definition access (fixed take : bool) (c : cache) (keys : list dsample) : cache * list osample :=
  match keys with
  | [] => (c, [])
  | _ =>
      let len := Z.of_nat (length keys) in
      let mrsic := gen_of c (d_key (last keys (mkD 0 0 None 0 0 0 false))) in
      let mrs := last_gen (samples c) in
      let res := infos c keys len 0 mrs mrsic in
      let dss := if take then filter (fun d => negb (in_keys keys d)) (samples c)
                 else map (fun d => if in_keys keys d
                                    then mkD (d_ts d) (d_key d) (d_val d) (d_w d) (d_sn d) (d_gen d) true
                                    else d) (samples c) in
      (mkCache dss (mark_viewed fixed keys (insts c)), res)
  end.

(* ---------------------------------------------------------------------------------------- *)
(* DataReader *)
Record state := mkSt {
  st_cache : cache;
  st_pending : list (Z * Z * Z * Z * option Z);  (* topic cache, not yet handed to add_sample *)
  st_next : Z }.
Definition init : state := mkSt (mkCache [] []) [] 1.

Definition fill (ul : bool) (q : qos) (st : state) : state :=
  mkSt (fold_left (fun c p => match p with (ts, w, sn, key, val) => add_sample ul q c ts w sn key val end)
                  (st_pending st) (st_cache st)) [] (st_next st).

Definition usize_max : Z := 18446744073709551615.

(* infer_key *)
Definition infer_key (c : cache) (key : option Z) (s : sel) : option Z :=
  match key with
  | Some k => match s with
              | This => Some k
              | Next => option_map i_key (find (fun i => k <? i_key i) (insts c))
              end
  | None => option_map i_key (hd_error (insts c))
  end.

Definition bare (l : list osample) : list (Z * option Z) := map (fun o => (o_key o, o_val o)) l.

(* one call: new state, the samples accessed (ghost: bare forms hide their SampleInfo), result *)
Definition call_g (fixed ul : bool) (q : qos) (f : form) (st0 : state)
  : state * list osample * cres :=
  let st := fill ul q st0 in
  let c := st_cache st in
  let fin (p : cache * list osample) (k : list osample -> cres) : state * list osample * cres :=
      (mkSt (fst p) [] (st_next st), snd p, k (snd p)) in
  match f with
  | FRead max rc => fin (access fixed false c (takeZ max (select_keys c rc))) RVec
  | FTake max rc => fin (access fixed true c (takeZ max (select_keys c rc))) RVec
  | FReadNext => fin (access fixed false c (takeZ 1 (select_keys c CNotRead)))
                     (fun l => ROpt (hd_error (rev l)))
  | FTakeNext => fin (access fixed true c (takeZ 1 (select_keys c CNotRead)))
                     (fun l => ROpt (hd_error (rev l)))
  | FIter => fin (access fixed false c (takeZ usize_max (select_keys c CNotRead))) (fun l => RBare (bare l))
  | FIntoIter => fin (access fixed true c (takeZ usize_max (select_keys c CNotRead))) (fun l => RBare (bare l))
  | FCondIter rc => fin (access fixed false c (takeZ usize_max (select_keys c rc))) (fun l => RBare (bare l))
  | FIntoCondIter rc => fin (access fixed true c (takeZ usize_max (select_keys c rc))) (fun l => RBare (bare l))
  | FReadInst max rc key s =>
      match infer_key c key s with
      | None => fin (access fixed false c []) RVec
      | Some k => fin (access fixed false c (takeZ max (select_instance_keys c k rc))) RVec
      end
  | FTakeInst max rc key s =>
      match infer_key c key s with
      | None => fin (access fixed true c []) RVec
      | Some k => fin (access fixed true c (takeZ max (select_instance_keys c k rc))) RVec
      end
  end.
Definition call (fixed ul : bool) (q : qos) (f : form) (st0 : state) : state * cres :=
  (fst (fst (call_g fixed ul q f st0)), snd (call_g fixed ul q f st0)).

Definition strip (o : osample) : osample :=
  mkO 0 (o_w o) (o_sn o) (o_key o) (o_val o) (o_read o) (o_new o) (o_alive o) (o_dgen o) (o_ngen o)
      (o_srank o) (o_grank o) (o_agrank o).
Definition strip_res (r : cres) : cres :=
  match r with
  | RVec l => RVec (map strip l)
  | ROpt s => ROpt (option_map strip s)
  | r => r
  end.

Fixpoint run_ops (fixed ul : bool) (q : qos) (st : state) (l : list op) : obs :=
  match l with
  | [] => []
  | OAdd w sn key val :: r =>
      run_ops fixed ul q (mkSt (st_cache st) (st_pending st ++ [(st_next st, w, sn, key, val)])
                               (st_next st + 1)) r
  | OCall f :: r =>
      let (st', res) := call fixed ul q f st in strip_res res :: run_ops fixed ul q st' r
  end.

Definition run_gen (fixed ul : bool) (c : case) : obs := run_ops fixed ul (c_qos c) init (ops c).
Definition run : case -> obs := run_gen true true.
Definition run_old : case -> obs := run_gen false false.    (* before the two repairs *)

(* ---------------------------------------------------------------------------------------- *)
Definition oZ_eqb := option_eqb Z.eqb.
Definition osample_eqb (a b : osample) : bool :=
  (o_ts a =? o_ts b) && (o_w a =? o_w b) && (o_sn a =? o_sn b) && (o_key a =? o_key b)
  && oZ_eqb (o_val a) (o_val b) && Bool.eqb (o_read a) (o_read b) && Bool.eqb (o_new a) (o_new b)
  && Bool.eqb (o_alive a) (o_alive b) && (o_dgen a =? o_dgen b) && (o_ngen a =? o_ngen b)
  && (o_srank a =? o_srank b) && (o_grank a =? o_grank b) && (o_agrank a =? o_agrank b).
Definition cres_eqb (a b : cres) : bool :=
  match a, b with
  | RVec l, RVec m => list_eqb osample_eqb l m
  | ROpt s, ROpt t => option_eqb osample_eqb s t
  | RBare l, RBare m => list_eqb (pair_eqb Z.eqb oZ_eqb) l m
  | RPanic, RPanic => true
  | _, _ => false
  end.
Definition obs_eqb : obs -> obs -> bool := list_eqb cres_eqb.

(* ---------------------------------------------------------------------------------------- *)
(* Property oracle: DDS 1.4 section 2.2.2.5.1 replayed over the case (inputs) and judged against
   the outputs only.  It never looks at a DataSampleCache.

   Per instance the specification keeps: alive?, generation (number of NOT_ALIVE_DISPOSED -> ALIVE
   transitions), the highest generation any read/take has accessed; per arrival its generation
   snapshot; globally which samples were taken and which were read. *)

Record arrival := mkA { a_w : Z; a_sn : Z; a_key : Z; a_val : option Z; a_gen : Z }.
Record spec := mkSpec {
  sp_arr : list arrival;                 (* newest first *)
  sp_inst : list (Z * (bool * Z));       (* key -> (alive, generation) *)
  sp_acc : list (Z * Z);                 (* key -> highest generation accessed *)
  sp_taken : list (Z * Z);
  sp_read : list (Z * Z);
  sp_fuzzy : list Z }.                   (* instances of which a bare form handed out a dispose *)
Definition spec0 : spec := mkSpec [] [] [] [] [] [].

Fixpoint alook {V} (m : list (Z * V)) (k : Z) : option V :=
  match m with
  | [] => None
  | (k', v) :: r => if k' =? k then Some v else alook r k
  end.
Definition has_id (w sn : Z) (l : list (Z * Z)) : bool :=
  existsb (fun p => (fst p =? w) && (snd p =? sn)) l.

Definition spec_add (s : spec) (w sn key : Z) (val : option Z) : spec :=
  let isval := match val with Some _ => true | None => false end in
  let g := match alook (sp_inst s) key with
           | None => 0
           | Some (alive, g) => if negb alive && isval then g + 1 else g
           end in
  mkSpec (mkA w sn key val g :: sp_arr s) ((key, (isval, g)) :: sp_inst s) (sp_acc s) (sp_taken s)
         (sp_read s) (sp_fuzzy s).

Definition find_arr (s : spec) (w sn : Z) : option arrival :=
  find (fun a => (a_w a =? w) && (a_sn a =? sn)) (sp_arr s).

(* the `keep` most recent arrivals of an instance *)
Definition recent (s : spec) (key keep : Z) : list arrival :=
  takeZ keep (filter (fun a => a_key a =? key) (sp_arr s)).

(* one handed-out sample against the specification state before the call *)
Definition ok_sample (keep : option Z) (s : spec) (o : osample) : bool :=
  match find_arr s (o_w o) (o_sn o) with
  | None => false                                            (* never arrived *)
  | Some a =>
      (a_key a =? o_key o) && oZ_eqb (a_val a) (o_val o)
      && negb (has_id (o_w o) (o_sn o) (sp_taken s))         (* taken samples are gone *)
      && (o_dgen o =? a_gen a) && (o_ngen o =? 0)            (* generation snapshot *)
      && (match alook (sp_inst s) (o_key o) with             (* instance state *)
          | Some (alive, _) => Bool.eqb (o_alive o) alive
          | None => false
          end)
      && (memZ (o_key o) (sp_fuzzy s)
          || (Bool.eqb (o_read o) (has_id (o_w o) (o_sn o) (sp_read s))       (* sample state *)
              && Bool.eqb (o_new o)                                            (* view state *)
                          (match alook (sp_acc s) (o_key o) with
                           | Some g => g <? o_dgen o
                           | None => true
                           end)))
      && (match keep with                                    (* History depth *)
          | Some k => if 1 <=? k
                      then existsb (fun b => (a_w b =? o_w o) && (a_sn b =? o_sn o)) (recent s (o_key o) k)
                      else true
          | None => true
          end)
  end.

(* samples of one writer appear in sequence-number order *)
Fixpoint writer_ordered (l : list osample) : bool :=
  match l with
  | [] => true
  | x :: r => forallb (fun y => negb (o_w y =? o_w x) || (o_sn x <? o_sn y)) r && writer_ordered r
  end.
Fixpoint nodup_ids (l : list osample) : bool :=
  match l with
  | [] => true
  | x :: r => negb (existsb (fun y => (o_w y =? o_w x) && (o_sn y =? o_sn x)) r) && nodup_ids r
  end.

Definition spec_access (take : bool) (s : spec) (l : list osample) : spec :=
  let ids := map (fun o => (o_w o, o_sn o)) l in
  mkSpec (sp_arr s) (sp_inst s)
         (fold_left (fun acc o => match alook acc (o_key o) with
                                  | Some g => if g <? o_dgen o then (o_key o, o_dgen o) :: acc else acc
                                  | None => (o_key o, o_dgen o) :: acc
                                  end) l (sp_acc s))
         (if take then ids ++ sp_taken s else sp_taken s)
         (if take then sp_read s else ids ++ sp_read s)
         (sp_fuzzy s).

(* which samples the specification considers matching and surely available (no eviction possible):
   only used for exactness when nothing can be evicted *)
Definition spec_matching (s : spec) (rc : cond) (only_key : option Z) : list arrival :=
  filter (fun a => negb (has_id (a_w a) (a_sn a) (sp_taken s))
                   && (match rc with CAny => true | CNotRead => negb (has_id (a_w a) (a_sn a) (sp_read s)) end)
                   && (match only_key with Some k => a_key a =? k | None => true end)) (sp_arr s).

Definition known_keys (s : spec) : list Z := map fst (sp_inst s).
Definition min_key_above (s : spec) (lo : option Z) : option Z :=
  fold_left (fun best k => if match lo with Some l => l <? k | None => true end
                           then match best with Some b => if k <? b then Some k else Some b | None => Some k end
                           else best) (known_keys s) None.
Definition spec_infer (s : spec) (key : option Z) (sl : sel) : option Z :=
  match key, sl with
  | Some k, This => Some k
  | Some k, Next => min_key_above s (Some k)
  | None, _ => min_key_above s None
  end.

Definition fuzzy_free (s : spec) (only_key : option Z) : bool :=
  match only_key with
  | Some k => negb (memZ k (sp_fuzzy s))
  | None => match sp_fuzzy s with [] => true | _ => false end
  end.

(* a Vec<DataSample> result *)
Definition ok_vec (keep : option Z) (s : spec) (max : Z) (rc : cond) (only_key : option Z)
           (l : list osample) : bool :=
  forallb (ok_sample keep s) l && writer_ordered l && nodup_ids l
  && (Z.of_nat (length l) <=? Z.max max 0)
  && forallb (fun o => match rc with CAny => true | CNotRead => memZ (o_key o) (sp_fuzzy s) || negb (o_read o) end) l
  && forallb (fun o => match only_key with Some k => o_key o =? k | None => true end) l
  (* exactness: with an unlimited history nothing is evicted, so exactly the matching samples
     (up to max) must come back *)
  && (match keep with
      | None => negb (fuzzy_free s only_key)
                || (Z.of_nat (length l) =? Z.min (Z.max max 0) (Z.of_nat (length (spec_matching s rc only_key))))
      | Some _ => true
      end).

(* bare results carry no identity for disposes: values are checked through their value
   (w*100+sn), disposes make their instance fuzzy for the checks that need the identity *)
Definition bare_value_id (v : Z) : Z * Z := (v / 100, v mod 100).
Definition ok_bare (s : spec) (l : list (Z * option Z)) : bool :=
  forallb (fun p => match snd p with
                    | Some v => match find_arr s (fst (bare_value_id v)) (snd (bare_value_id v)) with
                                | Some a => (a_key a =? fst p) && oZ_eqb (a_val a) (Some v)
                                            && negb (has_id (a_w a) (a_sn a) (sp_taken s))
                                | None => false
                                end
                    | None => existsb (fun a => (a_key a =? fst p)
                                                && match a_val a with None => true | Some _ => false end) (sp_arr s)
                    end) l.
Definition spec_bare (take : bool) (s : spec) (l : list (Z * option Z)) : spec :=
  let vals := flat_map (fun p => match snd p with
                                 | Some v => match find_arr s (fst (bare_value_id v)) (snd (bare_value_id v)) with
                                             | Some a => [mkO 0 (a_w a) (a_sn a) (a_key a) (a_val a) false false false (a_gen a) 0 0 0 0]
                                             | None => []
                                             end
                                 | None => []
                                 end) l in
  let s' := spec_access take s vals in
  mkSpec (sp_arr s') (sp_inst s') (sp_acc s') (sp_taken s') (sp_read s')
         (flat_map (fun p => match snd p with None => [fst p] | Some _ => [] end) l ++ sp_fuzzy s').

Fixpoint ok_walk (keep : option Z) (l : list op) (o : obs) (s : spec) : bool :=
  match l with
  | [] => match o with [] => true | _ => false end
  | OAdd w sn key val :: r => ok_walk keep r o (spec_add s w sn key val)
  | OCall f :: r =>
      match o with
      | [] => false
      | res :: o' =>
          match f, res with
          | FRead max rc, RVec v => ok_vec keep s max rc None v && ok_walk keep r o' (spec_access false s v)
          | FTake max rc, RVec v => ok_vec keep s max rc None v && ok_walk keep r o' (spec_access true s v)
          | FReadNext, ROpt x =>
              let v := match x with Some y => [y] | None => [] end in
              ok_vec keep s 1 CNotRead None v && ok_walk keep r o' (spec_access false s v)
          | FTakeNext, ROpt x =>
              let v := match x with Some y => [y] | None => [] end in
              ok_vec keep s 1 CNotRead None v && ok_walk keep r o' (spec_access true s v)
          | FReadInst max rc key sl, RVec v =>
              match spec_infer s key sl with
              | None => match v with [] => ok_walk keep r o' s | _ => false end
              | Some k => ok_vec keep s max rc (Some k) v && ok_walk keep r o' (spec_access false s v)
              end
          | FTakeInst max rc key sl, RVec v =>
              match spec_infer s key sl with
              | None => match v with [] => ok_walk keep r o' s | _ => false end
              | Some k => ok_vec keep s max rc (Some k) v && ok_walk keep r o' (spec_access true s v)
              end
          | FIter, RBare b | FCondIter _, RBare b => ok_bare s b && ok_walk keep r o' (spec_bare false s b)
          | FIntoIter, RBare b | FIntoCondIter _, RBare b => ok_bare s b && ok_walk keep r o' (spec_bare true s b)
          | _, _ => false
          end
      end
  end.

(* the depth the History / ResourceLimits QoS asks for (None = unlimited).  A negative
   max_samples_per_instance (LENGTH_UNLIMITED = -1) is not a depth. *)
Definition spec_keep (q : qos) : option Z :=
  match q_hist q with
  | HKeepLast d => Some d
  | HNone => Some 1
  | HKeepAll => match q_rl q with Some m => if m <? 0 then None else Some m | None => None end
  end.

Definition ok (c : case) (o : obs) : bool := ok_walk (spec_keep (c_qos c)) (ops c) o spec0.
