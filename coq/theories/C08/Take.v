(* C08 — take returns a sample at most once and removes it; read keeps and marks; exactness of the
   selection; the two pre-repair refutations. *)
From Coq Require Import List ZArith Bool Lia ZifyBool Arith Sorting.Permutation Sorting.Sorted.
From RD Require Import Common.Corr C08.Model C08.Sel C08.Gen C08.Hist.
Import ListNotations.
Open Scope Z_scope.

(* ---------------------------------------------------------------------------------------- *)
(* one call, any state *)
Section OneCall.
  Variables (fixed ul : bool) (q : qos) (f : form) (st : state).
  Let c := st_cache (fill ul q st).
  Let keys := keys_of c f.
  Let st' := fst (fst (call_g fixed ul q f st)).
  Let acc := snd (fst (call_g fixed ul q f st)).

  Lemma call_acc_ts : map o_ts acc = map d_ts keys.
  Proof. unfold acc. rewrite call_g_shape. cbn [fst snd]. apply access_res_ts. Qed.

  Lemma call_cache : st_cache st' = fst (access fixed (taking f) c keys).
  Proof. unfold st'. rewrite call_g_shape. reflexivity. Qed.

  (* take: every handed-out sample is gone afterwards, everything else stays as it was *)
  Lemma call_take_removes :
    taking f = true ->
    samples (st_cache st') = filter (fun d => negb (memZ (d_ts d) (map o_ts acc))) (samples c).
  Proof.
    intro T. rewrite call_cache, T, access_take_samples, call_acc_ts.
    apply filter_ext. intro d. f_equal. unfold in_keys, memZ.
    induction keys as [|k r IH]; cbn; [reflexivity|]. rewrite IH. f_equal. lia.
  Qed.

  (* read: nothing is removed; exactly the handed-out samples become Read, the reported sample
     state is the one before the call *)
  Lemma call_read_keeps :
    taking f = false ->
    samples (st_cache st')
    = map (fun d => if memZ (d_ts d) (map o_ts acc)
                    then mkD (d_ts d) (d_key d) (d_val d) (d_w d) (d_sn d) (d_gen d) true else d) (samples c).
  Proof.
    intro T. rewrite call_cache, T, access_read_samples, call_acc_ts.
    apply map_ext. intro d. replace (in_keys keys d) with (memZ (d_ts d) (map d_ts keys)); [reflexivity|].
    unfold in_keys, memZ. induction keys as [|k r IH]; cbn; [reflexivity|]. rewrite IH. f_equal. lia.
  Qed.

  Lemma call_reports_state o :
    In o acc -> exists d, In d keys /\ In d (samples c) /\ o_ts o = d_ts d /\ o_read o = d_read d
                          /\ o_w o = d_w d /\ o_sn o = d_sn d /\ o_key o = d_key d /\ o_val o = d_val d.
  Proof.
    unfold acc. rewrite call_g_shape. cbn [fst snd]. intro H.
    apply access_res_in in H as (d & rank & mrs & mrsic & Hd & ->).
    exists d. split; [exact Hd|]. split; [eapply keys_of_incl; exact Hd|]. cbn. repeat split; reflexivity.
  Qed.
End OneCall.

(* read/take(max, cond): exactly the samples the condition selects, in sequence-number order
   (stable), truncated to max_samples *)
Lemma condition_exact fixed ul q st max rc (take : bool) :
  let c := st_cache (fill ul q st) in
  let f := if take then FTake max rc else FRead max rc in
  let acc := snd (fst (call_g fixed ul q f st)) in
  map o_ts acc = map d_ts (takeZ max (select_keys c rc))
  /\ Permutation (select_keys c rc) (filter (selector rc) (samples c))
  /\ StronglySorted sn_le (select_keys c rc)
  /\ Z.of_nat (length acc) = Z.min (Z.max max 0) (Z.of_nat (length (filter (selector rc) (samples c))))
  /\ (rc = CNotRead -> forall o, In o acc -> o_read o = false).
Proof.
  cbn zeta. set (c := st_cache (fill ul q st)).
  set (f := if take then FTake max rc else FRead max rc).
  assert (K : keys_of c f = takeZ max (select_keys c rc)) by (unfold f; destruct take; reflexivity).
  pose proof (call_acc_ts fixed ul q f st) as T. fold c in T. rewrite K in T.
  split; [exact T|split; [apply select_keys_perm|split; [apply select_keys_sorted|split]]].
  - rewrite <- (map_length o_ts), T, map_length, takeZ_length.
    rewrite (Permutation_length (select_keys_perm c rc)). reflexivity.
  - intros -> o Ho. destruct (call_reports_state fixed ul q f st o Ho) as (d & Hd & _ & _ & R & _).
    fold c in Hd. rewrite K in Hd. apply In_takeZ, select_keys_in in Hd as [_ S].
    rewrite R. cbn in S. destruct (d_read d); [discriminate|reflexivity].
Qed.

(* ---------------------------------------------------------------------------------------- *)
(* globally: what a take handed out never comes back *)

Definition ts_of_pending (st : state) : list Z := map e_ts (st_pending st).

Definition inv_t (T : list Z) (st : state) : Prop :=
  (forall t, In t T -> ~ In t (map d_ts (samples (st_cache st))))
  /\ (forall t, In t T -> ~ In t (ts_of_pending st))
  /\ (forall t, In t (ts_of_pending st) -> t < st_next st)
  /\ (forall t, In t T -> t < st_next st)
  /\ (forall t, In t (map d_ts (samples (st_cache st))) -> t < st_next st).

Lemma fill_samples_ts ul q : forall p c t,
  In t (map d_ts (samples (fold_left (fun c e => match e with (ts, w, sn, key, val) => add_sample ul q c ts w sn key val end) p c))) ->
  In t (map d_ts (samples c)) \/ In t (map e_ts p).
Proof.
  induction p as [|e p IH]; intros c t H; cbn [fold_left] in H; [left; exact H|].
  destruct e as [[[[ts w] sn] key] val]. apply IH in H as [H|H]; [|right; right; exact H].
  apply in_map_iff in H as (d & <- & Hd).
  apply add_sample_samples in Hd as [(g & -> & _)|Hd]; [right; left; reflexivity|left; apply in_map; exact Hd].
Qed.

Lemma access_samples_ts fixed take c keys t :
  In t (map d_ts (samples (fst (access fixed take c keys)))) -> In t (map d_ts (samples c)).
Proof.
  destruct take.
  - rewrite access_take_samples. intro H. apply in_map_iff in H as (d & <- & Hd).
    apply filter_In in Hd as [Hd _]. apply in_map; exact Hd.
  - rewrite access_read_samples. rewrite map_map. intro H. apply in_map_iff in H as (d & <- & Hd).
    destruct (in_keys keys d); cbn [d_ts]; apply (in_map d_ts); exact Hd.
Qed.

Definition taken_ts (f : form) (acc : list osample) : list Z :=
  if taking f then map o_ts acc else [].

Lemma inv_t_call fixed ul q f st T :
  inv_t T st ->
  let acc := snd (fst (call_g fixed ul q f st)) in
  (forall o, In o acc -> ~ In (o_ts o) T)
  /\ inv_t (taken_ts f acc ++ T) (fst (fst (call_g fixed ul q f st))).
Proof.
  intros (P1 & P2 & P3 & P4 & P5). cbn zeta.
  set (c := st_cache (fill ul q st)).
  assert (C : forall t, In t (map d_ts (samples c)) ->
                        In t (map d_ts (samples (st_cache st))) \/ In t (ts_of_pending st)).
  { intros t H. unfold c in H. cbn [fill st_cache] in H. apply fill_samples_ts in H. exact H. }
  assert (NT : forall t, In t (map d_ts (samples c)) -> ~ In t T).
  { intros t H HT. destruct (C t H) as [H1|H2]; [eapply P1|eapply P2]; eauto. }
  assert (LT : forall t, In t (map d_ts (samples c)) -> t < st_next st).
  { intros t H. destruct (C t H) as [H1|H2]; auto. }
  pose proof (call_acc_ts fixed ul q f st) as TS. fold c in TS.
  assert (AIN : forall o, In o (snd (fst (call_g fixed ul q f st))) -> In (o_ts o) (map d_ts (samples c))).
  { intros o Ho. destruct (call_reports_state fixed ul q f st o Ho) as (d & _ & Hd & E & _).
    rewrite E. apply in_map. exact Hd. }
  split; [intros o Ho; apply NT, AIN, Ho|].
  rewrite call_g_shape. cbn [fst snd]. unfold inv_t, ts_of_pending. cbn [st_pending st_next map].
  rewrite st_cache_mk. fold c.
  split; [|split; [intros t _ []|split; [intros t []|split]]].
  - intros t Ht Hin. apply in_app_or in Ht as [Ht|Ht].
    + unfold taken_ts in Ht. destruct (taking f) eqn:TK; [|destruct Ht].
      try rewrite TK in Hin.
      rewrite access_take_samples in Hin. apply in_map_iff in Hin as (d & E & Hd).
      apply filter_In in Hd as [_ Hd]. rewrite negb_true_iff in Hd.
      assert (in_keys (keys_of c f) d = true); [|congruence].
      apply in_keys_spec. rewrite E.
      try rewrite TK in Ht. rewrite access_res_ts in Ht. exact Ht.
    + apply access_samples_ts in Hin. eapply NT; eauto.
  - intros t Ht. apply in_app_or in Ht as [Ht|Ht]; [|auto].
    unfold taken_ts in Ht. destruct (taking f) eqn:TK; [|destruct Ht].
    apply in_map_iff in Ht as (o & <- & Ho). apply LT.
    try rewrite TK in Ho. apply access_res_in in Ho as (d & rank & mrs & mrsic & Hd & ->).
    cbn [info o_ts]. apply in_map. eapply keys_of_incl; exact Hd.
  - intros t Ht. apply access_samples_ts in Ht. auto.
Qed.

Lemma inv_t_add T st w sn key val :
  inv_t T st ->
  inv_t T (mkSt (st_cache st) (st_pending st ++ [(st_next st, w, sn, key, val)]) (st_next st + 1)).
Proof.
  intros (P1 & P2 & P3 & P4 & P5). unfold inv_t, ts_of_pending. cbn [st_cache st_pending st_next].
  rewrite map_app. cbn [map].
  change (e_ts (st_next st, w, sn, key, val)) with (st_next st).
  split; [exact P1|split; [|split; [|split]]].
  - intros t Ht Hin. apply in_app_or in Hin as [Hin|[Hin|[]]]; [eapply P2; eauto|].
    specialize (P4 _ Ht). lia.
  - intros t Hin. apply in_app_or in Hin as [Hin|[Hin|[]]]; [specialize (P3 _ Hin)|]; lia.
  - intros t Ht. specialize (P4 _ Ht). lia.
  - intros t Ht. specialize (P5 _ Ht). lia.
Qed.

(* all samples taken by the calls of an execution, oldest call first *)
Lemma exec_take_once fixed ul q : forall l st h prev T,
  inv_t T st ->
  forall h' prev' f acc, In (h', prev', f, acc) (exec fixed ul q st h prev l) ->
  forall o, In o acc -> ~ In (o_ts o) T.
Proof.
  induction l as [|o l IH]; intros st h prev T I h' prev' f acc H; [destruct H|].
  destruct o as [w sn key val|f0]; cbn [exec] in H.
  - eapply IH; [apply inv_t_add; exact I|exact H].
  - destruct (inv_t_call fixed ul q f0 st T I) as (N & I').
    destruct H as [H|H].
    + inversion H; subst. exact N.
    + intros o Ho HT. eapply (IH _ _ _ _ I' _ _ _ _ H o Ho). apply in_or_app; right; exact HT.
Qed.

(* two calls of one execution: what the earlier one took is not handed out by the later one *)
Lemma exec_split fixed ul q : forall l st h prev e1 e2 pre mid post,
  exec fixed ul q st h prev l = pre ++ e1 :: mid ++ e2 :: post ->
  forall T, inv_t T st ->
  forall o1 o2, In o1 (snd e1) -> In o2 (snd e2) -> taking (snd (fst e1)) = true -> o_ts o1 <> o_ts o2.
Proof.
  induction l as [|o l IH]; intros st h prev e1 e2 pre mid post E T I o1 o2 H1 H2 TK.
  - destruct pre; discriminate.
  - destruct o as [w sn key val|f0]; cbn [exec] in E.
    + eapply IH; eauto. apply inv_t_add; exact I.
    + destruct (inv_t_call fixed ul q f0 st T I) as (N & I').
      destruct pre as [|p0 pre'].
      * cbn in E. inversion E as [[E1 E2]]. subst e1. cbn [snd fst] in *.
        assert (Hin : In e2 (exec fixed ul q (fst (fst (call_g fixed ul q f0 st))) (h ++ st_pending st)
                                  (prev ++ snd (fst (call_g fixed ul q f0 st))) l)).
        { rewrite E2. apply in_or_app; right; left; reflexivity. }
        destruct e2 as [[[h2 p2] f2] a2]. cbn [snd] in H2.
        pose proof (exec_take_once fixed ul q l _ _ _ _ I' _ _ _ _ Hin o2 H2) as NN.
        intro Eq. apply NN. apply in_or_app; left. unfold taken_ts. rewrite TK.
        rewrite <- Eq. apply in_map. exact H1.
      * cbn in E. inversion E as [[E1 E2]]. eapply IH; eauto.
Qed.

Lemma inv_t_init : inv_t [] init.
Proof. repeat split; intros t []. Qed.

(* ---------------------------------------------------------------------------------------- *)
(* the two defects, on the code as it was *)
Definition f4_case : case :=
  mkCase (mkQos HKeepAll None)
         [OAdd 1 1 1 (Some 101); OAdd 1 2 1 None; OAdd 1 3 1 (Some 103);
          OCall (FRead usize_max CAny); OCall (FRead 1 CAny); OCall (FRead usize_max CAny)].
Lemma f4_refuted : ok f4_case (run_gen false true f4_case) = false /\ ok f4_case (run f4_case) = true.
Proof. vm_compute. auto. Qed.

Definition unlimited_case : case :=
  mkCase (mkQos HKeepAll (Some (-1)))
         [OAdd 1 1 1 (Some 101); OAdd 1 2 1 (Some 102); OCall (FRead usize_max CAny)].
Lemma unlimited_refuted :
  run_gen true false unlimited_case = [RVec []]
  /\ ok unlimited_case (run_gen true false unlimited_case) = false
  /\ ok unlimited_case (run unlimited_case) = true.
Proof. vm_compute. auto. Qed.

Lemma take_once : forall fixed ul q l e1 e2 pre mid post,
  exec fixed ul q init [] [] l = pre ++ e1 :: mid ++ e2 :: post ->
  forall o1 o2, In o1 (snd e1) -> In o2 (snd e2) -> taking (snd (fst e1)) = true -> o_ts o1 <> o_ts o2.
Proof. intros; eapply exec_split; eauto using inv_t_init. Qed.
