(* C08 — whole histories: every call of every run, judged against the per-instance automaton. *)
From Coq Require Import List ZArith Bool Lia ZifyBool Arith Sorting.Permutation Sorting.Sorted.
From RD Require Import Common.Corr C08.Model C08.Sel C08.Gen.
Import ListNotations.
Open Scope Z_scope.

(* how a form presents the accessed samples *)
Definition present (f : form) (acc : list osample) : cres :=
  match f with
  | FRead _ _ | FTake _ _ | FReadInst _ _ _ _ | FTakeInst _ _ _ _ => RVec acc
  | FReadNext | FTakeNext => ROpt (hd_error (rev acc))
  | FIter | FIntoIter | FCondIter _ | FIntoCondIter _ => RBare (bare acc)
  end.
Definition taking (f : form) : bool :=
  match f with
  | FTake _ _ | FTakeNext | FIntoIter | FIntoCondIter _ | FTakeInst _ _ _ _ => true
  | _ => false
  end.

(* the keys a form selects from the (filled) cache *)
Definition keys_of (c : cache) (f : form) : list dsample :=
  match f with
  | FRead max rc | FTake max rc => takeZ max (select_keys c rc)
  | FReadNext | FTakeNext => takeZ 1 (select_keys c CNotRead)
  | FIter | FIntoIter => takeZ usize_max (select_keys c CNotRead)
  | FCondIter rc | FIntoCondIter rc => takeZ usize_max (select_keys c rc)
  | FReadInst max rc key s | FTakeInst max rc key s =>
      match infer_key c key s with
      | None => []
      | Some k => takeZ max (select_instance_keys c k rc)
      end
  end.

Lemma call_g_shape fixed ul q f st :
  let c := st_cache (fill ul q st) in
  call_g fixed ul q f st
  = (mkSt (fst (access fixed (taking f) c (keys_of c f))) [] (st_next st),
     snd (access fixed (taking f) c (keys_of c f)),
     present f (snd (access fixed (taking f) c (keys_of c f)))).
Proof.
  cbn zeta. unfold call_g. destruct f; cbn [taking keys_of present]; try reflexivity;
    destruct (infer_key _ _ _); reflexivity.
Qed.

Lemma keys_of_incl c f d : In d (keys_of c f) -> In d (samples c).
Proof.
  destruct f; cbn [keys_of]; intro H;
    try (apply In_takeZ, select_keys_in in H as [H _]; exact H).
  - destruct (infer_key c key s); [|destruct H]. apply In_takeZ, select_instance_keys_in in H as [H _]; exact H.
  - destruct (infer_key c key s); [|destruct H]. apply In_takeZ, select_instance_keys_in in H as [H _]; exact H.
Qed.

Lemma keys_of_sorted c f : StronglySorted sn_le (keys_of c f).
Proof.
  destruct f; cbn [keys_of]; try (apply takeZ_sorted, select_keys_sorted);
    (destruct (infer_key c key s); [apply takeZ_sorted, select_instance_keys_sorted|constructor]).
Qed.

(* ---------------------------------------------------------------------------------------- *)
(* executions with ghost information: per call the arrivals processed so far, the samples all
   earlier calls accessed, the form, the samples this call accessed *)
Definition entry := (list event * list osample * form * list osample)%type.

Fixpoint exec (fixed ul : bool) (q : qos) (st : state) (h : list event) (prev : list osample)
         (l : list op) : list entry :=
  match l with
  | [] => []
  | OAdd w sn key val :: r =>
      exec fixed ul q (mkSt (st_cache st) (st_pending st ++ [(st_next st, w, sn, key, val)])
                            (st_next st + 1)) h prev r
  | OCall f :: r =>
      let st' := fst (fst (call_g fixed ul q f st)) in
      let acc := snd (fst (call_g fixed ul q f st)) in
      (h ++ st_pending st, prev, f, acc) :: exec fixed ul q st' (h ++ st_pending st) (prev ++ acc) r
  end.

(* what the correspondence check compares is exactly this execution, stripped of the ghosts *)
Lemma run_ops_exec fixed ul q : forall l st h prev,
  run_ops fixed ul q st l
  = map (fun e : entry => strip_res (present (snd (fst e)) (snd e))) (exec fixed ul q st h prev l).
Proof.
  induction l as [|o l IH]; intros st h prev; [reflexivity|].
  destruct o as [w sn key val|f]; cbn [run_ops exec]; [apply IH|].
  unfold call. rewrite call_g_shape. cbn [fst snd map]. f_equal. apply IH.
Qed.

(* ---------------------------------------------------------------------------------------- *)
Definition inv (h : list event) (prev : list osample) (st : state) : Prop :=
  invA h (st_cache st) /\ forall k, acc_of (st_cache st) k = acc_spec prev k.

Lemma inv_init : inv [] [] init.
Proof. split; [apply invA_init|intro; reflexivity]. Qed.

Lemma acc_of_fill ul q k : forall p c,
  acc_of (fold_left (fun c e => match e with (ts, w, sn, key, val) => add_sample ul q c ts w sn key val end) p c) k
  = acc_of c k.
Proof.
  induction p as [|e p IH]; intro c; cbn [fold_left]; [reflexivity|].
  destruct e as [[[[ts w] sn] key] val]. rewrite IH. apply acc_of_add.
Qed.

Lemma invA_has_inst h c d : invA h c -> In d (samples c) -> find_inst (insts c) (d_key d) <> None.
Proof.
  intros (A1 & A2) Hd. destruct (A2 d Hd) as (h1 & h2 & s & E & A).
  specialize (A1 (d_key d)). unfold inst_matches in A1. intro F. rewrite F in A1. cbn in A1.
  assert (N : aut_run h (d_key d) <> None).
  { rewrite E. replace (h1 ++ ev_of d :: h2) with ((h1 ++ [ev_of d]) ++ h2) by (rewrite <- app_assoc; reflexivity).
    apply aut_run_some_app. rewrite A. discriminate. }
  congruence.
Qed.

Lemma st_cache_mk a b c : st_cache (mkSt a b c) = a.
Proof. reflexivity. Qed.

(* the state in which a call runs, and what it leaves behind *)
Lemma inv_call ul q h prev st f :
  inv h prev st ->
  let c := st_cache (fill ul q st) in
  let h' := h ++ st_pending st in
  invA h' c /\ (forall k, acc_of c k = acc_spec prev k)
  /\ inv h' (prev ++ snd (fst (call_g true ul q f st))) (fst (fst (call_g true ul q f st))).
Proof.
  intros (IA & IB). cbn zeta.
  assert (A : invA (h ++ st_pending st) (st_cache (fill ul q st))) by (apply invA_fill, IA).
  assert (B : forall k, acc_of (st_cache (fill ul q st)) k = acc_spec prev k).
  { intro k. cbn [fill st_cache]. rewrite acc_of_fill. apply IB. }
  split; [exact A|split; [exact B|]].
  rewrite call_g_shape. cbn [fst snd]. unfold inv. rewrite !st_cache_mk. split.
  - apply invA_access, A.
  - intro k. rewrite acc_of_access.
    + unfold acc_spec. rewrite B. unfold acc_spec, kg_of_res. rewrite map_app, maxg_app.
      fold (kg_of_res (snd (access true (taking f) (st_cache (fill ul q st)) (keys_of (st_cache (fill ul q st)) f)))).
      rewrite access_res_kg. reflexivity.
    + intros d Hd. eapply invA_has_inst; [exact A|]. eapply keys_of_incl; eauto.
Qed.

(* master lemma: every call of every execution ran on a cache that satisfies the invariants *)
Lemma exec_entries ul q : forall l st h prev,
  inv h prev st ->
  forall h' prev' f acc, In (h', prev', f, acc) (exec true ul q st h prev l) ->
  exists c, invA h' c /\ (forall k, acc_of c k = acc_spec prev' k)
            /\ acc = snd (access true (taking f) c (keys_of c f)).
Proof.
  induction l as [|o l IH]; intros st h prev I h' prev' f acc H; [destruct H|].
  destruct o as [w sn key val|f0]; cbn [exec] in H.
  - eapply IH; [|exact H]. destruct I as (IA & IB). split; assumption.
  - destruct (inv_call ul q h prev st f0 I) as (A & B & I').
    destruct H as [H|H].
    + inversion H; subst. exists (st_cache (fill ul q st)). split; [exact A|split; [exact B|]].
      rewrite call_g_shape. reflexivity.
    + eapply IH; [exact I'|exact H].
Qed.

(* ---------------------------------------------------------------------------------------- *)
Lemma ss_map {A} (f : A -> Z) l :
  StronglySorted (fun a b => f a <= f b) l <-> StronglySorted Z.le (map f l).
Proof.
  induction l as [|x l IH]; cbn; [split; constructor|].
  split; intro S; inversion S as [|? ? S' F]; subst; constructor; try (apply IH; exact S').
  - rewrite Forall_map. exact F.
  - rewrite Forall_map in F. exact F.
Qed.

(* the theorems, for all histories *)
Section Histories.
  Variables (ul : bool) (q : qos) (l : list op).
  Variables (h : list event) (prev : list osample) (f : form) (acc : list osample).
  Hypothesis Hin : In (h, prev, f, acc) (exec true ul q init [] [] l).

  Lemma entry_sample o :
    In o acc ->
    exists c d rank mrs mrsic, invA h c /\ (forall k, acc_of c k = acc_spec prev k)
                               /\ In d (samples c) /\ o = info c d rank mrs mrsic.
  Proof.
    intro Ho. destruct (exec_entries ul q l init [] [] inv_init _ _ _ _ Hin) as (c & A & B & E).
    subst acc. apply access_res_in in Ho as (d & rank & mrs & mrsic & Hd & ->).
    exists c, d, rank, mrs, mrsic.
    split; [exact A|split; [exact B|split; [eapply keys_of_incl; exact Hd|reflexivity]]].
  Qed.

  (* instance_state = the automaton's state of that instance after all arrivals so far *)
  Lemma hist_instance_state o :
    In o acc -> exists g, aut_run h (o_key o) = Some (if o_alive o then Alive else Disposed, g).
  Proof.
    intro Ho. destruct (entry_sample o Ho) as (c & d & rank & mrs & mrsic & A & _ & Hd & ->).
    pose proof (invA_has_inst h c d A Hd) as N. destruct A as (A1 & _).
    specialize (A1 (d_key d)). unfold inst_matches in A1.
    cbn [info o_key o_alive]. unfold state_of.
    destruct (find_inst (insts c) (d_key d)) as [i|]; [|congruence].
    cbn in A1. rewrite <- A1. exists (i_gen i). destruct (i_state i); reflexivity.
  Qed.

  (* generation counts = the automaton's generation right after the sample's own arrival *)
  Lemma hist_generation_counts o :
    In o acc ->
    o_ngen o = 0 /\
    exists h1 h2 s, h = h1 ++ (o_ts o, o_w o, o_sn o, o_key o, o_val o) :: h2
                    /\ aut_run (h1 ++ [(o_ts o, o_w o, o_sn o, o_key o, o_val o)]) (o_key o) = Some (s, o_dgen o).
  Proof.
    intro Ho. destruct (entry_sample o Ho) as (c & d & rank & mrs & mrsic & (_ & A2) & _ & Hd & ->).
    split; [reflexivity|]. destruct (A2 d Hd) as (h1 & h2 & s & E & A). exists h1, h2, s. split; assumption.
  Qed.

  (* view state = NEW iff the sample's generation is above everything accessed by earlier calls *)
  Lemma hist_view_state o :
    In o acc -> o_new o = (acc_spec prev (o_key o) <? o_dgen o).
  Proof.
    intro Ho. destruct (entry_sample o Ho) as (c & d & rank & mrs & mrsic & _ & B & Hd & ->).
    cbn [info o_new o_key o_dgen]. rewrite B. reflexivity.
  Qed.

  (* samples of one writer (indeed all samples) appear in sequence-number order *)
  Lemma hist_writer_order : StronglySorted (fun a b => o_sn a <= o_sn b) acc.
  Proof.
    destruct (exec_entries ul q l init [] [] inv_init _ _ _ _ Hin) as (c & _ & _ & E).
    pose proof (keys_of_sorted c f) as S.
    assert (M : map o_sn acc = map d_sn (keys_of c f)) by (subst acc; apply access_res_sn).
    apply ss_map. rewrite M. apply (ss_map d_sn). exact S.
  Qed.
End Histories.
