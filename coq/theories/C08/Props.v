(* C08 — property theorems only.  Statements are pinned; proofs are one `exact`. *)
From Coq Require Import List ZArith Bool Sorting.Permutation Sorting.Sorted.
From RD Require Import C08.Model C08.Sel C08.Gen C08.Hist C08.Take C08.Keep C08.Oracle.
Import ListNotations.
Open Scope Z_scope.

(* Throughout: exec true ul q init [] [] ops lists, for every call of the history `ops` on the
   repaired code, (arrivals processed so far, samples accessed by all earlier calls, form, samples
   accessed by this call); Hist.run_ops_exec: `run` is exactly this execution with the ghost
   receive instants stripped and the result presented as the form does. *)
Theorem C08_exec_is_run : forall fixed ul q l st h prev,
  run_ops fixed ul q st l
  = map (fun e : entry => strip_res (present (snd (fst e)) (snd e))) (exec fixed ul q st h prev l).
Proof. exact run_ops_exec. Qed.
Print Assumptions C08_exec_is_run.

(* instance_state reported with a sample = state of the DDS per-instance automaton after all
   arrivals processed so far *)
Theorem C08_instance_state : forall ul q l h prev f acc,
  In (h, prev, f, acc) (exec true ul q init [] [] l) ->
  forall o, In o acc ->
  exists g, aut_run h (o_key o) = Some (if o_alive o then Alive else Disposed, g).
Proof. exact hist_instance_state. Qed.
Print Assumptions C08_instance_state.

(* generation counts reported with a sample = the automaton's disposed-generation count right
   after that sample's own arrival (snapshot); no_writers count 0 *)
Theorem C08_generation_counts : forall ul q l h prev f acc,
  In (h, prev, f, acc) (exec true ul q init [] [] l) ->
  forall o, In o acc ->
  o_ngen o = 0 /\
  exists h1 h2 s, h = h1 ++ (o_ts o, o_w o, o_sn o, o_key o, o_val o) :: h2
                  /\ aut_run (h1 ++ [(o_ts o, o_w o, o_sn o, o_key o, o_val o)]) (o_key o) = Some (s, o_dgen o).
Proof. exact hist_generation_counts. Qed.
Print Assumptions C08_generation_counts.

(* view state of every returned sample (in particular of the most recent one of its instance):
   NEW iff its generation is higher than every generation of that instance accessed by an earlier
   read or take *)
Theorem C08_view_state_most_recent : forall ul q l h prev f acc,
  In (h, prev, f, acc) (exec true ul q init [] [] l) ->
  forall o, In o acc -> o_new o = (acc_spec prev (o_key o) <? o_dgen o).
Proof. exact hist_view_state. Qed.
Print Assumptions C08_view_state_most_recent.

(* F4: on the code as it was the statement fails (value, dispose, value; read all, read 1, read all) *)
Theorem C08_view_state_old_refuted :
  ok f4_case (run_gen false true f4_case) = false /\ ok f4_case (run f4_case) = true.
Proof. exact f4_refuted. Qed.
Print Assumptions C08_view_state_old_refuted.

(* within one result sequence numbers never decrease (hence each writer's samples are in order) *)
Theorem C08_writer_order : forall ul q l h prev f acc,
  In (h, prev, f, acc) (exec true ul q init [] [] l) ->
  StronglySorted (fun a b => o_sn a <= o_sn b) acc.
Proof. exact hist_writer_order. Qed.
Print Assumptions C08_writer_order.

(* read/take(max, cond), any state: the result is exactly the stored samples the condition selects
   (a permutation of them: sorted by sequence number, stable), truncated to max_samples *)
Theorem C08_condition_exact : forall fixed ul q st max rc (take : bool),
  let c := st_cache (fill ul q st) in
  let f := if take then FTake max rc else FRead max rc in
  let acc := snd (fst (call_g fixed ul q f st)) in
  map o_ts acc = map d_ts (takeZ max (select_keys c rc))
  /\ Permutation (select_keys c rc) (filter (selector rc) (samples c))
  /\ StronglySorted sn_le (select_keys c rc)
  /\ Z.of_nat (length acc) = Z.min (Z.max max 0) (Z.of_nat (length (filter (selector rc) (samples c))))
  /\ (rc = CNotRead -> forall o, In o acc -> o_read o = false).
Proof. exact condition_exact. Qed.
Print Assumptions C08_condition_exact.

(* read never removes a sample; exactly the handed-out samples turn Read; the reported sample state
   is the one before the call *)
Theorem C08_read_keeps_and_marks : forall fixed ul q f st,
  taking f = false ->
  samples (st_cache (fst (fst (call_g fixed ul q f st))))
  = map (fun d => if memZ (d_ts d) (map o_ts (snd (fst (call_g fixed ul q f st))))
                  then mkD (d_ts d) (d_key d) (d_val d) (d_w d) (d_sn d) (d_gen d) true else d)
        (samples (st_cache (fill ul q st))).
Proof. exact call_read_keeps. Qed.
Print Assumptions C08_read_keeps_and_marks.
Theorem C08_reported_sample_state : forall fixed ul q f st o,
  In o (snd (fst (call_g fixed ul q f st))) ->
  exists d, In d (keys_of (st_cache (fill ul q st)) f) /\ In d (samples (st_cache (fill ul q st)))
            /\ o_ts o = d_ts d /\ o_read o = d_read d
            /\ o_w o = d_w d /\ o_sn o = d_sn d /\ o_key o = d_key d /\ o_val o = d_val d.
Proof. exact call_reports_state. Qed.
Print Assumptions C08_reported_sample_state.

(* take removes exactly what it hands out ... *)
Theorem C08_take_removes : forall fixed ul q f st,
  taking f = true ->
  samples (st_cache (fst (fst (call_g fixed ul q f st))))
  = filter (fun d => negb (memZ (d_ts d) (map o_ts (snd (fst (call_g fixed ul q f st))))))
           (samples (st_cache (fill ul q st))).
Proof. exact call_take_removes. Qed.
Print Assumptions C08_take_removes.
(* ... and over any history a sample handed out by a taking call is never handed out again by
   any later call (read or take, any form) *)
Theorem C08_take_once_and_removes : forall fixed ul q l e1 e2 pre mid post,
  exec fixed ul q init [] [] l = pre ++ e1 :: mid ++ e2 :: post ->
  forall o1 o2, In o1 (snd e1) -> In o2 (snd e2) -> taking (snd (fst e1)) = true -> o_ts o1 <> o_ts o2.
Proof. exact take_once. Qed.
Print Assumptions C08_take_once_and_removes.

(* second defect found: History KeepAll with max_samples_per_instance = LENGTH_UNLIMITED evicted
   every sample on arrival *)
Theorem C08_keep_all_unlimited_old_refuted :
  run_gen true false unlimited_case = [RVec []]
  /\ ok unlimited_case (run_gen true false unlimited_case) = false
  /\ ok unlimited_case (run unlimited_case) = true.
Proof. exact unlimited_refuted. Qed.
Print Assumptions C08_keep_all_unlimited_old_refuted.

(* History depth, count part: at any moment of any history (after the pending arrivals have been
   handed to add_sample) no instance has more than `keep` samples available, keep being the
   KeepLast depth, 1 for the default history, max_samples_per_instance for KeepAll with a
   non-negative limit.  (That the survivors are the most recent ones is checked by the oracle on
   the sampled cases, not proved: hence _partial.) *)
Theorem C08_keep_last_partial : forall fixed ul q k,
  keep_limit ul q = Some k ->
  forall l key,
  Z.of_nat (length (filter (fun d => d_key d =? key)
                           (samples (st_cache (fill ul q (exec_state fixed ul q init l))))))
  <= Z.max k 0.
Proof. exact keep_last. Qed.
Print Assumptions C08_keep_last_partial.
Example C08_keep_last_nonvacuous :
  keep_limit true (mkQos (HKeepLast 2) None) = Some 2 /\ keep_limit true (mkQos HNone (Some 7)) = Some 1
  /\ keep_limit true (mkQos HKeepAll (Some 3)) = Some 3 /\ keep_limit true (mkQos HKeepAll (Some (-1))) = None.
Proof. repeat split. Qed.

(* the oracle's per-sample verdict as a proposition over the specification state it replays *)
Theorem C08_oracle_sound : forall keep s o,
  ok_sample keep s o = true ->
  exists a, find_arr s (o_w o) (o_sn o) = Some a
    /\ a_key a = o_key o /\ a_val a = o_val o
    /\ has_id (o_w o) (o_sn o) (sp_taken s) = false
    /\ o_dgen o = a_gen a /\ o_ngen o = 0
    /\ (exists alive g, alook (sp_inst s) (o_key o) = Some (alive, g) /\ o_alive o = alive)
    /\ (memZ (o_key o) (sp_fuzzy s) = false ->
        o_read o = has_id (o_w o) (o_sn o) (sp_read s)
        /\ o_new o = match alook (sp_acc s) (o_key o) with
                     | Some g => g <? o_dgen o
                     | None => true
                     end)
    /\ (forall k, keep = Some k -> 1 <= k ->
        existsb (fun b => (a_w b =? o_w o) && (a_sn b =? o_sn o)) (recent s (o_key o) k) = true).
Proof. exact ok_sample_sound. Qed.
Print Assumptions C08_oracle_sound.

(* ok (run c) = true is NOT proved for all c; it is machine-checked exhaustively on the box of all
   op lists of length <= 4 over 8 letters x 3 History settings (14043 cases) *)
Theorem C08_model_ok_partial : forall c, In c box -> ok c (run c) = true.
Proof. exact model_ok_bounded. Qed.
Print Assumptions C08_model_ok_partial.
