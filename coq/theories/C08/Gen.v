(* C08 — histories: the DDS per-instance automaton, generation snapshots, view state. *)
From Coq Require Import List ZArith Bool Lia ZifyBool Arith Sorting.Permutation Sorting.Sorted.
From RD Require Import Common.Corr C08.Model C08.Sel.
Import ListNotations.
Open Scope Z_scope.

(* ---------------------------------------------------------------------------------------- *)
(* arrivals and the DDS 1.4 2.2.2.5.1 automaton of one instance *)
Definition event := (Z * Z * Z * Z * option Z)%type.      (* instant, writer, sn, key, value *)
Definition e_ts (e : event) : Z := fst (fst (fst (fst e))).
Definition e_w (e : event) : Z := snd (fst (fst (fst e))).
Definition e_sn (e : event) : Z := snd (fst (fst e)).
Definition e_key (e : event) : Z := snd (fst e).
Definition e_val (e : event) : option Z := snd e.
Definition is_value (v : option Z) : bool := match v with Some _ => true | None => false end.

Definition aut := option (istate * Z).
(* ALIVE / NOT_ALIVE_DISPOSED; the disposed generation count goes up on NOT_ALIVE_DISPOSED -> ALIVE *)
Definition aut_step (a : aut) (isval : bool) : aut :=
  match a with
  | None => Some (if isval then Alive else Disposed, 0)
  | Some (Alive, g) => Some (if isval then Alive else Disposed, g)
  | Some (Disposed, g) => if isval then Some (Alive, g + 1) else Some (Disposed, g)
  end.
Definition aut_run (h : list event) (key : Z) : aut :=
  fold_left (fun a e => if e_key e =? key then aut_step a (is_value (e_val e)) else a) h None.

Lemma aut_run_app h e key :
  aut_run (h ++ [e]) key
  = if e_key e =? key then aut_step (aut_run h key) (is_value (e_val e)) else aut_run h key.
Proof. unfold aut_run. rewrite fold_left_app. reflexivity. Qed.

Lemma aut_step_some a b : aut_step a b <> None.
Proof. destruct a as [[[] g]|], b; discriminate. Qed.

Lemma aut_run_some_app h1 : forall h2 key, aut_run h1 key <> None -> aut_run (h1 ++ h2) key <> None.
Proof.
  intros h2; revert h1. induction h2 as [|e h2 IH]; intros h1 key H; [rewrite app_nil_r; exact H|].
  replace (h1 ++ e :: h2) with ((h1 ++ [e]) ++ h2) by (rewrite <- app_assoc; reflexivity).
  apply IH. rewrite aut_run_app. destruct (e_key e =? key); [apply aut_step_some|exact H].
Qed.

Definition ev_of (d : dsample) : event := (d_ts d, d_w d, d_sn d, d_key d, d_val d).

(* ---------------------------------------------------------------------------------------- *)
(* instance map *)
Lemma find_put l n k :
  find_inst (put_inst l n) k = if i_key n =? k then Some n else find_inst l k.
Proof.
  induction l as [|i r IH]; cbn.
  - destruct (i_key n =? k); reflexivity.
  - destruct (i_key i =? i_key n) eqn:E.
    + cbn. destruct (i_key n =? k) eqn:F; [reflexivity|].
      replace (i_key i =? k) with false by lia. reflexivity.
    + destruct (i_key n <? i_key i) eqn:L; cbn.
      * destruct (i_key n =? k); reflexivity.
      * rewrite IH. destruct (i_key i =? k) eqn:G; [|reflexivity].
        replace (i_key n =? k) with false by lia. reflexivity.
Qed.

Lemma find_inst_key l k i : find_inst l k = Some i -> i_key i = k.
Proof.
  induction l as [|a r IH]; cbn; [discriminate|].
  destruct (i_key a =? k) eqn:E; [intro H; inversion H; subst; lia|exact IH].
Qed.

Lemma find_map (f : inst -> inst) l k :
  (forall i, i_key (f i) = i_key i) -> find_inst (map f l) k = option_map f (find_inst l k).
Proof.
  intro Hf. induction l as [|a r IH]; cbn; [reflexivity|]. rewrite Hf.
  destruct (i_key a =? k); [reflexivity|exact IH].
Qed.

Lemma In_ins_sample l x d : In d (ins_sample l x) <-> d = x \/ In d l.
Proof.
  induction l as [|a r IH]; cbn; [intuition|].
  destruct (d_ts x <? d_ts a); cbn; [intuition|]. rewrite IH. intuition.
Qed.

(* what add_sample does to the samples: the new one comes in, some may go *)
Lemma add_sample_samples ul q c ts w sn key val d :
  In d (samples (add_sample ul q c ts w sn key val)) ->
  (exists g, d = mkD ts key val w sn g false
             /\ find_inst (insts (add_sample ul q c ts w sn key val)) key
                = Some (mkI key (i_samples (match find_inst (insts (add_sample ul q c ts w sn key val)) key with
                                             | Some i => i | None => mkI key [] Alive 0 0 end))
                            (if is_value val then Alive else Disposed) g
                            (acc_of c key)))
  \/ In d (samples c).
Proof.
  unfold add_sample.
  set (new_state := match val with Some _ => Alive | None => Disposed end).
  set (imd := match find_inst (insts c) key with Some i => i | None => mkI key [] new_state 0 (-2) end).
  set (isamples := ins_ts (i_samples imd) ts).
  set (gen := match i_state imd, new_state with
              | Alive, _ => i_gen imd | Disposed, Alive => i_gen imd + 1 | Disposed, Disposed => i_gen imd end).
  assert (Hacc : i_acc imd = acc_of c key).
  { unfold imd, acc_of. destruct (find_inst (insts c) key); reflexivity. }
  assert (Hns : new_state = if is_value val then Alive else Disposed) by (destruct val; reflexivity).
  destruct (keep_limit ul q) as [keep|].
  - destruct (0 <? Z.of_nat (length isamples) - keep); cbn [samples insts]; intro H;
      [apply filter_In in H as [H _]|]; apply In_ins_sample in H as [->|H]; auto; left; exists gen;
      (split; [reflexivity|]); rewrite find_put; cbn [i_key]; rewrite Z.eqb_refl; cbn [i_samples];
      rewrite Hacc, Hns; reflexivity.
  - cbn [samples insts]. intro H. apply In_ins_sample in H as [->|H]; auto. left; exists gen.
    split; [reflexivity|]. rewrite find_put; cbn [i_key]; rewrite Z.eqb_refl; cbn [i_samples].
    rewrite Hacc, Hns; reflexivity.
Qed.

(* ... and to the instance map: only the arriving sample's instance changes, by one automaton step;
   last_generation_accessed is untouched *)
Lemma add_sample_insts ul q c ts w sn key val k :
  find_inst (insts (add_sample ul q c ts w sn key val)) k =
  if key =? k
  then Some (mkI key (i_samples (match find_inst (insts (add_sample ul q c ts w sn key val)) key with
                                 | Some i => i | None => mkI key [] Alive 0 0 end))
                 (match aut_step (option_map (fun i => (i_state i, i_gen i)) (find_inst (insts c) key)) (is_value val)
                  with Some (s, _) => s | None => Alive end)
                 (match aut_step (option_map (fun i => (i_state i, i_gen i)) (find_inst (insts c) key)) (is_value val)
                  with Some (_, g) => g | None => 0 end)
                 (acc_of c key))
  else find_inst (insts c) k.
Proof.
  unfold add_sample.
  set (new_state := match val with Some _ => Alive | None => Disposed end).
  set (imd := match find_inst (insts c) key with Some i => i | None => mkI key [] new_state 0 (-2) end).
  set (isamples := ins_ts (i_samples imd) ts).
  set (gen := match i_state imd, new_state with
              | Alive, _ => i_gen imd | Disposed, Alive => i_gen imd + 1 | Disposed, Disposed => i_gen imd end).
  assert (Hacc : i_acc imd = acc_of c key).
  { unfold imd, acc_of. destruct (find_inst (insts c) key); reflexivity. }
  assert (Haut : aut_step (option_map (fun i => (i_state i, i_gen i)) (find_inst (insts c) key)) (is_value val)
                 = Some (new_state, gen)).
  { unfold gen, imd, new_state. destruct (find_inst (insts c) key) as [i|]; cbn.
    - destruct (i_state i), val; reflexivity.
    - destruct val; reflexivity. }
  rewrite Haut.
  destruct (keep_limit ul q) as [keep|]; [destruct (0 <? Z.of_nat (length isamples) - keep)|];
    cbn [insts]; rewrite !find_put; cbn [i_key]; rewrite Z.eqb_refl; cbn [i_samples];
    destruct (key =? k); try reflexivity; rewrite Hacc; reflexivity.
Qed.

Lemma acc_of_add ul q c ts w sn key val k :
  acc_of (add_sample ul q c ts w sn key val) k = acc_of c k.
Proof.
  unfold acc_of at 1. rewrite add_sample_insts. destruct (key =? k) eqn:E; [|reflexivity].
  cbn. assert (key = k) by lia. subst. reflexivity.
Qed.

(* ---------------------------------------------------------------------------------------- *)
(* invariant A: instance metadata = automaton over the arrivals; every stored sample carries the
   generation the automaton had right after its own arrival *)
Definition inst_matches (o : option inst) (a : aut) : Prop :=
  option_map (fun i => (i_state i, i_gen i)) o = a.

Definition sample_ok (h : list event) (d : dsample) : Prop :=
  exists h1 h2 s, h = h1 ++ ev_of d :: h2 /\ aut_run (h1 ++ [ev_of d]) (d_key d) = Some (s, d_gen d).

Definition invA (h : list event) (c : cache) : Prop :=
  (forall k, inst_matches (find_inst (insts c) k) (aut_run h k))
  /\ (forall d, In d (samples c) -> sample_ok h d).

Lemma invA_init : invA [] (mkCache [] []).
Proof. split; [intro; reflexivity|intros d []]. Qed.

Lemma sample_ok_app h e d : sample_ok h d -> sample_ok (h ++ [e]) d.
Proof.
  intros (h1 & h2 & s & -> & A). exists h1, (h2 ++ [e]), s. split; [|exact A].
  rewrite <- app_assoc. reflexivity.
Qed.

Lemma invA_add ul q h c ts w sn key val :
  invA h c -> invA (h ++ [(ts, w, sn, key, val)]) (add_sample ul q c ts w sn key val).
Proof.
  intros (A1 & A2). split.
  - intro k. unfold inst_matches. rewrite add_sample_insts, aut_run_app. cbn [e_key e_val fst snd].
    unfold e_key, e_val; cbn [fst snd].
    destruct (key =? k) eqn:E; [|apply A1].
    assert (key = k) by lia; subst k. cbn [option_map i_state i_gen].
    rewrite <- (A1 key). unfold inst_matches.
    destruct (aut_step _ _) as [[s g]|] eqn:S; [reflexivity|]. exfalso; eapply aut_step_some; eauto.
  - intros d Hd. apply add_sample_samples in Hd as [(g & -> & F)|Hd]; [|apply sample_ok_app, A2, Hd].
    exists h, [], (if is_value val then Alive else Disposed). split; [reflexivity|].
    cbn [ev_of d_ts d_w d_sn d_key d_val d_gen].
    pose proof (add_sample_insts ul q c ts w sn key val key) as G. rewrite Z.eqb_refl in G.
    rewrite F in G.
    rewrite aut_run_app. unfold e_key, e_val; cbn [fst snd]. rewrite Z.eqb_refl.
    rewrite <- (A1 key). unfold inst_matches.
    destruct (aut_step _ _) as [[s' g']|] eqn:S; [|exfalso; eapply aut_step_some; eauto].
    try rewrite S in G. inversion G; subst. reflexivity.
Qed.

Lemma invA_fill ul q : forall p h c,
  invA h c ->
  invA (h ++ p) (fold_left (fun c e => match e with (ts, w, sn, key, val) => add_sample ul q c ts w sn key val end) p c).
Proof.
  induction p as [|e p IH]; intros h c I; cbn [fold_left]; [rewrite app_nil_r; exact I|].
  destruct e as [[[[ts w] sn] key] val].
  assert (E : forall e : event, h ++ e :: p = (h ++ [e]) ++ p)
    by (intro; rewrite <- app_assoc; reflexivity).
  rewrite E. apply (IH (h ++ [(ts, w, sn, key, val)]) (add_sample ul q c ts w sn key val)).
  apply invA_add, I.
Qed.

Lemma mark_viewed_find fixed keys l k :
  find_inst (mark_viewed fixed keys l) k
  = option_map (fun i => match touched_gen keys (i_key i) with
                         | None => i
                         | Some g => mkI (i_key i) (i_samples i) (i_state i) (i_gen i)
                                         (if fixed then Z.max (i_acc i) g else g)
                         end) (find_inst l k).
Proof.
  unfold mark_viewed. apply find_map. intro i. destruct (touched_gen keys (i_key i)); reflexivity.
Qed.

Lemma invA_access fixed take h c keys : invA h c -> invA h (fst (access fixed take c keys)).
Proof.
  intros (A1 & A2). destruct keys as [|k0 kr]; [split; assumption|].
  split.
  - intro k. unfold access; cbn [fst insts]. unfold inst_matches. rewrite mark_viewed_find.
    rewrite <- (A1 k). unfold inst_matches.
    destruct (find_inst (insts c) k) as [i|]; [|reflexivity]. cbn [option_map].
    destruct (touched_gen (k0 :: kr) (i_key i)); reflexivity.
  - intros d Hd. destruct take.
    + rewrite access_take_samples in Hd. apply filter_In in Hd as [Hd _]. auto.
    + rewrite access_read_samples in Hd. apply in_map_iff in Hd as (d0 & <- & Hd0).
      destruct (in_keys (k0 :: kr) d0); [|auto].
      destruct (A2 d0 Hd0) as (h1 & h2 & s & E & A). exists h1, h2, s. split; assumption.
Qed.

(* ---------------------------------------------------------------------------------------- *)
(* invariant B: last_generation_accessed = the highest generation any earlier call handed out *)
Definition maxg (l : list (Z * Z)) (k a : Z) : Z :=
  fold_left (fun a p => if fst p =? k then Z.max a (snd p) else a) l a.
Definition kg_of_keys (keys : list dsample) : list (Z * Z) := map (fun d => (d_key d, d_gen d)) keys.
Definition kg_of_res (l : list osample) : list (Z * Z) := map (fun o => (o_key o, o_dgen o)) l.
(* the specification's "highest generation accessed so far" (never: -2) *)
Definition acc_spec (prev : list osample) (k : Z) : Z := maxg (kg_of_res prev) k (-2).

Lemma maxg_app l1 l2 k a : maxg (l1 ++ l2) k a = maxg l2 k (maxg l1 k a).
Proof. unfold maxg. apply fold_left_app. Qed.

Definition oz (o : option Z) (a : Z) : Z := match o with None => a | Some g => Z.max a g end.

Lemma touched_fold keys k : forall o a,
  oz (fold_left (fun acc d => if d_key d =? k
                              then match acc with
                                   | None => Some (d_gen d)
                                   | Some g => if g <? d_gen d then Some (d_gen d) else Some g
                                   end
                              else acc) keys o) a
  = maxg (kg_of_keys keys) k (oz o a).
Proof.
  induction keys as [|d r IH]; intros o a; cbn [fold_left kg_of_keys map]; [reflexivity|].
  rewrite IH. unfold maxg, kg_of_keys. cbn [map fold_left fst snd].
  f_equal. destruct (d_key d =? k); [|reflexivity].
  destruct o as [g0|]; cbn [oz]; [|reflexivity].
  destruct (g0 <? d_gen d) eqn:L; cbn [oz]; lia.
Qed.

Lemma touched_maxg keys k a : oz (touched_gen keys k) a = maxg (kg_of_keys keys) k a.
Proof. unfold touched_gen. rewrite touched_fold. reflexivity. Qed.

Lemma touched_some keys k : forall o g,
  fold_left (fun acc d => if d_key d =? k
                          then match acc with
                               | None => Some (d_gen d)
                               | Some g => if g <? d_gen d then Some (d_gen d) else Some g
                               end
                          else acc) keys o = Some g ->
  (exists g0, o = Some g0) \/ exists d, In d keys /\ d_key d = k.
Proof.
  induction keys as [|d r IH]; intros o g H; cbn [fold_left] in H.
  - left; eauto.
  - destruct (d_key d =? k) eqn:E.
    + right. exists d. split; [left; reflexivity|lia].
    + destruct (IH o g H) as [L|(d' & Hd' & K)]; [left; exact L|right; exists d'; split; [right; exact Hd'|exact K]].
Qed.

Lemma infos_kg c keys : forall len idx mrs mrsic,
  kg_of_res (infos c keys len idx mrs mrsic) = kg_of_keys keys.
Proof. induction keys as [|d r IH]; intros; cbn; [reflexivity|]. f_equal. apply IH. Qed.
Lemma access_res_kg fixed take c keys : kg_of_res (snd (access fixed take c keys)) = kg_of_keys keys.
Proof. unfold access. destruct keys; [reflexivity|]. cbn [snd]. apply infos_kg. Qed.

Lemma acc_of_access take c keys k :
  (forall d, In d keys -> find_inst (insts c) (d_key d) <> None) ->
  acc_of (fst (access true take c keys)) k = maxg (kg_of_keys keys) k (acc_of c k).
Proof.
  intro Hk. destruct keys as [|k0 kr]; [reflexivity|].
  unfold access; cbn [fst]. unfold acc_of at 1. cbn [insts]. rewrite mark_viewed_find.
  rewrite <- touched_maxg.
  destruct (find_inst (insts c) k) as [i|] eqn:F.
  - cbn [option_map]. rewrite (find_inst_key _ _ _ F).
    assert (Ha : acc_of c k = i_acc i) by (unfold acc_of; rewrite F; reflexivity).
    rewrite Ha. destruct (touched_gen (k0 :: kr) k) as [g|]; reflexivity.
  - cbn [option_map].
    destruct (touched_gen (k0 :: kr) k) as [g|] eqn:TG.
    + exfalso.
      destruct (touched_some (k0 :: kr) k None g TG) as [(g0 & Hg0)|(d & Hd & Hkey)]; [discriminate|].
      apply (Hk d Hd). rewrite Hkey. exact F.
    + unfold acc_of. rewrite F. reflexivity.
Qed.
