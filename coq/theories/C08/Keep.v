(* C08 — History depth: never more than `keep` samples of an instance are available. *)
From Coq Require Import List ZArith Bool Lia ZifyBool Arith Sorting.Permutation Sorting.Sorted.
From RD Require Import Common.Corr C08.Model C08.Sel C08.Gen C08.Hist C08.Take.
Import ListNotations.
Open Scope Z_scope.

Lemma NoDup_map_filter {A} (f : A -> Z) (p : A -> bool) l :
  NoDup (map f l) -> NoDup (map f (filter p l)).
Proof.
  induction l as [|a l IH]; intro N; cbn; [constructor|].
  inversion N as [|? ? Hn N']; subst. destruct (p a); cbn; [|apply IH; exact N'].
  constructor; [|apply IH; exact N']. intro H. apply Hn.
  apply in_map_iff in H as (d & E & Hd). apply filter_In in Hd as [Hd _]. rewrite <- E. apply in_map; exact Hd.
Qed.

Definition kinv (k : Z) (c : cache) : Prop :=
  (forall key i, find_inst (insts c) key = Some i -> Z.of_nat (length (i_samples i)) <= Z.max k 0)
  /\ (forall d, In d (samples c) ->
        exists i, find_inst (insts c) (d_key d) = Some i /\ In (d_ts d) (i_samples i))
  /\ NoDup (map d_ts (samples c)).

Lemma kinv_init k : kinv k (mkCache [] []).
Proof. split; [intros ? ? H; discriminate|split; [intros d []|constructor]]. Qed.

Lemma ins_ts_length l t : (length (ins_ts l t) <= S (length l))%nat.
Proof.
  induction l as [|x r IH]; cbn; [lia|].
  destruct (x =? t); [cbn; lia|]. destruct (t <? x); cbn; lia.
Qed.
Lemma In_ins_ts l t x : In x (ins_ts l t) <-> x = t \/ In x l.
Proof.
  induction l as [|a r IH]; cbn; [intuition|].
  destruct (a =? t) eqn:E; [cbn; intuition; subst; left; lia|].
  destruct (t <? a); cbn; [intuition|]. rewrite IH. intuition.
Qed.

Lemma memZ_spec x l : memZ x l = true <-> In x l.
Proof.
  unfold memZ. rewrite existsb_exists. split; [intros (y & Hy & E); assert (x = y) by lia; subst; exact Hy|].
  intro H; exists x; split; [exact H|lia].
Qed.

(* removing a prefix: what is left is no longer than the rest *)
Lemma filter_prefix_length (l : list Z) : forall n,
  Z.of_nat (length (filter (fun t => negb (memZ t (takeZ n l))) l))
  <= Z.of_nat (length l) - Z.min (Z.max n 0) (Z.of_nat (length l)).
Proof.
  intro n. rewrite <- takeZ_length.
  assert (G : forall (p l2 : list Z) (g : list Z), (forall x, In x p -> In x g) ->
              (length (filter (fun t => negb (memZ t g)) (p ++ l2)) <= length l2)%nat).
  { induction p as [|a p IH]; intros l2 g Hg; cbn.
    - induction l2 as [|b l2 IH2]; cbn; [lia|]. destruct (negb (memZ b g)); cbn; lia.
    - replace (memZ a g) with true by (symmetry; apply memZ_spec, Hg; left; reflexivity). cbn.
      apply IH. intros x Hx; apply Hg; right; exact Hx. }
  assert (S : exists l2, l = takeZ n l ++ l2).
  { clear. revert n. induction l as [|a l IH]; intro n; cbn; [exists []; reflexivity|].
    destruct (n <=? 0); [exists (a :: l); reflexivity|].
    destruct (IH (n - 1)) as (l2 & E). exists l2. cbn. f_equal. exact E. }
  destruct S as (l2 & E).
  pose proof (G (takeZ n l) l2 (takeZ n l) (fun x H => H)) as B. rewrite <- E in B.
  assert (L : length l = (length (takeZ n l) + length l2)%nat) by (rewrite E at 1; apply app_length).
  lia.
Qed.

Section Add.
  Variables (ul : bool) (q : qos) (k : Z).
  Hypothesis Hk : keep_limit ul q = Some k.

  Lemma kinv_add c ts w sn key val :
    kinv k c -> ~ In ts (map d_ts (samples c)) ->
    kinv k (add_sample ul q c ts w sn key val).
  Proof.
    intros (K1 & K2 & K3) Fresh. unfold add_sample. rewrite Hk.
    set (new_state := match val with Some _ => Alive | None => Disposed end).
    set (imd := match find_inst (insts c) key with Some i => i | None => mkI key [] new_state 0 (-2) end).
    set (isamples := ins_ts (i_samples imd) ts).
    set (gen := match i_state imd, new_state with
                | Alive, _ => i_gen imd | Disposed, Alive => i_gen imd + 1 | Disposed, Disposed => i_gen imd end).
    assert (Limd : Z.of_nat (length (i_samples imd)) <= Z.max k 0).
    { unfold imd. destruct (find_inst (insts c) key) as [i|] eqn:F; [eapply K1; eauto|cbn; lia]. }
    assert (Lis : Z.of_nat (length isamples) <= Z.max k 0 + 1).
    { pose proof (ins_ts_length (i_samples imd) ts). unfold isamples. lia. }
    assert (Old : forall d, In d (samples c) -> d_key d = key -> In (d_ts d) isamples).
    { intros d Hd Ek. destruct (K2 d Hd) as (i & Fi & Hi). unfold isamples, imd.
      rewrite Ek in Fi. rewrite Fi. apply In_ins_ts. right; exact Hi. }
    assert (ND : NoDup (map d_ts (ins_sample (samples c) (mkD ts key val w sn gen false)))).
    { clear - K3 Fresh. induction (samples c) as [|a l IH]; cbn.
      - constructor; [intros []|constructor].
      - destruct (ts <? d_ts a); cbn.
        + constructor; [exact Fresh|exact K3].
        + inversion K3 as [|? ? Hn K3']; subst. constructor.
          * intro H. apply in_map_iff in H as (d & E & Hd). apply In_ins_sample in Hd as [->|Hd].
            -- cbn in E. apply Fresh. left. lia.
            -- apply Hn. rewrite <- E. apply in_map; exact Hd.
          * apply IH; [exact K3'|]. intro H; apply Fresh; right; exact H. }
    assert (NDf : forall g, NoDup (map d_ts (filter (fun d => negb (memZ (d_ts d) g)) (ins_sample (samples c) (mkD ts key val w sn gen false))))).
    { intro g. apply NoDup_map_filter, ND. }
    unfold kinv.
    destruct (0 <? Z.of_nat (length isamples) - k) eqn:RC; cbn [samples insts]; (split; [|split]).
    - (* K1, with eviction *)
      intros key' i F. rewrite find_put in F. cbn [i_key] in F.
      destruct (key =? key'); [|eapply K1; eauto]. inversion F; subst i. cbn [i_samples].
      pose proof (filter_prefix_length isamples (Z.of_nat (length isamples) - k)). lia.
    - intros d Hd. apply filter_In in Hd as [Hd Hg]. rewrite negb_true_iff in Hg.
      rewrite find_put. cbn [i_key].
      apply In_ins_sample in Hd as [->|Hd].
      + cbn [d_key]. rewrite Z.eqb_refl. eexists; split; [reflexivity|]. cbn [i_samples d_ts].
        apply filter_In. split; [apply In_ins_ts; left; reflexivity|]. cbn [d_ts] in Hg. rewrite Hg. reflexivity.
      + destruct (key =? d_key d) eqn:E.
        * eexists; split; [reflexivity|]. cbn [i_samples]. apply filter_In. split; [apply Old; [exact Hd|lia]|].
          rewrite Hg. reflexivity.
        * apply K2; exact Hd.
    - apply NDf.
    - intros key' i F. rewrite find_put in F. cbn [i_key] in F.
      destruct (key =? key'); [|eapply K1; eauto]. inversion F; subst i. cbn [i_samples]. lia.
    - intros d Hd. rewrite find_put. cbn [i_key].
      apply In_ins_sample in Hd as [->|Hd].
      + cbn [d_key]. rewrite Z.eqb_refl. eexists; split; [reflexivity|]. cbn [i_samples d_ts].
        apply In_ins_ts; left; reflexivity.
      + destruct (key =? d_key d) eqn:E.
        * eexists; split; [reflexivity|]. cbn [i_samples]. apply Old; [exact Hd|lia].
        * apply K2; exact Hd.
    - exact ND.
  Qed.
End Add.

Lemma kinv_access fixed take k c keys : kinv k c -> kinv k (fst (access fixed take c keys)).
Proof.
  intros (K1 & K2 & K3). destruct keys as [|k0 kr]; [repeat split; assumption|].
  assert (FI : forall key i, find_inst (insts (fst (access fixed take c (k0 :: kr)))) key = Some i ->
                             exists i0, find_inst (insts c) key = Some i0 /\ i_samples i = i_samples i0).
  { intros key i F. unfold access in F; cbn [fst insts] in F. rewrite mark_viewed_find in F.
    destruct (find_inst (insts c) key) as [i0|]; [|discriminate]. cbn [option_map] in F. exists i0. split; [reflexivity|].
    destruct (touched_gen (k0 :: kr) (i_key i0)); inversion F; reflexivity. }
  assert (FI2 : forall key i0, find_inst (insts c) key = Some i0 ->
                exists i, find_inst (insts (fst (access fixed take c (k0 :: kr)))) key = Some i /\ i_samples i = i_samples i0).
  { intros key i0 F. unfold access; cbn [fst insts]. rewrite mark_viewed_find, F. cbn [option_map].
    destruct (touched_gen (k0 :: kr) (i_key i0)); eexists; split; reflexivity. }
  split; [|split].
  - intros key i F. destruct (FI key i F) as (i0 & F0 & E). rewrite E. eapply K1; eauto.
  - intros d Hd. destruct take.
    + rewrite access_take_samples in Hd. apply filter_In in Hd as [Hd _].
      destruct (K2 d Hd) as (i0 & F0 & H0). destruct (FI2 _ _ F0) as (i & F & E). exists i. rewrite E. auto.
    + rewrite access_read_samples in Hd. apply in_map_iff in Hd as (d0 & E0 & Hd0).
      destruct (K2 d0 Hd0) as (i0 & F0 & H0). destruct (FI2 _ _ F0) as (i & F & E).
      exists i. destruct (in_keys (k0 :: kr) d0); subst d; cbn [d_key d_ts]; rewrite E; auto.
  - destruct take.
    + rewrite access_take_samples. apply NoDup_map_filter, K3.
    + rewrite access_read_samples, map_map.
      replace (map (fun x => d_ts (if in_keys (k0 :: kr) x then _ else x)) (samples c)) with (map d_ts (samples c)); [exact K3|].
      apply map_ext. intro d. destruct (in_keys (k0 :: kr) d); reflexivity.
Qed.

(* the bound itself *)
Lemma kinv_bound k c key :
  kinv k c -> Z.of_nat (length (filter (fun d => d_key d =? key) (samples c))) <= Z.max k 0.
Proof.
  intros (K1 & K2 & K3).
  destruct (filter (fun d => d_key d =? key) (samples c)) as [|d0 r] eqn:F; [cbn; lia|].
  assert (Hd0 : In d0 (samples c) /\ d_key d0 = key).
  { assert (In d0 (filter (fun d => d_key d =? key) (samples c))) by (rewrite F; left; reflexivity).
    apply filter_In in H as [H1 H2]. split; [exact H1|lia]. }
  destruct Hd0 as (Hd0 & Ek). destruct (K2 d0 Hd0) as (i & Fi & _). rewrite Ek in Fi.
  rewrite <- F. specialize (K1 key i Fi).
  assert (L : (length (map d_ts (filter (fun d => (d_key d =? key)%Z) (samples c))) <= length (i_samples i))%nat).
  { apply NoDup_incl_length.
    - apply NoDup_map_filter, K3.
    - intros t Ht. apply in_map_iff in Ht as (d & <- & Hd). apply filter_In in Hd as [Hd Ekd].
      destruct (K2 d Hd) as (i' & Fi' & Hi'). assert (d_key d = key) by lia. rewrite H in Fi'.
      rewrite Fi in Fi'. inversion Fi'; subst. exact Hi'. }
  rewrite map_length in L. lia.
Qed.

(* ---------------------------------------------------------------------------------------- *)
(* along executions: receive instants are fresh, so the bound holds at every moment *)
Fixpoint exec_state (fixed ul : bool) (q : qos) (st : state) (l : list op) : state :=
  match l with
  | [] => st
  | OAdd w sn key val :: r =>
      exec_state fixed ul q (mkSt (st_cache st) (st_pending st ++ [(st_next st, w, sn, key, val)])
                                  (st_next st + 1)) r
  | OCall f :: r => exec_state fixed ul q (fst (fst (call_g fixed ul q f st))) r
  end.

Definition inv_k (k : Z) (st : state) : Prop :=
  kinv k (st_cache st)
  /\ (forall t e, In t (map d_ts (samples (st_cache st))) -> In e (st_pending st) -> t < e_ts e)
  /\ StronglySorted Z.lt (map e_ts (st_pending st))
  /\ (forall e, In e (st_pending st) -> e_ts e < st_next st)
  /\ (forall t, In t (map d_ts (samples (st_cache st))) -> t < st_next st).

Section Exec.
  Variables (fixed ul : bool) (q : qos) (k : Z).
  Hypothesis Hk : keep_limit ul q = Some k.

  Lemma kinv_fill : forall p c,
    kinv k c ->
    (forall t e, In t (map d_ts (samples c)) -> In e p -> t < e_ts e) ->
    StronglySorted Z.lt (map e_ts p) ->
    kinv k (fold_left (fun c e => match e with (ts, w, sn, key, val) => add_sample ul q c ts w sn key val end) p c).
  Proof.
    induction p as [|e p IH]; intros c K F S; cbn [fold_left]; [exact K|].
    destruct e as [[[[ts w] sn] key] val]. cbn [map] in S. inversion S as [|? ? S' FA]; subst.
    apply IH; [|intros t e Ht He|exact S'].
    - apply (kinv_add ul q k Hk); [exact K|]. intro Hin.
      specialize (F ts (ts, w, sn, key, val) Hin (or_introl eq_refl)). unfold e_ts in F; cbn in F. lia.
    - apply in_map_iff in Ht as (d & <- & Hd).
      apply add_sample_samples in Hd as [(g & -> & _)|Hd].
      + cbn [d_ts]. rewrite Forall_forall in FA. apply FA. apply in_map. exact He.
      + apply F; [apply in_map; exact Hd|right; exact He].
  Qed.

  Lemma inv_k_add st w sn key val :
    inv_k k st ->
    inv_k k (mkSt (st_cache st) (st_pending st ++ [(st_next st, w, sn, key, val)]) (st_next st + 1)).
  Proof.
    intros (K & F1 & F2 & F3 & F4). unfold inv_k. cbn [st_cache st_pending st_next].
    split; [exact K|split; [|split; [|split]]].
    - intros t e Ht He. apply in_app_or in He as [He|[<-|[]]]; [apply F1; assumption|].
      specialize (F4 t Ht). unfold e_ts; cbn. lia.
    - rewrite map_app. cbn [map]. change (e_ts (st_next st, w, sn, key, val)) with (st_next st).
      clear - F2 F3. induction (st_pending st) as [|e p IH]; cbn [map app].
      + constructor; constructor.
      + inversion F2 as [|? ? S FA]; subst. constructor.
        * apply IH; [exact S|intros e' He'; apply F3; right; exact He'].
        * apply Forall_app. split; [exact FA|]. constructor; [apply F3; left; reflexivity|constructor].
    - intros e He. apply in_app_or in He as [He|[<-|[]]]; [specialize (F3 e He); lia|unfold e_ts; cbn; lia].
    - intros t Ht. specialize (F4 t Ht). lia.
  Qed.

  Lemma inv_k_fill st : inv_k k st -> kinv k (st_cache (fill ul q st)).
  Proof. intros (K & F1 & F2 & _). cbn [fill st_cache]. apply kinv_fill; assumption. Qed.

  Lemma inv_k_call f st : inv_k k st -> inv_k k (fst (fst (call_g fixed ul q f st))).
  Proof.
    intros I. pose proof (inv_k_fill st I) as KF. destruct I as (K & F1 & F2 & F3 & F4).
    rewrite call_g_shape. cbn [fst]. unfold inv_k. cbn [st_pending st_next]. rewrite st_cache_mk.
    split; [apply kinv_access, KF|split; [intros t e _ []|split; [constructor|split; [intros e []|]]]].
    intros t Ht. apply access_samples_ts in Ht. cbn [fill st_cache] in Ht.
    apply fill_samples_ts in Ht as [Ht|Ht]; [apply F4; exact Ht|].
    apply in_map_iff in Ht as (e & <- & He). apply F3; exact He.
  Qed.

  Lemma inv_k_exec : forall l st, inv_k k st -> inv_k k (exec_state fixed ul q st l).
  Proof.
    induction l as [|o l IH]; intros st I; [exact I|].
    destruct o as [w sn key val|f]; cbn [exec_state]; apply IH; [apply inv_k_add|apply inv_k_call]; exact I.
  Qed.

  Lemma inv_k_init : inv_k k init.
  Proof.
    split; [apply kinv_init|split; [intros t e []|split; [constructor|split; [intros e []|intros t []]]]].
  Qed.

  (* at any moment of any history, after the pending arrivals have been processed, no instance has
     more than `keep` samples available *)
  Lemma keep_last : forall l key,
    Z.of_nat (length (filter (fun d => d_key d =? key)
                             (samples (st_cache (fill ul q (exec_state fixed ul q init l))))))
    <= Z.max k 0.
  Proof.
    intros l key. apply kinv_bound, inv_k_fill, inv_k_exec, inv_k_init.
  Qed.
End Exec.
