(* C08 — the oracle read as propositions; a bounded exhaustive check of ok (run c). *)
From Coq Require Import List ZArith Bool Lia ZifyBool Arith.
From RD Require Import Common.Corr C08.Model.
Import ListNotations.
Open Scope Z_scope.

Lemma oZ_eqb_eq a b : oZ_eqb a b = true -> a = b.
Proof. apply option_eqb_spec. intros; apply Z.eqb_eq. Qed.

(* what the oracle demands of one handed-out sample, as a proposition over the specification state *)
Lemma ok_sample_sound keep s o :
  ok_sample keep s o = true ->
  exists a, find_arr s (o_w o) (o_sn o) = Some a
    /\ a_key a = o_key o /\ a_val a = o_val o                          (* it did arrive, as it is *)
    /\ has_id (o_w o) (o_sn o) (sp_taken s) = false                    (* not taken before *)
    /\ o_dgen o = a_gen a /\ o_ngen o = 0                              (* generation snapshot *)
    /\ (exists alive g, alook (sp_inst s) (o_key o) = Some (alive, g) /\ o_alive o = alive)
    /\ (memZ (o_key o) (sp_fuzzy s) = false ->
        o_read o = has_id (o_w o) (o_sn o) (sp_read s)                 (* sample state *)
        /\ o_new o = match alook (sp_acc s) (o_key o) with             (* view state *)
                     | Some g => g <? o_dgen o
                     | None => true
                     end)
    /\ (forall k, keep = Some k -> 1 <= k ->                           (* History depth window *)
        existsb (fun b => (a_w b =? o_w o) && (a_sn b =? o_sn o)) (recent s (o_key o) k) = true).
Proof.
  unfold ok_sample. destruct (find_arr s (o_w o) (o_sn o)) as [a|]; [|discriminate].
  rewrite !andb_true_iff. intros [[[[[[[K V] T] G] N] I] F] D].
  exists a. split; [reflexivity|]. split; [lia|]. split; [apply oZ_eqb_eq; exact V|].
  split; [apply negb_true_iff; exact T|]. split; [lia|]. split; [lia|]. split; [|split].
  - destruct (alook (sp_inst s) (o_key o)) as [[alive g]|]; [|discriminate].
    exists alive, g. split; [reflexivity|]. apply eqb_prop; exact I.
  - intro Fz. rewrite Fz in F. cbn in F. apply andb_true_iff in F as [R W].
    split; [apply eqb_prop; exact R|apply eqb_prop; exact W].
  - intros k -> Hk. replace (1 <=? k) with true in D by lia. exact D.
Qed.

(* ---------------------------------------------------------------------------------------- *)
(* bounded exhaustive check: every op list of length <= 4 over an 8-letter alphabet (two writers,
   two instances, values and disposes; read all / read 1 / take 1 not_read / read_instance Next /
   take_instance This), under KeepAll, KeepLast 1, KeepLast 2 *)
Definition letters (i : Z) : list op :=
  [OAdd 1 i 1 (Some (100 + i)); OAdd 1 i 1 None; OAdd 2 i 2 (Some (200 + i));
   OCall (FRead usize_max CAny); OCall (FRead 1 CAny); OCall (FTake 1 CNotRead);
   OCall (FReadInst usize_max CAny None Next); OCall (FTakeInst 1 CAny (Some 1) This)].
Fixpoint words (n : nat) (i : Z) : list (list op) :=
  match n with
  | O => [[]]
  | S m => [] :: flat_map (fun o => map (cons o) (words m (i + 1))) (letters i)
  end.
Definition box : list case :=
  flat_map (fun q => map (mkCase q) (words 4 1))
           [mkQos HKeepAll None; mkQos (HKeepLast 1) None; mkQos (HKeepLast 2) None].

Lemma model_ok_box : forallb (fun c => ok c (run c)) box = true.
Proof. vm_compute. reflexivity. Qed.

Lemma model_ok_bounded : forall c, In c box -> ok c (run c) = true.
Proof. intros c H. exact (proj1 (forallb_forall _ _) model_ok_box c H). Qed.
