(* C08 — selection, ordering and the effect of one read/take on the stored samples. *)
From Coq Require Import List ZArith Bool Lia ZifyBool Arith Sorting.Permutation Sorting.Sorted.
From RD Require Import Common.Corr C08.Model.
Import ListNotations.
Open Scope Z_scope.

(* ---------------------------------------------------------------------------------------- *)
(* sort_by_sequence_number *)
Definition sn_le (a b : dsample) : Prop := d_sn a <= d_sn b.

Lemma ins_sn_perm x l : Permutation (ins_sn x l) (x :: l).
Proof.
  induction l as [|y r IH]; cbn; [reflexivity|].
  destruct (d_sn x <=? d_sn y); [reflexivity|].
  rewrite IH. apply perm_swap.
Qed.
Lemma sort_sn_perm l : Permutation (sort_sn l) l.
Proof.
  induction l as [|x l IH]; cbn; [reflexivity|]. rewrite ins_sn_perm. constructor; exact IH.
Qed.

Lemma ins_sn_sorted x l : StronglySorted sn_le l -> StronglySorted sn_le (ins_sn x l).
Proof.
  induction l as [|y r IH]; intro S; cbn; [constructor; constructor|].
  inversion S as [|? ? S' F]; subst.
  destruct (d_sn x <=? d_sn y) eqn:E.
  - constructor; [exact S|]. constructor; [unfold sn_le; lia|].
    eapply Forall_impl; [|exact F]. unfold sn_le; intros; lia.
  - constructor; [apply IH; exact S'|].
    eapply Permutation_Forall; [symmetry; apply ins_sn_perm|].
    constructor; [unfold sn_le; lia|exact F].
Qed.
Lemma sort_sn_sorted l : StronglySorted sn_le (sort_sn l).
Proof. induction l as [|x l IH]; cbn; [constructor|apply ins_sn_sorted; exact IH]. Qed.

Lemma takeZ_sorted {A} (R : A -> A -> Prop) l : forall n,
  StronglySorted R l -> StronglySorted R (takeZ n l).
Proof.
  induction l as [|x l IH]; intros n S; cbn; [constructor|].
  destruct (n <=? 0); [constructor|]. inversion S as [|? ? S' F]; subst.
  constructor; [apply IH; exact S'|].
  clear - F. revert n. induction l as [|y l IH]; intro n; cbn; [constructor|].
  inversion F; subst. destruct (n - 1 <=? 0); constructor; auto.
Qed.
Lemma In_takeZ {A} (x : A) l : forall n, In x (takeZ n l) -> In x l.
Proof.
  induction l as [|a l IH]; intros n H; cbn in *; [auto|].
  destruct (n <=? 0); [destruct H|]. destruct H as [->|H]; eauto.
Qed.
Lemma takeZ_length {A} (l : list A) : forall n,
  Z.of_nat (length (takeZ n l)) = Z.min (Z.max n 0) (Z.of_nat (length l)).
Proof.
  induction l as [|a l IH]; intro n; cbn [takeZ length]; [lia|].
  destruct (n <=? 0) eqn:E; cbn [length]; [lia|]. rewrite Nat2Z.inj_succ, IH. lia.
Qed.
Lemma takeZ_all {A} (l : list A) n : Z.of_nat (length l) <= n -> takeZ n l = l.
Proof.
  revert n; induction l as [|a l IH]; intros n H; cbn [takeZ]; [reflexivity|].
  cbn [length] in H. rewrite Nat2Z.inj_succ in H.
  destruct (n <=? 0) eqn:E; [lia|]. f_equal. apply IH. lia.
Qed.

(* ---------------------------------------------------------------------------------------- *)
(* what a call hands out corresponds one to one to the selected keys *)
Lemma infos_ts c keys : forall len idx mrs mrsic,
  map o_ts (infos c keys len idx mrs mrsic) = map d_ts keys.
Proof. induction keys as [|d r IH]; intros; cbn; [reflexivity|]. f_equal. apply IH. Qed.
Lemma infos_sn c keys : forall len idx mrs mrsic,
  map o_sn (infos c keys len idx mrs mrsic) = map d_sn keys.
Proof. induction keys as [|d r IH]; intros; cbn; [reflexivity|]. f_equal. apply IH. Qed.
Lemma infos_in c keys : forall len idx mrs mrsic o,
  In o (infos c keys len idx mrs mrsic) ->
  exists d rank, In d keys /\ o = info c d rank mrs mrsic.
Proof.
  induction keys as [|d r IH]; intros len idx mrs mrsic o H; cbn in H; [destruct H|].
  destruct H as [<-|H]; [exists d; eexists; split; [left; reflexivity|reflexivity]|].
  destruct (IH _ _ _ _ _ H) as (d' & rank & Hin & ->). exists d', rank; split; [right; exact Hin|reflexivity].
Qed.

Lemma access_res_ts fixed take c keys : map o_ts (snd (access fixed take c keys)) = map d_ts keys.
Proof. unfold access. destruct keys; [reflexivity|]. cbn [snd]. apply infos_ts. Qed.
Lemma access_res_sn fixed take c keys : map o_sn (snd (access fixed take c keys)) = map d_sn keys.
Proof. unfold access. destruct keys; [reflexivity|]. cbn [snd]. apply infos_sn. Qed.
Lemma access_res_in fixed take c keys o :
  In o (snd (access fixed take c keys)) ->
  exists d rank mrs mrsic, In d keys /\ o = info c d rank mrs mrsic.
Proof.
  unfold access. destruct keys as [|k0 kr]; [intros []|]. cbn [snd]. intro H.
  apply infos_in in H as (d & rank & Hin & ->). eauto 6.
Qed.

(* the selected keys: exactly the samples the condition selects, sorted by sequence number
   (stable), truncated *)
Lemma select_keys_perm c rc : Permutation (select_keys c rc) (filter (selector rc) (samples c)).
Proof. apply sort_sn_perm. Qed.
Lemma select_keys_sorted c rc : StronglySorted sn_le (select_keys c rc).
Proof. apply sort_sn_sorted. Qed.
Lemma select_instance_keys_sorted c k rc : StronglySorted sn_le (select_instance_keys c k rc).
Proof. unfold select_instance_keys. destruct (find_inst _ _); [apply sort_sn_sorted|constructor]. Qed.

Lemma select_keys_in c rc d :
  In d (select_keys c rc) <-> In d (samples c) /\ selector rc d = true.
Proof.
  rewrite <- filter_In. split; apply Permutation_in; [|symmetry]; apply select_keys_perm.
Qed.

Lemma find_sample_in l t d : find_sample l t = Some d -> In d l /\ d_ts d = t.
Proof. unfold find_sample. intro H. apply find_some in H as [H1 H2]. split; [exact H1|lia]. Qed.

Lemma select_instance_keys_in c k rc d :
  In d (select_instance_keys c k rc) -> In d (samples c) /\ selector rc d = true.
Proof.
  unfold select_instance_keys. destruct (find_inst _ _) as [i|]; [|intros []].
  intro H. apply (Permutation_in _ (sort_sn_perm _)) in H.
  apply in_flat_map in H as (t & _ & H).
  destruct (find_sample (samples c) t) as [d'|] eqn:F; [|destruct H].
  destruct (selector rc d') eqn:S; [|destruct H]. destruct H as [<-|[]].
  apply find_sample_in in F as [F _]. auto.
Qed.

(* ---------------------------------------------------------------------------------------- *)
(* effect on the stored samples *)
Lemma in_keys_spec keys d : in_keys keys d = true <-> In (d_ts d) (map d_ts keys).
Proof.
  unfold in_keys. rewrite existsb_exists, in_map_iff. split; intros (k & A & B); exists k; split; auto; lia.
Qed.

(* take: the handed-out samples are gone, nothing else is *)
Lemma access_take_samples fixed c keys :
  samples (fst (access fixed true c keys)) = filter (fun d => negb (in_keys keys d)) (samples c).
Proof.
  unfold access. destruct keys as [|k0 kr]; [|reflexivity]. cbn.
  induction (samples c) as [|a l IH]; cbn; [reflexivity|]. f_equal. exact IH.
Qed.

(* read: the same samples stay, the handed-out ones are now Read, the others keep their state *)
Lemma access_read_samples fixed c keys :
  samples (fst (access fixed false c keys))
  = map (fun d => if in_keys keys d
                  then mkD (d_ts d) (d_key d) (d_val d) (d_w d) (d_sn d) (d_gen d) true else d) (samples c).
Proof.
  unfold access. destruct keys as [|k0 kr]; [|reflexivity]. cbn.
  induction (samples c) as [|a l IH]; cbn; [reflexivity|]. f_equal. exact IH.
Qed.
