(* C07 — property theorems only. *)
From Coq Require Import List ZArith Bool.
From RD Require Import Common.Corr C10.Model C07.Model C07.Proofs.
Import ListNotations.

(* Discovery bookkeeping: for ANY history of creations (any order, any multiplicity) and
   announcements delivered or lost at any point, once all six entities exist one fault-free
   announcement round leaves writer and reader matched iff their QoS are compatible, and with the
   incompatibility verdict on both sides otherwise. *)
Theorem C07_settles_exactly : forall compat evs,
  effective compat evs ->
  let s := settle compat evs in
  m1 s = compat /\ m2 s = compat /\ i1 s = negb compat /\ i2 s = negb compat.
Proof. exact settle_exact. Qed.
Print Assumptions C07_settles_exactly.

Theorem C07_order_independent : forall compat evs evs',
  effective compat evs -> effective compat evs' ->
  let s := settle compat evs in let s' := settle compat evs' in
  m1 s = m1 s' /\ m2 s = m2 s' /\ i1 s = i1 s' /\ i2 s = i2 s'.
Proof. exact order_independent. Qed.
Print Assumptions C07_order_independent.

(* safety in every reachable state: a match only between existing endpoints with compatible QoS *)
Theorem C07_no_spurious_match : forall compat evs,
  let s := fold_left (pstep compat) evs pinit in
  (m1 s = true -> compat = true /\ w s = true /\ r s = true) /\
  (m2 s = true -> compat = true /\ w s = true /\ r s = true) /\
  (i1 s = true -> compat = false) /\ (i2 s = true -> compat = false).
Proof. exact match_implies. Qed.
Print Assumptions C07_no_spurious_match.

Theorem C07_valid_orders_are_the_20_interleavings :
  forall l, In l (perms six) -> valid_order l = valid_order_idx l.
Proof. exact valid_order_is_positional. Qed.
Print Assumptions C07_valid_orders_are_the_20_interleavings.

(* scenario level: the model's predicted observables satisfy the property oracle for every
   scenario, and the oracle reads as the property text *)
Theorem C07_model_ok : forall c, ok c (run c) = true.
Proof. exact run_ok. Qed.
Print Assumptions C07_model_ok.

Theorem C07_oracle_sound : forall c o,
  ok c o = true <->
  (valid_order (s_order c) = true ->
   let compat := rxo_b (s_wq c) (s_rq c) in
   o_w_matched o = compat /\ o_r_matched o = compat /\
   o_w_incompat o = negb compat /\ o_r_incompat o = negb compat /\
   (compat = true -> is_reliable (s_wq c) = true -> is_reliable (s_rq c) = true ->
      list_eqb sample_eqb (o_delivered o) (expected_delivery c) = true) /\
   o_unmatch o = (compat && match s_delete c with DelNone => false | _ => true end)).
Proof. exact ok_spec. Qed.
Print Assumptions C07_oracle_sound.
