(* C07 — end-to-end discovery / matching / delivery between two participants.

   Two layers:
   (1) an abstract protocol model of what the discovery code does (SPDP announcements on creation and
       periodically, SEDP endpoint data delivered reliably once both participants know each other,
       matching on learning a remote endpoint or creating a local one), over ANY sequence of creation
       and (lossy) announcement events, followed by the fault-free closure;
   (2) the observable outcome of a scenario (matched flags, incompatibility verdicts, delivered
       samples, unmatch after deletion) computed from that protocol model — this is [run], compared
       with what two real DomainParticipants did — and the property oracle [ok], written directly
       from the property text and independent of the protocol model.
   QoS compatibility is the C10 model ([compliance]). *)
From Coq Require Import List ZArith Bool.
From RD Require Import Common.Corr C10.Model.
Import ListNotations.
Open Scope Z_scope.

Inductive ev := EvP1 | EvT1 | EvW | EvP2 | EvT2 | EvR.
Inductive del := DelNone | DelReader | DelWriter | DelReaderParticipant | DelWriterParticipant.
Inductive sample := SValue (key seq len : Z) | SDispose (key : Z) | SCorrupt.

Record scenario := {
  s_keyed : bool;
  s_wq : qos;                 (* offered *)
  s_rq : qos;                 (* requested *)
  s_order : list ev;          (* creation order *)
  s_before : list sample;     (* written while only the writer's participant exists *)
  s_after : list sample;      (* written after both sides reported the match *)
  s_loss : Z;                 (* datagram loss rate during discovery and traffic, per mille *)
  s_pace : Z;                 (* pause between creation events, ms: short = all creations precede
                                 discovery, long = discovery completes between creations *)
  s_delete : del }.

Record obs := {
  o_w_matched : bool; o_r_matched : bool;
  o_w_incompat : bool; o_r_incompat : bool;
  o_delivered : list sample;  (* only reported for reliable/reliable pairs *)
  o_unmatch : bool }.

(* ---------- (1) protocol model ---------- *)
Record pstate := {
  p1 : bool; t1 : bool; w : bool;          (* participant 1, its topic, its writer exist *)
  p2 : bool; t2 : bool; r : bool;
  k12 : bool;                              (* participant 1 knows participant 2 (SPDP) *)
  k21 : bool;
  e1 : bool;                               (* participant 1 knows the remote reader (SEDP) *)
  e2 : bool;                               (* participant 2 knows the remote writer *)
  m1 : bool;                               (* writer matched with reader *)
  m2 : bool;                               (* reader matched with writer *)
  i1 : bool; i2 : bool }.                  (* incompatible-QoS verdict delivered *)

Definition pinit := Build_pstate false false false false false false
                                 false false false false false false false false.

Inductive pev :=
| Create (e : ev)
| Spdp12 (delivered : bool)    (* participant 1 announces itself; datagram delivered or lost *)
| Spdp21 (delivered : bool)
| Sedp12 (delivered : bool)    (* participant 1's publication data towards participant 2 *)
| Sedp21 (delivered : bool).

Section Proto.
  Variable compat : bool.      (* request/offered compatibility of the two endpoints' QoS *)

  (* matching happens when an endpoint exists locally and the remote one is known *)
  Definition rematch (s : pstate) : pstate :=
    {| p1 := p1 s; t1 := t1 s; w := w s; p2 := p2 s; t2 := t2 s; r := r s;
       k12 := k12 s; k21 := k21 s; e1 := e1 s; e2 := e2 s;
       m1 := w s && e1 s && compat;  m2 := r s && e2 s && compat;
       i1 := w s && e1 s && negb compat;  i2 := r s && e2 s && negb compat |}.

  Definition pstep (s : pstate) (e : pev) : pstate :=
    rematch
    match e with
    | Create EvP1 => {| p1 := true; t1 := t1 s; w := w s; p2 := p2 s; t2 := t2 s; r := r s;
                        k12 := k12 s; k21 := k21 s; e1 := e1 s; e2 := e2 s;
                        m1 := m1 s; m2 := m2 s; i1 := i1 s; i2 := i2 s |}
    | Create EvT1 => {| p1 := p1 s; t1 := p1 s || t1 s; w := w s; p2 := p2 s; t2 := t2 s; r := r s;
                        k12 := k12 s; k21 := k21 s; e1 := e1 s; e2 := e2 s;
                        m1 := m1 s; m2 := m2 s; i1 := i1 s; i2 := i2 s |}
    | Create EvW => {| p1 := p1 s; t1 := t1 s; w := t1 s || w s; p2 := p2 s; t2 := t2 s; r := r s;
                        k12 := k12 s; k21 := k21 s; e1 := e1 s; e2 := e2 s;
                        m1 := m1 s; m2 := m2 s; i1 := i1 s; i2 := i2 s |}
    | Create EvP2 => {| p1 := p1 s; t1 := t1 s; w := w s; p2 := true; t2 := t2 s; r := r s;
                        k12 := k12 s; k21 := k21 s; e1 := e1 s; e2 := e2 s;
                        m1 := m1 s; m2 := m2 s; i1 := i1 s; i2 := i2 s |}
    | Create EvT2 => {| p1 := p1 s; t1 := t1 s; w := w s; p2 := p2 s; t2 := p2 s || t2 s; r := r s;
                        k12 := k12 s; k21 := k21 s; e1 := e1 s; e2 := e2 s;
                        m1 := m1 s; m2 := m2 s; i1 := i1 s; i2 := i2 s |}
    | Create EvR => {| p1 := p1 s; t1 := t1 s; w := w s; p2 := p2 s; t2 := t2 s; r := t2 s || r s;
                        k12 := k12 s; k21 := k21 s; e1 := e1 s; e2 := e2 s;
                        m1 := m1 s; m2 := m2 s; i1 := i1 s; i2 := i2 s |}
    | Spdp12 d => {| p1 := p1 s; t1 := t1 s; w := w s; p2 := p2 s; t2 := t2 s; r := r s;
                        k12 := k12 s; k21 := k21 s || (d && p1 s && p2 s); e1 := e1 s; e2 := e2 s;
                        m1 := m1 s; m2 := m2 s; i1 := i1 s; i2 := i2 s |}
    | Spdp21 d => {| p1 := p1 s; t1 := t1 s; w := w s; p2 := p2 s; t2 := t2 s; r := r s;
                        k12 := k12 s || (d && p1 s && p2 s); k21 := k21 s; e1 := e1 s; e2 := e2 s;
                        m1 := m1 s; m2 := m2 s; i1 := i1 s; i2 := i2 s |}
    (* SEDP data flows over built-in reliable endpoints, which exist once both know each other *)
    | Sedp12 d => {| p1 := p1 s; t1 := t1 s; w := w s; p2 := p2 s; t2 := t2 s; r := r s;
                        k12 := k12 s; k21 := k21 s; e1 := e1 s;
                        e2 := e2 s || (d && k12 s && k21 s && w s);
                        m1 := m1 s; m2 := m2 s; i1 := i1 s; i2 := i2 s |}
    | Sedp21 d => {| p1 := p1 s; t1 := t1 s; w := w s; p2 := p2 s; t2 := t2 s; r := r s;
                        k12 := k12 s; k21 := k21 s;
                        e1 := e1 s || (d && k12 s && k21 s && r s); e2 := e2 s;
                        m1 := m1 s; m2 := m2 s; i1 := i1 s; i2 := i2 s |}
    end.

  (* one fault-free round: both announce, both (re)send their endpoint data *)
  Definition round (s : pstate) : pstate :=
    fold_left pstep [Spdp12 true; Spdp21 true; Sedp12 true; Sedp21 true] s.

  Definition settle (evs : list pev) : pstate := round (fold_left pstep evs pinit).
End Proto.

Definition effective (compat : bool) (evs : list pev) : Prop :=
  let s := fold_left (pstep compat) evs pinit in
  p1 s = true /\ t1 s = true /\ w s = true /\ p2 s = true /\ t2 s = true /\ r s = true.

(* ---------- (2) scenario outcome ---------- *)
Definition compat_of (c : scenario) : bool :=
  match compliance (s_wq c) (s_rq c) with None => true | Some _ => false end.

Definition is_reliable (q : qos) : bool :=
  match q_reliability q with Some (Reliable _) => true | _ => false end.

Definition wants_history (q : qos) : bool :=
  match q_durability q with
  | Some Volatile | None => false
  | Some _ => true
  end.

Definition expected_delivery (c : scenario) : list sample :=
  if wants_history (s_rq c) then s_before c ++ s_after c else s_after c.

Definition run (c : scenario) : obs :=
  let compat := compat_of c in
  let s := settle compat (map Create (s_order c)) in
  let matched := m1 s && m2 s in
  {| o_w_matched := m1 s; o_r_matched := m2 s;
     o_w_incompat := i1 s; o_r_incompat := i2 s;
     o_delivered := if matched && is_reliable (s_wq c) && is_reliable (s_rq c)
                    then expected_delivery c else [];
     o_unmatch := matched && match s_delete c with DelNone => false | _ => true end |}.

Definition sample_eqb (a b : sample) : bool :=
  match a, b with
  | SValue k s l, SValue k' s' l' => (k =? k') && (s =? s') && (l =? l')
  | SDispose k, SDispose k' => k =? k'
  | SCorrupt, SCorrupt => true
  | _, _ => false
  end.

Definition obs_eqb (a b : obs) : bool :=
  Bool.eqb (o_w_matched a) (o_w_matched b) && Bool.eqb (o_r_matched a) (o_r_matched b)
  && Bool.eqb (o_w_incompat a) (o_w_incompat b) && Bool.eqb (o_r_incompat a) (o_r_incompat b)
  && list_eqb sample_eqb (o_delivered a) (o_delivered b)
  && Bool.eqb (o_unmatch a) (o_unmatch b).

(* every creation succeeded: each entity was created after its parent (participant before topic
   before endpoint), in any interleaving of the two sides; creations that come too early fail in the
   API and are no-ops in [pstep].  (The flags do not depend on [compat].) *)
Definition all_exist (s : pstate) : bool := p1 s && t1 s && w s && p2 s && t2 s && r s.
Definition valid_order (l : list ev) : bool :=
  all_exist (fold_left (pstep true) (map Create l) pinit).

(* the same thing by positions, for documentation and for the sanity theorem in Proofs.v *)
Definition ev_eqb (x e : ev) : bool :=
  match x, e with
  | EvP1, EvP1 | EvT1, EvT1 | EvW, EvW | EvP2, EvP2 | EvT2, EvT2 | EvR, EvR => true
  | _, _ => false end.
Fixpoint idx (e : ev) (l : list ev) (n : Z) : Z :=
  match l with
  | [] => -1
  | x :: l' => if ev_eqb x e then n else idx e l' (n + 1)
  end.
Definition valid_order_idx (l : list ev) : bool :=
  let i e := idx e l 0 in
  (0 <=? i EvP1) && (i EvP1 <? i EvT1) && (i EvT1 <? i EvW)
  && (0 <=? i EvP2) && (i EvP2 <? i EvT2) && (i EvT2 <? i EvR).

(* Property oracle, from the text of C07 (independent of the protocol model):
   - the pair is matched on both sides iff the QoS are request/offered compatible (C10 rules),
     whatever the creation order and loss; an incompatible pair gets the incompatibility verdict on
     both sides instead;
   - for a matched reliable pair the reader receives exactly the samples written after the match,
     in order, unaltered, once — preceded by the retained history iff it asked for it
     (TransientLocal or stronger), and never by it if it is Volatile;
   - deleting a matched reader / writer / participant is observed by the peer as an unmatch. *)
Definition ok (c : scenario) (o : obs) : bool :=
  let compat := rxo_b (s_wq c) (s_rq c) in
  negb (valid_order (s_order c)) ||
  (Bool.eqb (o_w_matched o) compat && Bool.eqb (o_r_matched o) compat
   && Bool.eqb (o_w_incompat o) (negb compat) && Bool.eqb (o_r_incompat o) (negb compat)
   && (if compat && is_reliable (s_wq c) && is_reliable (s_rq c)
       then list_eqb sample_eqb (o_delivered o) (expected_delivery c)
       else true)
   && Bool.eqb (o_unmatch o)
               (compat && match s_delete c with DelNone => false | _ => true end)).
