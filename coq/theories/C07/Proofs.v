From Coq Require Import List ZArith Bool Lia.
From RD Require Import Common.Corr C10.Model C10.Proofs C07.Model.
Import ListNotations.
Open Scope Z_scope.

(* ---- protocol model: safety invariants over ANY event sequence (creations in any order and
        multiplicity, announcements delivered or lost at any point) ---- *)
Ltac relevant_bools :=
  repeat match goal with
         | b : bool |- _ =>
           match goal with
           | |- context [b] => destruct b
           | H : context [b] |- _ => destruct b
           | _ => clear b
           end
         end; cbn in *; try tauto; try (intuition congruence).

Definition InvC (s : pstate) : Prop :=
  (t1 s = true -> p1 s = true) /\ (w s = true -> t1 s = true) /\
  (t2 s = true -> p2 s = true) /\ (r s = true -> t2 s = true).
Definition InvK (s : pstate) : Prop :=
  (k12 s = true -> p1 s = true /\ p2 s = true) /\ (k21 s = true -> p1 s = true /\ p2 s = true).
Definition InvE (s : pstate) : Prop :=
  (e1 s = true -> r s = true /\ k12 s = true /\ k21 s = true) /\
  (e2 s = true -> w s = true /\ k12 s = true /\ k21 s = true).
Definition InvM (compat : bool) (s : pstate) : Prop :=
  m1 s = (w s && e1 s && compat) /\ m2 s = (r s && e2 s && compat) /\
  i1 s = (w s && e1 s && negb compat) /\ i2 s = (r s && e2 s && negb compat).
Definition PInv (compat : bool) (s : pstate) : Prop :=
  InvC s /\ InvK s /\ InvE s /\ InvM compat s.

Lemma pinv_init compat : PInv compat pinit.
Proof. unfold PInv, InvC, InvK, InvE, InvM, pinit; cbn; repeat split; intros; discriminate. Qed.

Lemma invC_step compat s e : InvC s -> InvC (pstep compat s e).
Proof.
  destruct s as [a1 a2 a3 a4 a5 a6 a7 a8 a9 a10 a11 a12 a13 a14]; unfold InvC; cbn.
  intros (H1 & H2 & H3 & H4).
  destruct e as [[]|d|d|d|d]; cbn; repeat split; intros; relevant_bools.
Qed.

Lemma invK_step compat s e : InvK s -> InvK (pstep compat s e).
Proof.
  destruct s as [a1 a2 a3 a4 a5 a6 a7 a8 a9 a10 a11 a12 a13 a14]; unfold InvK; cbn.
  intros (H1 & H2).
  destruct e as [[]|d|d|d|d]; cbn; repeat split; intros; relevant_bools.
Qed.

Lemma invE_step compat s e : InvE s -> InvE (pstep compat s e).
Proof.
  destruct s as [a1 a2 a3 a4 a5 a6 a7 a8 a9 a10 a11 a12 a13 a14]; unfold InvE; cbn.
  intros (H1 & H2).
  destruct e as [[]|d|d|d|d]; cbn; repeat split; intros; relevant_bools.
Qed.

Lemma invM_step compat s e : InvM compat (pstep compat s e).
Proof.
  destruct s as [a1 a2 a3 a4 a5 a6 a7 a8 a9 a10 a11 a12 a13 a14]; unfold InvM.
  destruct e as [[]|d|d|d|d]; cbn; repeat split; reflexivity.
Qed.

Lemma pinv_step compat s e : PInv compat s -> PInv compat (pstep compat s e).
Proof.
  intros (A & B & C & D). split; [|split; [|split]].
  - apply invC_step, A.
  - apply invK_step, B.
  - apply invE_step, C.
  - apply invM_step.
Qed.

Lemma pinv_run compat evs : PInv compat (fold_left (pstep compat) evs pinit).
Proof.
  assert (G : forall s, PInv compat s -> PInv compat (fold_left (pstep compat) evs s)).
  { induction evs as [|e evs IH]; intros s Hs; cbn; [assumption|]. apply IH, pinv_step, Hs. }
  apply G, pinv_init.
Qed.

(* no match and no endpoint knowledge out of thin air, in every reachable state *)
Lemma match_implies compat evs :
  let s := fold_left (pstep compat) evs pinit in
  (m1 s = true -> compat = true /\ w s = true /\ r s = true) /\
  (m2 s = true -> compat = true /\ w s = true /\ r s = true) /\
  (i1 s = true -> compat = false) /\ (i2 s = true -> compat = false).
Proof.
  cbn zeta. pose proof (pinv_run compat evs) as H.
  destruct (fold_left (pstep compat) evs pinit) as [a1 a2 a3 a4 a5 a6 a7 a8 a9 a10 a11 a12 a13 a14].
  destruct H as (_ & _ & (E1 & E2) & (M1 & M2 & M3 & M4)); cbn in *. subst.
  repeat split; intros; relevant_bools.
Qed.

(* ---- the fault-free closure: whatever happened before (any order, any losses), once all six
        entities exist one round establishes exactly the compatible matches on both sides ---- *)
Lemma round_settles compat s :
  PInv compat s ->
  p1 s = true -> t1 s = true -> w s = true -> p2 s = true -> t2 s = true -> r s = true ->
  let s' := round compat s in
  m1 s' = compat /\ m2 s' = compat /\ i1 s' = negb compat /\ i2 s' = negb compat.
Proof.
  destruct s as [a1 a2 a3 a4 a5 a6 a7 a8 a9 a10 a11 a12 a13 a14]; cbn.
  intros _ -> -> -> -> -> ->. unfold round; cbn.
  destruct a7, a8, a9, a10, compat; cbn; repeat split; reflexivity.
Qed.

Lemma settle_exact compat evs :
  effective compat evs ->
  let s := settle compat evs in
  m1 s = compat /\ m2 s = compat /\ i1 s = negb compat /\ i2 s = negb compat.
Proof.
  intros (A & B & C & D & E & F). unfold settle.
  apply round_settles; try assumption. apply pinv_run.
Qed.

(* order independence, stated as such: two effective histories (different creation orders,
   different loss patterns) settle to the same matching verdicts *)
Lemma order_independent compat evs evs' :
  effective compat evs -> effective compat evs' ->
  let s := settle compat evs in let s' := settle compat evs' in
  m1 s = m1 s' /\ m2 s = m2 s' /\ i1 s = i1 s' /\ i2 s = i2 s'.
Proof.
  intros H H'. destruct (settle_exact _ _ H) as (a & b & c & d).
  destruct (settle_exact _ _ H') as (a' & b' & c' & d'). cbn zeta. repeat split; congruence.
Qed.

(* the creation flags do not depend on compat *)
Lemma flags_compat_irrelevant evs c c' :
  let s := fold_left (pstep c) evs pinit in let s' := fold_left (pstep c') evs pinit in
  p1 s = p1 s' /\ t1 s = t1 s' /\ w s = w s' /\ p2 s = p2 s' /\ t2 s = t2 s' /\ r s = r s'.
Proof.
  cbn zeta.
  assert (G : forall s s', (p1 s = p1 s' /\ t1 s = t1 s' /\ w s = w s' /\ p2 s = p2 s' /\ t2 s = t2 s' /\ r s = r s') ->
     let a := fold_left (pstep c) evs s in let b := fold_left (pstep c') evs s' in
     p1 a = p1 b /\ t1 a = t1 b /\ w a = w b /\ p2 a = p2 b /\ t2 a = t2 b /\ r a = r b).
  { induction evs as [|e evs IH]; intros s s' H; cbn; [assumption|]. apply IH.
    destruct s, s'; cbn in *. destruct H as (-> & -> & -> & -> & -> & ->).
    destruct e as [[]|d|d|d|d]; cbn; repeat split; reflexivity. }
  apply G. repeat split; reflexivity.
Qed.

Lemma valid_order_effective compat l :
  valid_order l = true -> effective compat (map Create l).
Proof.
  unfold valid_order, all_exist, effective. intros H.
  destruct (flags_compat_irrelevant (map Create l) compat true) as (a & b & c & d & e & f).
  cbn zeta in *. rewrite a, b, c, d, e, f.
  repeat (apply andb_true_iff in H; destruct H as [H ?]). repeat split; assumption.
Qed.

(* sanity of [valid_order]: on all 720 permutations of the six creations it coincides with
   "participant before topic before endpoint on each side" (exhaustive, by computation) *)
Fixpoint insert_all (x : ev) (l : list ev) : list (list ev) :=
  match l with
  | [] => [[x]]
  | y :: l' => (x :: l) :: map (cons y) (insert_all x l')
  end.
Fixpoint perms (l : list ev) : list (list ev) :=
  match l with
  | [] => [[]]
  | x :: l' => flat_map (insert_all x) (perms l')
  end.
Definition six := [EvP1; EvT1; EvW; EvP2; EvT2; EvR].

Lemma valid_order_is_positional :
  forall l, In l (perms six) -> valid_order l = valid_order_idx l.
Proof.
  apply Forall_forall.
  assert (H : forallb (fun l => Bool.eqb (valid_order l) (valid_order_idx l)) (perms six) = true)
    by (vm_compute; reflexivity).
  rewrite forallb_forall in H. apply Forall_forall. intros l Hl. apply eqb_prop, H, Hl.
Qed.

Example twenty_valid_orders :
  length (filter valid_order (perms six)) = 20%nat /\ length (perms six) = 720%nat.
Proof. vm_compute. split; reflexivity. Qed.

(* ---- scenario level ---- *)
Lemma compat_of_rxo c : compat_of c = rxo_b (s_wq c) (s_rq c).
Proof.
  unfold compat_of. destruct (compliance (s_wq c) (s_rq c)) as [p|] eqn:E.
  - apply compliance_cause in E. destruct (rxo_b (s_wq c) (s_rq c)) eqn:R; [|reflexivity].
    apply rxo_b_spec in R. exfalso. apply E, R.
  - apply compliance_none_iff in E. symmetry. apply rxo_b_spec, E.
Qed.

Lemma list_eqb_refl {A} (eqb : A -> A -> bool) (l : list A) :
  (forall x, eqb x x = true) -> list_eqb eqb l l = true.
Proof. intros H. induction l as [|x l IH]; cbn; [reflexivity|]. rewrite H, IH. reflexivity. Qed.

Lemma sample_eqb_refl x : sample_eqb x x = true.
Proof. destruct x; cbn; rewrite ?Z.eqb_refl; reflexivity. Qed.

Lemma run_ok c : ok c (run c) = true.
Proof.
  unfold ok. destruct (valid_order (s_order c)) eqn:V; [|reflexivity]. cbn [negb orb].
  pose proof (valid_order_effective (compat_of c) _ V) as E.
  destruct (settle_exact _ _ E) as (A & B & C & D). cbn zeta in *.
  unfold run; cbn [o_w_matched o_r_matched o_w_incompat o_r_incompat o_delivered o_unmatch].
  rewrite A, B, C, D, <- compat_of_rxo.
  destruct (compat_of c); cbn.
  - destruct (is_reliable (s_wq c)), (is_reliable (s_rq c)); cbn;
      rewrite ?list_eqb_refl by apply sample_eqb_refl; destruct (s_delete c); reflexivity.
  - reflexivity.
Qed.

(* reading of the oracle *)
Lemma ok_spec c o :
  ok c o = true <->
  (valid_order (s_order c) = true ->
   let compat := rxo_b (s_wq c) (s_rq c) in
   o_w_matched o = compat /\ o_r_matched o = compat /\
   o_w_incompat o = negb compat /\ o_r_incompat o = negb compat /\
   (compat = true -> is_reliable (s_wq c) = true -> is_reliable (s_rq c) = true ->
      list_eqb sample_eqb (o_delivered o) (expected_delivery c) = true) /\
   o_unmatch o = (compat && match s_delete c with DelNone => false | _ => true end)).
Proof.
  unfold ok. destruct (valid_order (s_order c)); cbn [negb orb]; [|split; [discriminate|reflexivity]].
  cbn zeta. rewrite !andb_true_iff, !eqb_true_iff.
  set (D := list_eqb sample_eqb (o_delivered o) (expected_delivery c)).
  destruct (rxo_b (s_wq c) (s_rq c)), (is_reliable (s_wq c)), (is_reliable (s_rq c)), D;
    cbn [andb]; split.
  all: try (intros (((((A & B) & C) & E) & F) & G) _; repeat split; auto; intros; try discriminate; auto).
  all: try (intros H; destruct (H eq_refl) as (A & B & C & E & F & G); repeat split; auto).
Qed.

Lemma sample_eqb_spec x y : sample_eqb x y = true <-> x = y.
Proof.
  destruct x, y; cbn; split; intro H; try discriminate; try reflexivity.
  - repeat (apply andb_true_iff in H; destruct H as [H ?]).
    apply Z.eqb_eq in H. apply Z.eqb_eq in H0. apply Z.eqb_eq in H1. congruence.
  - inversion H; subst. rewrite !Z.eqb_refl. reflexivity.
  - apply Z.eqb_eq in H. congruence.
  - inversion H; subst. apply Z.eqb_refl.
Qed.
