(* Generic correspondence evaluator: the harness writes (index, case, implementation observation)
   triples; [check] returns the indices where the model disagrees with the implementation and the
   indices where the implementation's own observation fails the property oracle. *)
From Coq Require Import List NArith ZArith Bool.
Import ListNotations.

Section Check.
  Context {C O : Type}.
  Variable run : C -> O.
  Variable obs_eqb : O -> O -> bool.
  Variable ok : C -> O -> bool.

  Definition mismatches (l : list (N * C * O)) : list N :=
    map (fun t => fst (fst t))
        (filter (fun t => negb (obs_eqb (run (snd (fst t))) (snd t))) l).

  Definition oracle_failures (l : list (N * C * O)) : list N :=
    map (fun t => fst (fst t))
        (filter (fun t => negb (ok (snd (fst t)) (snd t))) l).

  (* "MISMATCH" and "ORACLE" markers make the output trivially parseable. *)
  Inductive report := Report (MISMATCH : list N) (ORACLE : list N).

  Definition check (l : list (N * C * O)) : report :=
    Report (mismatches l) (oracle_failures l).
End Check.

(* variant whose observation comparer may depend on the case (e.g. fields compared only when the
   model's prediction is exact for that case) *)
Section CheckC.
  Context {C O : Type}.
  Variable run : C -> O.
  Variable obs_eqbc : C -> O -> O -> bool.
  Variable ok : C -> O -> bool.
  Definition check_c (l : list (N * C * O)) : report :=
    Report (map (fun t => fst (fst t))
              (filter (fun t => negb (obs_eqbc (snd (fst t)) (run (snd (fst t))) (snd t))) l))
           (oracle_failures ok l).
End CheckC.

(* small decidable equalities reused by the per-property observation comparers *)
Fixpoint list_eqb {A} (eqb : A -> A -> bool) (l1 l2 : list A) : bool :=
  match l1, l2 with
  | [], [] => true
  | x :: l1', y :: l2' => eqb x y && list_eqb eqb l1' l2'
  | _, _ => false
  end.

Definition option_eqb {A} (eqb : A -> A -> bool) (o1 o2 : option A) : bool :=
  match o1, o2 with
  | None, None => true
  | Some x, Some y => eqb x y
  | _, _ => false
  end.

Definition pair_eqb {A B} (ea : A -> A -> bool) (eb : B -> B -> bool) (p q : A * B) : bool :=
  ea (fst p) (fst q) && eb (snd p) (snd q).

Lemma list_eqb_spec {A} (eqb : A -> A -> bool) :
  (forall x y, eqb x y = true <-> x = y) ->
  forall l1 l2, list_eqb eqb l1 l2 = true <-> l1 = l2.
Proof.
  intros H l1; induction l1 as [|x l1 IH]; intros [|y l2]; simpl; split; intro E;
    try reflexivity; try discriminate.
  - apply andb_true_iff in E as [E1 E2]. apply H in E1. apply IH in E2. congruence.
  - inversion E; subst. apply andb_true_iff; split; [apply H; reflexivity | apply IH; reflexivity].
Qed.

Lemma option_eqb_spec {A} (eqb : A -> A -> bool) :
  (forall x y, eqb x y = true <-> x = y) ->
  forall o1 o2, option_eqb eqb o1 o2 = true <-> o1 = o2.
Proof.
  intros H [x|] [y|]; simpl; split; intro E; try reflexivity; try discriminate.
  - apply H in E; congruence.
  - inversion E; subst; apply H; reflexivity.
Qed.
