(* C04 — property theorems only.  Statements are pinned by ./check; proofs are one `exact`. *)
From Coq Require Import List ZArith Bool.
From RD Require Import Common.Corr C04.Model C04.Basics C04.Proofs C04.Steps C04.ModelOk C04.Theorems.
Import ListNotations.
Open Scope Z_scope.

(* [reachable cf w s]: s is the writer state after some list of operations from the initial state,
   w the samples written by them (numbered 1, 2, ...). *)

(* retain: no operation removes a sample that some matched reliable reader has not acknowledged
   (resource limit = a usize, i.e. not negative) *)
Theorem C04_retain : forall cf w s o cc p,
  0 <= c_rlimit cf -> reachable cf w s ->
  In cc (s_hist s) -> In p (s_readers s) -> p_rel p = true -> p_acked p <= ch_sn cc ->
  In cc (s_hist (fst (step cf s o))).
Proof. exact retain_thm. Qed.
Print Assumptions C04_retain.

(* only cache cleaning removes anything, and it keeps the [depth] newest samples below the level
   acknowledged by all matched reliable readers *)
Theorem C04_retain_depth : forall cf w s o cc,
  reachable cf w s -> In cc (s_hist s) ->
  (o <> CacheClean \/ acked_by_all s - depth_of cf <= ch_sn cc) ->
  In cc (s_hist (fst (step cf s o))).
Proof. exact retain_depth_thm. Qed.
Print Assumptions C04_retain_depth.

(* [acked_by_all s <= sn] says exactly: some matched reliable reader has not acknowledged sn *)
Theorem C04_unacked_meaning : forall s sn,
  sn <= s_last s ->
  (acked_by_all s <= sn <-> exists p, In p (s_readers s) /\ p_rel p = true /\ p_acked p <= sn).
Proof. exact acked_by_all_spec. Qed.
Print Assumptions C04_unacked_meaning.

(* bound: after cache cleaning the history holds at most depth_limit samples plus those not yet
   acknowledged by all matched reliable readers - for every reader population *)
Theorem C04_bound : forall cf w s,
  reachable cf w s -> 1 <= depth_of cf ->
  len (s_hist (fst (step cf s CacheClean)))
  <= depth_of cf + len (filter (fun c => acked_by_all s <=? ch_sn c) (s_hist s)).
Proof. exact bound_thm. Qed.
Print Assumptions C04_bound.

Theorem C04_bound_no_reliable_reader : forall cf w s,
  reachable cf w s -> 1 <= depth_of cf ->
  (forall p, In p (s_readers s) -> p_rel p = false) ->
  len (s_hist (fst (step cf s CacheClean))) <= depth_of cf.
Proof. exact bound_no_reliable. Qed.
Print Assumptions C04_bound_no_reliable_reader.

(* answer: the repair tick for reader r whose lowest requested number is u (advertised: u >= 1)
   sends r a GAP covering u or DATA / every DATAFRAG of u with exactly the written bytes, unless
   u is a pending gap more than 255 above the lowest pending gap *)
Theorem C04_answer : forall cf w s r p u,
  reachable cf w s -> rget r (s_readers s) = Some p -> first_of (p_unsent p) = Some u ->
  1 <= u -> sparse_gap u (p_gap p) = false ->
  answered_P cf w r u (o_dgrams (snd (step cf s (RepairTick r)))).
Proof. intros. apply answered_sound. eapply answer_thm; eauto. Qed.
Print Assumptions C04_answer.

(* ... and a number the reader explicitly requested in an ACKNACK (bitmap of at most 256 numbers
   from its base) is never in that excluded class *)
Theorem C04_answer_requested : forall s r base set p,
  rget r (s_readers s) = Some p ->
  (forall sn, In sn set -> base <= sn < base + 256) ->
  exists p', rget r (s_readers (fst (do_ack_nack s r base set))) = Some p' /\
             p_acked p' = Z.max base 1 /\
             forall sn, In sn set -> sparse_gap sn (p_gap p') = false.
Proof. exact nack_window_thm. Qed.
Print Assumptions C04_answer_requested.

(* the excluded class is not empty: a reachable state where the tick's GAP does not cover u *)
Theorem C04_answer_window_needed :
  let s := state_after false cf_all init sparse_ops in
  let w := writes_from [] sparse_ops in
  exists p, rget 1 (s_readers s) = Some p /\ first_of (p_unsent p) = Some 301
            /\ sparse_gap 301 (p_gap p) = true
            /\ answered cf_all w 1 301 (o_dgrams (snd (step cf_all s (RepairTick 1)))) = false.
Proof. exact answer_window_needed. Qed.
Print Assumptions C04_answer_window_needed.

(* heartbeat: every HEARTBEAT carries (first_seq, last_seq); last_seq = number of samples written;
   get_by_sn finds exactly the numbers first_seq..last_seq *)
Theorem C04_heartbeat : forall cf w s o,
  reachable cf w s ->
  let s' := fst (step cf s o) in
  (forall d m rd f l c fi li, In (d, m) (o_dgrams (snd (step cf s o))) -> In (SHb rd f l c fi li) m ->
     f = s_first s' /\ l = s_last s')
  /\ s_last s' = len (written_after w o)
  /\ (forall sn, (exists c, get_by_sn sn (s_hist s') = Some c) <-> s_first s' <= sn <= s_last s')
  /\ 1 <= s_first s' <= s_last s' + 1.
Proof. exact heartbeat_thm. Qed.
Print Assumptions C04_heartbeat.

(* single reader + byte fidelity: every DATA / DATAFRAG carries exactly the bytes written under its
   number; a sample written for reader g alone appears only in datagrams to g (INFO_DST g, reader
   entity g) *)
Theorem C04_single_reader : forall cf w s o,
  reachable cf w s ->
  forall d m x, In (d, m) (o_dgrams (snd (step cf s o))) -> In x m ->
    data_ok_P cf (written_after w o) d m x.
Proof. exact single_thm. Qed.
Print Assumptions C04_single_reader.

(* ... and another reader asking for it is sent a GAP covering it *)
Theorem C04_single_reader_gap : forall cf w s r p u cc g,
  0 < c_dmax cf -> reachable cf w s ->
  rget r (s_readers s) = Some p -> first_of (p_unsent p) = Some u ->
  1 <= u -> sparse_gap u (p_gap p) = false ->
  get_by_sn u w = Some cc -> ch_single cc = Some g -> g <> r ->
  exists m rd st b set, In (r, m) (o_dgrams (snd (step cf s (RepairTick r))))
                        /\ In (SGap rd st b set) m /\ ((st <= u < b) \/ In u set).
Proof. exact single_gap_thm. Qed.
Print Assumptions C04_single_reader_gap.

(* a GAP range never lies: every number between gap_start and the bitmap base is in the set it
   was built from *)
Theorem C04_gap_range_sound : forall l e y, e <= y < run_end e l -> In y l.
Proof. exact run_end_sound. Qed.
Print Assumptions C04_gap_range_sound.

Theorem C04_model_ok : forall c, 0 <= c_rlimit (fst c) -> ok c (run c) = true.
Proof. exact run_ok. Qed.
Print Assumptions C04_model_ok.

Theorem C04_oracle_sound : forall c o,
  ok c o = true -> exists l, o = Obs l /\ trace_spec (fst c) [] (digest_of init) (snd c) l.
Proof. exact ok_sound. Qed.
Print Assumptions C04_oracle_sound.

(* pinned commit: the statements were false (repaired by fix: commits) *)
Theorem C04_old_no_reader_refuted : ok F5_case (run_old F5_case) = false.
Proof. exact F5_refuted. Qed.
Theorem C04_old_best_effort_refuted : ok F5b_case (run_old F5b_case) = false.
Proof. exact F5b_refuted. Qed.
Theorem C04_old_ack_beyond_last_refuted : ok ack_beyond_case (run_old ack_beyond_case) = false.
Proof. exact ack_beyond_refuted. Qed.
Theorem C04_old_single_late_joiner_refuted : ok single_late_case (run_old single_late_case) = false.
Proof. exact single_late_refuted. Qed.
Print Assumptions C04_old_no_reader_refuted.
Print Assumptions C04_old_single_late_joiner_refuted.

(* non-vacuity of the hypotheses *)
Example C04_nonvacuous :
  let s := state_after false cf_kl2 init nv_ops in
  reachable cf_kl2 (writes_from [] nv_ops) s
  /\ (exists p, rget 1 (s_readers s) = Some p /\ p_rel p = true
                /\ first_of (p_unsent p) = Some 4 /\ sparse_gap 4 (p_gap p) = false)
  /\ len (s_hist s) = 5 /\ len (s_hist (fst (step cf_kl2 s CacheClean))) = 4
  /\ 1 <= depth_of cf_kl2.
Proof. exact nonvacuous. Qed.
