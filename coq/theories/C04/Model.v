(* C04 / C20 — the reliable writer core.

   Model of src/rtps/writer.rs and src/rtps/rtps_reader_proxy.rs as the code is written:
     HistoryBuffer (first_seq / last_seq / add_change / get_by_sn / remove_changes_before),
     RtpsReaderProxy (all_acked_before, unsent_changes, pending_gap, repair_mode, frags_requested;
       new, update, handle_ack_nack, notify_new_cache_change, insert_pending_gap,
       set_pending_gap_up_to, mark_change_sent, remove_from_unsent_set_all_before,
       mark_all_frags_requested, mark_frag_sent, frags_requested_iterator),
     Writer::process_writer_command (DDSData, WaitForAcknowledgments), send_cache_change,
       handle_heartbeat_tick, handle_ack_nack (ACKNACK), update_ack_waiters,
       AckWaiter::reader_acked_or_lost, handle_repair_data_send(_worker),
       handle_repair_frags_send(_worker), handle_cache_cleaning,
       remove_all_acked_changes_but_keep_depth, update_reader_proxy / matched_reader_update,
       reader_lost,
     and of src/rtps/message.rs: MessageBuilder::gap_msg (incl. SequenceNumberSet::
       from_base_and_set with its 256 truncation), gap_msg_before, heartbeat_msg.

   Conventions.  Sequence numbers are unbounded Z.  A reader is a small integer standing for its
   GUID (order of integers = order of GUIDs in Writer.readers : BTreeMap<GUID, _>); every reader
   has its own unicast locator and no multicast locator, so send_message_to_readers sends one
   datagram per addressed reader, in GUID order.  BTreeSet<SequenceNumber> = strictly ascending
   list (kept so by [sins]); theorems never rely on the order ([lmin] is used for first()).
   The DataWriter hands out sequence numbers 1,2,3,... (DataWriter::next_sequence_number), so
   [Write] carries no number: it is last_seq+1.  Payload = bytes of the SerializedPayload (4 byte
   header ++ value), length a multiple of 4 (DATA padding and byte-exact fragmentation are C05's).
   Timers are explicit operations.  Not modelled: like_stateless writers, push_mode = false,
   security plugins, source timestamps (INFO_TS submessages are ignored by the driver),
   NACKFRAG (C02), locators shared between readers. *)
From Coq Require Import List ZArith Bool Lia.
From RD Require Import Common.Corr.
Import ListNotations.
Open Scope Z_scope.

(* ------------------------------------------------------------------------------------------ *)
(* BTreeSet<SequenceNumber> as ascending list                                                  *)

Fixpoint sins (x : Z) (l : list Z) : list Z :=
  match l with
  | [] => [x]
  | y :: l' => if x <? y then x :: l else if x =? y then l else y :: sins x l'
  end.
Definition smem (x : Z) (l : list Z) : bool := existsb (Z.eqb x) l.
Definition sdel (x : Z) (l : list Z) : list Z := filter (fun y => negb (y =? x)) l.
(* split_off(&k): the elements >= k *)
Definition sfrom (k : Z) (l : list Z) : list Z := filter (fun y => k <=? y) l.
Definition sbelow (k : Z) (l : list Z) : list Z := filter (fun y => y <? k) l.
Definition sunion (a l : list Z) : list Z := fold_left (fun acc x => sins x acc) a l.
Definition sdiff (l a : list Z) : list Z := filter (fun y => negb (smem y a)) l.
Definition lmin (x : Z) (l : list Z) : Z := fold_right Z.min x l.
Definition lmax (x : Z) (l : list Z) : Z := fold_right Z.max x l.
(* BTreeSet::first() *)
Definition first_of (l : list Z) : option Z :=
  match l with [] => None | x :: t => Some (lmin x t) end.
Definition last_of (l : list Z) : option Z :=
  match l with [] => None | x :: t => Some (lmax x t) end.
(* lo, lo+1, ..., lo+n-1 *)
Fixpoint zrange (lo : Z) (n : nat) : list Z :=
  match n with O => [] | S n' => lo :: zrange (lo + 1) n' end.
(* lo..hi; used by the driver to print long ascending runs compactly *)
Definition zr (lo hi : Z) : list Z := zrange lo (Z.to_nat (hi + 1 - lo)).
Definition len {A} (l : list A) : Z := Z.of_nat (length l).
Definition nonempty {A} (l : list A) : bool := match l with [] => false | _ => true end.

(* ------------------------------------------------------------------------------------------ *)
(* configuration, state                                                                        *)

Inductive hist_qos := HNone | HKeepAll | HKeepLast (d : Z).

Record cfg := {
  c_hist : hist_qos;      (* qos_policies.history *)
  c_dur : Z;              (* writer durability: 0 unspecified, 1 Volatile, 2 TransientLocal, .. *)
  c_dmax : Z;             (* data_max_size_serialized (fragment size) *)
  c_rlimit : Z }.         (* `resource_limit` of handle_cache_cleaning (32 in the source) *)

Record change := {
  ch_sn : Z;
  ch_single : option Z;   (* write_options.to_single_reader() *)
  ch_bytes : list Z }.

Record proxy := {
  p_id : Z;
  p_rel : bool;           (* qos().is_reliable() *)
  p_acked : Z;            (* all_acked_before *)
  p_unsent : list Z;      (* unsent_changes *)
  p_gap : list Z;         (* pending_gap *)
  p_repair : bool;        (* repair_mode *)
  p_frags : list (Z * list bool) }.  (* frags_requested : BTreeMap<SN, BitVec>, ascending SN *)

Record waiter := {
  w_chan : Z;             (* which completion channel (identifies the waiting call) *)
  w_until : Z;            (* wait_until *)
  w_pending : list Z }.   (* readers_pending *)

Record st := {
  s_first : Z;            (* history_buffer.first_seq *)
  s_last : Z;             (* history_buffer.last_seq *)
  s_hist : list change;   (* history_buffer (ascending sn) *)
  s_readers : list proxy; (* readers (ascending id) *)
  s_hb : Z;               (* heartbeat_message_counter *)
  s_aw : option waiter }. (* ack_waiter *)

Definition init : st := {| s_first := 1; s_last := 0; s_hist := []; s_readers := []; s_hb := 1;
                           s_aw := None |}.

Definition set_readers (s : st) (rs : list proxy) : st :=
  {| s_first := s_first s; s_last := s_last s; s_hist := s_hist s; s_readers := rs;
     s_hb := s_hb s; s_aw := s_aw s |}.
Definition set_hb (s : st) (n : Z) : st :=
  {| s_first := s_first s; s_last := s_last s; s_hist := s_hist s; s_readers := s_readers s;
     s_hb := n; s_aw := s_aw s |}.
Definition set_aw (s : st) (a : option waiter) : st :=
  {| s_first := s_first s; s_last := s_last s; s_hist := s_hist s; s_readers := s_readers s;
     s_hb := s_hb s; s_aw := a |}.
Definition set_hist (s : st) (f l : Z) (h : list change) : st :=
  {| s_first := f; s_last := l; s_hist := h; s_readers := s_readers s;
     s_hb := s_hb s; s_aw := s_aw s |}.

Definition p_with_unsent (p : proxy) (u : list Z) : proxy :=
  {| p_id := p_id p; p_rel := p_rel p; p_acked := p_acked p; p_unsent := u; p_gap := p_gap p;
     p_repair := p_repair p; p_frags := p_frags p |}.
Definition p_with_gap (p : proxy) (g : list Z) : proxy :=
  {| p_id := p_id p; p_rel := p_rel p; p_acked := p_acked p; p_unsent := p_unsent p; p_gap := g;
     p_repair := p_repair p; p_frags := p_frags p |}.
Definition p_with_repair (p : proxy) (b : bool) : proxy :=
  {| p_id := p_id p; p_rel := p_rel p; p_acked := p_acked p; p_unsent := p_unsent p;
     p_gap := p_gap p; p_repair := b; p_frags := p_frags p |}.
Definition p_with_frags (p : proxy) (f : list (Z * list bool)) : proxy :=
  {| p_id := p_id p; p_rel := p_rel p; p_acked := p_acked p; p_unsent := p_unsent p;
     p_gap := p_gap p; p_repair := p_repair p; p_frags := f |}.
Definition p_with_rel (p : proxy) (b : bool) : proxy :=
  {| p_id := p_id p; p_rel := b; p_acked := p_acked p; p_unsent := p_unsent p;
     p_gap := p_gap p; p_repair := p_repair p; p_frags := p_frags p |}.

(* readers : BTreeMap<GUID, RtpsReaderProxy> *)
Fixpoint rget (r : Z) (rs : list proxy) : option proxy :=
  match rs with
  | [] => None
  | p :: rs' => if p_id p =? r then Some p else rget r rs'
  end.
Fixpoint rset (p : proxy) (rs : list proxy) : list proxy :=
  match rs with
  | [] => [p]
  | q :: rs' => if p_id p <? p_id q then p :: rs
                else if p_id p =? p_id q then p :: rs' else q :: rset p rs'
  end.
Definition rdel (r : Z) (rs : list proxy) : list proxy :=
  filter (fun p => negb (p_id p =? r)) rs.

(* HistoryBuffer::get_by_sn *)
Fixpoint get_by_sn (sn : Z) (h : list change) : option change :=
  match h with
  | [] => None
  | c :: h' => if ch_sn c =? sn then Some c else get_by_sn sn h'
  end.

(* HistoryBuffer::remove_changes_before: acts only when the sequence number is present in
   sequence_number_to_instant; otherwise it logs and does nothing. *)
Definition remove_changes_before (s : st) (k : Z) : st :=
  match get_by_sn k (s_hist s) with
  | Some _ =>
      set_hist s (if s_first s <=? k then k else s_first s) (s_last s)
               (filter (fun c => k <=? ch_sn c) (s_hist s))
  | None => s
  end.

(* ------------------------------------------------------------------------------------------ *)
(* submessages and datagrams as the driver sees them after Message::read_from_buffer           *)

Inductive sub :=
| SInfoDst (r : Z)                                   (* INFO_DST guid prefix of reader r *)
| SGap (rd : Z) (start base : Z) (set : list Z)      (* GAP to reader entity rd *)
| SData (rd : option Z) (sn : Z) (bytes : list Z)    (* rd = None: ENTITYID_UNKNOWN *)
| SFrag (rd : option Z) (sn k dsize fsize : Z) (bytes : list Z)
| SHb (rd : option Z) (first last count : Z) (final live : bool).

Definition dgram := (Z * list sub)%type.             (* destination reader (by locator), content *)

(* MessageBuilder::gap_msg with SequenceNumberSet::from_base_and_set.
   [run_end e l]: `while irrelevant_sns.contains(&e) { e += 1 }` on an ascending list *)
Fixpoint run_end (e : Z) (l : list Z) : Z :=
  match l with
  | [] => e
  | x :: l' => if x =? e then run_end (e + 1) l' else if x <? e then run_end e l' else e
  end.

Definition gap_fields (l : list Z) : option (Z * Z * list Z) :=  (* gap_start, list base, set *)
  match l with
  | [] => None   (* "gap_msg called with empty SN set. Skipping GAP submessage" *)
  | x :: t =>
      let start := lmin x t in
      let base := run_end (start + 1) l in
      let lset := sfrom base l in
      match last_of lset with
      | None => Some (start, base, [])                       (* new_empty(base) *)
      | Some e0 =>
          let e := if 256 <=? e0 - base then base + 255 else e0 in
          Some (start, base, filter (fun y => (base <=? y) && (y <=? e)) lset)
      end
  end.

Definition gap_subs (l : list Z) (rd : Z) : list sub :=
  match gap_fields l with
  | None => []
  | Some (start, base, set) => [SGap rd start base set]
  end.

(* gap_msg_before: GAP for 1 <= SN < before *)
Definition gap_before_sub (before rd : Z) : sub := SGap rd 1 before [].

Definition gap_covers (g : sub) (sn : Z) : bool :=
  match g with
  | SGap _ start base set => ((start <=? sn) && (sn <? base)) || smem sn set
  | _ => false
  end.

(* Writer::num_frags_and_frag_size *)
Definition num_frags (dmax size : Z) : Z := size / dmax + (if size mod dmax =? 0 then 0 else 1).
(* MessageBuilder::data_frag_msg: bytes (k-1)*fs .. min(k*fs, size) *)
Definition slice (fs k : Z) (b : list Z) : list Z :=
  firstn (Z.to_nat fs) (skipn (Z.to_nat ((k - 1) * fs)) b).

(* Writer::send_cache_change.  Returns the datagrams, whether the data was fragmented, and the
   state (heartbeat counter consumed by next_heartbeat_count). *)
Definition send_cache_change (cf : cfg) (s : st) (cc : change) (also_hb : bool)
           (target : option proxy) : list dgram * bool * st :=
  let refuse :=
    match ch_single cc, target with
    | Some _, None => true                              (* "proxy ... not provided. Not sending" *)
    | Some g, Some t => negb (g =? p_id t)              (* "Not gonna happen." *)
    | None, _ => false
    end in
  if refuse then ([], false, s) else
  let dests := match target with None => map p_id (s_readers s) | Some t => [p_id t] end in
  let rd := option_map p_id target in
  let size := len (ch_bytes cc) in
  let fragmentation_needed := c_dmax cf <? size in
  let dst := match target with Some t => [SInfoDst (p_id t)] | None => [] end in
  let hb := if also_hb then [SHb rd (s_first s) (s_last s) (s_hb s) false false] else [] in
  let s' := if also_hb then set_hb s (s_hb s + 1) else s in
  let msgs :=
    if negb fragmentation_needed then
      [ dst ++ match target with Some t => gap_subs (p_gap t) (p_id t) | None => [] end
            ++ [SData rd (ch_sn cc) (ch_bytes cc)] ++ hb ]
    else
      match target with
      | Some t => if nonempty (p_gap t) then [dst ++ gap_subs (p_gap t) (p_id t)] else []
      | None => []
      end
      ++ map (fun k => dst ++ [SFrag rd (ch_sn cc) k size (c_dmax cf)
                                     (slice (c_dmax cf) k (ch_bytes cc))])
             (zrange 1 (Z.to_nat (num_frags (c_dmax cf) size)))
      ++ (if also_hb then [hb] else []) in
  (flat_map (fun m => map (fun d => (d, m)) dests) msgs, fragmentation_needed, s').

(* ------------------------------------------------------------------------------------------ *)
(* operations                                                                                  *)

Inductive op :=
| Write (single : option Z) (bytes : list Z)   (* WriterCommand::DDSData, sn = last+1 *)
| AckNack (r base : Z) (set : list Z)          (* handle_ack_nack(AckSubmessage::AckNack) *)
| Match (r : Z) (rel : bool) (dur : Z)         (* update_reader_proxy; dur as c_dur *)
| Lose (r : Z)                                 (* reader_lost *)
| HbTick (manual : bool)                       (* handle_heartbeat_tick *)
| CacheClean                                   (* TimedEvent::CacheCleaning *)
| RepairTick (r : Z)                           (* TimedEvent::SendRepairData *)
| FragsTick (r : Z)                            (* TimedEvent::SendRepairFrags *)
| WaitAck (w : Z).                             (* WriterCommand::WaitForAcknowledgments *)

Record out := { o_dgrams : list dgram; o_signals : list Z }.
Definition no_out : out := {| o_dgrams := []; o_signals := [] |}.
Definition dg_out (d : list dgram) : out := {| o_dgrams := d; o_signals := [] |}.

(* process_writer_command, DDSData *)
Definition do_write (cf : cfg) (s : st) (single : option Z) (bytes : list Z) : st * out :=
  let sn := s_last s + 1 in
  let cc := {| ch_sn := sn; ch_single := single; ch_bytes := bytes |} in
  (* insert_to_history_buffer / HistoryBuffer::add_change *)
  let s1 := set_hist s (s_first s) (if s_last s <? sn then sn else s_last s) (s_hist s ++ [cc]) in
  (* notify reader proxies *)
  let rs := map (fun p =>
                   let p1 := p_with_unsent p (sins sn (p_unsent p)) in
                   match single with
                   | Some g => if negb (p_id p =? g) then p_with_gap p1 (sins sn (p_gap p1)) else p1
                   | None => p1
                   end) (s_readers s1) in
  let s2 := set_readers s1 rs in
  (* push_mode *)
  let target := match single with Some g => rget g (s_readers s2) | None => None end in
  let '(dg, _, s3) := send_cache_change cf s2 cc true target in
  (s3, dg_out dg).

(* AckWaiter::reader_acked_or_lost + Writer::update_ack_waiters *)
Definition update_ack_waiters (s : st) (r : Z) (acked_before : option Z) : st * list Z :=
  match s_aw s with
  | None => (s, [])
  | Some w =>
      let pend :=
        match acked_before with
        | None => sdel r (w_pending w)
        | Some a => if w_until w <? a then sdel r (w_pending w) else w_pending w
        end in
      match pend with
      | [] => (set_aw s None, [w_chan w])
      | _ => (set_aw s (Some {| w_chan := w_chan w; w_until := w_until w; w_pending := pend |}), [])
      end
  end.

(* RtpsReaderProxy::handle_ack_nack *)
Definition proxy_ack_nack (p : proxy) (base : Z) (set : list Z) (last_available : Z) : proxy :=
  let new_acked := Z.max base 1 in
  let u1 := sunion (sfrom new_acked (p_unsent p)) set in
  let u2 := match last_of u1 with
            | Some high => if last_available <? high then sbelow (last_available + 1) u1 else u1
            | None => u1
            end in
  {| p_id := p_id p; p_rel := p_rel p; p_acked := new_acked; p_unsent := u2;
     p_gap := sfrom new_acked (p_gap p); p_repair := p_repair p; p_frags := p_frags p |}.

(* Writer::handle_ack_nack, AckNack arm (the writer is reliable and not stateless-like) *)
Definition do_ack_nack (s : st) (r base : Z) (set : list Z) : st * out :=
  let last_seq := s_last s in
  let '(s1, sig) := update_ack_waiters s r (Some base) in
  match rget r (s_readers s1) with
  | None => (s1, {| o_dgrams := []; o_signals := sig |})
  | Some p =>
      let p1 := proxy_ack_nack p base set last_seq in
      let p2 := p_with_repair p1 (negb (last_seq <? p_acked p1)) in
      let s2 := set_readers s1 (rset p2 (s_readers s1)) in
      (* "See if we need to respond by GAP message" (no INFO_DST here) *)
      let dg := if nonempty (p_gap p2) then [(r, gap_subs (p_gap p2) r)] else [] in
      (s2, {| o_dgrams := dg; o_signals := sig |})
  end.

(* QosPolicies::compliance_failure_wrt restricted to what the driver varies: the writer offers
   Reliable, so only Durability can fail: both specified and offered < requested *)
Definition qos_compatible (offered requested : Z) : bool :=
  negb ((0 <? offered) && (0 <? requested) && (offered <? requested)).

(* update_reader_proxy / matched_reader_update *)
Definition do_match (cf : cfg) (s : st) (r : Z) (rel : bool) (dur : Z) : st :=
  if negb (qos_compatible (c_dur cf) dur) then s else
  let reader_wants_history := 1 <? dur in
  let is_volatile := c_dur cf =? 1 in
  match rget r (s_readers s) with
  | Some p => set_readers s (rset (p_with_rel p rel) (s_readers s))   (* rp.update(): qos replaced *)
  | None =>
      let gaps := if is_volatile || negb reader_wants_history
                  then zrange 1 (Z.to_nat (s_last s))                  (* set_pending_gap_up_to *)
                  else [] in
      set_readers s (rset {| p_id := r; p_rel := rel; p_acked := 0; p_unsent := []; p_gap := gaps;
                             p_repair := false; p_frags := [] |} (s_readers s))
  end.

(* reader_lost *)
Definition do_lose (s : st) (r : Z) : st * out :=
  let s1 := set_readers s (rdel r (s_readers s)) in
  let '(s2, sig) := update_ack_waiters s1 r None in
  (s2, {| o_dgrams := []; o_signals := sig |}).

(* handle_heartbeat_tick *)
Definition do_hb_tick (s : st) (manual : bool) : st * out :=
  if forallb (fun p => s_last s <? p_acked p) (s_readers s) then (s, no_out)
  else
    let m := [SHb None (s_first s) (s_last s) (s_hb s) false manual] in
    (set_hb s (s_hb s + 1), dg_out (map (fun p => (p_id p, m)) (s_readers s))).

(* handle_cache_cleaning: the depth passed to remove_all_acked_changes_but_keep_depth.
   `min(d as usize, resource_limit)`: a negative i32 becomes a huge usize. *)
Definition depth_of (cf : cfg) : Z :=
  match c_hist cf with
  | HNone => 1
  | HKeepAll => c_rlimit cf
  | HKeepLast d => if d <? 0 then c_rlimit cf else Z.min d (c_rlimit cf)
  end.

(* remove_all_acked_changes_but_keep_depth at the pinned commit:
   readers.values().map(acked_up_to_before).min().unwrap_or_else(zero) *)
Definition acked_by_all_old (s : st) : Z :=
  match map p_acked (s_readers s) with
  | [] => 0
  | x :: t => lmin x t
  end.

(* ... and as repaired (fix: commits of C04): the minimum over the reliable reader proxies only,
   never above last_seq + 1 *)
Definition acked_by_all (s : st) : Z :=
  lmin (s_last s + 1) (map p_acked (filter p_rel (s_readers s))).

Definition do_cache_clean_with (ack : st -> Z) (cf : cfg) (s : st) : st :=
  let first_keeper := Z.max (ack s - depth_of cf) (s_first s) in
  remove_changes_before s first_keeper.
Definition do_cache_clean := do_cache_clean_with acked_by_all.

(* frags_requested helpers *)
Fixpoint fset (sn : Z) (bv : list bool) (m : list (Z * list bool)) : list (Z * list bool) :=
  match m with
  | [] => [(sn, bv)]
  | e :: m' => if sn <? fst e then (sn, bv) :: m
               else if sn =? fst e then (sn, bv) :: m' else e :: fset sn bv m'
  end.
Definition fdel (sn : Z) (m : list (Z * list bool)) : list (Z * list bool) :=
  filter (fun e => negb (fst e =? sn)) m.
(* fragment numbers (1-based) whose bit is set: FragBitVecIterator *)
Fixpoint set_bits (k : Z) (bv : list bool) : list Z :=
  match bv with
  | [] => []
  | b :: bv' => (if b then [k] else []) ++ set_bits (k + 1) bv'
  end.
Fixpoint clear_bits (k : Z) (ks : list Z) (bv : list bool) : list bool :=
  match bv with
  | [] => []
  | b :: bv' => (if smem k ks then false else b) :: clear_bits (k + 1) ks bv'
  end.

(* handle_repair_data_send_worker at the pinned commit ([fixed] = false) and as repaired
   ([fixed] = true: a sample written for another single reader is treated as irrelevant). *)
Definition is_some {A} (o : option A) : bool := match o with Some _ => true | None => false end.

(* the DATA-or-GAP decision for the lowest unsent number: datagrams sent by send_cache_change,
   the proxy after mark_change_sent / mark_all_frags_requested, and `no_longer_relevant`.
   send_cache_change is called with send_also_heartbeat = false: the writer state is unchanged. *)
Definition repair_decide (fixed : bool) (cf : cfg) (s : st) (r : Z) (p : proxy) (unsent_sn : Z)
           (all_irrelevant_before : option Z) : list dgram * proxy * list Z :=
  let pending_gaps := p_gap p in
  if smem unsent_sn pending_gaps || is_some all_irrelevant_before
  then ([], p, pending_gaps)
  else
    match get_by_sn unsent_sn (s_hist s) with
    | Some cc =>
        let other_single :=
          match ch_single cc with Some g => negb (g =? r) | None => false end in
        if fixed && other_single then ([], p, [unsent_sn])
        else
          let '(dg, fragmented, _) := send_cache_change cf s cc false (Some p) in
          let pa := if fragmented
                    then p_with_frags p
                           (fset unsent_sn
                                 (repeat true (Z.to_nat (num_frags (c_dmax cf)
                                                            (len (ch_bytes cc)))))
                                 (p_frags p))
                    else p in
          (dg, p_with_unsent pa (sdel unsent_sn (p_unsent pa)), [])
    | None => ([], p, [unsent_sn])
    end.

Definition do_repair_tick_with (fixed : bool) (cf : cfg) (s : st) (r : Z) : st * out :=
  match rget r (s_readers s) with
  | None => (s, no_out)
  | Some p =>
      match first_of (p_unsent p) with
      | None => (set_readers s (rset (p_with_repair p false) (s_readers s)), no_out)
      | Some unsent_sn =>
          let first_available := s_first s in
          let all_irrelevant_before :=
            if unsent_sn <? first_available then Some first_available else None in
          let '(dg1, p1, no_longer_relevant) :=
            repair_decide fixed cf s r p unsent_sn all_irrelevant_before in
          let send_gap := nonempty no_longer_relevant || is_some all_irrelevant_before in
          let p2 := match all_irrelevant_before with
                    | Some b => p_with_unsent p1 (sfrom b (p_unsent p1))
                    | None => p1
                    end in
          let p3 := p_with_unsent p2 (sdiff (p_unsent p2) no_longer_relevant) in
          let dg2 :=
            if send_gap
            then [(r, [SInfoDst r]
                        ++ match all_irrelevant_before with
                           | Some b => [gap_before_sub b r] | None => [] end
                        ++ gap_subs no_longer_relevant r)]
            else [] in
          (set_readers s (rset p3 (s_readers s)), dg_out (dg1 ++ dg2))
      end
  end.
Definition do_repair_tick := do_repair_tick_with true.

(* handle_repair_frags_send_worker *)
Definition do_frags_tick (cf : cfg) (s : st) (r : Z) : st * out :=
  match rget r (s_readers s) with
  | None => (s, no_out)
  | Some p =>
      match p_frags p with
      | [] => (s, no_out)
      | (sn, bv) :: _ =>
          let todo := firstn 8 (set_bits 1 bv) in
          match todo with
          | [] => (s, no_out)
          | _ =>
              let mark :=
                let bv' := clear_bits 1 todo bv in
                if existsb (fun b => b) bv' then fset sn bv' (p_frags p) else fdel sn (p_frags p) in
              match get_by_sn sn (s_hist s) with
              | Some cc =>
                  if match ch_single cc with Some g => negb (g =? r) | None => false end
                  then (s, no_out)                                       (* "Not gonna happen." return *)
                  else
                    let size := len (ch_bytes cc) in
                    let dg := map (fun k => (r, [SFrag (Some r) sn k size (c_dmax cf)
                                                       (slice (c_dmax cf) k (ch_bytes cc))])) todo in
                    (set_readers s (rset (p_with_frags p mark) (s_readers s)), dg_out dg)
              | None => (set_readers s (rset (p_with_frags p mark) (s_readers s)), no_out)
              end
          end
      end
  end.

(* process_writer_command, WaitForAcknowledgments *)
Definition do_wait_ack (s : st) (w : Z) : st * out :=
  let wait_until := s_last s in
  let readers_pending :=
    map p_id (filter (fun p => p_rel p && (p_acked p <=? wait_until)) (s_readers s)) in
  match readers_pending with
  | [] => (set_aw s None, {| o_dgrams := []; o_signals := [w] |})
  | _ => (set_aw s (Some {| w_chan := w; w_until := wait_until; w_pending := readers_pending |}),
          no_out)
  end.

(* [old] = true: the code at the pinned commit (before the fix: commits of this property) *)
Definition step_with (old : bool) (cf : cfg) (s : st) (o : op) : st * out :=
  match o with
  | Write single bytes => do_write cf s single bytes
  | AckNack r base set => do_ack_nack s r base set
  | Match r rel dur => (do_match cf s r rel dur, no_out)
  | Lose r => do_lose s r
  | HbTick manual => do_hb_tick s manual
  | CacheClean => (do_cache_clean_with (if old then acked_by_all_old else acked_by_all) cf s, no_out)
  | RepairTick r => do_repair_tick_with (negb old) cf s r
  | FragsTick r => do_frags_tick cf s r
  | WaitAck w => do_wait_ack s w
  end.
Definition step := step_with false.

(* ------------------------------------------------------------------------------------------ *)
(* correspondence interface                                                                    *)

(* state digest printed by the driver after every operation (through cfg-gated accessors) *)
Record pdig := {
  d_id : Z; d_rel : bool; d_acked : Z; d_unsent : list Z; d_gap : list Z; d_repair : bool;
  d_frags : list (Z * list bool) }.
Record digest := {
  g_first : Z; g_last : Z; g_hist : list Z; g_readers : list pdig;
  g_aw : option (Z * list Z) }.        (* wait_until, readers_pending *)

Definition pdig_of (p : proxy) : pdig :=
  {| d_id := p_id p; d_rel := p_rel p; d_acked := p_acked p; d_unsent := p_unsent p;
     d_gap := p_gap p; d_repair := p_repair p; d_frags := p_frags p |}.
Definition digest_of (s : st) : digest :=
  {| g_first := s_first s; g_last := s_last s; g_hist := map ch_sn (s_hist s);
     g_readers := map pdig_of (s_readers s);
     g_aw := option_map (fun w => (w_until w, w_pending w)) (s_aw s) |}.

Record sobs := { so_dgrams : list dgram; so_signals : list Z; so_digest : digest }.
Inductive obs := Obs (l : list sobs) | ObsPanic (at_op : Z).

Definition case := (cfg * list op)%type.

Fixpoint run_from (old : bool) (cf : cfg) (s : st) (ops : list op) : list sobs :=
  match ops with
  | [] => []
  | o :: ops' =>
      let '(s', ou) := step_with old cf s o in
      {| so_dgrams := o_dgrams ou; so_signals := o_signals ou; so_digest := digest_of s' |}
        :: run_from old cf s' ops'
  end.
Definition run (c : case) : obs := Obs (run_from false (fst c) init (snd c)).
Definition run_old (c : case) : obs := Obs (run_from true (fst c) init (snd c)).

Fixpoint state_after (old : bool) (cf : cfg) (s : st) (ops : list op) : st :=
  match ops with
  | [] => s
  | o :: ops' => state_after old cf (fst (step_with old cf s o)) ops'
  end.

(* decidable equality of observations *)
Definition zl_eqb := list_eqb Z.eqb.
Definition oz_eqb := option_eqb Z.eqb.
Definition sub_eqb (a b : sub) : bool :=
  match a, b with
  | SInfoDst r, SInfoDst r' => r =? r'
  | SGap rd s b0 l, SGap rd' s' b0' l' => (rd =? rd') && (s =? s') && (b0 =? b0') && zl_eqb l l'
  | SData rd sn by_, SData rd' sn' by' => oz_eqb rd rd' && (sn =? sn') && zl_eqb by_ by'
  | SFrag rd sn k ds fs by_, SFrag rd' sn' k' ds' fs' by' =>
      oz_eqb rd rd' && (sn =? sn') && (k =? k') && (ds =? ds') && (fs =? fs') && zl_eqb by_ by'
  | SHb rd f l c fi li, SHb rd' f' l' c' fi' li' =>
      oz_eqb rd rd' && (f =? f') && (l =? l') && (c =? c') && Bool.eqb fi fi' && Bool.eqb li li'
  | _, _ => false
  end.
Definition dgram_eqb (a b : dgram) : bool := (fst a =? fst b) && list_eqb sub_eqb (snd a) (snd b).
Definition frags_eqb (a b : list (Z * list bool)) : bool :=
  list_eqb (fun x y => (fst x =? fst y) && list_eqb Bool.eqb (snd x) (snd y)) a b.
Definition pdig_eqb (a b : pdig) : bool :=
  (d_id a =? d_id b) && Bool.eqb (d_rel a) (d_rel b) && (d_acked a =? d_acked b)
  && zl_eqb (d_unsent a) (d_unsent b) && zl_eqb (d_gap a) (d_gap b)
  && Bool.eqb (d_repair a) (d_repair b) && frags_eqb (d_frags a) (d_frags b).
Definition digest_eqb (a b : digest) : bool :=
  (g_first a =? g_first b) && (g_last a =? g_last b) && zl_eqb (g_hist a) (g_hist b)
  && list_eqb pdig_eqb (g_readers a) (g_readers b)
  && option_eqb (fun x y => (fst x =? fst y) && zl_eqb (snd x) (snd y)) (g_aw a) (g_aw b).
Definition sobs_eqb (a b : sobs) : bool :=
  list_eqb dgram_eqb (so_dgrams a) (so_dgrams b) && zl_eqb (so_signals a) (so_signals b)
  && digest_eqb (so_digest a) (so_digest b).
Definition obs_eqb (a b : obs) : bool :=
  match a, b with
  | Obs l, Obs l' => list_eqb sobs_eqb l l'
  | ObsPanic n, ObsPanic n' => n =? n'
  | _, _ => false
  end.

(* ------------------------------------------------------------------------------------------ *)
(* property oracle: looks at the inputs (configuration, operations: what was written, to whom)
   and at the implementation's observation (datagrams, digests) only.

   Per operation, with [w] = the samples written so far (from the case), [dp] = digest before,
   [so] = what the implementation emitted and its digest after:
   (R) retain   : a sample in the history before that some matched reliable reader has not
                  acknowledged (sn >= min all_acked_before over the reliable proxies) is still
                  there; a sample just written is there.
   (B) bound    : after cache cleaning (History depth >= 1) the history holds at most
                  depth_limit + #{samples not acknowledged by all matched reliable readers}.
   (A) answer   : a repair tick for reader r whose lowest requested number is u puts into a
                  datagram to r a GAP covering u or DATA / all DATAFRAGs of u with exactly the
                  written bytes - unless u < 1 (an ACKNACK with base 0 can ask for number 0,
                  which is never advertised) or u is a pending gap lying more than 255 above the lowest
                  pending gap (class [sparse_gap], see notes: not reachable for a number the
                  reader explicitly requested in its last ACKNACK).
   (H) heartbeat: every HEARTBEAT carries (first_seq, last_seq) of the history; last_seq = number
                  of samples written; first_seq = lowest number still retrievable (last+1 if none).
   (S) single   : every DATA / DATAFRAG carries exactly the bytes written under that number; a
                  sample written for reader g only goes to g's locator, after INFO_DST g, reader
                  entity g; INFO_DST / GAP / directed DATA name the reader they are sent to. *)

Definition dig_acked_by_all (d : digest) : Z :=
  lmin (g_last d + 1) (map d_acked (filter d_rel (g_readers d))).

Fixpoint dget (r : Z) (l : list pdig) : option pdig :=
  match l with [] => None | p :: l' => if d_id p =? r then Some p else dget r l' end.

Definition ok_retain (dp da : digest) : bool :=
  forallb (fun sn => negb (dig_acked_by_all dp <=? sn) || smem sn (g_hist da)) (g_hist dp).

Definition ok_bound (cf : cfg) (o : op) (dp da : digest) : bool :=
  match o with
  | CacheClean =>
      negb (1 <=? depth_of cf)
      || (len (g_hist da)
          <=? depth_of cf + len (filter (fun sn => dig_acked_by_all dp <=? sn) (g_hist dp)))
  | _ => true
  end.

Definition sparse_gap (u : Z) (gaps : list Z) : bool :=
  match first_of gaps with
  | Some m => smem u gaps && (m + 255 <? u)
  | None => false
  end.

Definition frag_ok (cf : cfg) (cc : change) (k : Z) (s : sub) : bool :=
  match s with
  | SFrag _ sn k' ds fs by_ =>
      (sn =? ch_sn cc) && (k' =? k) && (ds =? len (ch_bytes cc)) && (fs =? c_dmax cf)
      && zl_eqb by_ (slice (c_dmax cf) k (ch_bytes cc))
  | _ => false
  end.

Definition answered (cf : cfg) (w : list change) (r u : Z) (dgs : list dgram) : bool :=
  let mine := flat_map (fun d => if fst d =? r then snd d else []) dgs in
  existsb (fun s => gap_covers s u) mine
  || match get_by_sn u w with
     | None => false
     | Some cc =>
         existsb (fun s => match s with
                           | SData _ sn by_ => (sn =? u) && zl_eqb by_ (ch_bytes cc)
                           | _ => false end) mine
         || ((c_dmax cf <? len (ch_bytes cc))
             && forallb (fun k => existsb (frag_ok cf cc k) mine)
                        (zrange 1 (Z.to_nat (num_frags (c_dmax cf) (len (ch_bytes cc))))))
     end.

Definition ok_answer (cf : cfg) (w : list change) (o : op) (dp : digest) (dgs : list dgram) : bool :=
  match o with
  | RepairTick r =>
      match dget r (g_readers dp) with
      | None => true
      | Some p =>
          match first_of (d_unsent p) with
          | None => true
          | Some u => (u <? 1) || sparse_gap u (d_gap p) || answered cf w r u dgs
          end
      end
  | _ => true
  end.

Definition ok_hb (w : list change) (da : digest) (dgs : list dgram) : bool :=
  (g_last da =? len w)
  && (g_first da =? match g_hist da with [] => g_last da + 1 | x :: t => lmin x t end)
  && forallb (fun d => forallb (fun s => match s with
                                         | SHb _ f l _ _ _ => (f =? g_first da) && (l =? g_last da)
                                         | _ => true end) (snd d)) dgs.

Definition ok_sub_single (cf : cfg) (w : list change) (d : Z) (subs : list sub) (s : sub) : bool :=
  match s with
  | SInfoDst r => r =? d
  | SGap rd _ _ _ => rd =? d
  | SHb rd _ _ _ _ _ => match rd with Some x => x =? d | None => true end
  | SData rd sn by_ =>
      match rd with Some x => x =? d | None => true end
      && match get_by_sn sn w with
         | None => false
         | Some cc =>
             zl_eqb by_ (ch_bytes cc)
             && match ch_single cc with
                | None => true
                | Some g => (g =? d) && oz_eqb rd (Some g) && existsb (sub_eqb (SInfoDst g)) subs
                end
         end
  | SFrag rd sn k ds fs by_ =>
      match rd with Some x => x =? d | None => true end
      && match get_by_sn sn w with
         | None => false
         | Some cc =>
             frag_ok cf cc k s && (1 <=? k)
             && match ch_single cc with
                | None => true
                | Some g => (g =? d) && oz_eqb rd (Some g)
                end
         end
  end.

Definition ok_single (cf : cfg) (w : list change) (dgs : list dgram) : bool :=
  forallb (fun d => forallb (ok_sub_single cf w (fst d) (snd d)) (snd d)) dgs.

Definition written_after (w : list change) (o : op) : list change :=
  match o with
  | Write single bytes => w ++ [{| ch_sn := len w + 1; ch_single := single; ch_bytes := bytes |}]
  | _ => w
  end.

Definition ok_step (cf : cfg) (w : list change) (dp : digest) (o : op) (so : sobs) : bool :=
  let w' := written_after w o in
  let da := so_digest so in
  ok_retain dp da
  && match o with Write _ _ => smem (len w') (g_hist da) | _ => true end
  && ok_bound cf o dp da
  && ok_answer cf w' o dp (so_dgrams so)
  && ok_hb w' da (so_dgrams so)
  && ok_single cf w' (so_dgrams so).

Fixpoint ok_from (cf : cfg) (w : list change) (dp : digest) (ops : list op) (l : list sobs) : bool :=
  match ops, l with
  | [], [] => true
  | o :: ops', so :: l' =>
      ok_step cf w dp o so && ok_from cf (written_after w o) (so_digest so) ops' l'
  | _, _ => false
  end.

Definition ok (c : case) (o : obs) : bool :=
  match o with
  | Obs l => ok_from (fst c) [] (digest_of init) (snd c) l
  | ObsPanic _ => false
  end.
