(* C04 — Prop-level statements over reachable states, oracle soundness, refutations of the
   pinned code. *)
From Coq Require Import List ZArith Bool Lia.
From RD Require Import Common.Corr C04.Model C04.Basics C04.Proofs C04.Steps C04.ModelOk.
Import ListNotations.
Open Scope Z_scope.

(* ------------------------------------------------------------------------------------------ *)
(* what "acknowledged by all matched reliable readers" means                                    *)

Lemma lmin_attained x l : lmin x l = x \/ In (lmin x l) l.
Proof.
  induction l as [|y l IH]; [left; reflexivity|].
  unfold lmin in *. cbn [fold_right In].
  destruct (Z.min_spec y (fold_right Z.min x l)) as [[_ E]|[_ E]]; rewrite E; auto.
  destruct IH as [IH|IH]; auto.
Qed.

Lemma acked_by_all_spec s sn :
  sn <= s_last s ->
  (acked_by_all s <= sn <->
   exists p, In p (s_readers s) /\ p_rel p = true /\ p_acked p <= sn).
Proof.
  intros L. split.
  - intros H. unfold acked_by_all in H.
    destruct (lmin_attained (s_last s + 1) (map p_acked (filter p_rel (s_readers s)))) as [E|E].
    + lia.
    + apply in_map_iff in E as [p [E Hp]]. apply filter_In in Hp as [Hp R].
      exists p. repeat split; auto. lia.
  - intros (p & Hp & R & A). pose proof (acked_by_all_le s p Hp R). lia.
Qed.

(* ------------------------------------------------------------------------------------------ *)
(* C04_retain                                                                                   *)

Lemma retain_thm cf w s o cc p :
  0 <= c_rlimit cf -> reachable cf w s ->
  In cc (s_hist s) -> In p (s_readers s) -> p_rel p = true -> p_acked p <= ch_sn cc ->
  In cc (s_hist (fst (step cf s o))).
Proof.
  intros RL Re H Hp R A. apply (retain_step cf w); auto. apply (reachable_inv _ _ _ Re).
  right. pose proof (acked_by_all_le s p Hp R). pose proof (depth_nonneg cf RL). lia.
Qed.

Lemma retain_depth_thm cf w s o cc :
  reachable cf w s -> In cc (s_hist s) ->
  (o <> CacheClean \/ acked_by_all s - depth_of cf <= ch_sn cc) ->
  In cc (s_hist (fst (step cf s o))).
Proof. intros Re. apply (retain_step cf w). apply (reachable_inv _ _ _ Re). Qed.

(* ------------------------------------------------------------------------------------------ *)
(* C04_bound                                                                                    *)

Lemma bound_thm cf w s :
  reachable cf w s -> 1 <= depth_of cf ->
  len (s_hist (fst (step cf s CacheClean)))
  <= depth_of cf + len (filter (fun c => acked_by_all s <=? ch_sn c) (s_hist s)).
Proof. intros Re D. apply (bound_step cf w); auto. apply (reachable_inv _ _ _ Re). Qed.

(* with no reliable reader matched nothing counts as unacknowledged: at most depth samples stay *)
Lemma bound_no_reliable cf w s :
  reachable cf w s -> 1 <= depth_of cf ->
  (forall p, In p (s_readers s) -> p_rel p = false) ->
  len (s_hist (fst (step cf s CacheClean))) <= depth_of cf.
Proof.
  intros Re D NR. pose proof (bound_thm cf w s Re D) as B.
  assert (E : filter (fun c => acked_by_all s <=? ch_sn c) (s_hist s) = []).
  { apply filter_none. intros c Hc. apply Z.leb_gt.
    pose proof (inv_hist_first _ _ _ (reachable_inv _ _ _ Re) Hc) as [_ H].
    unfold acked_by_all. rewrite (filter_none p_rel); [cbn; lia | auto]. }
  rewrite E in B. change (len (@nil change)) with 0 in B. lia.
Qed.

(* ------------------------------------------------------------------------------------------ *)
(* C04_answer                                                                                   *)

Lemma answer_thm cf w s r p u :
  reachable cf w s -> rget r (s_readers s) = Some p -> first_of (p_unsent p) = Some u ->
  1 <= u -> sparse_gap u (p_gap p) = false ->
  answered cf w r u (o_dgrams (snd (step cf s (RepairTick r)))) = true.
Proof. intros Re. apply (answer_step cf w). apply (reachable_inv _ _ _ Re). Qed.

Lemma mine_inv r dgs x : In x (mine r dgs) -> exists m, In (r, m) dgs /\ In x m.
Proof.
  unfold mine. intros H. apply in_flat_map in H as [[d m] [Hd Hx]]. cbn in Hx.
  destruct (Z.eqb_spec d r); [subst; eauto | destruct Hx].
Qed.

(* Prop reading of [answered] *)
Definition answered_P (cf : cfg) (w : list change) (r u : Z) (dgs : list dgram) : Prop :=
  (exists m rd st b set, In (r, m) dgs /\ In (SGap rd st b set) m
                         /\ ((st <= u < b) \/ In u set))
  \/ exists cc, get_by_sn u w = Some cc /\
       ((exists m rd, In (r, m) dgs /\ In (SData rd u (ch_bytes cc)) m)
        \/ (c_dmax cf < len (ch_bytes cc) /\
            forall k, 1 <= k <= num_frags (c_dmax cf) (len (ch_bytes cc)) ->
              exists m rd, In (r, m) dgs /\
                In (SFrag rd u k (len (ch_bytes cc)) (c_dmax cf) (slice (c_dmax cf) k (ch_bytes cc))) m)).

Lemma answered_sound cf w r u dgs :
  answered cf w r u dgs = true -> answered_P cf w r u dgs.
Proof.
  rewrite answered_unfold. intros H. apply orb_true_iff in H as [H|H].
  - left. apply existsb_exists in H as [x [Hx C]]. apply mine_inv in Hx as [m [Hm Hx]].
    destruct x; try discriminate. cbn in C. exists m, rd, start, base, set. repeat split; auto.
    apply orb_true_iff in C as [C|C].
    + left. apply andb_true_iff in C as [C1 C2]. apply Z.leb_le in C1. apply Z.ltb_lt in C2. lia.
    + right. apply smem_In; auto.
  - right. destruct (get_by_sn u w) as [cc|] eqn:G; [|discriminate]. exists cc. split; auto.
    pose proof (get_by_sn_sn _ _ _ G) as Hsn.
    apply orb_true_iff in H as [H|H].
    + left. apply existsb_exists in H as [x [Hx C]]. apply mine_inv in Hx as [m [Hm Hx]].
      destruct x; try discriminate. apply andb_true_iff in C as [C1 C2].
      apply Z.eqb_eq in C1. apply zl_eqb_eq in C2. subst. eauto.
    + right. apply andb_true_iff in H as [H1 H2]. apply Z.ltb_lt in H1. split; auto.
      intros k Hk. rewrite forallb_forall in H2.
      assert (Hin : In k (zrange 1 (Z.to_nat (num_frags (c_dmax cf) (len (ch_bytes cc)))))).
      { apply zrange_In. lia. }
      specialize (H2 k Hin). apply existsb_exists in H2 as [x [Hx C]].
      apply mine_inv in Hx as [m [Hm Hx]]. destruct x; try discriminate. unfold frag_ok in C.
      repeat (apply andb_true_iff in C as [C ?]).
      repeat match goal with H : (_ =? _) = true |- _ => apply Z.eqb_eq in H end.
      match goal with H : zl_eqb _ _ = true |- _ => apply zl_eqb_eq in H end.
      subst. eauto.
Qed.

(* an explicit request (a number in the bitmap of the reader's ACKNACK, which spans at most 256
   numbers from its base) is never in the excluded class [sparse_gap] *)
Lemma rget_rset p rs : rget (p_id p) (rset p rs) = Some p.
Proof.
  induction rs as [|q rs IH]; cbn.
  - rewrite Z.eqb_refl. reflexivity.
  - destruct (Z.ltb_spec (p_id p) (p_id q)); cbn.
    + rewrite Z.eqb_refl. reflexivity.
    + destruct (Z.eqb_spec (p_id p) (p_id q)); cbn.
      * rewrite Z.eqb_refl. reflexivity.
      * destruct (Z.eqb_spec (p_id q) (p_id p)); [congruence | exact IH].
Qed.

Lemma core_readers_aw s r a : s_readers (fst (update_ack_waiters s r a)) = s_readers s.
Proof.
  unfold update_ack_waiters. destruct (s_aw s) as [w|]; cbn; auto.
  destruct a as [a|]; [destruct (w_until w <? a)|];
    match goal with |- context [match ?x with _ => _ end] => destruct x end; cbn; auto.
Qed.

Lemma nack_window_thm s r base set p :
  rget r (s_readers s) = Some p ->
  (forall sn, In sn set -> base <= sn < base + 256) ->
  exists p', rget r (s_readers (fst (do_ack_nack s r base set))) = Some p' /\
             p_acked p' = Z.max base 1 /\
             forall sn, In sn set -> sparse_gap sn (p_gap p') = false.
Proof.
  intros R W. unfold do_ack_nack. pose proof (core_readers_aw s r (Some base)) as E.
  destruct (update_ack_waiters s r (Some base)) as [s1 sig]. cbn [fst] in E. rewrite E, R.
  cbn [fst s_readers set_readers]. pose proof (rget_id _ _ _ R) as Pid.
  eexists. split.
  - rewrite <- Pid at 1.
    change (p_id p) with (p_id (p_with_repair (proxy_ack_nack p base set (s_last s))
                                  (negb (s_last s <? p_acked (proxy_ack_nack p base set (s_last s)))))).
    apply rget_rset.
  - split; [reflexivity|]. intros sn Hsn. cbn [p_gap p_with_repair proxy_ack_nack].
    unfold sparse_gap. destruct (first_of (sfrom (Z.max base 1) (p_gap p))) as [m|] eqn:F; auto.
    destruct (smem sn _); cbn [andb]; auto. apply Z.ltb_ge.
    assert (Hm : Z.max base 1 <= m).
    { destruct (sfrom (Z.max base 1) (p_gap p)) as [|x t] eqn:Q; [discriminate|].
      cbn in F. inversion F; subst m.
      destruct (lmin_attained x t) as [->|Hin].
      - assert (In x (sfrom (Z.max base 1) (p_gap p))) by (rewrite Q; cbn; auto).
        unfold sfrom in H. apply filter_In in H as [_ H]. apply Z.leb_le in H. auto.
      - assert (In (lmin x t) (sfrom (Z.max base 1) (p_gap p))) by (rewrite Q; cbn; auto).
        unfold sfrom in H. apply filter_In in H as [_ H]. apply Z.leb_le in H. auto. }
    specialize (W sn Hsn). lia.
Qed.

(* ------------------------------------------------------------------------------------------ *)
(* C04_heartbeat                                                                                *)

Lemma heartbeat_thm cf w s o :
  reachable cf w s ->
  let s' := fst (step cf s o) in
  (forall d m rd f l c fi li, In (d, m) (o_dgrams (snd (step cf s o))) -> In (SHb rd f l c fi li) m ->
     f = s_first s' /\ l = s_last s')
  /\ s_last s' = len (written_after w o)
  /\ (forall sn, (exists c, get_by_sn sn (s_hist s') = Some c) <-> s_first s' <= sn <= s_last s')
  /\ 1 <= s_first s' <= s_last s' + 1.
Proof.
  intros Re s'. pose proof (reachable_inv _ _ _ Re) as I.
  pose proof (inv_step cf w s o I) as I'. fold s' in I'.
  pose proof (step_good cf w s o I) as G. cbv zeta in G. fold s' in G.
  apply dgs_good_split in G as [GH _].
  split; [|split; [|split]].
  - intros d m rd f l c fi li Hd Hm. unfold hb_ok in GH. rewrite forallb_forall in GH.
    specialize (GH _ Hd). cbn [snd] in GH. rewrite forallb_forall in GH. specialize (GH _ Hm).
    cbn in GH. apply andb_true_iff in GH as [A B]. apply Z.eqb_eq in A, B. auto.
  - apply (inv_last _ _ I').
  - intros sn. split.
    + intros [c Hc]. apply (inv_get_hist _ _ _ _ I' Hc).
    + intros H. apply (inv_hist_get _ _ _ I' H).
  - apply (inv_first _ _ I').
Qed.

(* ------------------------------------------------------------------------------------------ *)
(* C04_single_reader                                                                            *)

Definition data_ok_P (cf : cfg) (w : list change) (d : Z) (m : list sub) (x : sub) : Prop :=
  match x with
  | SData rd sn by_ =>
      exists cc, get_by_sn sn w = Some cc /\ by_ = ch_bytes cc /\
                 forall g, ch_single cc = Some g -> d = g /\ rd = Some g /\ In (SInfoDst g) m
  | SFrag rd sn k ds fs by_ =>
      exists cc, get_by_sn sn w = Some cc /\ by_ = slice (c_dmax cf) k (ch_bytes cc) /\
                 ds = len (ch_bytes cc) /\ fs = c_dmax cf /\ 1 <= k /\
                 forall g, ch_single cc = Some g -> d = g /\ rd = Some g
  | SInfoDst r => r = d
  | SGap rd _ _ _ => rd = d
  | SHb rd _ _ _ _ _ => rd = None \/ rd = Some d
  end.

Lemma oz_eqb_eq a b : oz_eqb a b = true -> a = b.
Proof. unfold oz_eqb. apply option_eqb_spec. intros; apply Z.eqb_eq. Qed.

Lemma ok_sub_single_sound cf w d m x : ok_sub_single cf w d m x = true -> data_ok_P cf w d m x.
Proof.
  destruct x; cbn.
  - apply Z.eqb_eq.
  - apply Z.eqb_eq.
  - intros H. apply andb_true_iff in H as [_ H].
    destruct (get_by_sn sn w) as [cc|]; [|discriminate]. exists cc. split; auto.
    apply andb_true_iff in H as [H1 H2]. apply zl_eqb_eq in H1. split; auto.
    intros g Hg. rewrite Hg in H2. apply andb_true_iff in H2 as [H2 H3].
    apply andb_true_iff in H2 as [H2 H4]. apply Z.eqb_eq in H2. apply oz_eqb_eq in H4.
    apply existsb_exists in H3 as [y [Hy E]]. destruct y; try discriminate. cbn in E.
    apply Z.eqb_eq in E. subst. auto.
  - intros H. apply andb_true_iff in H as [_ H].
    destruct (get_by_sn sn w) as [cc|]; [|discriminate]. exists cc. split; auto.
    apply andb_true_iff in H as [H H2]. apply andb_true_iff in H as [H H1].
    unfold frag_ok in H. repeat (apply andb_true_iff in H as [H ?]).
    repeat match goal with H : (_ =? _) = true |- _ => apply Z.eqb_eq in H end.
    match goal with H : zl_eqb _ _ = true |- _ => apply zl_eqb_eq in H end.
    apply Z.leb_le in H1. repeat split; auto.
    all: match goal with Hg : ch_single _ = Some _ |- _ => rewrite Hg in H2 end;
      apply andb_true_iff in H2 as [A B]; apply Z.eqb_eq in A; apply oz_eqb_eq in B; subst; auto.
  - destruct rd as [x|]; auto. intros H. apply Z.eqb_eq in H. subst. auto.
Qed.

Lemma single_thm cf w s o :
  reachable cf w s ->
  forall d m x, In (d, m) (o_dgrams (snd (step cf s o))) -> In x m ->
    data_ok_P cf (written_after w o) d m x.
Proof.
  intros Re d m x Hd Hx. pose proof (reachable_inv _ _ _ Re) as I.
  pose proof (step_good cf w s o I) as G. cbv zeta in G. apply dgs_good_split in G as [_ GS].
  unfold ok_single in GS. rewrite forallb_forall in GS. specialize (GS _ Hd). cbn [fst snd] in GS.
  rewrite forallb_forall in GS. apply ok_sub_single_sound. auto.
Qed.

(* another matched reader asking for a sample written for reader g alone is sent a GAP *)
Lemma single_gap_thm cf w s r p u cc g :
  0 < c_dmax cf -> reachable cf w s ->
  rget r (s_readers s) = Some p -> first_of (p_unsent p) = Some u ->
  1 <= u -> sparse_gap u (p_gap p) = false ->
  get_by_sn u w = Some cc -> ch_single cc = Some g -> g <> r ->
  exists m rd st b set, In (r, m) (o_dgrams (snd (step cf s (RepairTick r))))
                        /\ In (SGap rd st b set) m /\ ((st <= u < b) \/ In u set).
Proof.
  intros DM Re R U U1 SP G S NE.
  pose proof (answered_sound _ _ _ _ _ (answer_thm cf w s r p u Re R U U1 SP)) as [A|A]; auto.
  exfalso. destruct A as (cc' & G' & A). rewrite G in G'. inversion G'; subst cc'.
  destruct A as [(m & rd & Hm & Hx)|(DL & A)].
  - pose proof (single_thm cf w s (RepairTick r) Re _ _ _ Hm Hx) as (c2 & G2 & _ & H2).
    cbn [written_after] in G2. rewrite G in G2. inversion G2; subst c2.
    destruct (H2 g S) as [E _]. congruence.
  - assert (K : 1 <= 1 <= num_frags (c_dmax cf) (len (ch_bytes cc))).
    { unfold num_frags. split; [lia|].
      assert (1 <= len (ch_bytes cc) / c_dmax cf) by (apply Z.div_le_lower_bound; lia).
      destruct (_ =? 0); lia. }
    destruct (A 1 K) as (m & rd & Hm & Hx).
    pose proof (single_thm cf w s (RepairTick r) Re _ _ _ Hm Hx) as (c2 & G2 & _ & _ & _ & _ & H2).
    cbn [written_after] in G2. rewrite G in G2. inversion G2; subst c2.
    destruct (H2 g S) as [E _]. congruence.
Qed.

(* ------------------------------------------------------------------------------------------ *)
(* oracle soundness: what [ok] = true says about an observed trace                              *)

Definition step_spec (cf : cfg) (w : list change) (dp : digest) (o : op) (so : sobs) : Prop :=
  let w' := written_after w o in
  let da := so_digest so in
  (* retain *)
  (forall sn, In sn (g_hist dp) -> dig_acked_by_all dp <= sn -> In sn (g_hist da))
  /\ match o with Write _ _ => In (len w') (g_hist da) | _ => True end
  (* bound *)
  /\ (o = CacheClean -> 1 <= depth_of cf ->
      len (g_hist da)
      <= depth_of cf + len (filter (fun sn => dig_acked_by_all dp <=? sn) (g_hist dp)))
  (* answer *)
  /\ (forall r p u, o = RepairTick r -> dget r (g_readers dp) = Some p ->
        first_of (d_unsent p) = Some u -> 1 <= u -> sparse_gap u (d_gap p) = false ->
        answered_P cf w' r u (so_dgrams so))
  (* heartbeat *)
  /\ (g_last da = len w'
      /\ g_first da = match g_hist da with [] => g_last da + 1 | x :: t => lmin x t end
      /\ forall d m rd f l c fi li, In (d, m) (so_dgrams so) -> In (SHb rd f l c fi li) m ->
           f = g_first da /\ l = g_last da)
  (* single reader, byte fidelity *)
  /\ (forall d m x, In (d, m) (so_dgrams so) -> In x m -> data_ok_P cf w' d m x).

Lemma ok_step_sound cf w dp o so : ok_step cf w dp o so = true -> step_spec cf w dp o so.
Proof.
  unfold ok_step, step_spec. intros H.
  repeat match type of H with (_ && _) = true => apply andb_true_iff in H as [H ?] end.
  rename H into A1, H4 into A2, H3 into A3, H2 into A4, H1 into A5, H0 into A6.
  split; [|split; [|split; [|split; [|split]]]].
  - intros sn Hsn Ha. unfold ok_retain in A1. rewrite forallb_forall in A1. specialize (A1 sn Hsn).
    apply orb_true_iff in A1 as [A1|A1]; [|apply smem_In; auto].
    apply negb_true_iff, Z.leb_gt in A1. lia.
  - destruct o; auto. apply smem_In; auto.
  - intros -> D. cbn in A3. apply orb_true_iff in A3 as [A3|A3].
    + apply negb_true_iff, Z.leb_gt in A3. lia.
    + apply Z.leb_le; auto.
  - intros r p u -> R U U1 SP. cbn in A4. rewrite R, U, SP in A4.
    destruct (Z.ltb_spec u 1); [lia|]. cbn in A4. apply answered_sound; auto.
  - unfold ok_hb in A5. apply andb_true_iff in A5 as [A5 A7]. apply andb_true_iff in A5 as [A5 A8].
    apply Z.eqb_eq in A5, A8. repeat split; auto.
    all: rewrite forallb_forall in A7; specialize (A7 _ H); cbn [snd] in A7;
      rewrite forallb_forall in A7; specialize (A7 _ H0); cbn in A7;
      apply andb_true_iff in A7 as [B1 B2]; apply Z.eqb_eq in B1, B2; auto.
  - intros d m x Hd Hx. unfold ok_single in A6. rewrite forallb_forall in A6.
    specialize (A6 _ Hd). cbn [fst snd] in A6. rewrite forallb_forall in A6.
    apply ok_sub_single_sound; auto.
Qed.

Fixpoint trace_spec (cf : cfg) (w : list change) (dp : digest) (ops : list op) (l : list sobs) : Prop :=
  match ops, l with
  | [], [] => True
  | o :: ops', so :: l' =>
      step_spec cf w dp o so /\ trace_spec cf (written_after w o) (so_digest so) ops' l'
  | _, _ => False
  end.

Lemma ok_sound c o :
  ok c o = true -> exists l, o = Obs l /\ trace_spec (fst c) [] (digest_of init) (snd c) l.
Proof.
  destruct o as [l|n]; [|discriminate]. cbn [ok]. intros H. exists l. split; auto.
  revert H. generalize (@nil change) (digest_of init) l. induction (snd c) as [|o ops IH];
    intros w dp [|so l']; cbn; auto; try discriminate.
  intros H. apply andb_true_iff in H as [H1 H2]. split; [apply ok_step_sound; auto | apply IH; auto].
Qed.

(* ------------------------------------------------------------------------------------------ *)
(* the pinned code (before the fix: commits): refutations by concrete witnesses                 *)

Definition cf_kl2 : cfg := {| c_hist := HKeepLast 2; c_dur := 2; c_dmax := 1024; c_rlimit := 32 |}.
Definition wr (i : Z) : op := Write None [0; 1; 0; 0; i; 1; 2; 3].

(* F5: no reader at all: six samples, History KeepLast(2), cleaning removes nothing *)
Definition F5_case : case := (cf_kl2, [wr 0; wr 1; wr 2; wr 3; wr 4; wr 5; CacheClean]).
Lemma F5_refuted : ok F5_case (run_old F5_case) = false.
Proof. vm_compute. reflexivity. Qed.

(* only a best-effort reader *)
Definition F5b_case : case :=
  (cf_kl2, [Match 1 false 0; wr 0; wr 1; wr 2; wr 3; wr 4; wr 5; CacheClean]).
Lemma F5b_refuted : ok F5b_case (run_old F5b_case) = false.
Proof. vm_compute. reflexivity. Qed.

(* an ACKNACK base beyond last_seq stops cleaning *)
Definition ack_beyond_case : case :=
  (cf_kl2, [Match 1 true 2; wr 0; wr 1; wr 2; wr 3; wr 4; wr 5; AckNack 1 500 []; CacheClean]).
Lemma ack_beyond_refuted : ok ack_beyond_case (run_old ack_beyond_case) = false.
Proof. vm_compute. reflexivity. Qed.

(* a late joining TransientLocal reader asks for a sample written for another single reader: the
   request is dropped (neither DATA nor GAP) *)
Definition single_late_case : case :=
  ({| c_hist := HKeepLast 10; c_dur := 2; c_dmax := 1024; c_rlimit := 32 |},
   [Match 2 true 2; wr 0; Write (Some 2) [0; 1; 0; 0; 9; 9; 9; 2]; wr 0; Match 1 true 2;
    AckNack 1 1 [1; 2; 3]; RepairTick 1; RepairTick 1; RepairTick 1]).
Lemma single_late_refuted : ok single_late_case (run_old single_late_case) = false.
Proof. vm_compute. reflexivity. Qed.

Lemma old_witnesses_now_ok :
  ok F5_case (run F5_case) = true /\ ok F5b_case (run F5b_case) = true
  /\ ok ack_beyond_case (run ack_beyond_case) = true
  /\ ok single_late_case (run single_late_case) = true.
Proof. vm_compute. auto. Qed.

(* the window hypothesis of the answer theorem is needed: pending gaps {1, 301}, lowest unsent
   number 301 while the reader still stands at base 1: the GAP of that tick covers only 1 *)
Fixpoint nops (n : nat) (o : op) : list op := match n with O => [] | S n' => o :: nops n' o end.
Definition sparse_ops : list op :=
  [Match 1 true 2; Match 2 true 2; Write (Some 2) [0; 1; 0; 0]; AckNack 1 1 []; RepairTick 1]
  ++ nops 299 (Write None [0; 1; 0; 0]) ++ nops 299 (RepairTick 1)
  ++ [Write (Some 2) [0; 1; 0; 0]; AckNack 1 1 []].
Definition cf_all : cfg := {| c_hist := HKeepAll; c_dur := 2; c_dmax := 1024; c_rlimit := 32 |}.

Lemma answer_window_needed :
  let s := state_after false cf_all init sparse_ops in
  let w := writes_from [] sparse_ops in
  exists p, rget 1 (s_readers s) = Some p /\ first_of (p_unsent p) = Some 301
            /\ sparse_gap 301 (p_gap p) = true
            /\ answered cf_all w 1 301 (o_dgrams (snd (step cf_all s (RepairTick 1)))) = false.
Proof. vm_compute. eexists. repeat split. Qed.

(* non-vacuity: a reachable state with a reliable reader that has not acknowledged, a request
   pending, and cleaning that really removes samples *)
Definition nv_ops : list op :=
  [Match 1 true 2; wr 0; wr 1; wr 2; wr 3; wr 4; AckNack 1 4 [4; 5]].
Lemma nonvacuous :
  let s := state_after false cf_kl2 init nv_ops in
  reachable cf_kl2 (writes_from [] nv_ops) s
  /\ (exists p, rget 1 (s_readers s) = Some p /\ p_rel p = true
                /\ first_of (p_unsent p) = Some 4 /\ sparse_gap 4 (p_gap p) = false)
  /\ len (s_hist s) = 5 /\ len (s_hist (fst (step cf_kl2 s CacheClean))) = 4
  /\ 1 <= depth_of cf_kl2.
Proof.
  cbv zeta. split; [exists nv_ops; split; reflexivity|].
  split; [eexists; vm_compute; repeat split|]. vm_compute. repeat split; discriminate.
Qed.
