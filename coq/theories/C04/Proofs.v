(* C04 — frame lemmas, preservation of the history invariant, per-step theorems. *)
From Coq Require Import List ZArith Bool Lia.
From RD Require Import Common.Corr C04.Model C04.Basics.
Import ListNotations.
Open Scope Z_scope.

(* ------------------------------------------------------------------------------------------ *)
(* which operations touch the history                                                          *)

Definition core_eq (s s' : st) : Prop :=
  s_first s' = s_first s /\ s_last s' = s_last s /\ s_hist s' = s_hist s.

Lemma core_refl s : core_eq s s. Proof. repeat split. Qed.
Lemma core_trans a b c : core_eq a b -> core_eq b c -> core_eq a c.
Proof. unfold core_eq; intuition congruence. Qed.
Lemma core_set_readers s rs : core_eq s (set_readers s rs). Proof. repeat split. Qed.
Lemma core_set_hb s n : core_eq s (set_hb s n). Proof. repeat split. Qed.
Lemma core_set_aw s a : core_eq s (set_aw s a). Proof. repeat split. Qed.
#[export] Hint Resolve core_refl core_set_readers core_set_hb core_set_aw : core.

Lemma core_update_ack_waiters s r a : core_eq s (fst (update_ack_waiters s r a)).
Proof.
  unfold update_ack_waiters. destruct (s_aw s) as [w|]; cbn; auto.
  destruct a as [a|]; [destruct (w_until w <? a)|];
    match goal with |- context [match ?x with _ => _ end] => destruct x end; cbn; auto.
Qed.

Lemma scc_state cf s cc hb t :
  snd (send_cache_change cf s cc hb t) = if hb then snd (send_cache_change cf s cc hb t) else s.
Proof.
  destruct hb; auto. unfold send_cache_change.
  match goal with |- context [if ?x then _ else _] => destruct x end; reflexivity.
Qed.

Lemma core_scc cf s cc hb t : core_eq s (snd (send_cache_change cf s cc hb t)).
Proof.
  unfold send_cache_change.
  match goal with |- context [if ?x then _ else _] => destruct x end; cbn; auto.
  all: try (destruct hb; cbn; auto).
Qed.

Lemma core_do_ack_nack s r b l : core_eq s (fst (do_ack_nack s r b l)).
Proof.
  unfold do_ack_nack. pose proof (core_update_ack_waiters s r (Some b)) as H.
  destruct (update_ack_waiters s r (Some b)) as [s1 sig]. cbn [fst] in H.
  destruct (rget r (s_readers s1)); cbn [fst]; auto.
  all: try (eapply core_trans; [exact H | auto]).
Qed.

Lemma core_do_match cf s r rel d : core_eq s (do_match cf s r rel d).
Proof.
  unfold do_match. destruct (negb _); auto. destruct (rget r (s_readers s)); auto.
Qed.

Lemma core_do_lose s r : core_eq s (fst (do_lose s r)).
Proof.
  unfold do_lose. pose proof (core_update_ack_waiters (set_readers s (rdel r (s_readers s))) r None) as H.
  destruct (update_ack_waiters _ r None) as [s2 sig]. cbn [fst] in *.
  eapply core_trans; [|exact H]. auto.
Qed.

Lemma core_do_hb_tick s m : core_eq s (fst (do_hb_tick s m)).
Proof. unfold do_hb_tick. destruct (forallb _ _); cbn; auto. Qed.

Lemma core_do_wait_ack s w : core_eq s (fst (do_wait_ack s w)).
Proof. unfold do_wait_ack. destruct (map _ _); cbn; auto. Qed.

Lemma core_do_frags_tick cf s r : core_eq s (fst (do_frags_tick cf s r)).
Proof.
  unfold do_frags_tick.
  repeat (match goal with |- context [match ?x with _ => _ end] => destruct x end; cbn [fst]; auto).
Qed.

Lemma core_do_repair_tick fx cf s r : core_eq s (fst (do_repair_tick_with fx cf s r)).
Proof.
  unfold do_repair_tick_with. destruct (rget r (s_readers s)) as [p|]; cbn; auto.
  destruct (first_of (p_unsent p)) as [u|]; cbn; auto.
  destruct (repair_decide _ _ _ _ _ _ _) as [[dg1 p1] nlr]. cbn; auto.
Qed.

(* ------------------------------------------------------------------------------------------ *)
(* invariant preservation                                                                       *)

Lemma inv_core w s s' : inv w s -> core_eq s s' -> inv w s'.
Proof.
  intros [N L F H] (E1 & E2 & E3). constructor.
  - exact N.
  - rewrite E2; exact L.
  - rewrite E1, E2; exact F.
  - rewrite E3, E1; exact H.
Qed.

Lemma inv_do_write cf w s single bytes :
  inv w s -> inv (written_after w (Write single bytes)) (fst (do_write cf s single bytes)).
Proof.
  intros I. unfold do_write, written_after.
  set (cc := {| ch_sn := s_last s + 1; ch_single := single; ch_bytes := bytes |}).
  match goal with |- context [send_cache_change ?a ?b ?c ?d ?e] =>
    pose proof (core_scc a b c d e) as HC; destruct (send_cache_change a b c d e) as [[dg fr] s3] end.
  cbn [fst snd] in *. eapply inv_core; [|exact HC].
  destruct I as [N L F H]. rewrite <- L.
  replace (if s_last s <? s_last s + 1 then s_last s + 1 else s_last s) with (s_last s + 1)
    by (destruct (Z.ltb_spec (s_last s) (s_last s + 1)); lia).
  assert (len1 : forall (x : change), len [x] = 1) by reflexivity.
  constructor; cbn.
  - apply numbered_app; auto. cbn [ch_sn]. lia.
  - rewrite len_app, len1. lia.
  - lia.
  - rewrite filter_app, <- H. cbn [filter ch_sn].
    destruct (Z.leb_spec (s_first s) (s_last s + 1)); [reflexivity | lia].
Qed.

Lemma filter_filter_ge (w : list change) a b :
  a <= b -> filter (fun c => b <=? ch_sn c) (filter (fun c => a <=? ch_sn c) w)
            = filter (fun c => b <=? ch_sn c) w.
Proof.
  intros H. induction w as [|c w IH]; cbn [filter]; auto.
  destruct (Z.leb_spec a (ch_sn c)); cbn [filter].
  - rewrite IH; auto.
  - destruct (Z.leb_spec b (ch_sn c)); [lia | auto].
Qed.

Lemma inv_remove_before w s k : inv w s -> inv w (remove_changes_before s k).
Proof.
  intros I. unfold remove_changes_before.
  destruct (get_by_sn k (s_hist s)) as [c|] eqn:G; auto.
  destruct (inv_get_hist _ _ _ _ I G) as [Hk _].
  destruct I as [N L F H].
  destruct (Z.leb_spec (s_first s) k); [|lia].
  constructor; cbn; auto; try lia.
  rewrite H. apply filter_filter_ge. lia.
Qed.

Lemma inv_step cf w s o : inv w s -> inv (written_after w o) (fst (step cf s o)).
Proof.
  intros I. destruct o; cbn [step step_with fst written_after].
  - apply inv_do_write; auto.
  - eapply inv_core; [eauto | apply core_do_ack_nack].
  - eapply inv_core; [eauto | apply core_do_match].
  - eapply inv_core; [eauto | apply core_do_lose].
  - eapply inv_core; [eauto | apply core_do_hb_tick].
  - apply inv_remove_before; auto.
  - eapply inv_core; [eauto | apply core_do_repair_tick].
  - eapply inv_core; [eauto | apply core_do_frags_tick].
  - eapply inv_core; [eauto | apply core_do_wait_ack].
Qed.

(* the samples written by a list of operations, and the state they lead to *)
Fixpoint writes_from (w : list change) (ops : list op) : list change :=
  match ops with [] => w | o :: ops' => writes_from (written_after w o) ops' end.

Lemma inv_state_after cf ops : forall w s, inv w s ->
  inv (writes_from w ops) (state_after false cf s ops).
Proof.
  induction ops as [|o ops IH]; intros w s I; cbn; auto.
  apply IH. apply (inv_step cf); auto.
Qed.

Definition reachable (cf : cfg) (w : list change) (s : st) : Prop :=
  exists ops, w = writes_from [] ops /\ s = state_after false cf init ops.

Lemma reachable_inv cf w s : reachable cf w s -> inv w s.
Proof. intros [ops [-> ->]]. apply inv_state_after. apply inv_init. Qed.
