(* C04 — the model satisfies its own oracle (every step), for all cases. *)
From Coq Require Import List ZArith Bool Lia.
From RD Require Import Common.Corr C04.Model C04.Basics C04.Proofs C04.Steps.
Import ListNotations.
Open Scope Z_scope.

Lemma dig_acked s : dig_acked_by_all (digest_of s) = acked_by_all s.
Proof.
  unfold dig_acked_by_all, acked_by_all, digest_of. cbn [g_last g_readers]. f_equal.
  induction (s_readers s) as [|p rs IH]; cbn; auto.
  destruct (p_rel p); cbn; rewrite IH; auto.
Qed.

Lemma dget_digest r rs : dget r (map pdig_of rs) = option_map pdig_of (rget r rs).
Proof. induction rs as [|p rs IH]; cbn; auto. destruct (p_id p =? r); auto. Qed.

Lemma filter_map_sn (f : Z -> bool) (h : list change) :
  filter f (map ch_sn h) = map ch_sn (filter (fun c => f (ch_sn c)) h).
Proof. induction h as [|c h IH]; cbn; auto. destruct (f (ch_sn c)); cbn; rewrite IH; auto. Qed.

Lemma len_map {A B} (f : A -> B) l : len (map f l) = len l.
Proof. unfold len. rewrite map_length. reflexivity. Qed.

Lemma depth_nonneg cf : 0 <= c_rlimit cf -> 0 <= depth_of cf.
Proof.
  unfold depth_of. destruct (c_hist cf) as [| |d]; try lia.
  destruct (Z.ltb_spec d 0); lia.
Qed.

Lemma first_is_min w s :
  inv w s ->
  s_first s = match map ch_sn (s_hist s) with [] => s_last s + 1 | x :: t => lmin x t end.
Proof.
  intros I. pose proof (inv_hist_len _ _ I) as L. pose proof (inv_first _ _ I) as F.
  destruct (s_hist s) as [|c h] eqn:E.
  - change (len (@nil change)) with 0 in L. cbn. lia.
  - cbn [map].
    assert (LB : s_first s <= lmin (ch_sn c) (map ch_sn h)).
    { assert (H : forall y, In y (map ch_sn (c :: h)) -> s_first s <= y).
      { intros y Hy. apply in_map_iff in Hy as [d [<- Hd]]. rewrite <- E in Hd.
        apply (inv_hist_first _ _ _ I Hd). }
      clear - H. cbn [map] in H. revert H. generalize (ch_sn c) (map ch_sn h). intros x l.
      induction l as [|y l IH]; cbn; intros H; [apply H; auto|].
      apply Z.min_glb; [apply H; auto|]. apply IH. intros z [Hz|Hz]; apply H; cbn; auto. }
    assert (UB : lmin (ch_sn c) (map ch_sn h) <= s_first s).
    { assert (NE : s_first s <= s_last s).
      { unfold len in L. cbn [length] in L. lia. }
      destruct (inv_hist_get _ _ (s_first s) I) as [d Hd]; [lia|].
      pose proof (get_by_sn_sn _ _ _ Hd) as Hsn. apply get_by_sn_In in Hd. rewrite E in Hd.
      destruct Hd as [<-|Hd]; [rewrite Hsn; apply lmin_le_head|].
      rewrite <- Hsn. apply lmin_le_In. apply in_map; auto. }
    lia.
Qed.

Definition sobs_of (r : st * out) : sobs :=
  {| so_dgrams := o_dgrams (snd r); so_signals := o_signals (snd r); so_digest := digest_of (fst r) |}.

Lemma step_ok cf w s o :
  0 <= c_rlimit cf -> inv w s ->
  ok_step cf w (digest_of s) o (sobs_of (step cf s o)) = true.
Proof.
  intros RL I. pose proof (inv_step cf w s o I) as I'.
  pose proof (step_good cf w s o I) as G. cbv zeta in G. apply dgs_good_split in G as [GH GS].
  assert (A1 : ok_retain (digest_of s) (digest_of (fst (step cf s o))) = true).
  { unfold ok_retain. apply forallb_forall. intros sn Hsn. rewrite dig_acked.
    cbn [g_hist digest_of] in *. apply in_map_iff in Hsn as [cc [<- Hcc]].
    destruct (Z.leb_spec (acked_by_all s) (ch_sn cc)); cbn [negb orb]; auto.
    apply smem_In. apply in_map. apply (retain_step cf w s o cc I Hcc).
    right. pose proof (depth_nonneg cf RL). lia. }
  assert (A2 : match o with
               | Write _ _ => smem (len (written_after w o)) (g_hist (digest_of (fst (step cf s o))))
               | _ => true end = true).
  { destruct o; auto. cbn [step step_with fst digest_of g_hist written_after].
    destruct (do_write_core cf s single bytes) as (_ & _ & E). rewrite E.
    apply smem_In. rewrite map_app. apply in_or_app. right. cbn [map ch_sn].
    rewrite len_app, (inv_last _ _ I). change (len [_]) with 1. left. reflexivity. }
  assert (A3 : ok_bound cf o (digest_of s) (digest_of (fst (step cf s o))) = true).
  { unfold ok_bound. destruct o; auto.
    destruct (Z.leb_spec 1 (depth_of cf)); cbn [negb orb]; auto.
    rewrite dig_acked. cbn [step step_with fst digest_of g_hist].
    rewrite len_map, (filter_map_sn (fun sn => acked_by_all s <=? sn)), len_map.
    apply Z.leb_le. apply (bound_step cf w s I). auto. }
  assert (A4 : ok_answer cf (written_after w o) o (digest_of s) (o_dgrams (snd (step cf s o))) = true).
  { unfold ok_answer. destruct o; auto.
    cbn [digest_of g_readers]. rewrite dget_digest.
    destruct (rget r (s_readers s)) as [p|] eqn:R; cbn [option_map]; auto.
    cbn [pdig_of d_unsent d_gap]. destruct (first_of (p_unsent p)) as [u|] eqn:U; auto.
    destruct (Z.ltb_spec u 1); cbn [orb]; auto.
    destruct (sparse_gap u (p_gap p)) eqn:SP; cbn [orb]; auto.
    cbn [step step_with snd written_after negb]. apply (answer_step cf w s r p u); auto. }
  assert (A5 : ok_hb (written_after w o) (digest_of (fst (step cf s o))) (o_dgrams (snd (step cf s o))) = true).
  { unfold ok_hb. fold (hb_sub_ok (g_first (digest_of (fst (step cf s o)))) (g_last (digest_of (fst (step cf s o))))).
    cbn [digest_of g_first g_last g_hist].
    rewrite <- (inv_last _ _ I'), Z.eqb_refl. rewrite <- (first_is_min _ _ I'), Z.eqb_refl.
    cbn [andb]. exact GH. }
  unfold ok_step, sobs_of. cbn [so_digest so_dgrams].
  rewrite A1, A2, A3, A4, A5, GS. reflexivity.
Qed.

Lemma run_from_ok cf : 0 <= c_rlimit cf -> forall ops w s,
  inv w s -> ok_from cf w (digest_of s) ops (run_from false cf s ops) = true.
Proof.
  intros RL. induction ops as [|o ops IH]; intros w s I; cbn [run_from ok_from]; auto.
  pose proof (step_ok cf w s o RL I) as SO. pose proof (inv_step cf w s o I) as I'.
  unfold step in *. destruct (step_with false cf s o) as [s' ou] eqn:E.
  cbn [fst snd sobs_of] in *. unfold sobs_of in SO. cbn [fst snd] in SO. rewrite SO. cbn [andb so_digest].
  apply IH. exact I'.
Qed.

Lemma run_ok c : 0 <= c_rlimit (fst c) -> ok c (run c) = true.
Proof. intros RL. unfold ok, run. apply run_from_ok; auto. apply inv_init. Qed.
