(* C04 — per-step theorems: retain, bound, heartbeat, single reader, answer. *)
From Coq Require Import List ZArith Bool Lia.
From RD Require Import Common.Corr C04.Model C04.Basics C04.Proofs.
Import ListNotations.
Open Scope Z_scope.

(* ------------------------------------------------------------------------------------------ *)
(* retain / bound                                                                               *)

Lemma acked_by_all_le_last s : acked_by_all s <= s_last s + 1.
Proof. apply lmin_le_head. Qed.

Lemma acked_by_all_le s p :
  In p (s_readers s) -> p_rel p = true -> acked_by_all s <= p_acked p.
Proof.
  intros H R. unfold acked_by_all. apply lmin_le_In. apply in_map. apply filter_In. auto.
Qed.

Lemma do_write_core cf s single bytes :
  let s' := fst (do_write cf s single bytes) in
  s_first s' = s_first s /\ s_last s' = s_last s + 1 /\
  s_hist s' = s_hist s ++ [{| ch_sn := s_last s + 1; ch_single := single; ch_bytes := bytes |}].
Proof.
  unfold do_write.
  match goal with |- context [send_cache_change ?a ?b ?c ?d ?e] =>
    pose proof (core_scc a b c d e) as HC; destruct (send_cache_change a b c d e) as [[dg fr] s3] end.
  cbn [fst snd] in *. destruct HC as (E1 & E2 & E3). rewrite E1, E2, E3. cbn.
  destruct (Z.ltb_spec (s_last s) (s_last s + 1)); [auto | lia].
Qed.

Lemma inv_hist_first w s c : inv w s -> In c (s_hist s) -> s_first s <= ch_sn c <= s_last s.
Proof.
  intros I H. rewrite (inv_hist _ _ I) in H. apply filter_In in H as [H1 H2].
  apply Z.leb_le in H2. pose proof (numbered_In _ _ (inv_num _ _ I) H1).
  rewrite (inv_last _ _ I). lia.
Qed.

(* no operation other than cache cleaning removes anything; cache cleaning keeps every sample
   whose number is at least (acknowledged by all matched reliable readers) - depth *)
Lemma retain_step cf w s o cc :
  inv w s -> In cc (s_hist s) ->
  (o <> CacheClean \/ acked_by_all s - depth_of cf <= ch_sn cc) ->
  In cc (s_hist (fst (step cf s o))).
Proof.
  intros I H C.
  assert (K : forall s', core_eq s s' -> In cc (s_hist s')) by (intros s' (_ & _ & E); rewrite E; auto).
  destruct o; cbn [step step_with fst].
  - destruct (do_write_core cf s single bytes) as (_ & _ & E). rewrite E. apply in_or_app; auto.
  - apply K, core_do_ack_nack.
  - apply K, core_do_match.
  - apply K, core_do_lose.
  - apply K, core_do_hb_tick.
  - destruct C as [C|C]; [congruence|].
    unfold do_cache_clean_with, remove_changes_before.
    destruct (get_by_sn _ (s_hist s)); cbn; auto.
    apply filter_In; split; auto. pose proof (inv_hist_first _ _ _ I H). apply Z.leb_le. lia.
  - apply K, core_do_repair_tick.
  - apply K, core_do_frags_tick.
  - apply K, core_do_wait_ack.
Qed.

Lemma filter_filter_max (w : list change) a b :
  filter (fun c => b <=? ch_sn c) (filter (fun c => a <=? ch_sn c) w)
  = filter (fun c => Z.max a b <=? ch_sn c) w.
Proof.
  induction w as [|c w IH]; cbn [filter]; auto.
  destruct (Z.leb_spec a (ch_sn c)); cbn [filter].
  - destruct (Z.leb_spec b (ch_sn c)); destruct (Z.leb_spec (Z.max a b) (ch_sn c)); try lia; rewrite IH; auto.
  - destruct (Z.leb_spec (Z.max a b) (ch_sn c)); try lia; auto.
Qed.

Lemma bound_step cf w s :
  inv w s -> 1 <= depth_of cf ->
  len (s_hist (do_cache_clean cf s))
  <= depth_of cf + len (filter (fun c => acked_by_all s <=? ch_sn c) (s_hist s)).
Proof.
  intros I D. pose proof (acked_by_all_le_last s) as A. pose proof (inv_first _ _ I) as F.
  pose proof (inv_last _ _ I) as L.
  assert (U : len (filter (fun c => acked_by_all s <=? ch_sn c) (s_hist s))
              = s_last s + 1 - Z.max (s_first s) (acked_by_all s)).
  { rewrite (inv_hist _ _ I), filter_filter_max, numbered_count_from; [lia | apply I | lia]. }
  rewrite U. unfold do_cache_clean, do_cache_clean_with, remove_changes_before.
  set (k := Z.max (acked_by_all s - depth_of cf) (s_first s)).
  destruct (get_by_sn k (s_hist s)) as [c|] eqn:G.
  - destruct (inv_get_hist _ _ _ _ I G) as [Hk _]. cbn [s_hist set_hist].
    rewrite (inv_hist _ _ I), filter_filter_max, numbered_count_from; [lia | apply I | lia].
  - rewrite (inv_hist_len _ _ I).
    destruct (Z.le_gt_cases k (s_last s)) as [Hk|Hk].
    + destruct (inv_hist_get _ _ k I) as [c Hc]; [lia | congruence].
    + lia.
Qed.

(* ------------------------------------------------------------------------------------------ *)
(* heartbeat / single reader: the shape of every datagram                                       *)

Definition hb_sub_ok (f l : Z) (s : sub) : bool :=
  match s with SHb _ f' l' _ _ _ => (f' =? f) && (l' =? l) | _ => true end.
Definition hb_ok (f l : Z) (dgs : list dgram) : bool :=
  forallb (fun d => forallb (hb_sub_ok f l) (snd d)) dgs.

(* both conditions on one submessage of a datagram to d whose submessage list is subs *)
Definition sub_good (cf : cfg) (w : list change) (f l d : Z) (subs : list sub) (s : sub) : bool :=
  hb_sub_ok f l s && ok_sub_single cf w d subs s.
Definition dg_good (cf : cfg) (w : list change) (f l : Z) (d : dgram) : bool :=
  forallb (sub_good cf w f l (fst d) (snd d)) (snd d).
Definition dgs_good (cf : cfg) (w : list change) (f l : Z) (dgs : list dgram) : bool :=
  forallb (dg_good cf w f l) dgs.

Lemma dgs_good_split cf w f l dgs :
  dgs_good cf w f l dgs = true -> hb_ok f l dgs = true /\ ok_single cf w dgs = true.
Proof.
  unfold dgs_good, hb_ok, ok_single, dg_good, sub_good. rewrite !forallb_forall.
  intros H; split; intros d Hd; specialize (H d Hd); rewrite forallb_forall in *;
    intros x Hx; specialize (H x Hx); apply andb_true_iff in H; tauto.
Qed.

Lemma dgs_good_app cf w f l a b :
  dgs_good cf w f l (a ++ b) = dgs_good cf w f l a && dgs_good cf w f l b.
Proof. apply forallb_app. Qed.

Lemma sub_eqb_dst g : sub_eqb (SInfoDst g) (SInfoDst g) = true.
Proof. cbn. apply Z.eqb_refl. Qed.

Lemma existsb_In_dst g subs : In (SInfoDst g) subs -> existsb (sub_eqb (SInfoDst g)) subs = true.
Proof. intros H. apply existsb_exists. exists (SInfoDst g). split; auto. apply sub_eqb_dst. Qed.

Lemma good_dst cf w f l d subs : sub_good cf w f l d subs (SInfoDst d) = true.
Proof. cbn. apply Z.eqb_refl. Qed.

Lemma good_gaps cf w f l d subs gl :
  forallb (sub_good cf w f l d subs) (gap_subs gl d) = true.
Proof.
  unfold gap_subs. destruct (gap_fields gl) as [[[a b] c]|]; cbn; auto.
  rewrite Z.eqb_refl. reflexivity.
Qed.

Lemma good_gap_before cf w f l d subs b : sub_good cf w f l d subs (gap_before_sub b d) = true.
Proof. cbn. rewrite Z.eqb_refl. reflexivity. Qed.

Lemma rd_ok_dec (rd : option Z) d :
  (rd = None \/ rd = Some d) -> match rd with Some x => x =? d | None => true end = true.
Proof. intros [->| ->]; auto. apply Z.eqb_refl. Qed.

Lemma good_hb cf w d subs rd f l c fi li :
  (rd = None \/ rd = Some d) -> sub_good cf w f l d subs (SHb rd f l c fi li) = true.
Proof.
  intros H. unfold sub_good. cbn. rewrite !Z.eqb_refl. cbn. apply rd_ok_dec; auto.
Qed.

Lemma good_data cf w f l d subs rd cc :
  get_by_sn (ch_sn cc) w = Some cc -> (rd = None \/ rd = Some d) ->
  (forall g, ch_single cc = Some g -> g = d /\ rd = Some g /\ In (SInfoDst g) subs) ->
  sub_good cf w f l d subs (SData rd (ch_sn cc) (ch_bytes cc)) = true.
Proof.
  intros G R S. unfold sub_good. cbn. rewrite G, zl_eqb_refl, (rd_ok_dec _ _ R). cbn.
  destruct (ch_single cc) as [g|]; auto.
  destruct (S g eq_refl) as (-> & -> & Hin). cbn. rewrite Z.eqb_refl, existsb_In_dst; auto.
Qed.

Lemma good_frag cf w f l d subs rd cc k :
  get_by_sn (ch_sn cc) w = Some cc -> (rd = None \/ rd = Some d) -> 1 <= k ->
  (forall g, ch_single cc = Some g -> g = d /\ rd = Some g) ->
  sub_good cf w f l d subs
    (SFrag rd (ch_sn cc) k (len (ch_bytes cc)) (c_dmax cf) (slice (c_dmax cf) k (ch_bytes cc))) = true.
Proof.
  intros G R K S. unfold sub_good. cbn. rewrite G, zl_eqb_refl, (rd_ok_dec _ _ R), !Z.eqb_refl. cbn.
  destruct (Z.leb_spec 1 k); [|lia]. cbn.
  destruct (ch_single cc) as [g|]; auto.
  destruct (S g eq_refl) as (-> & ->). cbn. rewrite !Z.eqb_refl. reflexivity.
Qed.

Lemma dgs_good_fanout cf w f l (dests : list Z) (msgs : list (list sub)) :
  (forall m d, In m msgs -> In d dests -> forallb (sub_good cf w f l d m) m = true) ->
  dgs_good cf w f l (flat_map (fun m => map (fun d => (d, m)) dests) msgs) = true.
Proof.
  intros H. unfold dgs_good. apply forallb_forall. intros [d m] Hd.
  apply in_flat_map in Hd as [m' [Hm Hd]]. apply in_map_iff in Hd as [d' [E Hd']].
  inversion E; subst. unfold dg_good. cbn. apply H; auto.
Qed.

Lemma forallb_app3 {A} (f : A -> bool) a b c :
  forallb f (a ++ b ++ c) = forallb f a && forallb f b && forallb f c.
Proof. rewrite !forallb_app. rewrite andb_assoc. reflexivity. Qed.

Lemma scc_good cf w s cc hb target dgs fr s' :
  send_cache_change cf s cc hb target = (dgs, fr, s') ->
  get_by_sn (ch_sn cc) w = Some cc ->
  dgs_good cf w (s_first s) (s_last s) dgs = true.
Proof.
  unfold send_cache_change. intros E G.
  match type of E with (if ?x then _ else _) = _ => destruct x eqn:RF end.
  { inversion E; subst. reflexivity. }
  inversion E; subst; clear E.
  apply dgs_good_fanout. intros m d Hm Hd.
  (* facts about the destination *)
  assert (RD : option_map p_id target = None \/ option_map p_id target = Some d).
  { destruct target as [t|]; cbn in *; auto. destruct Hd as [<-|[]]. auto. }
  assert (SG : forall g, ch_single cc = Some g ->
                 g = d /\ option_map p_id target = Some g /\ exists t, target = Some t /\ p_id t = g).
  { intros g Hg. rewrite Hg in RF. destruct target as [t|]; [|discriminate].
    apply negb_false_iff, Z.eqb_eq in RF. subst g. cbn in *. destruct Hd as [<-|[]]. eauto. }
  assert (DST : forall t, target = Some t -> p_id t = d).
  { intros t ->. cbn in Hd. destruct Hd as [<-|[]]. auto. }
  destruct (negb (c_dmax cf <? len (ch_bytes cc))) eqn:NF.
  - (* DATA *)
    destruct Hm as [<-|[]].
    rewrite !forallb_app.
    apply andb_true_iff; split; [|apply andb_true_iff; split; [|apply andb_true_iff; split]].
    + destruct target as [t|]; cbn [forallb]; auto. rewrite (DST t eq_refl), good_dst. reflexivity.
    + destruct target as [t|]; cbn [forallb]; auto. rewrite (DST t eq_refl). apply good_gaps.
    + cbn [forallb]. rewrite good_data; auto.
      intros g Hg. destruct (SG g Hg) as (-> & E2 & t & -> & E4). repeat split; auto.
      apply in_or_app. left. cbn. rewrite E4. auto.
    + destruct hb; cbn [forallb]; auto. rewrite good_hb; auto.
  - (* DATAFRAGs *)
    apply in_app_or in Hm as [Hm|Hm]; [|apply in_app_or in Hm as [Hm|Hm]].
    + destruct target as [t|]; [|destruct Hm]. destruct (nonempty (p_gap t)); [|destruct Hm].
      destruct Hm as [<-|[]]. rewrite forallb_app. apply andb_true_iff; split.
      * cbn [forallb]. rewrite (DST t eq_refl), good_dst. reflexivity.
      * rewrite (DST t eq_refl). apply good_gaps.
    + apply in_map_iff in Hm as [k [<- Hk]]. apply zrange_In in Hk.
      rewrite forallb_app. apply andb_true_iff; split.
      * destruct target as [t|]; cbn [forallb]; auto. rewrite (DST t eq_refl), good_dst. reflexivity.
      * cbn [forallb]. rewrite good_frag; auto; try lia.
        intros g Hg. destruct (SG g Hg) as (-> & E2 & _). auto.
    + destruct hb; [|destruct Hm]. destruct Hm as [<-|[]]. cbn [forallb]. rewrite good_hb; auto.
Qed.

Lemma get_new w cc : numbered w -> ch_sn cc = len w + 1 -> get_by_sn (ch_sn cc) (w ++ [cc]) = Some cc.
Proof.
  intros N E. rewrite get_by_sn_app, get_by_sn_none.
  - cbn. rewrite Z.eqb_refl. reflexivity.
  - intros c Hc. pose proof (numbered_In _ _ N Hc). lia.
Qed.

Lemma get_mono w o k c : numbered w -> get_by_sn k w = Some c -> get_by_sn k (written_after w o) = Some c.
Proof. intros N G. destruct o; cbn; auto. rewrite get_by_sn_app, G. reflexivity. Qed.

Lemma set_bits_ge bv : forall k0 k, In k (set_bits k0 bv) -> k0 <= k.
Proof.
  induction bv as [|b bv IH]; cbn; intros k0 k H; [tauto|].
  apply in_app_or in H as [H|H].
  - destruct b; cbn in H; [destruct H as [<-|[]]; lia | tauto].
  - specialize (IH _ _ H). lia.
Qed.

Lemma firstn_In {A} n (l : list A) x : In x (firstn n l) -> In x l.
Proof. revert l; induction n; intros [|a l]; cbn; try tauto. intros [H|H]; auto. Qed.

Lemma repair_decide_good cf w s r p u b dg1 p1 nlr :
  inv w s -> p_id p = r ->
  repair_decide true cf s r p u b = (dg1, p1, nlr) ->
  dgs_good cf w (s_first s) (s_last s) dg1 = true.
Proof.
  intros I Hp. unfold repair_decide.
  destruct (_ || _); [intros E; inversion E; subst; reflexivity|].
  destruct (get_by_sn u (s_hist s)) as [cc|] eqn:G; [|intros E; inversion E; subst; reflexivity].
  destruct (_ && _); [intros E; inversion E; subst; reflexivity|].
  destruct (send_cache_change cf s cc false (Some p)) as [[dg fr] s'] eqn:S.
  intros E; inversion E; subst. eapply scc_good; eauto.
  destruct (inv_get_hist _ _ _ _ I G) as [_ G']. rewrite (get_by_sn_sn _ _ _ G'). auto.
Qed.

Lemma step_good cf w s o :
  inv w s ->
  let s' := fst (step cf s o) in
  dgs_good cf (written_after w o) (s_first s') (s_last s') (o_dgrams (snd (step cf s o))) = true.
Proof.
  intros I. destruct o; cbn [step step_with fst snd written_after o_dgrams no_out negb].
  - (* Write *)
    pose proof (do_write_core cf s single bytes) as (E1 & E2 & E3). unfold do_write in *.
    match goal with |- context [send_cache_change ?a ?b ?c ?d ?e] =>
      destruct (send_cache_change a b c d e) as [[dg fr] s3] eqn:S end.
    cbn [fst snd o_dgrams dg_out] in *. rewrite E1, E2.
    pose proof (scc_good _ (w ++ [{| ch_sn := len w + 1; ch_single := single; ch_bytes := bytes |}])
                         _ _ _ _ _ _ _ S) as G.
    cbn [s_first s_last set_readers set_hist ch_sn] in G.
    replace (if s_last s <? s_last s + 1 then s_last s + 1 else s_last s) with (s_last s + 1) in G
      by (destruct (Z.ltb_spec (s_last s) (s_last s + 1)); lia).
    apply G. rewrite (inv_last _ _ I).
    apply (get_new w {| ch_sn := len w + 1; ch_single := single; ch_bytes := bytes |}); [apply I | reflexivity].
  - (* AckNack *)
    unfold do_ack_nack. destruct (update_ack_waiters s r (Some base)) as [s1 sig].
    destruct (rget r (s_readers s1)) as [p|]; cbn [fst snd o_dgrams]; auto.
    destruct (nonempty _); auto. cbn. rewrite good_gaps. reflexivity.
  - reflexivity.
  - unfold do_lose. destruct (update_ack_waiters _ r None) as [s2 sig]. reflexivity.
  - (* HbTick *)
    unfold do_hb_tick. destruct (forallb _ _); cbn [fst snd o_dgrams dg_out no_out]; auto.
    cbn [s_first s_last set_hb]. unfold dgs_good. apply forallb_forall. intros d Hd.
    apply in_map_iff in Hd as [p [<- _]]. unfold dg_good. cbn [fst snd forallb].
    rewrite good_hb; auto.
  - reflexivity.
  - (* RepairTick *)
    pose proof (core_do_repair_tick true cf s r) as (E1 & E2 & _). rewrite E1, E2. clear E1 E2.
    unfold do_repair_tick_with. destruct (rget r (s_readers s)) as [p|] eqn:R; auto.
    destruct (first_of (p_unsent p)) as [u|]; auto.
    destruct (repair_decide _ _ _ _ _ _ _) as [[dg1 p1] nlr] eqn:D.
    cbn [snd o_dgrams dg_out]. rewrite dgs_good_app.
    rewrite (repair_decide_good _ _ _ _ _ _ _ _ _ _ I (rget_id _ _ _ R) D). cbn [andb].
    destruct (_ || _); auto. unfold dgs_good, dg_good. cbn [forallb fst snd app].
    rewrite good_dst. cbn [andb].
    destruct (u <? s_first s); cbn [app forallb].
    + rewrite good_gap_before, good_gaps. reflexivity.
    + rewrite good_gaps. reflexivity.
  - (* FragsTick *)
    pose proof (core_do_frags_tick cf s r) as (E1 & E2 & _). rewrite E1, E2. clear E1 E2.
    unfold do_frags_tick. destruct (rget r (s_readers s)) as [p|] eqn:R; auto.
    destruct (p_frags p) as [|[sn bv] fr]; auto.
    destruct (firstn 8 (set_bits 1 bv)) as [|k0 todo] eqn:T; auto.
    destruct (get_by_sn sn (s_hist s)) as [cc|] eqn:G; auto.
    destruct (match ch_single cc with Some g => negb (g =? r) | None => false end) eqn:SG; auto.
    cbn [snd o_dgrams dg_out]. unfold dgs_good. apply forallb_forall. intros d Hd.
    apply in_map_iff in Hd as [k [<- Hk]]. unfold dg_good. cbn [fst snd forallb].
    destruct (inv_get_hist _ _ _ _ I G) as [_ G'].
    rewrite <- (get_by_sn_sn _ _ _ G'). rewrite good_frag; auto.
    + rewrite (get_by_sn_sn _ _ _ G'). auto.
    + rewrite <- T in Hk. apply firstn_In in Hk. apply set_bits_ge in Hk. auto.
    + intros g Hg. rewrite Hg in SG. apply negb_false_iff, Z.eqb_eq in SG. subst. auto.
  - unfold do_wait_ack. destruct (map _ _); reflexivity.
Qed.

(* ------------------------------------------------------------------------------------------ *)
(* answer                                                                                       *)

Definition mine (r : Z) (dgs : list dgram) : list sub :=
  flat_map (fun d => if fst d =? r then snd d else []) dgs.

Lemma mine_app r a b : mine r (a ++ b) = mine r a ++ mine r b.
Proof. unfold mine. apply flat_map_app. Qed.

Lemma mine_In r dgs m x : In (r, m) dgs -> In x m -> In x (mine r dgs).
Proof.
  intros H Hx. unfold mine. apply in_flat_map. exists (r, m). split; auto.
  cbn. rewrite Z.eqb_refl. auto.
Qed.

Lemma gap_single_covers rd u :
  exists st b set, gap_fields [u] = Some (st, b, set) /\ gap_covers (SGap rd st b set) u = true.
Proof.
  assert (E1 : run_end (u + 1) [u] = u + 1).
  { cbn [run_end]. destruct (Z.eqb_spec u (u + 1)); [lia|]. destruct (u <? u + 1); reflexivity. }
  assert (E2 : sfrom (u + 1) [u] = []).
  { unfold sfrom. cbn [filter]. destruct (Z.leb_spec (u + 1) u); [lia | reflexivity]. }
  unfold gap_fields. cbn [lmin fold_right]. rewrite E1, E2. cbn [last_of].
  do 3 eexists. split; [reflexivity|]. cbn [gap_covers].
  destruct (Z.leb_spec u u); destruct (Z.ltb_spec u (u + 1)); try lia; try reflexivity.
Qed.

Lemma gap_fields_cover rd l u :
  In u l -> (forall m, first_of l = Some m -> u <= m + 255) ->
  exists st b set, gap_fields l = Some (st, b, set) /\ gap_covers (SGap rd st b set) u = true.
Proof.
  intros Hu W. destruct l as [|x t]; [destruct Hu|].
  unfold gap_fields. set (start := lmin x t). set (base := run_end (start + 1) (x :: t)).
  assert (Hs : start <= u) by (apply (first_of_le (x :: t)); auto).
  assert (Hb : start + 1 <= base) by apply run_end_ge.
  specialize (W start eq_refl). clearbody base. clearbody start.
  destruct (Z.lt_ge_cases u base) as [C|C].
  - destruct (last_of (sfrom base (x :: t))); do 3 eexists; (split; [reflexivity|]); cbn;
      destruct (Z.leb_spec start u); destruct (Z.ltb_spec u base); try lia; reflexivity.
  - assert (Hin : In u (sfrom base (x :: t))).
    { unfold sfrom. apply filter_In. split; auto. apply Z.leb_le. lia. }
    destruct (last_of (sfrom base (x :: t))) as [e0|] eqn:E.
    + pose proof (last_of_ge _ _ _ E Hin) as He.
      do 3 eexists. split; [reflexivity|]. cbn. apply orb_true_iff. right.
      apply smem_In. apply filter_In. split; auto.
      apply andb_true_iff. split; [apply Z.leb_le; lia|]. apply Z.leb_le.
      destruct (Z.leb_spec 256 (e0 - base)); lia.
    + apply last_of_none in E. rewrite E in Hin. destruct Hin.
Qed.

Lemma existsb_app_r {A} (f : A -> bool) a b : existsb f b = true -> existsb f (a ++ b) = true.
Proof. intros H. rewrite existsb_app, H. apply orb_true_r. Qed.
Lemma existsb_app_l {A} (f : A -> bool) a b : existsb f a = true -> existsb f (a ++ b) = true.
Proof. intros H. rewrite existsb_app, H. reflexivity. Qed.

Lemma gap_subs_covered rd l u :
  (exists st b set, gap_fields l = Some (st, b, set) /\ gap_covers (SGap rd st b set) u = true) ->
  existsb (fun s => gap_covers s u) (gap_subs l rd) = true.
Proof.
  intros (st & b & set & E & C). unfold gap_subs. rewrite E. cbn [existsb]. rewrite C. reflexivity.
Qed.

Lemma sparse_gap_false u l :
  sparse_gap u l = false -> In u l -> forall m, first_of l = Some m -> u <= m + 255.
Proof.
  unfold sparse_gap. intros S Hu m E. rewrite E in S.
  apply smem_In in Hu. rewrite Hu in S. cbn in S. apply Z.ltb_ge in S. lia.
Qed.

Lemma answered_unfold cf w r u dgs :
  answered cf w r u dgs =
  (existsb (fun s => gap_covers s u) (mine r dgs)
  || match get_by_sn u w with
     | None => false
     | Some cc =>
         existsb (fun s => match s with
                           | SData _ sn by_ => (sn =? u) && zl_eqb by_ (ch_bytes cc)
                           | _ => false end) (mine r dgs)
         || ((c_dmax cf <? len (ch_bytes cc))
             && forallb (fun k => existsb (frag_ok cf cc k) (mine r dgs))
                        (zrange 1 (Z.to_nat (num_frags (c_dmax cf) (len (ch_bytes cc))))))
     end).
Proof. reflexivity. Qed.

Lemma answer_step cf w s r p u :
  inv w s -> rget r (s_readers s) = Some p -> first_of (p_unsent p) = Some u -> 1 <= u ->
  sparse_gap u (p_gap p) = false ->
  answered cf w r u (o_dgrams (snd (do_repair_tick cf s r))) = true.
Proof.
  intros I R U U1 SP. pose proof (rget_id _ _ _ R) as Pid.
  unfold do_repair_tick, do_repair_tick_with. rewrite R, U.
  destruct (repair_decide true cf s r p u _) as [[dg1 p1] nlr] eqn:D.
  cbn [snd o_dgrams dg_out]. rewrite answered_unfold, mine_app.
  unfold repair_decide in D.
  destruct (Z.ltb_spec u (s_first s)) as [LT|GE].
  - (* older than anything in store: GAP before first_seq *)
    rewrite orb_true_r in D. injection D as <- <- <-.
    rewrite orb_true_r. cbn [is_some]. apply orb_true_iff. left. apply existsb_app_r.
    unfold mine. cbn [flat_map fst snd]. rewrite Z.eqb_refl, app_nil_r.
    cbn [app existsb]. apply orb_true_iff. right. apply orb_true_iff. left.
    cbn. destruct (Z.leb_spec 1 u); destruct (Z.ltb_spec u (s_first s)); try lia; try reflexivity.
  - cbn [is_some] in D. rewrite orb_false_r in D.
    destruct (smem u (p_gap p)) eqn:M.
    + (* pending gap *)
      injection D as <- <- <-. cbn [is_some]. rewrite orb_false_r.
      apply smem_In in M.
      assert (NE : nonempty (p_gap p) = true) by (destruct (p_gap p); [destruct M | reflexivity]).
      rewrite NE. apply orb_true_iff. left. apply existsb_app_r.
      unfold mine. cbn [flat_map fst snd]. rewrite Z.eqb_refl, app_nil_r.
      cbn [app existsb]. apply orb_true_iff. right.
      apply gap_subs_covered. apply gap_fields_cover; auto.
      apply sparse_gap_false; auto.
    + destruct (get_by_sn u (s_hist s)) as [cc|] eqn:G.
      * destruct (inv_get_hist _ _ _ _ I G) as [_ G']. pose proof (get_by_sn_sn _ _ _ G') as Hsn.
        destruct (true && _) eqn:OS.
        -- (* written for another single reader: GAP *)
           injection D as <- <- <-. cbn [is_some nonempty orb].
           apply orb_true_iff. left. apply existsb_app_r.
           unfold mine. cbn [flat_map fst snd]. rewrite Z.eqb_refl, app_nil_r.
           cbn [app existsb]. apply orb_true_iff. right.
           apply gap_subs_covered. apply gap_single_covers.
        -- (* DATA / DATAFRAG *)
           cbn [andb] in OS.
           destruct (send_cache_change cf s cc false (Some p)) as [[dg fr] s'] eqn:S.
           injection D as <- <- <-.
           rewrite G'. apply orb_true_iff. right.
           unfold send_cache_change in S.
           assert (RF : match ch_single cc with Some g => negb (g =? p_id p) | None => false end = false)
             by (rewrite Pid; exact OS).
           rewrite RF in S. cbn [option_map] in S. rewrite Pid in S.
           destruct (negb (c_dmax cf <? len (ch_bytes cc))) eqn:NF; injection S as <- _ _.
           ++ apply orb_true_iff. left. apply existsb_app_l.
              unfold mine. cbn [flat_map map fst snd app]. rewrite Z.eqb_refl, !app_nil_r.
              apply existsb_exists. exists (SData (Some r) (ch_sn cc) (ch_bytes cc)). split.
              ** right. apply in_or_app. right. cbn; auto.
              ** cbv beta iota. rewrite Hsn, Z.eqb_refl, zl_eqb_refl. reflexivity.
           ++ apply orb_true_iff. right. apply negb_false_iff in NF. rewrite NF. cbn [andb].
              apply forallb_forall. intros k Hk. apply existsb_app_l.
              apply existsb_exists.
              exists (SFrag (Some r) (ch_sn cc) k (len (ch_bytes cc)) (c_dmax cf)
                            (slice (c_dmax cf) k (ch_bytes cc))). split.
              ** eapply mine_In with (m := [SInfoDst r] ++ [SFrag (Some r) (ch_sn cc) k (len (ch_bytes cc)) (c_dmax cf) (slice (c_dmax cf) k (ch_bytes cc))]).
                 --- apply in_flat_map. eexists. split.
                     +++ apply in_or_app. right. apply in_or_app. left.
                         apply in_map_iff. exists k. split; [reflexivity | exact Hk].
                     +++ cbn. left. reflexivity.
                 --- apply in_or_app. right. cbn; auto.
              ** cbn. rewrite !Z.eqb_refl, zl_eqb_refl. reflexivity.
      * (* not in store although first_seq <= u: GAP for u alone *)
        injection D as <- <- <-. cbn [is_some nonempty orb].
        apply orb_true_iff. left. apply existsb_app_r.
        unfold mine. cbn [flat_map fst snd]. rewrite Z.eqb_refl, app_nil_r.
        cbn [app existsb]. apply orb_true_iff. right.
        apply gap_subs_covered. apply gap_single_covers.
Qed.
