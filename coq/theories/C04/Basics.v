(* C04 — list / set lemmas, the history invariant and its preservation. *)
From Coq Require Import List ZArith Bool Lia.
From RD Require Import Common.Corr C04.Model.
Import ListNotations.
Open Scope Z_scope.

(* ------------------------------------------------------------------------------------------ *)
(* small facts                                                                                  *)

Lemma smem_In x l : smem x l = true <-> In x l.
Proof.
  unfold smem. rewrite existsb_exists. split.
  - intros [y [Hy E]]. apply Z.eqb_eq in E. subst; auto.
  - intro H. exists x. split; auto. apply Z.eqb_refl.
Qed.

Lemma lmin_le_head x l : lmin x l <= x.
Proof. induction l as [|y l IH]; simpl; lia. Qed.

Lemma lmin_le_In x l y : In y l -> lmin x l <= y.
Proof. induction l as [|z l IH]; simpl; intros H; [tauto|]. destruct H; subst; try lia. specialize (IH H). lia. Qed.

Lemma lmax_ge_head x l : x <= lmax x l.
Proof. induction l as [|y l IH]; simpl; lia. Qed.

Lemma lmax_ge_In x l y : In y l -> y <= lmax x l.
Proof. induction l as [|z l IH]; simpl; intros H; [tauto|]. destruct H; subst; try lia. specialize (IH H). lia. Qed.

Lemma first_of_le l m y : first_of l = Some m -> In y l -> m <= y.
Proof.
  destruct l as [|x t]; simpl; [discriminate|]. intros E H. inversion E; subst.
  destruct H; subst; [apply lmin_le_head | apply lmin_le_In; auto].
Qed.

Lemma last_of_ge l m y : last_of l = Some m -> In y l -> y <= m.
Proof.
  destruct l as [|x t]; simpl; [discriminate|]. intros E H. inversion E; subst.
  destruct H; subst; [apply lmax_ge_head | apply lmax_ge_In; auto].
Qed.

Lemma last_of_none {l} : last_of l = None -> l = [].
Proof. destruct l; simpl; [auto|discriminate]. Qed.

Lemma run_end_ge e l : e <= run_end e l.
Proof.
  revert e; induction l as [|x l IH]; simpl; intros e; [lia|].
  destruct (x =? e); [specialize (IH (e + 1)); lia|].
  destruct (x <? e); [apply IH | lia].
Qed.

(* every number from e up to the end of the run is in the list: a GAP range is truthful *)
Lemma run_end_sound l : forall e y, e <= y < run_end e l -> In y l.
Proof.
  induction l as [|x l IH]; simpl; intros e y H; [lia|].
  destruct (Z.eqb_spec x e) as [E|E].
  - subst. destruct (Z.eq_dec y e); [left; auto|]. right. apply (IH (e + 1)). lia.
  - destruct (x <? e); [right; apply (IH e); auto | lia].
Qed.

Lemma zrange_In lo n y : In y (zrange lo n) <-> lo <= y < lo + Z.of_nat n.
Proof.
  revert lo; induction n as [|n IH]; intros lo; simpl; [lia|].
  rewrite IH. lia.
Qed.

Lemma zrange_length lo n : length (zrange lo n) = n.
Proof. revert lo; induction n; intros; simpl; auto. Qed.

Lemma zrange_app lo n m : zrange lo (n + m) = zrange lo n ++ zrange (lo + Z.of_nat n) m.
Proof.
  revert lo; induction n as [|n IH]; intros lo.
  - simpl. f_equal. lia.
  - cbn [plus zrange app]. f_equal. rewrite IH. f_equal. f_equal. lia.
Qed.

Lemma len_app {A} (a b : list A) : len (a ++ b) = len a + len b.
Proof. unfold len. rewrite app_length. lia. Qed.
Lemma len_nonneg {A} (a : list A) : 0 <= len a.
Proof. unfold len. lia. Qed.

Lemma zl_eqb_refl l : zl_eqb l l = true.
Proof. unfold zl_eqb. apply list_eqb_spec; auto. intros; apply Z.eqb_eq. Qed.

Lemma zl_eqb_eq l l' : zl_eqb l l' = true -> l = l'.
Proof. unfold zl_eqb. apply list_eqb_spec. intros; apply Z.eqb_eq. Qed.

(* ------------------------------------------------------------------------------------------ *)
(* readers map                                                                                  *)

Lemma rget_id r rs p : rget r rs = Some p -> p_id p = r.
Proof.
  induction rs as [|q rs IH]; simpl; [discriminate|].
  destruct (Z.eqb_spec (p_id q) r); [intros E; inversion E; subst; auto | auto].
Qed.

Lemma rget_In r rs p : rget r rs = Some p -> In p rs.
Proof.
  induction rs as [|q rs IH]; simpl; [discriminate|].
  destruct (p_id q =? r); [intros E; inversion E; subst; auto | auto].
Qed.

(* ------------------------------------------------------------------------------------------ *)
(* get_by_sn                                                                                    *)

Lemma get_by_sn_sn k h c : get_by_sn k h = Some c -> ch_sn c = k.
Proof.
  induction h as [|d h IH]; simpl; [discriminate|].
  destruct (Z.eqb_spec (ch_sn d) k); [intros E; inversion E; subst; auto | auto].
Qed.

Lemma get_by_sn_In k h c : get_by_sn k h = Some c -> In c h.
Proof.
  induction h as [|d h IH]; simpl; [discriminate|].
  destruct (ch_sn d =? k); [intros E; inversion E; subst; auto | auto].
Qed.

Lemma get_by_sn_filter (g : Z -> bool) k h :
  get_by_sn k (filter (fun c => g (ch_sn c)) h) = if g k then get_by_sn k h else None.
Proof.
  induction h as [|d h IH]; simpl; [destruct (g k); auto|].
  destruct (g (ch_sn d)) eqn:G; simpl.
  - destruct (Z.eqb_spec (ch_sn d) k) as [E|E]; [subst; rewrite G; auto | auto].
  - destruct (Z.eqb_spec (ch_sn d) k) as [E|E]; [subst; rewrite G in *; auto | auto].
Qed.

Lemma get_by_sn_app k h1 h2 :
  get_by_sn k (h1 ++ h2) = match get_by_sn k h1 with Some c => Some c | None => get_by_sn k h2 end.
Proof. induction h1 as [|d h IH]; simpl; auto. destruct (ch_sn d =? k); auto. Qed.

Lemma get_by_sn_none k h : (forall c, In c h -> ch_sn c <> k) -> get_by_sn k h = None.
Proof.
  induction h as [|d h IH]; simpl; intros H; auto.
  destruct (Z.eqb_spec (ch_sn d) k) as [E|E]; [exfalso; apply (H d); auto | apply IH; auto].
Qed.

(* ------------------------------------------------------------------------------------------ *)
(* the samples written so far, and the invariant tying the history buffer to them              *)

(* sequence numbers of the written samples are 1..n in order *)
Definition numbered (w : list change) : Prop := map ch_sn w = zrange 1 (length w).

Record inv (w : list change) (s : st) : Prop := {
  inv_num : numbered w;
  inv_last : s_last s = len w;
  inv_first : 1 <= s_first s <= s_last s + 1;
  inv_hist : s_hist s = filter (fun c => s_first s <=? ch_sn c) w }.

Lemma numbered_In w c : numbered w -> In c w -> 1 <= ch_sn c <= len w.
Proof.
  unfold numbered, len. intros N H. apply (in_map ch_sn) in H. rewrite N in H.
  apply zrange_In in H. lia.
Qed.

Lemma numbered_snoc w c : numbered (w ++ [c]) <-> numbered w /\ ch_sn c = len w + 1.
Proof.
  unfold numbered, len. rewrite map_app, app_length, zrange_app. cbn [map length zrange].
  replace (1 + Z.of_nat (length w)) with (Z.of_nat (length w) + 1) by lia.
  split.
  - intros H. apply app_inj_tail in H. tauto.
  - intros [H1 H2]. rewrite H1, H2. reflexivity.
Qed.

Lemma numbered_app w c : numbered w -> ch_sn c = len w + 1 -> numbered (w ++ [c]).
Proof. intros. apply numbered_snoc; auto. Qed.

Lemma numbered_get w : numbered w -> forall k, 1 <= k <= len w -> exists c, get_by_sn k w = Some c.
Proof.
  induction w as [|c w IH] using rev_ind; intros N k Hk.
  - unfold len in Hk; cbn in Hk; lia.
  - apply numbered_snoc in N as [Nw Hc].
    rewrite get_by_sn_app. rewrite len_app in Hk. unfold len in Hk at 2. cbn [length] in Hk.
    destruct (Z.eq_dec k (len w + 1)) as [E|E].
    + rewrite get_by_sn_none.
      * cbn [get_by_sn]. subst k. rewrite <- Hc, Z.eqb_refl. eauto.
      * intros d Hd. pose proof (numbered_In _ d Nw Hd). lia.
    + destruct (IH Nw k) as [d Hd]; [lia|]. rewrite Hd. eauto.
Qed.

Lemma inv_init : inv [] init.
Proof. constructor; simpl; try reflexivity. unfold len; simpl; lia. Qed.

Lemma inv_get_hist w s k c :
  inv w s -> get_by_sn k (s_hist s) = Some c -> s_first s <= k <= s_last s /\ get_by_sn k w = Some c.
Proof.
  intros I H. rewrite (inv_hist _ _ I) in H.
  rewrite (get_by_sn_filter (fun x => s_first s <=? x)) in H.
  destruct (Z.leb_spec (s_first s) k); [|discriminate].
  pose proof (get_by_sn_In _ _ _ H) as Hin. pose proof (get_by_sn_sn _ _ _ H) as Hsn.
  pose proof (numbered_In _ _ (inv_num _ _ I) Hin). rewrite (inv_last _ _ I). split; [lia | auto].
Qed.

Lemma inv_hist_get w s k :
  inv w s -> s_first s <= k <= s_last s -> exists c, get_by_sn k (s_hist s) = Some c.
Proof.
  intros I H. rewrite (inv_hist _ _ I), (get_by_sn_filter (fun x => s_first s <=? x)).
  destruct (Z.leb_spec (s_first s) k); [|lia].
  apply numbered_get; [apply I|]. rewrite <- (inv_last _ _ I). pose proof (inv_first _ _ I). lia.
Qed.

Lemma filter_length_le {A} (f : A -> bool) l : (length (filter f l) <= length l)%nat.
Proof. induction l; simpl; auto. destruct (f a); simpl; lia. Qed.

Lemma filter_none {A} (f : A -> bool) l : (forall x, In x l -> f x = false) -> filter f l = [].
Proof.
  induction l as [|a l IH]; cbn [filter]; intros H; auto.
  rewrite (H a) by (cbn; auto). apply IH. intros; apply H; cbn; auto.
Qed.

(* number of written samples with sequence number >= k *)
Lemma numbered_count_from w k :
  numbered w -> 1 <= k <= len w + 1 ->
  len (filter (fun c => k <=? ch_sn c) w) = len w + 1 - k.
Proof.
  induction w as [|c w IH] using rev_ind; intros N Hk.
  - unfold len in *; cbn [length filter Z.of_nat] in *. lia.
  - apply numbered_snoc in N as [Nw Hc]. rewrite filter_app, !len_app in *.
    unfold len at 2 in Hk. cbn [length] in Hk. cbn [filter]. rewrite Hc.
    destruct (Z.leb_spec k (len w + 1)).
    + rewrite IH by (auto; lia). change (len [c]) with 1. lia.
    + rewrite filter_none.
      * change (len [c]) with 1. change (len (@nil change)) with 0. lia.
      * intros d Hd. pose proof (numbered_In _ _ Nw Hd). apply Z.leb_gt. lia.
Qed.

Lemma inv_hist_len w s : inv w s -> len (s_hist s) = s_last s + 1 - s_first s.
Proof.
  intros I. rewrite (inv_hist _ _ I), (inv_last _ _ I).
  apply numbered_count_from; [apply I|]. pose proof (inv_first _ _ I). rewrite <- (inv_last _ _ I). lia.
Qed.
