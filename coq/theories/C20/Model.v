(* C20 — wait_for_acknowledgments says yes only when everything was acknowledged.

   Writer side: the AckWaiter logic is part of the C04 writer model (C04.Model: do_wait_ack =
   WriterCommand::WaitForAcknowledgments in process_writer_command, update_ack_waiters called from
   handle_ack_nack and reader_lost, AckWaiter::reader_acked_or_lost, the single-slot ack_waiter).
   A completion signal = `all_acked.try_send(())` / AckWaiter::notify_wait_complete on the channel
   given with the command; channels are identified by the integer carried by [WaitAck].

   Application side: DataWriter::wait_for_acknowledgments (src/dds/with_key/datawriter.rs) as a
   function of the writer QoS, the requested time and of what happens on the command / completion
   channels ([sync_wait]).  The asynchronous future (AsyncWaitForAcknowledgments::poll) is covered
   only up to the completion signal: its poll loop belongs to C13 (finding F9 there). *)
From Coq Require Import List ZArith Bool Lia.
From RD Require Import Common.Corr C04.Model.
Import ListNotations.
Open Scope Z_scope.

(* ------------------------------------------------------------------------------------------ *)
(* synchronous wrapper                                                                          *)

(* what the other end of the channels does, as arranged by the driver's fake writer *)
Inductive fake :=
| FSignal (delay : Z)     (* completion signal sent [delay] ms after the command was received *)
| FNever                  (* command received, channel kept, never signalled *)
| FDrop                   (* command received, completion channel dropped without a signal
                             (what happens to a waiter replaced by a later call) *)
| FLost.                  (* the command channel is full: try_send fails, "This will timeout" *)

Inductive sres :=
| SRes (result : bool) (early : bool)   (* Ok(result); early = returned before max_wait elapsed *)
| SErr.

(* wait_for_acknowledgments: a best-effort writer answers Ok(true) at once; otherwise one poll of
   the completion channel with timeout max_wait: token received -> Ok(true), no event -> Ok(false) *)
Definition sync_wait (reliable : bool) (max_wait : Z) (f : fake) : sres :=
  if negb reliable then SRes true true
  else match f with
       | FSignal d => if d <? max_wait then SRes true true else SRes false false
       | FNever | FDrop | FLost => SRes false false
       end.

(* the same function at the pinned commit: one poll; an event without a token ("Spurious poll
   event?") made it return Ok(false) at once - and the completion channel closing without a token
   is such an event (the command could not be queued, or another call took the waiter slot) *)
Definition sync_wait_old (reliable : bool) (max_wait : Z) (f : fake) : sres :=
  if negb reliable then SRes true true
  else match f with
       | FSignal d => if d <? max_wait then SRes true true else SRes false false
       | FNever => SRes false false
       | FDrop | FLost => SRes false true
       end.

(* ------------------------------------------------------------------------------------------ *)
(* cases, observations                                                                          *)

Inductive case :=
| CWriter (cf : cfg) (ops : list op)
| CSync (reliable : bool) (max_wait : Z) (f : fake).

Inductive obs :=
| OWriter (o : C04.Model.obs)
| OSync (r : sres).

Definition run (c : case) : obs :=
  match c with
  | CWriter cf ops => OWriter (C04.Model.run (cf, ops))
  | CSync rel mw f => OSync (sync_wait rel mw f)
  end.

Definition sres_eqb (a b : sres) : bool :=
  match a, b with
  | SRes r e, SRes r' e' => Bool.eqb r r' && Bool.eqb e e'
  | SErr, SErr => true
  | _, _ => false
  end.

Definition obs_eqb (a b : obs) : bool :=
  match a, b with
  | OWriter o, OWriter o' => C04.Model.obs_eqb o o'
  | OSync r, OSync r' => sres_eqb r r'
  | _, _ => false
  end.

(* ------------------------------------------------------------------------------------------ *)
(* property oracle

   Writer cases.  Looks at the operations (ACKNACK bases, reader losses, wait calls), at the
   signals delivered after every operation, and - for who is matched reliably and what each such
   reader had acknowledged when the call was made - at the digest before the call.
   A call is [open] from its WaitAck until its signal, or until a later call takes the writer's
   single waiter slot.  For an open call (channel w, wait_until u = last_seq at the call) every
   reliable reader matched at the call carries a flag "done": all_acked_before > u at the call, or
   since then an ACKNACK of that reader with base > u, or the loss of that reader.
   Demanded at every step: the signals delivered are exactly the channels of the open calls all of
   whose readers are done (soundness: only then; promptness / completion: at that very step). *)

Record ocall := { oc_chan : Z; oc_until : Z; oc_readers : list (Z * bool) }.

Definition tracked (until r : Z) (o : op) : bool :=
  match o with
  | AckNack r' b _ => (r' =? r) && (until <? b)
  | Lose r' => r' =? r
  | _ => false
  end.

Definition oc_update (o : op) (c : ocall) : ocall :=
  {| oc_chan := oc_chan c; oc_until := oc_until c;
     oc_readers := map (fun rb => (fst rb, snd rb || tracked (oc_until c) (fst rb) o)) (oc_readers c) |}.

Definition oc_done (c : ocall) : bool := forallb snd (oc_readers c).

Definition oc_open (dp : digest) (w : Z) : ocall :=
  {| oc_chan := w; oc_until := g_last dp;
     oc_readers := map (fun p => (d_id p, g_last dp <? d_acked p)) (filter d_rel (g_readers dp)) |}.

(* one step: new list of open calls and the signals that must be delivered now *)
Definition oc_step (dp : digest) (o : op) (open : list ocall) : list ocall * list Z :=
  let open1 := match o with
               | WaitAck w => [oc_open dp w]          (* takes the single slot *)
               | _ => map (oc_update o) open
               end in
  (filter (fun c => negb (oc_done c)) open1, map oc_chan (filter oc_done open1)).

Fixpoint ok_calls (dp : digest) (open : list ocall) (ops : list op) (l : list sobs) : bool :=
  match ops, l with
  | [], [] => true
  | o :: ops', so :: l' =>
      let '(open', expect) := oc_step dp o open in
      zl_eqb (so_signals so) expect && ok_calls (so_digest so) open' ops' l'
  | _, _ => false
  end.

(* Synchronous cases: Ok(true) only if the writer is best-effort or the signal was sent before the
   requested time elapsed; otherwise Ok(false), and not before the requested time has elapsed;
   when the signal was sent in time (or the writer is best-effort) Ok(true) without waiting for
   the whole time. *)
Definition ok_sync (reliable : bool) (max_wait : Z) (f : fake) (r : sres) : bool :=
  let in_time := negb reliable || match f with FSignal d => d <? max_wait | _ => false end in
  match r with
  | SRes true early => in_time && early
  | SRes false early => negb in_time && negb early
  | SErr => false
  end.

Definition ok (c : case) (o : obs) : bool :=
  match c, o with
  | CWriter cf ops, OWriter (Obs l) => ok_calls (digest_of init) [] ops l
  | CSync rel mw f, OSync r => ok_sync rel mw f r
  | _, _ => false
  end.
