(* C20 — property theorems only.  Statements are pinned by ./check; proofs are one `exact`. *)
From Coq Require Import List ZArith Bool.
From RD Require Import Common.Corr C04.Model C20.Model C20.Proofs.
Import ListNotations.
Open Scope Z_scope.

(* [all_signals cf s ops]: the completion signals the writer sends while executing ops from state s.
   [tracked u r o]: operation o is an ACKNACK of reader r with base > u, or the loss of reader r.
   [no_call_on w ops]: the channel of this call is not handed to a second call. *)

(* sound: a completion signal for the call made in state s (any writer state) is sent - during the
   call or at any later operation - only if every reliable reader matched at the call had
   acknowledged everything written before the call (all_acked_before > last_seq) or has since
   done so or has since been lost.  Instantiate [post] with the operations up to the signal. *)
Theorem C20_sound : forall cf s w post,
  no_call_on w post -> In w (all_signals cf s (WaitAck w :: post)) ->
  forall p, In p (s_readers s) -> p_rel p = true ->
    s_last s < p_acked p \/ exists o, In o post /\ tracked (s_last s) (p_id p) o = true.
Proof. exact sound_thm. Qed.
Print Assumptions C20_sound.

(* prompt: the signal is sent while handling the command iff that is already the case (in
   particular when no reliable reader is matched) *)
Theorem C20_prompt : forall cf s w,
  In w (o_signals (snd (step cf s (WaitAck w))))
  <-> (forall p, In p (s_readers s) -> p_rel p = true -> s_last s < p_acked p).
Proof. exact prompt_thm. Qed.
Print Assumptions C20_prompt.

(* the boundary: a reader whose ACKNACK base equals last_seq has NOT acknowledged everything *)
Theorem C20_boundary : forall until r base set,
  tracked until r (AckNack r base set) = true <-> until + 1 <= base.
Proof.
  intros. cbn. rewrite Z.eqb_refl. cbn. rewrite Z.ltb_lt. split; intro; auto with zarith.
Qed.
Print Assumptions C20_boundary.

(* completion up to the signal (what the asynchronous form waits for): for a pending waiter, once
   every reader still owed has acknowledged beyond wait_until or been lost - and no other call has
   taken the writer's single waiter slot - the signal is sent *)
Theorem C20_complete_signal : forall cf ops s wt,
  s_aw s = Some wt -> (forall o, In o ops -> is_wait o = false) ->
  (exists o, In o ops /\ acks o = true) ->
  (forall r, In r (w_pending wt) -> exists o, In o ops /\ tracked (w_until wt) r o = true) ->
  In (w_chan wt) (all_signals cf s ops).
Proof. exact complete_pending. Qed.
Print Assumptions C20_complete_signal.

(* a pending waiter is signalled only after all the readers it still waits for are done *)
Theorem C20_sound_pending : forall cf ops s wt,
  s_aw s = Some wt -> no_call_on (w_chan wt) ops ->
  In (w_chan wt) (all_signals cf s ops) ->
  forall r, In r (w_pending wt) -> exists o, In o ops /\ tracked (w_until wt) r o = true.
Proof. exact sound_pending. Qed.
Print Assumptions C20_sound_pending.

(* the synchronous form: true only for a best-effort writer or when the signal was sent within the
   requested time; otherwise false, and then only after the requested time has elapsed *)
Theorem C20_timeout_sync : forall reliable max_wait f,
  match sync_wait reliable max_wait f with
  | SRes true _ => reliable = false \/ exists d, f = FSignal d /\ d < max_wait
  | SRes false early => early = false /\ reliable = true
                        /\ (forall d, f = FSignal d -> max_wait <= d)
  | SErr => False
  end.
Proof.
  intros reliable max_wait f. unfold sync_wait. destruct reliable; cbn; auto.
  destruct f; cbn; try (repeat split; auto; discriminate).
  destruct (Z.ltb_spec delay max_wait).
  - right. eauto.
  - repeat split; auto. intros d E. inversion E; subst; auto.
Qed.
Print Assumptions C20_timeout_sync.

Theorem C20_model_ok : forall c, ok c (run c) = true.
Proof. exact run_ok. Qed.
Print Assumptions C20_model_ok.

(* oracle soundness for the synchronous cases: [ok] = true says exactly the property *)
Theorem C20_oracle_sound_sync : forall reliable max_wait f r,
  ok (CSync reliable max_wait f) (OSync r) = true <->
  (exists early, r = SRes true early /\ early = true
                 /\ (reliable = false \/ exists d, f = FSignal d /\ d < max_wait))
  \/ (r = SRes false false /\ reliable = true /\ forall d, f = FSignal d -> max_wait <= d).
Proof.
  intros reliable max_wait f r. cbn [ok]. unfold ok_sync. split.
  - destruct r as [[|] early|]; intros H; try discriminate.
    + left. apply andb_true_iff in H as [H1 H2]. subst. exists true. repeat split; auto.
      apply orb_true_iff in H1 as [H1|H1].
      * left. destruct reliable; auto; discriminate.
      * right. destruct f; try discriminate. apply Z.ltb_lt in H1. eauto.
    + right. apply andb_true_iff in H as [H1 H2]. apply negb_true_iff in H1, H2. subst.
      apply orb_false_iff in H1 as [H1 H3]. apply negb_false_iff in H1. repeat split; auto.
      intros d ->. apply Z.ltb_ge in H3. auto.
  - intros [(early & -> & -> & H)|(-> & -> & H)].
    + rewrite andb_true_r. destruct H as [->|(d & -> & H)]; auto.
      apply orb_true_iff. right. apply Z.ltb_lt; auto.
    + cbn. destruct f; auto. specialize (H delay eq_refl). apply Z.ltb_ge in H. rewrite H. auto.
Qed.
Print Assumptions C20_oracle_sound_sync.

(* oracle soundness for the writer cases: at every step the signals delivered are exactly those the
   open-call bookkeeping of the property demands *)
Theorem C20_oracle_sound_writer : forall dp open o ops so l,
  ok_calls dp open (o :: ops) (so :: l) = true ->
  so_signals so = snd (oc_step dp o open)
  /\ ok_calls (so_digest so) (fst (oc_step dp o open)) ops l = true.
Proof.
  intros dp open o ops so l H. cbn [ok_calls] in H.
  destruct (oc_step dp o open) as [open' expect]. apply andb_true_iff in H as [H1 H2].
  cbn [fst snd]. split; auto. apply C04.Basics.zl_eqb_eq; auto.
Qed.
Print Assumptions C20_oracle_sound_writer.

(* pinned commit: the synchronous form reported a time-out before the requested time when the
   completion channel closed without a token (repaired by a fix: commit) *)
Theorem C20_old_sync_early_refuted :
  ok (CSync true 120 FLost) (OSync (sync_wait_old true 120 FLost)) = false
  /\ ok (CSync true 120 FDrop) (OSync (sync_wait_old true 120 FDrop)) = false.
Proof. split; reflexivity. Qed.
Print Assumptions C20_old_sync_early_refuted.

(* non-vacuity: one reliable reader, three samples; ACKNACK base 3 does not complete the call,
   base 4 does *)
Example C20_nonvacuous :
  let cf := {| c_hist := HKeepLast 5; c_dur := 2; c_dmax := 1024; c_rlimit := 32 |} in
  let wr := Write None [0; 1; 0; 0] in
  let s := state_after false cf init [Match 1 true 0; wr; wr; wr] in
  all_signals cf s [WaitAck 7; AckNack 1 3 []; AckNack 1 4 []] = [7]
  /\ all_signals cf s [WaitAck 7; AckNack 1 3 []] = []
  /\ (exists p, In p (s_readers s) /\ p_rel p = true /\ ~ s_last s < p_acked p).
Proof.
  cbv zeta. split; [vm_compute; reflexivity|]. split; [vm_compute; reflexivity|].
  eexists. split; [vm_compute; left; reflexivity|]. split; [reflexivity|]. vm_compute. intros H; discriminate.
Qed.
