(* C20 — the ack waiter of the writer model: step lemmas, trace theorems, the model satisfies the
   oracle. *)
From Coq Require Import List ZArith Bool Lia.
From RD Require Import Common.Corr C04.Model C04.Basics C20.Model.
Import ListNotations.
Open Scope Z_scope.

Definition is_wait (o : op) : bool := match o with WaitAck _ => true | _ => false end.
Definition acks (o : op) : bool := match o with AckNack _ _ _ | Lose _ => true | _ => false end.
Definition isnil {A} (l : list A) : bool := match l with [] => true | _ => false end.

(* readers of the waiter still owed after operation o *)
Definition pend_after (wt : waiter) (o : op) : list Z :=
  filter (fun r => negb (tracked (w_until wt) r o)) (w_pending wt).

Lemma filter_true {A} (f : A -> bool) l : (forall x, f x = true) -> filter f l = l.
Proof. intros H. induction l as [|a l IH]; cbn; auto. rewrite H, IH. reflexivity. Qed.

Lemma filter_ext' {A} (f g : A -> bool) l : (forall x, f x = g x) -> filter f l = filter g l.
Proof. intros H. induction l as [|a l IH]; cbn; auto. rewrite H, IH. reflexivity. Qed.

(* ------------------------------------------------------------------------------------------ *)
(* update_ack_waiters                                                                           *)

Lemma update_aw_none s r a : s_aw s = None -> update_ack_waiters s r a = (s, []).
Proof. intros E. unfold update_ack_waiters. rewrite E. reflexivity. Qed.

Lemma update_aw_some s r a wt :
  s_aw s = Some wt ->
  let pend := match a with
              | None => sdel r (w_pending wt)
              | Some b => if w_until wt <? b then sdel r (w_pending wt) else w_pending wt
              end in
  update_ack_waiters s r a =
  if isnil pend then (set_aw s None, [w_chan wt])
  else (set_aw s (Some {| w_chan := w_chan wt; w_until := w_until wt; w_pending := pend |}), []).
Proof.
  intros E. unfold update_ack_waiters. rewrite E. cbv zeta.
  destruct a as [b|]; [destruct (w_until wt <? b)|];
    match goal with |- context [match ?x with _ => _ end] => destruct x end; reflexivity.
Qed.

Lemma sdel_filter r l : sdel r l = filter (fun y => negb (r =? y)) l.
Proof. unfold sdel. apply filter_ext'. intros x. rewrite Z.eqb_sym. reflexivity. Qed.

Lemma pend_acknack wt r b set :
  (if w_until wt <? b then sdel r (w_pending wt) else w_pending wt) = pend_after wt (AckNack r b set).
Proof.
  unfold pend_after. cbn [tracked]. destruct (w_until wt <? b).
  - rewrite sdel_filter. apply filter_ext'. intros x. rewrite andb_true_r. reflexivity.
  - symmetry. apply filter_true. intros x. rewrite andb_false_r. reflexivity.
Qed.

Lemma pend_lose wt r : sdel r (w_pending wt) = pend_after wt (Lose r).
Proof. unfold pend_after. cbn [tracked]. apply sdel_filter. Qed.

Lemma pend_other wt o : is_wait o = false -> acks o = false -> pend_after wt o = w_pending wt.
Proof.
  intros W A. unfold pend_after. apply filter_true. intros x. destruct o; cbn in *; auto; discriminate.
Qed.

(* ------------------------------------------------------------------------------------------ *)
(* the waiter slot is only touched by WaitAck / ACKNACK / reader loss                            *)

Lemma aw_set_readers s rs : s_aw (set_readers s rs) = s_aw s. Proof. reflexivity. Qed.
Lemma aw_set_hb s n : s_aw (set_hb s n) = s_aw s. Proof. reflexivity. Qed.
Lemma aw_set_hist s f l h : s_aw (set_hist s f l h) = s_aw s. Proof. reflexivity. Qed.

Lemma aw_scc cf s cc hb t : s_aw (snd (send_cache_change cf s cc hb t)) = s_aw s.
Proof.
  unfold send_cache_change.
  match goal with |- context [if ?x then _ else _] => destruct x end; cbn; auto.
  all: try (destruct hb; cbn; auto).
Qed.

Lemma step_other cf s o :
  is_wait o = false -> acks o = false ->
  s_aw (fst (step cf s o)) = s_aw s /\ o_signals (snd (step cf s o)) = [].
Proof.
  intros W A. destruct o; try discriminate; cbn [step step_with fst snd negb].
  - unfold do_write.
    match goal with |- context [send_cache_change ?a ?b ?c ?d ?e] =>
      pose proof (aw_scc a b c d e) as H; destruct (send_cache_change a b c d e) as [[dg fr] s3] end.
    cbn [fst snd] in *. rewrite H. split; reflexivity.
  - split; auto. unfold do_match. destruct (negb _); auto. destruct (rget r (s_readers s)); auto.
  - unfold do_hb_tick. destruct (forallb _ _); cbn; auto.
  - split; auto. unfold do_cache_clean_with, remove_changes_before.
    destruct (get_by_sn _ _); reflexivity.
  - unfold do_repair_tick_with. destruct (rget r (s_readers s)) as [p|]; cbn; auto.
    destruct (first_of (p_unsent p)); cbn; auto.
    destruct (repair_decide _ _ _ _ _ _ _) as [[dg1 p1] nlr]. cbn. auto.
  - unfold do_frags_tick.
    repeat (match goal with |- context [match ?x with _ => _ end] => destruct x end; cbn [fst snd]; auto).
Qed.

Lemma step_acks_none cf s o :
  acks o = true -> s_aw s = None ->
  s_aw (fst (step cf s o)) = None /\ o_signals (snd (step cf s o)) = [].
Proof.
  intros A E. destruct o; try discriminate; cbn [step step_with fst snd].
  - unfold do_ack_nack. rewrite (update_aw_none s r (Some base) E).
    destruct (rget r (s_readers s)); cbn; auto.
  - unfold do_lose. rewrite update_aw_none by (cbn; auto). cbn. auto.
Qed.

Lemma step_acks_some cf s o wt :
  acks o = true -> s_aw s = Some wt ->
  let pa := pend_after wt o in
  s_aw (fst (step cf s o))
  = (if isnil pa then None
     else Some {| w_chan := w_chan wt; w_until := w_until wt; w_pending := pa |})
  /\ o_signals (snd (step cf s o)) = (if isnil pa then [w_chan wt] else []).
Proof.
  intros A E. destruct o; try discriminate; cbn [step step_with fst snd].
  - unfold do_ack_nack. rewrite (update_aw_some s r (Some base) wt E). cbv zeta.
    rewrite (pend_acknack wt r base set).
    destruct (isnil (pend_after wt (AckNack r base set)));
      cbn [s_readers set_aw]; destruct (rget r (s_readers s)); cbn; auto.
  - unfold do_lose.
    rewrite (update_aw_some (set_readers s (rdel r (s_readers s))) r None wt) by (cbn; auto).
    cbv zeta. rewrite (pend_lose wt r).
    destruct (isnil (pend_after wt (Lose r))); cbn; auto.
Qed.

(* the call itself *)
Definition call_pending (s : st) : list Z :=
  map p_id (filter (fun p => p_rel p && (p_acked p <=? s_last s)) (s_readers s)).

Lemma step_wait cf s w :
  s_aw (fst (step cf s (WaitAck w)))
  = (if isnil (call_pending s) then None
     else Some {| w_chan := w; w_until := s_last s; w_pending := call_pending s |})
  /\ o_signals (snd (step cf s (WaitAck w))) = (if isnil (call_pending s) then [w] else []).
Proof.
  cbn [step step_with]. unfold do_wait_ack. fold (call_pending s).
  destruct (call_pending s); cbn; auto.
Qed.

(* ------------------------------------------------------------------------------------------ *)
(* traces                                                                                       *)

Fixpoint all_signals (cf : cfg) (s : st) (ops : list op) : list Z :=
  match ops with
  | [] => []
  | o :: ops' => o_signals (snd (step cf s o)) ++ all_signals cf (fst (step cf s o)) ops'
  end.

Definition no_call_on (c : Z) (ops : list op) : Prop := forall w, In (WaitAck w) ops -> w <> c.

Lemma op_kind o : (exists w, o = WaitAck w) \/ (is_wait o = false /\ acks o = true)
                  \/ (is_wait o = false /\ acks o = false).
Proof. destruct o; cbn; eauto. Qed.

(* no signal on a channel that is neither the current waiter's nor given by a later call *)
Lemma no_signal cf c ops : forall s,
  (forall wt, s_aw s = Some wt -> w_chan wt <> c) -> no_call_on c ops ->
  ~ In c (all_signals cf s ops).
Proof.
  induction ops as [|o ops IH]; intros s Hs N; cbn [all_signals]; [tauto|].
  assert (N' : no_call_on c ops) by (intros w Hw; apply N; cbn; auto).
  intros Hin. apply in_app_or in Hin.
  destruct (op_kind o) as [[w ->]|[[W A]|[W A]]].
  - destruct (step_wait cf s w) as [E1 E2]. rewrite E2 in Hin.
    assert (w <> c) by (apply N; cbn; auto).
    destruct Hin as [Hin|Hin].
    + destruct (isnil (call_pending s)); cbn in Hin; intuition.
    + revert Hin. apply IH; auto. intros wt Hwt. rewrite E1 in Hwt.
      destruct (isnil (call_pending s)); [discriminate|]. inversion Hwt; subst; cbn; auto.
  - destruct (s_aw s) as [wt|] eqn:E.
    + destruct (step_acks_some cf s o wt A E) as [E1 E2]. rewrite E2 in Hin.
      specialize (Hs wt eq_refl).
      destruct Hin as [Hin|Hin].
      * destruct (isnil (pend_after wt o)); cbn in Hin; intuition.
      * revert Hin. apply IH; auto. intros wt' Hwt. rewrite E1 in Hwt.
        destruct (isnil (pend_after wt o)); [discriminate|]. inversion Hwt; subst; cbn; auto.
    + destruct (step_acks_none cf s o A E) as [E1 E2]. rewrite E2 in Hin.
      destruct Hin as [[]|Hin]. revert Hin. apply IH; auto. intros wt Hwt. congruence.
  - destruct (step_other cf s o W A) as [E1 E2]. rewrite E2 in Hin.
    destruct Hin as [[]|Hin]. revert Hin. apply IH; auto. intros wt Hwt. rewrite E1 in Hwt. auto.
Qed.

Lemma filter_out {A} (f : A -> bool) l x : In x l -> ~ In x (filter f l) -> f x = false.
Proof.
  intros H N. destruct (f x) eqn:E; auto. exfalso. apply N. apply filter_In. auto.
Qed.

Lemma isnil_true {A} (l : list A) : isnil l = true -> l = [].
Proof. destruct l; [auto|discriminate]. Qed.

(* soundness for a pending waiter: a signal on its channel means that every reader it was still
   waiting for has since acknowledged beyond wait_until or has been lost *)
Lemma sound_pending cf ops : forall s wt,
  s_aw s = Some wt -> no_call_on (w_chan wt) ops ->
  In (w_chan wt) (all_signals cf s ops) ->
  forall r, In r (w_pending wt) -> exists o, In o ops /\ tracked (w_until wt) r o = true.
Proof.
  induction ops as [|o ops IH]; intros s wt E N Hin r Hr; cbn [all_signals] in Hin; [destruct Hin|].
  assert (N' : no_call_on (w_chan wt) ops) by (intros w Hw; apply N; cbn; auto).
  apply in_app_or in Hin.
  destruct (op_kind o) as [[w ->]|[[W A]|[W A]]].
  - (* another call takes the slot: no signal for this one any more *)
    exfalso. destruct (step_wait cf s w) as [E1 E2]. rewrite E2 in Hin.
    assert (w <> w_chan wt) by (apply N; cbn; auto).
    destruct Hin as [Hin|Hin].
    + destruct (isnil (call_pending s)); cbn in Hin; intuition.
    + revert Hin. apply no_signal; auto. intros wt' Hwt. rewrite E1 in Hwt.
      destruct (isnil (call_pending s)); [discriminate|]. inversion Hwt; subst; cbn; auto.
  - destruct (step_acks_some cf s o wt A E) as [E1 E2]. rewrite E2 in Hin.
    destruct (In_dec Z.eq_dec r (pend_after wt o)) as [Hp|Hp].
    + (* still owed after o *)
      destruct (isnil (pend_after wt o)) eqn:NI.
      * apply isnil_true in NI. rewrite NI in Hp. destruct Hp.
      * destruct Hin as [[]|Hin].
        destruct (IH _ _ E1 N' Hin r Hp) as [o' [Ho' T]]. exists o'. split; [right; auto | exact T].
    + exists o. split; [left; auto|]. unfold pend_after in Hp.
      apply (filter_out _ _ _ Hr) in Hp. apply negb_false_iff in Hp. exact Hp.
  - destruct (step_other cf s o W A) as [E1 E2]. rewrite E2 in Hin. destruct Hin as [[]|Hin].
    rewrite <- E1 in E. destruct (IH _ _ E N' Hin r Hr) as [o' [Ho' T]].
    exists o'. split; [right; auto | exact T].
Qed.

Lemma call_pending_spec s p :
  In p (s_readers s) -> p_rel p = true -> p_acked p <= s_last s -> In (p_id p) (call_pending s).
Proof.
  intros H R A. unfold call_pending. apply in_map. apply filter_In. split; auto.
  rewrite R. cbn. apply Z.leb_le. auto.
Qed.

Lemma call_pending_nil s :
  call_pending s = [] <-> (forall p, In p (s_readers s) -> p_rel p = true -> s_last s < p_acked p).
Proof.
  split.
  - intros E p Hp R. destruct (Z.lt_ge_cases (s_last s) (p_acked p)); auto.
    assert (H0 : p_acked p <= s_last s) by lia.
    pose proof (call_pending_spec s p Hp R H0) as H1. rewrite E in H1. destruct H1.
  - intros H. unfold call_pending. rewrite filter_none; auto. intros p Hp.
    destruct (p_rel p) eqn:R; auto. cbn. apply Z.leb_gt. auto.
Qed.

(* C20_sound *)
Lemma sound_thm cf s w post :
  no_call_on w post -> In w (all_signals cf s (WaitAck w :: post)) ->
  forall p, In p (s_readers s) -> p_rel p = true ->
    s_last s < p_acked p \/ exists o, In o post /\ tracked (s_last s) (p_id p) o = true.
Proof.
  intros N Hin p Hp R. cbn [all_signals] in Hin.
  destruct (step_wait cf s w) as [E1 E2]. rewrite E2 in Hin.
  destruct (isnil (call_pending s)) eqn:NI.
  - left. apply isnil_true in NI. apply (proj1 (call_pending_nil s) NI p Hp R).
  - cbn [app] in Hin.
    destruct (Z.lt_ge_cases (s_last s) (p_acked p)) as [L|L]; [left; auto | right].
    pose proof (sound_pending cf post _ _ E1 N Hin (p_id p)) as H. cbn [w_pending w_until] in H.
    apply H. apply call_pending_spec; auto; lia.
Qed.

(* C20_prompt *)
Lemma prompt_thm cf s w :
  In w (o_signals (snd (step cf s (WaitAck w))))
  <-> (forall p, In p (s_readers s) -> p_rel p = true -> s_last s < p_acked p).
Proof.
  destruct (step_wait cf s w) as [_ E2]. rewrite E2. rewrite <- call_pending_nil.
  destruct (call_pending s); cbn; split; intros H; auto; try discriminate; tauto.
Qed.

(* completion, writer side: once every reader still owed has acknowledged or been lost (and no
   other call has taken the slot) the signal is sent *)
Lemma complete_pending cf ops : forall s wt,
  s_aw s = Some wt -> (forall o, In o ops -> is_wait o = false) ->
  (exists o, In o ops /\ acks o = true) ->
  (forall r, In r (w_pending wt) -> exists o, In o ops /\ tracked (w_until wt) r o = true) ->
  In (w_chan wt) (all_signals cf s ops).
Proof.
  induction ops as [|o ops IH]; intros s wt E NW EA T; cbn [all_signals].
  - destruct EA as [o [[] _]].
  - apply in_or_app. assert (W : is_wait o = false) by (apply NW; cbn; auto).
    destruct (acks o) eqn:A.
    + destruct (step_acks_some cf s o wt A E) as [E1 E2]. rewrite E2.
      destruct (isnil (pend_after wt o)) eqn:NI; [left; cbn; auto | right].
      assert (PA : forall r, In r (pend_after wt o) ->
                   exists o', In o' ops /\ tracked (w_until wt) r o' = true).
      { intros r Hr. unfold pend_after in Hr. apply filter_In in Hr as [Hr1 Hr2].
        destruct (T r Hr1) as [o' [[<-|Ho'] To']]; [rewrite To' in Hr2; discriminate | eauto]. }
      apply (IH _ _ E1); auto.
      * intros o' Ho'. apply NW; cbn; auto.
      * destruct (pend_after wt o) as [|r0 rest] eqn:Q; [discriminate|].
        destruct (PA r0 (or_introl eq_refl)) as [o' [Ho' To']]. exists o'. split; auto.
        destruct o'; cbn in *; auto; discriminate.
    + destruct (step_other cf s o W A) as [E1 E2]. right. rewrite <- E1 in E.
      apply (IH _ _ E); auto.
      * intros o' Ho'. apply NW; cbn; auto.
      * destruct EA as [o' [[<-|Ho'] Ao']]; [congruence | eauto].
      * intros r Hr. destruct (T r Hr) as [o' [[<-|Ho'] To']]; eauto.
        destruct o; cbn in *; discriminate.
Qed.

(* ------------------------------------------------------------------------------------------ *)
(* the model satisfies the oracle                                                               *)

Definition notdone (c : ocall) : list Z := map fst (filter (fun rb => negb (snd rb)) (oc_readers c)).

Lemma oc_done_notdone c : oc_done c = isnil (notdone c).
Proof.
  unfold oc_done, notdone. induction (oc_readers c) as [|[r b] l IH]; cbn; auto.
  destruct b; cbn; auto.
Qed.

Lemma notdone_open s w : notdone (oc_open (digest_of s) w) = call_pending s.
Proof.
  unfold notdone, oc_open, call_pending, digest_of. cbn [g_last g_readers oc_readers].
  induction (s_readers s) as [|p rs IH]; cbn; auto.
  destruct (p_rel p); cbn; auto.
  destruct (Z.ltb_spec (s_last s) (p_acked p)); destruct (Z.leb_spec (p_acked p) (s_last s)); try lia;
    cbn; rewrite IH; auto.
Qed.

Lemma notdone_update o c :
  notdone (oc_update o c) = filter (fun r => negb (tracked (oc_until c) r o)) (notdone c).
Proof.
  unfold notdone, oc_update. cbn [oc_readers oc_until].
  induction (oc_readers c) as [|[r b] l IH]; cbn; auto.
  destruct b; cbn; auto. destruct (tracked (oc_until c) r o); cbn; rewrite IH; auto.
Qed.

(* the oracle's open calls correspond to the writer's waiter slot *)
Definition slot_rel (open : list ocall) (s : st) : Prop :=
  match s_aw s with
  | None => open = []
  | Some wt => exists c, open = [c] /\ oc_chan c = w_chan wt /\ oc_until c = w_until wt
                         /\ notdone c = w_pending wt /\ w_pending wt <> []
  end.

Lemma isnil_false {A} (l : list A) : isnil l = false -> l <> [].
Proof. destruct l; [discriminate | intros _ H; discriminate]. Qed.

Lemma slot_step cf s o open :
  slot_rel open s ->
  let '(open', expect) := oc_step (digest_of s) o open in
  o_signals (snd (step cf s o)) = expect /\ slot_rel open' (fst (step cf s o)).
Proof.
  intros R. unfold oc_step.
  destruct (op_kind o) as [[w ->]|[[W A]|[W A]]].
  - destruct (step_wait cf s w) as [E1 E2]. cbn [filter map].
    rewrite oc_done_notdone, notdone_open. rewrite E2. unfold slot_rel. rewrite E1.
    destruct (isnil (call_pending s)) eqn:NI; cbn; split; auto.
    eexists. split; [reflexivity|]. split; [reflexivity|]. split; [reflexivity|].
    split; [apply notdone_open|]. apply isnil_false; auto.
  - assert (NW : match o with WaitAck w => [oc_open (digest_of s) w] | _ => map (oc_update o) open end
                 = map (oc_update o) open) by (destruct o; auto; discriminate).
    rewrite NW. unfold slot_rel in R. destruct (s_aw s) as [wt|] eqn:E.
    + destruct R as (c & -> & C1 & C2 & C3 & C4). cbn [map filter].
      destruct (step_acks_some cf s o wt A E) as [E1 E2].
      rewrite oc_done_notdone, notdone_update, C2, C3. fold (pend_after wt o). rewrite E2.
      unfold slot_rel. rewrite E1.
      destruct (isnil (pend_after wt o)) eqn:NI; cbn; split; auto; try congruence.
      eexists. split; [reflexivity|]. split; [exact C1|]. split; [exact C2|].
      split; [rewrite notdone_update, C2, C3; reflexivity|]. apply isnil_false; auto.
    + subst open. cbn. destruct (step_acks_none cf s o A E) as [E1 E2].
      unfold slot_rel. rewrite E1, E2. auto.
  - assert (NW : match o with WaitAck w => [oc_open (digest_of s) w] | _ => map (oc_update o) open end
                 = map (oc_update o) open) by (destruct o; auto; discriminate).
    rewrite NW. destruct (step_other cf s o W A) as [E1 E2]. rewrite E2.
    unfold slot_rel in *. rewrite E1. destruct (s_aw s) as [wt|] eqn:E.
    + destruct R as (c & -> & C1 & C2 & C3 & C4). cbn [map filter].
      assert (ND : notdone (oc_update o c) = w_pending wt).
      { rewrite notdone_update, C2, C3. apply (pend_other wt o W A). }
      rewrite oc_done_notdone, ND.
      destruct (w_pending wt) eqn:Q; [congruence|]. cbn. split; auto.
      eexists. split; [reflexivity|]. split; [exact C1|]. split; [exact C2|].
      split; [exact ND|]. discriminate.
    + subst open. cbn. auto.
Qed.

Lemma calls_ok cf ops : forall s open,
  slot_rel open s -> ok_calls (digest_of s) open ops (run_from false cf s ops) = true.
Proof.
  induction ops as [|o ops IH]; intros s open R; cbn [run_from ok_calls]; auto.
  pose proof (slot_step cf s o open R) as H. unfold step in H.
  destruct (step_with false cf s o) as [s' ou] eqn:E.
  destruct (oc_step (digest_of s) o open) as [open' expect]. cbn [fst snd] in H.
  destruct H as [H1 H2]. cbn [so_signals so_digest]. rewrite H1, zl_eqb_refl. cbn [andb].
  apply IH; auto.
Qed.

Lemma run_ok c : ok c (run c) = true.
Proof.
  destruct c as [cf ops|rel mw f]; cbn [run ok].
  - unfold C04.Model.run. cbn [fst snd]. apply calls_ok. reflexivity.
  - unfold sync_wait, ok_sync. destruct rel; cbn; auto.
    destruct f; cbn; auto. destruct (delay <? mw); reflexivity.
Qed.
