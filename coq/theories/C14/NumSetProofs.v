(* C14 — NumberSet: wire round trip and the 256-element window of from_base_and_set / iter *)
From Coq Require Import List ZArith Lia Bool.
From RD Require Import C15.Prim C15.PL C14.Wire.
Import ListNotations.
Open Scope Z_scope.

(* ------------------------------------------------------------------------------------------ *)
(* SequenceNumber *)
Lemma dec_enc_sn e n rest : i64_ok n -> dec_sn e (enc_sn e n ++ rest) = Some (n, rest).
Proof.
  intros H. unfold dec_sn, enc_sn, bind, i64_ok in *. rewrite <- app_assoc.
  rewrite dec_enc_i32 by (unfold i32_ok; Z.div_mod_to_equations; lia).
  rewrite dec_enc_u32 by (unfold u32_ok; Z.div_mod_to_equations; lia).
  unfold ret. f_equal. f_equal. Z.div_mod_to_equations; lia.
Qed.
Lemma enc_sn_len e n : len (enc_sn e n) = 8.
Proof. unfold enc_sn. now rewrite len_app, enc_i32_len, enc_u32_len. Qed.

Lemma dec_enc_num k e n rest : num_ok k n -> dec_num k e (enc_num k e n ++ rest) = Some (n, rest).
Proof.
  destruct k; unfold num_ok, n_lo, n_hi; intros H; cbn [dec_num enc_num].
  - apply dec_enc_sn. unfold i64_ok. lia.
  - apply dec_enc_u32. unfold u32_ok. lia.
Qed.
Lemma enc_num_len k e n : len (enc_num k e n) = num_size k.
Proof. destruct k; cbn; [apply enc_sn_len | apply enc_u32_len]. Qed.

(* ------------------------------------------------------------------------------------------ *)
(* invariant of every NumberSet a constructor (new, new_empty, from_base_and_set) or the reader
   produces: at most 256 bits, exactly the words for them *)
Definition ns_wf (k : nkind) (s : numset) : Prop :=
  num_ok k (ns_base s) /\ 0 <= ns_bits s <= 256 /\
  Z.of_nat (length (ns_words s)) = wcount (ns_bits s) /\ Forall u32_ok (ns_words s).

Lemma dec_n_words e ws rest :
  Forall u32_ok ws -> dec_n (length ws) (dec_u32 e) (flat_map (enc_u32 e) ws ++ rest) = Some (ws, rest).
Proof.
  induction 1 as [|w ws Hw _ IH]; [reflexivity|].
  cbn [length dec_n flat_map]. unfold bind. rewrite <- app_assoc.
  rewrite dec_enc_u32 by exact Hw. rewrite IH. reflexivity.
Qed.

Lemma flat_map_u32_len e ws : len (flat_map (enc_u32 e) ws) = 4 * Z.of_nat (length ws).
Proof.
  induction ws as [|w ws IH]; [reflexivity|].
  cbn [flat_map length]. rewrite len_app, enc_u32_len, IH. lia.
Qed.

Lemma wcount_nonneg n : 0 <= n -> 0 <= wcount n.
Proof. intros. unfold wcount. Z.div_mod_to_equations; lia. Qed.

Lemma ns_roundtrip k e s rest : ns_wf k s -> dec_ns k e (enc_ns k e s ++ rest) = Some (s, rest).
Proof.
  intros (Hb & Hn & Hl & Hw). destruct s as [b n ws]. cbn [ns_base ns_bits ns_words] in *.
  unfold dec_ns, enc_ns, bind. cbn [ns_base ns_bits ns_words]. rewrite <- !app_assoc.
  rewrite dec_enc_num by exact Hb.
  rewrite dec_enc_u32 by (unfold u32_ok; lia).
  destruct (Z.ltb_spec 256 n) as [L|L]; [lia|].
  rewrite Hl, Z.min_id. rewrite <- Hl, Nat2Z.id, firstn_all.
  rewrite dec_n_words by exact Hw. reflexivity.
Qed.

Lemma enc_ns_len k e s : ns_wf k s -> len (enc_ns k e s) = ns_len_serialized k s.
Proof.
  intros (Hb & Hn & Hl & Hw). unfold enc_ns, ns_len_serialized.
  rewrite !len_app, enc_num_len, enc_u32_len, flat_map_u32_len.
  rewrite Hl, Z.min_id. rewrite <- Hl, Nat2Z.id, firstn_all. lia.
Qed.

(* ------------------------------------------------------------------------------------------ *)
(* bitmap reasoning *)
Definition bit_of (ws : list Z) (i : Z) : bool :=
  Z.testbit (nth (Z.to_nat (i / 32)) ws 0) (31 - i mod 32).

Lemma upd_spec i f l :
  (i < length l)%nat ->
  exists l', upd i f l = Some l' /\ length l' = length l /\
    forall j, nth j l' 0 = if Nat.eqb j i then f (nth i l 0) else nth j l 0.
Proof.
  revert i; induction l as [|x r IH]; intros i H; [cbn in H; lia|].
  destruct i as [|i].
  - exists (f x :: r). split; [reflexivity|]. split; [reflexivity|].
    intros [|j]; reflexivity.
  - cbn [length] in H. destruct (IH i ltac:(lia)) as (r' & E & L & N).
    exists (x :: r'). cbn [upd]. rewrite E. split; [reflexivity|]. split; [cbn; lia|].
    intros [|j]; [reflexivity|]. cbn [nth Nat.eqb]. apply N.
Qed.

Lemma testbit_lor_pow2 w p q : 0 <= p -> Z.testbit (Z.lor w (2 ^ p)) q = Z.testbit w q || (q =? p).
Proof.
  intros Hp. rewrite Z.lor_spec, Z.pow2_bits_eqb by exact Hp.
  f_equal. apply Z.eqb_sym.
Qed.

Lemma lor_pow2_u32 w p : u32_ok w -> 0 <= p < 32 -> u32_ok (Z.lor w (2 ^ p)).
Proof.
  unfold u32_ok. intros Hw Hp.
  assert (P : 0 < 2 ^ p) by (apply Z.pow_pos_nonneg; lia).
  assert (N : 0 <= Z.lor w (2 ^ p)) by (apply Z.lor_nonneg; lia).
  split; [exact N|].
  assert (NZ : Z.lor w (2 ^ p) <> 0).
  { intros E. apply Z.lor_eq_0_iff in E. lia. }
  change 4294967296 with (2 ^ 32). apply Z.log2_lt_pow2; [lia|].
  rewrite Z.log2_lor by lia. rewrite Z.log2_pow2 by lia.
  apply Z.max_lub_lt; [|lia].
  destruct (Z.eq_dec w 0) as [->|W]; [cbn; lia|].
  apply Z.log2_lt_pow2; [lia|]. change (2 ^ 32) with 4294967296. lia.
Qed.

Record Inv (s : numset) (b n : Z) (M : list Z) : Prop := {
  inv_base : ns_base s = b;
  inv_bits : ns_bits s = n;
  inv_len : Z.of_nat (length (ns_words s)) = wcount n;
  inv_u32 : Forall u32_ok (ns_words s);
  inv_bit : forall i, 0 <= i < n -> bit_of (ns_words s) i = existsb (Z.eqb (b + i)) M }.

Lemma nth_repeat0 j m : nth j (repeat 0 m) 0 = 0.
Proof. revert j; induction m; intros [|j]; cbn; auto. Qed.

Lemma new_inv b n : 0 <= n -> Inv (ns_new b n) b n [].
Proof.
  intros Hn. unfold ns_new. constructor; cbn [ns_base ns_bits ns_words]; try reflexivity.
  - rewrite repeat_length, Z2Nat.id; [reflexivity | now apply wcount_nonneg].
  - apply Forall_forall. intros x Hx. apply repeat_spec in Hx. subst. unfold u32_ok. lia.
  - intros i Hi. unfold bit_of. rewrite nth_repeat0. apply Z.testbit_0_l.
Qed.

Lemma Forall_nth_upd (P : Z -> Prop) l l' i f :
  Forall P l -> length l' = length l -> (i < length l)%nat -> P (f (nth i l 0)) ->
  (forall j, nth j l' 0 = if Nat.eqb j i then f (nth i l 0) else nth j l 0) -> Forall P l'.
Proof.
  intros F L Hi Pf N. apply Forall_forall. intros x Hx.
  destruct (In_nth _ _ 0 Hx) as (j & Hj & <-). rewrite N.
  destruct (Nat.eqb j i); [exact Pf|].
  rewrite Forall_forall in F. apply F. apply nth_In. lia.
Qed.

Lemma insert_inv k s b n M x :
  Inv s b n M -> b <= x < b + n -> b + n <= n_hi k ->
  exists s', ns_insert k s x = Some s' /\ Inv s' b n (x :: M).
Proof.
  intros [Hb Hn Hl Hu Hbit] Hx Hov. unfold ns_insert. rewrite Hb, Hn.
  destruct (Z.ltb_spec x b) as [L|_]; [lia|].
  destruct (Z.eqb_spec n 0) as [L|_]; [lia|]. cbn [orb].
  destruct (Z.ltb_spec (n_hi k) (b + n)) as [L|_]; [lia|].
  destruct (Z.leb_spec (b + n) x) as [L|_]; [lia|].
  set (i0 := x - b). assert (Hi0 : 0 <= i0 < n) by (unfold i0; lia).
  assert (Hidx : (Z.to_nat (i0 / 32) < length (ns_words s))%nat).
  { apply Nat2Z.inj_lt. rewrite Hl, Z2Nat.id by (Z.div_mod_to_equations; lia).
    unfold wcount. Z.div_mod_to_equations; lia. }
  destruct (upd_spec (Z.to_nat (i0 / 32)) (fun w => Z.lor w (2 ^ (31 - i0 mod 32))) _ Hidx)
    as (ws' & E & L' & N).
  rewrite E. eexists. split; [reflexivity|].
  constructor; cbn [ns_base ns_bits ns_words]; try reflexivity.
  - now rewrite L'.
  - apply (Forall_nth_upd u32_ok (ns_words s) ws' (Z.to_nat (i0 / 32))
             (fun w => Z.lor w (2 ^ (31 - i0 mod 32)))); auto.
    apply lor_pow2_u32.
    + rewrite Forall_forall in Hu. apply Hu. apply nth_In. exact Hidx.
    + Z.div_mod_to_equations; lia.
  - intros i Hi. unfold bit_of. rewrite N. cbn [existsb].
    destruct (Nat.eqb_spec (Z.to_nat (i / 32)) (Z.to_nat (i0 / 32))) as [Q|Q].
    + rewrite testbit_lor_pow2 by (Z.div_mod_to_equations; lia).
      rewrite <- Q. specialize (Hbit i Hi). unfold bit_of in Hbit. rewrite Hbit.
      rewrite orb_comm. f_equal.
      apply Z2Nat.inj in Q; [| Z.div_mod_to_equations; lia | Z.div_mod_to_equations; lia].
      destruct (Z.eqb_spec (31 - i mod 32) (31 - i0 mod 32)) as [R|R];
        destruct (Z.eqb_spec (b + i) x) as [S|S]; try reflexivity; exfalso;
        unfold i0 in *; Z.div_mod_to_equations; lia.
    + specialize (Hbit i Hi). unfold bit_of in Hbit. rewrite Hbit.
      destruct (Z.eqb_spec (b + i) x) as [S|S]; [|reflexivity].
      exfalso. apply Q. f_equal. f_equal. unfold i0. lia.
Qed.

Lemma insert_all_inv k L : forall s b n M,
  Inv s b n M -> Forall (fun x => b <= x < b + n) L -> b + n <= n_hi k ->
  exists s', ns_insert_all k s L = Some s' /\ Inv s' b n (rev L ++ M).
Proof.
  unfold ns_insert_all. induction L as [|x L IH]; intros s b n M I F Hov.
  - exists s. split; [reflexivity|exact I].
  - apply Forall_cons_iff in F as [H1 H2]. cbn [fold_left].
    destruct (insert_inv k s b n M x I H1 Hov) as (s1 & E1 & I1). rewrite E1.
    destruct (IH s1 b n (x :: M) I1 H2 Hov) as (s2 & E2 & I2).
    exists s2. split; [exact E2|]. cbn [rev]. rewrite <- app_assoc. exact I2.
Qed.

Lemma iter_fold k s b n M (idx : list Z) :
  Inv s b n M -> Forall (fun i => 0 <= i < n) idx -> b + n <= n_hi k + 1 ->
  exists l,
    fold_right (fun i acc =>
      match acc with
      | None => None
      | Some l =>
        match nth_error (ns_words s) (Z.to_nat (i / 32)) with
        | None => None
        | Some w =>
          if Z.testbit w (31 - i mod 32)
          then (if n_hi k <? ns_base s + i then None else Some (ns_base s + i :: l))
          else Some l
        end
      end) (Some []) idx = Some l /\
    forall x, In x l <-> exists i, In i idx /\ x = b + i /\ existsb (Z.eqb x) M = true.
Proof.
  intros I F Hov. destruct I as [Hb Hn Hl Hu Hbit].
  induction idx as [|i idx IH].
  - exists []. split; [reflexivity|]. intros x. split; [intros []|intros (i & [] & _)].
  - apply Forall_cons_iff in F as [Hi F']. destruct (IH F') as (l & E & S). cbn [fold_right]. rewrite E.
    assert (Hidx : (Z.to_nat (i / 32) < length (ns_words s))%nat).
    { apply Nat2Z.inj_lt. rewrite Hl, Z2Nat.id by (Z.div_mod_to_equations; lia).
      unfold wcount. Z.div_mod_to_equations; lia. }
    rewrite (nth_error_nth' _ 0 Hidx).
    specialize (Hbit i Hi). unfold bit_of in Hbit. rewrite Hbit, Hb.
    destruct (existsb (Z.eqb (b + i)) M) eqn:EM.
    + destruct (Z.ltb_spec (n_hi k) (b + i)) as [Q|_]; [lia|].
      eexists. split; [reflexivity|]. intros x. cbn [In]. rewrite S. split.
      * intros [<-|(j & Hj & Hx & HM)]; [exists i; auto|exists j; auto].
      * intros (j & [<-|Hj] & Hx & HM); [left; auto|right; exists j; auto].
    + exists l. split; [reflexivity|]. intros x. rewrite S. split.
      * intros (j & Hj & Hx & HM). exists j. cbn [In]. auto.
      * intros (j & [<-|Hj] & Hx & HM); [subst x; congruence|exists j; auto].
Qed.

Lemma seq_idx n : 0 <= n -> Forall (fun i => 0 <= i < n) (map Z.of_nat (seq 0 (Z.to_nat n))).
Proof.
  intros Hn. apply Forall_forall. intros i Hi. apply in_map_iff in Hi as (j & <- & Hj).
  apply in_seq in Hj. lia.
Qed.

Lemma iter_inv k s b n M :
  Inv s b n M -> 0 <= n -> b + n <= n_hi k + 1 ->
  exists l, ns_iter k s = Some l /\
    forall x, In x l <-> b <= x < b + n /\ existsb (Z.eqb x) M = true.
Proof.
  intros I Hn Hov. unfold ns_iter. rewrite (inv_bits _ _ _ _ I).
  destruct (iter_fold k s b n M _ I (seq_idx n Hn) Hov) as (l & E & S).
  exists l. split; [exact E|]. intros x. rewrite S. split.
  - intros (i & Hi & -> & HM). apply in_map_iff in Hi as (j & <- & Hj). apply in_seq in Hj.
    split; [lia|exact HM].
  - intros (Hx & HM). exists (x - b). split; [|split; [lia|exact HM]].
    apply in_map_iff. exists (Z.to_nat (x - b)). split; [lia|]. apply in_seq. lia.
Qed.

(* ------------------------------------------------------------------------------------------ *)
(* from_base_and_set *)
Lemma fold_min_le r : forall x, fold_left Z.min r x <= x /\ Forall (fun y => fold_left Z.min r x <= y) r.
Proof.
  induction r as [|y r IH]; intros x; cbn [fold_left]; [split; [lia|constructor]|].
  destruct (IH (Z.min x y)) as [A B]. split; [lia|]. constructor; [lia|exact B].
Qed.
Lemma fold_max_ge r : forall x, x <= fold_left Z.max r x /\ Forall (fun y => y <= fold_left Z.max r x) r.
Proof.
  induction r as [|y r IH]; intros x; cbn [fold_left]; [split; [lia|constructor]|].
  destruct (IH (Z.max x y)) as [A B]. split; [lia|]. constructor; [lia|exact B].
Qed.


Lemma existsb_eqb_In x l : existsb (Z.eqb x) l = true <-> In x l.
Proof.
  rewrite existsb_exists. split.
  - intros (y & Hy & E). apply Z.eqb_eq in E. now subst.
  - intros H. exists x. split; [exact H|apply Z.eqb_refl].
Qed.

Theorem numset_window k b S :
  S <> [] -> 1 <= adj_base b S -> adj_base b S + 256 <= n_hi k ->
  exists s l,
    ns_from_base_and_set k b S = Some s /\ ns_base s = adj_base b S /\ ns_wf k s /\
    ns_iter k s = Some l /\
    (forall x, In x l <-> In x S /\ adj_base b S <= x < adj_base b S + 256).
Proof.
  intros HS H1 Hov. destruct S as [|x0 r]; [contradiction|].
  unfold adj_base, set_min in *. unfold ns_from_base_and_set.
  set (start := fold_left Z.min r x0) in *. set (last := fold_left Z.max r x0).
  set (b' := if start <? b then start else b) in *.
  destruct (fold_min_le r x0) as [Smin Fmin]. destruct (fold_max_ge r x0) as [Smax Fmax].
  fold start in Smin, Fmin. fold last in Smax, Fmax.
  assert (Hb's : b' <= start) by (unfold b'; destruct (Z.ltb_spec start b); lia).
  destruct (Z.ltb_spec b' 1) as [Q|_]; [lia|].
  assert (Hall : Forall (fun y => b' <= y <= last) (x0 :: r)).
  { constructor; [lia|]. rewrite Forall_forall in *. intros y Hy.
    specialize (Fmin y Hy). specialize (Fmax y Hy). lia. }
  set (trunc := 256 <=? last - b').
  destruct (Z.ltb_spec (n_hi k) (b' + 255)) as [Q|_]; [lia|]. rewrite andb_false_r.
  set (last' := if trunc then b' + 255 else last).
  assert (Hl' : b' <= last' < b' + 256).
  { unfold last', trunc. destruct (Z.leb_spec 256 (last - b')); lia. }
  set (n := last' - b' + 1).
  set (L := filter (fun s => (b' <=? s) && (s <=? last')) (x0 :: r)).
  assert (FL : Forall (fun x => b' <= x < b' + n) L).
  { apply Forall_forall. intros y Hy. apply filter_In in Hy as [_ Hy].
    apply andb_true_iff in Hy as [A B]. apply Z.leb_le in A. apply Z.leb_le in B. unfold n. lia. }
  destruct (insert_all_inv k L (ns_new b' n) b' n [] (new_inv b' n ltac:(unfold n; lia)) FL
              ltac:(unfold n; lia)) as (s & E & I).
  destruct (iter_inv k s b' n _ I ltac:(unfold n; lia) ltac:(unfold n; lia)) as (l & El & Sl).
  exists s, l. split; [exact E|]. split; [apply (inv_base _ _ _ _ I)|]. split; [|split; [exact El|]].
  - destruct I as [Ib In_ Il Iu _]. unfold ns_wf. rewrite Ib, In_.
    split; [unfold num_ok; destruct k; cbn in *; lia|]. split; [unfold n; lia|]. split; assumption.
  - intros x. rewrite Sl, app_nil_r, existsb_eqb_In, <- in_rev. unfold L. rewrite filter_In.
    rewrite andb_true_iff, Z.leb_le, Z.leb_le. split.
    + intros (Hx & Hin & _). split; [exact Hin|]. unfold n in Hx. lia.
    + intros (Hin & Hx). rewrite Forall_forall in Hall. specialize (Hall x Hin).
      assert (x <= last').
      { unfold last', trunc. destruct (Z.leb_spec 256 (last - b')); lia. }
      unfold n. split; [lia|]. split; [exact Hin|lia].
Qed.

(* an empty set keeps the given base; a set below 1 collapses to the empty set at base 1 *)
Lemma numset_empty k b : ns_from_base_and_set k b [] = Some (ns_new b 0) /\ ns_iter k (ns_new b 0) = Some [].
Proof. split; reflexivity. Qed.

Lemma ns_new_wf k b n : num_ok k b -> 0 <= n <= 256 -> ns_wf k (ns_new b n).
Proof.
  intros Hb Hn. destruct (new_inv b n ltac:(lia)) as [_ _ Il Iu _].
  unfold ns_wf. cbn [ns_new ns_base ns_bits ns_words] in *. auto.
Qed.
