(* C14 — byte-exact model of the RTPS message codec of RustDDS (writer and parser).
   Primitive integer codecs, the reader monad, Parameter / ParameterList writer and Locator are
   REUSED from C15 (C15.Prim, C15.PL, C15.Disc).

   Rust sources mirrored here (statement by statement where practical):
     structure/sequence_number.rs   SequenceNumber, FragmentNumber, NumberSet
     messages/header.rs, protocol_id.rs, protocol_version.rs, vendor_id.rs
     messages/submessages/submessage_header.rs, submessage_flag.rs (endianness_flag), submessage_kind.rs
     messages/submessages/{data,data_frag,gap,heartbeat,heartbeat_frag,ack_nack,nack_frag,
                           info_destination,info_source,info_reply,info_timestamp,submessage}.rs
     rtps/submessage.rs  (Submessage::read_from_buffer, Writable for Submessage)
     rtps/message.rs     (Message::read_from_buffer, Writable for Message)
   bytes are Z in 0..255, byte strings are list Z. *)
From Coq Require Import List ZArith Lia Bool.
From RD Require Import C15.Prim C15.PL C15.Qos C15.Disc.
Import ListNotations.
Open Scope Z_scope.

(* ------------------------------------------------------------------------------------------ *)
(* SequenceNumber(i64): Writable = write_i32((self.0 >> 32) as i32); write_u32(self.0 as u32).
   Readable = high:i32, low:u32, (i64::from(high) << 32) + i64::from(low).  The high word comes
   first in both byte orders. *)
Definition i64_ok (n : Z) := -9223372036854775808 <= n < 9223372036854775808.
Definition enc_sn (e : endian) (n : Z) : list Z :=
  enc_i32 e (n / 4294967296) ++ enc_u32 e (n mod 4294967296).
Definition dec_sn (e : endian) : reader Z :=
  h <- dec_i32 e ;; l <- dec_u32 e ;; ret (h * 4294967296 + l).

(* ------------------------------------------------------------------------------------------ *)
(* NumberSet<N> { bitmap_base : N, num_bits : u32, bitmap : Vec<u32> }  (N = SequenceNumber for
   SequenceNumberSet, N = FragmentNumber(u32) for FragmentNumberSet). *)
Inductive nkind := KSN | KFN.
Definition n_lo (k : nkind) : Z := match k with KSN => -9223372036854775808 | KFN => 0 end.
Definition n_hi (k : nkind) : Z := match k with KSN => 9223372036854775807 | KFN => 4294967295 end.
Definition num_ok (k : nkind) (n : Z) := n_lo k <= n <= n_hi k.
Definition num_size (k : nkind) : Z := match k with KSN => 8 | KFN => 4 end.
Definition enc_num (k : nkind) (e : endian) (n : Z) : list Z :=
  match k with KSN => enc_sn e n | KFN => enc_u32 e n end.
Definition dec_num (k : nkind) (e : endian) : reader Z :=
  match k with KSN => dec_sn e | KFN => dec_u32 e end.

Record numset := NS { ns_base : Z; ns_bits : Z; ns_words : list Z }.

(* (num_bits + 31) / 32 *)
Definition wcount (n : Z) : Z := (n + 31) / 32.

(* NumberSet::new *)
Definition ns_new (base n : Z) : numset := NS base n (repeat 0 (Z.to_nat (wcount n))).

(* self.bitmap[i] = f(self.bitmap[i]); None = index out of bounds (panic) *)
Fixpoint upd (i : nat) (f : Z -> Z) (l : list Z) : option (list Z) :=
  match l, i with
  | [], _ => None
  | x :: r, O => Some (f x :: r)
  | x :: r, S i' => match upd i' f r with Some r' => Some (x :: r') | None => None end
  end.

(* NumberSet::insert.  None = panic: `self.bitmap_base + N::from(self.num_bits as i64)` is a
   derived (NumOps) addition on i64 / u32 and overflows with a panic in debug builds; bitmap index
   out of bounds.  The `||` chain short-circuits exactly as written. *)
Definition ns_insert (k : nkind) (s : numset) (sn : Z) : option numset :=
  if (sn <? ns_base s) || (ns_bits s =? 0) then Some s
  else if n_hi k <? ns_base s + ns_bits s then None
  else if ns_base s + ns_bits s <=? sn then Some s
  else
    let bit_pos := sn - ns_base s in
    match upd (Z.to_nat (bit_pos / 32)) (fun w => Z.lor w (2 ^ (31 - bit_pos mod 32))) (ns_words s) with
    | Some ws => Some (NS (ns_base s) (ns_bits s) ws)
    | None => None
    end.

Definition ns_insert_all (k : nkind) (s : numset) (l : list Z) : option numset :=
  fold_left (fun acc x => match acc with Some a => ns_insert k a x | None => None end) l (Some s).

(* NumberSet::from_base_and_set(base, &BTreeSet).  The set is given as a list; first()/last() of the
   BTreeSet are the minimum and maximum. *)
Definition ns_from_base_and_set (k : nkind) (base : Z) (set : list Z) : option numset :=
  match set with
  | [] => Some (ns_new base 0)
  | x :: r =>
    let start := fold_left Z.min r x in
    let last := fold_left Z.max r x in
    let base := if start <? base then start else base in
    if base <? 1 then Some (ns_new 1 0)
    else
      let trunc := 256 <=? last - base in
      if trunc && (n_hi k <? base + 255) then None      (* base + N::from(255) overflows *)
      else
        let last := if trunc then base + 255 else last in
        let nbits := last - base + 1 in
        ns_insert_all k (ns_new base nbits) (filter (fun s => (base <=? s) && (s <=? last)) set)
  end.

(* the base from_base_and_set actually uses: `if start < base { start } else { base }` *)
Definition set_min (S : list Z) : Z := match S with [] => 0 | x :: r => fold_left Z.min r x end.
Definition adj_base (b : Z) (S : list Z) : Z := if set_min S <? b then set_min S else b.

(* NumberSet::iter() collected.  None = panic (bitmap index out of bounds, or the addition
   N::from(at_bit) + bitmap_base overflows). *)
Definition ns_iter (k : nkind) (s : numset) : option (list Z) :=
  fold_right (fun i acc =>
      match acc with
      | None => None
      | Some l =>
        match nth_error (ns_words s) (Z.to_nat (i / 32)) with
        | None => None
        | Some w =>
          if Z.testbit w (31 - i mod 32)
          then (if n_hi k <? ns_base s + i then None else Some (ns_base s + i :: l))
          else Some l
        end
      end)
    (Some []) (map Z.of_nat (seq 0 (Z.to_nat (ns_bits s)))).

(* ---- NumberSetIter { seq, at_bit, rev_at_bit } (Iterator + DoubleEndedIterator), is_empty ---- *)
(* the iterator state; NumberSet::iter() starts at at_bit = 0, rev_at_bit = num_bits *)
Record nsit := IT { it_at : Z; it_rev : Z }.
Definition ns_iter_start (s : numset) : nsit := IT 0 (ns_bits s).
(* one call of next() / next_back(): Some(x) with the new state, None, or a panic (bitmap index out
   of bounds; `N::from(i64::from(bit)) + bitmap_base` overflows the number type, debug build) *)
Inductive istep := IYield (x : Z) (it : nsit) | IDone | IPanicS.

(* bit indexing formula from RTPS spec v2.3 Section 9.4.2.6, as both loops write it:
   bitmap[(bit / 32) as usize] & (1 << (31 - bit % 32)) != 0 *)
Definition have_one (s : numset) (bit : Z) : option bool :=
  match nth_error (ns_words s) (Z.to_nat (bit / 32)) with
  | None => None
  | Some w => Some (Z.testbit w (31 - bit mod 32))
  end.

(* NumberSetIter::next:
     while self.at_bit < self.rev_at_bit {
       let have_one = ...bitmap[at_bit / 32] & (1 << (31 - at_bit % 32)) != 0;
       self.at_bit += 1;
       if have_one { return Some(N::from(i64::from(self.at_bit - 1)) + self.seq.bitmap_base); } }
     None
   [d] is rev_at_bit - at_bit, the number of iterations left before the loop condition fails
   (at_bit grows by one per iteration, rev_at_bit is not touched). *)
Fixpoint it_next_loop (k : nkind) (s : numset) (d : nat) (at_bit rev_at_bit : Z) : istep :=
  match d with
  | O => IDone
  | S d' =>
    match have_one s at_bit with
    | None => IPanicS
    | Some h =>
      let at_bit := at_bit + 1 in
      if h then
        (if n_hi k <? (at_bit - 1) + ns_base s then IPanicS
         else IYield ((at_bit - 1) + ns_base s) (IT at_bit rev_at_bit))
      else it_next_loop k s d' at_bit rev_at_bit
    end
  end.
Definition it_next (k : nkind) (s : numset) (it : nsit) : istep :=
  it_next_loop k s (Z.to_nat (it_rev it - it_at it)) (it_at it) (it_rev it).

(* NumberSetIter::next_back:
     while self.at_bit < self.rev_at_bit {
       self.rev_at_bit -= 1;
       let have_one = ...bitmap[rev_at_bit / 32] & (1 << (31 - rev_at_bit % 32)) != 0;
       if have_one { return Some(N::from(i64::from(self.rev_at_bit)) + self.seq.bitmap_base); } }
     None *)
Fixpoint it_back_loop (k : nkind) (s : numset) (d : nat) (at_bit rev_at_bit : Z) : istep :=
  match d with
  | O => IDone
  | S d' =>
    let rev_at_bit := rev_at_bit - 1 in
    match have_one s rev_at_bit with
    | None => IPanicS
    | Some h =>
      if h then
        (if n_hi k <? rev_at_bit + ns_base s then IPanicS
         else IYield (rev_at_bit + ns_base s) (IT at_bit rev_at_bit))
      else it_back_loop k s d' at_bit rev_at_bit
    end
  end.
Definition it_next_back (k : nkind) (s : numset) (it : nsit) : istep :=
  it_back_loop k s (Z.to_nat (it_rev it - it_at it)) (it_at it) (it_rev it).

(* what a consumer collects: the yielded numbers, a panic, or (model only) fuel exhausted *)
Inductive ires := IOk (l : list Z) | IPanic | IFuel.
Definition icons (x : Z) (r : ires) : ires := match r with IOk l => IOk (x :: l) | o => o end.

(* iter().collect() / iter().rev().collect() / alternately next() and next_back() until the first
   None ([front] says whose turn it is).  Fuel = number of calls that may still yield. *)
Fixpoint drain (k : nkind) (s : numset) (alternate : bool) (n : nat) (front : bool) (it : nsit) : ires :=
  match (if front then it_next k s it else it_next_back k s it) with
  | IDone => IOk []
  | IPanicS => IPanic
  | IYield x it' =>
    match n with
    | O => IFuel
    | S n' => icons x (drain k s alternate n' (if alternate then negb front else front) it')
    end
  end.
Definition ns_fuel (s : numset) : nat := Z.to_nat (ns_bits s).
Definition ns_collect (k : nkind) (s : numset) : ires := drain k s false (ns_fuel s) true (ns_iter_start s).
Definition ns_collect_rev (k : nkind) (s : numset) : ires := drain k s false (ns_fuel s) false (ns_iter_start s).
Definition ns_collect_alt (k : nkind) (s : numset) : ires := drain k s true (ns_fuel s) true (ns_iter_start s).

(* NumberSet::is_empty: self.num_bits == 0 || self.iter().next().is_none();  None = panic *)
Definition ns_is_empty (k : nkind) (s : numset) : option bool :=
  if ns_bits s =? 0 then Some true
  else match it_next k s (ns_iter_start s) with
       | IDone => Some true
       | IYield _ _ => Some false
       | IPanicS => None
       end.

(* NumberSet::base *)
Definition ns_base_fn (s : numset) : Z := ns_base s.

(* specification side: bit i of the set is word i / 32, bit 31 - i % 32 (MSB first); the members of
   the window [a, r) in ascending order *)
Definition ns_bit (ws : list Z) (i : Z) : bool :=
  Z.testbit (nth (Z.to_nat (i / 32)) ws 0) (31 - i mod 32).
Definition members_between (s : numset) (a r : Z) : list Z :=
  map (fun i => i + ns_base s)
      (filter (ns_bit (ns_words s)) (map Z.of_nat (seq (Z.to_nat a) (Z.to_nat (r - a))))).
Definition members (s : numset) : list Z := members_between s 0 (ns_bits s).

(* NumberSet::len_serialized *)
Definition ns_len_serialized (k : nkind) (s : numset) : Z := num_size k + 4 + 4 * wcount (ns_bits s).

(* Writable for NumberSet: base, num_bits, then min(word_count, bitmap.len()) words *)
Definition enc_ns (k : nkind) (e : endian) (s : numset) : list Z :=
  enc_num k e (ns_base s) ++ enc_u32 e (ns_bits s) ++
  flat_map (enc_u32 e)
    (firstn (Z.to_nat (Z.min (wcount (ns_bits s)) (Z.of_nat (length (ns_words s))))) (ns_words s)).

Fixpoint dec_n {A} (n : nat) (r : reader A) : reader (list A) :=
  match n with
  | O => ret []
  | S n' => x <- r ;; xs <- dec_n n' r ;; ret (x :: xs)
  end.

(* Readable for NumberSet: num_bits > 256 is an error *)
Definition dec_ns (k : nkind) (e : endian) : reader numset :=
  b <- dec_num k e ;; n <- dec_u32 e ;;
  if 256 <? n then fail
  else ws <- dec_n (Z.to_nat (wcount n)) (dec_u32 e) ;; ret (NS b n ws).

(* ------------------------------------------------------------------------------------------ *)
(* Vec<Locator> (speedy): u32 length, the items.  Reader::read_vec first checks
   minimum_bytes_needed (24, since fix 94dd595) * length against the remaining input. *)
Definition enc_locs (e : endian) (ls : list locator) : list Z :=
  enc_u32 e (Z.of_nat (length ls)) ++ flat_map (enc_locator e) ls.
Definition dec_locs (e : endian) : reader (list locator) := fun bs =>
  match dec_u32 e bs with
  | Some (n, r) => if len r <? 24 * n then None else dec_n (Z.to_nat n) (dec_locator e) r
  | None => None
  end.

(* ------------------------------------------------------------------------------------------ *)
(* ParameterList::read_from on a stream, returning what is left (the DATA payload follows the
   inline QoS).  Same loop as C15.PL.dec_pl_aux; the trip count is data dependent: fuel with a
   distinguished OutOfFuel, proved unreachable (Proofs.dec_plr_never_out_of_fuel). *)
Fixpoint dec_plr_aux (fuel : nat) (e : endian) (bs : list Z) : outcome (list param * list Z) :=
  match fuel with
  | O => OutOfFuel
  | S f =>
    match dec_u16 e bs with
    | None => Err
    | Some (pid, bs1) =>
      match dec_u16 e bs1 with
      | None => Err
      | Some (length, bs2) =>
        if pid =? PID_SENTINEL then Ok ([], bs2)
        else match take length bs2 with
             | None => Err
             | Some (v, bs3) =>
               match dec_plr_aux f e bs3 with
               | Ok (ps, rest) => Ok ((pid, v) :: ps, rest)
               | Err => Err
               | OutOfFuel => OutOfFuel
               end
             end
      end
    end
  end.
Definition dec_plr (e : endian) : reader (list param) := fun bs =>
  match dec_plr_aux (S (length bs)) e bs with Ok x => Some x | _ => None end.

(* ------------------------------------------------------------------------------------------ *)
(* Submessage bodies.  EntityId = 4 bytes, GuidPrefix = 12 bytes, VendorId = 2 bytes as they are. *)
Inductive body :=
| BData (rd wr : list Z) (sn : Z) (iq : option (list param)) (pl : option (list Z))
| BDataFrag (rd wr : list Z) (sn fsn fis dsz fsz : Z) (iq : option (list param)) (pl : list Z)
| BGap (rd wr : list Z) (start : Z) (gl : numset)
| BHeartbeat (rd wr : list Z) (first last count : Z)
| BHeartbeatFrag (rd wr : list Z) (sn lastf count : Z)
| BAckNack (rd wr : list Z) (st : numset) (count : Z)
| BNackFrag (rd wr : list Z) (sn : Z) (st : numset) (count : Z)
| BInfoTs (ts : option (Z * Z))
| BInfoDst (prefix : list Z)
| BInfoSrc (unused major minor : Z) (vendor prefix : list Z)
| BInfoReply (uni : list locator) (multi : option (list locator)).

Definition K_PAD := 1.
Definition K_ACKNACK := 6.
Definition K_HEARTBEAT := 7.
Definition K_GAP := 8.
Definition K_INFO_TS := 9.
Definition K_INFO_SRC := 12.
Definition K_INFO_DST := 14.
Definition K_INFO_REPLY := 15.
Definition K_NACK_FRAG := 18.
Definition K_HEARTBEAT_FRAG := 19.
Definition K_DATA := 21.
Definition K_DATA_FRAG := 22.

Definition kind_of_body (b : body) : Z :=
  match b with
  | BData _ _ _ _ _ => K_DATA | BDataFrag _ _ _ _ _ _ _ _ _ => K_DATA_FRAG | BGap _ _ _ _ => K_GAP
  | BHeartbeat _ _ _ _ _ => K_HEARTBEAT | BHeartbeatFrag _ _ _ _ _ => K_HEARTBEAT_FRAG
  | BAckNack _ _ _ _ => K_ACKNACK | BNackFrag _ _ _ _ _ => K_NACK_FRAG | BInfoTs _ => K_INFO_TS
  | BInfoDst _ => K_INFO_DST | BInfoSrc _ _ _ _ _ => K_INFO_SRC | BInfoReply _ _ => K_INFO_REPLY
  end.

(* endianness_flag(flags) *)
Definition eflag (flags : Z) : endian := if Z.testbit flags 0 then LE else BE.

Definition enc_oiq (e : endian) (iq : option (list param)) : list Z :=
  match iq with Some ps => enc_pl e ps | None => [] end.

(* DataFrag::write_to, inline QoS part.
   [old]: as found — `writer.write_value(&self.inline_qos)` writes the Option<ParameterList> with
   speedy's Option encoding, i.e. a tag byte 1 before the list.
          An empty list was skipped.
   [new]: after fix 989bc45 — `if let Some(iq) = .. { writer.write_value(iq) }` as in Data. *)
Definition enc_frag_iq (old : bool) (e : endian) (iq : option (list param)) : list Z :=
  if old then match iq with Some (p :: ps) => [1] ++ enc_pl e (p :: ps) | _ => [] end
  else enc_oiq e iq.

(* Writable for each submessage body, in the submessage's endianness e *)
Definition enc_body_gen (old : bool) (e : endian) (b : body) : list Z :=
  match b with
  | BData rd wr sn iq pl =>
      enc_u16 e 0 ++ enc_u16 e 16 ++ rd ++ wr ++ enc_sn e sn ++ enc_oiq e iq ++
      match pl with Some p => p ++ zeros (pad4 (len p)) | None => [] end
  | BDataFrag rd wr sn fsn fis dsz fsz iq pl =>
      enc_u16 e 0 ++ enc_u16 e 28 ++ rd ++ wr ++ enc_sn e sn ++ enc_u32 e fsn ++ enc_u16 e fis ++
      enc_u16 e fsz ++ enc_u32 e dsz ++ enc_frag_iq old e iq ++ pl
  | BGap rd wr start gl => rd ++ wr ++ enc_sn e start ++ enc_ns KSN e gl
  | BHeartbeat rd wr first last count => rd ++ wr ++ enc_sn e first ++ enc_sn e last ++ enc_i32 e count
  | BHeartbeatFrag rd wr sn lastf count => rd ++ wr ++ enc_sn e sn ++ enc_u32 e lastf ++ enc_i32 e count
  | BAckNack rd wr st count => rd ++ wr ++ enc_ns KSN e st ++ enc_i32 e count
  | BNackFrag rd wr sn st count => rd ++ wr ++ enc_sn e sn ++ enc_ns KFN e st ++ enc_i32 e count
  | BInfoTs None => []
  | BInfoTs (Some (s, f)) => enc_u32 e s ++ enc_u32 e f
  | BInfoDst prefix => prefix
  | BInfoSrc unused major minor vendor prefix => enc_u32 e unused ++ [major; minor] ++ vendor ++ prefix
  | BInfoReply uni multi =>
      enc_locs e uni ++ match multi with None => [0] | Some m => [1] ++ enc_locs e m end
  end.
Definition enc_body := enc_body_gen false.
Definition enc_body_old := enc_body_gen true.

(* the len_serialized() functions / write_to_vec().len() used to fill octetsToNextHeader *)
Definition param_len_serialized (p : param) : Z := 4 + len (snd p) + pad4 (4 + len (snd p)).
Definition pl_len_serialized (ps : list param) : Z :=
  fold_right (fun p acc => param_len_serialized p + acc) 0 ps + 4.
Definition oiq_len_serialized (iq : option (list param)) : Z :=
  match iq with Some ps => pl_len_serialized ps | None => 0 end.
Definition len_serialized (b : body) : Z :=
  match b with
  | BData rd wr sn iq pl =>
      let n := 20 + oiq_len_serialized iq + match pl with Some p => len p | None => 0 end in
      n + pad4 n                                                   (* round_up_to_4 *)
  | BDataFrag rd wr sn fsn fis dsz fsz iq pl => 32 + oiq_len_serialized iq + len pl
  | BGap _ _ _ _ | BHeartbeat _ _ _ _ _ => len (enc_body LE b)    (* self.write_to_vec().len() *)
  | BAckNack rd wr st count => 8 + ns_len_serialized KSN st + 4
  | BNackFrag rd wr sn st count => 8 + 8 + ns_len_serialized KFN st + 4
  | BInfoTs None => 0
  | BInfoTs (Some _) => 8
  | BInfoDst _ => 12
  | BInfoSrc _ _ _ _ _ => 20
  (* no len_serialized / create_submessage in the code; a constructor has to count the bytes *)
  | BHeartbeatFrag _ _ _ _ _ => 24
  | BInfoReply _ _ => len (enc_body LE b)
  end.

(* ---- readers of the bodies (from exactly the body bytes of the submessage) ---- *)

(* octetsToInlineQos handling in Data::deserialize_data / DataFrag::deserialize: error if below
   the fixed header size, skip the excess, error if that runs past the end *)
Definition skip_extra (oiq fixed : Z) : reader unit := fun bs =>
  if oiq <? fixed then None
  else if fixed <? oiq then
    (if oiq - fixed <=? len bs then Some (tt, skipn (Z.to_nat (oiq - fixed)) bs) else None)
  else Some (tt, bs).

Definition dec_oiq (present : bool) (e : endian) : reader (option (list param)) :=
  if present then (ps <- dec_plr e ;; ret (Some ps)) else ret None.

(* Data::deserialize_data(buffer, flags) *)
Definition dec_data (f : Z) (e : endian) : reader body :=
  _ <- dec_u16 e ;; oiq <- dec_u16 e ;; rd <- take 4 ;; wr <- take 4 ;; sn <- dec_sn e ;;
  _ <- skip_extra oiq 16 ;;
  iq <- dec_oiq (Z.testbit f 1) e ;;
  fun rest => Some (BData rd wr sn iq (if Z.testbit f 2 || Z.testbit f 3 then Some rest else None), []).

(* DataFrag::total_number_of_fragments (fragment_size >= 1 here) *)
Definition total_frags (dsz fsz : Z) : Z := dsz / fsz + (if 0 <? dsz mod fsz then 1 else 0).

(* DataFrag::deserialize(buffer, flags) with its validity checks *)
Definition dec_datafrag (f : Z) (e : endian) : reader body :=
  _ <- dec_u16 e ;; oiq <- dec_u16 e ;; rd <- take 4 ;; wr <- take 4 ;; sn <- dec_sn e ;;
  fsn <- dec_u32 e ;; fis <- dec_u16 e ;; fsz <- dec_u16 e ;; dsz <- dec_u32 e ;;
  _ <- skip_extra oiq 28 ;;
  iq <- dec_oiq (Z.testbit f 1) e ;;
  fun rest =>
    if sn <? 1 then None
    else if (fsz <? 1) || (dsz <? fsz) then None
    else if (fsn <? 1) || (total_frags dsz fsz <? fsn) then None
    else Some (BDataFrag rd wr sn fsn fis dsz fsz iq rest, []).

Definition dec_gap (e : endian) : reader body :=
  rd <- take 4 ;; wr <- take 4 ;; s <- dec_sn e ;; gl <- dec_ns KSN e ;; ret (BGap rd wr s gl).
Definition dec_heartbeat (e : endian) : reader body :=
  rd <- take 4 ;; wr <- take 4 ;; a <- dec_sn e ;; b <- dec_sn e ;; c <- dec_i32 e ;;
  ret (BHeartbeat rd wr a b c).
Definition dec_heartbeatfrag (e : endian) : reader body :=
  rd <- take 4 ;; wr <- take 4 ;; a <- dec_sn e ;; b <- dec_u32 e ;; c <- dec_i32 e ;;
  ret (BHeartbeatFrag rd wr a b c).
Definition dec_acknack (e : endian) : reader body :=
  rd <- take 4 ;; wr <- take 4 ;; st <- dec_ns KSN e ;; c <- dec_i32 e ;; ret (BAckNack rd wr st c).
Definition dec_nackfrag (e : endian) : reader body :=
  rd <- take 4 ;; wr <- take 4 ;; sn <- dec_sn e ;; st <- dec_ns KFN e ;; c <- dec_i32 e ;;
  ret (BNackFrag rd wr sn st c).
(* INFO_TS: the Invalidate flag decides; otherwise Timestamp { seconds : u32, fraction : u32 } *)
Definition dec_infots (f : Z) (e : endian) : reader body :=
  if Z.testbit f 1 then ret (BInfoTs None)
  else s <- dec_u32 e ;; fr <- dec_u32 e ;; ret (BInfoTs (Some (s, fr))).
Definition dec_infodst : reader body := p <- take 12 ;; ret (BInfoDst p).
Definition dec_infosrc (e : endian) : reader body :=
  u <- dec_u32 e ;; ma <- read_u8 ;; mi <- read_u8 ;; v <- take 2 ;; p <- take 12 ;;
  ret (BInfoSrc u ma mi v p).
(* InfoReply derives Readable: Vec<Locator>, then Option<Vec<Locator>> with speedy's tag byte
   (bool: 0 = None, anything else = Some) — the Multicast flag is not consulted *)
Definition dec_inforeply (e : endian) : reader body :=
  u <- dec_locs e ;; t <- read_u8 ;;
  if t =? 0 then ret (BInfoReply u None) else m <- dec_locs e ;; ret (BInfoReply u (Some m)).

(* BitFlags::<X_Flags>::from_bits_truncate: the declared bits of each flag enum *)
Definition fmask (k : Z) : Z :=
  if k =? K_ACKNACK then 3 else if k =? K_DATA then 31 else if k =? K_DATA_FRAG then 15
  else if k =? K_HEARTBEAT then 7 else if k =? K_INFO_TS then 3 else if k =? K_INFO_REPLY then 3
  else 1.

(* result of the `match sub_header.kind` in Submessage::read_from_buffer.
   BUnmodelled: the five security submessage kinds 0x30..0x34 (feature "security") — outside this
   model; the driver never lets one be reached. *)
Inductive bres := BErr | BSkip | BOk (b : body) | BUnmodelled.
Definition of_parse (o : option body) : bres := match o with Some b => BOk b | None => BErr end.
Definition read_body (k f : Z) (b : list Z) : bres :=
  let e := eflag f in
  if k =? K_DATA then of_parse (parse (dec_data f e) b)
  else if k =? K_DATA_FRAG then of_parse (parse (dec_datafrag f e) b)
  else if k =? K_GAP then of_parse (parse (dec_gap e) b)
  else if k =? K_ACKNACK then of_parse (parse (dec_acknack e) b)
  else if k =? K_NACK_FRAG then of_parse (parse (dec_nackfrag e) b)
  else if k =? K_HEARTBEAT then of_parse (parse (dec_heartbeat e) b)
  else if k =? K_HEARTBEAT_FRAG then of_parse (parse (dec_heartbeatfrag e) b)
  else if k =? K_INFO_DST then of_parse (parse dec_infodst b)
  else if k =? K_INFO_SRC then of_parse (parse (dec_infosrc e) b)
  else if k =? K_INFO_TS then of_parse (parse (dec_infots f e) b)
  else if k =? K_INFO_REPLY then of_parse (parse (dec_inforeply e) b)
  else if k =? K_PAD then BSkip
  else if (48 <=? k) && (k <=? 52) then BUnmodelled
  else BSkip.                                     (* unknown / vendor-specific kinds are skipped *)

(* ------------------------------------------------------------------------------------------ *)
(* Submessage { header : SubmessageHeader { kind, flags : u8, content_length : u16 },
                body : SubmessageBody::X(XSubmessage::Y(body, BitFlags<Y_Flags>)) }.
   sm_bflags = the bits of the typed BitFlags stored next to the body. *)
Record submsg := SM { sm_kind : Z; sm_flags : Z; sm_len : Z; sm_bflags : Z; sm_body : body }.

(* Writable for SubmessageHeader (length in the byte order of its own flags) and for Submessage
   (body written with endianness_flag(header.flags)).  The speedy context endianness is not used. *)
Definition ser_sub_gen (old : bool) (s : submsg) : list Z :=
  [sm_kind s; sm_flags s] ++ enc_u16 (eflag (sm_flags s)) (sm_len s) ++
  enc_body_gen old (eflag (sm_flags s)) (sm_body s).
Definition ser_sub := ser_sub_gen false.

(* Submessage::read_from_buffer(&mut buffer) *)
Inductive sres := SErr | SSkip (rest : list Z) | SOk (s : submsg) (rest : list Z) | SUnmodelled.
(* Readable for SubmessageHeader: kind, flags, content_length in the byte order of the flags *)
Definition read_subhdr : reader (Z * Z * Z) :=
  k <- read_u8 ;; f <- read_u8 ;; l <- dec_u16 (eflag f) ;; ret (k, f, l).
Definition read_sub (bs : list Z) : sres :=
  match read_subhdr bs with
  | None => SErr                                  (* fewer than 4 bytes left *)
  | Some ((k, f, clen), r) =>
    let proposed :=
      if clen =? 0 then (if (k =? K_PAD) || (k =? K_INFO_TS) then 0 else len r) else clen in
    match take proposed r with
    | None => SErr                                (* declared length larger than what is left *)
    | Some (b, rest) =>
      match read_body k f b with
      | BErr => SErr
      | BSkip => SSkip rest
      | BUnmodelled => SUnmodelled
      | BOk bd => SOk (SM k f clen (Z.land f (fmask k)) bd) rest
      end
    end
  end.

(* ------------------------------------------------------------------------------------------ *)
(* Header { protocol_id : [char;4] (written/read as u8), protocol_version {major,minor : u8},
            vendor_id : [u8;2], guid_prefix : [u8;12] } — no multi-byte fields *)
Record mheader := MH { h_proto : list Z; h_major : Z; h_minor : Z; h_vendor : list Z; h_prefix : list Z }.
Definition enc_mheader (h : mheader) : list Z :=
  h_proto h ++ [h_major h; h_minor h] ++ h_vendor h ++ h_prefix h.
Definition dec_mheader : reader mheader :=
  p <- take 4 ;; ma <- read_u8 ;; mi <- read_u8 ;; v <- take 2 ;; g <- take 12 ;; ret (MH p ma mi v g).
Definition RTPS : list Z := [82; 84; 80; 83].
(* Validity for Header: protocol id is "RTPS" and major version <= 2 *)
Definition list_z_eqb (a b : list Z) : bool :=
  (length a =? length b)%nat && forallb (fun p => fst p =? snd p) (combine a b).
Definition hdr_valid (h : mheader) : bool := list_z_eqb (h_proto h) RTPS && (h_major h <=? 2).

Record message := Msg { m_hdr : mheader; m_subs : list submsg }.

(* Writable for Message.  The context endianness [ctx] of write_to_vec_with_ctx reaches no
   multi-byte field: the parameter is kept to make that explicit (Proofs.ser_ctx_irrelevant). *)
Definition ser_gen (old : bool) (ctx : endian) (m : message) : list Z :=
  enc_mheader (m_hdr m) ++ flat_map (ser_sub_gen old) (m_subs m).
Definition ser := ser_gen false.

(* Message::read_from_buffer: header, validity, then `while !left.is_empty()`.  The loop's trip
   count is data dependent: fuel, distinguished PFuel (proved unreachable). *)
Inductive pres (A : Type) := POk (a : A) | PErr | PFuel | PUnmodelled.
Arguments POk {A} a.
Arguments PErr {A}.
Arguments PFuel {A}.
Arguments PUnmodelled {A}.

Fixpoint read_subs (fuel : nat) (bs : list Z) : pres (list submsg) :=
  match bs with
  | [] => POk []
  | _ =>
    match fuel with
    | O => PFuel
    | S f =>
      match read_sub bs with
      | SErr => PErr
      | SUnmodelled => PUnmodelled
      | SSkip rest => read_subs f rest
      | SOk s rest =>
        match read_subs f rest with
        | POk l => POk (s :: l)
        | PErr => PErr | PFuel => PFuel | PUnmodelled => PUnmodelled
        end
      end
    end
  end.

Definition parse_msg (bs : list Z) : pres message :=
  match dec_mheader bs with
  | None => PErr
  | Some (h, rest) =>
    if hdr_valid h then
      match read_subs (S (length rest)) rest with
      | POk l => POk (Msg h l)
      | PErr => PErr | PFuel => PFuel | PUnmodelled => PUnmodelled
      end
    else PErr
  end.

(* ------------------------------------------------------------------------------------------ *)
(* what the parser hands back for what was written: inline-QoS values and the DATA payload carry
   their zero padding to the 4-byte boundary *)
Definition pad_canon_body (b : body) : body :=
  match b with
  | BData rd wr sn iq pl =>
      BData rd wr sn (option_map (map padp) iq) (option_map padv pl)
  | BDataFrag rd wr sn fsn fis dsz fsz iq pl =>
      BDataFrag rd wr sn fsn fis dsz fsz (option_map (map padp) iq) pl
  | _ => b
  end.
Definition pad_canon_sub (s : submsg) : submsg :=
  SM (sm_kind s) (sm_flags s) (sm_len s) (sm_bflags s) (pad_canon_body (sm_body s)).
Definition pad_canon (m : message) : message := Msg (m_hdr m) (map pad_canon_sub (m_subs m)).
