(* C14 — the oracle: Prop reading (Spec), soundness, and the model satisfies it on every case *)
From Coq Require Import List ZArith Lia Bool.
From RD Require Import C15.Prim C15.PL C15.Qos C15.Disc C14.Wire C14.Model C14.NumSetProofs C14.Proofs C14.NumRawProofs.
Import ListNotations.
Open Scope Z_scope.

Lemma dec2b_iff {P : Prop} (d : {P} + {~ P}) : dec2b d = true <-> P.
Proof. destruct d; cbn; split; auto; try discriminate; contradiction. Qed.

(* Prop reading of frames_ok: the bytes split into one frame per submessage, each frame headed by
   kind, flags and a length n (in the byte order of the flags) that is exactly the number of body
   bytes the writer emits for that body; the next frame starts right after them *)
Fixpoint Frames (subs : list submsg) (bs : list Z) : Prop :=
  match subs with
  | [] => bs = []
  | s :: r =>
    exists n rest,
      read_subhdr bs = Some ((sm_kind s, sm_flags s, n), rest) /\ n <= len rest /\
      flags_agreeb s = true /\ n = len (enc_body (eflag (sm_flags s)) (sm_body s)) /\
      Frames r (skipn (Z.to_nat n) rest)
  end.

Lemma frames_ok_spec subs : forall bs, frames_ok subs bs = true <-> Frames subs bs.
Proof.
  induction subs as [|s r IH]; intros bs; cbn [frames_ok Frames].
  - destruct bs; cbn; split; auto; discriminate.
  - destruct (read_subhdr bs) as [[[[k f] n] rest]|].
    + split.
      * intros H. bsplit H. apply Z.eqb_eq in H, B3, B0. apply Z.leb_le in B2. subst k f.
        exists n, rest. rewrite <- IH. auto.
      * intros (n' & rest' & E & L & FA & N & Fr). inversion E; subst.
        rewrite !Z.eqb_refl, FA. rewrite (proj2 (IH _) Fr).
        destruct (Z.leb_spec (len (enc_body (eflag (sm_flags s)) (sm_body s))) (len rest')); [reflexivity|lia].
    + split; [discriminate|]. intros (n & rest & E & _). discriminate.
Qed.

(* a consumer of the iterator over the member list M that should see [P]: it collects a list with P
   (and then no member lies above the maximum of the number type), or it panicked and a member does *)
Definition Collected (k : nkind) (M : list Z) (P : list Z -> Prop) (r : ires) : Prop :=
  match r with
  | IOk l => P l /\ forall m, In m M -> m <= n_hi k
  | IPanic => exists m, In m M /\ n_hi k < m
  | IFuel => False
  end.

(* what the accessors of a set with the parts s must report: `members s` is the ascending list of
   the base + i with i < numBits and bit i set (members_In, members_sorted) *)
Definition RawAccessors (k : nkind) (s : numset) (r : rawres) : Prop :=
  rr_base r = ns_base s /\
  Collected k (members s) (fun l => l = members s) (rr_fwd r) /\
  Collected k (members s) (fun l => l = rev (members s)) (rr_bwd r) /\
  Collected k (members s) (fun l => fronts true l ++ rev (fronts false l) = members s) (rr_alt r) /\
  match rr_empty r with
  | Some b => (b = true <-> members s = []) /\ forall m, In m (firstn 1 (members s)) -> m <= n_hi k
  | None => exists m, In m (firstn 1 (members s)) /\ n_hi k < m
  end.

Definition RawParts (base bits : Z) (words extra : list Z) (s : numset) (nrest : Z) : Prop :=
  ns_base s = base /\ ns_bits s = bits /\
  (let n := Z.to_nat (Z.min (wcount bits) (len words)) in firstn n (ns_words s) = firstn n words) /\
  (wcount bits <= len words -> nrest = len extra).

(* what the property demands of one observation *)
Definition Spec (c : case) (o : obs) : Prop :=
  match c, o with
  | CMsg ctx h ops, ObsMsg m bytes ctx_same parsed reser_same =>
      demandedb ops m = true ->
      ctx_same = true /\ parsed = POk (pad_canon m) /\ reser_same = true /\
      firstn 20 bytes = enc_mheader (m_hdr m) /\ Frames (m_subs m) (skipn 20 bytes)
  | CMsg _ _ ops, ObsPanic => build ops = None
  | CBytes _, ObsBytes parsed _ => parsed <> PFuel
  | CNumSet k base set, ObsNumSet s it le be reread =>
      set <> [] -> 1 <= adj_base base set -> adj_base base set + 256 <= n_hi k ->
      ns_base s = adj_base base set /\ reread = true /\
      forall x, In x it <-> In x set /\ adj_base base set <= x < adj_base base set + 256
  | CNumSet k base set, ObsPanic =>
      set <> [] /\ ~ (1 <= adj_base base set /\ adj_base base set + 256 <= n_hi k)
  | CNumRaw k e base bits words extra, ObsNumRaw _ None =>
      ~ (raw_inrange k base bits words extra /\ bits <= 256 /\ wcount bits <= len words)
  | CNumRaw k e base bits words extra, ObsNumRaw _ (Some r) =>
      ns_accepted (rr_set r) /\
      (raw_inrange k base bits words extra -> RawParts base bits words extra (rr_set r) (rr_rest r)) /\
      RawAccessors k (rr_set r) r
  | _, _ => False
  end.

Lemma mem_In x l : mem x l = true <-> In x l.
Proof. apply existsb_eqb_In. Qed.

Lemma precond_spec b' hi : (1 <=? b') && (b' + 256 <=? hi) = true <-> 1 <= b' /\ b' + 256 <= hi.
Proof. rewrite andb_true_iff, !Z.leb_le. tauto. Qed.

Lemma window_b_spec x set it b' :
  Bool.eqb (mem x it) (mem x set && (b' <=? x) && (x <? b' + 256)) = true <->
  (In x it <-> In x set /\ b' <= x < b' + 256).
Proof.
  rewrite Bool.eqb_true_iff, eq_iff_eq_true, !andb_true_iff, !mem_In, Z.leb_le, Z.ltb_lt. tauto.
Qed.

Lemma window_forall set it (P : Z -> Prop) :
  (forall x, In x (set ++ it) -> (In x it <-> In x set /\ P x)) <-> (forall x, In x it <-> In x set /\ P x).
Proof.
  split; [|auto]. intros H x. destruct (in_dec Z.eq_dec x (set ++ it)) as [i|n]; [auto|].
  rewrite in_app_iff in n. tauto.
Qed.

Lemma not_over_forall k M : existsb (over k) M = false <-> forall m, In m M -> m <= n_hi k.
Proof.
  rewrite <- not_true_iff_false, over_exists. split.
  - intros H m Hm. destruct (Z.le_gt_cases m (n_hi k)); [assumption|]. exfalso. apply H. exists m. split; [assumption|lia].
  - intros H (m & Hm & L). specialize (H m Hm). lia.
Qed.

Lemma collect_okb_spec k M want P r :
  (forall l, want l = true <-> P l) -> (collect_okb k M want r = true <-> Collected k M P r).
Proof.
  intros W. destruct r as [l| |]; cbn [collect_okb Collected].
  - rewrite andb_true_iff, negb_true_iff, W, not_over_forall. tauto.
  - apply over_exists.
  - split; [discriminate|contradiction].
Qed.

Lemma is_nil_iff {A} (l : list A) : is_nil l = true <-> l = [].
Proof. destruct l; cbn; split; auto; discriminate. Qed.

Lemma raw_accessors_okb_spec k s r : raw_accessors_okb k s r = true <-> RawAccessors k s r.
Proof.
  unfold raw_accessors_okb, RawAccessors. rewrite !andb_true_iff, Z.eqb_eq.
  rewrite (collect_okb_spec k _ _ (fun l => l = members s)) by (intros; apply zlist_eqb_eq).
  rewrite (collect_okb_spec k _ _ (fun l => l = rev (members s))) by (intros; apply zlist_eqb_eq).
  rewrite (collect_okb_spec k _ _ (fun l => fronts true l ++ rev (fronts false l) = members s))
    by (intros; apply zlist_eqb_eq).
  assert (E : (match rr_empty r with
               | Some b => Bool.eqb b (is_nil (members s)) && negb (existsb (over k) (firstn 1 (members s)))
               | None => existsb (over k) (firstn 1 (members s))
               end = true) <->
              match rr_empty r with
              | Some b => (b = true <-> members s = []) /\ forall m, In m (firstn 1 (members s)) -> m <= n_hi k
              | None => exists m, In m (firstn 1 (members s)) /\ n_hi k < m
              end).
  { destruct (rr_empty r) as [b|]; [|apply over_exists].
    rewrite andb_true_iff, negb_true_iff, not_over_forall, Bool.eqb_true_iff, <- is_nil_iff.
    destruct b, (is_nil (members s)); intuition congruence. }
  rewrite E. tauto.
Qed.

Lemma raw_parts_okb_spec base bits words extra s nrest :
  raw_parts_okb base bits words extra s nrest = true <-> RawParts base bits words extra s nrest.
Proof.
  unfold raw_parts_okb, RawParts. cbv zeta. rewrite !andb_true_iff, !Z.eqb_eq, zlist_eqb_eq.
  destruct (Z.leb_spec (wcount bits) (len words)) as [W|W]; rewrite ?Z.eqb_eq; intuition lia.
Qed.

Theorem oracle_sound c o : ok c o = true <-> Spec c o.
Proof.
  destruct c as [ctx h ops|bs|k base set|k e base bits words extra];
    destruct o as [m bytes cs p rs|p rs|s it le be rr|bytes [r|]|];
    cbn [ok Spec]; try (split; [discriminate|contradiction]).
  - destruct (demandedb ops m).
    + rewrite !andb_true_iff, !dec2b_iff, frames_ok_spec. split.
      * intros ((((A & B) & C) & D) & E) _. auto.
      * intros H. destruct (H eq_refl) as (A & B & C & D & E). auto.
    + split; [discriminate|reflexivity].
  - destruct (build ops); split; auto; discriminate.
  - destruct p; split; auto; try discriminate; try (intros H; contradiction H; reflexivity).
  - destruct set as [|x0 r]; [split; [intros _ H; contradiction|reflexivity]|].
    set (S := x0 :: r) in *. set (b' := adj_base base S).
    destruct ((1 <=? b') && (b' + 256 <=? n_hi k)) eqn:P.
    + apply precond_spec in P as [P1 P2].
      rewrite !andb_true_iff, Z.eqb_eq, forallb_forall. split.
      * intros ((A & B) & C) _ _ _. split; [exact A|]. split; [exact B|].
        apply window_forall. intros x Hx. apply window_b_spec. apply C. exact Hx.
      * intros H. destruct (H ltac:(discriminate) P1 P2) as (A & B & C).
        split; [split; assumption|]. intros x Hx. apply window_b_spec. apply C.
    + split; [|reflexivity]. intros _ _ H1 H2. exfalso.
      assert (Q : (1 <=? b') && (b' + 256 <=? n_hi k) = true) by (apply precond_spec; auto). congruence.
  - destruct set as [|x0 r]; [split; [discriminate|intros [H _]; contradiction]|].
    rewrite negb_true_iff, <- not_true_iff_false, precond_spec. split.
    + intros H. split; [discriminate|exact H].
    + intros [_ H]. exact H.
  - rewrite !andb_true_iff, raw_shapeb_spec, raw_accessors_okb_spec.
    destruct (raw_inrangeb k base bits words extra) eqn:R.
    + apply raw_inrangeb_spec in R. rewrite raw_parts_okb_spec. tauto.
    + assert (N : ~ raw_inrange k base bits words extra).
      { intros X. apply raw_inrangeb_spec in X. congruence. }
      tauto.
  - rewrite negb_true_iff, <- not_true_iff_false, !andb_true_iff, raw_inrangeb_spec, !Z.leb_le. tauto.
Qed.

(* ------------------------------------------------------------------------------------------ *)
Lemma firstn_skipn_hdr h rest :
  len (enc_mheader h) = 20 ->
  firstn 20 (enc_mheader h ++ rest) = enc_mheader h /\ skipn 20 (enc_mheader h ++ rest) = rest.
Proof.
  intros L. assert (N : length (enc_mheader h) = 20%nat) by (unfold len in L; lia).
  split.
  - rewrite <- N. rewrite firstn_app, Nat.sub_diag, firstn_all. cbn. apply app_nil_r.
  - rewrite <- N. rewrite skipn_app, Nat.sub_diag, skipn_all. reflexivity.
Qed.

(* what `demandedb` means, and that for the model's own runs it is just `built` *)
Lemma demanded_spec ops m :
  demandedb ops m = true <->
  built m \/ (existsb is_raw ops = false /\ built_hdrb (m_hdr m) = true /\
              forallb built_sub_looseb (m_subs m) = true).
Proof.
  unfold demandedb, built. rewrite orb_true_iff, !andb_true_iff, negb_true_iff. tauto.
Qed.

Lemma build_op_mk o s :
  is_raw o = false -> build_op o = Some (Some s) -> sm_len s = u16trunc (len_serialized (sm_body s)).
Proof.
  destruct o; cbn [is_raw build_op]; try discriminate; intros _ E;
    try (inversion E; subst s; reflexivity).
  - unfold build_datafrag in E. destruct d; try discriminate;
      (destruct (fnum <? 1); [discriminate|]); inversion E; subst s; reflexivity.
  - unfold build_gap in E. destruct sns as [|g0 r]; [discriminate|].
    destruct (run_end g0 r); [|discriminate].
    destruct (ns_from_base_and_set _ _ _); [|discriminate]. inversion E; subst s. reflexivity.
Qed.

Lemma build_mk ops : forall subs,
  existsb is_raw ops = false -> build ops = Some subs ->
  Forall (fun s => sm_len s = u16trunc (len_serialized (sm_body s))) subs.
Proof.
  induction ops as [|o ops IH]; intros subs R B; cbn [build] in B.
  - inversion B. constructor.
  - cbn [existsb] in R. apply orb_false_iff in R as [R1 R2].
    destruct (build_op o) as [[s|]|] eqn:E; [| |discriminate];
      (destruct (build ops) as [l|]; [|discriminate]); inversion B; subst subs.
    + constructor; [eapply build_op_mk; eauto|]. apply IH; auto.
    + apply IH; auto.
Qed.

Lemma loose_to_built s :
  built_sub_looseb s = true -> sm_len s = u16trunc (len_serialized (sm_body s)) -> built_subb s = true.
Proof.
  unfold built_sub_looseb, built_subb. intros H E. bsplit H.
  pose proof (len_serialized_ok LE _ _ B) as L. pose proof (len_nonneg (enc_body LE (sm_body s))) as N.
  apply Z.ltb_lt in B0. unfold u16trunc in E. rewrite Z.mod_small in E by lia.
  rewrite H, B3, B2, B1, B, E, Z.eqb_refl. cbn [andb].
  destruct (Z.ltb_spec (len_serialized (sm_body s)) 65536); [reflexivity|lia].
Qed.

Lemma demanded_model ops subs h :
  build ops = Some subs -> demandedb ops (Msg h subs) = true -> built (Msg h subs).
Proof.
  intros B D. apply demanded_spec in D as [D|(R & H & F)]; [exact D|].
  unfold built, builtb. cbn [m_hdr m_subs] in *. rewrite H. cbn [andb].
  pose proof (build_mk ops subs R B) as M. apply forallb_forall. intros s Hs.
  rewrite forallb_forall in F. rewrite Forall_forall in M. apply loose_to_built; auto.
Qed.

Theorem model_ok c : ok c (run c) = true.
Proof.
  destruct c as [ctx h ops|bs|k base set|k e base bits words extra]; [| | |apply raw_model_ok];
    apply oracle_sound; cbn [run].
  - destruct (build ops) as [subs|] eqn:B; [|exact B].
    cbn [Spec]. intros Hd. pose proof (demanded_model ops subs h B Hd) as Hb. rewrite (roundtrip ctx _ Hb).
    split; [apply dec2b_iff; reflexivity|]. split; [reflexivity|].
    split; [apply dec2b_iff; apply ser_pad_canon|].
    unfold built, builtb in Hb. apply andb_true_iff in Hb as [Hh Hs]. cbn [m_hdr m_subs] in *.
    apply built_hdr_inv in Hh as (V & A & B' & C).
    unfold ser, ser_gen. cbn [m_hdr m_subs].
    destruct (firstn_skipn_hdr h (flat_map (ser_sub_gen false) subs) (enc_mheader_len h A B' C)) as [F S].
    rewrite F, S. split; [reflexivity|]. apply frames_ok_spec. apply frames_built.
    eapply forallb_Forall; [|exact Hs]. auto.
  - cbn [Spec]. apply parse_never_out_of_fuel.
  - destruct set as [|x0 r].
    + cbn. intros H. contradiction.
    + set (S := x0 :: r). set (b' := adj_base base S).
      destruct ((1 <=? b') && (b' + 256 <=? n_hi k)) eqn:P.
      * apply precond_spec in P as [P1 P2].
        destruct (numset_window k base S ltac:(discriminate) P1 P2) as (s & l & E1 & E2 & W & E3 & M).
        rewrite E1, E3. cbn [Spec]. intros _ _ _. split; [exact E2|]. split.
        -- rewrite !(parse_rt _ _ _ (ns_roundtrip k _ s [] W)).
           apply andb_true_iff. split; apply dec2b_iff; reflexivity.
        -- exact M.
      * assert (NP : ~ (1 <= b' /\ b' + 256 <= n_hi k)).
        { intros Q. apply precond_spec in Q. fold b' in Q. congruence. }
        destruct (ns_from_base_and_set k base S) as [s|]; [|cbn [Spec]; split; [discriminate|exact NP]].
        destruct (ns_iter k s) as [l|]; [|cbn [Spec]; split; [discriminate|exact NP]].
        cbn [Spec]. intros _ H1 H2. exfalso. apply NP. auto.
Qed.

(* ------------------------------------------------------------------------------------------ *)
(* per submessage kind *)
Lemma pad_canon_sub_id s :
  kind_of_body (sm_body s) <> K_DATA -> kind_of_body (sm_body s) <> K_DATA_FRAG -> pad_canon_sub s = s.
Proof.
  destruct s as [k f l bf b]. unfold pad_canon_sub. cbn [sm_kind sm_flags sm_len sm_bflags sm_body].
  intros A B. destruct b; try reflexivity; cbn in A, B; congruence.
Qed.

Lemma roundtrip_kind_plain k s rest :
  k <> K_DATA -> k <> K_DATA_FRAG ->
  built_sub s -> kind_of_body (sm_body s) = k -> read_sub (ser_sub s ++ rest) = SOk s rest.
Proof.
  intros A B Hs Hk. rewrite (read_sub_built s rest Hs). rewrite pad_canon_sub_id; [reflexivity| |]; congruence.
Qed.

(* ------------------------------------------------------------------------------------------ *)
(* the defect repaired by 989bc45: with the old DataFrag::write_to a DATAFRAG carrying inline QoS
   does not parse back, and its octetsToNextHeader is one short *)
Definition frag_witness : message :=
  Msg (MH RTPS 2 4 [1; 18] [7; 7; 7; 7; 7; 7; 7; 7; 7; 7; 7; 7])
      [SM K_DATA_FRAG 3 48 3
          (BDataFrag [0; 0; 1; 4] [0; 0; 1; 3] 1 1 1 8 4 (Some [(112, [1; 1; 1; 1])]) [9; 9; 9; 9])].

Lemma datafrag_old_refuted :
  exists m, built m /\ parse_msg (ser_gen true LE m) <> POk (pad_canon m) /\
            exists s, In s (m_subs m) /\
                      len (enc_body_gen true (eflag (sm_flags s)) (sm_body s)) <> sm_len s.
Proof.
  exists frag_witness. split; [vm_compute; reflexivity|]. split.
  - vm_compute. discriminate.
  - eexists. split; [left; reflexivity|]. vm_compute. discriminate.
Qed.

(* outside `built`: what the receiver refuses or reads differently (non-vacuity of the side
   conditions of `built`; each is also a corpus case of the driver) *)
Definition hb : body := BHeartbeat [0; 0; 1; 4] [0; 0; 1; 3] 1 2 3.
Definition std_hdr : mheader := MH RTPS 2 4 [1; 18] [7; 7; 7; 7; 7; 7; 7; 7; 7; 7; 7; 7].
Lemma unbuilt_examples :
  (* major version 3: rejected *)
  parse_msg (ser LE (Msg (MH RTPS 3 0 [1; 18] (h_prefix std_hdr)) [mk_sub 1 hb])) = PErr /\
  (* numBits 257 (NumberSet::new(base, 257)): rejected *)
  parse_msg (ser LE (Msg std_hdr [mk_sub 1 (BAckNack [0; 0; 1; 4] [0; 0; 1; 3] (ns_new 1 257) 0)])) = PErr /\
  (* DATA with a payload but neither Data nor Key flag: the payload is not read back *)
  parse_msg (ser LE (Msg std_hdr [mk_sub 1 (BData [0; 0; 1; 4] [0; 0; 1; 3] 1 None (Some [1; 2; 3; 4]))])) =
    POk (Msg std_hdr [SM K_DATA 1 24 1 (BData [0; 0; 1; 4] [0; 0; 1; 3] 1 None None)]) /\
  (* INFO_TS carrying a timestamp together with the Invalidate flag: read back as None *)
  parse_msg (ser LE (Msg std_hdr [mk_sub 3 (BInfoTs (Some (1, 2)))])) =
    POk (Msg std_hdr [SM K_INFO_TS 3 8 3 (BInfoTs None)]).
Proof. repeat split; vm_compute; reflexivity. Qed.

(* a built message with every kind of submessage (non-vacuity of `built`) *)
Definition all_kinds : message :=
  Msg std_hdr
    [ mk_sub 1 (BInfoDst [1; 1; 1; 1; 1; 1; 1; 1; 1; 1; 1; 1]);
      mk_sub 1 (BInfoTs (Some (5, 6)));
      mk_sub 2 (BInfoTs None);
      mk_sub 0 (BInfoSrc 0 2 4 [1; 18] [2; 2; 2; 2; 2; 2; 2; 2; 2; 2; 2; 2]);
      mk_sub 3 (BInfoReply [LUdpV4 127 0 0 1 7400] (Some [LInvalid]));
      mk_sub 7 (BData [0; 0; 1; 4] [0; 0; 1; 3] 7 (Some [(112, [1; 2; 3])]) (Some [1; 2; 3; 4; 5]));
      mk_sub 2 (BDataFrag [0; 0; 1; 4] [0; 0; 1; 3] 7 2 1 10 4 (Some [(113, [0; 0; 0; 3])]) [1; 2; 3]);
      mk_sub 1 (BGap [0; 0; 1; 4] [0; 0; 1; 3] 1 (NS 5 33 [4294967295; 2147483648]));
      mk_sub 5 hb;
      mk_sub 0 (BHeartbeatFrag [0; 0; 1; 4] [0; 0; 1; 3] 1 2 3);
      mk_sub 3 (BAckNack [0; 0; 1; 4] [0; 0; 1; 3] (ns_new 1 0) (-1));
      mk_sub 1 (BNackFrag [0; 0; 1; 4] [0; 0; 1; 3] 9 (NS 1 3 [1610612736]) 2) ].
Example all_kinds_built : built all_kinds.
Proof. vm_compute. reflexivity. Qed.
Example all_kinds_roundtrip : parse_msg (ser BE all_kinds) = POk (pad_canon all_kinds).
Proof. apply roundtrip, all_kinds_built. Qed.
Example all_kinds_not_fixpoint : pad_canon all_kinds <> all_kinds.
Proof. vm_compute. discriminate. Qed.

(* octetsToNextHeader is 16 bits wide and data_msg / create_submessage store `len_serialized() as
   u16` ("TODO: Handle overflow?"): a DATA whose body exceeds 65535 bytes, followed by another
   submessage, does not parse back (here: the HEARTBEAT is lost and the payload comes back empty).
   Such a message is outside `built` (sm_len < 65536 fails).  RustDDS' Writer never produces one:
   samples above the fragment size go out as DATAFRAGs. *)
Definition oversize : message :=
  Msg std_hdr [build_data LE (DData (zeros 65536)) 1 None [0; 0; 1; 4] [0; 0; 1; 3]; mk_sub 1 hb].
Lemma oversize_refuted :
  builtb oversize = false /\ parse_msg (ser LE oversize) <> POk (pad_canon oversize).
Proof.
  split; [vm_compute; reflexivity|]. intros H.
  apply (f_equal (fun p => match p with POk m' => length (m_subs m') | _ => 0%nat end)) in H.
  vm_compute in H. discriminate.
Qed.
