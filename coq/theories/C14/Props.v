(* C14 — property theorems only.  Proofs are one `exact`. *)
From Coq Require Import List ZArith.
From RD Require Import C15.Prim C15.PL C15.Disc C14.Wire C14.Model C14.NumSetProofs C14.Proofs C14.Oracle C14.Builder.
Import ListNotations.
Open Scope Z_scope.

(* ---- the round trip ----------------------------------------------------------------------- *)
(* every constructible message, whatever the speedy context byte order [e] and whatever the
   endianness flag of each of its submessages, parses back to itself up to the zero padding of
   inline-QoS values and of the DATA payload *)
Theorem C14_roundtrip : forall e m, built m -> parse_msg (ser e m) = POk (pad_canon m).
Proof. exact roundtrip. Qed.
Print Assumptions C14_roundtrip.

(* the context byte order of write_to_vec_with_ctx reaches no byte: each submessage is written in
   the byte order its own flags announce *)
Theorem C14_ser_ctx_irrelevant : forall e1 e2 m, ser e1 m = ser e2 m.
Proof. exact ser_ctx_irrelevant. Qed.

(* per submessage kind, in front of arbitrary following bytes *)
Theorem C14_roundtrip_sub : forall s rest,
  built_sub s -> read_sub (ser_sub s ++ rest) = SOk (pad_canon_sub s) rest.
Proof. exact read_sub_built. Qed.
Theorem C14_roundtrip_data : forall s rest,
  built_sub s -> kind_of_body (sm_body s) = K_DATA ->
  read_sub (ser_sub s ++ rest) = SOk (pad_canon_sub s) rest.
Proof. exact (fun s rest H _ => read_sub_built s rest H). Qed.
Theorem C14_roundtrip_datafrag : forall s rest,
  built_sub s -> kind_of_body (sm_body s) = K_DATA_FRAG ->
  read_sub (ser_sub s ++ rest) = SOk (pad_canon_sub s) rest.
Proof. exact (fun s rest H _ => read_sub_built s rest H). Qed.
Theorem C14_roundtrip_gap : forall s rest,
  built_sub s -> kind_of_body (sm_body s) = K_GAP -> read_sub (ser_sub s ++ rest) = SOk s rest.
Proof. exact (fun s rest => roundtrip_kind_plain K_GAP s rest ltac:(discriminate) ltac:(discriminate)). Qed.
Theorem C14_roundtrip_heartbeat : forall s rest,
  built_sub s -> kind_of_body (sm_body s) = K_HEARTBEAT -> read_sub (ser_sub s ++ rest) = SOk s rest.
Proof. exact (fun s rest => roundtrip_kind_plain K_HEARTBEAT s rest ltac:(discriminate) ltac:(discriminate)). Qed.
Theorem C14_roundtrip_heartbeatfrag : forall s rest,
  built_sub s -> kind_of_body (sm_body s) = K_HEARTBEAT_FRAG -> read_sub (ser_sub s ++ rest) = SOk s rest.
Proof. exact (fun s rest => roundtrip_kind_plain K_HEARTBEAT_FRAG s rest ltac:(discriminate) ltac:(discriminate)). Qed.
Theorem C14_roundtrip_acknack : forall s rest,
  built_sub s -> kind_of_body (sm_body s) = K_ACKNACK -> read_sub (ser_sub s ++ rest) = SOk s rest.
Proof. exact (fun s rest => roundtrip_kind_plain K_ACKNACK s rest ltac:(discriminate) ltac:(discriminate)). Qed.
Theorem C14_roundtrip_nackfrag : forall s rest,
  built_sub s -> kind_of_body (sm_body s) = K_NACK_FRAG -> read_sub (ser_sub s ++ rest) = SOk s rest.
Proof. exact (fun s rest => roundtrip_kind_plain K_NACK_FRAG s rest ltac:(discriminate) ltac:(discriminate)). Qed.
Theorem C14_roundtrip_info_ts : forall s rest,
  built_sub s -> kind_of_body (sm_body s) = K_INFO_TS -> read_sub (ser_sub s ++ rest) = SOk s rest.
Proof. exact (fun s rest => roundtrip_kind_plain K_INFO_TS s rest ltac:(discriminate) ltac:(discriminate)). Qed.
Theorem C14_roundtrip_info_dst : forall s rest,
  built_sub s -> kind_of_body (sm_body s) = K_INFO_DST -> read_sub (ser_sub s ++ rest) = SOk s rest.
Proof. exact (fun s rest => roundtrip_kind_plain K_INFO_DST s rest ltac:(discriminate) ltac:(discriminate)). Qed.
Theorem C14_roundtrip_info_src : forall s rest,
  built_sub s -> kind_of_body (sm_body s) = K_INFO_SRC -> read_sub (ser_sub s ++ rest) = SOk s rest.
Proof. exact (fun s rest => roundtrip_kind_plain K_INFO_SRC s rest ltac:(discriminate) ltac:(discriminate)). Qed.
Theorem C14_roundtrip_info_reply : forall s rest,
  built_sub s -> kind_of_body (sm_body s) = K_INFO_REPLY -> read_sub (ser_sub s ++ rest) = SOk s rest.
Proof. exact (fun s rest => roundtrip_kind_plain K_INFO_REPLY s rest ltac:(discriminate) ltac:(discriminate)). Qed.
Print Assumptions C14_roundtrip_sub.

(* ---- lengths and flags -------------------------------------------------------------------- *)
(* an emitted submessage is its 4-byte header followed by exactly octetsToNextHeader body bytes
   (the value the separate len_serialized() functions compute), and the flags say what is there *)
Theorem C14_length_agrees : forall s,
  built_sub s ->
  ser_sub s = [sm_kind s; sm_flags s] ++ enc_u16 (eflag (sm_flags s)) (sm_len s) ++
              enc_body (eflag (sm_flags s)) (sm_body s) /\
  len (enc_body (eflag (sm_flags s)) (sm_body s)) = sm_len s /\
  0 <= sm_len s < 65536 /\
  flags_agreeb s = true.
Proof. exact length_agrees. Qed.
Print Assumptions C14_length_agrees.

(* ---- number sets -------------------------------------------------------------------------- *)
(* x ∈ iter (from_base_and_set b S)  <->  x ∈ S and b' <= x < b' + 256, b' the adjusted base;
   the set is well formed, so write/read (next theorem) preserves base and membership exactly *)
Theorem C14_numset_window : forall k b S,
  S <> [] -> 1 <= adj_base b S -> adj_base b S + 256 <= n_hi k ->
  exists s l,
    ns_from_base_and_set k b S = Some s /\ ns_base s = adj_base b S /\ ns_wf k s /\
    ns_iter k s = Some l /\
    (forall x, In x l <-> In x S /\ adj_base b S <= x < adj_base b S + 256).
Proof. exact numset_window. Qed.
Print Assumptions C14_numset_window.

Theorem C14_numset_roundtrip : forall k e s rest,
  ns_wf k s -> dec_ns k e (enc_ns k e s ++ rest) = Some (s, rest).
Proof. exact ns_roundtrip. Qed.
Print Assumptions C14_numset_roundtrip.

(* ---- re-serialisation --------------------------------------------------------------------- *)
Theorem C14_reserialise : forall e m m',
  built m -> parse_msg (ser e m) = POk m' -> ser e m' = ser e m.
Proof. exact reserialise. Qed.
Print Assumptions C14_reserialise.

(* ---- the model's loops are total: an error is a real decoding error ----------------------- *)
Theorem C14_parse_fuel : forall bs, parse_msg bs <> PFuel.
Proof. exact parse_never_out_of_fuel. Qed.
Theorem C14_plist_fuel : forall e bs, dec_plr_aux (S (length bs)) e bs <> OutOfFuel.
Proof. exact dec_plr_never_out_of_fuel. Qed.

(* ---- `built` contains the image of the builder -------------------------------------------- *)
Theorem C14_builder_data : forall e d sn rsi rd wr,
  len rd = 4 -> len wr = 4 -> i64_ok sn -> dd_ok d -> rsi_ok rsi ->
  len_serialized (sm_body (build_data e d sn rsi rd wr)) < 65536 ->
  built_sub (build_data e d sn rsi rd wr).
Proof. exact data_msg_built. Qed.
Theorem C14_builder_datafrag : forall e d sn rsi rd wr fnum fsize ssize s,
  len rd = 4 -> len wr = 4 -> i64_ok sn -> 1 <= sn -> rsi_ok rsi ->
  u32_ok fnum -> u16_ok fsize -> u32_ok ssize ->
  1 <= fsize <= ssize -> 1 <= fnum <= total_frags ssize fsize ->
  build_datafrag e d sn rsi rd wr fnum fsize ssize = Some (Some s) ->
  len_serialized (sm_body s) < 65536 ->
  built_sub s.
Proof. exact data_frag_msg_built. Qed.
Theorem C14_builder_gap : forall e sns wr rd s,
  len rd = 4 -> len wr = 4 -> Forall (fun x => 1 <= x <= MAX_ACCEPTED_SN) sns ->
  build_gap e sns wr rd = Some (Some s) -> built_sub s.
Proof. exact gap_msg_built. Qed.
Theorem C14_builder_gap_before : forall e sn wr rd s,
  len rd = 4 -> len wr = 4 -> i64_ok sn ->
  build_op (OpGapBefore e sn wr rd) = Some (Some s) -> built_sub s.
Proof. exact gap_before_built. Qed.
Theorem C14_builder_heartbeat : forall e wr first last count rd fin liv,
  len rd = 4 -> len wr = 4 -> i64_ok first -> i64_ok last -> i32_ok count ->
  forall s, build_op (OpHeartbeat e wr first last count rd fin liv) = Some (Some s) -> built_sub s.
Proof. exact heartbeat_msg_built. Qed.
Theorem C14_builder_dst_ts : forall e,
  (forall p s, len p = 12 -> build_op (OpDst e p) = Some (Some s) -> built_sub s) /\
  (forall ts s, match ts with Some (a, b) => u32_ok a /\ u32_ok b | None => True end ->
                build_op (OpTs e ts) = Some (Some s) -> built_sub s).
Proof. exact dst_ts_built. Qed.
Theorem C14_builder_create : forall f b,
  0 <= f -> Z.land f (fmask (kind_of_body b)) = f -> built_bodyb f b = true ->
  len_serialized b < 65536 -> built_sub (mk_sub f b).
Proof. exact mk_sub_built. Qed.
Theorem C14_numset_constructors_wf : forall k,
  (forall b, num_ok k b -> ns_wf k (ns_new b 0)) /\
  (forall b S s, S <> [] -> 1 <= adj_base b S -> adj_base b S + 256 <= n_hi k ->
                 ns_from_base_and_set k b S = Some s -> ns_wf k s).
Proof. exact constructors_wf. Qed.
Print Assumptions C14_builder_gap.

(* ---- oracle ------------------------------------------------------------------------------- *)
Theorem C14_oracle_sound : forall c o, ok c o = true <-> Spec c o.
Proof. exact oracle_sound. Qed.
Print Assumptions C14_oracle_sound.

(* the cases on which the oracle demands the round trip: built messages, and messages produced by
   builder / create_submessage calls only that are built up to the content_length the
   implementation computed itself *)
Theorem C14_demanded_spec : forall ops m,
  demandedb ops m = true <->
  built m \/ (existsb is_raw ops = false /\ built_hdrb (m_hdr m) = true /\
              forallb built_sub_looseb (m_subs m) = true).
Proof. exact demanded_spec. Qed.

Theorem C14_model_ok : forall c, ok c (run c) = true.
Proof. exact model_ok. Qed.
Print Assumptions C14_model_ok.

(* ---- the defect repaired by fix 989bc45, and what lies outside `built` -------------------- *)
(* with DataFrag::write_to as found, a built DATAFRAG with inline QoS did not parse back and its
   octetsToNextHeader disagreed with the bytes written *)
Theorem C14_datafrag_old_refuted :
  exists m, built m /\ parse_msg (ser_gen true LE m) <> POk (pad_canon m) /\
            exists s, In s (m_subs m) /\
                      len (enc_body_gen true (eflag (sm_flags s)) (sm_body s)) <> sm_len s.
Proof. exact datafrag_old_refuted. Qed.
Print Assumptions C14_datafrag_old_refuted.

Theorem C14_outside_built :
  parse_msg (ser LE (Msg (MH RTPS 3 0 [1; 18] (h_prefix std_hdr)) [mk_sub 1 hb])) = PErr /\
  parse_msg (ser LE (Msg std_hdr [mk_sub 1 (BAckNack [0; 0; 1; 4] [0; 0; 1; 3] (ns_new 1 257) 0)])) = PErr /\
  parse_msg (ser LE (Msg std_hdr [mk_sub 1 (BData [0; 0; 1; 4] [0; 0; 1; 3] 1 None (Some [1; 2; 3; 4]))])) =
    POk (Msg std_hdr [SM K_DATA 1 24 1 (BData [0; 0; 1; 4] [0; 0; 1; 3] 1 None None)]) /\
  parse_msg (ser LE (Msg std_hdr [mk_sub 3 (BInfoTs (Some (1, 2)))])) =
    POk (Msg std_hdr [SM K_INFO_TS 3 8 3 (BInfoTs None)]).
Proof. exact unbuilt_examples. Qed.

(* the 16-bit octetsToNextHeader: a DATA body above 65535 bytes followed by another submessage is
   outside `built` and does not round trip (not produced by the Writer, which fragments) *)
Theorem C14_oversize_refuted :
  builtb oversize = false /\ parse_msg (ser LE oversize) <> POk (pad_canon oversize).
Proof. exact oversize_refuted. Qed.

(* non-vacuity: a built message containing every submessage kind, both byte orders mixed *)
Example C14_all_kinds_built : built all_kinds.
Proof. exact all_kinds_built. Qed.
