(* C14 — property theorems only.  Proofs are one `exact`. *)
From Coq Require Import List ZArith.
From RD Require Import C15.Prim C15.PL C14.Wire C14.Model C14.NumSetProofs.
Import ListNotations.
Open Scope Z_scope.

(* x ∈ iter (from_base_and_set b S)  <->  x ∈ S and b' <= x < b' + 256, b' the adjusted base;
   the set is well formed, so write/read preserves it exactly (base and membership) *)
Theorem C14_numset_window : forall k b S,
  S <> [] -> 1 <= adj_base b S -> adj_base b S + 256 <= n_hi k ->
  exists s l,
    ns_from_base_and_set k b S = Some s /\ ns_base s = adj_base b S /\ ns_wf k s /\
    ns_iter k s = Some l /\
    (forall x, In x l <-> In x S /\ adj_base b S <= x < adj_base b S + 256).
Proof. exact numset_window. Qed.
Print Assumptions C14_numset_window.

Theorem C14_numset_roundtrip : forall k e s rest,
  ns_wf k s -> dec_ns k e (enc_ns k e s ++ rest) = Some (s, rest).
Proof. exact ns_roundtrip. Qed.
Print Assumptions C14_numset_roundtrip.
