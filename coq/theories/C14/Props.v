(* C14 — property theorems only.  Proofs are one `exact`. *)
From Coq Require Import List ZArith Sorted.
From RD Require Import C15.Prim C15.PL C15.Disc C14.Wire C14.Model C14.NumSetProofs C14.NumRawProofs C14.Proofs C14.Oracle C14.Builder.
Import ListNotations.
Open Scope Z_scope.

(* ---- the round trip ----------------------------------------------------------------------- *)
(* every constructible message, whatever the speedy context byte order [e] and whatever the
   endianness flag of each of its submessages, parses back to itself up to the zero padding of
   inline-QoS values and of the DATA payload *)
Theorem C14_roundtrip : forall e m, built m -> parse_msg (ser e m) = POk (pad_canon m).
Proof. exact roundtrip. Qed.
Print Assumptions C14_roundtrip.

(* the context byte order of write_to_vec_with_ctx reaches no byte: each submessage is written in
   the byte order its own flags announce *)
Theorem C14_ser_ctx_irrelevant : forall e1 e2 m, ser e1 m = ser e2 m.
Proof. exact ser_ctx_irrelevant. Qed.

(* per submessage kind, in front of arbitrary following bytes *)
Theorem C14_roundtrip_sub : forall s rest,
  built_sub s -> read_sub (ser_sub s ++ rest) = SOk (pad_canon_sub s) rest.
Proof. exact read_sub_built. Qed.
Theorem C14_roundtrip_data : forall s rest,
  built_sub s -> kind_of_body (sm_body s) = K_DATA ->
  read_sub (ser_sub s ++ rest) = SOk (pad_canon_sub s) rest.
Proof. exact (fun s rest H _ => read_sub_built s rest H). Qed.
Theorem C14_roundtrip_datafrag : forall s rest,
  built_sub s -> kind_of_body (sm_body s) = K_DATA_FRAG ->
  read_sub (ser_sub s ++ rest) = SOk (pad_canon_sub s) rest.
Proof. exact (fun s rest H _ => read_sub_built s rest H). Qed.
Theorem C14_roundtrip_gap : forall s rest,
  built_sub s -> kind_of_body (sm_body s) = K_GAP -> read_sub (ser_sub s ++ rest) = SOk s rest.
Proof. exact (fun s rest => roundtrip_kind_plain K_GAP s rest ltac:(discriminate) ltac:(discriminate)). Qed.
Theorem C14_roundtrip_heartbeat : forall s rest,
  built_sub s -> kind_of_body (sm_body s) = K_HEARTBEAT -> read_sub (ser_sub s ++ rest) = SOk s rest.
Proof. exact (fun s rest => roundtrip_kind_plain K_HEARTBEAT s rest ltac:(discriminate) ltac:(discriminate)). Qed.
Theorem C14_roundtrip_heartbeatfrag : forall s rest,
  built_sub s -> kind_of_body (sm_body s) = K_HEARTBEAT_FRAG -> read_sub (ser_sub s ++ rest) = SOk s rest.
Proof. exact (fun s rest => roundtrip_kind_plain K_HEARTBEAT_FRAG s rest ltac:(discriminate) ltac:(discriminate)). Qed.
Theorem C14_roundtrip_acknack : forall s rest,
  built_sub s -> kind_of_body (sm_body s) = K_ACKNACK -> read_sub (ser_sub s ++ rest) = SOk s rest.
Proof. exact (fun s rest => roundtrip_kind_plain K_ACKNACK s rest ltac:(discriminate) ltac:(discriminate)). Qed.
Theorem C14_roundtrip_nackfrag : forall s rest,
  built_sub s -> kind_of_body (sm_body s) = K_NACK_FRAG -> read_sub (ser_sub s ++ rest) = SOk s rest.
Proof. exact (fun s rest => roundtrip_kind_plain K_NACK_FRAG s rest ltac:(discriminate) ltac:(discriminate)). Qed.
Theorem C14_roundtrip_info_ts : forall s rest,
  built_sub s -> kind_of_body (sm_body s) = K_INFO_TS -> read_sub (ser_sub s ++ rest) = SOk s rest.
Proof. exact (fun s rest => roundtrip_kind_plain K_INFO_TS s rest ltac:(discriminate) ltac:(discriminate)). Qed.
Theorem C14_roundtrip_info_dst : forall s rest,
  built_sub s -> kind_of_body (sm_body s) = K_INFO_DST -> read_sub (ser_sub s ++ rest) = SOk s rest.
Proof. exact (fun s rest => roundtrip_kind_plain K_INFO_DST s rest ltac:(discriminate) ltac:(discriminate)). Qed.
Theorem C14_roundtrip_info_src : forall s rest,
  built_sub s -> kind_of_body (sm_body s) = K_INFO_SRC -> read_sub (ser_sub s ++ rest) = SOk s rest.
Proof. exact (fun s rest => roundtrip_kind_plain K_INFO_SRC s rest ltac:(discriminate) ltac:(discriminate)). Qed.
Theorem C14_roundtrip_info_reply : forall s rest,
  built_sub s -> kind_of_body (sm_body s) = K_INFO_REPLY -> read_sub (ser_sub s ++ rest) = SOk s rest.
Proof. exact (fun s rest => roundtrip_kind_plain K_INFO_REPLY s rest ltac:(discriminate) ltac:(discriminate)). Qed.
Print Assumptions C14_roundtrip_sub.

(* ---- lengths and flags -------------------------------------------------------------------- *)
(* an emitted submessage is its 4-byte header followed by exactly octetsToNextHeader body bytes
   (the value the separate len_serialized() functions compute), and the flags say what is there *)
Theorem C14_length_agrees : forall s,
  built_sub s ->
  ser_sub s = [sm_kind s; sm_flags s] ++ enc_u16 (eflag (sm_flags s)) (sm_len s) ++
              enc_body (eflag (sm_flags s)) (sm_body s) /\
  len (enc_body (eflag (sm_flags s)) (sm_body s)) = sm_len s /\
  0 <= sm_len s < 65536 /\
  flags_agreeb s = true.
Proof. exact length_agrees. Qed.
Print Assumptions C14_length_agrees.

(* ---- number sets -------------------------------------------------------------------------- *)
(* x ∈ iter (from_base_and_set b S)  <->  x ∈ S and b' <= x < b' + 256, b' the adjusted base;
   the set is well formed, so write/read (next theorem) preserves base and membership exactly *)
Theorem C14_numset_window : forall k b S,
  S <> [] -> 1 <= adj_base b S -> adj_base b S + 256 <= n_hi k ->
  exists s l,
    ns_from_base_and_set k b S = Some s /\ ns_base s = adj_base b S /\ ns_wf k s /\
    ns_iter k s = Some l /\
    (forall x, In x l <-> In x S /\ adj_base b S <= x < adj_base b S + 256).
Proof. exact numset_window. Qed.
Print Assumptions C14_numset_window.

Theorem C14_numset_roundtrip : forall k e s rest,
  ns_wf k s -> dec_ns k e (enc_ns k e s ++ rest) = Some (s, rest).
Proof. exact ns_roundtrip. Qed.
Print Assumptions C14_numset_roundtrip.

(* ---- number sets as they arrive on the wire ----------------------------------------------- *)
(* The accessors of a NumberSet (NumberSetIter::next / next_back as written, is_empty) over
   ARBITRARY bitmap words: dirty padding after numBits, any word content.  `ns_shape s` is
   0 <= numBits and at least ceil(numBits / 32) words, which every set the reader accepts
   (`ns_accepted`: numBits <= 256 and exactly that many words) and every constructor result has.
   ns_collect = iter().collect(), ns_collect_rev = iter().rev().collect(), IOk = no panic;
   bit i of the set = word i / 32, bit 31 - i % 32 (ns_bit). *)
Theorem C14_numset_wire_accepted : forall k e base bits words extra s rest,
  dec_ns k e (enc_ns k e (NS base bits words) ++ extra) = Some (s, rest) -> ns_accepted s.
Proof. exact dec_ns_raw_accepted. Qed.
Theorem C14_numset_accepted_shape : forall s, ns_accepted s -> ns_shape s.
Proof. exact accepted_shape. Qed.

(* never a member outside the window *)
Theorem C14_numset_iter_window : forall k s l,
  ns_shape s -> ns_collect k s = IOk l ->
  forall m, In m l -> ns_base s <= m < ns_base s + ns_bits s.
Proof. exact numset_iter_window. Qed.

(* membership is exactly the in-window bits, in strictly ascending order *)
Theorem C14_numset_iter_exact : forall k s l,
  ns_shape s -> ns_collect k s = IOk l ->
  StronglySorted Z.lt l /\
  forall m, In m l <->
            ns_base s <= m < ns_base s + ns_bits s /\ ns_bit (ns_words s) (m - ns_base s) = true.
Proof. exact numset_iter_exact. Qed.

(* backward iteration is the reverse of forward iteration (and panics exactly when it does) *)
Theorem C14_numset_iter_rev : forall k s,
  ns_shape s ->
  ns_collect_rev k s = match ns_collect k s with IOk l => IOk (rev l) | r => r end.
Proof. exact numset_iter_rev. Qed.

(* is_empty() is true iff no bit below numBits is set *)
Theorem C14_numset_is_empty : forall k s b,
  ns_shape s -> ns_is_empty k s = Some b ->
  (b = true <-> forall i, 0 <= i < ns_bits s -> ns_bit (ns_words s) i = false).
Proof. exact numset_is_empty. Qed.

(* mixing next() and next_back() on one iterator visits every member exactly once *)
Theorem C14_numset_iter_alt : forall k s out,
  ns_shape s -> ns_collect_alt k s = IOk out ->
  ns_collect k s = IOk (fronts true out ++ rev (fronts false out)).
Proof. exact numset_iter_alt. Qed.

(* the accessors answer: the model's fuel never runs out; a panic (debug-build overflow of
   bit + base) needs an in-window member above the maximum of the number type; a window inside the
   number type excludes it *)
Theorem C14_numset_iter_total : forall k s,
  ns_shape s ->
  ns_collect k s <> IFuel /\ ns_collect_rev k s <> IFuel /\ ns_collect_alt k s <> IFuel /\
  (ns_collect k s = IPanic <-> exists m, In m (members s) /\ n_hi k < m) /\
  (ns_collect_alt k s = IPanic <-> exists m, In m (members s) /\ n_hi k < m) /\
  (ns_is_empty k s = None -> exists m, In m (members s) /\ n_hi k < m) /\
  (ns_bits s = 0 \/ ns_base s + ns_bits s - 1 <= n_hi k ->
   exists l b, ns_collect k s = IOk l /\ ns_collect_rev k s = IOk (rev l) /\ ns_is_empty k s = Some b).
Proof. exact numset_iter_total. Qed.

(* `members s`, the list the oracle compares with: ascending, exactly the in-window set bits *)
Theorem C14_numset_members_spec : forall s,
  StronglySorted Z.lt (members s) /\
  forall m, In m (members s) <->
            ns_base s <= m < ns_base s + ns_bits s /\ ns_bit (ns_words s) (m - ns_base s) = true.
Proof. exact (fun s => conj (members_sorted s) (members_In s)). Qed.

(* the parts survive the wire: in-range parts with all the words present are accepted iff
   numBits <= 256, and base, numBits and the needed words come back (extra words are not written) *)
Theorem C14_numset_wire_parts : forall k e base bits words extra,
  raw_inrange k base bits words extra ->
  (bits <= 256 -> wcount bits <= len words ->
   dec_ns k e (enc_ns k e (NS base bits words) ++ extra) =
   Some (NS base bits (firstn (Z.to_nat (wcount bits)) words), extra)) /\
  (256 < bits -> dec_ns k e (enc_ns k e (NS base bits words) ++ extra) = None).
Proof. exact (fun k e base bits words extra H => conj (raw_accept k e base bits words extra H) (raw_reject k e base bits words extra H)). Qed.

(* non-vacuity: numBits 25, members 10..20, all seven padding bits set *)
Example C14_numset_dirty_padding :
  let s := NS 10 25 [4292870271] in
  ns_accepted s /\ ns_collect KSN s = IOk [10; 11; 12; 13; 14; 15; 16; 17; 18; 19; 20] /\
  ns_collect_rev KSN s = IOk [20; 19; 18; 17; 16; 15; 14; 13; 12; 11; 10] /\
  ns_is_empty KSN s = Some false /\
  ns_is_empty KFN (NS 1000 5 [134217727]) = Some true /\ ns_collect KFN (NS 1000 5 [134217727]) = IOk [].
Proof. exact raw_dirty_padding. Qed.
Print Assumptions C14_numset_iter_exact.
Print Assumptions C14_numset_iter_rev.
Print Assumptions C14_numset_is_empty.

(* ---- re-serialisation --------------------------------------------------------------------- *)
Theorem C14_reserialise : forall e m m',
  built m -> parse_msg (ser e m) = POk m' -> ser e m' = ser e m.
Proof. exact reserialise. Qed.
Print Assumptions C14_reserialise.

(* ---- the model's loops are total: an error is a real decoding error ----------------------- *)
Theorem C14_parse_fuel : forall bs, parse_msg bs <> PFuel.
Proof. exact parse_never_out_of_fuel. Qed.
Theorem C14_plist_fuel : forall e bs, dec_plr_aux (S (length bs)) e bs <> OutOfFuel.
Proof. exact dec_plr_never_out_of_fuel. Qed.

(* ---- `built` contains the image of the builder -------------------------------------------- *)
Theorem C14_builder_data : forall e d sn rsi rd wr,
  len rd = 4 -> len wr = 4 -> i64_ok sn -> dd_ok d -> rsi_ok rsi ->
  len_serialized (sm_body (build_data e d sn rsi rd wr)) < 65536 ->
  built_sub (build_data e d sn rsi rd wr).
Proof. exact data_msg_built. Qed.
Theorem C14_builder_datafrag : forall e d sn rsi rd wr fnum fsize ssize s,
  len rd = 4 -> len wr = 4 -> i64_ok sn -> 1 <= sn -> rsi_ok rsi ->
  u32_ok fnum -> u16_ok fsize -> u32_ok ssize ->
  1 <= fsize <= ssize -> 1 <= fnum <= total_frags ssize fsize ->
  build_datafrag e d sn rsi rd wr fnum fsize ssize = Some (Some s) ->
  len_serialized (sm_body s) < 65536 ->
  built_sub s.
Proof. exact data_frag_msg_built. Qed.
Theorem C14_builder_gap : forall e sns wr rd s,
  len rd = 4 -> len wr = 4 -> Forall (fun x => 1 <= x <= MAX_ACCEPTED_SN) sns ->
  build_gap e sns wr rd = Some (Some s) -> built_sub s.
Proof. exact gap_msg_built. Qed.
Theorem C14_builder_gap_before : forall e sn wr rd s,
  len rd = 4 -> len wr = 4 -> i64_ok sn ->
  build_op (OpGapBefore e sn wr rd) = Some (Some s) -> built_sub s.
Proof. exact gap_before_built. Qed.
Theorem C14_builder_heartbeat : forall e wr first last count rd fin liv,
  len rd = 4 -> len wr = 4 -> i64_ok first -> i64_ok last -> i32_ok count ->
  forall s, build_op (OpHeartbeat e wr first last count rd fin liv) = Some (Some s) -> built_sub s.
Proof. exact heartbeat_msg_built. Qed.
Theorem C14_builder_dst_ts : forall e,
  (forall p s, len p = 12 -> build_op (OpDst e p) = Some (Some s) -> built_sub s) /\
  (forall ts s, match ts with Some (a, b) => u32_ok a /\ u32_ok b | None => True end ->
                build_op (OpTs e ts) = Some (Some s) -> built_sub s).
Proof. exact dst_ts_built. Qed.
Theorem C14_builder_create : forall f b,
  0 <= f -> Z.land f (fmask (kind_of_body b)) = f -> built_bodyb f b = true ->
  len_serialized b < 65536 -> built_sub (mk_sub f b).
Proof. exact mk_sub_built. Qed.
Theorem C14_numset_constructors_wf : forall k,
  (forall b, num_ok k b -> ns_wf k (ns_new b 0)) /\
  (forall b S s, S <> [] -> 1 <= adj_base b S -> adj_base b S + 256 <= n_hi k ->
                 ns_from_base_and_set k b S = Some s -> ns_wf k s).
Proof. exact constructors_wf. Qed.
Print Assumptions C14_builder_gap.

(* ---- oracle ------------------------------------------------------------------------------- *)
Theorem C14_oracle_sound : forall c o, ok c o = true <-> Spec c o.
Proof. exact oracle_sound. Qed.
Print Assumptions C14_oracle_sound.

(* the cases on which the oracle demands the round trip: built messages, and messages produced by
   builder / create_submessage calls only that are built up to the content_length the
   implementation computed itself *)
Theorem C14_demanded_spec : forall ops m,
  demandedb ops m = true <->
  built m \/ (existsb is_raw ops = false /\ built_hdrb (m_hdr m) = true /\
              forallb built_sub_looseb (m_subs m) = true).
Proof. exact demanded_spec. Qed.

Theorem C14_model_ok : forall c, ok c (run c) = true.
Proof. exact model_ok. Qed.
Print Assumptions C14_model_ok.

(* ---- the defect repaired by fix 989bc45, and what lies outside `built` -------------------- *)
(* with DataFrag::write_to as found, a built DATAFRAG with inline QoS did not parse back and its
   octetsToNextHeader disagreed with the bytes written *)
Theorem C14_datafrag_old_refuted :
  exists m, built m /\ parse_msg (ser_gen true LE m) <> POk (pad_canon m) /\
            exists s, In s (m_subs m) /\
                      len (enc_body_gen true (eflag (sm_flags s)) (sm_body s)) <> sm_len s.
Proof. exact datafrag_old_refuted. Qed.
Print Assumptions C14_datafrag_old_refuted.

Theorem C14_outside_built :
  parse_msg (ser LE (Msg (MH RTPS 3 0 [1; 18] (h_prefix std_hdr)) [mk_sub 1 hb])) = PErr /\
  parse_msg (ser LE (Msg std_hdr [mk_sub 1 (BAckNack [0; 0; 1; 4] [0; 0; 1; 3] (ns_new 1 257) 0)])) = PErr /\
  parse_msg (ser LE (Msg std_hdr [mk_sub 1 (BData [0; 0; 1; 4] [0; 0; 1; 3] 1 None (Some [1; 2; 3; 4]))])) =
    POk (Msg std_hdr [SM K_DATA 1 24 1 (BData [0; 0; 1; 4] [0; 0; 1; 3] 1 None None)]) /\
  parse_msg (ser LE (Msg std_hdr [mk_sub 3 (BInfoTs (Some (1, 2)))])) =
    POk (Msg std_hdr [SM K_INFO_TS 3 8 3 (BInfoTs None)]).
Proof. exact unbuilt_examples. Qed.

(* the 16-bit octetsToNextHeader: a DATA body above 65535 bytes followed by another submessage is
   outside `built` and does not round trip (not produced by the Writer, which fragments) *)
Theorem C14_oversize_refuted :
  builtb oversize = false /\ parse_msg (ser LE oversize) <> POk (pad_canon oversize).
Proof. exact oversize_refuted. Qed.

(* non-vacuity: a built message containing every submessage kind, both byte orders mixed *)
Example C14_all_kinds_built : built all_kinds.
Proof. exact all_kinds_built. Qed.
