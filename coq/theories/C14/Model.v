(* C14 — MessageBuilder / create_submessage model, the predicate `built`, and the correspondence
   interface: case, obs, run, obs_eqb and the property oracle ok.
   The codec itself is in Wire.v. *)
From Coq Require Import List ZArith Lia Bool.
From RD Require Import Common.Corr C15.Prim C15.PL C15.Qos C15.Disc C14.Wire.
Import ListNotations.
Open Scope Z_scope.

(* ------------------------------------------------------------------------------------------ *)
(* rtps/message.rs MessageBuilder and the create_submessage functions *)

(* CacheChange.data_value.  The SerializedPayload is given as written by its Writable:
   representation identifier (2), options (2), value. *)
Inductive ddsdata :=
| DData (sp : list Z)
| DDisposeByKey (sp : list Z)
| DDisposeByKeyHash (h : list Z).

(* BitFlags::<X>::from_endianness *)
Definition E_flag (e : endian) : Z := match e with LE => 1 | BE => 0 end.

(* Parameter::create_pid_status_info_parameter(true, true, false): PID_STATUS_INFO, [0,0,0,D|U] *)
Definition status_info_param : param := (113, [0; 0; 0; 3]).
(* related sample identity (GUID 16 bytes, SequenceNumber) under both parameter ids *)
Definition rsi_params (e : endian) (rsi : option (list Z * Z)) : list param :=
  match rsi with
  | None => []
  | Some (g, sn) => let v := g ++ enc_sn e sn in [(131, v); (32783, v)]
  end.

(* `.. as u16` *)
Definition u16trunc (n : Z) : Z := n mod 65536.

(* X::create_submessage(flags) and the Submessage { header, body } literals of MessageBuilder:
   kind of the body, flags.bits() in the header and next to the body,
   content_length = len_serialized() as u16 *)
Definition mk_sub (f : Z) (b : body) : submsg :=
  SM (kind_of_body b) f (u16trunc (len_serialized b)) f b.

Definition is_nil {A} (l : list A) : bool := match l with [] => true | _ => false end.

(* MessageBuilder::data_msg (security_plugins = None) *)
Definition build_data (e : endian) (d : ddsdata) (sn : Z) (rsi : option (list Z * Z))
           (rd wr : list Z) : submsg :=
  let pl := match d with
            | DData _ => []
            | DDisposeByKey _ => [status_info_param]
            | DDisposeByKeyHash h => [(112, h); status_info_param]
            end ++ rsi_params e rsi in
  let payload := match d with
                 | DData sp => Some sp | DDisposeByKey sp => Some sp | DDisposeByKeyHash _ => None
                 end in
  let have := negb (is_nil pl) in
  let f := Z.lor (Z.lor (E_flag e)
                        (match d with DData _ => 4 | DDisposeByKey _ => 8 | DDisposeByKeyHash _ => 2 end))
                 (if have then 2 else 0) in
  mk_sub f (BData rd wr sn (if have then Some pl else None) payload).

(* SerializedPayload::bytes_slice(from, to) on the written form *)
Definition sp_slice (sp : list Z) (from to : Z) : list Z :=
  let to' := Z.min to (len sp) in
  let from' := Z.min from to' in
  firstn (Z.to_nat (to' - from')) (skipn (Z.to_nat from') sp).

(* MessageBuilder::data_frag_msg.  outer None = panic (`usize::from(fragment_number) - 1`
   underflows for fragment number 0), inner None = nothing pushed (DisposeByKeyHash). *)
Definition build_datafrag (e : endian) (d : ddsdata) (sn : Z) (rsi : option (list Z * Z))
           (rd wr : list Z) (fnum fsize ssize : Z) : option (option submsg) :=
  match d with
  | DDisposeByKeyHash _ => Some None
  | DData sp | DDisposeByKey sp =>
    if fnum <? 1 then None
    else
      let pl := rsi_params e rsi in
      let have := negb (is_nil pl) in
      let payload := sp_slice sp ((fnum - 1) * fsize) (Z.min (fnum * fsize) ssize) in
      let f := Z.lor (Z.lor (E_flag e) (match d with DDisposeByKey _ => 4 | _ => 0 end))
                     (if have then 2 else 0) in
      Some (Some (mk_sub f (BDataFrag rd wr sn fnum 1 ssize fsize (if have then Some pl else None) payload)))
  end.

(* MessageBuilder::gap_msg: the contiguous run starting at the smallest member; [cur] is a member,
   the list the strictly ascending rest of the BTreeSet.  None = plus_1() overflows. *)
Fixpoint run_end (cur : Z) (l : list Z) : option Z :=
  if n_hi KSN <=? cur then None
  else match l with
       | y :: r => if y =? cur + 1 then run_end y r else Some (cur + 1)
       | [] => Some (cur + 1)
       end.
Definition build_gap (e : endian) (sns : list Z) (wr rd : list Z) : option (option submsg) :=
  match sns with
  | [] => Some None
  | g0 :: r =>
    match run_end g0 r with
    | None => None
    | Some list_base =>
      match ns_from_base_and_set KSN list_base (filter (fun s => list_base <=? s) sns) with
      | None => None
      | Some gl => Some (Some (mk_sub (E_flag e) (BGap rd wr g0 gl)))
      end
    end
  end.

Inductive bop :=
| OpDst (e : endian) (prefix : list Z)
| OpTs (e : endian) (ts : option (Z * Z))
| OpData (e : endian) (d : ddsdata) (sn : Z) (rsi : option (list Z * Z)) (rd wr : list Z)
| OpDataFrag (e : endian) (d : ddsdata) (sn : Z) (rsi : option (list Z * Z)) (rd wr : list Z)
             (fnum fsize ssize : Z)
| OpGap (e : endian) (sns : list Z) (wr rd : list Z)
| OpGapBefore (e : endian) (sn : Z) (wr rd : list Z)
| OpHeartbeat (e : endian) (wr : list Z) (first last count : Z) (rd : list Z) (fin liv : bool)
(* X { .. }.create_submessage(flags) (Gap, Heartbeat, AckNack, NackFrag, InfoDestination, InfoSource)
   or, for the kinds without such a function, a Submessage literal whose content_length is
   len_serialized() as u16 *)
| OpCreate (f : Z) (b : body)
(* a Submessage literal with arbitrary header fields *)
| OpRaw (s : submsg).

Definition build_op (o : bop) : option (option submsg) :=
  match o with
  | OpDst e p => Some (Some (mk_sub (E_flag e) (BInfoDst p)))
  | OpTs e ts => Some (Some (mk_sub (Z.lor (E_flag e) (match ts with None => 2 | Some _ => 0 end)) (BInfoTs ts)))
  | OpData e d sn rsi rd wr => Some (Some (build_data e d sn rsi rd wr))
  | OpDataFrag e d sn rsi rd wr fnum fsize ssize => build_datafrag e d sn rsi rd wr fnum fsize ssize
  | OpGap e sns wr rd => build_gap e sns wr rd
  | OpGapBefore e sn wr rd => Some (Some (mk_sub (E_flag e) (BGap rd wr 1 (ns_new sn 0))))
  | OpHeartbeat e wr first last count rd fin liv =>
      Some (Some (mk_sub (Z.lor (Z.lor (E_flag e) (if fin then 2 else 0)) (if liv then 4 else 0))
                         (BHeartbeat rd wr first last count)))
  | OpCreate f b => Some (Some (mk_sub f b))
  | OpRaw s => Some (Some s)
  end.

Fixpoint build (ops : list bop) : option (list submsg) :=
  match ops with
  | [] => Some []
  | o :: r =>
    match build_op o, build r with
    | Some (Some s), Some l => Some (s :: l)
    | Some None, Some l => Some l
    | _, _ => None
    end
  end.

(* ------------------------------------------------------------------------------------------ *)
(* `built`: the messages the implementation can construct and that the RTPS receiver rules admit.
   Field values are arbitrary within their Rust types; flags are the typed BitFlags of the kind and
   agree with what the body carries; content_length is what len_serialized() says and fits u16;
   number sets satisfy the invariant of their constructors (<= 256 bits, exactly the words needed);
   DATAFRAG satisfies the validity conditions its reader enforces; the header is valid. *)
Definition rangeb (lo hi x : Z) : bool := (lo <=? x) && (x <? hi).
Definition i64b := rangeb (-9223372036854775808) 9223372036854775808.
Definition i32b := rangeb (-2147483648) 2147483648.
Definition u32b := rangeb 0 4294967296.
Definition u16b := rangeb 0 65536.
Definition lenb (n : Z) (l : list Z) : bool := len l =? n.
Definition param_okb (p : param) : bool :=
  u16b (fst p) && negb (fst p =? PID_SENTINEL) && (len (snd p) + pad4 (len (snd p)) <? 65536).
Definition oparams_okb (iq : option (list param)) : bool :=
  match iq with Some ps => forallb param_okb ps | None => true end.
Definition ns_wfb (k : nkind) (s : numset) : bool :=
  (n_lo k <=? ns_base s) && (ns_base s <=? n_hi k) && (0 <=? ns_bits s) && (ns_bits s <=? 256) &&
  (Z.of_nat (length (ns_words s)) =? wcount (ns_bits s)) && forallb u32b (ns_words s).
Definition locator_okb (l : locator) : bool :=
  match l with
  | LInvalid | LReserved => true
  | LUdpV4 _ _ _ _ port => u16b port
  | LUdpV6 addr port fl sc => lenb 16 addr && u16b port && (fl =? 0) && (sc =? 0)
  | LOther kind port addr =>
      i32b kind && negb (kind =? -1) && negb (kind =? 0) && negb (kind =? 1) && negb (kind =? 2) &&
      u32b port && lenb 16 addr
  end.
Definition locs_okb (ls : list locator) : bool :=
  forallb locator_okb ls && (Z.of_nat (length ls) <? 4294967296).
Definition is_some {A} (o : option A) : bool := match o with Some _ => true | None => false end.

Definition built_bodyb (f : Z) (b : body) : bool :=
  match b with
  | BData rd wr sn iq pl =>
      lenb 4 rd && lenb 4 wr && i64b sn && oparams_okb iq &&
      Bool.eqb (Z.testbit f 1) (is_some iq) &&
      Bool.eqb (Z.testbit f 2 || Z.testbit f 3) (is_some pl)
  | BDataFrag rd wr sn fsn fis dsz fsz iq pl =>
      lenb 4 rd && lenb 4 wr && i64b sn && (1 <=? sn) && u32b fsn && u16b fis && u32b dsz && u16b fsz &&
      (1 <=? fsz) && (fsz <=? dsz) && (1 <=? fsn) && (fsn <=? total_frags dsz fsz) &&
      oparams_okb iq && Bool.eqb (Z.testbit f 1) (is_some iq)
  | BGap rd wr start gl => lenb 4 rd && lenb 4 wr && i64b start && ns_wfb KSN gl
  | BHeartbeat rd wr first last count => lenb 4 rd && lenb 4 wr && i64b first && i64b last && i32b count
  | BHeartbeatFrag rd wr sn lastf count => lenb 4 rd && lenb 4 wr && i64b sn && u32b lastf && i32b count
  | BAckNack rd wr st count => lenb 4 rd && lenb 4 wr && ns_wfb KSN st && i32b count
  | BNackFrag rd wr sn st count => lenb 4 rd && lenb 4 wr && i64b sn && ns_wfb KFN st && i32b count
  | BInfoTs ts =>
      Bool.eqb (Z.testbit f 1) (negb (is_some ts)) &&
      match ts with Some (s, fr) => u32b s && u32b fr | None => true end
  | BInfoDst p => lenb 12 p
  | BInfoSrc unused major minor vendor prefix => u32b unused && lenb 2 vendor && lenb 12 prefix
  | BInfoReply uni multi =>
      locs_okb uni && match multi with Some m => locs_okb m | None => true end
  end.

Definition built_subb (s : submsg) : bool :=
  (sm_kind s =? kind_of_body (sm_body s)) && (0 <=? sm_flags s) &&
  (Z.land (sm_flags s) (fmask (sm_kind s)) =? sm_flags s) && (sm_bflags s =? sm_flags s) &&
  (sm_len s =? len_serialized (sm_body s)) && (sm_len s <? 65536) &&
  built_bodyb (sm_flags s) (sm_body s).

Definition built_hdrb (h : mheader) : bool :=
  hdr_valid h && lenb 2 (h_vendor h) && lenb 12 (h_prefix h).

Definition builtb (m : message) : bool := built_hdrb (m_hdr m) && forallb built_subb (m_subs m).

(* `built` without trusting the content_length found in the submessage header: used by the oracle
   for messages whose content_length was computed by the implementation itself (no Submessage
   literal with a hand-written length among the ops), so that a wrong len_serialized() is judged
   by its consequences instead of making the message fall outside `built` *)
Definition built_sub_looseb (s : submsg) : bool :=
  (sm_kind s =? kind_of_body (sm_body s)) && (0 <=? sm_flags s) &&
  (Z.land (sm_flags s) (fmask (sm_kind s)) =? sm_flags s) && (sm_bflags s =? sm_flags s) &&
  (len_serialized (sm_body s) <? 65536) && built_bodyb (sm_flags s) (sm_body s).
Definition built_sub (s : submsg) : Prop := built_subb s = true.
Definition built (m : message) : Prop := builtb m = true.

(* ------------------------------------------------------------------------------------------ *)
(* what the property says about the bytes of one submessage: the header names the kind and the
   flags, octetsToNextHeader (read in the byte order the flags announce) is exactly the number of
   body bytes that follow, and the flags agree with what the body carries *)
Definition flags_agreeb (s : submsg) : bool :=
  let f := sm_flags s in
  match sm_body s with
  | BData _ _ _ iq pl =>
      Bool.eqb (Z.testbit f 1) (is_some iq) && Bool.eqb (Z.testbit f 2 || Z.testbit f 3) (is_some pl)
  | BDataFrag _ _ _ _ _ _ _ iq _ => Bool.eqb (Z.testbit f 1) (is_some iq)
  | BInfoTs ts => Bool.eqb (Z.testbit f 1) (negb (is_some ts))
  | _ => true
  end.

(* walk the submessages of [bytes] (after the 20-byte header) guided only by the lengths found in
   the bytes; the i-th frame must belong to the i-th submessage of m *)
Fixpoint frames_ok (subs : list submsg) (bs : list Z) : bool :=
  match subs with
  | [] => is_nil bs
  | s :: r =>
    match read_subhdr bs with
    | None => false
    | Some ((k, f, n), rest) =>
      (k =? sm_kind s) && (f =? sm_flags s) && (n <=? len rest) && flags_agreeb s &&
      (* the n bytes that follow are the body: as many as the writer emits for this body *)
      (n =? len (enc_body (eflag f) (sm_body s))) &&
      frames_ok r (skipn (Z.to_nat n) rest)
    end
  end.

(* ------------------------------------------------------------------------------------------ *)
(* decidable equality of the structures *)
Definition locator_eq_dec (a b : locator) : {a = b} + {a <> b}.
Proof. decide equality; try apply Z.eq_dec; apply (list_eq_dec Z.eq_dec). Defined.
Definition param_eq_dec (a b : param) : {a = b} + {a <> b}.
Proof. decide equality; [apply (list_eq_dec Z.eq_dec) | apply Z.eq_dec]. Defined.
Definition numset_eq_dec (a b : numset) : {a = b} + {a <> b}.
Proof. decide equality; try apply Z.eq_dec; apply (list_eq_dec Z.eq_dec). Defined.
Definition opt_eq_dec {A} (d : forall a b : A, {a = b} + {a <> b}) (a b : option A) : {a = b} + {a <> b}.
Proof. decide equality. Defined.
Definition zz_eq_dec (a b : Z * Z) : {a = b} + {a <> b}.
Proof. decide equality; apply Z.eq_dec. Defined.
Definition body_eq_dec (a b : body) : {a = b} + {a <> b}.
Proof.
  decide equality;
    first [ apply Z.eq_dec | apply (list_eq_dec Z.eq_dec) | apply numset_eq_dec
          | apply (opt_eq_dec (list_eq_dec Z.eq_dec))
          | apply (opt_eq_dec (list_eq_dec param_eq_dec))
          | apply (opt_eq_dec zz_eq_dec)
          | apply (list_eq_dec locator_eq_dec)
          | apply (opt_eq_dec (list_eq_dec locator_eq_dec)) ].
Defined.
Definition submsg_eq_dec (a b : submsg) : {a = b} + {a <> b}.
Proof. decide equality; first [apply Z.eq_dec | apply body_eq_dec]. Defined.
Definition mheader_eq_dec (a b : mheader) : {a = b} + {a <> b}.
Proof. decide equality; first [apply Z.eq_dec | apply (list_eq_dec Z.eq_dec)]. Defined.
Definition message_eq_dec (a b : message) : {a = b} + {a <> b}.
Proof. decide equality; [apply (list_eq_dec submsg_eq_dec) | apply mheader_eq_dec]. Defined.
Definition pres_eq_dec {A} (d : forall a b : A, {a = b} + {a <> b}) (a b : pres A) : {a = b} + {a <> b}.
Proof. decide equality. Defined.
Definition bytes_eq_dec := list_eq_dec Z.eq_dec.
Definition dec2b {P Q} (d : {P} + {Q}) : bool := if d then true else false.

(* ------------------------------------------------------------------------------------------ *)
(* correspondence interface *)
Inductive case :=
(* build the submessages with MessageBuilder / create_submessage / literals, put the header in
   front, serialise with write_to_vec_with_ctx(ctx) (and with the other ctx), parse the bytes with
   Message::read_from_buffer, serialise the parsed message again *)
| CMsg (ctx : endian) (h : mheader) (ops : list bop)
(* hostile stream: parse arbitrary bytes, serialise what was parsed *)
| CBytes (bs : list Z)
(* table tie for NumberSet: from_base_and_set(base, set) (set strictly ascending), its parts,
   iter(), write in both byte orders, read back *)
| CNumSet (k : nkind) (base : Z) (set : list Z)
(* a NumberSet as it ARRIVES ON THE WIRE: the raw parts (any words: dirty padding after numBits,
   too few / too many words) are written by the real writer in byte order [e], [extra] bytes are
   appended, the real reader parses the bytes, and every accessor of the parsed set is observed:
   base(), iter() forwards, iter().rev(), next()/next_back() alternately, is_empty() *)
| CNumRaw (k : nkind) (e : endian) (base bits : Z) (words : list Z) (extra : list Z).

(* what the accessors of a parsed set report *)
Record rawres := RR {
  rr_set : numset;          (* the parts of the parsed set *)
  rr_rest : Z;              (* number of bytes the reader left unread *)
  rr_base : Z;              (* base() *)
  rr_fwd : ires;            (* iter().collect() *)
  rr_bwd : ires;            (* iter().rev().collect() *)
  rr_alt : ires;            (* next(), next_back(), next(), ... until the first None *)
  rr_empty : option bool    (* is_empty(); None = panic *)
}.

Inductive obs :=
| ObsMsg (m : message) (bytes : list Z) (ctx_same : bool) (parsed : pres message) (reser_same : bool)
| ObsBytes (parsed : pres message) (reser : option (list Z))
| ObsNumSet (s : numset) (iter : list Z) (le be : list Z) (reread : bool)
| ObsNumRaw (bytes : list Z) (r : option rawres)    (* None = the reader rejects the bytes *)
| ObsPanic.

Definition other (e : endian) : endian := match e with LE => BE | BE => LE end.

Definition run (c : case) : obs :=
  match c with
  | CMsg ctx h ops =>
    match build ops with
    | None => ObsPanic
    | Some subs =>
      let m := Msg h subs in
      let bytes := ser ctx m in
      let p := parse_msg bytes in
      ObsMsg m bytes (dec2b (bytes_eq_dec (ser (other ctx) m) bytes)) p
             (match p with POk m' => dec2b (bytes_eq_dec (ser ctx m') bytes) | _ => false end)
    end
  | CBytes bs =>
    let p := parse_msg bs in
    ObsBytes p (match p with POk m' => Some (ser LE m') | _ => None end)
  | CNumSet k base set =>
    match ns_from_base_and_set k base set with
    | None => ObsPanic
    | Some s =>
      match ns_iter k s with
      | None => ObsPanic
      | Some it =>
        ObsNumSet s it (enc_ns k LE s) (enc_ns k BE s)
          (match parse (dec_ns k LE) (enc_ns k LE s), parse (dec_ns k BE) (enc_ns k BE s) with
           | Some a, Some b => dec2b (numset_eq_dec a s) && dec2b (numset_eq_dec b s)
           | _, _ => false
           end)
      end
    end
  | CNumRaw k e base bits words extra =>
    let bytes := enc_ns k e (NS base bits words) ++ extra in
    ObsNumRaw bytes
      (match dec_ns k e bytes with
       | None => None
       | Some (s, rest) =>
         Some (RR s (len rest) (ns_base_fn s) (ns_collect k s) (ns_collect_rev k s) (ns_collect_alt k s)
                  (ns_is_empty k s))
       end)
  end.

Definition ires_eq_dec (a b : ires) : {a = b} + {a <> b}.
Proof. decide equality; apply (list_eq_dec Z.eq_dec). Defined.
Definition rawres_eq_dec (a b : rawres) : {a = b} + {a <> b}.
Proof.
  decide equality;
    first [ apply Z.eq_dec | apply numset_eq_dec | apply ires_eq_dec | apply (opt_eq_dec Bool.bool_dec) ].
Defined.

Definition obs_eq_dec (a b : obs) : {a = b} + {a <> b}.
Proof.
  decide equality;
    first [ apply message_eq_dec | apply bytes_eq_dec | apply Bool.bool_dec
          | apply (pres_eq_dec message_eq_dec) | apply (opt_eq_dec bytes_eq_dec)
          | apply numset_eq_dec | apply (opt_eq_dec rawres_eq_dec) ].
Defined.
Definition obs_eqb (m i : obs) : bool := dec2b (obs_eq_dec m i).

(* ------------------------------------------------------------------------------------------ *)
(* the property oracle: looks at the case and at the observation only *)
Definition mem (x : Z) (l : list Z) : bool := existsb (Z.eqb x) l.

Definition is_raw (o : bop) : bool := match o with OpRaw _ => true | _ => false end.
(* the messages the property speaks about: built, or produced by builder / create_submessage calls
   only and built up to the content_length the implementation computed *)
Definition demandedb (ops : list bop) (m : message) : bool :=
  builtb m ||
  (negb (existsb is_raw ops) && built_hdrb (m_hdr m) && forallb built_sub_looseb (m_subs m)).

(* ---- wire-parsed number sets ---- *)
Definition byteb := rangeb 0 256.
Definition num_okb (k : nkind) (n : Z) : bool := (n_lo k <=? n) && (n <=? n_hi k).
Definition zlist_eqb (a b : list Z) : bool := dec2b (bytes_eq_dec a b).
(* positions 0, 2, 4, ... of l (front = true) or 1, 3, 5, ... (front = false) *)
Fixpoint fronts (front : bool) (l : list Z) : list Z :=
  match l with
  | [] => []
  | x :: r => if front then x :: fronts false r else fronts true r
  end.
Definition over (k : nkind) (x : Z) : bool := n_hi k <? x.

(* a consumer of the iterator that visits the members in the order [want]: it either collects
   exactly them, or the debug-build addition `bit + base` panicked, which is only possible if a
   member of the window lies above the maximum of the number type *)
Definition collect_okb (k : nkind) (mem : list Z) (want : list Z -> bool) (r : ires) : bool :=
  match r with
  | IOk l => want l && negb (existsb (over k) mem)
  | IPanic => existsb (over k) mem
  | IFuel => false
  end.

(* what the property demands of the accessors of a set with the parts [s], however it was made:
   the members reported are exactly the in-window bits (mem = members s, ascending; padding bits
   after numBits and the words' other content never show), backwards is the reverse, alternating
   from both ends meets in the middle, is_empty() says whether a bit below numBits is set *)
Definition raw_accessors_okb (k : nkind) (s : numset) (r : rawres) : bool :=
  let mem := members s in
  (rr_base r =? ns_base s) &&
  collect_okb k mem (fun l => zlist_eqb l mem) (rr_fwd r) &&
  collect_okb k mem (fun l => zlist_eqb l (rev mem)) (rr_bwd r) &&
  collect_okb k mem (fun l => zlist_eqb (fronts true l ++ rev (fronts false l)) mem) (rr_alt r) &&
  match rr_empty r with
  | Some b => Bool.eqb b (is_nil mem) && negb (existsb (over k) (firstn 1 mem))
  | None => existsb (over k) (firstn 1 mem)
  end.

(* the shape the reader guarantees for a set it accepts *)
Definition raw_shapeb (k : nkind) (s : numset) : bool :=
  (0 <=? ns_bits s) && (ns_bits s <=? 256) && (len (ns_words s) =? wcount (ns_bits s)).

(* the parts survive the wire: for in-range inputs the reader accepts iff numBits <= 256 and the
   bytes suffice (decided here for the case that the writer had all the words), base and numBits
   come back, and every word the writer had comes back *)
Definition raw_inrangeb (k : nkind) (base bits : Z) (words extra : list Z) : bool :=
  num_okb k base && u32b bits && forallb u32b words && forallb byteb extra.
Definition raw_parts_okb (base bits : Z) (words extra : list Z) (s : numset) (nrest : Z) : bool :=
  (ns_base s =? base) && (ns_bits s =? bits) &&
  (let n := Z.to_nat (Z.min (wcount bits) (len words)) in
   zlist_eqb (firstn n (ns_words s)) (firstn n words)) &&
  (if wcount bits <=? len words then nrest =? len extra else true).

Definition ok (c : case) (o : obs) : bool :=
  match c, o with
  | CMsg ctx h ops, ObsMsg m bytes ctx_same parsed reser_same =>
    if demandedb ops m then
      (* parses back to an equal message up to the zero padding; same bytes in either context;
         lengths and flags agree with the bytes; re-serialising reproduces the bytes *)
      ctx_same && dec2b (pres_eq_dec message_eq_dec parsed (POk (pad_canon m))) && reser_same &&
      dec2b (bytes_eq_dec (firstn 20 bytes) (enc_mheader (m_hdr m))) && frames_ok (m_subs m) (skipn 20 bytes)
    else true
  | CMsg _ _ ops, ObsPanic => match build ops with None => true | Some _ => false end
  | CBytes _, ObsBytes parsed _ => match parsed with PFuel => false | _ => true end
  | CNumSet k base set, ObsNumSet s it le be reread =>
    match set with
    | [] => true
    | _ =>
      let b' := adj_base base set in
      if (1 <=? b') && (b' + 256 <=? n_hi k) then
        (ns_base s =? b') && reread &&
        forallb (fun x => Bool.eqb (mem x it) (mem x set && (b' <=? x) && (x <? b' + 256))) (set ++ it)
      else true
    end
  | CNumSet k base set, ObsPanic =>
    match set with
    | [] => false
    | _ => let b' := adj_base base set in negb ((1 <=? b') && (b' + 256 <=? n_hi k))
    end
  | CNumRaw k e base bits words extra, ObsNumRaw _ None =>
    negb (raw_inrangeb k base bits words extra && (bits <=? 256) && (wcount bits <=? len words))
  | CNumRaw k e base bits words extra, ObsNumRaw _ (Some r) =>
    let s := rr_set r in
    raw_shapeb k s &&
    (if raw_inrangeb k base bits words extra then raw_parts_okb base bits words extra s (rr_rest r) else true) &&
    raw_accessors_okb k s r
  | _, _ => false
  end.
